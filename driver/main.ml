(* Correspondence driver: runs the extracted Coq model on a script and prints one observation
   line per operation, in the same format as the Rust harness.  Hand-written glue only:
   script parsing, number/hex conversion, printing. *)
open Uf_model

(* ---------- conversions ---------- *)
let rec pos_of_int i =
  if i = 1 then XH else if i land 1 = 0 then XO (pos_of_int (i lsr 1)) else XI (pos_of_int (i lsr 1))
let n_of_int i = if i < 0 then failwith "n_of_int" else if i = 0 then N0 else Npos (pos_of_int i)
let rec int_of_pos = function XH -> 1 | XO p -> 2 * int_of_pos p | XI p -> 2 * int_of_pos p + 1
let int_of_n = function N0 -> 0 | Npos p -> int_of_pos p

let n10 = n_of_int 10
let n_of_string s =
  let r = ref N0 in
  String.iter (fun c ->
    if c < '0' || c > '9' then failwith ("bad number " ^ s);
    r := N.add (N.mul !r n10) (n_of_int (Char.code c - 48))) s;
  !r
let string_of_n n =
  if n = N0 then "0" else begin
    let b = Buffer.create 24 in
    let rec go n acc = if n = N0 then acc else go (N.div n n10) (int_of_n (N.modulo n n10) :: acc) in
    List.iter (fun d -> Buffer.add_char b (Char.chr (48 + d))) (go n []);
    Buffer.contents b
  end

let hexdigit c = match c with
  | '0'..'9' -> Char.code c - 48 | 'a'..'f' -> Char.code c - 87 | 'A'..'F' -> Char.code c - 55
  | _ -> failwith "bad hex"
let byte_tbl = Array.init 256 n_of_int
let bytes_of_hex s =
  if s = "-" then [] else begin
    let n = String.length s / 2 in
    let rec go i acc = if i < 0 then acc else go (i - 1) (byte_tbl.(hexdigit s.[2*i] * 16 + hexdigit s.[2*i+1]) :: acc) in
    go (n - 1) []
  end
let hex_of_bytes l =
  if l = [] then "-" else begin
    let b = Buffer.create 64 in
    List.iter (fun x -> Buffer.add_string b (Printf.sprintf "%02x" (int_of_n x))) l;
    Buffer.contents b
  end

(* ---------- frame text format ---------- *)
let opt_tok = function None -> "-" | Some v -> string_of_n v
let frame_to_string f =
  let b = Buffer.create 128 in
  let add s = Buffer.add_string b s in
  let addn n = add " "; add (string_of_n n) in
  (match f with
   | FSyn (v, n, a, bb, c) -> add "syn"; List.iter addn [v; n; a; bb; c]
   | FSynAck (na, n, a, bb, c) -> add "synack"; List.iter addn [na; n; a; bb; c]
   | FHsAck na -> add "hsack"; addn na
   | FHsError (na, e) -> add "hserr"; addn na;
       add (match e with ErrVersion -> " 0" | ErrConfig -> " 1" | ErrServerFull -> " 2")
   | FDisconnect -> add "disc"
   | FDisconnectAck -> add "discack"
   | FData (s, n, dgs) ->
       add "data"; addn s; add (if n then " 1" else " 0"); add (Printf.sprintf " %d" (List.length dgs));
       List.iter (fun d ->
         List.iter addn [d.dg_seq; d.dg_chan; d.dg_wpl; d.dg_cpl; d.dg_frag; d.dg_frag_last];
         add " "; add (hex_of_bytes d.dg_data)) dgs
   | FSync (nf, np) -> add "sync "; add (opt_tok nf); add " "; add (opt_tok np)
   | FAcks (fb, pb, acks) ->
       add "acks"; addn fb; addn pb; add (Printf.sprintf " %d" (List.length acks));
       List.iter (fun a -> addn a.ag_base; addn a.ag_bits; add (if a.ag_nonce then " 1" else " 0")) acks);
  Buffer.contents b

let parse_frame toks =
  let n = n_of_string in
  let opt s = if s = "-" then None else Some (n s) in
  match toks with
  | ["syn"; v; a; b; c; d] -> FSyn (n v, n a, n b, n c, n d)
  | ["synack"; v; a; b; c; d] -> FSynAck (n v, n a, n b, n c, n d)
  | ["hsack"; a] -> FHsAck (n a)
  | ["hserr"; a; e] -> FHsError (n a, (match e with "0" -> ErrVersion | "1" -> ErrConfig | _ -> ErrServerFull))
  | ["disc"] -> FDisconnect
  | ["discack"] -> FDisconnectAck
  | "data" :: s :: nonce :: cnt :: rest ->
      let rec dgs k rest acc =
        if k = 0 then List.rev acc else
        match rest with
        | a :: b :: c :: d :: e :: f :: h :: rest' ->
            dgs (k - 1) rest' ({ dg_seq = n a; dg_chan = n b; dg_wpl = n c; dg_cpl = n d;
                                 dg_frag = n e; dg_frag_last = n f; dg_data = bytes_of_hex h } :: acc)
        | _ -> failwith "bad data frame spec" in
      FData (n s, nonce = "1", dgs (int_of_string cnt) rest [])
  | ["sync"; a; b] -> FSync (opt a, opt b)
  | "acks" :: fb :: pb :: cnt :: rest ->
      let rec ags k rest acc =
        if k = 0 then List.rev acc else
        match rest with
        | a :: b :: c :: rest' -> ags (k - 1) rest' ({ ag_base = n a; ag_bits = n b; ag_nonce = (c = "1") } :: acc)
        | _ -> failwith "bad ack frame spec" in
      FAcks (n fb, n pb, ags (int_of_string cnt) rest [])
  | _ -> failwith ("bad frame spec: " ^ String.concat " " toks)

let site_name s = match int_of_n s with
  | 1 -> "index" | 2 -> "unwrap" | 3 -> "overflow" | 4 -> "debug_assert" | 5 -> "panic" | _ -> "other"

(* ---------- codec mode ---------- *)
let print_read bytes =
  match read_frame bytes with
  | Ok None -> print_string "read: none\n"
  | Ok (Some f) -> Printf.printf "read: %s\n" (frame_to_string f)
  | Panic _ -> print_string "read: PANIC\n"
  | Hang _ -> print_string "read: HANG\n"

let n256 = n_of_int 256
let with_crc body =
  let crc = crc_compute body in
  let b k = N.modulo (N.div crc (n_of_int (1 lsl k))) n256 in
  body @ [b 24; b 16; b 8; b 0]

let rec split_bar acc = function
  | [] -> failwith "missing |"
  | "|" :: rest -> (List.rev acc, rest)
  | t :: rest -> split_bar (t :: acc) rest

let rec take k l = if k = 0 then [] else match l with [] -> [] | x :: r -> x :: take (k - 1) r

let codec_op toks =
  match toks with
  | ["read"; hex] -> print_read (bytes_of_hex hex)
  | ["readfix"; hex] -> print_read (with_crc (bytes_of_hex hex))
  | "write" :: spec ->
      let f = parse_frame spec in
      Printf.printf "write: %s\n" (hex_of_bytes (write_frame f))
  | "rt" :: spec ->
      let f = parse_frame spec in
      let bytes = write_frame f in
      Printf.printf "write: %d %s\n" (List.length bytes) (hex_of_bytes bytes);
      print_read bytes
  | "flip" :: rest ->
      let (a, b) = split_bar [] rest in
      let f = parse_frame b in
      let bytes = Array.of_list (List.map int_of_n (write_frame f)) in
      let nbits = Array.length bytes * 8 in
      let pos = ref [] in
      List.iter (fun t ->
        let p = int_of_string t mod nbits in
        if not (List.mem p !pos) then begin
          pos := p :: !pos;
          bytes.(p / 8) <- bytes.(p / 8) lxor (1 lsl (p mod 8))
        end) (List.tl a);
      let pos = List.sort compare !pos in
      Printf.printf "flip: %d [%s]\n" (Array.length bytes) (String.concat ", " (List.map string_of_int pos));
      print_read (List.map (fun x -> byte_tbl.(x)) (Array.to_list bytes))
  | "flipend" :: rest ->
      let (a, b) = split_bar [] rest in
      let f = parse_frame b in
      let bytes = Array.of_list (List.map int_of_n (write_frame f)) in
      let nbits = Array.length bytes * 8 in
      let pos = ref [] in
      List.iter (fun t ->
        let p = nbits - 1 - (int_of_string t mod nbits) in
        if not (List.mem p !pos) then begin
          pos := p :: !pos;
          bytes.(p / 8) <- bytes.(p / 8) lxor (1 lsl (p mod 8))
        end) (List.tl a);
      let pos = List.sort compare !pos in
      Printf.printf "flip: %d [%s]\n" (Array.length bytes) (String.concat ", " (List.map string_of_int pos));
      print_read (List.map (fun x -> byte_tbl.(x)) (Array.to_list bytes))
  | "mutfix" :: rest ->
      let (a, b) = split_bar [] rest in
      let f = parse_frame b in
      let full = write_frame f in
      let body = take (List.length full - 4) full in
      let blen = List.length body in
      let body = match a with
        | ["trunc"; n] -> let n = min (int_of_string n) blen in take (blen - n) body
        | ["append"; h] -> body @ bytes_of_hex h
        | ["set"; i; v] -> let i = int_of_string i mod blen in
            List.mapi (fun j x -> if j = i then byte_tbl.(int_of_string v) else x) body
        | ["none"] -> body
        | _ -> failwith "bad mutation" in
      Printf.printf "mutfix: %d %s\n" (List.length body) (hex_of_bytes (take 24 body));
      print_read (with_crc body)
  | ["crc"; hex] -> Printf.printf "crc: %s\n" (string_of_n (crc_compute (bytes_of_hex hex)))
  | _ -> failwith ("bad codec op: " ^ String.concat " " toks)

(* ---------- state dumps (same text as the cfg(uflow_verif) verif_dump() functions) ---------- *)
let sn = string_of_n
let z_to_string = function
  | Z0 -> "0" | Zpos p -> string_of_n (Npos p) | Zneg p -> "-" ^ string_of_n (Npos p)
let optn = function None -> "-" | Some v -> sn v
let b01 b = if b then "1" else "0"
let fbits (x : Float64.t) = Printf.sprintf "%016Lx" (Int64.bits_of_float (Float64.to_float x))
let hex_of_n n =
  if n = N0 then "0" else begin
    let n16 = n_of_int 16 in
    let rec go n acc = if n = N0 then acc else go (N.div n n16) ("0123456789abcdef".[int_of_n (N.modulo n n16)] :: acc) in
    let l = go n [] in String.init (List.length l) (List.nth l)
  end

let src_dump (c : send_rate_comp) =
  let mode = match c.sr_mode_ with
    | AwaitSend -> "A" | SlowStart t -> "S" ^ optn t | ThroughputEqn r -> "T" ^ sn r in
  let rs = String.concat "," (List.map (fun e -> sn e.re_value ^ "@" ^ sn e.re_time ^ (if e.re_initial then "i" else "")) c.sr_recv_set) in
  Printf.sprintf "X=%s max=%s mode=%s plr=%s nfe=%s idle=%s rtts=%s rttms=%s rtoms=%s rs=[%s]"
    (sn c.sr_rate) (sn c.sr_max_rate) mode (fbits c.sr_prev_loss) (optn c.sr_nofeedback_exp) (b01 c.sr_nofeedback_idle)
    (match c.sr_rtt_s with Some x -> fbits x | None -> "-") (optn c.sr_rtt_ms) (optn c.sr_rto_ms) rs

let hc_dump (h : hc) =
  let s = h.h_snd and q = h.h_fq and r = h.h_rcv and fa = h.h_faq in
  let ad = match q.fq_ack_data with Some d -> sn d.ad_last_send ^ ":" ^ sn d.ad_total ^ ":" ^ b01 d.ad_rate_limited | None -> "-" in
  let li = String.concat "," (List.map (fun e -> sn e.li_end ^ "/" ^ sn e.li_len) q.fq_li) in
  let rb = q.fq_rb in
  Printf.sprintf "now=%s rtt=%s rto=%s credit=%s fid=%s sr=%s stb=%s pq=%d rq=%d | snd q=%d base=%s next=%s alloc=%s total=%s | fq wbase=%s next=%s lbase=%s llen=%d rl=%s lf=%s ad=%s rb=%s:%s:%s:%s li=[%s] | rcv base=%s end=%s alloc=%s crf=%s wrf=%s held=%s cb=[%s] cn=[%s] mk=[%s] ef=%d df=%d | faq base=%s len=%d | src %s"
    (sn h.h_now) (sn h.h_rtt) (sn h.h_rto) (z_to_string h.h_credit) (sn h.h_flush_id) (b01 h.h_sync_reply) (sn h.h_sync_base)
    (List.length h.h_pq) (List.length h.h_rq)
    (List.length s.s_queue) (sn s.s_base) (sn s.s_next) (sn s.s_alloc) (sn s.s_total)
    (sn q.fq_wbase) (sn q.fq_next) (sn q.fq_lbase) (List.length q.fq_frames) (b01 q.fq_rate_limited) (optn q.fq_last_feedback) ad
    (sn rb.rb_base) (sn rb.rb_count) (sn rb.rb_f0) (sn rb.rb_f1) li
    (sn r.r_base) (sn r.r_end) (sn r.r_alloc) (hex_of_n r.r_crf) (b01 r.r_wrf) (sn (receiver_held r))
    (String.concat "," (List.concat (List.mapi (fun c ch -> match ch.rc_base with Some b -> [string_of_int c ^ ":" ^ sn b] | None -> []) r.r_chans)))
    (String.concat "," (List.concat (List.mapi (fun c ch -> if sn ch.rc_count <> "0" then [string_of_int c ^ ":" ^ sn ch.rc_count] else []) r.r_chans)))
    (String.concat "," (List.concat (List.mapi (fun i sl -> match sl.sl_marker with Some c -> [string_of_int i ^ ":" ^ sn c] | None -> []) r.r_slots)))
    (List.length (List.filter (fun sl -> sl.sl_entry) r.r_slots))
    (List.length (List.filter (fun sl -> sl.sl_dflag) r.r_slots))
    (sn fa.fa_base) (List.length fa.fa_entries)
    (src_dump h.h_src)

(* ---------- hc mode ---------- *)
type endpoint = { mutable h : hc; mutable outbox : n list array; mutable nout : int; mutable cursor : int; mutable poisoned : bool }
let eps : endpoint option array = Array.make 4 None
let nonce_seed = ref N0

let payload len seed =
  let rec go i acc = if i < 0 then acc else
    go (i - 1) (byte_tbl.((seed * 31 + i * 7 + (i lsr 8)) land 0xFF) :: acc) in
  go (len - 1) []

let mode_of = function "0" -> TimeSensitive | "1" -> Unreliable | "2" -> Persistent | _ -> Reliable

let z_of_string s =
  if String.length s > 0 && s.[0] = '-' then
    (match n_of_string (String.sub s 1 (String.length s - 1)) with N0 -> Z0 | Npos p -> Zneg p)
  else (match n_of_string s with N0 -> Z0 | Npos p -> Zpos p)

let relay_plan n drop dup swap seed =
  let x = ref (seed mod 2147483648) in
  let lcg () = x := (!x * 1103515245 + 12345) mod 2147483648; !x in
  let plan = ref [] in
  let i = ref 0 in
  while !i < n do
    let r = lcg () mod 1000 in
    if r < drop then incr i
    else if r < drop + dup then (plan := !i :: !i :: !plan; incr i)
    else if r < drop + dup + swap && !i + 1 < n then (plan := !i :: (!i + 1) :: !plan; i := !i + 2)
    else (plan := !i :: !plan; incr i)
  done;
  List.rev !plan

let hc_reset () =
  Array.fill eps 0 4 None; nonce_seed := N0

let kind_name k = match int_of_n k with 1 -> "data" | 2 -> "sync" | 3 -> "ack" | _ -> "ignored"

let hc_op toks =
  let n = n_of_string in
  match toks with
  | ["seed"; v] -> nonce_seed := n v
  | "hcnew" :: e :: a :: b :: c :: d :: f :: g :: hh :: i :: j :: k :: l :: m :: _ ->
      let cfg = { cfg_tx_frame_base = n a; cfg_rx_frame_base = n b; cfg_tx_frame_window = n c; cfg_rx_frame_window = n d;
                  cfg_tx_packet_base = n f; cfg_rx_packet_base = n g; cfg_tx_packet_window = n hh; cfg_rx_packet_window = n i;
                  cfg_tx_bandwidth_limit = n j; cfg_tx_alloc_limit = n k; cfg_rx_alloc_limit = n l;
                  cfg_keepalive = (if m = "-" then None else Some (n m)) } in
      eps.(int_of_string e) <- Some { h = hc_new cfg !nonce_seed; outbox = Array.make 64 []; nout = 0; cursor = 0; poisoned = false };
      Printf.printf "new %s\n" e
  | op :: rest ->
      let e = int_of_string (if op = "deliver" || op = "replayack" then List.nth rest 2 else if op = "relay" then List.nth rest 1 else List.hd rest) in
      (match eps.(e) with
       | None -> print_string "skipped\n"
       | Some ep when ep.poisoned -> print_string "skipped\n"
       | Some ep ->
           let finish = function
             | Ok h' -> ep.h <- h';
                 Printf.printf "st sbs=%s pend=%s | %s\n" (sn (hc_send_buffer_size h')) (b01 (hc_is_send_pending h')) (hc_dump h')
             | Panic _ -> ep.poisoned <- true; print_string "PANIC\n"
             | Hang _ -> ep.poisoned <- true; print_string "HANG\n" in
           let handle f =
             match hc_handle_frame ep.h f with
             | Ok (h', k) -> (kind_name k, Ok h')
             | Panic s -> ("", Panic s) | Hang s -> ("", Hang s) in
           (match op, rest with
            | "send", [_; chan; mode; len; seed] ->
                let data = payload (int_of_string len) (int_of_string seed) in
                Printf.printf "sent %s %s %d %s\n" chan mode (List.length data) (sn (crc_compute data));
                finish (Ok (hc_send ep.h data (n chan) (mode_of mode)))
            | "step", [_; now] -> finish (hc_step ep.h (n now))
            | "flush", _ ->
                (match hc_flush ep.h with
                 | Ok (h', frames) ->
                     List.iter (fun f ->
                       Printf.printf "frame %d %s\n" (List.length f) (hex_of_bytes f);
                       (match read_frame f with
                        | Ok (Some (FData (_, _, dgs))) ->
                            List.iter (fun d -> Printf.printf "dg %s %s %s %s %d %s\n" (sn d.dg_seq) (sn d.dg_frag) (sn d.dg_frag_last)
                                                  (sn d.dg_chan) (List.length d.dg_data) (sn (crc_compute d.dg_data))) dgs
                        | _ -> ());
                       if ep.nout >= Array.length ep.outbox then begin
                         let a = Array.make (2 * ep.nout) [] in Array.blit ep.outbox 0 a 0 ep.nout; ep.outbox <- a end;
                       ep.outbox.(ep.nout) <- f; ep.nout <- ep.nout + 1) frames;
                     finish (Ok h')
                 | Panic s -> finish (Panic s) | Hang s -> finish (Hang s))
            | "recv", _ ->
                let (h', pkts) = hc_receive ep.h in
                List.iter (fun p -> Printf.printf "pkt %d %s\n" (List.length p) (sn (crc_compute p))) pkts;
                finish (Ok h')
            | ("deliver" | "replayack"), [src; k; _] ->
                let pick = match eps.(int_of_string src) with
                  | Some s when s.nout > 0 ->
                      if op = "deliver" then Some (s.outbox.(int_of_string k mod s.nout))
                      else begin
                        let acks = List.filter (fun f -> match f with b :: _ -> int_of_n b = 12 | [] -> false)
                                     (Array.to_list (Array.sub s.outbox 0 s.nout)) in
                        if acks = [] then None else Some (List.nth acks (int_of_string k mod List.length acks))
                      end
                  | _ -> None in
                (match pick with
                 | Some bytes ->
                     (match read_frame bytes with
                      | Ok None -> print_string "deliver: unreadable\n"; finish (Ok ep.h)
                      | Ok (Some f) -> let (k, r) = handle f in
                          (match r with Ok _ -> Printf.printf "deliver: %s\n" k | _ -> ()); finish r
                      | Panic s -> finish (Panic s) | Hang s -> finish (Hang s))
                 | None -> print_string "deliver: nothing\n"; finish (Ok ep.h))
            | "relay", [src; _; drop; dup; swap; seed] ->
                let frames = match eps.(int_of_string src) with
                  | Some sp ->
                      let fresh = Array.sub sp.outbox sp.cursor (sp.nout - sp.cursor) in
                      sp.cursor <- sp.nout;
                      List.map (fun i -> fresh.(i)) (relay_plan (Array.length fresh) (int_of_string drop) (int_of_string dup) (int_of_string swap) (int_of_string seed))
                  | None -> [] in
                let kinds = Buffer.create 16 in
                let rec go hcur = function
                  | [] -> Ok hcur
                  | bytes :: rest ->
                      (match read_frame bytes with
                       | Ok None -> Buffer.add_char kinds 'u'; go hcur rest
                       | Ok (Some f) ->
                           (match hc_handle_frame hcur f with
                            | Ok (h', k) -> Buffer.add_char kinds (kind_name k).[0]; go h' rest
                            | Panic s -> Panic s | Hang s -> Hang s)
                       | Panic s -> Panic s | Hang s -> Hang s) in
                let r = go ep.h frames in
                Printf.printf "relay: %d %s\n" (List.length frames) (Buffer.contents kinds);
                finish r
            | "raw", [_; hex] ->
                (match read_frame (bytes_of_hex hex) with
                 | Ok None -> print_string "raw: unreadable\n"; finish (Ok ep.h)
                 | Ok (Some f) -> let (k, r) = handle f in
                     (match r with Ok _ -> Printf.printf "raw: %s\n" k | _ -> ()); finish r
                 | Panic s -> finish (Panic s) | Hang s -> finish (Hang s))
            | "frame", _ :: spec ->
                let (k, r) = handle (parse_frame spec) in
                (match r with Ok _ -> Printf.printf "frame: %s\n" k | _ -> ()); finish r
            | "credit", [_; z] -> finish (Ok (set_credit ep.h (z_of_string z)))
            | "dump", _ -> finish (Ok ep.h)
            | _ -> failwith ("bad hc op: " ^ String.concat " " toks)))
  | [] -> ()

(* ---------- rate mode ---------- *)
let comp : send_rate_comp option ref = ref None
let comp_poisoned = ref false
let float_of_hexbits s = Float64.of_float (Int64.float_of_bits (Int64.of_string ("0x" ^ s)))

let rate_op toks =
  let n = n_of_string in
  match toks with
  | ["srnew"; m] -> let c = src_new (n m) in comp := Some c; comp_poisoned := false;
      Printf.printf "sr %s\n" (src_dump c)
  | ["tput"; r; p] -> Printf.printf "tput %s\n" (sn (eval_tcp_throughput (float_of_hexbits r) (float_of_hexbits p)))
  | _ ->
    (match !comp with
     | Some c when not !comp_poisoned ->
         let r = match toks with
           | ["srsent"; now] -> Ok (src_notify_frame_sent c (n now), None)
           | ["srstep"; now; "-"] -> src_step c (n now) None
           | ["srstep"; now; rtt; rr; loss; rl] ->
               src_step c (n now) (Some { fd_rtt_ms = n rtt; fd_recv_rate = n rr; fd_loss_rate = float_of_hexbits loss; fd_rate_limited = (rl = "1") })
           | _ -> failwith "bad rate op" in
         (match r with
          | Ok (c', reset) -> comp := Some c';
              Printf.printf "sr reset=%s %s\n" (match reset with Some p -> fbits p | None -> "-") (src_dump c')
          | _ -> comp_poisoned := true; print_string "PANIC\n")
     | _ -> print_string "skipped\n")

(* ---------- endpoint mode ---------- *)
type peer = { mutable mailbox : (int * n list) list; mutable pclient : int option }
type target = TSrv | TPeer of int
type cli = { mutable c : client; mutable cinbox : n list list; ctarget : target; mutable cpoisoned : bool }
let ep_server : server option ref = ref None
let ep_srv_poisoned = ref false
let ep_srv_inbox : (n * n list) list ref = ref []
let ep_peers : peer option array = Array.make 8 None
let ep_clients : cli option array = Array.make 4 None
let ep_nonces : n list ref = ref []

let ep_reset () =
  ep_server := None; ep_srv_poisoned := false; ep_srv_inbox := [];
  Array.fill ep_peers 0 8 None; Array.fill ep_clients 0 4 None; ep_nonces := []; nonce_seed := N0

let kind_char = function
  | b :: _ -> (match int_of_n b with 0 -> 's' | 1 -> 'S' | 2 -> 'a' | 3 -> 'e' | 4 -> 'd' | 5 -> 'D' | 10 -> 'x' | 11 -> 'y' | 12 -> 'k' | _ -> '?')
  | [] -> '?'

let ep_config = function
  | [a; b; c; d; e; f; g] ->
      { ec_max_send_rate = n_of_string a; ec_max_receive_rate = n_of_string b; ec_max_packet_size = n_of_string c;
        ec_max_receive_alloc = n_of_string d; ec_keepalive = (e = "1"); ec_keepalive_interval = n_of_string f;
        ec_active_timeout = n_of_string g }
  | _ -> failwith "bad endpoint config"

let err_name k = match int_of_n k with 0 -> "timeout" | 1 -> "version" | 2 -> "config" | _ -> "full"
let print_events evs =
  List.iter (function
    | EvConnect a -> Printf.printf "ev connect %s\n" (sn a)
    | EvDisconnect a -> Printf.printf "ev disconnect %s\n" (sn a)
    | EvReceive (a, d) -> Printf.printf "ev receive %s %d %s\n" (sn a) (List.length d) (sn (crc_compute d))
    | EvError (a, k) -> Printf.printf "ev error %s %s\n" (sn a) (err_name k)) evs

let sig_name = function None -> "-" | Some true -> "N" | Some false -> "F"

let server_dump (s : server) =
  let entries = List.sort compare (List.map (fun (a, id) -> (int_of_n a, id)) s.sv_clients) in
  let parts = List.map (fun (a, id) ->
    let o = List.nth s.sv_objs (int_of_n id) in
    let st = match o.so_state with
      | SvPending (ln, rn, _, _, _) -> "P" ^ sn ln ^ ":" ^ sn rn
      | SvActive (h, _, timeout, disc) -> "A" ^ sn timeout ^ ":" ^ sig_name disc ^ ":[" ^ hc_dump h ^ "]"
      | SvClosing -> "C" | SvClosed -> "D" | SvFin -> "F" in
    Printf.sprintf "%d=%s" a st) entries in
  String.trim (Printf.sprintf "clients=%d active=%d events=%d %s" (List.length s.sv_clients) (List.length s.sv_active)
                 (List.length s.sv_events) (String.concat " " parts))

let client_dump (c : client) =
  match c.cl_state_ with
  | ClPending (ln, _, rt, rc, sends) -> Printf.sprintf "P%s:%s:%s:%d" (sn ln) (sn rt) (sn rc) (List.length sends)
  | ClActive (ln, _, h, _, timeout, disc) -> Printf.sprintf "A%s:%s:%s:[%s]" (sn ln) (sn timeout) (sig_name disc) (hc_dump h)
  | ClClosing (_, rt, rc) -> Printf.sprintf "C%s:%s" (sn rt) (sn rc)
  | ClClosed t -> "D" ^ sn t
  | ClFin -> "F"

let dispatch_from_server (addr, bytes) =
  let a = int_of_n addr in
  if a >= 100 then (match ep_clients.(a - 100) with Some cl -> cl.cinbox <- cl.cinbox @ [bytes] | None -> ())
  else (match ep_peers.(a) with Some p -> p.mailbox <- p.mailbox @ [(-1, bytes)] | None -> ())

let dispatch_from_client j cl bytes =
  match cl.ctarget with
  | TSrv -> ep_srv_inbox := !ep_srv_inbox @ [(n_of_int (100 + j), bytes)]
  | TPeer k -> (match ep_peers.(k) with Some p -> p.mailbox <- p.mailbox @ [(100 + j, bytes)] | None -> ())

let ep_op toks =
  let n = n_of_string in
  match toks with
  | ["seed"; v] -> nonce_seed := n v
  | ["nonce"; v] -> ep_nonces := !ep_nonces @ [n v]
  | "srvnew" :: mt :: ma :: er :: rest ->
      let cfgl = take 7 rest in
      let vnow = List.nth rest 7 in
      let s = server_new { svc_max_total = n mt; svc_max_active = n ma; svc_enable_errors = (er = "1"); svc_ec = ep_config cfgl } (n vnow) !nonce_seed in
      ep_server := Some s; Printf.printf "st %s\n" (server_dump s)
  | ["peer"; k] -> ep_peers.(int_of_string k) <- Some { mailbox = []; pclient = None }; Printf.printf "new peer %s\n" k
  | ("psend" | "psendraw" | "psendfix" | "psendc") :: k :: rest ->
      let bytes = if List.hd toks = "psendraw" then bytes_of_hex (List.hd rest)
                  else if List.hd toks = "psendfix" then with_crc (bytes_of_hex (List.hd rest))
                  else write_frame (parse_frame rest) in
      let k = int_of_string k in
      if List.hd toks = "psendc" then
        (match ep_peers.(k) with
         | Some { pclient = Some j; _ } -> (match ep_clients.(j) with Some cl -> cl.cinbox <- cl.cinbox @ [bytes] | None -> ())
         | _ -> ())
      else if !ep_server <> None then ep_srv_inbox := !ep_srv_inbox @ [(n_of_int k, bytes)];
      Printf.printf "new sent %d\n" (List.length bytes)
  | ("pfwd" | "precv") :: k :: rest ->
      let k = int_of_string k in
      let p = match ep_peers.(k) with Some p -> p | None -> failwith "no such peer" in
      let got = Array.of_list p.mailbox in
      p.mailbox <- [];
      Array.iter (fun (src, b) ->
        Printf.printf "dgram %s %d %s %c\n" (if src < 0 then "S" else string_of_int src) (List.length b) (sn (crc_compute b)) (kind_char b)) got;
      if List.hd toks = "pfwd" then begin
        let (drop, dup, seed) = match rest with [a; b; c] -> (int_of_string a, int_of_string b, int_of_string c) | _ -> failwith "bad pfwd" in
        let plan = relay_plan (Array.length got) drop dup 0 seed in
        let kinds = Buffer.create 8 in
        List.iter (fun i ->
          let (src, b) = got.(i) in
          if src < 0 then (match p.pclient with Some j -> (match ep_clients.(j) with Some cl -> cl.cinbox <- cl.cinbox @ [b] | None -> ()) | None -> ())
          else if !ep_server <> None then ep_srv_inbox := !ep_srv_inbox @ [(n_of_int k, b)];
          Buffer.add_char kinds (kind_char b)) plan;
        Printf.printf "new fwd %s\n" (Buffer.contents kinds)
      end else Printf.printf "new recv %d\n" (Array.length got)
  | ("srvstep" | "srvflush" | "srvsend" | "srvdisc" | "srvdrop") :: rest ->
      (match !ep_server with
       | Some s when not !ep_srv_poisoned ->
           let fail () = ep_srv_poisoned := true; print_string "PANIC\n" in
           (match List.hd toks, rest with
            | "srvstep", [vnow] ->
                let inbox = !ep_srv_inbox in
                ep_srv_inbox := [];
                (match server_step s (n vnow) inbox !ep_nonces with
                 | Ok (((s', evs), sends), nonces') ->
                     ep_server := Some s'; ep_nonces := nonces';
                     List.iter dispatch_from_server sends; print_events evs; Printf.printf "st %s\n" (server_dump s')
                 | _ -> fail ())
            | "srvflush", _ ->
                (match server_flush s with
                 | Ok (s', sends) -> ep_server := Some s'; List.iter dispatch_from_server sends; Printf.printf "st %s\n" (server_dump s')
                 | _ -> fail ())
            | "srvsend", [a; chan; mode; len; seed] ->
                let s' = server_client_send s (n a) (payload (int_of_string len) (int_of_string seed)) (n chan) (mode_of mode) in
                ep_server := Some s'; Printf.printf "st %s\n" (server_dump s')
            | "srvdisc", [a; now] ->
                let s' = server_client_disconnect s (n a) (now = "1") in
                ep_server := Some s'; Printf.printf "st %s\n" (server_dump s')
            | "srvdrop", [a] ->
                let s' = server_drop s (n a) in
                ep_server := Some s'; Printf.printf "st %s\n" (server_dump s')
            | _ -> failwith "bad server op")
       | _ -> print_string "skipped\n")
  | "clinew" :: j :: target :: rest ->
      let j = int_of_string j in
      let cfgl = take 7 rest in
      let vnow = List.nth rest 7 in
      let nonce = match !ep_nonces with x :: r -> ep_nonces := r; x | [] -> N0 in
      let (c, syn) = client_connect (ep_config cfgl) nonce (n vnow) !nonce_seed in
      let tgt = if target = "srv" then TSrv else TPeer (int_of_string target) in
      let cl = { c = c; cinbox = []; ctarget = tgt; cpoisoned = false } in
      ep_clients.(j) <- Some cl;
      (match tgt with TPeer k -> (match ep_peers.(k) with Some p -> p.pclient <- Some j | None -> ()) | TSrv -> ());
      dispatch_from_client j cl syn;
      Printf.printf "st %s\n" (client_dump c)
  | ("clistep" | "cliflush" | "clisend" | "clidisc") :: j :: rest ->
      let j = int_of_string j in
      (match ep_clients.(j) with
       | Some cl when not cl.cpoisoned ->
           let finish c' = cl.c <- c'; Printf.printf "st sbs=%s %s\n" (sn (client_send_buffer_size c')) (client_dump c') in
           (match List.hd toks, rest with
            | "clistep", [vnow] ->
                let inbox = cl.cinbox in
                cl.cinbox <- [];
                (match client_step cl.c (n vnow) inbox with
                 | Ok ((c', evs), sends) -> List.iter (dispatch_from_client j cl) sends; print_events evs; finish c'
                 | _ -> cl.cpoisoned <- true; print_string "PANIC\n")
            | "cliflush", _ ->
                (match client_flush cl.c with
                 | Ok (c', sends) -> List.iter (dispatch_from_client j cl) sends; finish c'
                 | _ -> cl.cpoisoned <- true; print_string "PANIC\n")
            | "clisend", [chan; mode; len; seed] ->
                finish (client_send cl.c (payload (int_of_string len) (int_of_string seed)) (n chan) (mode_of mode))
            | "clidisc", [now] -> finish (client_disconnect cl.c (now = "1"))
            | _ -> failwith "bad client op")
       | _ -> print_string "skipped\n")
  | _ -> failwith ("bad ep op: " ^ String.concat " " toks)

let split_ws s = List.filter (fun t -> t <> "") (String.split_on_char ' ' s)

let () =
  let mode = if Array.length Sys.argv > 1 then Sys.argv.(1) else "codec" in
  let ic = if Array.length Sys.argv > 2 then open_in Sys.argv.(2) else stdin in
  (try
    while true do
      let line = input_line ic in
      let toks = split_ws line in
      match toks with
      | [] -> ()
      | "case" :: _ -> print_string line; print_char '\n'; hc_reset (); comp := None; ep_reset ()
      | _ ->
        (match mode with
         | "codec" -> codec_op toks
         | "hc" -> hc_op toks; flush stdout
         | "rate" -> rate_op toks
         | "ep" -> ep_op toks; flush stdout
         | _ -> failwith "unknown mode")
    done
  with End_of_file -> ());
  flush stdout
