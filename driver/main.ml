(* Correspondence driver: runs the extracted Coq model on a script and prints one observation
   line per operation, in the same format as the Rust harness.  Hand-written glue only:
   script parsing, number/hex conversion, printing. *)
open Uf_model

(* ---------- conversions ---------- *)
let rec pos_of_int i =
  if i = 1 then XH else if i land 1 = 0 then XO (pos_of_int (i lsr 1)) else XI (pos_of_int (i lsr 1))
let n_of_int i = if i < 0 then failwith "n_of_int" else if i = 0 then N0 else Npos (pos_of_int i)
let rec int_of_pos = function XH -> 1 | XO p -> 2 * int_of_pos p | XI p -> 2 * int_of_pos p + 1
let int_of_n = function N0 -> 0 | Npos p -> int_of_pos p

let n10 = n_of_int 10
let n_of_string s =
  let r = ref N0 in
  String.iter (fun c ->
    if c < '0' || c > '9' then failwith ("bad number " ^ s);
    r := N.add (N.mul !r n10) (n_of_int (Char.code c - 48))) s;
  !r
let string_of_n n =
  if n = N0 then "0" else begin
    let b = Buffer.create 24 in
    let rec go n acc = if n = N0 then acc else go (N.div n n10) (int_of_n (N.modulo n n10) :: acc) in
    List.iter (fun d -> Buffer.add_char b (Char.chr (48 + d))) (go n []);
    Buffer.contents b
  end

let hexdigit c = match c with
  | '0'..'9' -> Char.code c - 48 | 'a'..'f' -> Char.code c - 87 | 'A'..'F' -> Char.code c - 55
  | _ -> failwith "bad hex"
let byte_tbl = Array.init 256 n_of_int
let bytes_of_hex s =
  if s = "-" then [] else begin
    let n = String.length s / 2 in
    let rec go i acc = if i < 0 then acc else go (i - 1) (byte_tbl.(hexdigit s.[2*i] * 16 + hexdigit s.[2*i+1]) :: acc) in
    go (n - 1) []
  end
let hex_of_bytes l =
  if l = [] then "-" else begin
    let b = Buffer.create 64 in
    List.iter (fun x -> Buffer.add_string b (Printf.sprintf "%02x" (int_of_n x))) l;
    Buffer.contents b
  end

(* ---------- frame text format ---------- *)
let opt_tok = function None -> "-" | Some v -> string_of_n v
let frame_to_string f =
  let b = Buffer.create 128 in
  let add s = Buffer.add_string b s in
  let addn n = add " "; add (string_of_n n) in
  (match f with
   | FSyn (v, n, a, bb, c) -> add "syn"; List.iter addn [v; n; a; bb; c]
   | FSynAck (na, n, a, bb, c) -> add "synack"; List.iter addn [na; n; a; bb; c]
   | FHsAck na -> add "hsack"; addn na
   | FHsError (na, e) -> add "hserr"; addn na;
       add (match e with ErrVersion -> " 0" | ErrConfig -> " 1" | ErrServerFull -> " 2")
   | FDisconnect -> add "disc"
   | FDisconnectAck -> add "discack"
   | FData (s, n, dgs) ->
       add "data"; addn s; add (if n then " 1" else " 0"); add (Printf.sprintf " %d" (List.length dgs));
       List.iter (fun d ->
         List.iter addn [d.dg_seq; d.dg_chan; d.dg_wpl; d.dg_cpl; d.dg_frag; d.dg_frag_last];
         add " "; add (hex_of_bytes d.dg_data)) dgs
   | FSync (nf, np) -> add "sync "; add (opt_tok nf); add " "; add (opt_tok np)
   | FAcks (fb, pb, acks) ->
       add "acks"; addn fb; addn pb; add (Printf.sprintf " %d" (List.length acks));
       List.iter (fun a -> addn a.ag_base; addn a.ag_bits; add (if a.ag_nonce then " 1" else " 0")) acks);
  Buffer.contents b

let parse_frame toks =
  let n = n_of_string in
  let opt s = if s = "-" then None else Some (n s) in
  match toks with
  | ["syn"; v; a; b; c; d] -> FSyn (n v, n a, n b, n c, n d)
  | ["synack"; v; a; b; c; d] -> FSynAck (n v, n a, n b, n c, n d)
  | ["hsack"; a] -> FHsAck (n a)
  | ["hserr"; a; e] -> FHsError (n a, (match e with "0" -> ErrVersion | "1" -> ErrConfig | _ -> ErrServerFull))
  | ["disc"] -> FDisconnect
  | ["discack"] -> FDisconnectAck
  | "data" :: s :: nonce :: cnt :: rest ->
      let rec dgs k rest acc =
        if k = 0 then List.rev acc else
        match rest with
        | a :: b :: c :: d :: e :: f :: h :: rest' ->
            dgs (k - 1) rest' ({ dg_seq = n a; dg_chan = n b; dg_wpl = n c; dg_cpl = n d;
                                 dg_frag = n e; dg_frag_last = n f; dg_data = bytes_of_hex h } :: acc)
        | _ -> failwith "bad data frame spec" in
      FData (n s, nonce = "1", dgs (int_of_string cnt) rest [])
  | ["sync"; a; b] -> FSync (opt a, opt b)
  | "acks" :: fb :: pb :: cnt :: rest ->
      let rec ags k rest acc =
        if k = 0 then List.rev acc else
        match rest with
        | a :: b :: c :: rest' -> ags (k - 1) rest' ({ ag_base = n a; ag_bits = n b; ag_nonce = (c = "1") } :: acc)
        | _ -> failwith "bad ack frame spec" in
      FAcks (n fb, n pb, ags (int_of_string cnt) rest [])
  | _ -> failwith ("bad frame spec: " ^ String.concat " " toks)

let site_name s = match int_of_n s with
  | 1 -> "index" | 2 -> "unwrap" | 3 -> "overflow" | 4 -> "debug_assert" | 5 -> "panic" | _ -> "other"

(* ---------- codec mode ---------- *)
let print_read bytes =
  match read_frame bytes with
  | Ok None -> print_string "read: none\n"
  | Ok (Some f) -> Printf.printf "read: %s\n" (frame_to_string f)
  | Panic _ -> print_string "read: PANIC\n"
  | Hang _ -> print_string "read: HANG\n"

let n256 = n_of_int 256
let with_crc body =
  let crc = crc_compute body in
  let b k = N.modulo (N.div crc (n_of_int (1 lsl k))) n256 in
  body @ [b 24; b 16; b 8; b 0]

let rec split_bar acc = function
  | [] -> failwith "missing |"
  | "|" :: rest -> (List.rev acc, rest)
  | t :: rest -> split_bar (t :: acc) rest

let rec take k l = if k = 0 then [] else match l with [] -> [] | x :: r -> x :: take (k - 1) r

let codec_op toks =
  match toks with
  | ["read"; hex] -> print_read (bytes_of_hex hex)
  | ["readfix"; hex] -> print_read (with_crc (bytes_of_hex hex))
  | "write" :: spec ->
      let f = parse_frame spec in
      Printf.printf "write: %s\n" (hex_of_bytes (write_frame f))
  | "rt" :: spec ->
      let f = parse_frame spec in
      let bytes = write_frame f in
      Printf.printf "write: %d %s\n" (List.length bytes) (hex_of_bytes bytes);
      print_read bytes
  | "flip" :: rest ->
      let (a, b) = split_bar [] rest in
      let f = parse_frame b in
      let bytes = Array.of_list (List.map int_of_n (write_frame f)) in
      let nbits = Array.length bytes * 8 in
      let pos = ref [] in
      List.iter (fun t ->
        let p = int_of_string t mod nbits in
        if not (List.mem p !pos) then begin
          pos := p :: !pos;
          bytes.(p / 8) <- bytes.(p / 8) lxor (1 lsl (p mod 8))
        end) (List.tl a);
      let pos = List.sort compare !pos in
      Printf.printf "flip: %d [%s]\n" (Array.length bytes) (String.concat ", " (List.map string_of_int pos));
      print_read (List.map (fun x -> byte_tbl.(x)) (Array.to_list bytes))
  | "mutfix" :: rest ->
      let (a, b) = split_bar [] rest in
      let f = parse_frame b in
      let full = write_frame f in
      let body = take (List.length full - 4) full in
      let blen = List.length body in
      let body = match a with
        | ["trunc"; n] -> let n = min (int_of_string n) blen in take (blen - n) body
        | ["append"; h] -> body @ bytes_of_hex h
        | ["set"; i; v] -> let i = int_of_string i mod blen in
            List.mapi (fun j x -> if j = i then byte_tbl.(int_of_string v) else x) body
        | ["none"] -> body
        | _ -> failwith "bad mutation" in
      Printf.printf "mutfix: %d %s\n" (List.length body) (hex_of_bytes (take 24 body));
      print_read (with_crc body)
  | ["crc"; hex] -> Printf.printf "crc: %s\n" (string_of_n (crc_compute (bytes_of_hex hex)))
  | _ -> failwith ("bad codec op: " ^ String.concat " " toks)

let split_ws s = List.filter (fun t -> t <> "") (String.split_on_char ' ' s)

let () =
  let mode = if Array.length Sys.argv > 1 then Sys.argv.(1) else "codec" in
  let ic = if Array.length Sys.argv > 2 then open_in Sys.argv.(2) else stdin in
  (try
    while true do
      let line = input_line ic in
      let toks = split_ws line in
      match toks with
      | [] -> ()
      | "case" :: _ -> print_string line; print_char '\n'
      | _ ->
        (match mode with
         | "codec" -> codec_op toks
         | _ -> failwith "unknown mode")
    done
  with End_of_file -> ());
  flush stdout
