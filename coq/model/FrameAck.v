(* FrameAck.v — src/half_connection/frame_ack_queue.rs *)
From UF Require Import Consts Base Frame.

Record frame_ack_queue := mkFaq {
  fa_entries : list ack_group;
  fa_base : N;      (* receive_window.base_id *)
  fa_size : N
}.

Definition faq_new (size base_id : N) : frame_ack_queue := mkFaq [] base_id size.

Definition faq_contains (q : frame_ack_queue) (frame_id : N) : bool := sub32 frame_id (fa_base q) <? fa_size q.

(* ReceiveWindow::advance *)
Definition faq_advance (q : frame_ack_queue) (new_base : N) : frame_ack_queue :=
  let delta := sub32 new_base (fa_base q) in
  if (0 <? delta) && (delta <=? fa_size q) then mkFaq (fa_entries q) new_base (fa_size q) else q.

Definition faq_resynchronize := faq_advance.

Definition bit32 (k : N) : N := 2 ^ k.

Fixpoint replace_last {A} (l : list A) (x : A) : list A :=
  match l with
  | [] => []
  | [_] => [x]
  | h :: t => h :: replace_last t x
  end.

Definition faq_mark_seen (q : frame_ack_queue) (frame_id : N) (nonce : bool) : frame_ack_queue :=
  if negb (faq_contains q frame_id) then q else
  let q1 := faq_advance q (add32 frame_id 1) in
  let fresh := mkAg frame_id 1 nonce in
  match last (map Some (fa_entries q1)) None with
  | Some le =>
      let bit := sub32 frame_id (ag_base le) in
      if bit <? 32 then
        if negb (N.testbit (ag_bits le) bit) then
          mkFaq (replace_last (fa_entries q1) (mkAg (ag_base le) (N.lor (ag_bits le) (bit32 bit)) (xorb (ag_nonce le) nonce)))
                (fa_base q1) (fa_size q1)
        else q1
      else
        let es := if fa_size q1 <=? len (fa_entries q1) then tl (fa_entries q1) else fa_entries q1 in
        mkFaq (es ++ [fresh]) (fa_base q1) (fa_size q1)
  | None => mkFaq (fa_entries q1 ++ [fresh]) (fa_base q1) (fa_size q1)
  end.

Definition faq_peek (q : frame_ack_queue) : option ack_group := hd_error (fa_entries q).
Definition faq_pop (q : frame_ack_queue) : frame_ack_queue := mkFaq (tl (fa_entries q)) (fa_base q) (fa_size q).
