(* HalfConn.v — src/half_connection/{mod.rs, emit.rs}: HalfConnection, Data/AckFrameEmitter. *)
From UF Require Import Consts Base Frame Codec F64 Feedback Sender Receiver FrameAck Heap FrameQueue SendRate.
Open Scope N_scope.

Record hc_config := mkHcConfig {
  cfg_tx_frame_base : N; cfg_rx_frame_base : N; cfg_tx_frame_window : N; cfg_rx_frame_window : N;
  cfg_tx_packet_base : N; cfg_rx_packet_base : N; cfg_tx_packet_window : N; cfg_rx_packet_window : N;
  cfg_tx_bandwidth_limit : N; cfg_tx_alloc_limit : N; cfg_rx_alloc_limit : N;
  cfg_keepalive : option N
}.

Record pq_entry := mkPq { pq_uid : N; pq_frag : N; pq_resend : bool }.

Record hc := mkHc {
  h_snd : sender; h_pq : list pq_entry; h_rq : list rq_entry; h_fq : frame_queue;
  h_rcv : receiver; h_faq : frame_ack_queue; h_src : send_rate_comp;
  h_now : N; h_rtt : N; h_rto : N;
  h_last_flushed : option N; h_sync_base : N;
  h_credit : Z; h_flush_id : N; h_sync_reply : bool; h_keepalive : option N;
  h_nonce_seed : N
}.

(* the deterministic stand-in for rand::random() installed by the verification hook *)
Definition nonce_bit (seed frame_id : N) : bool :=
  N.testbit (((frame_id * 2654435761) mod pow32 + seed) mod pow32) 13.

Definition hc_new (c : hc_config) (seed : N) : hc :=
  mkHc (sender_new (cfg_tx_packet_window c) (cfg_tx_packet_base c) (cfg_tx_alloc_limit c)) [] []
       (fq_new (cfg_tx_frame_window c) (cfg_tx_frame_window c) (cfg_tx_frame_base c))
       (receiver_new (cfg_rx_packet_window c) (cfg_rx_packet_base c) (cfg_rx_alloc_limit c))
       (faq_new (cfg_rx_frame_window c) (cfg_rx_frame_base c))
       (src_new (cfg_tx_bandwidth_limit c))
       0 0 0 None 0 0%Z 0 false (cfg_keepalive c) seed.

Definition hc_send_buffer_size (h : hc) : N := s_total (h_snd h).
Definition hc_is_send_pending (h : hc) : bool :=
  negb (len (s_queue (h_snd h)) =? 0) || negb (len (h_pq h) =? 0) || negb (len (h_rq h) =? 0).

(* record update helpers *)
Definition set_snd h x := mkHc x (h_pq h) (h_rq h) (h_fq h) (h_rcv h) (h_faq h) (h_src h) (h_now h) (h_rtt h) (h_rto h) (h_last_flushed h) (h_sync_base h) (h_credit h) (h_flush_id h) (h_sync_reply h) (h_keepalive h) (h_nonce_seed h).
Definition set_pq h x := mkHc (h_snd h) x (h_rq h) (h_fq h) (h_rcv h) (h_faq h) (h_src h) (h_now h) (h_rtt h) (h_rto h) (h_last_flushed h) (h_sync_base h) (h_credit h) (h_flush_id h) (h_sync_reply h) (h_keepalive h) (h_nonce_seed h).
Definition set_rq h x := mkHc (h_snd h) (h_pq h) x (h_fq h) (h_rcv h) (h_faq h) (h_src h) (h_now h) (h_rtt h) (h_rto h) (h_last_flushed h) (h_sync_base h) (h_credit h) (h_flush_id h) (h_sync_reply h) (h_keepalive h) (h_nonce_seed h).
Definition set_fq h x := mkHc (h_snd h) (h_pq h) (h_rq h) x (h_rcv h) (h_faq h) (h_src h) (h_now h) (h_rtt h) (h_rto h) (h_last_flushed h) (h_sync_base h) (h_credit h) (h_flush_id h) (h_sync_reply h) (h_keepalive h) (h_nonce_seed h).
Definition set_rcv h x := mkHc (h_snd h) (h_pq h) (h_rq h) (h_fq h) x (h_faq h) (h_src h) (h_now h) (h_rtt h) (h_rto h) (h_last_flushed h) (h_sync_base h) (h_credit h) (h_flush_id h) (h_sync_reply h) (h_keepalive h) (h_nonce_seed h).
Definition set_faq h x := mkHc (h_snd h) (h_pq h) (h_rq h) (h_fq h) (h_rcv h) x (h_src h) (h_now h) (h_rtt h) (h_rto h) (h_last_flushed h) (h_sync_base h) (h_credit h) (h_flush_id h) (h_sync_reply h) (h_keepalive h) (h_nonce_seed h).
Definition set_src h x := mkHc (h_snd h) (h_pq h) (h_rq h) (h_fq h) (h_rcv h) (h_faq h) x (h_now h) (h_rtt h) (h_rto h) (h_last_flushed h) (h_sync_base h) (h_credit h) (h_flush_id h) (h_sync_reply h) (h_keepalive h) (h_nonce_seed h).
Definition set_credit h x := mkHc (h_snd h) (h_pq h) (h_rq h) (h_fq h) (h_rcv h) (h_faq h) (h_src h) (h_now h) (h_rtt h) (h_rto h) (h_last_flushed h) (h_sync_base h) x (h_flush_id h) (h_sync_reply h) (h_keepalive h) (h_nonce_seed h).
Definition set_sync_base h x := mkHc (h_snd h) (h_pq h) (h_rq h) (h_fq h) (h_rcv h) (h_faq h) (h_src h) (h_now h) (h_rtt h) (h_rto h) (h_last_flushed h) x (h_credit h) (h_flush_id h) (h_sync_reply h) (h_keepalive h) (h_nonce_seed h).
Definition set_sync_reply h x := mkHc (h_snd h) (h_pq h) (h_rq h) (h_fq h) (h_rcv h) (h_faq h) (h_src h) (h_now h) (h_rtt h) (h_rto h) (h_last_flushed h) (h_sync_base h) (h_credit h) (h_flush_id h) x (h_keepalive h) (h_nonce_seed h).

Definition hc_send (h : hc) (data : list N) (chan : N) (mode : send_mode) : hc :=
  set_snd h (sender_enqueue (h_snd h) data chan mode (h_flush_id h)).

Definition hc_receive (h : hc) : hc * list (list N) :=
  let '(r, out) := receiver_receive (h_rcv h) in (set_rcv h r, out).

Definition hc_handle_data_frame (h : hc) (seq : N) (nonce : bool) (dgs : list datagram) : hc :=
  if faq_contains (h_faq h) seq then
    let h1 := set_faq h (faq_mark_seen (h_faq h) seq nonce) in
    set_rcv h1 (fold_left receiver_handle_datagram dgs (h_rcv h1))
  else h.

Definition hc_handle_sync_frame (h : hc) (nf np : option N) : hc :=
  let h1 := match nf with Some id => set_faq h (faq_resynchronize (h_faq h) id) | None => h end in
  let h2 := match np with Some id => set_rcv h1 (receiver_resynchronize (h_rcv h1) id) | None => h1 end in
  set_sync_reply h2 true.

Fixpoint ack_groups (q : frame_queue) (s : sender) (acks : list ack_group) (rtt_ms : option N)
  : res (frame_queue * sender) :=
  match acks with
  | [] => Ok (q, s)
  | a :: t => do r <- fq_acknowledge_group q s a rtt_ms; ack_groups (fst r) (snd r) t rtt_ms
  end.

Definition hc_handle_ack_frame (h : hc) (fbase pbase : N) (acks : list ack_group) : res hc :=
  let rtt_ms := sr_rtt_ms (h_src h) in
  do r <- ack_groups (h_fq h) (h_snd h) acks rtt_ms;
  do q2 <- fq_advance_transfer_window (fst r) fbase rtt_ms;
  do s2 <- sender_acknowledge (snd r) pbase;
  Ok (set_snd (set_fq h q2) s2).

Definition hc_handle_frame (h : hc) (f : frame) : res (hc * N) :=
  match f with
  | FData seq nonce dgs => Ok (hc_handle_data_frame h seq nonce dgs, 1)
  | FSync nf np => Ok (hc_handle_sync_frame h nf np, 2)
  | FAcks fb pb acks => do h' <- hc_handle_ack_frame h fb pb acks; Ok (h', 3)
  | _ => Ok (h, 0)
  end.

(* Duration::as_secs_f64 of a whole number of milliseconds *)
Definition ms_as_secs_f64 (ms : N) : float :=
  PrimFloat.add (f_of_N (ms / 1000)) (PrimFloat.div (f_of_N ((ms mod 1000) * 1000000)) 1000000000).

Definition isize_max : Z := 9223372036854775807.
Definition isize_min : Z := (-9223372036854775808)%Z.
Definition sat_add_isize (a b : Z) : Z := Z.max isize_min (Z.min isize_max (a + b)).

(* whole bytes of rate * time, time counted from the start of the connection *)
Definition accrued (rate : N) (t_ms : N) : Z :=
  f_floor_to_isize (PrimFloat.mul (f_of_N rate) (ms_as_secs_f64 t_ms)).

(* credit gained between two instants at one rate *)
Definition refill (rate : N) (last now_ms : N) : Z := (accrued rate now_ms - accrued rate last)%Z.

Definition hc_fill_flush_alloc (h : hc) (now_ms : N) : Z :=
  match h_last_flushed h with
  | Some last =>
      let send_rate := f_of_N (sr_rate (h_src h)) in
      let new_bytes := refill (sr_rate (h_src h)) last now_ms in
      let alloc_max := f_round_to_isize (PrimFloat.mul send_rate (opt_default f0 (sr_rtt_s (h_src h)))) in
      Z.min (sat_add_isize (h_credit h) new_bytes) alloc_max
  | None => h_credit h
  end.

Definition hc_step (h : hc) (now_ms : N) : res hc :=
  let rtt_ms := opt_default INITIAL_RTT_ESTIMATE_MS (sr_rtt_ms (h_src h)) in
  let rto_ms := opt_default INITIAL_RTO_ESTIMATE_MS (sr_rto_ms (h_src h)) in
  do q1 <- fq_forget_frames (h_fq h) (now_ms - N.max (rtt_ms * 4) rto_ms) (sr_rtt_ms (h_src h));
  let credit := hc_fill_flush_alloc h now_ms in
  let flush_id := add32 (h_flush_id h) 1 in
  let '(q2, fb) := fq_get_feedback q1 now_ms in
  do r <- src_step (h_src h) now_ms fb;
  let '(src', reset) := r in
  do q3 <- (match reset with Some p => fq_reset_loss_rate q2 p | None => Ok q2 end);
  Ok (mkHc (h_snd h) (h_pq h) (h_rq h) q3 (h_rcv h) (h_faq h) src' now_ms rtt_ms rto_ms (Some now_ms)
           (h_sync_base h) credit flush_id (h_sync_reply h) (h_keepalive h) (h_nonce_seed h)).

(* ---------- emitters ---------- *)

Inductive push_error := SizeLimited | WindowLimited.

(* in-progress data frame: DataFrameBuilder + resend_refs + nonce *)
Record in_progress := mkIp { ip_seq : N; ip_nonce : bool; ip_enc : list N; ip_count : N; ip_refs : list frag_ref }.

(* DataFrameBuilder::size(): header (6) + datagrams + crc (4) *)
Definition ip_size (f : in_progress) : N := 6 + len (ip_enc f) + FRAME_CRC_SIZE.

Record emit_state := mkEs { es_h : hc; es_ip : option in_progress; es_out : list (list N) }.

(* DataFrameEmitter::finalize + emit_cb of emit_data_frames *)
Definition dfe_finalize (e : emit_state) : emit_state :=
  match es_ip e with
  | None => e
  | Some f =>
      let h := es_h e in
      let bytes := build_data_frame (ip_seq f) (ip_nonce f) (ip_enc f) (ip_count f) in
      let q := fq_push (h_fq h) (len bytes) (h_now h) (ip_refs f) (ip_nonce f) in
      let src := src_notify_frame_sent (h_src h) (h_now h) in
      let h1 := set_sync_base (set_credit (set_src (set_fq h q) src) (h_credit h - Z.of_N (len bytes))%Z) (h_now h) in
      mkEs h1 None (es_out e ++ [bytes])
  end.

Definition max_packet_count : N :=
  N.min (PACKET_ID_SPAN / (MAX_FRAME_WINDOW_SIZE * 2)) DATA_FRAME_MAX_DATAGRAM_COUNT.

Definition mark_rate_limited (e : emit_state) : emit_state :=
  mkEs (set_fq (es_h e) (fq_set_rate_limited (h_fq (es_h e)) true)) (es_ip e) (es_out e).

(* start a new frame with this datagram *)
Definition dfe_push_new (e : emit_state) (dg : datagram) (ref : frag_ref) (resend : bool) : emit_state * option push_error :=
  let h := es_h e in
  if (h_credit h <? 0)%Z then (mark_rate_limited e, Some SizeLimited)
  else if negb (fq_can_push (h_fq h)) then (e, Some WindowLimited)
  else
    let frame_id := fq_next (h_fq h) in
    let nonce := nonce_bit (h_nonce_seed h) frame_id in
    (mkEs h (Some (mkIp frame_id nonce (encode_datagram dg) 1 (if resend then [ref] else []))) (es_out e), None).

(* DataFrameEmitter::push *)
Definition dfe_push (e : emit_state) (uid frag : N) (resend : bool) : res (emit_state * option push_error) :=
  match sender_lookup (h_snd (es_h e)) uid with
  | None => Panic SITE_UNWRAP   (* callers upgrade the reference first *)
  | Some we =>
      let dg := pp_datagram (we_packet we) frag in
      let ref := mkFragRef uid frag in
      match es_ip e with
      | Some f =>
          let frame_size := ip_size f in
          let potential := frame_size + datagram_encoded_size dg in
          if (h_credit (es_h e) - Z.of_N frame_size <? 0)%Z then
            Ok (mark_rate_limited (dfe_finalize e), Some SizeLimited)
          else if (MAX_FRAME_SIZE <? potential) || (max_packet_count <=? ip_count f) then
            Ok (dfe_push_new (dfe_finalize e) dg ref resend)
          else
            Ok (mkEs (es_h e) (Some (mkIp (ip_seq f) (ip_nonce f) (ip_enc f ++ encode_datagram dg) (ip_count f + 1)
                                         (if resend then ip_refs f ++ [ref] else ip_refs f))) (es_out e), None)
      | None => Ok (dfe_push_new e dg ref resend)
      end
  end.

(* DataFrameEmitter::check_push *)
Definition dfe_check_push (e : emit_state) : emit_state * option push_error :=
  let '(frame_size, frame_count) := match es_ip e with Some f => (ip_size f, 1) | None => (0, 0) end in
  if (h_credit (es_h e) - Z.of_N frame_size <? 0)%Z then (mark_rate_limited (dfe_finalize e), Some SizeLimited)
  else if negb (fq_can_push_count (h_fq (es_h e)) (frame_count + 1)) then (e, Some WindowLimited)
  else (e, None).

Inductive flow := Continue | Break | RetOk | RetErr.

(* the resend-queue loop of emit_data_frames *)
Fixpoint resend_loop (fuel : nat) (e : emit_state) : res (emit_state * flow) :=
  match fuel with
  | O => Hang SITE_LOOP
  | S f =>
      let h := es_h e in
      match heap_peek (h_rq h) with
      | None => Ok (e, Continue)
      | Some ent =>
          let pop_it := match heap_pop (h_rq h) with Some (_, rq') => rq' | None => [] end in
          match sender_lookup (h_snd h) (rq_uid ent) with
          | None => resend_loop f (mkEs (set_rq h pop_it) (es_ip e) (es_out e))
          | Some we =>
              if pp_fragment_acked (we_packet we) (rq_frag ent) then
                resend_loop f (mkEs (set_rq h pop_it) (es_ip e) (es_out e))
              else if h_now h <? rq_time ent then Ok (e, Continue)
              else
                do r <- dfe_push e (rq_uid ent) (rq_frag ent) true;
                match r with
                | (e1, Some WindowLimited) => Ok (e1, RetOk)
                | (e1, Some SizeLimited) => Ok (e1, RetErr)
                | (e1, None) =>
                    let h1 := es_h e1 in
                    match heap_pop (h_rq h1) with
                    | None => Panic SITE_UNWRAP
                    | Some (ent1, rq1) =>
                        let new_time := h_now h1 + h_rtt h1 * 2 ^ (rq_count ent1) in
                        let new_count := N.min (rq_count ent1 + 1) MAX_SEND_COUNT in
                        let rq2 := heap_push rq1 (mkRq (rq_uid ent1) (rq_frag ent1) new_time new_count) in
                        resend_loop f (mkEs (set_rq h1 rq2) (es_ip e1) (es_out e1))
                    end
                end
          end
      end
  end.

Fixpoint pq_entries (uid : N) (resend : bool) (i : N) (n : nat) : list pq_entry :=
  match n with
  | O => []
  | S n' => mkPq uid i resend :: pq_entries uid resend (i + 1) n'
  end.

(* the inner `while let Some(entry) = self.pending_queue.front()` loop *)
Fixpoint pending_inner (fuel : nat) (e : emit_state) : res (emit_state * flow) :=
  match fuel with
  | O => Hang SITE_LOOP
  | S f =>
      let h := es_h e in
      match h_pq h with
      | [] => Ok (e, Continue)
      | ent :: rest =>
          match sender_lookup (h_snd h) (pq_uid ent) with
          | None => pending_inner f (mkEs (set_pq h rest) (es_ip e) (es_out e))
          | Some we =>
              if pp_fragment_acked (we_packet we) (pq_frag ent) then
                pending_inner f (mkEs (set_pq h rest) (es_ip e) (es_out e))
              else
                do r <- dfe_push e (pq_uid ent) (pq_frag ent) (pq_resend ent);
                match r with
                | (e1, Some WindowLimited) => Ok (e1, RetOk)
                | (e1, Some SizeLimited) => Ok (e1, RetErr)
                | (e1, None) =>
                    let h1 := es_h e1 in
                    let h2 := set_pq h1 (tl (h_pq h1)) in
                    let h3 := if pq_resend ent
                              then set_rq h2 (heap_push (h_rq h2) (mkRq (pq_uid ent) (pq_frag ent) (h_now h2 + h_rtt h2) 1))
                              else h2 in
                    pending_inner f (mkEs h3 (es_ip e1) (es_out e1))
                end
          end
      end
  end.

(* the outer `loop` *)
Fixpoint pending_outer (fuel : nat) (e : emit_state) : res (emit_state * flow) :=
  match fuel with
  | O => Hang SITE_LOOP
  | S f =>
      let h := es_h e in
      do r0 <- (match h_pq h with
                | [] =>
                    match dfe_check_push e with
                    | (e1, Some WindowLimited) => Ok (dfe_finalize e1, RetOk)
                    | (e1, Some SizeLimited) => Ok (e1, RetErr)
                    | (e1, None) =>
                        let h1 := es_h e1 in
                        let '(s', r) := sender_emit_packet (h_snd h1) (h_flush_id h1) in
                        match r with
                        | Some (uid, resend) =>
                            match sender_lookup s' uid with
                            | None => Panic SITE_UNWRAP
                            | Some we =>
                                let n := N.to_nat (pp_last (we_packet we) + 1) in
                                Ok (mkEs (set_pq (set_snd h1 s') (pq_entries uid resend 0 n)) (es_ip e1) (es_out e1), Continue)
                            end
                        | None => Ok (mkEs (set_snd h1 s') (es_ip e1) (es_out e1), Break)
                        end
                    end
                | _ => Ok (e, Continue)
                end);
      let '(e2, fl) := r0 in
      match fl with
      | Continue =>
          do r1 <- pending_inner (S (length (h_pq (es_h e2)))) e2;
          match r1 with
          | (e3, Continue) => pending_outer f e3
          | other => Ok other
          end
      | _ => Ok (e2, fl)
      end
  end.

(* emit_data_frames: Ok true = Ok(()), Ok false = Err(()) *)
Definition emit_data_frames (fuel : nat) (h : hc) (out : list (list N)) : res (hc * list (list N) * bool) :=
  do r <- resend_loop fuel (mkEs h None out);
  match r with
  | (e, RetOk) => Ok (es_h e, es_out e, true)
  | (e, RetErr) => Ok (es_h e, es_out e, false)
  | (e, _) =>
      do r2 <- pending_outer fuel e;
      match r2 with
      | (e2, RetOk) => Ok (es_h e2, es_out e2, true)
      | (e2, RetErr) => Ok (es_h e2, es_out e2, false)
      | (e2, _) => let e3 := dfe_finalize e2 in Ok (es_h e3, es_out e3, true)
      end
  end.

(* ---------- ack frames ---------- *)
(* AckFrameBuilder in progress: encoded groups and count; size() = 11 + 9*count + 4 *)
Record ack_ip := mkAckIp { ai_enc : list N; ai_count : N }.
Definition ai_size (a : ack_ip) : N := 11 + len (ai_enc a) + FRAME_CRC_SIZE.

Record ack_state := mkAs { as_h : hc; as_ip : option ack_ip; as_out : list (list N); as_fbase : N; as_pbase : N }.

Definition afe_finalize (a : ack_state) : ack_state :=
  match as_ip a with
  | None => a
  | Some f =>
      let bytes := build_ack_frame (as_fbase a) (as_pbase a) (ai_enc f) (ai_count f) in
      let h := as_h a in
      let h1 := set_sync_reply (set_credit h (h_credit h - Z.of_N (len bytes))%Z) false in
      mkAs h1 None (as_out a ++ [bytes]) (as_fbase a) (as_pbase a)
  end.

(* Ok = true *)
Definition afe_push_dud (a : ack_state) : ack_state * bool :=
  match as_ip a with
  | Some _ => (a, true)
  | None => if (h_credit (as_h a) <? 0)%Z then (a, false)
            else (mkAs (as_h a) (Some (mkAckIp [] 0)) (as_out a) (as_fbase a) (as_pbase a), true)
  end.

Definition afe_push_new (a : ack_state) (g : ack_group) : ack_state * bool :=
  if (h_credit (as_h a) <? 0)%Z then (a, false)
  else (mkAs (as_h a) (Some (mkAckIp (encode_ack_group g) 1)) (as_out a) (as_fbase a) (as_pbase a), true).

Definition afe_push (a : ack_state) (g : ack_group) : ack_state * bool :=
  match as_ip a with
  | Some f =>
      let frame_size := ai_size f in
      let potential := frame_size + ACK_GROUP_SIZE in
      if (h_credit (as_h a) - Z.of_N frame_size <? 0)%Z then (afe_finalize a, false)
      else if MAX_FRAME_SIZE <? potential then afe_push_new (afe_finalize a) g
      else (mkAs (as_h a) (Some (mkAckIp (ai_enc f ++ encode_ack_group g) (ai_count f + 1))) (as_out a) (as_fbase a) (as_pbase a), true)
  | None => afe_push_new a g
  end.

Fixpoint ack_loop (fuel : nat) (a : ack_state) : res (ack_state * bool) :=
  match fuel with
  | O => Hang SITE_LOOP
  | S f =>
      match faq_peek (h_faq (as_h a)) with
      | None => Ok (a, true)
      | Some g =>
          let '(a1, ok) := afe_push a g in
          if ok then
            let h1 := as_h a1 in
            ack_loop f (mkAs (set_faq h1 (faq_pop (h_faq h1))) (as_ip a1) (as_out a1) (as_fbase a1) (as_pbase a1))
          else Ok (a1, false)
      end
  end.

Definition emit_ack_frames (h : hc) (out : list (list N)) : res (hc * list (list N) * bool) :=
  let a0 := mkAs h None out (fa_base (h_faq h)) (r_base (h_rcv h)) in
  let '(a1, ok1) := if h_sync_reply h then afe_push_dud a0 else (a0, true) in
  if negb ok1 then Ok (as_h a1, as_out a1, false) else
  do r <- ack_loop (S (length (fa_entries (h_faq h)))) a1;
  let '(a2, ok2) := r in
  if ok2 then let a3 := afe_finalize a2 in Ok (as_h a3, as_out a3, true)
  else Ok (as_h a2, as_out a2, false).

Definition emit_sync_frame (h : hc) (out : list (list N)) : hc * list (list N) * bool :=
  let elapsed := h_now h - h_sync_base h in
  let timeout := N.max (h_rto h) MIN_SYNC_TIMEOUT_MS in
  if timeout <=? elapsed then
    let nf := if negb (fq_next (h_fq h) =? fq_wbase (h_fq h)) then Some (fq_next (h_fq h)) else None in
    let np := if negb (s_next (h_snd h) =? s_base (h_snd h)) && (len (h_rq h) =? 0) && (len (h_pq h) =? 0)
              then Some (s_next (h_snd h)) else None in
    let idle := match nf, np with None, None => true | _, _ => false end in
    let skip := if idle then match h_keepalive h with Some k => elapsed <? k | None => true end else false in
    if skip then (h, out, true)
    else if (h_credit h <? 0)%Z then (h, out, false)
    else
      let bytes := write_sync nf np in
      (set_sync_base (set_credit h (h_credit h - Z.of_N (len bytes))%Z) (h_now h), out ++ [bytes], true)
  else (h, out, true).

(* Loop fuel, a true bound for the loops of emit_data_frames: every iteration of the resend loop
   either removes a resend entry for good or pushes a datagram, and at most 127 datagrams fit in
   each of the frames that the transfer window still admits; the outer pending loop dequeues one
   packet per iteration. *)
Definition hc_flush_fuel (h : hc) : nat :=
  N.to_nat (len (h_rq h) + len (s_queue (h_snd h)) + len (h_pq h)
            + (DATA_FRAME_MAX_DATAGRAM_COUNT + 1) * (fq_wsize (h_fq h) + 2) + 4).

Definition hc_flush (h : hc) : res (hc * list (list N)) :=
  do r1 <- emit_ack_frames h [];
  let '(h1, out1, ok1) := r1 in
  if negb ok1 then Ok (h1, out1) else
  do r2 <- emit_data_frames (hc_flush_fuel h1) h1 out1;
  let '(h2, out2, ok2) := r2 in
  if negb ok2 then Ok (h2, out2) else
  let '(h3, out3, _) := emit_sync_frame h2 out2 in
  Ok (h3, out3).
