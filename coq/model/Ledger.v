(* Ledger.v — the allocator contract of the reassembly buffer (fragment_buffer.rs), as a ledger of
   allocator calls. A block is identified by a number; the global allocator requires that realloc and
   dealloc are called with the layout the block currently has. *)
From UF Require Import Consts Base.
Open Scope N_scope.

Inductive mem_event :=
| MAlloc (id size align : N)
| MRealloc (id old_size align new_size : N)
| MDealloc (id size align : N).

(* live blocks: id -> (size, align) *)
Definition heap := list (N * (N * N)).

Definition hfind (h : heap) (id : N) : option (N * N) :=
  match find (fun e => fst e =? id) h with Some e => Some (snd e) | None => None end.
Definition hremove (h : heap) (id : N) : heap := filter (fun e => negb (fst e =? id)) h.

(* Some h' if the call respects the contract *)
Definition mem_step (h : heap) (e : mem_event) : option heap :=
  match e with
  | MAlloc id size align => match hfind h id with None => Some ((id, (size, align)) :: h) | Some _ => None end
  | MRealloc id old align new_size =>
      match hfind h id with
      | Some (s, a) => if (s =? old) && (a =? align) then Some ((id, (new_size, align)) :: hremove h id) else None
      | None => None
      end
  | MDealloc id size align =>
      match hfind h id with
      | Some (s, a) => if (s =? size) && (a =? align) then Some (hremove h id) else None
      | None => None
      end
  end.

Fixpoint mem_run (h : heap) (evs : list mem_event) : option heap :=
  match evs with
  | [] => Some h
  | e :: t => match mem_step h e with Some h' => mem_run h' t | None => None end
  end.

(* contract respected and nothing left allocated *)
Definition balanced (evs : list mem_event) : Prop := mem_run [] evs = Some [].

(* FragmentBuffer::new(n) ... finalize() ... drop of the returned Box<[u8]>, as the code does it now:
   buffer = vec![0; n*F].into_boxed_slice(); finalize: into_vec, truncate(total), into_boxed_slice (which
   shrinks the allocation to `total` through realloc when total < capacity, or frees it when total = 0) *)
Definition fragment_buffer_ledger (n total : N) : list mem_event :=
  let cap := n * MAX_FRAGMENT_SIZE in
  let words := (n + 63) / 64 in
  [MAlloc 1 cap 1; MAlloc 2 (words * 8) 8]
  ++ (if total =? cap then [] else if total =? 0 then [MDealloc 1 cap 1] else [MRealloc 1 cap 1 total])
  ++ [MDealloc 2 (words * 8) 8]
  ++ (if total =? 0 then (if total =? cap then [MDealloc 1 cap 1] else []) else [MDealloc 1 total 1]).

(* what the code did before the repair (Box::from_raw on the first `total` bytes of the block) *)
Definition fragment_buffer_ledger_before_fix (n total : N) : list mem_event :=
  let cap := n * MAX_FRAGMENT_SIZE in
  let words := (n + 63) / 64 in
  [MAlloc 1 cap 1; MAlloc 2 (words * 8) 8; MDealloc 2 (words * 8) 8; MDealloc 1 total 1].
