(* Sender.v — src/half_connection/packet_sender.rs and pending_packet.rs.
   Rc<RefCell<PendingPacket>> handles are modelled by a unique id (uid): the number of packets
   that entered the window before this one. The window owns the packets; a Weak reference
   upgrades iff its uid is still inside [base_uid, base_uid + |window|). The window is kept as a
   queue (oldest first) instead of a ring indexed by sequence_id & mask. *)
From UF Require Import Consts Base Frame.

Inductive send_mode := TimeSensitive | Unreliable | Persistent | Reliable.

Record send_entry := mkSendEntry {
  se_data : list N; se_chan : N; se_mode : send_mode; se_flush : N }.

Record pending_packet := mkPending {
  pp_data : list N; pp_chan : N; pp_seq : N; pp_wpl : N; pp_cpl : N; pp_last : N;
  pp_acked : list N   (* fragment ids whose ack flag is set *)
}.

Record window_entry := mkWinEntry { we_packet : pending_packet; we_alloc : N; we_chan : N }.

Record sender := mkSender {
  s_queue : list send_entry;
  s_base : N; s_next : N;
  s_base_uid : N;
  s_win : list window_entry;
  s_wsize : N;
  s_wparent : option N;
  s_chans : list (option N);
  s_max_alloc : N; s_alloc : N; s_total : N
}.

Definition ceil_frag (x : N) : N := ((x + MAX_FRAGMENT_SIZE - 1) / MAX_FRAGMENT_SIZE) * MAX_FRAGMENT_SIZE.

(* alloc_size *)
Definition alloc_size (packet_size : N) : N :=
  if MAX_FRAGMENT_SIZE <? packet_size then ceil_frag packet_size else packet_size.

Definition num_fragments (data_len : N) : N :=
  (data_len + MAX_FRAGMENT_SIZE - 1) / MAX_FRAGMENT_SIZE + (if data_len =? 0 then 1 else 0).

Definition sender_new (window_size base_id max_alloc : N) : sender :=
  mkSender [] base_id base_id 0 [] window_size None (repeatN None (N.to_nat CHANNEL_COUNT))
           (ceil_frag max_alloc) 0 0.

Definition sender_enqueue (s : sender) (data : list N) (chan : N) (mode : send_mode) (flush_id : N) : sender :=
  mkSender (s_queue s ++ [mkSendEntry data chan mode flush_id]) (s_base s) (s_next s) (s_base_uid s) (s_win s)
           (s_wsize s) (s_wparent s) (s_chans s) (s_max_alloc s) (s_alloc s) (s_total s + len data).

(* the leading `while` of emit_packet: drop stale TimeSensitive packets *)
Fixpoint drop_stale (q : list send_entry) (flush_id total : N) : list send_entry * N :=
  match q with
  | e :: q' =>
      match se_mode e with
      | TimeSensitive =>
          if negb (se_flush e =? flush_id) then drop_stale q' flush_id (total - len (se_data e))
          else (q, total)
      | _ => (q, total)
      end
  | [] => (q, total)
  end.

Definition is_resend (m : send_mode) : bool :=
  match m with TimeSensitive | Unreliable => false | Persistent | Reliable => true end.

(* emit_packet: Some (uid of the new window entry, resend flag) *)
Definition sender_emit_packet (s : sender) (flush_id : N) : sender * option (N * bool) :=
  let '(q, total) := drop_stale (s_queue s) flush_id (s_total s) in
  let s0 := mkSender q (s_base s) (s_next s) (s_base_uid s) (s_win s) (s_wsize s) (s_wparent s) (s_chans s)
                     (s_max_alloc s) (s_alloc s) total in
  match q with
  | [] => (s0, None)
  | e :: q' =>
      if s_wsize s <=? pid_sub (s_next s) (s_base s) then (s0, None) else
      let pas := alloc_size (len (se_data e)) in
      if s_max_alloc s <? s_alloc s + pas then (s0, None) else
      let seq := s_next s in
      let chan_parent := nth (N.to_nat (se_chan e)) (s_chans s) None in
      let wpl := match s_wparent s with Some p => pid_sub seq p mod pow16 | None => 0 end in
      let cpl := match chan_parent with Some p => pid_sub seq p mod pow16 | None => 0 end in
      let pp := mkPending (se_data e) (se_chan e) seq wpl cpl (num_fragments (len (se_data e)) - 1) [] in
      let uid := s_base_uid s + len (s_win s) in
      let is_rel := match se_mode e with Reliable => true | _ => false end in
      let s1 := mkSender q' (s_base s) (pid_add (s_next s) 1) (s_base_uid s)
                         (s_win s ++ [mkWinEntry pp pas (se_chan e)]) (s_wsize s)
                         (if is_rel then Some seq else s_wparent s)
                         (if is_rel then upd (s_chans s) (N.to_nat (se_chan e)) (Some seq) else s_chans s)
                         (s_max_alloc s) (s_alloc s + pas) total in
      (s1, Some (uid, is_resend (se_mode e)))
  end.

(* the `while self.base_id != receiver_base_id` loop of acknowledge, run `n` times *)
Fixpoint sender_release (n : nat) (s : sender) : res sender :=
  match n with
  | O => Ok s
  | S n' =>
      match s_win s with
      | [] => Panic SITE_UNWRAP     (* self.window[window_idx].as_ref().unwrap() *)
      | e :: win' =>
          let b := s_base s in
          let wparent := match s_wparent s with Some p => if p =? b then None else Some p | None => None end in
          let cp := nth (N.to_nat (we_chan e)) (s_chans s) None in
          let chans := match cp with
                       | Some p => if p =? b then upd (s_chans s) (N.to_nat (we_chan e)) None else s_chans s
                       | None => s_chans s end in
          sender_release n'
            (mkSender (s_queue s) (pid_add b 1) (s_next s) (s_base_uid s + 1) win' (s_wsize s) wparent chans
                      (s_max_alloc s) (s_alloc s - we_alloc e) (s_total s - len (pp_data (we_packet e))))
      end
  end.

Definition sender_acknowledge (s : sender) (receiver_base_id : N) : res sender :=
  if negb (pid_valid receiver_base_id) then Ok s else
  let delta := pid_sub receiver_base_id (s_base s) in
  let span := pid_sub (s_next s) (s_base s) in
  if span <? delta then Ok s else sender_release (N.to_nat delta) s.

(* Weak::upgrade *)
Definition sender_lookup (s : sender) (uid : N) : option window_entry :=
  if uid <? s_base_uid s then None else nth_opt (s_win s) (uid - s_base_uid s).

Definition pp_fragment_acked (p : pending_packet) (frag : N) : bool :=
  existsb (N.eqb frag) (pp_acked p).

Definition sender_ack_fragment (s : sender) (uid frag : N) : sender :=
  match sender_lookup s uid with
  | None => s
  | Some e =>
      let p := we_packet e in
      let p' := if pp_fragment_acked p frag then p else
                mkPending (pp_data p) (pp_chan p) (pp_seq p) (pp_wpl p) (pp_cpl p) (pp_last p) (frag :: pp_acked p) in
      mkSender (s_queue s) (s_base s) (s_next s) (s_base_uid s)
               (upd (s_win s) (N.to_nat (uid - s_base_uid s)) (mkWinEntry p' (we_alloc e) (we_chan e)))
               (s_wsize s) (s_wparent s) (s_chans s) (s_max_alloc s) (s_alloc s) (s_total s)
  end.

(* PendingPacket::datagram *)
Definition pp_datagram (p : pending_packet) (frag : N) : datagram :=
  let off := N.to_nat (frag * MAX_FRAGMENT_SIZE) in
  let rest := skipn off (pp_data p) in
  let d := if frag =? pp_last p then rest else firstn (N.to_nat MAX_FRAGMENT_SIZE) rest in
  mkDg (pp_seq p) (pp_chan p) (pp_wpl p) (pp_cpl p) frag (pp_last p) d.
