(* SendRate.v — src/half_connection/{send_rate.rs, recv_rate_set.rs}: TFRC allowed send rate.
   f64 computations use Coq's primitive floats in the code's operation order (bit-exact). *)
From UF Require Import Consts Base F64 FrameQueue.
Open Scope N_scope.

Definition u32_max : N := 4294967295.
Definition u64_max : N := 18446744073709551615.
Definition sat_mul2_u32 (x : N) : N := N.min (2 * x) u32_max.
Definition sat_add_u64 (a b : N) : N := N.min (a + b) u64_max.

Definition s_to_ms (v : float) : N := f_round_to_unsigned (fmax (PrimFloat.mul v 1000) f0) u64_max.

Definition eval_tcp_throughput (rtt p : float) : N :=
  let s := f_of_N MSS in
  let t1 := PrimFloat.sqrt (PrimFloat.div (PrimFloat.mul p 2) 3) in
  let t2 := PrimFloat.mul (PrimFloat.mul (PrimFloat.mul 12 (PrimFloat.sqrt (PrimFloat.div (PrimFloat.mul p 3) 8))) p)
                          (PrimFloat.add 1 (PrimFloat.mul (PrimFloat.mul 32 p) p)) in
  let f_p := PrimFloat.add t1 t2 in
  f_to_u32 (PrimFloat.div s (PrimFloat.mul rtt f_p)).

Fixpoint tput_inv_loop (n : nat) (rtt : float) (target delta : N) (a b : float) : float :=
  let c := PrimFloat.div (PrimFloat.add b a) 2 in
  match n with
  | O => c
  | S n' =>
      let rate := eval_tcp_throughput rtt c in
      if target <? rate then
        if rate - target <=? delta then c else tput_inv_loop n' rtt target delta c b
      else if rate <? target then
        if target - rate <=? delta then c else tput_inv_loop n' rtt target delta a c
      else c
  end.

Definition eval_tcp_throughput_inv (rtt : float) (target : N) : float :=
  let delta := f_to_u32 (PrimFloat.mul (f_of_N target) 0.05) in
  tput_inv_loop 64 rtt target delta 0 1.

(* ---------- RecvRateSet ---------- *)
Record recv_entry := mkRe { re_value : N; re_time : N; re_initial : bool }.

Definition rrs_max (es : list recv_entry) : res N :=
  match es with
  | [] => Panic SITE_UNWRAP
  | e :: t => Ok (fold_left (fun m x => if m <? re_value x then re_value x else m) t (re_value e))
  end.

Definition rrs_reset (now_ms rate : N) : list recv_entry := [mkRe rate now_ms false].

Definition rrs_replace_max (es : list recv_entry) (now_ms rate : N) : res (list recv_entry * N) :=
  let es1 := filter (fun e => negb (re_initial e)) es in
  do m <- (match es1 with [] => Ok rate | _ => do x <- rrs_max es1; Ok (N.max x rate) end);
  Ok (rrs_reset now_ms m, m).

Definition rrs_rate_limited_update (es : list recv_entry) (now_ms rate rtt_ms : N) : res (list recv_entry * N) :=
  let es1 := es ++ [mkRe rate now_ms false] in
  let es2 := filter (fun e => (re_time e =? now_ms) || (now_ms - re_time e <? 2 * rtt_ms)) es1 in
  do m <- rrs_max es2; Ok (es2, m).

Definition rrs_loss_increase_update (es : list recv_entry) (now_ms rate : N) : res (list recv_entry * N) :=
  let es1 := map (fun e => mkRe (re_value e / 2) (re_time e) (re_initial e)) es in
  rrs_replace_max es1 now_ms (f_to_u32 (PrimFloat.mul (f_of_N rate) 0.85)).

Definition rrs_data_limited_update (es : list recv_entry) (now_ms rate : N) : res (list recv_entry * N) :=
  rrs_replace_max es now_ms rate.

(* ---------- SendRateComp ---------- *)
Inductive sr_mode :=
| AwaitSend
| SlowStart (time_last_doubled : option N)
| ThroughputEqn (send_rate_tcp : N).

Record send_rate_comp := mkSrc {
  sr_prev_loss : float;
  sr_nofeedback_exp : option N;
  sr_nofeedback_idle : bool;
  sr_mode_ : sr_mode;
  sr_rate : N;
  sr_max_rate : N;
  sr_recv_set : list recv_entry;
  sr_rtt_s : option float;
  sr_rtt_ms : option N;
  sr_rto_ms : option N
}.

Definition src_new (max_send_rate : N) : send_rate_comp :=
  mkSrc f0 None false AwaitSend MSS max_send_rate [] None None None.

Definition compute_initial_send_rate (rtt_s : float) : N := f_to_u32 (PrimFloat.div (f_of_N INITIAL_TCP_WINDOW) rtt_s).
Definition compute_initial_loss_send_rate (rtt_s : float) : N := f_to_u32 (PrimFloat.div (f_of_N (MSS / 2)) rtt_s).

Definition src_notify_frame_sent (c : send_rate_comp) (now_ms : N) : send_rate_comp :=
  match sr_mode_ c with
  | AwaitSend =>
      mkSrc (sr_prev_loss c) (Some (now_ms + INITIAL_NOFEEDBACK_MS)) false (SlowStart None) (sr_rate c) (sr_max_rate c)
            [mkRe u32_max now_ms true] (sr_rtt_s c) (sr_rtt_ms c) (sr_rto_ms c)
  | _ =>
      mkSrc (sr_prev_loss c) (sr_nofeedback_exp c) false (sr_mode_ c) (sr_rate c) (sr_max_rate c)
            (sr_recv_set c) (sr_rtt_s c) (sr_rtt_ms c) (sr_rto_ms c)
  end.

Definition update_rtt (c : send_rate_comp) (sample_s : float) : float * N :=
  let new_rtt_s := match sr_rtt_s c with
                   | Some r => PrimFloat.add (PrimFloat.mul (PrimFloat.sub 1 RTT_ALPHA) r) (PrimFloat.mul RTT_ALPHA sample_s)
                   | None => sample_s end in
  (new_rtt_s, s_to_ms new_rtt_s).

Definition compute_rto_s (rtt_s : float) (send_rate : N) : float :=
  fmax (PrimFloat.mul 4 rtt_s) (PrimFloat.div (f_of_N (2 * MSS)) (f_of_N send_rate)).

(* the `recv_limit` computation of handle_feedback: (new X_recv_set, recv_limit) *)
Definition recv_limit_update (es : list recv_entry) (now_ms recv_rate rtt_ms : N) (rate_limited loss_increase : bool)
  : res (list recv_entry * N) :=
  if rate_limited then
    do r <- rrs_rate_limited_update es now_ms recv_rate rtt_ms; Ok (fst r, sat_mul2_u32 (snd r))
  else if loss_increase then
    do r <- rrs_loss_increase_update es now_ms recv_rate; Ok (fst r, snd r)
  else
    do r <- rrs_data_limited_update es now_ms recv_rate; Ok (fst r, sat_mul2_u32 (snd r)).

(* handle_feedback; the reset_loss_rate callback argument is returned *)
Definition src_handle_feedback (c : send_rate_comp) (now_ms : N) (fb : feedback_data)
  : res (send_rate_comp * option float) :=
  let rtt_sample_s := ms_to_s (fd_rtt_ms fb) in
  let recv_rate := fd_recv_rate fb in
  let loss_rate := fd_loss_rate fb in
  let '(rtt_s, rtt_ms) := update_rtt c rtt_sample_s in
  let rto_s := compute_rto_s rtt_s (sr_rate c) in
  let rto_ms := s_to_ms rto_s in
  let loss_increase := PrimFloat.ltb (sr_prev_loss c) loss_rate in
  do rl <- recv_limit_update (sr_recv_set c) now_ms recv_rate rtt_ms (fd_rate_limited fb) loss_increase;
  let '(recv_set, recv_limit) := rl in
  do r2 <- (match sr_mode_ c with
            | SlowStart tld =>
                if loss_increase then
                  let target := match tld with None => compute_initial_loss_send_rate rtt_s | Some _ => sr_rate c / 2 end in
                  let initial_p := eval_tcp_throughput_inv rtt_s target in
                  Ok (ThroughputEqn target, N.max (N.min target recv_limit) MINIMUM_RATE, Some initial_p)
                else
                  let initial_rate := compute_initial_send_rate rtt_s in
                  match tld with
                  | Some t =>
                      if rtt_ms <=? now_ms - t then
                        Ok (SlowStart (Some now_ms), N.max (N.min (sat_mul2_u32 (sr_rate c)) recv_limit) initial_rate, None)
                      else Ok (SlowStart tld, sr_rate c, None)
                  | None => Ok (SlowStart (Some now_ms), initial_rate, None)
                  end
            | ThroughputEqn _ =>
                let tcp := eval_tcp_throughput rtt_s loss_rate in
                Ok (ThroughputEqn tcp, N.max (N.min tcp recv_limit) MINIMUM_RATE, None)
            | AwaitSend => Panic SITE_PANIC
            end);
  let '(mode', rate', reset) := r2 in
  Ok (mkSrc loss_rate (Some (sat_add_u64 now_ms rto_ms)) true mode' (N.min rate' (sr_max_rate c)) (sr_max_rate c)
            recv_set (Some rtt_s) (Some rtt_ms) (Some rto_ms), reset).

Definition src_nofeedback_expired (c : send_rate_comp) (now_ms : N) : res send_rate_comp :=
  do r <- (match sr_mode_ c with
           | SlowStart _ =>
               match sr_rtt_s c with
               | Some rtt_s =>
                   let recover := compute_initial_send_rate rtt_s in
                   if sr_nofeedback_idle c && (sr_rate c <? sat_mul2_u32 recover) then Ok (sr_mode_ c, sr_rate c, sr_recv_set c)
                   else Ok (sr_mode_ c, N.max (sr_rate c / 2) MINIMUM_RATE, sr_recv_set c)
               | None => Ok (sr_mode_ c, N.max (sr_rate c / 2) MINIMUM_RATE, sr_recv_set c)
               end
           | ThroughputEqn tcp =>
               match sr_rtt_s c with
               | None => Panic SITE_UNWRAP
               | Some rtt_s =>
                   let recover := compute_initial_send_rate rtt_s in
                   do recv_rate <- rrs_max (sr_recv_set c);
                   if sr_nofeedback_idle c && (recv_rate <? recover) then Ok (sr_mode_ c, sr_rate c, sr_recv_set c)
                   else
                     let current_limit := N.min tcp (sat_mul2_u32 recv_rate) in
                     let new_limit := N.max (current_limit / 2) MINIMUM_RATE in
                     Ok (sr_mode_ c, N.min (N.max (N.min tcp new_limit) MINIMUM_RATE) (sr_max_rate c), rrs_reset now_ms (new_limit / 2))
               end
           | AwaitSend => Panic SITE_PANIC
           end);
  let '(mode', rate', recv_set') := r in
  let rto_s := compute_rto_s (opt_default f0 (sr_rtt_s c)) rate' in
  let rto_ms := s_to_ms rto_s in
  Ok (mkSrc (sr_prev_loss c) (Some (sat_add_u64 now_ms rto_ms)) true mode' rate' (sr_max_rate c) recv_set'
            (sr_rtt_s c) (sr_rtt_ms c) (Some rto_ms)).

Definition src_step (c : send_rate_comp) (now_ms : N) (fb : option feedback_data)
  : res (send_rate_comp * option float) :=
  match sr_mode_ c with
  | AwaitSend => Ok (c, None)
  | _ =>
      match fb with
      | Some f => src_handle_feedback c now_ms f
      | None =>
          match sr_nofeedback_exp c with
          | Some e => if e <=? now_ms then do c' <- src_nofeedback_expired c now_ms; Ok (c', None) else Ok (c, None)
          | None => Ok (c, None)
          end
      end
  end.
