(* Endpoint.v — src/server/mod.rs, src/server/remote_client.rs, src/client/mod.rs over an abstract
   datagram socket: an operation receives the datagrams the socket would return and yields the
   datagrams sent and the events reported. Addresses are opaque numbers. Rc<RefCell<RemoteClient>>
   objects are entries of an append-only object list addressed by id (stale timer events keep
   referring to the object they were created for). The timer queue is std's BinaryHeap (Heap.v). *)
From UF Require Import Consts Base Frame Codec F64 Sender Receiver FrameAck Heap FrameQueue SendRate HalfConn.
Open Scope N_scope.

Record ep_config := mkEpConfig {
  ec_max_send_rate : N; ec_max_receive_rate : N; ec_max_packet_size : N; ec_max_receive_alloc : N;
  ec_keepalive : bool; ec_keepalive_interval : N; ec_active_timeout : N
}.

Definition u32_clamp (x : N) : N := N.min x 4294967295.

(* error kinds: 0 Timeout, 1 Version, 2 Config, 3 ServerFull *)
Inductive ep_event :=
| EvConnect (addr : N)
| EvDisconnect (addr : N)
| EvReceive (addr : N) (data : list N)
| EvError (addr : N) (kind : N).

Definition hc_config_of (ec : ep_config) (local_nonce remote_nonce remote_max_receive_rate remote_max_receive_alloc : N) : hc_config :=
  mkHcConfig local_nonce remote_nonce MAX_FRAME_WINDOW_SIZE MAX_FRAME_WINDOW_SIZE
             (local_nonce mod pow20) (remote_nonce mod pow20) MAX_PACKET_WINDOW_SIZE MAX_PACKET_WINDOW_SIZE
             (N.min (ec_max_send_rate ec mod pow32) remote_max_receive_rate)
             remote_max_receive_alloc (ec_max_receive_alloc ec)
             (if ec_keepalive ec then Some (ec_keepalive_interval ec) else None).

(* ====================================================================== server *)

Record sv_config := mkSvConfig { svc_max_total : N; svc_max_active : N; svc_enable_errors : bool; svc_ec : ep_config }.

Inductive sv_cstate :=
| SvPending (local_nonce remote_nonce remote_max_receive_rate remote_max_receive_alloc : N) (reply_bytes : list N)
| SvActive (h : hc) (t0 : N) (timeout_time : N) (disc : option bool)   (* Some true = Now, Some false = Flush *)
| SvClosing
| SvClosed
| SvFin.

Record sv_obj := mkSvObj { so_addr : N; so_state : sv_cstate }.

(* timer events reuse the heap entry record: rq_uid = client object id, rq_frag = kind
   (0 ResendHandshakeSynAck, 1 ResendDisconnect, 2 ClosedTimeout), rq_time, rq_count *)
Record server := mkServer {
  sv_cfg : sv_config;
  sv_objs : list sv_obj;
  sv_clients : list (N * N);     (* address -> object id *)
  sv_active : list N;            (* active_clients: object ids *)
  sv_events : list rq_entry;
  sv_t0 : N;                     (* virtual time of Server::bind *)
  sv_seed : N                    (* frame nonce seed of the verification hook *)
}.

Record sv_acc := mkAcc { ac_events : list ep_event; ac_sends : list (N * list N); ac_nonces : list N }.

Definition server_new (cfg : sv_config) (t0 seed : N) : server := mkServer cfg [] [] [] [] t0 seed.

Definition sv_lookup (s : server) (addr : N) : option N :=
  match find (fun p => fst p =? addr) (sv_clients s) with Some p => Some (snd p) | None => None end.

Definition sv_obj_get (s : server) (id : N) : sv_obj := nth (N.to_nat id) (sv_objs s) (mkSvObj 0 SvFin).

Definition sv_set_obj (s : server) (id : N) (st : sv_cstate) : server :=
  mkServer (sv_cfg s) (upd (sv_objs s) (N.to_nat id) (mkSvObj (so_addr (sv_obj_get s id)) st))
           (sv_clients s) (sv_active s) (sv_events s) (sv_t0 s) (sv_seed s).

Definition sv_remove_addr (s : server) (addr : N) : server :=
  mkServer (sv_cfg s) (sv_objs s) (filter (fun p => negb (fst p =? addr)) (sv_clients s)) (sv_active s) (sv_events s) (sv_t0 s) (sv_seed s).

Definition sv_push_event (s : server) (e : rq_entry) : server :=
  mkServer (sv_cfg s) (sv_objs s) (sv_clients s) (sv_active s) (heap_push (sv_events s) e) (sv_t0 s) (sv_seed s).

Definition acc_event (a : sv_acc) (e : ep_event) : sv_acc := mkAcc (ac_events a ++ [e]) (ac_sends a) (ac_nonces a).
Definition acc_send (a : sv_acc) (addr : N) (bytes : list N) : sv_acc := mkAcc (ac_events a) (ac_sends a ++ [(addr, bytes)]) (ac_nonces a).
Definition acc_events (a : sv_acc) (addr : N) (pkts : list (list N)) : sv_acc :=
  mkAcc (ac_events a ++ map (EvReceive addr) pkts) (ac_sends a) (ac_nonces a).

Definition sv_is_active (s : server) (id : N) : bool :=
  match so_state (sv_obj_get s id) with SvActive _ _ _ _ => true | _ => false end.

Definition sv_refuse (s : server) (a : sv_acc) (addr nonce : N) (e : err_type) (kind : N) : server * sv_acc :=
  let a1 := acc_send a addr (write_handshake_error nonce e) in
  (s, if svc_enable_errors (sv_cfg s) then acc_event a1 (EvError addr kind) else a1).

Definition sv_handle_syn (s : server) (a : sv_acc) (addr : N) (version nonce mrr mps mra now_ms : N) : server * sv_acc :=
  match sv_lookup s addr with
  | Some _ => (s, a)
  | None =>
      let ec := svc_ec (sv_cfg s) in
      if negb (version =? PROTOCOL_VERSION) then sv_refuse s a addr nonce ErrVersion 1
      else if (svc_max_total (sv_cfg s) <=? len (sv_clients s)) || (svc_max_active (sv_cfg s) <=? len (sv_active s))
      then sv_refuse s a addr nonce ErrServerFull 3
      else if mra <? ec_max_packet_size ec then sv_refuse s a addr nonce ErrConfig 2
      else if ec_max_receive_alloc ec <? mps then sv_refuse s a addr nonce ErrConfig 2
      else
        let local_nonce := hd 0 (ac_nonces a) in
        let a1 := mkAcc (ac_events a) (ac_sends a) (tl (ac_nonces a)) in
        let reply := write_handshake_syn_ack nonce local_nonce (u32_clamp (ec_max_receive_rate ec))
                                             (u32_clamp (ec_max_packet_size ec)) (u32_clamp (ec_max_receive_alloc ec)) in
        let a2 := acc_send a1 addr reply in
        let id := len (sv_objs s) in
        let s1 := mkServer (sv_cfg s) (sv_objs s ++ [mkSvObj addr (SvPending local_nonce nonce mrr mra reply)])
                           (sv_clients s ++ [(addr, id)]) (sv_active s) (sv_events s) (sv_t0 s) (sv_seed s) in
        (sv_push_event s1 (mkRq id 0 (now_ms + SERVER_HANDSHAKE_RESEND_INTERVAL_MS) SERVER_HANDSHAKE_RESEND_COUNT), a2)
  end.

Definition sv_handle_ack (s : server) (a : sv_acc) (addr nonce_ack now_ms vnow : N) : server * sv_acc :=
  match sv_lookup s addr with
  | None => (s, a)
  | Some id =>
      match so_state (sv_obj_get s id) with
      | SvPending ln rn rmrr rmra _ =>
          if (nonce_ack =? ln) && (len (sv_active s) <? svc_max_active (sv_cfg s)) then
            let ec := svc_ec (sv_cfg s) in
            let h := hc_new (hc_config_of ec ln rn rmrr rmra) (sv_seed s) in
            let s1 := sv_set_obj s id (SvActive h vnow (now_ms + ec_active_timeout ec) None) in
            (mkServer (sv_cfg s1) (sv_objs s1) (sv_clients s1) (sv_active s1 ++ [id]) (sv_events s1) (sv_t0 s1) (sv_seed s1),
             acc_event a (EvConnect addr))
          else (s, a)
      | SvActive h t0 _ disc =>
          (sv_set_obj s id (SvActive h t0 (now_ms + ec_active_timeout (svc_ec (sv_cfg s))) disc), a)
      | _ => (s, a)
      end
  end.

Definition sv_handle_disconnect (s : server) (a : sv_acc) (addr now_ms : N) : server * sv_acc :=
  match sv_lookup s addr with
  | None => (s, a)
  | Some id =>
      match so_state (sv_obj_get s id) with
      | SvPending _ _ _ _ _ => (s, a)
      | SvActive h t0 _ _ =>
          let a1 := acc_send a addr write_disconnect_ack in
          let '(_, pkts) := hc_receive h in
          let a2 := acc_event (acc_events a1 addr pkts) (EvDisconnect addr) in
          (sv_push_event (sv_set_obj s id SvClosed) (mkRq id 2 (now_ms + SERVER_CLOSED_TIMEOUT_MS) 0), a2)
      | SvClosing =>
          let a1 := acc_event (acc_send a addr write_disconnect_ack) (EvDisconnect addr) in
          (sv_push_event (sv_set_obj s id SvClosed) (mkRq id 2 (now_ms + SERVER_CLOSED_TIMEOUT_MS) 0), a1)
      | SvClosed => (s, acc_send a addr write_disconnect_ack)
      | SvFin => (s, a)
      end
  end.

Definition sv_handle_disconnect_ack (s : server) (a : sv_acc) (addr : N) : server * sv_acc :=
  match sv_lookup s addr with
  | None => (s, a)
  | Some id =>
      match so_state (sv_obj_get s id) with
      | SvClosing => (sv_remove_addr (sv_set_obj s id SvFin) addr, acc_event a (EvDisconnect addr))
      | _ => (s, a)
      end
  end.

(* data / sync / ack frames for an active connection *)
Definition sv_handle_hc_frame (s : server) (a : sv_acc) (addr : N) (f : frame) (now_ms : N) : res (server * sv_acc) :=
  match sv_lookup s addr with
  | None => Ok (s, a)
  | Some id =>
      match so_state (sv_obj_get s id) with
      | SvActive h t0 _ disc =>
          do r <- hc_handle_frame h f;
          Ok (sv_set_obj s id (SvActive (fst r) t0 (now_ms + ec_active_timeout (svc_ec (sv_cfg s))) disc), a)
      | _ => Ok (s, a)
      end
  end.

Definition sv_handle_frame (s : server) (a : sv_acc) (addr : N) (f : frame) (now_ms vnow : N) : res (server * sv_acc) :=
  match f with
  | FSyn v n mrr mps mra => Ok (sv_handle_syn s a addr v n mrr mps mra now_ms)
  | FHsAck na => Ok (sv_handle_ack s a addr na now_ms vnow)
  | FSynAck _ _ _ _ _ => Ok (s, a)
  | FHsError _ _ => Ok (s, a)
  | FDisconnect => Ok (sv_handle_disconnect s a addr now_ms)
  | FDisconnectAck => Ok (sv_handle_disconnect_ack s a addr)
  | FData _ _ _ | FSync _ _ | FAcks _ _ _ => sv_handle_hc_frame s a addr f now_ms
  end.

Fixpoint sv_handle_frames (inbox : list (N * list N)) (s : server) (a : sv_acc) (now_ms vnow : N) : res (server * sv_acc) :=
  match inbox with
  | [] => Ok (s, a)
  | (addr, bytes) :: rest =>
      do r <- read_frame bytes;
      match r with
      | None => sv_handle_frames rest s a now_ms vnow
      | Some f => do sa <- sv_handle_frame s a addr f now_ms vnow; sv_handle_frames rest (fst sa) (snd sa) now_ms vnow
      end
  end.

(* handle_event *)
Definition sv_handle_event (s : server) (a : sv_acc) (ev : rq_entry) (now_ms : N) : server * sv_acc :=
  let id := rq_uid ev in
  let o := sv_obj_get s id in
  match so_state o with
  | SvPending _ _ _ _ reply =>
      if rq_frag ev =? 0 then
        if 0 <? rq_count ev then
          (sv_push_event s (mkRq id 0 (now_ms + SERVER_HANDSHAKE_RESEND_INTERVAL_MS) (rq_count ev - 1)), acc_send a (so_addr o) reply)
        else
          (sv_remove_addr (sv_set_obj s id SvFin) (so_addr o),
           if svc_enable_errors (sv_cfg s) then acc_event a (EvError (so_addr o) 0) else a)
      else (s, a)
  | SvClosing =>
      if rq_frag ev =? 1 then
        if 0 <? rq_count ev then
          (sv_push_event s (mkRq id 1 (now_ms + SERVER_DISCONNECT_RESEND_INTERVAL_MS) (rq_count ev - 1)), acc_send a (so_addr o) write_disconnect)
        else (sv_remove_addr (sv_set_obj s id SvFin) (so_addr o), acc_event a (EvError (so_addr o) 0))
      else (s, a)
  | SvClosed =>
      if rq_frag ev =? 2 then (sv_remove_addr (sv_set_obj s id SvFin) (so_addr o), a) else (s, a)
  | _ => (s, a)
  end.

Fixpoint sv_pop_events (fuel : nat) (s : server) (a : sv_acc) (now_ms : N) : res (server * sv_acc) :=
  match fuel with
  | O => Hang SITE_LOOP
  | S f =>
      match heap_peek (sv_events s) with
      | None => Ok (s, a)
      | Some ev =>
          if now_ms <? rq_time ev then Ok (s, a) else
          match heap_pop (sv_events s) with
          | None => Panic SITE_UNWRAP
          | Some (ev', rest) =>
              let s1 := mkServer (sv_cfg s) (sv_objs s) (sv_clients s) (sv_active s) rest (sv_t0 s) (sv_seed s) in
              let '(s2, a2) := sv_handle_event s1 a ev' now_ms in
              sv_pop_events f s2 a2 now_ms
          end
      end
  end.

Fixpoint sv_active_timeouts (ids : list N) (s : server) (a : sv_acc) (now_ms : N) : server * sv_acc :=
  match ids with
  | [] => (s, a)
  | id :: rest =>
      match so_state (sv_obj_get s id) with
      | SvActive h t0 timeout _ =>
          if timeout <=? now_ms then
            let addr := so_addr (sv_obj_get s id) in
            let '(_, pkts) := hc_receive h in
            let a1 := acc_event (acc_events a addr pkts) (EvError addr 0) in
            sv_active_timeouts rest (sv_remove_addr (sv_set_obj s id SvFin) addr) a1 now_ms
          else sv_active_timeouts rest s a now_ms
      | _ => sv_active_timeouts rest s a now_ms
      end
  end.

Fixpoint sv_flush_active (ids : list N) (s : server) (a : sv_acc) : res (server * sv_acc) :=
  match ids with
  | [] => Ok (s, a)
  | id :: rest =>
      match so_state (sv_obj_get s id) with
      | SvActive h t0 timeout disc =>
          do r <- hc_flush h;
          let addr := so_addr (sv_obj_get s id) in
          let a1 := fold_left (fun acc fr => acc_send acc addr fr) (snd r) a in
          sv_flush_active rest (sv_set_obj s id (SvActive (fst r) t0 timeout disc)) a1
      | _ => sv_flush_active rest s a
      end
  end.

Fixpoint sv_step_active (ids : list N) (s : server) (a : sv_acc) (now_ms vnow : N) : res (server * sv_acc) :=
  match ids with
  | [] => Ok (s, a)
  | id :: rest =>
      match so_state (sv_obj_get s id) with
      | SvActive h t0 timeout disc =>
          let addr := so_addr (sv_obj_get s id) in
          let disconnect_now := match disc with Some true => true | Some false => negb (hc_is_send_pending h) | None => false end in
          if disconnect_now then
            let '(_, pkts) := hc_receive h in
            let a1 := acc_send (acc_events a addr pkts) addr write_disconnect in
            let s1 := sv_push_event (sv_set_obj s id SvClosing)
                                    (mkRq id 1 (now_ms + SERVER_DISCONNECT_RESEND_INTERVAL_MS) SERVER_DISCONNECT_RESEND_COUNT) in
            sv_step_active rest s1 a1 now_ms vnow
          else
            do h1 <- hc_step h (vnow - t0);
            let '(h2, pkts) := hc_receive h1 in
            sv_step_active rest (sv_set_obj s id (SvActive h2 t0 timeout disc)) (acc_events a addr pkts) now_ms vnow
      | _ => sv_step_active rest s a now_ms vnow
      end
  end.

(* Server::step at virtual time vnow with the datagrams the socket holds *)
Definition server_step (s : server) (vnow : N) (inbox : list (N * list N)) (nonces : list N)
  : res (server * list ep_event * list (N * list N) * list N) :=
  let now_ms := vnow - sv_t0 s in
  let a0 := mkAcc [] [] nonces in
  do r1 <- sv_flush_active (sv_active s) s a0;
  do r2 <- sv_handle_frames inbox (fst r1) (snd r1) now_ms vnow;
  do r3 <- sv_pop_events (S (S (length (sv_events (fst r2)) + length inbox) * 16)) (fst r2) (snd r2) now_ms;
  let '(s4, a4) := sv_active_timeouts (sv_active (fst r3)) (fst r3) (snd r3) now_ms in
  let s5 := mkServer (sv_cfg s4) (sv_objs s4) (sv_clients s4) (filter (sv_is_active s4) (sv_active s4)) (sv_events s4) (sv_t0 s4) (sv_seed s4) in
  do r6 <- sv_step_active (sv_active s5) s5 a4 now_ms vnow;
  Ok (fst r6, ac_events (snd r6), ac_sends (snd r6), ac_nonces (snd r6)).

Definition server_flush (s : server) : res (server * list (N * list N)) :=
  do r <- sv_flush_active (sv_active s) s (mkAcc [] [] []); Ok (fst r, ac_sends (snd r)).

(* Server::drop *)
Definition server_drop (s : server) (addr : N) : server :=
  match sv_lookup s addr with
  | Some id => sv_remove_addr (sv_set_obj s id SvFin) addr
  | None => s
  end.

(* RemoteClient::send / disconnect / disconnect_now through Server::client(addr) *)
Definition server_client_send (s : server) (addr : N) (data : list N) (chan : N) (mode : send_mode) : server :=
  match sv_lookup s addr with
  | Some id =>
      match so_state (sv_obj_get s id) with
      | SvActive h t0 timeout disc => sv_set_obj s id (SvActive (hc_send h data chan mode) t0 timeout disc)
      | _ => s
      end
  | None => s
  end.

Definition server_client_disconnect (s : server) (addr : N) (now : bool) : server :=
  match sv_lookup s addr with
  | Some id =>
      match so_state (sv_obj_get s id) with
      | SvActive h t0 timeout _ => sv_set_obj s id (SvActive h t0 timeout (Some now))
      | _ => s
      end
  | None => s
  end.

(* ====================================================================== client *)

Inductive cl_state :=
| ClPending (local_nonce : N) (request : list N) (resend_time resend_count : N) (initial_sends : list (list N * N * send_mode))
| ClActive (local_nonce remote_nonce : N) (h : hc) (t0 : N) (timeout_time : N) (disc : option bool)
| ClClosing (request : list N) (resend_time resend_count : N)
| ClClosed (timeout_time : N)
| ClFin.

Record client := mkClient { cl_ec : ep_config; cl_t0 : N; cl_seed : N; cl_state_ : cl_state }.

(* outputs: events use address 0 *)
Record cl_acc := mkClAcc { ca_events : list ep_event; ca_sends : list (list N) }.
Definition ca_event (a : cl_acc) (e : ep_event) : cl_acc := mkClAcc (ca_events a ++ [e]) (ca_sends a).
Definition ca_send (a : cl_acc) (b : list N) : cl_acc := mkClAcc (ca_events a) (ca_sends a ++ [b]).
Definition ca_receives (a : cl_acc) (pkts : list (list N)) : cl_acc := mkClAcc (ca_events a ++ map (EvReceive 0) pkts) (ca_sends a).

(* Client::connect: (client, SYN datagram) *)
Definition client_connect (ec : ep_config) (nonce t0 seed : N) : client * list N :=
  let request := write_handshake_syn PROTOCOL_VERSION nonce (u32_clamp (ec_max_receive_rate ec))
                                     (u32_clamp (ec_max_packet_size ec)) (u32_clamp (ec_max_receive_alloc ec)) in
  (mkClient ec t0 seed (ClPending nonce request CLIENT_HANDSHAKE_RESEND_INTERVAL_MS CLIENT_HANDSHAKE_RESEND_COUNT []), request).

Definition cl_set (c : client) (st : cl_state) : client := mkClient (cl_ec c) (cl_t0 c) (cl_seed c) st.

Definition client_send (c : client) (data : list N) (chan : N) (mode : send_mode) : client :=
  match cl_state_ c with
  | ClPending ln rq rt rc sends => cl_set c (ClPending ln rq rt rc (sends ++ [(data, chan, mode)]))
  | ClActive ln rn h t0 to disc => cl_set c (ClActive ln rn (hc_send h data chan mode) t0 to disc)
  | _ => c
  end.

Definition client_disconnect (c : client) (now : bool) : client :=
  match cl_state_ c with
  | ClPending _ _ _ _ _ => cl_set c ClFin
  | ClActive ln rn h t0 to _ => cl_set c (ClActive ln rn h t0 to (Some now))
  | _ => c
  end.

Definition sum_lens (l : list (list N * N * send_mode)) : N :=
  fold_right (fun e acc => len (fst (fst e)) + acc) 0 l.

Definition client_send_buffer_size (c : client) : N :=
  match cl_state_ c with
  | ClPending _ _ _ _ sends => sum_lens sends
  | ClActive _ _ h _ _ _ => hc_send_buffer_size h
  | _ => 0
  end.

Definition cl_handle_syn_ack (c : client) (a : cl_acc) (nonce_ack nonce mrr mra now_ms vnow : N) : client * cl_acc :=
  match cl_state_ c with
  | ClPending ln _ _ _ sends =>
      if nonce_ack =? ln then
        let a1 := ca_send a (write_handshake_ack nonce) in
        let h0 := hc_new (hc_config_of (cl_ec c) ln nonce mrr mra) (cl_seed c) in
        let h := fold_left (fun hh e => hc_send hh (fst (fst e)) (snd (fst e)) (snd e)) sends h0 in
        (cl_set c (ClActive ln nonce h vnow (now_ms + ec_active_timeout (cl_ec c)) None), ca_event a1 (EvConnect 0))
      else (c, a)
  | ClActive ln rn h t0 _ disc =>
      if (nonce_ack =? ln) && (nonce =? rn)
      then (cl_set c (ClActive ln rn h t0 (now_ms + ec_active_timeout (cl_ec c)) disc), ca_send a (write_handshake_ack nonce))
      else (c, a)
  | _ => (c, a)
  end.

Definition cl_handle_error (c : client) (a : cl_acc) (nonce_ack : N) (e : err_type) : client * cl_acc :=
  match cl_state_ c with
  | ClPending ln _ _ _ _ =>
      if nonce_ack =? ln then
        (cl_set c ClFin, ca_event a (EvError 0 (match e with ErrVersion => 1 | ErrConfig => 2 | ErrServerFull => 3 end)))
      else (c, a)
  | _ => (c, a)
  end.

Definition cl_handle_disconnect (c : client) (a : cl_acc) (now_ms : N) : client * cl_acc :=
  match cl_state_ c with
  | ClPending _ _ _ _ _ => (c, a)
  | ClActive _ _ h _ _ _ =>
      let a1 := ca_send a write_disconnect_ack in
      let '(_, pkts) := hc_receive h in
      (cl_set c (ClClosed (now_ms + CLIENT_CLOSED_TIMEOUT_MS)), ca_event (ca_receives a1 pkts) (EvDisconnect 0))
  | ClClosing _ _ _ =>
      (cl_set c (ClClosed (now_ms + CLIENT_CLOSED_TIMEOUT_MS)), ca_event (ca_send a write_disconnect_ack) (EvDisconnect 0))
  | ClClosed _ => (c, ca_send a write_disconnect_ack)
  | ClFin => (c, a)
  end.

Definition cl_handle_frame (c : client) (a : cl_acc) (f : frame) (now_ms vnow : N) : res (client * cl_acc) :=
  match f with
  | FSyn _ _ _ _ _ => Ok (c, a)
  | FHsAck _ => Ok (c, a)
  | FSynAck na n mrr _ mra => Ok (cl_handle_syn_ack c a na n mrr mra now_ms vnow)
  | FHsError na e => Ok (cl_handle_error c a na e)
  | FDisconnect => Ok (cl_handle_disconnect c a now_ms)
  | FDisconnectAck =>
      match cl_state_ c with
      | ClClosing _ _ _ => Ok (cl_set c ClFin, ca_event a (EvDisconnect 0))
      | _ => Ok (c, a)
      end
  | FData _ _ _ | FSync _ _ | FAcks _ _ _ =>
      match cl_state_ c with
      | ClActive ln rn h t0 _ disc =>
          do r <- hc_handle_frame h f;
          Ok (cl_set c (ClActive ln rn (fst r) t0 (now_ms + ec_active_timeout (cl_ec c)) disc), a)
      | _ => Ok (c, a)
      end
  end.

Fixpoint cl_handle_frames (inbox : list (list N)) (c : client) (a : cl_acc) (now_ms vnow : N) : res (client * cl_acc) :=
  match inbox with
  | [] => Ok (c, a)
  | bytes :: rest =>
      do r <- read_frame bytes;
      match r with
      | None => cl_handle_frames rest c a now_ms vnow
      | Some f => do ca <- cl_handle_frame c a f now_ms vnow; cl_handle_frames rest (fst ca) (snd ca) now_ms vnow
      end
  end.

Definition cl_handle_events (c : client) (a : cl_acc) (now_ms : N) : client * cl_acc :=
  match cl_state_ c with
  | ClPending ln rq rt rc sends =>
      if rt <=? now_ms then
        if 0 <? rc then (cl_set c (ClPending ln rq (now_ms + CLIENT_HANDSHAKE_RESEND_INTERVAL_MS) (rc - 1) sends), ca_send a rq)
        else (cl_set c ClFin, ca_event a (EvError 0 0))
      else (c, a)
  | ClActive _ _ _ _ to _ =>
      if to <=? now_ms then (cl_set c ClFin, ca_event a (EvError 0 0)) else (c, a)
  | ClClosing rq rt rc =>
      if rt <=? now_ms then
        if 0 <? rc then (cl_set c (ClClosing rq (now_ms + CLIENT_DISCONNECT_RESEND_INTERVAL_MS) (rc - 1)), ca_send a rq)
        else (cl_set c ClFin, ca_event a (EvError 0 0))
      else (c, a)
  | ClClosed to => if to <=? now_ms then (cl_set c ClFin, a) else (c, a)
  | ClFin => (c, a)
  end.

Definition cl_flush_if_active (c : client) (a : cl_acc) : res (client * cl_acc) :=
  match cl_state_ c with
  | ClActive ln rn h t0 to disc =>
      do r <- hc_flush h;
      Ok (cl_set c (ClActive ln rn (fst r) t0 to disc), fold_left ca_send (snd r) a)
  | _ => Ok (c, a)
  end.

Definition cl_step_if_active (c : client) (a : cl_acc) (now_ms vnow : N) : res (client * cl_acc) :=
  match cl_state_ c with
  | ClActive ln rn h t0 to disc =>
      let disconnect_now := match disc with Some true => true | Some false => negb (hc_is_send_pending h) | None => false end in
      if disconnect_now then
        let '(_, pkts) := hc_receive h in
        Ok (cl_set c (ClClosing write_disconnect (now_ms + CLIENT_DISCONNECT_RESEND_INTERVAL_MS) CLIENT_DISCONNECT_RESEND_COUNT),
            ca_send (ca_receives a pkts) write_disconnect)
      else
        do h1 <- hc_step h (vnow - t0);
        let '(h2, pkts) := hc_receive h1 in
        Ok (cl_set c (ClActive ln rn h2 t0 to disc), ca_receives a pkts)
  | _ => Ok (c, a)
  end.

(* Client::step *)
Definition client_step (c : client) (vnow : N) (inbox : list (list N)) : res (client * list ep_event * list (list N)) :=
  let now_ms := vnow - cl_t0 c in
  do r1 <- cl_flush_if_active c (mkClAcc [] []);
  do r2 <- cl_handle_frames inbox (fst r1) (snd r1) now_ms vnow;
  let '(c3, a3) := cl_handle_events (fst r2) (snd r2) now_ms in
  do r4 <- cl_step_if_active c3 a3 now_ms vnow;
  Ok (fst r4, ca_events (snd r4), ca_sends (snd r4)).

Definition client_flush (c : client) : res (client * list (list N)) :=
  do r <- cl_flush_if_active c (mkClAcc [] []); Ok (fst r, ca_sends (snd r)).
