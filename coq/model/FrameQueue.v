(* FrameQueue.v — src/half_connection/frame_queue.rs (FrameLog, FeedbackGen, FrameQueue) *)
From UF Require Import Consts Base Frame F64 Feedback Sender.
Open Scope N_scope.

Record frag_ref := mkFragRef { fr_uid : N; fr_frag : N }.

Record log_entry := mkLogEntry {
  le_size : N; le_time : N; le_refs : list frag_ref; le_nonce : bool; le_rate_limited : bool; le_acked : bool }.

Record ack_data := mkAckData { ad_last_send : N; ad_total : N; ad_rate_limited : bool }.

Record feedback_data := mkFeedback { fd_rtt_ms : N; fd_recv_rate : N; fd_loss_rate : float; fd_rate_limited : bool }.

Record frame_queue := mkFq {
  fq_next : N; fq_lbase : N; fq_frames : list log_entry;     (* FrameLog *)
  fq_last_feedback : option N; fq_ack_data : option ack_data; (* FeedbackGen *)
  fq_rb : reorder; fq_li : list loss_interval;
  fq_wbase : N; fq_wsize : N; fq_wtail : N;                   (* TransferWindow *)
  fq_rate_limited : bool
}.

Definition fq_new (size tail_size base_id : N) : frame_queue :=
  mkFq base_id base_id [] None None (rb_new base_id (add32 size tail_size)) [] base_id size tail_size false.

Definition fq_get_frame (q : frame_queue) (frame_id : N) : option log_entry :=
  nth_opt (fq_frames q) (sub32 frame_id (fq_lbase q)).

Definition fq_can_push (q : frame_queue) : bool := sub32 (fq_next q) (fq_wbase q) <? fq_wsize q.
Definition fq_can_push_count (q : frame_queue) (count : N) : bool :=
  sub32 (fq_next q) (fq_wbase q) + count <=? fq_wsize q.

Definition fq_set_rate_limited (q : frame_queue) (b : bool) : frame_queue :=
  mkFq (fq_next q) (fq_lbase q) (fq_frames q) (fq_last_feedback q) (fq_ack_data q) (fq_rb q) (fq_li q)
       (fq_wbase q) (fq_wsize q) (fq_wtail q) b.

Definition fq_push (q : frame_queue) (size now_ms : N) (refs : list frag_ref) (nonce : bool) : frame_queue :=
  if fq_can_push q then
    mkFq (add32 (fq_next q) 1) (fq_lbase q)
         (fq_frames q ++ [mkLogEntry size now_ms refs nonce (fq_rate_limited q) false])
         (fq_last_feedback q) (fq_ack_data q) (fq_rb q) (fq_li q) (fq_wbase q) (fq_wsize q) (fq_wtail q) false
  else q.

(* applies the reorder buffer's callbacks to the loss intervals; frame_log.get_frame(..).unwrap() *)
Fixpoint apply_rb_events (q : frame_queue) (ev : rb_events) (rtt_ms : option N) (li : list loss_interval)
  : res (list loss_interval) :=
  match ev with
  | [] => Ok li
  | (id, seen) :: ev' =>
      match fq_get_frame q id with
      | None => Panic SITE_UNWRAP
      | Some f =>
          let li' := if seen then li_push_ack li
                     else li_push_nack li (le_time f) (opt_default FEEDBACK_INITIAL_RTT_MS rtt_ms) in
          apply_rb_events q ev' rtt_ms li'
      end
  end.

Definition fq_set_feedback (q : frame_queue) (rb : reorder) (li : list loss_interval) : frame_queue :=
  mkFq (fq_next q) (fq_lbase q) (fq_frames q) (fq_last_feedback q) (fq_ack_data q) rb li
       (fq_wbase q) (fq_wsize q) (fq_wtail q) (fq_rate_limited q).

Definition fq_notify_ack (q : frame_queue) (frame_id : N) (rtt_ms : option N) : res frame_queue :=
  if rb_can_put (fq_rb q) frame_id then
    let '(rb', ev) := rb_put (fq_rb q) frame_id in
    do li' <- apply_rb_events q ev rtt_ms (fq_li q);
    Ok (fq_set_feedback q rb' li')
  else Ok q.

Definition fq_notify_advancement (q : frame_queue) (new_base : N) (rtt_ms : option N) : res frame_queue :=
  if rb_can_advance (fq_rb q) new_base then
    let '(rb', ev) := rb_advance (fq_rb q) new_base in
    do li' <- apply_rb_events q ev rtt_ms (fq_li q);
    Ok (fq_set_feedback q rb' li')
  else Ok q.

(* cull_log_entries: notify_advancement, then FrameLog::drain (VecDeque::drain(..idx) panics if idx > len) *)
Definition fq_cull (q : frame_queue) (new_log_base : N) (rtt_ms : option N) : res frame_queue :=
  do q1 <- fq_notify_advancement q new_log_base rtt_ms;
  let idx := sub32 new_log_base (fq_lbase q1) in
  if len (fq_frames q1) <? idx then Panic SITE_INDEX else
  Ok (mkFq (fq_next q1) new_log_base (skipn (N.to_nat idx) (fq_frames q1)) (fq_last_feedback q1) (fq_ack_data q1)
           (fq_rb q1) (fq_li q1) (fq_wbase q1) (fq_wsize q1) (fq_wtail q1) (fq_rate_limited q1)).

Fixpoint expiry_count (frames : list log_entry) (thresh : N) : N :=
  match frames with
  | f :: t => if le_time f <? thresh then 1 + expiry_count t thresh else 0
  | [] => 0
  end.

Definition fq_forget_frames (q : frame_queue) (thresh_ms : N) (rtt_ms : option N) : res frame_queue :=
  let delta := wrap32 (expiry_count (fq_frames q) thresh_ms) in
  if delta =? 0 then Ok q else fq_cull q (add32 (fq_lbase q) delta) rtt_ms.

Definition ms_to_s (v : N) : float := PrimFloat.div (f_of_N v) 1000.

Definition fq_get_feedback (q : frame_queue) (now_ms : N) : frame_queue * option feedback_data :=
  match fq_ack_data q with
  | None => (q, None)
  | Some ad =>
      let rtt_ms := now_ms - ad_last_send ad in
      let recv_rate := match fq_last_feedback q with
                       | Some lf => f_to_u32 (fclamp (PrimFloat.div (f_of_N (ad_total ad)) (ms_to_s (now_ms - lf))) f0 4294967295)
                       | None => 0 end in
      let loss := li_loss_rate (fq_li q) in
      (mkFq (fq_next q) (fq_lbase q) (fq_frames q) (Some now_ms) None (fq_rb q) (fq_li q)
            (fq_wbase q) (fq_wsize q) (fq_wtail q) (fq_rate_limited q),
       Some (mkFeedback rtt_ms recv_rate loss (ad_rate_limited ad)))
  end.

Definition fq_reset_loss_rate (q : frame_queue) (p : float) : res frame_queue :=
  do li' <- li_reset (fq_li q) p; Ok (fq_set_feedback q (fq_rb q) li').

Definition fq_put_ack_data (q : frame_queue) (ad : ack_data) : frame_queue :=
  let ad' := match fq_ack_data q with
             | Some o => mkAckData (N.max (ad_last_send o) (ad_last_send ad)) (ad_total o + ad_total ad)
                                   (ad_rate_limited o || ad_rate_limited ad)
             | None => ad end in
  mkFq (fq_next q) (fq_lbase q) (fq_frames q) (fq_last_feedback q) (Some ad') (fq_rb q) (fq_li q)
       (fq_wbase q) (fq_wsize q) (fq_wtail q) (fq_rate_limited q).

(* bitfield_size: index of the highest set bit + 1 *)
Definition bitfield_size (bits : N) : N := if bits =? 0 then 0 else N.log2 bits + 1.

(* first pass of acknowledge_group: all ids present? xor of the nonces of the claimed ones *)
Fixpoint ack_check (q : frame_queue) (base bits : N) (i : N) (n : nat) (acc : bool) : option bool :=
  match n with
  | O => Some acc
  | S n' =>
      match fq_get_frame q (add32 base i) with
      | None => None
      | Some f => ack_check q base bits (i + 1) n' (if N.testbit bits i then xorb acc (le_nonce f) else acc)
      end
  end.

Definition fq_set_frames (q : frame_queue) (frames : list log_entry) : frame_queue :=
  mkFq (fq_next q) (fq_lbase q) frames (fq_last_feedback q) (fq_ack_data q) (fq_rb q) (fq_li q)
       (fq_wbase q) (fq_wsize q) (fq_wtail q) (fq_rate_limited q).

Fixpoint ack_fragments (s : sender) (refs : list frag_ref) : sender :=
  match refs with
  | [] => s
  | r :: t => ack_fragments (sender_ack_fragment s (fr_uid r) (fr_frag r)) t
  end.

Record ack_acc := mkAckAcc { aa_last : N; aa_total : N; aa_rl : bool; aa_new : bool }.

(* second pass *)
Fixpoint ack_apply (q : frame_queue) (s : sender) (base bits : N) (i : N) (n : nat) (rtt_ms : option N) (a : ack_acc)
  : res (frame_queue * sender * ack_acc) :=
  match n with
  | O => Ok (q, s, a)
  | S n' =>
      let id := add32 base i in
      match fq_get_frame q id with
      | None => Panic SITE_UNWRAP
      | Some f =>
          let a1 := mkAckAcc (aa_last a) (aa_total a) (aa_rl a || le_rate_limited f) (aa_new a) in
          if N.testbit bits i && negb (le_acked f) then
            let f' := mkLogEntry (le_size f) (le_time f) [] (le_nonce f) (le_rate_limited f) true in
            let q1 := fq_set_frames q (upd (fq_frames q) (N.to_nat (sub32 id (fq_lbase q))) f') in
            let s1 := ack_fragments s (le_refs f) in
            let a2 := mkAckAcc (N.max (aa_last a1) (le_time f)) (aa_total a1 + le_size f) (aa_rl a1) true in
            do q2 <- fq_notify_ack q1 id rtt_ms;
            ack_apply q2 s1 base bits (i + 1) n' rtt_ms a2
          else ack_apply q s base bits (i + 1) n' rtt_ms a1
      end
  end.

Definition fq_acknowledge_group (q : frame_queue) (s : sender) (ack : ack_group) (rtt_ms : option N)
  : res (frame_queue * sender) :=
  let n := bitfield_size (ag_bits ack) in
  if n =? 0 then Ok (q, s) else
  match ack_check q (ag_base ack) (ag_bits ack) 0 (N.to_nat n) false with
  | None => Ok (q, s)
  | Some true_nonce =>
      if negb (Bool.eqb (ag_nonce ack) true_nonce) then Ok (q, s) else
      do r <- ack_apply q s (ag_base ack) (ag_bits ack) 0 (N.to_nat n) rtt_ms (mkAckAcc 0 0 false false);
      let '(q1, s1, a) := r in
      if aa_new a then Ok (fq_put_ack_data q1 (mkAckData (aa_last a) (aa_total a) (aa_rl a)), s1)
      else Ok (q1, s1)
  end.

Definition fq_can_advance_transfer_window (q : frame_queue) (new_base : N) : bool :=
  let next_delta := sub32 (fq_next q) (fq_wbase q) in
  let delta := sub32 new_base (fq_wbase q) in
  negb (delta =? 0) && (delta <=? next_delta).

Definition fq_advance_transfer_window (q : frame_queue) (new_base : N) (rtt_ms : option N) : res frame_queue :=
  if fq_can_advance_transfer_window q new_base then
    let q1 := mkFq (fq_next q) (fq_lbase q) (fq_frames q) (fq_last_feedback q) (fq_ack_data q) (fq_rb q) (fq_li q)
                   new_base (fq_wsize q) (fq_wtail q) (fq_rate_limited q) in
    let max_base := sub32 new_base (fq_wtail q1) in
    let delta := sub32 max_base (fq_lbase q1) in
    if negb (delta =? 0) && (delta <=? len (fq_frames q1)) then fq_cull q1 max_base rtt_ms else Ok q1
  else Ok q.
