(* Feedback.v — src/half_connection/{reorder_buffer.rs, loss_rate.rs} *)
From UF Require Import Consts Base F64.
Open Scope N_scope.

(* ---------- ReorderBuffer ---------- *)
Record reorder := mkRb { rb_f0 : N; rb_f1 : N; rb_count : N; rb_base : N; rb_span : N }.

Definition rb_new (base_id max_span : N) : reorder := mkRb 0 0 0 base_id max_span.

Definition rb_can_put (b : reorder) (id : N) : bool := sub32 id (rb_base b) <? rb_span b.

Definition inc32 (x : N) : N := add32 x 1.

(* callback events: (frame id, was_seen) in call order *)
Definition rb_events := list (N * bool).

(* while base != target { callback(base,false); base += 1 } — at most 2^32 steps, run with fuel *)
Fixpoint rb_nack_until (fuel : nat) (base target : N) (ev : rb_events) : N * rb_events :=
  match fuel with
  | O => (base, ev)
  | S f => if base =? target then (base, ev) else rb_nack_until f (inc32 base) target (ev ++ [(base, false)])
  end.

Definition rb_put (b : reorder) (id : N) : reorder * rb_events :=
  let base := rb_base b in
  if rb_count b =? 0 then
    if id =? base then (mkRb (rb_f0 b) (rb_f1 b) 0 (inc32 base) (rb_span b), [(id, true)])
    else (mkRb id (rb_f1 b) 1 base (rb_span b), [])
  else if rb_count b =? 1 then
    if id =? base then
      let base1 := inc32 base in
      if rb_f0 b =? base1 then (mkRb (rb_f0 b) (rb_f1 b) 0 (inc32 base1) (rb_span b), [(id, true); (rb_f0 b, true)])
      else (mkRb (rb_f0 b) (rb_f1 b) 1 base1 (rb_span b), [(id, true)])
    else
      let dn := sub32 id base in
      let d0 := sub32 (rb_f0 b) base in
      if dn <? d0 then (mkRb id (rb_f0 b) 2 base (rb_span b), [])
      else (mkRb (rb_f0 b) id 2 base (rb_span b), [])
  else if rb_count b =? 2 then
    let d1 := sub32 (rb_f1 b) base in
    let '(f1, minf, dmin) := if d1 <? sub32 id base then (id, rb_f1 b, d1) else (rb_f1 b, id, sub32 id base) in
    let d0 := sub32 (rb_f0 b) base in
    let '(f0, minf) := if d0 <? dmin then (minf, rb_f0 b) else (rb_f0 b, minf) in
    let '(base1, ev) := rb_nack_until (N.to_nat (sub32 minf base)) base minf [] in
    let ev := ev ++ [(minf, true)] in
    let base2 := inc32 base1 in
    if f0 =? base2 then
      let ev := ev ++ [(f0, true)] in
      let base3 := inc32 base2 in
      if f1 =? base3 then (mkRb f0 f1 0 (inc32 base3) (rb_span b), ev ++ [(f1, true)])
      else (mkRb f1 f1 1 base3 (rb_span b), ev)
    else (mkRb f0 f1 2 base2 (rb_span b), ev)
  else (b, []).

Definition rb_can_advance (b : reorder) (new_base : N) : bool :=
  let d := sub32 new_base (rb_base b) in (1 <=? d) && (d <=? rb_span b).

(* first while loop of advance: flush stored frames that precede new_base *)
Fixpoint rb_adv_loop (fuel : nat) (b : reorder) (new_base : N) (ev : rb_events) : reorder * rb_events :=
  match fuel with
  | O => (b, ev)
  | S f =>
      if (0 <? rb_count b) && (sub32 (rb_f0 b) (rb_base b) <? sub32 new_base (rb_base b)) then
        let '(base1, ev1) := rb_nack_until (N.to_nat (sub32 (rb_f0 b) (rb_base b))) (rb_base b) (rb_f0 b) ev in
        let ev2 := ev1 ++ [(rb_f0 b, true)] in
        let f0 := if rb_count b =? 2 then rb_f1 b else rb_f0 b in
        rb_adv_loop f (mkRb f0 (rb_f1 b) (rb_count b - 1) (inc32 base1) (rb_span b)) new_base ev2
      else (b, ev)
  end.

Definition rb_advance (b : reorder) (new_base : N) : reorder * rb_events :=
  let '(b1, ev1) := rb_adv_loop 3 b new_base [] in
  let '(base2, ev2) := rb_nack_until (N.to_nat (sub32 new_base (rb_base b1))) (rb_base b1) new_base ev1 in
  let b2 := mkRb (rb_f0 b1) (rb_f1 b1) (rb_count b1) base2 (rb_span b1) in
  if rb_count b2 =? 1 then
    if rb_f0 b2 =? base2 then (mkRb (rb_f0 b2) (rb_f1 b2) 0 (inc32 base2) (rb_span b2), ev2 ++ [(rb_f0 b2, true)])
    else (b2, ev2)
  else if rb_count b2 =? 2 then
    if rb_f0 b2 =? base2 then
      let ev3 := ev2 ++ [(rb_f0 b2, true)] in
      let base3 := inc32 base2 in
      if rb_f1 b2 =? base3 then (mkRb (rb_f0 b2) (rb_f1 b2) 0 (inc32 base3) (rb_span b2), ev3 ++ [(rb_f1 b2, true)])
      else (mkRb (rb_f1 b2) (rb_f1 b2) 1 base3 (rb_span b2), ev3)
    else (b2, ev2)
  else (b2, ev2).

(* ---------- LossIntervalQueue ---------- *)
Record loss_interval := mkLi { li_end : N; li_len : N }.

Definition sat_inc32 (x : N) : N := if x <? 4294967295 then x + 1 else 4294967295.

Definition li_push_ack (q : list loss_interval) : list loss_interval :=
  match q with
  | i :: t => mkLi (li_end i) (sat_inc32 (li_len i)) :: t
  | [] => []
  end.

Definition li_push_nack (q : list loss_interval) (send_time rtt_ms : N) : list loss_interval :=
  match q with
  | i :: t =>
      if li_end i <=? send_time then firstn 9 (mkLi (send_time + rtt_ms) 1 :: q)
      else mkLi (li_end i) (sat_inc32 (li_len i)) :: t
  | [] => [mkLi (send_time + rtt_ms) 1]
  end.

Definition weight (i : nat) : float := nth i LOSS_WEIGHTS f0.

(* reset(initial_p): entries.truncate(1); entries[0].length = ...; panics when empty *)
Definition li_reset (q : list loss_interval) (p : float) : res (list loss_interval) :=
  match q with
  | i :: _ =>
      let v := fclamp (PrimFloat.div (weight 0) p) f0 4294967295%float in
      Ok [mkLi (li_end i) (f_round_to_unsigned v 4294967295)]
  | [] => Panic SITE_INDEX
  end.

Fixpoint li_sum0 (q : list loss_interval) (i : nat) (n : nat) (acc w : float) : float * float :=
  match n, q with
  | S n', e :: t => li_sum0 t (S i) n' (PrimFloat.add acc (PrimFloat.mul (f_of_N (li_len e)) (weight i)))
                                      (PrimFloat.add w (weight i))
  | _, _ => (acc, w)
  end.

Fixpoint li_sum1 (q : list loss_interval) (i : nat) (acc : float) : float :=
  match q with
  | e :: t => li_sum1 t (S i) (PrimFloat.add acc (PrimFloat.mul (f_of_N (li_len e)) (weight i)))
  | [] => acc
  end.

Definition li_loss_rate (q : list loss_interval) : float :=
  match q with
  | [] => f0
  | [e] => PrimFloat.div (weight 0) (PrimFloat.mul (f_of_N (li_len e)) (weight 0))
  | _ :: t =>
      let '(i0, w) := li_sum0 q 0 (length q - 1) f0 f0 in
      let i1 := li_sum1 t 0 f0 in
      PrimFloat.div w (fmax i0 i1)
  end.
