(* Crc.v — src/frame/serial/crc.rs: table-driven extend/compute (table from gen/Consts.v). *)
From UF Require Import Consts Base.

(* PARTIAL_RESULTS[(crc as u8 ^ byte) as usize] *)
Definition crc_table_get (i : N) : N := nth (N.to_nat i) CRC_TABLE 0.

Definition crc_step (crc byte : N) : N :=
  N.lxor (crc / 256) (crc_table_get (N.lxor (crc mod 256) byte)).

Definition crc_extend (initial : N) (data : list N) : N := fold_left crc_step data initial.

Definition crc_compute (data : list N) : N := crc_extend CRC_INITIAL data.
