(* F64.v — the binary64 operations the code uses, over Coq's primitive floats (IEEE 754 binary64,
   round-to-nearest-even, same as Rust's f64): casts between integers and floats, round, max/min. *)
From Coq Require Export Floats.
From Coq Require Import Uint63.
From UF Require Import Base.

Open Scope float_scope.

Definition f0 : float := 0.
Definition f1 : float := 1.

(* u64/u32/usize as f64 (exact below 2^53, round-to-nearest-even above; values here are < 2^63) *)
Definition f_of_N (n : N) : float :=
  if (n <? 9223372036854775808)%N then PrimFloat.of_uint63 (Uint63.of_Z (Z.of_N n))
  else (* split to stay within 63 bits: n = hi * 2^32 + lo *)
    PrimFloat.add (PrimFloat.mul (PrimFloat.of_uint63 (Uint63.of_Z (Z.of_N (n / pow32)))) 4294967296)
                  (PrimFloat.of_uint63 (Uint63.of_Z (Z.of_N (n mod pow32)))).

Definition is_nan (x : float) : bool := negb (PrimFloat.eqb x x).

(* f64::max / f64::min: a NaN operand is ignored *)
Definition fmax (a b : float) : float :=
  if is_nan a then b else if is_nan b then a else if PrimFloat.ltb a b then b else a.
Definition fmin (a b : float) : float :=
  if is_nan a then b else if is_nan b then a else if PrimFloat.ltb b a then b else a.

(* f64::clamp(lo, hi) for lo <= hi: NaN stays NaN *)
Definition fclamp (x lo hi : float) : float :=
  if is_nan x then x else if PrimFloat.ltb x lo then lo else if PrimFloat.ltb hi x then hi else x.

(* Decompose a finite float: value = (-1)^s * m * 2^e, m a 53-bit (or smaller) integer *)
Definition decomp (x : float) : option (bool * positive * Z) :=
  match Prim2SF x with
  | S754_finite s m e => Some (s, m, e)
  | _ => None
  end.

(* truncation toward zero of |x| *)
Definition trunc_mag (m : positive) (e : Z) : N :=
  if (0 <=? e)%Z then (Npos m * 2 ^ (Z.to_N e))%N
  else (Npos m / 2 ^ (Z.to_N (- e)))%N.

(* |x| rounded half away from zero *)
Definition round_mag (m : positive) (e : Z) : N :=
  if (0 <=? e)%Z then (Npos m * 2 ^ (Z.to_N e))%N
  else
    let k := Z.to_N (- e) in
    let q := (Npos m / 2 ^ k)%N in
    if N.testbit (Npos m) (k - 1) then (q + 1)%N else q.

(* `x as uN` (saturating cast, NaN -> 0) with max = 2^N - 1 *)
Definition f_to_unsigned (x : float) (maxv : N) : N :=
  match Prim2SF x with
  | S754_zero _ => 0%N
  | S754_nan => 0%N
  | S754_infinity s => if s then 0%N else maxv
  | S754_finite s m e => if s then 0%N else N.min (trunc_mag m e) maxv
  end.

Definition f_to_u32 (x : float) : N := f_to_unsigned x 4294967295.
Definition f_to_u64 (x : float) : N := f_to_unsigned x 18446744073709551615.

(* `x.round() as u64` / `as u32` for x >= 0 or NaN: round half away from zero then saturate *)
Definition f_round_to_unsigned (x : float) (maxv : N) : N :=
  match Prim2SF x with
  | S754_zero _ => 0%N
  | S754_nan => 0%N
  | S754_infinity s => if s then 0%N else maxv
  | S754_finite s m e => if s then 0%N else N.min (round_mag m e) maxv
  end.

(* `x.round() as isize` (saturating, NaN -> 0) *)
Definition f_round_to_isize (x : float) : Z :=
  match Prim2SF x with
  | S754_zero _ => 0%Z
  | S754_nan => 0%Z
  | S754_infinity s => if s then (-9223372036854775808)%Z else 9223372036854775807%Z
  | S754_finite s m e =>
      let v := Z.of_N (round_mag m e) in
      if s then Z.max (- v) (-9223372036854775808) else Z.min v 9223372036854775807
  end.

(* |x| rounded up to a whole number *)
Definition ceil_mag (m : positive) (e : Z) : N :=
  if (0 <=? e)%Z then (Npos m * 2 ^ (Z.to_N e))%N
  else
    let k := Z.to_N (- e) in
    let q := (Npos m / 2 ^ k)%N in
    if (Npos m mod 2 ^ k =? 0)%N then q else (q + 1)%N.

(* `x.floor() as isize` (saturating, NaN -> 0) *)
Definition f_floor_to_isize (x : float) : Z :=
  match Prim2SF x with
  | S754_zero _ => 0%Z
  | S754_nan => 0%Z
  | S754_infinity s => if s then (-9223372036854775808)%Z else 9223372036854775807%Z
  | S754_finite s m e =>
      if s then Z.max (- Z.of_N (ceil_mag m e)) (-9223372036854775808)
      else Z.min (Z.of_N (trunc_mag m e)) 9223372036854775807
  end.

(* bit pattern (f64::to_bits), for printing/comparison *)
Definition f_bits (x : float) : N :=
  match Prim2SF x with
  | S754_zero s => if s then 9223372036854775808%N else 0%N
  | S754_infinity s => ((if s then 9223372036854775808 else 0) + 9218868437227405312)%N
  | S754_nan => 9221120237041090560%N
  | S754_finite s m e =>
      (* normal: m has 53 bits, biased exponent = e + 1075; subnormal: exponent field 0 *)
      let sign := (if s then 9223372036854775808 else 0)%N in
      if (Npos m <? 4503599627370496)%N then (sign + Npos m)%N
      else (sign + Z.to_N (e + 1075) * 4503599627370496 + (Npos m - 4503599627370496))%N
  end.
