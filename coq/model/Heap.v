(* Heap.v — std::collections::BinaryHeap as used by resend_queue.rs (alloc 1.9x: push = sift_up,
   pop = swap_remove(0) + sift_down_to_bottom + sift_up), over a list used as an array.
   Entries are ordered by resend time reversed: `a <= b` in Rust's Ord iff time a >= time b. *)
From UF Require Import Base.

Record rq_entry := mkRq { rq_uid : N; rq_frag : N; rq_time : N; rq_count : N }.

Definition rq_le (a b : rq_entry) : bool := rq_time b <=? rq_time a.   (* a <= b in the heap's Ord *)

Definition hget (h : list rq_entry) (i : nat) : rq_entry := nth i h (mkRq 0 0 0 0).

(* sift_up(start = 0, pos): the hole holds `elt` *)
Fixpoint sift_up (fuel : nat) (h : list rq_entry) (pos : nat) (elt : rq_entry) : list rq_entry :=
  match fuel with
  | O => upd h pos elt
  | S f =>
      match pos with
      | O => upd h pos elt
      | S _ =>
          let parent := Nat.div (pos - 1) 2 in
          if rq_le elt (hget h parent) then upd h pos elt
          else sift_up f (upd h pos (hget h parent)) parent elt
      end
  end.

Definition heap_push (h : list rq_entry) (e : rq_entry) : list rq_entry :=
  let n := length h in
  sift_up (S n) (h ++ [e]) n e.

(* sift_down_to_bottom(0) with the hole holding `elt`; `end_` = length *)
Fixpoint sift_down (fuel : nat) (h : list rq_entry) (pos end_ : nat) (elt : rq_entry) : list rq_entry :=
  match fuel with
  | O => sift_up (S end_) h pos elt
  | S f =>
      let child := (2 * pos + 1)%nat in
      if Nat.leb child (end_ - 2) && Nat.leb 2 end_ then
        let c := if rq_le (hget h child) (hget h (child + 1)) then (child + 1)%nat else child in
        sift_down f (upd h pos (hget h c)) c end_ elt
      else if Nat.eqb child (end_ - 1) && Nat.leb 1 end_ then
        sift_up (S end_) (upd h pos (hget h child)) child elt
      else sift_up (S end_) h pos elt
  end.

Definition heap_pop (h : list rq_entry) : option (rq_entry * list rq_entry) :=
  match rev h with
  | [] => None
  | last_item :: rest_rev =>
      let h' := rev rest_rev in
      match h' with
      | [] => Some (last_item, [])
      | root :: _ => Some (root, sift_down (S (length h')) h' 0 (length h') last_item)
      end
  end.

Definition heap_peek (h : list rq_entry) : option rq_entry := hd_error h.
