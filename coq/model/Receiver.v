(* Receiver.v — src/half_connection/packet_receiver/{mod.rs, assembly_window/mod.rs,
   assembly_window/fragment_buffer.rs}. The per-slot arrays (channel_entries, window_entries,
   data_entries, entry_flags, data_flags, channel_base_markers, assembly window) are merged into
   one list of slot records indexed by sequence_id & mask. *)
From UF Require Import Consts Base Frame.

(* ---------- FragmentBuffer ---------- *)
Record frag_buffer := mkFb {
  fb_n : N;
  fb_frags : list (option (list N));   (* fragment i, once written *)
  fb_remaining : N;
  fb_total : N
}.

Definition fb_new (n : N) : frag_buffer := mkFb n (repeatN None (N.to_nat n)) n 0.

Definition fb_write (b : frag_buffer) (idx : N) (data : list N) : frag_buffer :=
  match nth_opt (fb_frags b) idx with
  | Some None => mkFb (fb_n b) (upd (fb_frags b) (N.to_nat idx) (Some data)) (fb_remaining b - 1) (fb_total b + len data)
  | _ => b    (* bit already set: the first copy wins *)
  end.

Definition fb_finished (b : frag_buffer) : bool := fb_remaining b =? 0.

Definition pad_frag (o : option (list N)) : list N :=
  let d := opt_default [] o in d ++ repeatN 0 (N.to_nat MAX_FRAGMENT_SIZE - length d).

(* the first total_size bytes of the n * MAX_FRAGMENT_SIZE buffer *)
Definition fb_finalize (b : frag_buffer) : list N :=
  firstn (N.to_nat (fb_total b)) (concat (map pad_frag (fb_frags b))).

(* ---------- AssemblyWindow ---------- *)
Inductive asm_entry :=
| AsmOpen
| AsmClosed (alloc : N)
| AsmActive (alloc chan wpl cpl last : N) (buf : frag_buffer).

Record asm_packet := mkAsmPacket { ap_chan : N; ap_seq : N; ap_wpl : N; ap_cpl : N; ap_data : option (list N) }.

Definition packet_alloc_size (dg : datagram) : N :=
  let n := dg_frag_last dg + 1 in
  if 1 <? n then n * MAX_FRAGMENT_SIZE else len (dg_data dg).

(* try_add on one window entry: (entry', alloc', produced packet) *)
Definition asm_try_add (e : asm_entry) (alloc max_alloc : N) (dg : datagram) : asm_entry * N * option asm_packet :=
  let pkt d := mkAsmPacket (dg_chan dg) (dg_seq dg) (dg_wpl dg) (dg_cpl dg) d in
  match e with
  | AsmOpen =>
      let a := packet_alloc_size dg in
      if max_alloc <? alloc + a then (AsmClosed 0, alloc, Some (pkt None))
      else if dg_frag_last dg =? 0 then (AsmClosed a, alloc + a, Some (pkt (Some (dg_data dg))))
      else
        let buf := fb_write (fb_new (dg_frag_last dg + 1)) (dg_frag dg) (dg_data dg) in
        (AsmActive a (dg_chan dg) (dg_wpl dg) (dg_cpl dg) (dg_frag_last dg) buf, alloc + a, None)
  | AsmClosed _ => (e, alloc, None)
  | AsmActive a chan wpl cpl last buf =>
      if negb (dg_chan dg =? chan) || negb (dg_wpl dg =? wpl) || negb (dg_cpl dg =? cpl)
         || negb (dg_frag_last dg =? last) then (e, alloc, None)
      else
        let buf' := fb_write buf (dg_frag dg) (dg_data dg) in
        if fb_finished buf' then (AsmClosed a, alloc, Some (pkt (Some (fb_finalize buf'))))
        else (AsmActive a chan wpl cpl last buf', alloc, None)
  end.

Definition asm_entry_alloc (e : asm_entry) : N :=
  match e with AsmOpen => 0 | AsmClosed a => a | AsmActive a _ _ _ _ _ => a end.

(* ---------- PacketReceiver ---------- *)
Definition datagram_is_valid (dg : datagram) : bool :=
  if CHANNEL_COUNT <=? dg_chan dg then false
  else if negb (dg_cpl dg =? 0) && ((dg_wpl dg =? 0) || (dg_cpl dg <? dg_wpl dg)) then false
  else if dg_frag_last dg <? dg_frag dg then false
  else if (dg_frag dg <? dg_frag_last dg) && negb (len (dg_data dg) =? MAX_FRAGMENT_SIZE) then false
  else if MAX_FRAGMENT_SIZE <? len (dg_data dg) then false
  else true.

Record slot := mkSlot {
  sl_asm : asm_entry;
  sl_entry : bool;            (* entry_flags bit *)
  sl_dflag : bool;            (* data_flags bit *)
  sl_chan : N; sl_cpl : N;    (* channel_entries *)
  sl_wpl : N;                 (* window_entries *)
  sl_data : option (list N);  (* data_entries *)
  sl_marker : option N        (* channel_base_markers *)
}.

Definition slot_init : slot := mkSlot AsmOpen false false 0 0 0 None None.

Record rchannel := mkRChan { rc_base : option N; rc_count : N }.

Record receiver := mkReceiver {
  r_base : N; r_end : N;
  r_alloc : N; r_max_alloc : N;
  r_wsize : N;
  r_slots : list slot;
  r_chans : list rchannel;
  r_crf : N;                  (* channel_ready_flags: u64 *)
  r_wrf : bool                (* window_ready_flag *)
}.

Definition ceil_frag_r (x : N) : N := ((x + MAX_FRAGMENT_SIZE - 1) / MAX_FRAGMENT_SIZE) * MAX_FRAGMENT_SIZE.

Definition receiver_new (window_size base_id max_alloc : N) : receiver :=
  mkReceiver base_id base_id 0 (ceil_frag_r max_alloc) window_size
             (repeatN slot_init (N.to_nat window_size))
             (repeatN (mkRChan None 0) (N.to_nat CHANNEL_COUNT)) 0 false.

Definition widx (r : receiver) (seq : N) : nat := N.to_nat (seq mod r_wsize r).

Definition get_slot (r : receiver) (i : nat) : slot := nth i (r_slots r) slot_init.
Definition get_chan (r : receiver) (c : N) : rchannel := nth (N.to_nat c) (r_chans r) (mkRChan None 0).

Definition set_slots (r : receiver) (sl : list slot) : receiver :=
  mkReceiver (r_base r) (r_end r) (r_alloc r) (r_max_alloc r) (r_wsize r) sl (r_chans r) (r_crf r) (r_wrf r).
Definition set_chans (r : receiver) (ch : list rchannel) : receiver :=
  mkReceiver (r_base r) (r_end r) (r_alloc r) (r_max_alloc r) (r_wsize r) (r_slots r) ch (r_crf r) (r_wrf r).

Definition lead_ok (lead delta : N) : bool := (lead =? 0) || (delta <? lead).

Definition receiver_handle_datagram (r : receiver) (dg : datagram) : receiver :=
  let base_id := r_base r in
  if negb (datagram_is_valid dg) then r else
  let ch := get_chan r (dg_chan dg) in
  let channel_base_id := opt_default base_id (rc_base ch) in
  let channel_lead := pid_sub channel_base_id base_id in
  let packet_lead := pid_sub (dg_seq dg) base_id in
  if r_wsize r <=? packet_lead then r else
  if packet_lead <? channel_lead then r else
  let i := widx r (dg_seq dg) in
  let s := get_slot r i in
  let '(asm', alloc', produced) := asm_try_add (sl_asm s) (r_alloc r) (r_max_alloc r) dg in
  match produced with
  | None =>
      mkReceiver (r_base r) (r_end r) alloc' (r_max_alloc r) (r_wsize r)
                 (upd (r_slots r) i (mkSlot asm' (sl_entry s) (sl_dflag s) (sl_chan s) (sl_cpl s) (sl_wpl s) (sl_data s) (sl_marker s)))
                 (r_chans r) (r_crf r) (r_wrf r)
  | Some p =>
      let s' := mkSlot asm' true true (ap_chan p) (ap_cpl p) (ap_wpl p) (ap_data p) (sl_marker s) in
      let end' := if pid_sub (dg_seq dg) (r_end r) <? r_wsize r then pid_add (dg_seq dg) 1 else r_end r in
      let chans' := upd (r_chans r) (N.to_nat (dg_chan dg)) (mkRChan (rc_base ch) (rc_count ch + 1)) in
      let channel_delta := pid_sub (dg_seq dg) channel_base_id in
      let crf' := if lead_ok (ap_cpl p) channel_delta then N.setbit (r_crf r) (dg_chan dg) else r_crf r in
      let window_delta := pid_sub (dg_seq dg) base_id in
      let wrf' := if lead_ok (ap_wpl p) window_delta then true else r_wrf r in
      mkReceiver (r_base r) end' alloc' (r_max_alloc r) (r_wsize r) (upd (r_slots r) i s') chans' crf' wrf'
  end.

Definition slot_set_marker (s : slot) (m : option N) : slot :=
  mkSlot (sl_asm s) (sl_entry s) (sl_dflag s) (sl_chan s) (sl_cpl s) (sl_wpl s) (sl_data s) m.

Definition set_channel_base_id (r : receiver) (chan new_id : N) : receiver :=
  let ch := get_chan r chan in
  let r1 := match rc_base ch with
            | Some b => let i := widx r b in set_slots r (upd (r_slots r) i (slot_set_marker (get_slot r i) None))
            | None => r end in
  let j := widx r1 new_id in
  let r2 := set_slots r1 (upd (r_slots r1) j (slot_set_marker (get_slot r1 j) (Some chan))) in
  set_chans r2 (upd (r_chans r2) (N.to_nat chan) (mkRChan (Some new_id) (rc_count ch))).

Definition try_unset_channel_base_id (r : receiver) (seq : N) : receiver :=
  let i := widx r seq in
  let s := get_slot r i in
  match sl_marker s with
  | None => r
  | Some chan =>
      let r1 := set_slots r (upd (r_slots r) i (slot_set_marker s None)) in
      let ch := get_chan r1 chan in
      set_chans r1 (upd (r_chans r1) (N.to_nat chan) (mkRChan None (rc_count ch)))
  end.

(* the three loops of advance_window over ids base .. new_base (count ids) *)
Fixpoint adv_clear (n : nat) (id : N) (r : receiver) : receiver :=
  match n with
  | O => r
  | S n' =>
      let i := widx r id in
      let s := get_slot r i in
      let s' := mkSlot AsmOpen false (sl_dflag s) (sl_chan s) (sl_cpl s) (sl_wpl s) (sl_data s) (sl_marker s) in
      let r' := mkReceiver (r_base r) (r_end r) (r_alloc r - asm_entry_alloc (sl_asm s)) (r_max_alloc r) (r_wsize r)
                           (upd (r_slots r) i s') (r_chans r) (r_crf r) (r_wrf r) in
      adv_clear n' (pid_add id 1) r'
  end.

Fixpoint adv_unset (n : nat) (id : N) (r : receiver) : receiver :=
  match n with
  | O => r
  | S n' => let id' := pid_add id 1 in adv_unset n' id' (try_unset_channel_base_id r id')
  end.

Definition advance_window (r : receiver) (new_base_id : N) : receiver :=
  let delta := pid_sub new_base_id (r_base r) in
  let end' := if pid_sub (r_end r) (r_base r) <? delta then new_base_id else r_end r in
  let r1 := adv_clear (N.to_nat delta) (r_base r) r in
  let r2 := adv_unset (N.to_nat delta) (r_base r) r1 in
  mkReceiver new_base_id end' (r_alloc r2) (r_max_alloc r2) (r_wsize r2) (r_slots r2) (r_chans r2) (r_crf r2) (r_wrf r2).

(* first loop of receive(): deliver; `base_id` is the window base at entry *)
Fixpoint recv_deliver (n : nat) (seq base_id : N) (r : receiver) (out : list (list N)) : receiver * list (list N) :=
  match n with
  | O => (r, out)
  | S n' =>
      if r_crf r =? 0 then (r, out) else
      let i := widx r seq in
      let s := get_slot r i in
      let next := pid_add seq 1 in
      if sl_dflag s then
        let chan := sl_chan s in
        if N.testbit (r_crf r) chan then
          let ch := get_chan r chan in
          let channel_base_id := opt_default base_id (rc_base ch) in
          let channel_delta := pid_sub seq channel_base_id in
          if lead_ok (sl_cpl s) channel_delta then
            let out' := match sl_data s with Some d => out ++ [d] | None => out end in
            let s' := mkSlot (sl_asm s) (sl_entry s) false (sl_chan s) (sl_cpl s) (sl_wpl s) None (sl_marker s) in
            let cnt := rc_count ch - 1 in
            let crf' := if cnt =? 0 then N.clearbit (r_crf r) chan else r_crf r in
            let r1 := mkReceiver (r_base r) (r_end r) (r_alloc r) (r_max_alloc r) (r_wsize r)
                                 (upd (r_slots r) i s') (upd (r_chans r) (N.to_nat chan) (mkRChan (rc_base ch) cnt))
                                 crf' (r_wrf r) in
            recv_deliver n' next base_id (set_channel_base_id r1 chan next) out'
          else
            let r1 := mkReceiver (r_base r) (r_end r) (r_alloc r) (r_max_alloc r) (r_wsize r)
                                 (r_slots r) (r_chans r) (N.clearbit (r_crf r) chan) (r_wrf r) in
            recv_deliver n' next base_id r1 out
        else recv_deliver n' next base_id r out
      else recv_deliver n' next base_id r out
  end.

(* second loop of receive(): how far the window may advance *)
Fixpoint recv_scan (n : nat) (seq new_base : N) (r : receiver) : N :=
  match n with
  | O => new_base
  | S n' =>
      let s := get_slot r (widx r seq) in
      let next := pid_add seq 1 in
      if sl_entry s then
        if lead_ok (sl_wpl s) (pid_sub seq new_base) then
          if sl_dflag s then new_base
          else recv_scan n' next next r
        else new_base
      else recv_scan n' next new_base r
  end.

Definition receiver_receive (r : receiver) : receiver * list (list N) :=
  let base_id := r_base r in
  let end_id := r_end r in
  let n := N.to_nat (pid_sub end_id base_id) in
  let '(r1, out) := recv_deliver n base_id base_id r [] in
  if r_wrf r1 then
    let r2 := mkReceiver (r_base r1) (r_end r1) (r_alloc r1) (r_max_alloc r1) (r_wsize r1) (r_slots r1) (r_chans r1) (r_crf r1) false in
    let nb := recv_scan n base_id base_id r2 in
    (advance_window r2 nb, out)
  else (r1, out).

Fixpoint resync_scan (n : nat) (seq : N) (r : receiver) : N :=
  match n with
  | O => seq
  | S n' => if sl_entry (get_slot r (widx r seq)) then seq else resync_scan n' (pid_add seq 1) r
  end.

Definition receiver_resynchronize (r : receiver) (sender_next_id : N) : receiver :=
  if negb (pid_valid sender_next_id) then r else
  let delta := pid_sub sender_next_id (r_base r) in
  if r_wsize r <? delta then r else
  advance_window r (resync_scan (N.to_nat delta) (r_base r) r).

(* bytes actually held for received packet data: capacity of the active reassembly buffers plus
   complete packets not yet delivered (what the cfg(uflow_verif) dump reports as `held`) *)
Definition slot_held (s : slot) : N :=
  (match sl_asm s with AsmActive _ _ _ _ _ buf => fb_n buf * MAX_FRAGMENT_SIZE | _ => 0 end)
  + (match sl_data s with Some d => len d | None => 0 end).

Definition receiver_held (r : receiver) : N := fold_right (fun s acc => slot_held s + acc) 0 (r_slots r).
