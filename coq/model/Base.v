(* Base.v — result type with explicit panic sites, byte-string helpers.
   Conventions: every Rust integer is an [N]; wrap-around is written explicitly. *)
From Coq Require Export NArith ZArith List Bool Lia.
Export ListNotations.
Open Scope N_scope.

Arguments N.add : simpl never.
Arguments N.sub : simpl never.
Arguments N.mul : simpl never.
Arguments N.div : simpl never.
Arguments N.modulo : simpl never.
Arguments N.pow : simpl never.
Arguments N.eqb : simpl never.
Arguments N.ltb : simpl never.
Arguments N.leb : simpl never.
Arguments N.lxor : simpl never.
Arguments N.lor : simpl never.
Arguments N.land : simpl never.
Arguments N.testbit : simpl never.

(* Outcome of a Rust call: normal return, panic at a named site, or a loop that did not
   finish within its fuel (reported as a hang). *)
Inductive res (A : Type) : Type :=
| Ok (a : A)
| Panic (site : N)
| Hang (site : N).
Arguments Ok {A} a.
Arguments Panic {A} site.
Arguments Hang {A} site.

Definition bind {A B} (r : res A) (f : A -> res B) : res B :=
  match r with
  | Ok a => f a
  | Panic s => Panic s
  | Hang s => Hang s
  end.
Notation "'do' x <- r ; k" := (bind r (fun x => k)) (at level 200, x pattern, r at level 100, k at level 200).

Definition is_ok {A} (r : res A) : bool := match r with Ok _ => true | _ => false end.

(* Panic sites (small enum, compared with the harness' PANIC observations by class) *)
Definition SITE_INDEX : N := 1.        (* slice / array index out of range *)
Definition SITE_UNWRAP : N := 2.       (* Option::unwrap on None *)
Definition SITE_OVERFLOW : N := 3.     (* arithmetic overflow (debug builds) *)
Definition SITE_DEBUG_ASSERT : N := 4. (* debug_assert! (debug builds) *)
Definition SITE_PANIC : N := 5.        (* explicit panic!() *)
Definition SITE_LOOP : N := 6.         (* loop fuel exhausted *)

Definition u8_max := 255.
Definition pow8 := 256.
Definition pow16 := 65536.
Definition pow20 := 1048576.
Definition pow24 := 16777216.
Definition pow32 := 4294967296.
Definition pow64 := 18446744073709551616.

Definition wrap32 (x : N) : N := x mod pow32.
Definition wrap64 (x : N) : N := x mod pow64.
(* a.wrapping_sub(b) for u32 operands already in range *)
Definition sub32 (a b : N) : N := (a + pow32 - b) mod pow32.
Definition add32 (a b : N) : N := (a + b) mod pow32.

Definition len {A} (l : list A) : N := N.of_nat (length l).

(* data[i] *)
Definition get (d : list N) (i : N) : res N :=
  match nth_error d (N.to_nat i) with
  | Some b => Ok b
  | None => Panic SITE_INDEX
  end.

(* &data[a ..] *)
Definition slice_from (d : list N) (a : N) : res (list N) :=
  if a <=? len d then Ok (skipn (N.to_nat a) d) else Panic SITE_INDEX.

(* &data[a .. b] *)
Definition slice (d : list N) (a b : N) : res (list N) :=
  if (a <=? b) && (b <=? len d) then Ok (firstn (N.to_nat (b - a)) (skipn (N.to_nat a) d))
  else Panic SITE_INDEX.

Definition be32 (b0 b1 b2 b3 : N) : N := b0 * pow24 + b1 * pow16 + b2 * pow8 + b3.
Definition be16 (b0 b1 : N) : N := b0 * pow8 + b1.

(* the four `(x >> k) as u8` bytes of a u32, most significant first *)
Definition u32be (x : N) : list N :=
  [ (x / pow24) mod pow8; (x / pow16) mod pow8; (x / pow8) mod pow8; x mod pow8 ].
Definition u16be (x : N) : list N := [ (x / pow8) mod pow8; x mod pow8 ].

Definition get32 (d : list N) (i : N) : res N :=
  do b0 <- get d i; do b1 <- get d (i+1); do b2 <- get d (i+2); do b3 <- get d (i+3);
  Ok (be32 b0 b1 b2 b3).
Definition get16 (d : list N) (i : N) : res N :=
  do b0 <- get d i; do b1 <- get d (i+1); Ok (be16 b0 b1).

Definition bytes_ok (d : list N) : bool := forallb (fun b => b <? 256) d.

Definition b2n (b : bool) : N := if b then 1 else 0.

Fixpoint repeatN {A} (x : A) (n : nat) : list A :=
  match n with O => [] | S n' => x :: repeatN x n' end.

(* ---------- packet ids (src/packet_id.rs): 20-bit ids carried in u32 ---------- *)
Definition pid_add (a b : N) : N := ((a + b) mod pow32) mod pow20.
Definition pid_sub (a b : N) : N := ((a + pow32 - b mod pow32) mod pow32) mod pow20.
Definition pid_valid (a : N) : bool := a <? pow20.

(* ---------- list helpers ---------- *)
Fixpoint upd {A} (l : list A) (i : nat) (x : A) : list A :=
  match l, i with
  | [], _ => []
  | _ :: t, O => x :: t
  | h :: t, S i' => h :: upd t i' x
  end.

(* indices can be ~2^32 (wrapped differences): never convert an out-of-range index to nat *)
Definition nth_opt {A} (l : list A) (i : N) : option A :=
  if i <? N.of_nat (length l) then nth_error l (N.to_nat i) else None.

Definition opt_default {A} (d : A) (o : option A) : A := match o with Some x => x | None => d end.

Definition Zlen {A} (l : list A) : Z := Z.of_nat (length l).
