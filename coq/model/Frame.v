(* Frame.v — mirror of src/frame/mod.rs *)
From UF Require Import Base.

Record datagram := mkDg {
  dg_seq : N;        (* sequence_id: u32 (20 bits used) *)
  dg_chan : N;       (* channel_id: u8 *)
  dg_wpl : N;        (* window_parent_lead: u16 *)
  dg_cpl : N;        (* channel_parent_lead: u16 *)
  dg_frag : N;       (* fragment_id: u16 *)
  dg_frag_last : N;  (* fragment_id_last: u16 *)
  dg_data : list N   (* Box<[u8]> *)
}.

Record ack_group := mkAg {
  ag_base : N;       (* base_id: u32 *)
  ag_bits : N;       (* bitfield: u32 *)
  ag_nonce : bool
}.

Inductive err_type := ErrVersion | ErrConfig | ErrServerFull.

Inductive frame :=
| FSyn (version nonce max_receive_rate max_packet_size max_receive_alloc : N)
| FSynAck (nonce_ack nonce max_receive_rate max_packet_size max_receive_alloc : N)
| FHsAck (nonce_ack : N)
| FHsError (nonce_ack : N) (e : err_type)
| FDisconnect
| FDisconnectAck
| FData (seq : N) (nonce : bool) (dgs : list datagram)
| FSync (next_frame_id next_packet_id : option N)
| FAcks (frame_window_base_id packet_window_base_id : N) (acks : list ack_group).
