(* Codec.v — src/frame/serial/mod.rs and build.rs, byte for byte.
   `|` between fields that are disjoint by construction is written `+`; `x >> k` is `x / 2^k`;
   `x as u8` is `x mod 256`; `& mask` of the form 2^k-1 is `mod 2^k`.  The two places where the
   operands of `|` are disjoint only for representable input (channel_id | 0x80 / 0xC0, nonce
   bit | datagram count) fall back to N.lor outside that range. *)
From UF Require Import Consts Base Crc Frame.

(* ---------- readers ---------- *)

Definition read_handshake_syn_payload (data : list N) : res (option frame) :=
  if negb (len data =? HANDSHAKE_SYN_FRAME_PAYLOAD_SIZE) then Ok None else
  do version <- get data 0;
  do nonce <- get32 data 1;
  do mrr <- get32 data 5;
  do mps <- get32 data 9;
  do mra <- get32 data 13;
  Ok (Some (FSyn version nonce mrr mps mra)).

Definition read_handshake_syn_ack_payload (data : list N) : res (option frame) :=
  if negb (len data =? HANDSHAKE_SYN_ACK_FRAME_PAYLOAD_SIZE) then Ok None else
  do nonce_ack <- get32 data 0;
  do nonce <- get32 data 4;
  do mrr <- get32 data 8;
  do mps <- get32 data 12;
  do mra <- get32 data 16;
  Ok (Some (FSynAck nonce_ack nonce mrr mps mra)).

Definition read_handshake_ack_payload (data : list N) : res (option frame) :=
  if negb (len data =? HANDSHAKE_ACK_FRAME_PAYLOAD_SIZE) then Ok None else
  do nonce_ack <- get32 data 0;
  Ok (Some (FHsAck nonce_ack)).

Definition read_handshake_error_payload (data : list N) : res (option frame) :=
  if negb (len data =? HANDSHAKE_ERROR_FRAME_PAYLOAD_SIZE) then Ok None else
  do nonce_ack <- get32 data 0;
  do e <- get data 4;
  if e =? 0 then Ok (Some (FHsError nonce_ack ErrVersion))
  else if e =? 1 then Ok (Some (FHsError nonce_ack ErrConfig))
  else if e =? 2 then Ok (Some (FHsError nonce_ack ErrServerFull))
  else Ok None.

Definition read_disconnect_payload (data : list N) : res (option frame) :=
  if negb (len data =? DISCONNECT_FRAME_PAYLOAD_SIZE) then Ok None else Ok (Some FDisconnect).

Definition read_disconnect_ack_payload (data : list N) : res (option frame) :=
  if negb (len data =? DISCONNECT_ACK_FRAME_PAYLOAD_SIZE) then Ok None else Ok (Some FDisconnectAck).

(* read_datagram: Some (datagram, bytes consumed) *)
Definition read_datagram (data : list N) : res (option (datagram * N)) :=
  if len data <? DATAGRAM_HEADER_SIZE_MIN then Ok None else
  do d0 <- get data 0;
  if d0 / 128 =? 0 then
    (* Micro:  0CDDDDDD SSSSCCCC SSSSSSSS SSSSSSSS CWWWWWWW HHHHHHHH *)
    let header_size := DATAGRAM_HEADER_SIZE_MICRO in
    let data_len := d0 mod 64 in
    let total_size := header_size + data_len in
    if len data <? total_size then Ok None else
    do d1 <- get data 1; do d2 <- get data 2; do d3 <- get data 3;
    do d4 <- get data 4; do d5 <- get data 5;
    let channel_id := ((d4 / 128) mod 2) * 32 + ((d0 / 64) mod 2) * 16 + d1 mod 16 in
    let sequence_id := (d1 / 16) * pow16 + d2 * pow8 + d3 in
    let wpl := d4 mod 128 in
    let cpl := d5 in
    do payload <- slice data header_size (header_size + data_len);
    Ok (Some (mkDg sequence_id channel_id wpl cpl 0 0 payload, total_size))
  else if (d0 / 64) mod 2 =? 0 then
    (* Small *)
    let header_size := DATAGRAM_HEADER_SIZE_SMALL in
    do d1 <- get data 1;
    let data_len := d1 in
    let total_size := header_size + data_len in
    if len data <? total_size then Ok None else
    let channel_id := d0 mod 64 in
    do d2 <- get data 2; do d3 <- get data 3; do d4 <- get data 4;
    let sequence_id := (d2 mod 16) * pow16 + d3 * pow8 + d4 in
    do wpl <- get16 data 5;
    do cpl <- get16 data 7;
    do payload <- slice data header_size (header_size + data_len);
    Ok (Some (mkDg sequence_id channel_id wpl cpl 0 0 payload, total_size))
  else
    (* Large *)
    let header_size := DATAGRAM_HEADER_SIZE_LARGE in
    do data_len <- get16 data 1;
    let total_size := header_size + data_len in
    if len data <? total_size then Ok None else
    let channel_id := d0 mod 64 in
    do d3 <- get data 3; do d4 <- get data 4; do d5 <- get data 5;
    let sequence_id := (d3 mod 16) * pow16 + d4 * pow8 + d5 in
    do wpl <- get16 data 6;
    do cpl <- get16 data 8;
    do fragment_id <- get16 data 10;
    do fragment_id_last <- get16 data 12;
    do payload <- slice data header_size (header_size + data_len);
    Ok (Some (mkDg sequence_id channel_id wpl cpl fragment_id fragment_id_last payload, total_size)).

(* for _ in 0 .. datagram_num { ... } *)
Fixpoint read_datagrams (n : nat) (data_slice : list N) (acc : list datagram)
  : res (option (list datagram * list N)) :=
  match n with
  | O => Ok (Some (rev acc, data_slice))
  | S n' =>
      do r <- read_datagram data_slice;
      match r with
      | None => Ok None
      | Some (dg, read_size) =>
          do rest <- slice_from data_slice read_size;
          read_datagrams n' rest (dg :: acc)
      end
  end.

Definition read_data_payload (data : list N) : res (option frame) :=
  if len data <? DATA_FRAME_PAYLOAD_HEADER_SIZE then Ok None else
  do sequence_id <- get32 data 0;
  do d4 <- get data 4;
  let nonce := negb (d4 / 128 =? 0) in
  let datagram_num := d4 mod 128 in
  do data_slice <- slice_from data DATA_FRAME_PAYLOAD_HEADER_SIZE;
  do r <- read_datagrams (N.to_nat datagram_num) data_slice [];
  match r with
  | None => Ok None
  | Some (dgs, rest) =>
      if negb (len rest =? 0) then Ok None
      else Ok (Some (FData sequence_id nonce dgs))
  end.

Definition read_sync_payload (data : list N) : res (option frame) :=
  if negb (len data =? SYNC_FRAME_PAYLOAD_SIZE) then Ok None else
  do mode <- get data 0;
  do nf <- (if negb (mode mod 2 =? 0) then do v <- get32 data 1; Ok (Some v) else Ok None);
  do np <- (if negb ((mode / 2) mod 2 =? 0) then do v <- get32 data 5; Ok (Some v) else Ok None);
  Ok (Some (FSync nf np)).

Definition read_frame_ack (data : list N) : res (option (ack_group * N)) :=
  if len data <? ACK_GROUP_SIZE then Ok None else
  do base_id <- get32 data 0;
  do bitfield <- get32 data 4;
  do d8 <- get data 8;
  Ok (Some (mkAg base_id bitfield (negb (d8 =? 0)), ACK_GROUP_SIZE)).

Fixpoint read_frame_acks (n : nat) (data_slice : list N) (acc : list ack_group)
  : res (option (list ack_group * list N)) :=
  match n with
  | O => Ok (Some (rev acc, data_slice))
  | S n' =>
      do r <- read_frame_ack data_slice;
      match r with
      | None => Ok None
      | Some (ag, read_size) =>
          do rest <- slice_from data_slice read_size;
          read_frame_acks n' rest (ag :: acc)
      end
  end.

Definition read_ack_payload (data : list N) : res (option frame) :=
  if len data <? ACK_FRAME_PAYLOAD_HEADER_SIZE then Ok None else
  do fbase <- get32 data 0;
  do pbase <- get32 data 4;
  do num <- get16 data 8;
  do data_slice <- slice_from data ACK_FRAME_PAYLOAD_HEADER_SIZE;
  do r <- read_frame_acks (N.to_nat num) data_slice [];
  match r with
  | None => Ok None
  | Some (acks, rest) =>
      if negb (len rest =? 0) then Ok None
      else Ok (Some (FAcks fbase pbase acks))
  end.

(* the `match frame_bytes[0]` of Frame::read *)
Definition read_payload (ty : N) (payload : list N) : res (option frame) :=
  if ty =? HANDSHAKE_SYN_FRAME_ID then read_handshake_syn_payload payload
  else if ty =? HANDSHAKE_SYN_ACK_FRAME_ID then read_handshake_syn_ack_payload payload
  else if ty =? HANDSHAKE_ACK_FRAME_ID then read_handshake_ack_payload payload
  else if ty =? HANDSHAKE_ERROR_FRAME_ID then read_handshake_error_payload payload
  else if ty =? DISCONNECT_FRAME_ID then read_disconnect_payload payload
  else if ty =? DISCONNECT_ACK_FRAME_ID then read_disconnect_ack_payload payload
  else if ty =? DATA_FRAME_ID then read_data_payload payload
  else if ty =? SYNC_FRAME_ID then read_sync_payload payload
  else if ty =? ACK_FRAME_ID then read_ack_payload payload
  else Ok None.

(* impl Serialize for Frame :: read *)
Definition read_frame (frame_bytes : list N) : res (option frame) :=
  if len frame_bytes <? 5 then Ok None else
  let frame_len := len frame_bytes in
  do data_bytes <- slice frame_bytes 0 (frame_len - 4);
  do crc <- get32 frame_bytes (frame_len - 4);
  if negb (crc_compute data_bytes =? crc) then Ok None else
  do payload <- slice frame_bytes 1 (frame_len - 4);
  do ty <- get frame_bytes 0;
  read_payload ty payload.

(* ---------- writers ---------- *)

Definition with_crc (body : list N) : list N := body ++ u32be (crc_compute body).

Definition write_handshake_syn (version nonce mrr mps mra : N) : list N :=
  let non_padding := [HANDSHAKE_SYN_FRAME_ID; version mod pow8] ++ u32be nonce ++ u32be mrr ++ u32be mps ++ u32be mra in
  let body := non_padding ++ repeatN 0 (N.to_nat (MAX_FRAME_SIZE - 4) - length non_padding) in
  with_crc body.

Definition write_handshake_syn_ack (nonce_ack nonce mrr mps mra : N) : list N :=
  with_crc ([HANDSHAKE_SYN_ACK_FRAME_ID] ++ u32be nonce_ack ++ u32be nonce ++ u32be mrr ++ u32be mps ++ u32be mra).

Definition write_handshake_ack (nonce_ack : N) : list N :=
  with_crc ([HANDSHAKE_ACK_FRAME_ID] ++ u32be nonce_ack).

Definition err_code (e : err_type) : N :=
  match e with ErrVersion => 0 | ErrConfig => 1 | ErrServerFull => 2 end.

Definition write_handshake_error (nonce_ack : N) (e : err_type) : list N :=
  with_crc ([HANDSHAKE_ERROR_FRAME_ID] ++ u32be nonce_ack ++ [err_code e]).

Definition write_disconnect : list N := with_crc [DISCONNECT_FRAME_ID].
Definition write_disconnect_ack : list N := with_crc [DISCONNECT_ACK_FRAME_ID].

(* channel_id | flag, flag = 0x80 or 0xC0 *)
Definition chan_or (chan flag : N) : N :=
  if chan <? 64 then chan + flag else N.lor chan flag.

(* DataFrameBuilder::add — the bytes appended for one datagram *)
Definition encode_datagram (dg : datagram) : list N :=
  let data_len_u16 := len (dg_data dg) mod pow16 in
  let micro_small :=
    if dg_frag_last dg =? 0 then
      if (data_len_u16 <? 64) && (dg_wpl dg <? 128) && (dg_cpl dg <? 256) then
        Some ([ data_len_u16 + ((dg_chan dg / 16) mod 2) * 64;
                ((dg_seq dg / pow16) mod 16) * 16 + dg_chan dg mod 16;
                (dg_seq dg / pow8) mod pow8;
                dg_seq dg mod pow8;
                dg_wpl dg + ((dg_chan dg / 32) mod 2) * 128;
                dg_cpl dg ] ++ dg_data dg)
      else if data_len_u16 <? 256 then
        Some ([ chan_or (dg_chan dg) 128; data_len_u16;
                (dg_seq dg / pow16) mod pow8; (dg_seq dg / pow8) mod pow8; dg_seq dg mod pow8 ]
              ++ u16be (dg_wpl dg) ++ u16be (dg_cpl dg) ++ dg_data dg)
      else None
    else None in
  match micro_small with
  | Some bytes => bytes
  | None =>
      [ chan_or (dg_chan dg) 192 ] ++ u16be data_len_u16 ++
      [ (dg_seq dg / pow16) mod pow8; (dg_seq dg / pow8) mod pow8; dg_seq dg mod pow8 ]
      ++ u16be (dg_wpl dg) ++ u16be (dg_cpl dg) ++ u16be (dg_frag dg) ++ u16be (dg_frag_last dg)
      ++ dg_data dg
  end.

(* DataFrameBuilder::encoded_size *)
Definition datagram_encoded_size (dg : datagram) : N :=
  let data_len := len (dg_data dg) in
  if dg_frag_last dg =? 0 then
    if (data_len <? 64) && (dg_wpl dg <? 128) && (dg_cpl dg <? 256) then DATAGRAM_HEADER_SIZE_MICRO + data_len
    else if data_len <? 256 then DATAGRAM_HEADER_SIZE_SMALL + data_len
    else DATAGRAM_HEADER_SIZE_LARGE + data_len
  else DATAGRAM_HEADER_SIZE_LARGE + data_len.

(* DataFrameBuilder: buffer without the count patched in; build patches byte 5 and appends crc *)
Definition data_frame_header (sequence_id : N) (nonce : bool) : list N :=
  [DATA_FRAME_ID] ++ u32be sequence_id ++ [b2n nonce * 128].

Definition nonce_count_byte (nonce : bool) (count : N) : N :=
  if count <? 128 then b2n nonce * 128 + count else N.lor (b2n nonce * 128) (count mod pow8).

Definition build_data_frame (sequence_id : N) (nonce : bool) (encoded : list N) (count : N) : list N :=
  with_crc ([DATA_FRAME_ID] ++ u32be sequence_id ++ [nonce_count_byte nonce count] ++ encoded).

Definition write_data (sequence_id : N) (nonce : bool) (dgs : list datagram) : list N :=
  build_data_frame sequence_id nonce (concat (map encode_datagram dgs)) (len dgs).

Definition write_sync (nf np : option N) : list N :=
  let mode := b2n (match nf with Some _ => true | None => false end)
              + 2 * b2n (match np with Some _ => true | None => false end) in
  with_crc ([SYNC_FRAME_ID; mode] ++ u32be (match nf with Some v => v | None => 0 end)
                                   ++ u32be (match np with Some v => v | None => 0 end)).

Definition encode_ack_group (ag : ack_group) : list N :=
  u32be (ag_base ag) ++ u32be (ag_bits ag) ++ [b2n (ag_nonce ag)].

Definition build_ack_frame (fbase pbase : N) (encoded : list N) (count : N) : list N :=
  with_crc ([ACK_FRAME_ID] ++ u32be fbase ++ u32be pbase ++ u16be (count mod pow16) ++ encoded).

Definition write_acks (fbase pbase : N) (acks : list ack_group) : list N :=
  build_ack_frame fbase pbase (concat (map encode_ack_group acks)) (len acks).

Definition write_frame (f : frame) : list N :=
  match f with
  | FSyn v n a b c => write_handshake_syn v n a b c
  | FSynAck na n a b c => write_handshake_syn_ack na n a b c
  | FHsAck na => write_handshake_ack na
  | FHsError na e => write_handshake_error na e
  | FDisconnect => write_disconnect
  | FDisconnectAck => write_disconnect_ack
  | FData s n dgs => write_data s n dgs
  | FSync nf np => write_sync nf np
  | FAcks fb pb acks => write_acks fb pb acks
  end.

(* ---------- representable frames (field ranges of the Rust types + the builder's asserts) ---------- *)

Definition dg_representable (dg : datagram) : bool :=
  (dg_chan dg <? MAX_CHANNELS) && (dg_seq dg <? pow20) && (len (dg_data dg) <? pow16)
  && (dg_wpl dg <? pow16) && (dg_cpl dg <? pow16) && (dg_frag dg <? pow16) && (dg_frag_last dg <? pow16)
  && (negb (dg_frag_last dg =? 0) || (dg_frag dg =? 0))
  && bytes_ok (dg_data dg).

Definition ag_representable (ag : ack_group) : bool :=
  (ag_base ag <? pow32) && (ag_bits ag <? pow32).

Definition opt_u32 (o : option N) : bool := match o with Some v => v <? pow32 | None => true end.

Definition representable (f : frame) : bool :=
  match f with
  | FSyn v n a b c => (v <? pow8) && (n <? pow32) && (a <? pow32) && (b <? pow32) && (c <? pow32)
  | FSynAck na n a b c => (na <? pow32) && (n <? pow32) && (a <? pow32) && (b <? pow32) && (c <? pow32)
  | FHsAck na => na <? pow32
  | FHsError na _ => na <? pow32
  | FDisconnect | FDisconnectAck => true
  | FData s _ dgs => (s <? pow32) && (len dgs <=? DATA_FRAME_MAX_DATAGRAM_COUNT) && forallb dg_representable dgs
  | FSync nf np => opt_u32 nf && opt_u32 np
  | FAcks fb pb acks => (fb <? pow32) && (pb <? pow32) && (len acks <? pow16) && forallb ag_representable acks
  end.
