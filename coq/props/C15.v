(* C15 — only genuine, fresh acknowledgements change sender state. Statements only; proofs in AckProofs.v.
   State = the whole frame queue (frame log, ack flags, reorder buffer, loss intervals, pending feedback,
   transfer window) and the packet sender (fragment ack flags). AckFresh.v: what an accepted group adds to the pending
   feedback (the send time the round-trip sample is taken from, the acknowledged bytes) comes from exactly the frames it
   acknowledges for the first time — frames it names again contribute nothing. *)
From UF Require Import Consts Base Frame F64 Feedback Sender FrameQueue AckProofs FrameQueueProofs AckFresh.

Theorem C15_unknown_frame_identity :
  forall q s ack rtt,
    ~ span_logged q (ag_base ack) 0 (N.to_nat (bitfield_size (ag_bits ack))) ->
    fq_acknowledge_group q s ack rtt = Ok (q, s).
Proof. exact ack_unknown_frame_identity. Qed.
Print Assumptions C15_unknown_frame_identity.

Theorem C15_wrong_nonce_identity :
  forall q s ack rtt tn,
    ack_check q (ag_base ack) (ag_bits ack) 0 (N.to_nat (bitfield_size (ag_bits ack))) false = Some tn ->
    ag_nonce ack <> tn ->
    fq_acknowledge_group q s ack rtt = Ok (q, s).
Proof. exact ack_wrong_nonce_identity. Qed.
Print Assumptions C15_wrong_nonce_identity.

Theorem C15_replay_identity :
  forall q s ack rtt,
    all_claimed_acked q (ag_base ack) (ag_bits ack) 0 (N.to_nat (bitfield_size (ag_bits ack))) ->
    fq_acknowledge_group q s ack rtt = Ok (q, s).
Proof. exact ack_replay_identity. Qed.
Print Assumptions C15_replay_identity.

Theorem C15_accept_sound :
  forall q s ack rtt q' s',
    fq_acknowledge_group q s ack rtt = Ok (q', s') -> (q', s') <> (q, s) ->
    span_logged q (ag_base ack) 0 (N.to_nat (bitfield_size (ag_bits ack))) /\
    ack_check q (ag_base ack) (ag_bits ack) 0 (N.to_nat (bitfield_size (ag_bits ack))) false = Some (ag_nonce ack).
Proof. exact ack_accept_sound. Qed.
Print Assumptions C15_accept_sound.

(* non-vacuity: a queue with one logged frame; the genuine ack changes it, its replay and a forged one do not *)
Example C15_example :
  let q0 := fq_push (fq_new 16 16 100) 30 5 [] true in
  let s0 := sender_new 4 0 1000 in
  match fq_acknowledge_group q0 s0 (mkAg 100 1 true) None with
  | Ok (q1, s1) =>
      (match fq_ack_data q1 with Some _ => true | None => false end,
       match fq_acknowledge_group q1 s1 (mkAg 100 1 true) None with Ok (q2, _) => match fq_ack_data q2, fq_ack_data q1 with Some a, Some b => ad_total a =? ad_total b | _, _ => false end | _ => false end,
       match fq_acknowledge_group q0 s0 (mkAg 100 1 false) None with Ok (q2, _) => match fq_ack_data q2 with None => true | _ => false end | _ => false end)
  | _ => (false, false, false)
  end = (true, true, true).
Proof. vm_compute. reflexivity. Qed.

(* an accepted group adds the latest send time and the total size of exactly the frames it acknowledges for the first time *)
Theorem C15_feedback_from_fresh_frames :
  forall q s ack rtt q' s',
  FqInv q -> ag_base ack < pow32 -> ag_bits ack < pow32 ->
  fq_acknowledge_group q s ack rtt = Ok (q', s') ->
  let fr := fresh_list q (ag_base ack) (ag_bits ack) 0 (N.to_nat (bitfield_size (ag_bits ack))) in
  fq_ack_data q' = fq_ack_data q \/
  (fr <> [] /\ exists rl, fq_ack_data q' = Some (merge_ack_data (fq_ack_data q) (mkAckData (max_time fr) (sum_size fr) rl))).
Proof. exact ack_group_feedback. Qed.
Print Assumptions C15_feedback_from_fresh_frames.

(* non-vacuity: frames 100 (sent at 5, 30 bytes) and 101 (sent at 90, 40 bytes); 101 is acknowledged and its feedback
   consumed; a later group naming both contributes frame 100 only: send time 5, 30 bytes *)
Example C15_fresh_example :
  let q0 := fq_push (fq_push (fq_new 16 16 100) 30 5 [] true) 40 90 [] false in
  let s0 := sender_new 4 0 1000 in
  match fq_acknowledge_group q0 s0 (mkAg 101 1 false) None with
  | Ok (q1, s1) =>
      match fq_acknowledge_group (fst (fq_get_feedback q1 200)) s1 (mkAg 100 3 true) None with
      | Ok (q2, _) => match fq_ack_data q1, fq_ack_data q2 with
                      | Some a, Some b => (ad_last_send a, ad_total a, ad_last_send b, ad_total b) = (90, 40, 5, 30)
                      | _, _ => False end
      | _ => False end
  | _ => False
  end.
Proof. vm_compute. reflexivity. Qed.

Check C15_replay_identity : forall q s ack rtt,
    all_claimed_acked q (ag_base ack) (ag_bits ack) 0 (N.to_nat (bitfield_size (ag_bits ack))) ->
    fq_acknowledge_group q s ack rtt = Ok (q, s).
