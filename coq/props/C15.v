(* C15 — only genuine, fresh acknowledgements change sender state. Statements only; proofs in AckProofs.v.
   State = the whole frame queue (frame log, ack flags, reorder buffer, loss intervals, pending feedback,
   transfer window) and the packet sender (fragment ack flags). *)
From UF Require Import Consts Base Frame F64 Feedback Sender FrameQueue AckProofs.

Theorem C15_unknown_frame_identity :
  forall q s ack rtt,
    ~ span_logged q (ag_base ack) 0 (N.to_nat (bitfield_size (ag_bits ack))) ->
    fq_acknowledge_group q s ack rtt = Ok (q, s).
Proof. exact ack_unknown_frame_identity. Qed.
Print Assumptions C15_unknown_frame_identity.

Theorem C15_wrong_nonce_identity :
  forall q s ack rtt tn,
    ack_check q (ag_base ack) (ag_bits ack) 0 (N.to_nat (bitfield_size (ag_bits ack))) false = Some tn ->
    ag_nonce ack <> tn ->
    fq_acknowledge_group q s ack rtt = Ok (q, s).
Proof. exact ack_wrong_nonce_identity. Qed.
Print Assumptions C15_wrong_nonce_identity.

Theorem C15_replay_identity :
  forall q s ack rtt,
    all_claimed_acked q (ag_base ack) (ag_bits ack) 0 (N.to_nat (bitfield_size (ag_bits ack))) ->
    fq_acknowledge_group q s ack rtt = Ok (q, s).
Proof. exact ack_replay_identity. Qed.
Print Assumptions C15_replay_identity.

Theorem C15_accept_sound :
  forall q s ack rtt q' s',
    fq_acknowledge_group q s ack rtt = Ok (q', s') -> (q', s') <> (q, s) ->
    span_logged q (ag_base ack) 0 (N.to_nat (bitfield_size (ag_bits ack))) /\
    ack_check q (ag_base ack) (ag_bits ack) 0 (N.to_nat (bitfield_size (ag_bits ack))) false = Some (ag_nonce ack).
Proof. exact ack_accept_sound. Qed.
Print Assumptions C15_accept_sound.

(* non-vacuity: a queue with one logged frame; the genuine ack changes it, its replay and a forged one do not *)
Example C15_example :
  let q0 := fq_push (fq_new 16 16 100) 30 5 [] true in
  let s0 := sender_new 4 0 1000 in
  match fq_acknowledge_group q0 s0 (mkAg 100 1 true) None with
  | Ok (q1, s1) =>
      (match fq_ack_data q1 with Some _ => true | None => false end,
       match fq_acknowledge_group q1 s1 (mkAg 100 1 true) None with Ok (q2, _) => match fq_ack_data q2, fq_ack_data q1 with Some a, Some b => ad_total a =? ad_total b | _, _ => false end | _ => false end,
       match fq_acknowledge_group q0 s0 (mkAg 100 1 false) None with Ok (q2, _) => match fq_ack_data q2 with None => true | _ => false end | _ => false end)
  | _ => (false, false, false)
  end = (true, true, true).
Proof. vm_compute. reflexivity. Qed.

Check C15_replay_identity : forall q s ack rtt,
    all_claimed_acked q (ag_base ack) (ag_bits ack) 0 (N.to_nat (bitfield_size (ag_bits ack))) ->
    fq_acknowledge_group q s ack rtt = Ok (q, s).
