(* C16 — Frame codec round-trips, rejects malformed input, CRC catches <= 4 flips.
   This file only pins statements; the proofs live in proofs/. *)
From UF Require Import Consts Base Crc Frame Codec CodecRoundtrip CodecTotal CrcHdFrame.

(* Serialising any representable frame and parsing the bytes yields the same frame. *)
Theorem C16_roundtrip :
  forall f : frame, representable f = true -> read_frame (write_frame f) = Ok (Some f).
Proof. exact codec_roundtrip. Qed.
Print Assumptions C16_roundtrip.

(* Parsing arbitrary bytes never panics (no index or slice out of range, no unbounded loop). *)
Theorem C16_read_total :
  forall bs : list N, exists r : option frame, read_frame bs = Ok r.
Proof. exact read_frame_total. Qed.
Print Assumptions C16_read_total.

(* Every CRC-carrying byte string of at most MAX_FRAME_SIZE (1472) bytes — in particular every serialised frame —
   altered in one to four distinct bit positions (byte index, bit index) is rejected by the reader.
   Proved by an exhaustive search over all 1..4-bit error patterns on 11776 bits, carried out inside the
   kernel's evaluator (crc_hd/CrcHdShard*.v) after reducing patterns to powers of the CRC's bit step. *)
Theorem C16_crc_hd :
  forall (body : list N) (ps : list (nat * nat)),
    Forall (fun b => b < 256) body ->
    len (with_crc body) <= MAX_FRAME_SIZE ->
    NoDup ps -> (1 <= length ps <= 4)%nat ->
    Forall (fun p => (fst p < length (with_crc body))%nat /\ (snd p < 8)%nat) ps ->
    read_frame (flips (with_crc body) ps) = Ok None.
Proof. exact crc_detects_1_to_4_flips. Qed.
Print Assumptions C16_crc_hd.

Theorem C16_frame_flips_rejected :
  forall (f : frame) (ps : list (nat * nat)),
    bytes_ok (write_frame f) = true ->
    len (write_frame f) <= MAX_FRAME_SIZE ->
    NoDup ps -> (1 <= length ps <= 4)%nat ->
    Forall (fun p => (fst p < length (write_frame f))%nat /\ (snd p < 8)%nat) ps ->
    read_frame (flips (write_frame f) ps) = Ok None.
Proof. exact frame_flips_rejected. Qed.
Print Assumptions C16_frame_flips_rejected.

(* non-vacuity: an accepted frame, four flips spread over header, payload and CRC, rejected *)
Example C16_crc_hd_example :
  let f := FData 7 true [mkDg 5 17 128 256 0 0 [9; 200; 31]] in
  read_frame (write_frame f) = Ok (Some f)
  /\ bytes_ok (write_frame f) = true
  /\ read_frame (flips (write_frame f) [(0, 1); (7, 7); (9, 0); (length (write_frame f) - 1, 3)]%nat) = Ok None.
Proof. vm_compute. repeat split. Qed.

(* non-vacuity: a representable frame using all three datagram encodings exists *)
Example C16_representable_example :
  representable (FData 4294967295 true
     [mkDg 1048575 63 127 255 0 0 [1;2;3]; mkDg 5 17 128 256 0 0 [9]; mkDg 7 1 0 0 2 3 [4;5]]) = true.
Proof. vm_compute. reflexivity. Qed.

Check C16_roundtrip : forall f : frame, representable f = true -> read_frame (write_frame f) = Ok (Some f).
Check C16_read_total : forall bs : list N, exists r : option frame, read_frame bs = Ok r.
Check C16_crc_hd : forall (body : list N) (ps : list (nat * nat)),
    Forall (fun b => b < 256) body -> len (with_crc body) <= MAX_FRAME_SIZE ->
    NoDup ps -> (1 <= length ps <= 4)%nat ->
    Forall (fun p => (fst p < length (with_crc body))%nat /\ (snd p < 8)%nat) ps ->
    read_frame (flips (with_crc body) ps) = Ok None.
