(* C16 — Frame codec round-trips, rejects malformed input, CRC catches <= 4 flips.
   This file only pins statements; the proofs live in proofs/. *)
From UF Require Import Consts Base Crc Frame Codec CodecRoundtrip CodecTotal.

(* Serialising any representable frame and parsing the bytes yields the same frame. *)
Theorem C16_roundtrip :
  forall f : frame, representable f = true -> read_frame (write_frame f) = Ok (Some f).
Proof. exact codec_roundtrip. Qed.
Print Assumptions C16_roundtrip.

(* Parsing arbitrary bytes never panics (no index or slice out of range, no unbounded loop). *)
Theorem C16_read_total :
  forall bs : list N, exists r : option frame, read_frame bs = Ok r.
Proof. exact read_frame_total. Qed.
Print Assumptions C16_read_total.

(* non-vacuity: a representable frame using all three datagram encodings exists *)
Example C16_representable_example :
  representable (FData 4294967295 true
     [mkDg 1048575 63 127 255 0 0 [1;2;3]; mkDg 5 17 128 256 0 0 [9]; mkDg 7 1 0 0 2 3 [4;5]]) = true.
Proof. vm_compute. reflexivity. Qed.

Check C16_roundtrip : forall f : frame, representable f = true -> read_frame (write_frame f) = Ok (Some f).
Check C16_read_total : forall bs : list N, exists r : option frame, read_frame bs = Ok r.
