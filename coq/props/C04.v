(* C04 — fragmentation and reassembly are exact for every packet size. Statements only. *)
From UF Require Import Consts Base Frame Sender Receiver FragmentProofs.

(* the fragments of a payload partition it; all but the last have exactly MAX_FRAGMENT_SIZE bytes *)
Theorem C04_partition :
  forall d : list N,
    concat (map (frag d) (seq 0 (nfrag d))) = d /\
    (forall i, (S i < nfrag d)%nat -> length (frag d i) = N.to_nat MAX_FRAGMENT_SIZE) /\
    (forall i, (length (frag d i) <= N.to_nat MAX_FRAGMENT_SIZE)%nat) /\
    (0 < nfrag d)%nat.
Proof.
  intros d. split; [apply fragments_partition|]. split; [apply frag_length_full|]. split; [apply frag_length_le|apply nfrag_pos].
Qed.
Print Assumptions C04_partition.

(* the datagrams a pending packet hands to the frame emitter are these fragments *)
Theorem C04_datagrams_are_fragments :
  forall p i, pp_last p = N.of_nat (nfrag (pp_data p) - 1) -> (i < nfrag (pp_data p))%nat ->
    dg_data (pp_datagram p (N.of_nat i)) = frag (pp_data p) i.
Proof. exact pp_datagram_data. Qed.

(* a reassembly buffer fed fragments of d in ANY order with ANY repetition returns d once complete *)
Theorem C04_reassembly_any_order :
  forall (d : list N) (order : list nat),
    Forall (fun i => (i < nfrag d)%nat) order ->
    let b := fold_left (feed d) order (fb_new (N.of_nat (nfrag d))) in
    fb_finished b = true -> fb_finalize b = d.
Proof. exact reassembly_any_order. Qed.
Print Assumptions C04_reassembly_any_order.

(* a later write to an index that already holds a fragment (e.g. from a conflicting datagram) changes nothing *)
Theorem C04_first_write_wins :
  forall b i x y, nth_opt (fb_frags b) i = Some (Some x) -> fb_write b i y = b.
Proof. exact fb_write_first_wins. Qed.

(* a full fragment with the largest datagram header, the data frame header and the CRC fits one MTU payload *)
Theorem C04_fragment_fits_frame :
  MAX_FRAGMENT_SIZE + DATAGRAM_HEADER_SIZE_LARGE + 6 + FRAME_CRC_SIZE <= MAX_FRAME_SIZE.
Proof. exact fragment_frame_fits. Qed.

Example C04_three_fragments :
  let d := repeatN 7 3000 in
  nfrag d = 3%nat /\ fb_finished (fold_left (feed d) [2; 0; 2; 1; 0]%nat (fb_new (N.of_nat (nfrag d)))) = true.
Proof. vm_compute. split; reflexivity. Qed.

Check C04_reassembly_any_order : forall (d : list N) (order : list nat),
    Forall (fun i => (i < nfrag d)%nat) order ->
    let b := fold_left (feed d) order (fb_new (N.of_nat (nfrag d))) in
    fb_finished b = true -> fb_finalize b = d.
