(* C20 — send_buffer_size() is exact and returns to zero. Statements only; proofs in proofs/SenderProofs.v.
   send_buffer_size() is PacketSender::total_size (model: s_total), see HalfConn.hc_send_buffer_size. *)
From UF Require Import Consts Base Frame Sender SenderProofs HalfConn HcTotal HcLevel.

(* For every sequence of sender operations (send, emit with any flush id — which includes the
   TimeSensitive drops —, acknowledge with ANY base id, fragment acknowledgements for ANY reference),
   the counter equals the payload bytes still queued plus those in the (unacknowledged) window. *)
Theorem C20_exact :
  forall (w b m : N) (ops : list sender_op),
    w <= MAX_PACKET_WINDOW_SIZE -> b < pow20 ->
    let s := fold_left sender_step ops (sender_new w b m) in
    s_total s = queued_bytes s + window_bytes s.
Proof. intros w b m ops Hw Hb. exact (wf_total _ (sender_reachable_wf w b m ops Hw Hb)). Qed.
Print Assumptions C20_exact.

(* The same for HalfConnection::send_buffer_size() itself: in EVERY state reached by ANY sequence of send /
   receive / step / flush / frame operations — frames with any contents, genuine or forged acknowledgements —
   the value is exactly the payload bytes still queued plus those in the unacknowledged window, and 0 when
   both are empty. *)
Theorem C20_half_connection_exact :
  forall c seed ops, cfg_ok c -> Forall op_ok ops ->
    let h := fold_left hc_apply ops (hc_new c seed) in
    hc_send_buffer_size h = queued_bytes (h_snd h) + window_bytes (h_snd h) /\
    (s_queue (h_snd h) = [] -> s_win (h_snd h) = [] -> hc_send_buffer_size h = 0).
Proof. intros c seed ops Hc Ho h. destruct (hc_send_buffer_exact c seed ops Hc Ho) as (A & B & _). split; assumption. Qed.
Print Assumptions C20_half_connection_exact.

(* ... hence zero once everything has been acknowledged *)
Theorem C20_zero :
  forall (w b m : N) (ops : list sender_op),
    w <= MAX_PACKET_WINDOW_SIZE -> b < pow20 ->
    let s := fold_left sender_step ops (sender_new w b m) in
    s_queue s = [] -> s_win s = [] -> s_total s = 0.
Proof. intros w b m ops Hw Hb s. exact (wf_zero_when_empty s (sender_reachable_wf w b m ops Hw Hb)). Qed.
Print Assumptions C20_zero.

(* it never underflows: the release loop of acknowledge() never runs past the window (no panic), and each
   subtraction made while dropping stale TimeSensitive packets is covered by the running total *)
Theorem C20_acknowledge_total :
  forall (w b m : N) (ops : list sender_op) (id : N),
    w <= MAX_PACKET_WINDOW_SIZE -> b < pow20 ->
    exists s', sender_acknowledge (fold_left sender_step ops (sender_new w b m)) id = Ok s'.
Proof. exact sender_acknowledge_total. Qed.
Print Assumptions C20_acknowledge_total.

Theorem C20_drop_stale_exact :
  forall (q : list send_entry) (fid total extra : N),
    total = sum_N (map (fun e => len (se_data e)) q) + extra ->
    let '(q', total') := drop_stale q fid total in
    total' = sum_N (map (fun e => len (se_data e)) q') + extra /\ (exists pre, q = pre ++ q').
Proof. exact drop_stale_spec. Qed.

(* the half-connection reports exactly this counter *)
Theorem C20_hc_reports_counter : forall h : hc, hc_send_buffer_size h = s_total (h_snd h).
Proof. reflexivity. Qed.

(* non-vacuity: a reachable state with a queued, a window and a released packet *)
Example C20_example :
  let s := fold_left sender_step
             [OpEnqueue [1;2;3] 0 Reliable 0; OpEnqueue [4;5] 1 TimeSensitive 0; OpEnqueue [6] 2 Unreliable 0;
              OpEmit 0; OpEmit 1; OpAcknowledge 11] (sender_new 4 10 10000) in
  (s_total s, queued_bytes s, window_bytes s, s_base s) = (1, 0, 1, 11).
Proof. vm_compute. reflexivity. Qed.

Check C20_exact : forall (w b m : N) (ops : list sender_op), w <= MAX_PACKET_WINDOW_SIZE -> b < pow20 ->
    let s := fold_left sender_step ops (sender_new w b m) in s_total s = queued_bytes s + window_bytes s.
Check C20_zero : forall (w b m : N) (ops : list sender_op), w <= MAX_PACKET_WINDOW_SIZE -> b < pow20 ->
    let s := fold_left sender_step ops (sender_new w b m) in s_queue s = [] -> s_win s = [] -> s_total s = 0.
