(* C19 — heap discipline: matching deallocations, no leaks on teardown. Statements only (LedgerProofs.v).
   What a Gallina model can carry: the allocator contract of the one place where the library used to manage a
   block by hand (FragmentBuffer::finalize), as a ledger of allocator calls. Proved: for every fragment count and
   every total size the ledger of the current code is balanced (every block is released exactly once with the
   layout it has); the pre-repair code (Box::from_raw on a sub-slice) was NOT balanced for any size that is not a
   multiple of the fragment size. Everything else is safe Rust, whose alloc/dealloc pairing is the compiler's
   guarantee; it is OBSERVED, not proved: the harness runs the correspondence streams under a checking global
   allocator (layout recorded at alloc, compared at dealloc; live bytes compared after every case's teardown) and
   the check fails when the set of `unsafe` items in the library changes (partial). *)
From UF Require Import Consts Base Ledger LedgerProofs.

Theorem C19_reassembly_buffer_balanced :
  forall n total, 0 < n -> balanced (fragment_buffer_ledger n total).
Proof. exact fragment_buffer_balanced. Qed.
Print Assumptions C19_reassembly_buffer_balanced.

Theorem C19_before_fix_refuted :
  exists n total, 0 < n /\ total <= n * MAX_FRAGMENT_SIZE /\ ~ balanced (fragment_buffer_ledger_before_fix n total).
Proof. exact fragment_buffer_before_fix_refuted. Qed.

Theorem C19_before_fix_unbalanced :
  forall n total, 0 < n -> total <> n * MAX_FRAGMENT_SIZE -> ~ balanced (fragment_buffer_ledger_before_fix n total).
Proof. exact fragment_buffer_before_fix_unbalanced. Qed.
Print Assumptions C19_before_fix_unbalanced.

Example C19_example : balanced (fragment_buffer_ledger 2 1449) /\ balanced (fragment_buffer_ledger 3 4344) /\ balanced (fragment_buffer_ledger 2 0).
Proof. repeat split; vm_compute; reflexivity. Qed.

Check C19_reassembly_buffer_balanced : forall n total, 0 < n -> balanced (fragment_buffer_ledger n total).
