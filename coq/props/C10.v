(* C10 — timeouts fire after, and only after, the configured silence. Statements only (EndpointProofs.v).
   Proved for the client model: the exact semantics of every timer expiry (handshake resend budget, active
   deadline, closing budget, closed linger), that every frame of the connection handled while established moves
   the deadline a full active_timeout ahead, and that the first deadline counts from the completion of the
   handshake; and over whole histories of a client (TimeoutHistory.v): for every sequence of steps with a
   non-decreasing clock, flushes, sends and disconnect calls, Error(Timeout) is reported (a) from the handshake no
   earlier than 22 s after connect() and after exactly ten resends, (b) from an established connection only if
   every step that brought a data / sync / ack frame — and the step that reported Connect — lies at least
   active_timeout_ms back, the deadline being exactly active_timeout_ms after a step in which a frame from the
   server arrived and a silent step at or past it reporting the timeout, (c) while disconnecting no earlier than
   22 s after the step that first sent the Disconnect request, and (d) in no other phase. Server (ServerTimeouts.v),
   over whole histories: every SYN+ACK resend timer of a pending entry and every Disconnect resend timer of a
   closing entry has, at every moment, at least the remaining part of the 22 s budget ahead of it, counted from the
   step that accepted the connection request / began the disconnect; hence the timer loop gives up on such an
   attempt (the only place that forgets it and reports Error(Timeout)) no earlier than 22 s after it began, and
   never while resends are left. Server, established connections (ServerActive.v), over whole histories: the
   deadline of every active entry equals (server clock of the last step whose input held a handshake-ACK, data, sync
   or ack frame from its address) + active_timeout_ms — the "last heard" clock is determined by the datagrams alone —
   and the timeout pass of step() forgets a listed active entry and reports Error(Timeout) exactly when that deadline
   has been reached, leaving every other entry as it was; every active entry is in the list the pass walks (at the pass
   of every step of every history). The keepalive exchange step by step (Keepalive.v): an idle endpoint with keepalive sends a sync frame when the
   interval has passed, every sync frame handled arms the reply flag, and a flush with the flag armed emits an ack frame.
   Keepalive sufficiency (two endpoints and a network) is decided on the implementation by the timers /
   lifecycle streams with the timeout oracles and through the correspondence under the virtual clock (partial). *)
From UF Require Import Consts Base Frame Codec Sender Heap HalfConn Endpoint EndpointProofs EndpointTotal HandshakeHistory TimeoutHistory ServerGrammar ServerTimeouts ServerActive Keepalive.

Theorem C10_client_timer_semantics :
  forall c a now,
    let r := cl_handle_events c a now in
    match cl_state_ c with
    | ClPending ln rq rt rc sends =>
        (now < rt -> r = (c, a)) /\
        (rt <= now -> 0 < rc -> r = (cl_set c (ClPending ln rq (now + CLIENT_HANDSHAKE_RESEND_INTERVAL_MS) (rc - 1) sends), ca_send a rq)) /\
        (rt <= now -> rc = 0 -> r = (cl_set c ClFin, ca_event a (EvError 0 0)))
    | ClActive _ _ _ _ to _ =>
        (now < to -> r = (c, a)) /\ (to <= now -> r = (cl_set c ClFin, ca_event a (EvError 0 0)))
    | ClClosing rq rt rc =>
        (now < rt -> r = (c, a)) /\
        (rt <= now -> 0 < rc -> r = (cl_set c (ClClosing rq (now + CLIENT_DISCONNECT_RESEND_INTERVAL_MS) (rc - 1)), ca_send a rq)) /\
        (rt <= now -> rc = 0 -> r = (cl_set c ClFin, ca_event a (EvError 0 0)))
    | ClClosed to => (now < to -> r = (c, a)) /\ (to <= now -> r = (cl_set c ClFin, a))
    | ClFin => r = (c, a)
    end.
Proof. exact client_timer_semantics. Qed.
Print Assumptions C10_client_timer_semantics.

Theorem C10_rx_refreshes_deadline :
  forall c a f now vnow ln rn h t0 to d c' a',
    cl_state_ c = ClActive ln rn h t0 to d ->
    (exists s n dgs, f = FData s n dgs) \/ (exists x y, f = FSync x y) \/ (exists x y z, f = FAcks x y z) ->
    cl_handle_frame c a f now vnow = Ok (c', a') ->
    exists h', cl_state_ c' = ClActive ln rn h' t0 (now + ec_active_timeout (cl_ec c)) d /\ a' = a.
Proof. exact client_rx_refreshes_deadline. Qed.

Theorem C10_deadline_counts_from_connect :
  forall c a na n mrr mra now vnow ln rq rt rc sends,
    cl_state_ c = ClPending ln rq rt rc sends -> na = ln ->
    exists h, cl_state_ (fst (cl_handle_syn_ack c a na n mrr mra now vnow)) = ClActive ln n h vnow (now + ec_active_timeout (cl_ec c)) None.
Proof. exact client_deadline_from_connect. Qed.
Print Assumptions C10_deadline_counts_from_connect.

Theorem C10_handshake_budget_constants :
  CLIENT_HANDSHAKE_RESEND_COUNT = 10 /\ CLIENT_HANDSHAKE_RESEND_INTERVAL_MS = 2000 /\
  SERVER_HANDSHAKE_RESEND_COUNT = 10 /\ SERVER_HANDSHAKE_RESEND_INTERVAL_MS = 2000.
Proof. repeat split; reflexivity. Qed.

Check C10_client_timer_semantics.

(* ---------- whole histories of a client (TimeoutHistory.v) ---------- *)
Local Open Scope N_scope.

Theorem C10_client_handshake_timeout_history :
  forall ec nonce t0 seed ops, clock_mono t0 ops ->
  forall vnow inbox c' evs sends, last_clock t0 ops <= vnow ->
    let st := fold_left cl_run_op ops (cl_start ec nonce t0 seed) in
    client_step (fst st) vnow inbox = Ok (c', evs, sends) ->
    forall ln rq rt rc s0, cl_state_ (fst st) = ClPending ln rq rt rc s0 -> In (EvError 0 0) evs -> ~ In (EvConnect 0) evs ->
      22000 <= vnow - t0 /\ sent_total (snd st) = 10 /\ Forall (fun e => ~ In (EvConnect 0) (en_events e)) (snd st).
Proof. intros ec nonce t0 seed ops Hc vnow inbox c' evs sends Hn st. exact (handshake_timeout_history ec nonce t0 seed ops Hc vnow inbox c' evs sends Hn). Qed.
Print Assumptions C10_client_handshake_timeout_history.

Theorem C10_client_active_timeout_history :
  forall ec nonce t0 seed ops, clock_mono t0 ops ->
  forall vnow inbox c' evs sends, last_clock t0 ops <= vnow ->
    let st := fold_left cl_run_op ops (cl_start ec nonce t0 seed) in
    client_step (fst st) vnow inbox = Ok (c', evs, sends) ->
    forall ln rn h t1 to d, cl_state_ (fst st) = ClActive ln rn h t1 to d -> In (EvError 0 0) evs ->
    forall e, In e (snd st ++ [mkEnt (vnow - t0) inbox evs sends (phase c')]) ->
      has_hc (en_inbox e) \/ In (EvConnect 0) (en_events e) -> en_now e + ec_active_timeout ec <= vnow - t0.
Proof. intros ec nonce t0 seed ops Hc vnow inbox c' evs sends Hn st. exact (active_timeout_history ec nonce t0 seed ops Hc vnow inbox c' evs sends Hn). Qed.
Print Assumptions C10_client_active_timeout_history.

Theorem C10_client_active_deadline_exact :
  forall ec nonce t0 seed ops, clock_mono t0 ops ->
  forall vnow inbox c' evs sends, last_clock t0 ops <= vnow ->
    let st := fold_left cl_run_op ops (cl_start ec nonce t0 seed) in
    client_step (fst st) vnow inbox = Ok (c', evs, sends) ->
    forall ln rn h t1 to d, cl_state_ (fst st) = ClActive ln rn h t1 to d ->
    exists e, In e (snd st) /\ to = en_now e + ec_active_timeout ec /\ refreshing ln e /\
              (forall e', In e' (snd st) -> has_hc (en_inbox e') \/ In (EvConnect 0) (en_events e') -> en_now e' <= en_now e) /\
              (inbox = [] -> to <= vnow - t0 -> In (EvError 0 0) evs /\ cl_state_ c' = ClFin).
Proof. intros ec nonce t0 seed ops Hc vnow inbox c' evs sends Hn st. exact (active_deadline_exact ec nonce t0 seed ops Hc vnow inbox c' evs sends Hn). Qed.
Print Assumptions C10_client_active_deadline_exact.

Theorem C10_client_closing_timeout_history :
  forall ec nonce t0 seed ops, clock_mono t0 ops ->
  forall vnow inbox c' evs sends, last_clock t0 ops <= vnow ->
    let st := fold_left cl_run_op ops (cl_start ec nonce t0 seed) in
    client_step (fst st) vnow inbox = Ok (c', evs, sends) ->
    forall rq rt rc, cl_state_ (fst st) = ClClosing rq rt rc -> In (EvError 0 0) evs ->
    exists e, first_closing (snd st) = Some e /\ In write_disconnect (en_sends e) /\ en_now e + 22000 <= vnow - t0.
Proof. intros ec nonce t0 seed ops Hc vnow inbox c' evs sends Hn st. exact (closing_timeout_history ec nonce t0 seed ops Hc vnow inbox c' evs sends Hn). Qed.
Print Assumptions C10_client_closing_timeout_history.

Theorem C10_client_no_other_timeout :
  forall ec nonce t0 seed ops vnow inbox c' evs sends,
    let st := fold_left cl_run_op ops (cl_start ec nonce t0 seed) in
    client_step (fst st) vnow inbox = Ok (c', evs, sends) -> In (EvError 0 0) evs -> phase (fst st) <= 2.
Proof. intros ec nonce t0 seed ops vnow inbox c' evs sends st. exact (no_other_timeout ec nonce t0 seed ops vnow inbox c' evs sends). Qed.

(* non-vacuity: concrete histories in which each kind of timeout is reported *)
Definition ex_ec := mkEpConfig 2000000 2000000 1000000 1000000 false 0 3000.
Definition ex_silence := map (fun k => ClStep (100 + 2000 * k) []) [1; 2; 3; 4; 5; 6; 7; 8; 9; 10].

Example C10_handshake_timeout_happens :
  let st := fold_left cl_run_op ex_silence (cl_start ex_ec 5 100 1) in
  clock_mono 100 ex_silence /\ phase (fst st) = 0 /\
  match client_step (fst st) 22100 [] with Ok (_, evs, _) => evs = [EvError 0 0] | _ => False end.
Proof. vm_compute. intuition discriminate. Qed.

Definition ex_synack := write_handshake_syn_ack 5 7 2000000 1000000 1000000.
Definition ex_connected := [ClStep 150 [ex_synack]; ClStep 1000 []].

Example C10_active_timeout_happens :
  let st := fold_left cl_run_op ex_connected (cl_start ex_ec 5 100 1) in
  clock_mono 100 ex_connected /\ phase (fst st) = 1 /\
  match client_step (fst st) 3150 [] with Ok (c', evs, _) => In (EvError 0 0) evs /\ phase c' = 4 | _ => False end /\
  match client_step (fst st) 3149 [] with Ok (c', evs, _) => ~ In (EvError 0 0) evs /\ phase c' = 1 | _ => False end.
Proof. vm_compute. intuition discriminate. Qed.

Definition ex_closing := [ClStep 150 [ex_synack]; ClDisconnect true; ClStep 1000 []] ++ map (fun k => ClStep (1000 + 2000 * k) []) [1; 2; 3; 4; 5; 6; 7; 8; 9; 10].

Example C10_closing_timeout_happens :
  let st := fold_left cl_run_op ex_closing (cl_start ex_ec 5 100 1) in
  clock_mono 100 ex_closing /\ phase (fst st) = 2 /\
  match client_step (fst st) 23000 [] with Ok (c', evs, _) => evs = [EvError 0 0] | _ => False end /\
  match client_step (fst st) 22999 [] with Ok (c', evs, _) => evs = [] | _ => False end.
Proof. vm_compute. intuition discriminate. Qed.


(* ---------- server: handshake and disconnect attempts over whole histories (ServerTimeouts.v) ---------- *)
Theorem C10_server_timer_budget :
  forall cfg t0 seed ops,
  let st := fold_left tstep ops (server_new cfg t0 seed, (fun _ => 0, fun _ => 0)) in
  fst st = fold_left sv_apply ops (server_new cfg t0 seed) /\
  forall e, In e (sv_events (fst st)) ->
    let o := so_state (sv_obj_get (fst st) (rq_uid e)) in
    rq_uid e < len (sv_objs (fst st)) /\
    (rq_frag e = 0 -> is_pending o = true ->
       fst (snd st) (rq_uid e) + 22000 <= rq_time e + 2000 * rq_count e) /\
    (rq_frag e = 1 -> 2 <= rank o /\
       (o = SvClosing -> snd (snd st) (rq_uid e) + 22000 <= rq_time e + 2000 * rq_count e)).
Proof. exact server_timer_budget. Qed.
Print Assumptions C10_server_timer_budget.

Theorem C10_server_give_up_after_budget :
  forall s G ev now, okb s G ev = true -> rq_time ev <= now -> rq_count ev = 0 ->
  (forall ln rn mrr mra reply, so_state (sv_obj_get s (rq_uid ev)) = SvPending ln rn mrr mra reply -> rq_frag ev = 0 ->
     fst G (rq_uid ev) + 22000 <= now) /\
  (so_state (sv_obj_get s (rq_uid ev)) = SvClosing -> rq_frag ev = 1 -> snd G (rq_uid ev) + 22000 <= now).
Proof. exact server_give_up_after_budget. Qed.

Theorem C10_server_no_give_up_with_resends_left :
  forall s a ev now, 0 < rq_count ev ->
  is_pending (so_state (sv_obj_get s (rq_uid ev))) = true \/ so_state (sv_obj_get s (rq_uid ev)) = SvClosing ->
  so_state (sv_obj_get (fst (sv_handle_event s a ev now)) (rq_uid ev)) = so_state (sv_obj_get s (rq_uid ev)) /\
  ac_events (snd (sv_handle_event s a ev now)) = ac_events a.
Proof. exact server_no_give_up_with_resends_left. Qed.

(* non-vacuity: a SYN is accepted at server time 50; after ten resends the entry is still pending at 20050 with a
   timer that expires at 22050 — exactly 22 s after the request — and is given up at the first step past it *)
Definition ex_scfg := mkSvConfig 4096 32 true ex_ec.
Definition ex_syn := write_handshake_syn PROTOCOL_VERSION 9 2000000 1000000 1000000.
Definition ex_sops : list sv_op :=
  SvStep 1050 [(7, ex_syn)] [77] :: map (fun k => SvStep (1050 + 2000 * k) [] []) [1; 2; 3; 4; 5; 6; 7; 8; 9; 10].
Example C10_server_handshake_run :
  let st := fold_left tstep ex_sops (server_new ex_scfg 1000 1, (fun _ => 0, fun _ => 0)) in
  fst (snd st) 0 = 50 /\ map (fun e => (rq_uid e, rq_frag e, rq_time e, rq_count e)) (sv_events (fst st)) = [(0, 0, 22050, 0)] /\
  match server_step (fst st) 23049 [] [] with Ok (_, evs, _, _) => evs = [] | _ => False end /\
  match server_step (fst st) 23050 [] [] with Ok (s', evs, _, _) => evs = [EvError 7 0] /\ sv_events s' = [] | _ => False end.
Proof. vm_compute. intuition discriminate. Qed.

(* ---------- server: established connections over whole histories (ServerActive.v) ---------- *)
Theorem C10_server_active_deadline_history :
  forall cfg t0 seed ops,
  let st := fold_left astep ops (server_new cfg t0 seed, fun _ => 0) in
  fst st = fold_left sv_apply ops (server_new cfg t0 seed) /\
  forall id h c0 to d, so_state (sv_obj_get (fst st) id) = SvActive h c0 to d ->
    to = snd st (so_addr (sv_obj_get (fst st) id)) + ec_active_timeout (svc_ec cfg).
Proof. exact server_active_deadline_history. Qed.
Print Assumptions C10_server_active_deadline_history.

(* the ghost of a step: an address was heard iff one of its datagrams parses to a refreshing frame *)
Theorem C10_server_last_heard :
  forall now inbox LA addr, la_frames inbox LA now addr = if heard inbox addr then now else LA addr.
Proof. exact la_frames_closed. Qed.

Theorem C10_server_active_timeout_rule :
  forall s LA ids a now, AInv s LA ->
  let r := sv_active_timeouts ids s a now in
  (forall j h c0 to d, so_state (sv_obj_get s j) = SvActive h c0 to d ->
     let addr := so_addr (sv_obj_get s j) in
     (now < LA addr + ato s -> so_state (sv_obj_get (fst r) j) = SvActive h c0 to d) /\
     (In j ids -> LA addr + ato s <= now ->
        so_state (sv_obj_get (fst r) j) = SvFin /\ In (EvError addr 0) (ac_events (snd r)))) /\
  (exists evs, ac_events (snd r) = ac_events a ++ evs /\
     forall ad k, In (EvError ad k) evs ->
       k = 0 /\ LA ad + ato s <= now /\ exists j, In j ids /\ so_addr (sv_obj_get s j) = ad /\ deadline_of (so_state (sv_obj_get s j)) <> None).
Proof. exact server_active_timeout_rule. Qed.
Print Assumptions C10_server_active_timeout_rule.

(* every established entry is in the list the timeout pass walks, in every reachable state *)
Theorem C10_server_active_listed_history :
  forall cfg t0 seed ops id,
  let s := fold_left sv_apply ops (server_new cfg t0 seed) in sv_is_active s id = true -> In id (sv_active s).
Proof. exact server_active_listed_history. Qed.
Print Assumptions C10_server_active_listed_history.

(* the state the timeout pass of a step runs on satisfies the invariants (with the ghost of this step's input), the
   pass walks the active list of that state, what is active after the step was active after the pass with the same
   deadline, and the step's events begin with those accumulated up to and including the pass *)
Theorem C10_server_step_pass :
  forall s LA vnow inbox nonces s' evs sends rest,
  WF s -> AInv s LA -> AL s -> server_step s vnow inbox nonces = Ok (s', evs, sends, rest) ->
  let now := vnow - sv_t0 s in
  exists s3 a3, WF s3 /\ AInv s3 (la_frames inbox LA now) /\ AL s3 /\ ato s3 = ato s /\
    let r4 := sv_active_timeouts (sv_active s3) s3 a3 now in
    KD (fst r4) s' /\ (exists tl, evs = ac_events (snd r4) ++ tl) /\ AL s'.
Proof. exact server_step_pass. Qed.

(* a whole step: what is established at the pass and has been silent for active_timeout_ms (this step's input
   included) is reported among the step's events and not established afterwards; what is still established after
   the step heard its peer less than active_timeout_ms ago *)
Theorem C10_server_step_active_timeout :
  forall s LA vnow inbox nonces s' evs sends rest,
  WF s -> AInv s LA -> AL s -> server_step s vnow inbox nonces = Ok (s', evs, sends, rest) ->
  let now := vnow - sv_t0 s in
  let LA' := la_frames inbox LA now in
  exists s3, AInv s3 LA' /\ AL s3 /\
    forall j, sv_is_active s3 j = true ->
      let addr := so_addr (sv_obj_get s3 j) in
      (LA' addr + ato s <= now -> In (EvError addr 0) evs /\ sv_is_active s' j = false) /\
      (sv_is_active s' j = true -> now < LA' addr + ato s).
Proof. exact server_step_active_timeout. Qed.
Print Assumptions C10_server_step_active_timeout.

(* non-vacuity (active_timeout_ms = 3000): SYN at server clock 50, ACK at 100, a silent step at 1000, a sync frame
   at 2500: last heard 2500, deadline 5500; the step at 5499 reports nothing, the step at 5500 reports the timeout *)
Definition ex_aops : list sv_op :=
  [SvStep 1050 [(7, ex_syn)] [77]; SvStep 1100 [(7, write_handshake_ack 77)] []; SvStep 2000 [] []; SvStep 3500 [(7, write_sync None None)] []].
Example C10_server_active_run :
  let st := fold_left astep ex_aops (server_new ex_scfg 1000 1, fun _ => 0) in
  snd st 7 = 2500 /\ map (fun o => deadline_of (so_state o)) (sv_objs (fst st)) = [Some 5500] /\ sv_active (fst st) = [0] /\
  match server_step (fst st) 6499 [] [] with Ok (_, evs, _, _) => evs = [] | _ => False end /\
  match server_step (fst st) 6500 [] [] with Ok (s', evs, _, _) => evs = [EvError 7 0] /\ sv_active s' = [] | _ => False end.
Proof. vm_compute. intuition discriminate. Qed.

(* ---------- keepalive, per endpoint (Keepalive.v) ---------- *)
(* with keepalive enabled an idle endpoint sends a sync frame once the interval (and the sync timeout) has passed *)
Theorem C10_keepalive_due :
  forall h out k,
  h_keepalive h = Some k -> N.max (h_rto h) MIN_SYNC_TIMEOUT_MS <= h_now h - h_sync_base h -> k <= h_now h - h_sync_base h ->
  (0 <= h_credit h)%Z ->
  exists bytes, emit_sync_frame h out =
    (set_sync_base (set_credit h (h_credit h - Z.of_N (len bytes))%Z) (h_now h), out ++ [bytes], true) /\
    exists nf np, bytes = write_sync nf np.
Proof. exact keepalive_due. Qed.

(* every sync frame handled arms the reply flag ... *)
Theorem C10_sync_arms_reply : forall h nf np, h_sync_reply (hc_handle_sync_frame h nf np) = true.
Proof. exact sync_arms_reply. Qed.

(* ... and a flush with the flag armed and non-negative credit emits at least one ack frame, whatever there is to acknowledge *)
Theorem C10_reply_emits_ack :
  forall h out h' out' ok, emit_ack_frames h out = Ok (h', out', ok) -> h_sync_reply h = true -> (0 <= h_credit h)%Z ->
  (length out < length out')%nat.
Proof. exact reply_emits_ack. Qed.
Print Assumptions C10_reply_emits_ack.

Check C10_client_handshake_timeout_history.
Check C10_server_timer_budget.
Check C10_client_active_timeout_history.
Check C10_client_active_deadline_exact.
Check C10_client_closing_timeout_history.
Check C10_server_active_deadline_history.
Check C10_server_active_timeout_rule.
Check C10_server_active_listed_history.
Check C10_server_step_pass.
Check C10_server_step_active_timeout.
