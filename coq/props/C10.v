(* C10 — timeouts fire after, and only after, the configured silence. Statements only (EndpointProofs.v).
   Proved for the client model: the exact semantics of every timer expiry (handshake resend budget, active
   deadline, closing budget, closed linger), that every frame of the connection handled while established moves
   the deadline a full active_timeout ahead, and that the first deadline counts from the completion of the
   handshake; and over whole histories of a client (TimeoutHistory.v): for every sequence of steps with a
   non-decreasing clock, flushes, sends and disconnect calls, Error(Timeout) is reported (a) from the handshake no
   earlier than 22 s after connect() and after exactly ten resends, (b) from an established connection only if
   every step that brought a data / sync / ack frame — and the step that reported Connect — lies at least
   active_timeout_ms back, the deadline being exactly active_timeout_ms after a step in which a frame from the
   server arrived and a silent step at or past it reporting the timeout, (c) while disconnecting no earlier than
   22 s after the step that first sent the Disconnect request, and (d) in no other phase. The server's timers and
   keepalive sufficiency over whole histories are decided on the implementation by the timers / lifecycle streams
   with the timeout oracle and through the correspondence under the virtual clock (partial). *)
From UF Require Import Consts Base Frame Codec Sender HalfConn Endpoint EndpointProofs EndpointTotal HandshakeHistory TimeoutHistory.

Theorem C10_client_timer_semantics :
  forall c a now,
    let r := cl_handle_events c a now in
    match cl_state_ c with
    | ClPending ln rq rt rc sends =>
        (now < rt -> r = (c, a)) /\
        (rt <= now -> 0 < rc -> r = (cl_set c (ClPending ln rq (now + CLIENT_HANDSHAKE_RESEND_INTERVAL_MS) (rc - 1) sends), ca_send a rq)) /\
        (rt <= now -> rc = 0 -> r = (cl_set c ClFin, ca_event a (EvError 0 0)))
    | ClActive _ _ _ _ to _ =>
        (now < to -> r = (c, a)) /\ (to <= now -> r = (cl_set c ClFin, ca_event a (EvError 0 0)))
    | ClClosing rq rt rc =>
        (now < rt -> r = (c, a)) /\
        (rt <= now -> 0 < rc -> r = (cl_set c (ClClosing rq (now + CLIENT_DISCONNECT_RESEND_INTERVAL_MS) (rc - 1)), ca_send a rq)) /\
        (rt <= now -> rc = 0 -> r = (cl_set c ClFin, ca_event a (EvError 0 0)))
    | ClClosed to => (now < to -> r = (c, a)) /\ (to <= now -> r = (cl_set c ClFin, a))
    | ClFin => r = (c, a)
    end.
Proof. exact client_timer_semantics. Qed.
Print Assumptions C10_client_timer_semantics.

Theorem C10_rx_refreshes_deadline :
  forall c a f now vnow ln rn h t0 to d c' a',
    cl_state_ c = ClActive ln rn h t0 to d ->
    (exists s n dgs, f = FData s n dgs) \/ (exists x y, f = FSync x y) \/ (exists x y z, f = FAcks x y z) ->
    cl_handle_frame c a f now vnow = Ok (c', a') ->
    exists h', cl_state_ c' = ClActive ln rn h' t0 (now + ec_active_timeout (cl_ec c)) d /\ a' = a.
Proof. exact client_rx_refreshes_deadline. Qed.

Theorem C10_deadline_counts_from_connect :
  forall c a na n mrr mra now vnow ln rq rt rc sends,
    cl_state_ c = ClPending ln rq rt rc sends -> na = ln ->
    exists h, cl_state_ (fst (cl_handle_syn_ack c a na n mrr mra now vnow)) = ClActive ln n h vnow (now + ec_active_timeout (cl_ec c)) None.
Proof. exact client_deadline_from_connect. Qed.
Print Assumptions C10_deadline_counts_from_connect.

Theorem C10_handshake_budget_constants :
  CLIENT_HANDSHAKE_RESEND_COUNT = 10 /\ CLIENT_HANDSHAKE_RESEND_INTERVAL_MS = 2000 /\
  SERVER_HANDSHAKE_RESEND_COUNT = 10 /\ SERVER_HANDSHAKE_RESEND_INTERVAL_MS = 2000.
Proof. repeat split; reflexivity. Qed.

Check C10_client_timer_semantics.

(* ---------- whole histories of a client (TimeoutHistory.v) ---------- *)
Local Open Scope N_scope.

Theorem C10_client_handshake_timeout_history :
  forall ec nonce t0 seed ops, clock_mono t0 ops ->
  forall vnow inbox c' evs sends, last_clock t0 ops <= vnow ->
    let st := fold_left cl_run_op ops (cl_start ec nonce t0 seed) in
    client_step (fst st) vnow inbox = Ok (c', evs, sends) ->
    forall ln rq rt rc s0, cl_state_ (fst st) = ClPending ln rq rt rc s0 -> In (EvError 0 0) evs -> ~ In (EvConnect 0) evs ->
      22000 <= vnow - t0 /\ sent_total (snd st) = 10 /\ Forall (fun e => ~ In (EvConnect 0) (en_events e)) (snd st).
Proof. intros ec nonce t0 seed ops Hc vnow inbox c' evs sends Hn st. exact (handshake_timeout_history ec nonce t0 seed ops Hc vnow inbox c' evs sends Hn). Qed.
Print Assumptions C10_client_handshake_timeout_history.

Theorem C10_client_active_timeout_history :
  forall ec nonce t0 seed ops, clock_mono t0 ops ->
  forall vnow inbox c' evs sends, last_clock t0 ops <= vnow ->
    let st := fold_left cl_run_op ops (cl_start ec nonce t0 seed) in
    client_step (fst st) vnow inbox = Ok (c', evs, sends) ->
    forall ln rn h t1 to d, cl_state_ (fst st) = ClActive ln rn h t1 to d -> In (EvError 0 0) evs ->
    forall e, In e (snd st ++ [mkEnt (vnow - t0) inbox evs sends (phase c')]) ->
      has_hc (en_inbox e) \/ In (EvConnect 0) (en_events e) -> en_now e + ec_active_timeout ec <= vnow - t0.
Proof. intros ec nonce t0 seed ops Hc vnow inbox c' evs sends Hn st. exact (active_timeout_history ec nonce t0 seed ops Hc vnow inbox c' evs sends Hn). Qed.
Print Assumptions C10_client_active_timeout_history.

Theorem C10_client_active_deadline_exact :
  forall ec nonce t0 seed ops, clock_mono t0 ops ->
  forall vnow inbox c' evs sends, last_clock t0 ops <= vnow ->
    let st := fold_left cl_run_op ops (cl_start ec nonce t0 seed) in
    client_step (fst st) vnow inbox = Ok (c', evs, sends) ->
    forall ln rn h t1 to d, cl_state_ (fst st) = ClActive ln rn h t1 to d ->
    exists e, In e (snd st) /\ to = en_now e + ec_active_timeout ec /\ refreshing ln e /\
              (forall e', In e' (snd st) -> has_hc (en_inbox e') \/ In (EvConnect 0) (en_events e') -> en_now e' <= en_now e) /\
              (inbox = [] -> to <= vnow - t0 -> In (EvError 0 0) evs /\ cl_state_ c' = ClFin).
Proof. intros ec nonce t0 seed ops Hc vnow inbox c' evs sends Hn st. exact (active_deadline_exact ec nonce t0 seed ops Hc vnow inbox c' evs sends Hn). Qed.
Print Assumptions C10_client_active_deadline_exact.

Theorem C10_client_closing_timeout_history :
  forall ec nonce t0 seed ops, clock_mono t0 ops ->
  forall vnow inbox c' evs sends, last_clock t0 ops <= vnow ->
    let st := fold_left cl_run_op ops (cl_start ec nonce t0 seed) in
    client_step (fst st) vnow inbox = Ok (c', evs, sends) ->
    forall rq rt rc, cl_state_ (fst st) = ClClosing rq rt rc -> In (EvError 0 0) evs ->
    exists e, first_closing (snd st) = Some e /\ In write_disconnect (en_sends e) /\ en_now e + 22000 <= vnow - t0.
Proof. intros ec nonce t0 seed ops Hc vnow inbox c' evs sends Hn st. exact (closing_timeout_history ec nonce t0 seed ops Hc vnow inbox c' evs sends Hn). Qed.
Print Assumptions C10_client_closing_timeout_history.

Theorem C10_client_no_other_timeout :
  forall ec nonce t0 seed ops vnow inbox c' evs sends,
    let st := fold_left cl_run_op ops (cl_start ec nonce t0 seed) in
    client_step (fst st) vnow inbox = Ok (c', evs, sends) -> In (EvError 0 0) evs -> phase (fst st) <= 2.
Proof. intros ec nonce t0 seed ops vnow inbox c' evs sends st. exact (no_other_timeout ec nonce t0 seed ops vnow inbox c' evs sends). Qed.

(* non-vacuity: concrete histories in which each kind of timeout is reported *)
Definition ex_ec := mkEpConfig 2000000 2000000 1000000 1000000 false 0 3000.
Definition ex_silence := map (fun k => ClStep (100 + 2000 * k) []) [1; 2; 3; 4; 5; 6; 7; 8; 9; 10].

Example C10_handshake_timeout_happens :
  let st := fold_left cl_run_op ex_silence (cl_start ex_ec 5 100 1) in
  clock_mono 100 ex_silence /\ phase (fst st) = 0 /\
  match client_step (fst st) 22100 [] with Ok (_, evs, _) => evs = [EvError 0 0] | _ => False end.
Proof. vm_compute. intuition discriminate. Qed.

Definition ex_synack := write_handshake_syn_ack 5 7 2000000 1000000 1000000.
Definition ex_connected := [ClStep 150 [ex_synack]; ClStep 1000 []].

Example C10_active_timeout_happens :
  let st := fold_left cl_run_op ex_connected (cl_start ex_ec 5 100 1) in
  clock_mono 100 ex_connected /\ phase (fst st) = 1 /\
  match client_step (fst st) 3150 [] with Ok (c', evs, _) => In (EvError 0 0) evs /\ phase c' = 4 | _ => False end /\
  match client_step (fst st) 3149 [] with Ok (c', evs, _) => ~ In (EvError 0 0) evs /\ phase c' = 1 | _ => False end.
Proof. vm_compute. intuition discriminate. Qed.

Definition ex_closing := [ClStep 150 [ex_synack]; ClDisconnect true; ClStep 1000 []] ++ map (fun k => ClStep (1000 + 2000 * k) []) [1; 2; 3; 4; 5; 6; 7; 8; 9; 10].

Example C10_closing_timeout_happens :
  let st := fold_left cl_run_op ex_closing (cl_start ex_ec 5 100 1) in
  clock_mono 100 ex_closing /\ phase (fst st) = 2 /\
  match client_step (fst st) 23000 [] with Ok (c', evs, _) => evs = [EvError 0 0] | _ => False end /\
  match client_step (fst st) 22999 [] with Ok (c', evs, _) => evs = [] | _ => False end.
Proof. vm_compute. intuition discriminate. Qed.

Check C10_client_handshake_timeout_history.
Check C10_client_active_timeout_history.
Check C10_client_active_deadline_exact.
Check C10_client_closing_timeout_history.
