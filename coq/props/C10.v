(* C10 — timeouts fire after, and only after, the configured silence. Statements only (EndpointProofs.v).
   Proved for the client model: the exact semantics of every timer expiry (handshake resend budget, active
   deadline, closing budget, closed linger), that every frame of the connection handled while established moves
   the deadline a full active_timeout ahead, and that the first deadline counts from the completion of the
   handshake. The server's timers, keepalive sufficiency and "reported within one step" over whole histories are
   decided on the implementation by the timers / lifecycle streams with the timeout oracle and through the
   correspondence under the virtual clock (partial). *)
From UF Require Import Consts Base Frame Sender HalfConn Endpoint EndpointProofs.

Theorem C10_client_timer_semantics :
  forall c a now,
    let r := cl_handle_events c a now in
    match cl_state_ c with
    | ClPending ln rq rt rc sends =>
        (now < rt -> r = (c, a)) /\
        (rt <= now -> 0 < rc -> r = (cl_set c (ClPending ln rq (now + CLIENT_HANDSHAKE_RESEND_INTERVAL_MS) (rc - 1) sends), ca_send a rq)) /\
        (rt <= now -> rc = 0 -> r = (cl_set c ClFin, ca_event a (EvError 0 0)))
    | ClActive _ _ _ _ to _ =>
        (now < to -> r = (c, a)) /\ (to <= now -> r = (cl_set c ClFin, ca_event a (EvError 0 0)))
    | ClClosing rq rt rc =>
        (now < rt -> r = (c, a)) /\
        (rt <= now -> 0 < rc -> r = (cl_set c (ClClosing rq (now + CLIENT_DISCONNECT_RESEND_INTERVAL_MS) (rc - 1)), ca_send a rq)) /\
        (rt <= now -> rc = 0 -> r = (cl_set c ClFin, ca_event a (EvError 0 0)))
    | ClClosed to => (now < to -> r = (c, a)) /\ (to <= now -> r = (cl_set c ClFin, a))
    | ClFin => r = (c, a)
    end.
Proof. exact client_timer_semantics. Qed.
Print Assumptions C10_client_timer_semantics.

Theorem C10_rx_refreshes_deadline :
  forall c a f now vnow ln rn h t0 to d c' a',
    cl_state_ c = ClActive ln rn h t0 to d ->
    (exists s n dgs, f = FData s n dgs) \/ (exists x y, f = FSync x y) \/ (exists x y z, f = FAcks x y z) ->
    cl_handle_frame c a f now vnow = Ok (c', a') ->
    exists h', cl_state_ c' = ClActive ln rn h' t0 (now + ec_active_timeout (cl_ec c)) d /\ a' = a.
Proof. exact client_rx_refreshes_deadline. Qed.

Theorem C10_deadline_counts_from_connect :
  forall c a na n mrr mra now vnow ln rq rt rc sends,
    cl_state_ c = ClPending ln rq rt rc sends -> na = ln ->
    exists h, cl_state_ (fst (cl_handle_syn_ack c a na n mrr mra now vnow)) = ClActive ln n h vnow (now + ec_active_timeout (cl_ec c)) None.
Proof. exact client_deadline_from_connect. Qed.
Print Assumptions C10_deadline_counts_from_connect.

Theorem C10_handshake_budget_constants :
  CLIENT_HANDSHAKE_RESEND_COUNT = 10 /\ CLIENT_HANDSHAKE_RESEND_INTERVAL_MS = 2000 /\
  SERVER_HANDSHAKE_RESEND_COUNT = 10 /\ SERVER_HANDSHAKE_RESEND_INTERVAL_MS = 2000.
Proof. repeat split; reflexivity. Qed.

Check C10_client_timer_semantics.
