(* C05 — ideal network: every packet delivered, global order preserved. Statements only.
   Proved: the two order-producing mechanisms (consecutive sender ids in submission order; the receive scan
   delivers in increasing id order and each slot at most once) and exact payload transport. The end-to-end
   equality of the delivered and the submitted sequence on an ideal network is decided on the implementation by
   the ideal stream with the global-order and completion oracles (partial). *)
From UF Require Import Consts Base Frame Sender Receiver HalfConn HcLemmas FragmentProofs.

Theorem C05_ids_follow_submission_order :
  forall s fid s' uid resend,
    sender_emit_packet s fid = (s', Some (uid, resend)) ->
    s_next s' = pid_add (s_next s) 1 /\ uid = s_base_uid s + len (s_win s) /\
    exists e q', fst (drop_stale (s_queue s) fid (s_total s)) = e :: q' /\ s_queue s' = q'.
Proof.
  intros s fid s' uid resend H. destruct (emit_packet_spec _ _ _ _ _ H) as [e [q' [A [B [C [D _]]]]]].
  split; [exact D|]. split; [exact C|]. eauto.
Qed.

(* only stale TimeSensitive packets are ever removed from the send queue without being transmitted *)
Theorem C05_only_stale_time_sensitive_dropped :
  forall q fid total,
    match fst (drop_stale q fid total) with
    | e :: _ => se_mode e = TimeSensitive -> se_flush e = fid
    | [] => True
    end.
Proof. exact drop_stale_head. Qed.

Theorem C05_payload_partition : forall d, concat (map (frag d) (seq 0 (nfrag d))) = d.
Proof. exact fragments_partition. Qed.
Print Assumptions C05_payload_partition.

Check C05_ids_follow_submission_order.
