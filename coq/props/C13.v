(* C13 — the wire rate never exceeds the negotiated ceiling. Statements only.
   Proved: X <= ceiling in every reachable rate-controller state (from C14), a frame of any kind is only
   started with non-negative credit, and step() caps the credit at round(X * rtt). The real-valued bound
   bytes <= ceiling * (interval + rtt) + one frame is checked on the implementation's frames with the
   virtual clock by the oracle; it is not derived here through the float arithmetic (partial). *)
From UF Require Import Consts Base Frame F64 FrameQueue SendRate HalfConn HcLemmas SendRateProofs.

Theorem C13_rate_le_ceiling :
  forall m ops, MSS <= m -> sr_rate (fold_left rate_step ops (src_new m)) <= m.
Proof.
  intros m ops Hm. destruct (rate_reachable_inv m ops Hm) as [Hi He].
  rewrite <- He at 2. exact (si_ceiling _ Hi).
Qed.
Print Assumptions C13_rate_le_ceiling.

Theorem C13_data_frame_needs_credit :
  forall e dg ref resend e', dfe_push_new e dg ref resend = (e', None) -> (0 <= h_credit (es_h e))%Z.
Proof. exact dfe_push_new_needs_credit. Qed.

Theorem C13_ack_frame_needs_credit :
  forall a g a', afe_push_new a g = (a', true) -> (0 <= h_credit (as_h a))%Z.
Proof. exact afe_push_new_needs_credit. Qed.

Theorem C13_sync_frame_needs_credit :
  forall h out h' out' ok, emit_sync_frame h out = (h', out', ok) -> out' <> out -> (0 <= h_credit h)%Z.
Proof. exact emit_sync_needs_credit. Qed.

Theorem C13_credit_capped_by_rate_times_rtt :
  forall h now t, h_last_flushed h = Some t ->
    (hc_fill_flush_alloc h now <=
     f_round_to_isize (PrimFloat.mul (f_of_N (sr_rate (h_src h))) (opt_default f0 (sr_rtt_s (h_src h)))))%Z.
Proof. exact fill_flush_alloc_capped. Qed.
Print Assumptions C13_credit_capped_by_rate_times_rtt.

Theorem C13_frame_length :
  forall seq nonce enc count, len (Codec.build_data_frame seq nonce enc count) = 6 + len enc + 4.
Proof. exact build_data_frame_len. Qed.

Check C13_rate_le_ceiling : forall m ops, MSS <= m -> sr_rate (fold_left rate_step ops (src_new m)) <= m.
