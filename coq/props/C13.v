(* C13 — the wire rate never exceeds the negotiated ceiling. Statements only.
   Proved: X <= ceiling in every reachable rate-controller state (from C14), a frame of any kind is only
   started with non-negative credit, step() caps the credit at round(X * rtt) and adds floor(X*t') - floor(X*t)
   (independent of the step schedule, D20), over whole histories bytes emitted = initial credit + step gains - credit
   (CreditLedger.v: no other operation moves the credit or emits bytes), and for a whole flush() of the
   HalfConnection (ack, data and sync frames, all loops): credit' = credit - bytes emitted exactly, nothing is
   emitted on a negative credit, and all frames but the last fit in the credit (HcCredit.v). The real-valued bound
   bytes <= ceiling * (interval + rtt) + one frame is checked on the implementation's frames with the
   virtual clock by the oracle; it is not derived here through the float arithmetic (partial). *)
From UF Require Import Consts Base Frame F64 Sender FrameQueue SendRate HalfConn HcLemmas SendRateProofs HcTotal HcCredit CreditLedger RateAtHc.

Theorem C13_rate_le_ceiling :
  forall m ops, MSS <= m -> sr_rate (fold_left rate_step ops (src_new m)) <= m.
Proof.
  intros m ops Hm. destruct (rate_reachable_inv m ops Hm) as [Hi He].
  rewrite <- He at 2. exact (si_ceiling _ Hi).
Qed.
Print Assumptions C13_rate_le_ceiling.

Theorem C13_data_frame_needs_credit :
  forall e dg ref resend e', dfe_push_new e dg ref resend = (e', None) -> (0 <= h_credit (es_h e))%Z.
Proof. exact dfe_push_new_needs_credit. Qed.

Theorem C13_ack_frame_needs_credit :
  forall a g a', afe_push_new a g = (a', true) -> (0 <= h_credit (as_h a))%Z.
Proof. exact afe_push_new_needs_credit. Qed.

Theorem C13_sync_frame_needs_credit :
  forall h out h' out' ok, emit_sync_frame h out = (h', out', ok) -> out' <> out -> (0 <= h_credit h)%Z.
Proof. exact emit_sync_needs_credit. Qed.

Theorem C13_credit_capped_by_rate_times_rtt :
  forall h now t, h_last_flushed h = Some t ->
    (hc_fill_flush_alloc h now <=
     f_round_to_isize (PrimFloat.mul (f_of_N (sr_rate (h_src h))) (opt_default f0 (sr_rtt_s (h_src h)))))%Z.
Proof. exact fill_flush_alloc_capped. Qed.
Print Assumptions C13_credit_capped_by_rate_times_rtt.

Theorem C13_credit_gain_is_refill :
  forall h now t, h_last_flushed h = Some t ->
    (hc_fill_flush_alloc h now <= sat_add_isize (h_credit h) (refill (sr_rate (h_src h)) t now))%Z.
Proof. exact fill_flush_alloc_gain. Qed.

(* the credit gained over any schedule of steps at one rate equals the gain of one step over the whole interval *)
Theorem C13_refill_schedule_independent :
  forall rate ts t0, refills rate t0 ts = refill rate t0 (last ts t0).
Proof. exact refills_telescope. Qed.
Print Assumptions C13_refill_schedule_independent.

Example C13_refill_1750_per_ms :
  refills 1750 0 (map N.of_nat (seq 1 2000)) = 3500%Z /\ refill 1750 0 2000 = 3500%Z /\ refill 1472 5000 5000 = 0%Z.
Proof. vm_compute. repeat split. Qed.

(* a whole flush: every emitted byte is charged, and frames only start while the credit is non-negative *)
Theorem C13_flush_charges_every_byte :
  forall h h' out, hc_flush h = Ok (h', out) ->
    (h_credit h' = h_credit h - bytes_of out)%Z /\ lastfit (h_credit h') out.
Proof. exact hc_flush_credit. Qed.
Print Assumptions C13_flush_charges_every_byte.

Theorem C13_flush_within_credit :
  forall h h' out, hc_flush h = Ok (h', out) ->
    ((h_credit h < 0)%Z -> out = []) /\
    (forall pre l, out = pre ++ [l] -> (bytes_of pre <= h_credit h)%Z).
Proof. exact hc_flush_within_credit. Qed.

Theorem C13_frame_length :
  forall seq nonce enc count, len (Codec.build_data_frame seq nonce enc count) = 6 + len enc + 4.
Proof. exact build_data_frame_len. Qed.

(* ---------- whole histories of a HalfConnection (CreditLedger.v) ---------- *)
(* for any sequence of sends, receives, steps, flushes and incoming frames: bytes emitted = initial credit + gains of
   the steps - current credit; nothing else moves the credit or emits bytes *)
Theorem C13_credit_ledger :
  forall h0 ops,
  let l := fold_left lstep ops (mkLedger h0 0 0) in
  lg_h l = fold_left hc_apply ops h0 /\ (lg_bytes l = h_credit h0 + lg_gain l - h_credit (lg_h l))%Z /\ (0 <= lg_bytes l)%Z.
Proof. exact credit_ledger. Qed.
Print Assumptions C13_credit_ledger.

(* the gain of one step: none for the first step, otherwise at most floor(X*t_now) - floor(X*t_prev), never above the cap *)
Theorem C13_step_gain :
  forall h now h', hc_step h now = Ok h' ->
  match h_last_flushed h with
  | None => h_credit h' = h_credit h
  | Some t => (h_credit h' <= sat_add_isize (h_credit h) (refill (sr_rate (h_src h)) t now))%Z /\
              (h_credit h' <= f_round_to_isize (PrimFloat.mul (f_of_N (sr_rate (h_src h))) (opt_default f0 (sr_rtt_s (h_src h)))))%Z
  end.
Proof. exact step_gain. Qed.

Theorem C13_flush_leaves_credit :
  forall h h' out, hc_flush h = Ok (h', out) -> out <> [] -> exists pre l, out = pre ++ [l] /\ (- Z.of_N (len l) <= h_credit h')%Z.
Proof. exact flush_leaves_credit. Qed.

(* the allowed rate of a HalfConnection - the rate refill uses - is at most the ceiling it was created with, in every
   reachable state (any sends, receives, steps, flushes and incoming frames) *)
Theorem C13_hc_rate_le_ceiling :
  forall c seed ops, MSS <= cfg_tx_bandwidth_limit c ->
  sr_rate (h_src (fold_left hc_apply ops (hc_new c seed))) <= cfg_tx_bandwidth_limit c.
Proof. exact hc_rate_le_ceiling. Qed.
Print Assumptions C13_hc_rate_le_ceiling.

(* non-vacuity: a history with three steps and three flushes that emits 54 bytes against 3594 bytes of gains *)
Example C13_ledger_run :
  let c := mkHcConfig 4294967295 7 64 64 1048575 3 16 16 100000 100000 100000 None in
  let ops := [OpSend [1; 2; 3] 0 Reliable; OpSend [4] 1 Unreliable; OpStep 10; OpFlush;
              OpFrame (FAcks 0 0 [mkAg 4294967295 1 (nonce_bit 5 4294967295)]); OpStep 500; OpFlush;
              OpSend [9; 9] 0 Reliable; OpStep 900; OpFlush] in
  let l := fold_left lstep ops (mkLedger (hc_new c 5) 0 0) in
  (lg_bytes l, lg_gain l, h_credit (lg_h l)) = (54, 3594, 3540)%Z.
Proof. vm_compute. reflexivity. Qed.

Check C13_rate_le_ceiling : forall m ops, MSS <= m -> sr_rate (fold_left rate_step ops (src_new m)) <= m.
Check C13_flush_within_credit : forall h h' out, hc_flush h = Ok (h', out) ->
    ((h_credit h < 0)%Z -> out = []) /\ (forall pre l, out = pre ++ [l] -> (bytes_of pre <= h_credit h)%Z).
Check C13_refill_schedule_independent : forall rate ts t0, refills rate t0 ts = refill rate t0 (last ts t0).
Check C13_credit_ledger.
