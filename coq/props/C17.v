(* C17 — the server enforces its connection limits. Statements only; proofs in EndpointProofs.v. *)
From UF Require Import Consts Base Frame Sender HalfConn Endpoint EndpointProofs.

(* In EVERY reachable server state (any sequence of steps with any datagrams from any addresses and any clock
   values, flushes, drops, sends, disconnects): at most max_total_connections addresses are tracked and the
   active list (which contains every established connection) has at most max_active_connections entries. *)
Theorem C17_limits_reachable :
  forall cfg t0 seed ops,
    let s := fold_left server_apply ops (server_new cfg t0 seed) in
    len (sv_clients s) <= svc_max_total (sv_cfg s) /\ len (sv_active s) <= svc_max_active (sv_cfg s).
Proof. exact server_reachable_limits. Qed.
Print Assumptions C17_limits_reachable.

(* a handshake that would exceed a limit is refused with ServerFull (error frame echoing the SYN's nonce) *)
Theorem C17_refused_when_full :
  forall s a addr n mrr mps mra now,
    sv_lookup s addr = None ->
    (svc_max_total (sv_cfg s) <= len (sv_clients s) \/ svc_max_active (sv_cfg s) <= len (sv_active s)) ->
    sv_handle_syn s a addr PROTOCOL_VERSION n mrr mps mra now = sv_refuse s a addr n ErrServerFull 3.
Proof. exact syn_refused_when_full. Qed.
Print Assumptions C17_refused_when_full.

(* promotion to an established connection only happens while there is room *)
Theorem C17_promotion_checked :
  forall s a addr na now vnow s' a',
    sv_handle_ack s a addr na now vnow = (s', a') -> ac_events a' <> ac_events a ->
    len (sv_active s) < svc_max_active (sv_cfg s) /\ len (sv_active s') = len (sv_active s) + 1.
Proof.
  intros s a addr na now vnow s' a' H Hne. unfold sv_handle_ack in H.
  destruct (sv_lookup s addr) as [id|]; [|inversion H; subst; contradiction].
  destruct (so_state (sv_obj_get s id)); try (inversion H; subst; contradiction).
  destruct (na =? local_nonce); cbn [andb] in H; [|inversion H; subst; contradiction].
  destruct (N.ltb_spec (len (sv_active s)) (svc_max_active (sv_cfg s))); inversion H; subst; [|contradiction].
  split; [assumption|]. cbn. unfold len. rewrite app_length. cbn. rewrite Nat2N.inj_add. reflexivity.
Qed.

Check C17_limits_reachable.
