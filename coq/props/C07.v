(* C07 — connections exist only after a nonce-validated 3-way handshake. Statements only (EndpointProofs.v,
   HandshakeHistory.v). Per handler, for all states and frames: Connect soundness, forged / stale / duplicated
   handshake frames are the identity, refusals, symmetric derivation. Over whole histories: a client reports
   Connect only in a step whose datagrams include a SYN+ACK echoing the nonce it chose at connect(); a server
   reports Connect for an address only in a step whose datagrams include, from that address, an ACK carrying a
   nonce that the server has sent to that very address in a SYN+ACK. (That the nonce is unguessable is outside
   the logic: nonces are inputs of the model.) *)
From UF Require Import Consts Base Frame Codec HalfConn Endpoint EndpointProofs EndpointTotal ServerBytes HandshakeHistory.

Theorem C07_server_connect_sound :
  forall s a addr na now vnow s' a',
    sv_handle_ack s a addr na now vnow = (s', a') -> ac_events a' <> ac_events a ->
    exists id ln rn rmrr rmra reply,
      sv_lookup s addr = Some id /\ so_state (sv_obj_get s id) = SvPending ln rn rmrr rmra reply /\ na = ln /\
      ac_events a' = ac_events a ++ [EvConnect addr] /\ ac_sends a' = ac_sends a.
Proof. exact server_connect_sound. Qed.
Print Assumptions C07_server_connect_sound.

Theorem C07_server_forged_ack_identity :
  forall s a addr na now vnow,
    (sv_lookup s addr = None \/
     exists id, sv_lookup s addr = Some id /\
       match so_state (sv_obj_get s id) with SvPending ln _ _ _ _ => na <> ln | SvActive _ _ _ _ => False | _ => True end) ->
    sv_handle_ack s a addr na now vnow = (s, a).
Proof. exact server_forged_ack_identity. Qed.

(* an ACK reaching an established connection creates nothing: it only moves that connection's silence deadline *)
Theorem C07_server_ack_when_established :
  forall s a addr na now vnow id h t0 to d,
    sv_lookup s addr = Some id -> so_state (sv_obj_get s id) = SvActive h t0 to d ->
    sv_handle_ack s a addr na now vnow =
    (sv_set_obj s id (SvActive h t0 (now + ec_active_timeout (svc_ec (sv_cfg s))) d), a).
Proof. exact server_ack_when_established. Qed.

Theorem C07_server_repeated_syn_identity :
  forall s a addr v n mrr mps mra now id, sv_lookup s addr = Some id -> sv_handle_syn s a addr v n mrr mps mra now = (s, a).
Proof. exact server_repeated_syn_identity. Qed.

Theorem C07_version_refused :
  forall s a addr v n mrr mps mra now, sv_lookup s addr = None -> v <> PROTOCOL_VERSION ->
    sv_handle_syn s a addr v n mrr mps mra now = sv_refuse s a addr n ErrVersion 1.
Proof. exact server_version_refused. Qed.

Theorem C07_config_refused :
  forall s a addr n mrr mps mra now,
    sv_lookup s addr = None ->
    len (sv_clients s) < svc_max_total (sv_cfg s) -> len (sv_active s) < svc_max_active (sv_cfg s) ->
    (mra < ec_max_packet_size (svc_ec (sv_cfg s)) \/ ec_max_receive_alloc (svc_ec (sv_cfg s)) < mps) ->
    sv_handle_syn s a addr PROTOCOL_VERSION n mrr mps mra now = sv_refuse s a addr n ErrConfig 2.
Proof. exact server_config_refused. Qed.

Theorem C07_refusal_reply :
  forall s a addr n e k,
    ac_sends (snd (sv_refuse s a addr n e k)) = ac_sends a ++ [(addr, write_handshake_error n e)] /\ fst (sv_refuse s a addr n e k) = s.
Proof. exact refuse_sends. Qed.

Theorem C07_client_connect_sound :
  forall c a na n mrr mra now vnow c' a',
    cl_handle_syn_ack c a na n mrr mra now vnow = (c', a') -> ca_events a' <> ca_events a ->
    exists ln rq rt rc sends, cl_state_ c = ClPending ln rq rt rc sends /\ na = ln /\
      ca_events a' = ca_events a ++ [EvConnect 0] /\
      exists h t0 to, cl_state_ c' = ClActive ln n h t0 to None.
Proof. exact client_connect_sound. Qed.
Print Assumptions C07_client_connect_sound.

Theorem C07_client_forged_syn_ack_identity :
  forall c a na n mrr mra now vnow,
    match cl_state_ c with
    | ClPending ln _ _ _ _ => na <> ln
    | ClActive ln rn _ _ _ _ => na <> ln \/ n <> rn
    | _ => True
    end -> cl_handle_syn_ack c a na n mrr mra now vnow = (c, a).
Proof. exact client_forged_syn_ack_identity. Qed.

Theorem C07_client_duplicate_syn_ack_no_event :
  forall c a na n mrr mra now vnow ln rn h t0 to d,
    cl_state_ c = ClActive ln rn h t0 to d ->
    ca_events (snd (cl_handle_syn_ack c a na n mrr mra now vnow)) = ca_events a /\
    exists to', cl_state_ (fst (cl_handle_syn_ack c a na n mrr mra now vnow)) = ClActive ln rn h t0 to' d.
Proof. exact client_active_syn_ack_no_event. Qed.

Theorem C07_client_error_sound :
  forall c a na e c' a',
    cl_handle_error c a na e = (c', a') -> ca_events a' <> ca_events a ->
    exists ln rq rt rc sends, cl_state_ c = ClPending ln rq rt rc sends /\ na = ln /\ cl_state_ c' = ClFin /\
      ca_events a' = ca_events a ++ [EvError 0 (match e with ErrVersion => 1 | ErrConfig => 2 | ErrServerFull => 3 end)].
Proof. exact client_error_sound. Qed.

Theorem C07_agreement :
  forall ecc ecs cn sn,
    let cc := hc_config_of ecc cn sn (u32_clamp (ec_max_receive_rate ecs)) (u32_clamp (ec_max_receive_alloc ecs)) in
    let cs := hc_config_of ecs sn cn (u32_clamp (ec_max_receive_rate ecc)) (u32_clamp (ec_max_receive_alloc ecc)) in
    cfg_tx_frame_base cc = cfg_rx_frame_base cs /\ cfg_rx_frame_base cc = cfg_tx_frame_base cs /\
    cfg_tx_packet_base cc = cfg_rx_packet_base cs /\ cfg_rx_packet_base cc = cfg_tx_packet_base cs /\
    cfg_tx_frame_window cc = cfg_rx_frame_window cs /\ cfg_tx_packet_window cc = cfg_rx_packet_window cs /\
    cfg_tx_bandwidth_limit cc = N.min (ec_max_send_rate ecc mod pow32) (u32_clamp (ec_max_receive_rate ecs)) /\
    cfg_tx_alloc_limit cc = u32_clamp (ec_max_receive_alloc ecs) /\ cfg_rx_alloc_limit cs = ec_max_receive_alloc ecs /\
    cfg_tx_alloc_limit cs = u32_clamp (ec_max_receive_alloc ecc) /\ cfg_rx_alloc_limit cc = ec_max_receive_alloc ecc.
Proof. exact handshake_agreement. Qed.

(* whole histories *)
Theorem C07_client_connect_history :
  forall ec nonce t0 seed ops vnow inbox c' evs sends,
    client_step (fold_left cl_apply ops (fst (client_connect ec nonce t0 seed))) vnow inbox = Ok (c', evs, sends) ->
    In (EvConnect 0) evs -> has_syn_ack nonce inbox.
Proof. exact client_connect_history. Qed.
Print Assumptions C07_client_connect_history.

Theorem C07_server_connect_history :
  forall cfg t0 seed ops vnow inbox nonces s' evs sends rest x,
    let '(s, _, Ou) := fold_left sv_run_op ops (server_new cfg t0 seed, [], []) in
    server_step s vnow inbox nonces = Ok (s', evs, sends, rest) ->
    In (EvConnect x) evs -> inbox_justifies (Ou ++ sends) inbox x.
Proof. exact server_connect_history. Qed.
Print Assumptions C07_server_connect_history.

(* non-vacuity: a handshake from address 5 (request, then the ACK of the nonce 99 the server drew) connects; an ACK
   with another nonce, or the right nonce from another address, does not *)
Example C07_history_example :
  let cfg := mkSvConfig 4 2 true (mkEpConfig 100000 100000 1000 10000 false 1000 20000) in
  let syn := write_handshake_syn PROTOCOL_VERSION 77 100000 1000 10000 in
  let run ops := let '(_, E, _) := fold_left sv_run_op ops (server_new cfg 0 1, [], []) in E in
  run [SvStep 0 [(5, syn)] [99]; SvStep 10 [(5, write_handshake_ack 99)] []] = [EvConnect 5] /\
  run [SvStep 0 [(5, syn)] [99]; SvStep 10 [(5, write_handshake_ack 98)] []] = [] /\
  run [SvStep 0 [(5, syn)] [99]; SvStep 10 [(6, write_handshake_ack 99)] []] = [].
Proof. vm_compute. repeat split. Qed.

Check C07_server_connect_sound.
