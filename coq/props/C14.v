(* C14 — the allowed send rate obeys the RFC 5348 bounds. Statements only; proofs in SendRateProofs.v.
   Model: model/SendRate.v, bit-exact binary64; X = sr_rate, ceiling = sr_max_rate, floor = MINIMUM_RATE = s/64. *)
From UF Require Import Consts Base F64 FrameQueue SendRate SendRateProofs.

(* once loss has been reported, a feedback sets X <= max(X_Bps(rtt, p), s/64) for the CURRENT rtt estimate and
   the reported loss event rate *)
Theorem C14_eqn_bound :
  forall c now fb c' r tcp0,
    sr_mode_ c = ThroughputEqn tcp0 -> src_handle_feedback c now fb = Ok (c', r) ->
    exists rtt_s, sr_rtt_s c' = Some rtt_s /\
      sr_mode_ c' = ThroughputEqn (eval_tcp_throughput rtt_s (fd_loss_rate fb)) /\
      sr_rate c' <= N.max (eval_tcp_throughput rtt_s (fd_loss_rate fb)) MINIMUM_RATE /\ r = None.
Proof. exact feedback_eqn_bound. Qed.
Print Assumptions C14_eqn_bound.

(* slow start: one loss-free feedback at most doubles X, or sets the initial window per RTT *)
Theorem C14_slowstart_bound :
  forall c now fb c' r tld,
    sr_mode_ c = SlowStart tld -> PrimFloat.ltb (sr_prev_loss c) (fd_loss_rate fb) = false ->
    src_handle_feedback c now fb = Ok (c', r) ->
    exists rtt_s, sr_rtt_s c' = Some rtt_s /\
      sr_rate c' <= N.max (2 * sr_rate c) (compute_initial_send_rate rtt_s) /\
      (tld = None -> sr_rate c' <= compute_initial_send_rate rtt_s) /\ r = None.
Proof. exact feedback_slowstart_bound. Qed.
Print Assumptions C14_slowstart_bound.

Theorem C14_first_loss_bound :
  forall c now fb c' r tld,
    sr_mode_ c = SlowStart tld -> PrimFloat.ltb (sr_prev_loss c) (fd_loss_rate fb) = true ->
    src_handle_feedback c now fb = Ok (c', r) ->
    exists rtt_s, sr_rtt_s c' = Some rtt_s /\
      let target := match tld with None => compute_initial_loss_send_rate rtt_s | Some _ => sr_rate c / 2 end in
      sr_mode_ c' = ThroughputEqn target /\ sr_rate c' <= N.max target MINIMUM_RATE.
Proof. exact feedback_first_loss_bound. Qed.

(* a no-feedback expiry never increases X (except up to the floor), and either keeps it or leaves it at or
   above s/64; the ceiling and the state invariant are preserved *)
Theorem C14_nofeedback_bounds :
  forall c now c',
    SrInv c -> MINIMUM_RATE <= sr_max_rate c -> src_nofeedback_expired c now = Ok c' ->
    SrInv c' /\ sr_max_rate c' = sr_max_rate c /\
    sr_rate c' <= N.max (sr_rate c) MINIMUM_RATE /\
    (sr_rate c' = sr_rate c \/ MINIMUM_RATE <= sr_rate c').
Proof. exact expiry_bounds. Qed.
Print Assumptions C14_nofeedback_bounds.

(* in every reachable state (any sequence of frame-sent notifications and steps with or without feedback,
   feedback fields over their full ranges, any clock values) with a ceiling of at least one frame per
   second: X <= ceiling, and the invariant SrInv used above holds *)
Theorem C14_ceiling_reachable :
  forall m ops, MSS <= m ->
    let c := fold_left rate_step ops (src_new m) in
    SrInv c /\ sr_max_rate c = m /\ sr_rate c <= m.
Proof.
  intros m ops Hm c. destruct (rate_reachable_inv m ops Hm) as [Hi He]. fold c in Hi, He.
  split; [exact Hi|]. split; [exact He|]. rewrite <- He. exact (si_ceiling _ Hi).
Qed.
Print Assumptions C14_ceiling_reachable.

(* the RTT estimate is the 0.9/0.1 moving average of the samples *)
Theorem C14_rtt_ewma :
  forall c now fb c' r,
    src_handle_feedback c now fb = Ok (c', r) ->
    sr_rtt_s c' = Some (match sr_rtt_s c with
                        | Some old => PrimFloat.add (PrimFloat.mul (PrimFloat.sub 1 RTT_ALPHA) old)
                                                    (PrimFloat.mul RTT_ALPHA (ms_to_s (fd_rtt_ms fb)))
                        | None => ms_to_s (fd_rtt_ms fb) end).
Proof. exact feedback_rtt_ewma. Qed.

(* step() never panics from a reachable state (empty X_recv_set, missing RTT) *)
Theorem C14_step_total :
  forall m ops now fb, MSS <= m ->
    exists c' r, src_step (fold_left rate_step ops (src_new m)) now fb = Ok (c', r).
Proof. exact rate_step_total. Qed.
Print Assumptions C14_step_total.

Example C14_example :
  let c := fold_left rate_step
             [RSent 0; RStep 10 (Some (mkFeedback 2 200000 0.1 true)); RSent 20; RStep 5000 None] (src_new 100000) in
  (sr_rate c, sr_max_rate c) = (100000, 100000).
Proof. vm_compute. reflexivity. Qed.

Check C14_nofeedback_bounds : forall c now c', SrInv c -> MINIMUM_RATE <= sr_max_rate c -> src_nofeedback_expired c now = Ok c' ->
    SrInv c' /\ sr_max_rate c' = sr_max_rate c /\ sr_rate c' <= N.max (sr_rate c) MINIMUM_RATE /\
    (sr_rate c' = sr_rate c \/ MINIMUM_RATE <= sr_rate c').
Check C14_ceiling_reachable : forall m ops, MSS <= m ->
    let c := fold_left rate_step ops (src_new m) in SrInv c /\ sr_max_rate c = m /\ sr_rate c <= m.
