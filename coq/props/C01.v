(* C01 — per-channel delivery is in order, at most once and byte-exact. Statements only.
   This file pins the component theorems the end-to-end argument consists of (sender ids/payloads, frame
   dedupe, one packet per slot generation, exact reassembly, exact codec). Their composition into the
   network-level subsequence theorem (which needs the window-agreement lemma under bounded staleness of the
   20-bit ids) is NOT proved; the end-to-end statement is decided on the implementation by the
   correspondence streams plus the subsequence oracle (partial, see DESIGN.md). *)
From UF Require Import Consts Base Frame Codec Sender Receiver FrameAck HalfConn
                       CodecRoundtrip FragmentProofs HcLemmas.

(* S1: consecutive ids in submission order; the window entry carries the submitted bytes and channel *)
Theorem C01_sender_ids_and_payload :
  forall s fid s' uid resend,
    sender_emit_packet s fid = (s', Some (uid, resend)) ->
    exists e q', fst (drop_stale (s_queue s) fid (s_total s)) = e :: q' /\ s_queue s' = q' /\
      uid = s_base_uid s + len (s_win s) /\ s_next s' = pid_add (s_next s) 1 /\ s_base s' = s_base s /\ s_base_uid s' = s_base_uid s /\
      (exists we, s_win s' = s_win s ++ [we] /\ pp_data (we_packet we) = se_data e /\ pp_chan (we_packet we) = se_chan e /\
                  pp_seq (we_packet we) = s_next s /\ pp_acked (we_packet we) = [] /\
                  pp_last (we_packet we) = num_fragments (len (se_data e)) - 1) /\
      resend = is_resend (se_mode e) /\ (se_mode e = TimeSensitive -> se_flush e = fid).
Proof. exact emit_packet_spec. Qed.

(* F1: a data frame id that has been accepted is outside the frame receive window afterwards: duplicates and
   late copies of a frame are discarded whole *)
Theorem C01_frame_accepted_once :
  forall q id nonce,
    faq_contains q id = true -> fa_size q <= pow32 / 2 -> 0 < fa_size q -> fa_base q < pow32 -> id < pow32 ->
    faq_contains (faq_mark_seen q id nonce) id = false.
Proof. exact frame_accepted_once. Qed.
Print Assumptions C01_frame_accepted_once.

(* one packet per slot generation: a slot that has produced a packet is closed, and a closed slot ignores every
   further datagram until the window clears it *)
Theorem C01_slot_produces_once :
  (forall e alloc maxa dg e' alloc' p, asm_try_add e alloc maxa dg = (e', alloc', Some p) -> exists a, e' = AsmClosed a) /\
  (forall a alloc maxa dg, asm_try_add (AsmClosed a) alloc maxa dg = (AsmClosed a, alloc, None)).
Proof. split; [exact asm_produces_then_closed|exact asm_closed_absorbing]. Qed.

(* byte exactness: wire (codec round trip), fragmentation (partition), reassembly (any order, first write wins) *)
Theorem C01_wire_exact : forall f, representable f = true -> read_frame (write_frame f) = Ok (Some f).
Proof. exact codec_roundtrip. Qed.

Theorem C01_reassembly_exact :
  forall d order, Forall (fun i => (i < nfrag d)%nat) order ->
    let b := fold_left (feed d) order (fb_new (N.of_nat (nfrag d))) in
    fb_finished b = true -> fb_finalize b = d.
Proof. exact reassembly_any_order. Qed.

Theorem C01_single_fragment_exact :
  forall alloc maxa dg e' alloc' p,
    asm_try_add AsmOpen alloc maxa dg = (e', alloc', Some p) -> ap_data p <> None ->
    dg_frag_last dg = 0 /\ ap_data p = Some (dg_data dg) /\ ap_chan p = dg_chan dg /\ ap_seq p = dg_seq dg.
Proof. exact asm_single_fragment_exact. Qed.
Print Assumptions C01_single_fragment_exact.

Check C01_frame_accepted_once.
