(* C01 — per-channel delivery is in order, at most once and byte-exact. Statements only.
   Receiver side over whole histories (ReceiverOrder.v): for ANY sequence of datagrams (arbitrary contents),
   receive() calls and resynchronisation requests, every packet PacketReceiver hands to the application can be
   tagged with (channel, absolute packet id) such that the ids on each channel are strictly increasing — nothing
   is delivered twice or out of order on a channel, across any number of wrap-arounds of the 20-bit ids and of the
   slot arrays (C01_receiver_delivery_log). The other component theorems (sender ids/payloads, frame dedupe, one
   packet per slot generation, exact reassembly, exact codec) are pinned below. Their composition into the
   network-level subsequence theorem (which needs the window-agreement lemma under bounded staleness of the
   20-bit ids) is NOT proved; the end-to-end statement is decided on the implementation by the
   correspondence streams plus the subsequence oracle (partial, see DESIGN.md). *)
From UF Require Import Consts Base Frame Codec Sender Receiver FrameAck HalfConn
                       CodecRoundtrip FragmentProofs HcLemmas ReceiverProofs ReceiverOrder ReceiverData.

(* S1: consecutive ids in submission order; the window entry carries the submitted bytes and channel *)
Theorem C01_sender_ids_and_payload :
  forall s fid s' uid resend,
    sender_emit_packet s fid = (s', Some (uid, resend)) ->
    exists e q', fst (drop_stale (s_queue s) fid (s_total s)) = e :: q' /\ s_queue s' = q' /\
      uid = s_base_uid s + len (s_win s) /\ s_next s' = pid_add (s_next s) 1 /\ s_base s' = s_base s /\ s_base_uid s' = s_base_uid s /\
      (exists we, s_win s' = s_win s ++ [we] /\ pp_data (we_packet we) = se_data e /\ pp_chan (we_packet we) = se_chan e /\
                  pp_seq (we_packet we) = s_next s /\ pp_acked (we_packet we) = [] /\
                  pp_last (we_packet we) = num_fragments (len (se_data e)) - 1) /\
      resend = is_resend (se_mode e) /\ (se_mode e = TimeSensitive -> se_flush e = fid).
Proof. exact emit_packet_spec. Qed.

(* F1: a data frame id that has been accepted is outside the frame receive window afterwards: duplicates and
   late copies of a frame are discarded whole *)
Theorem C01_frame_accepted_once :
  forall q id nonce,
    faq_contains q id = true -> fa_size q <= pow32 / 2 -> 0 < fa_size q -> fa_base q < pow32 -> id < pow32 ->
    faq_contains (faq_mark_seen q id nonce) id = false.
Proof. exact frame_accepted_once. Qed.
Print Assumptions C01_frame_accepted_once.

(* one packet per slot generation: a slot that has produced a packet is closed, and a closed slot ignores every
   further datagram until the window clears it *)
Theorem C01_slot_produces_once :
  (forall e alloc maxa dg e' alloc' p, asm_try_add e alloc maxa dg = (e', alloc', Some p) -> exists a, e' = AsmClosed a) /\
  (forall a alloc maxa dg, asm_try_add (AsmClosed a) alloc maxa dg = (AsmClosed a, alloc, None)).
Proof. split; [exact asm_produces_then_closed|exact asm_closed_absorbing]. Qed.

(* byte exactness: wire (codec round trip), fragmentation (partition), reassembly (any order, first write wins) *)
Theorem C01_wire_exact : forall f, representable f = true -> read_frame (write_frame f) = Ok (Some f).
Proof. exact codec_roundtrip. Qed.

Theorem C01_reassembly_exact :
  forall d order, Forall (fun i => (i < nfrag d)%nat) order ->
    let b := fold_left (feed d) order (fb_new (N.of_nat (nfrag d))) in
    fb_finished b = true -> fb_finalize b = d.
Proof. exact reassembly_any_order. Qed.

Theorem C01_single_fragment_exact :
  forall alloc maxa dg e' alloc' p,
    asm_try_add AsmOpen alloc maxa dg = (e', alloc', Some p) -> ap_data p <> None ->
    dg_frag_last dg = 0 /\ ap_data p = Some (dg_data dg) /\ ap_chan p = dg_chan dg /\ ap_seq p = dg_seq dg.
Proof. exact asm_single_fragment_exact. Qed.
Print Assumptions C01_single_fragment_exact.

Check C01_frame_accepted_once.

(* ---------- receiver side, whole histories (ReceiverOrder.v) ---------- *)
Local Open Scope N_scope.

(* every packet handed out carries a (channel, absolute id) tag; on each channel the ids strictly increase *)
Theorem C01_receiver_delivery_log :
  forall w b m ops, 0 < w -> 2 * w <= pow20 -> pow20 mod w = 0 -> b < pow20 ->
  exists L : list logent,
    handed_out ops (receiver_new w b m) = log_data L /\ chan_sorted (log_ids L).
Proof. exact receiver_delivery_log. Qed.
Print Assumptions C01_receiver_delivery_log.

(* the ghost run that produces the tags is the model's own run *)
Theorem C01_receiver_delivery_order :
  forall w b m ops, 0 < w -> 2 * w <= pow20 -> pow20 mod w = 0 -> b < pow20 ->
  let g := fold_left gstep ops (g_init w b m) in
  chan_sorted (g_D g) /\ g_r g = fold_left receiver_step ops (receiver_new w b m).
Proof. exact receiver_delivery_order. Qed.

(* the window sizes the endpoints use satisfy the hypotheses *)
Example C01_window_sizes_ok :
  forallb (fun w => (0 <? w) && (2 * w <=? pow20) && (pow20 mod w =? 0)) [2; 4; 8; 16; 64; 4096; MAX_PACKET_WINDOW_SIZE] = true.
Proof. vm_compute. reflexivity. Qed.

(* non-vacuity: a run across the wrap-around of the 20-bit ids that hands out packets in id order, drops a
   late duplicate and a packet behind the channel base *)
Definition ex_dg (seq chan : N) (d : list N) : datagram := mkDg seq chan 0 0 0 0 d.
Definition ex_ops : list receiver_op :=
  [RDatagram (ex_dg 0 0 [3]); RDatagram (ex_dg (pow20 - 1) 0 [1; 2]); RReceive;
   RDatagram (ex_dg (pow20 - 1) 0 [9]); RDatagram (ex_dg 1 1 [4]); RDatagram (ex_dg 0 0 [8]); RReceive].
Example C01_receiver_run :
  handed_out ex_ops (receiver_new 4 (pow20 - 1) 100000) = [[1; 2]; [3]; [4]] /\
  log_ids (run_log ex_ops (g_init 4 (pow20 - 1) 100000) []) = [(0, pow20 - 1); (0, pow20); (1, pow20 + 1)].
Proof. vm_compute. split; reflexivity. Qed.


(* ... and every handed-out packet is a production: the packet the assembly window returned, for that very slot
   generation, when a datagram completed it — same channel, same absolute id, same data *)
Theorem C01_receiver_delivers_productions :
  forall w b m ops, 0 < w -> 2 * w <= pow20 -> pow20 mod w = 0 -> b < pow20 ->
  let L := run_log ops (g_init w b m) [] in
  let P := run_prod ops (g_init w b m) [] in
  handed_out ops (receiver_new w b m) = log_data L /\ chan_sorted (log_ids L) /\ forall e, In e L -> In e P.
Proof. exact receiver_delivers_productions. Qed.
Print Assumptions C01_receiver_delivers_productions.

Theorem C01_production_spec :
  forall r dg c k d, prod_of r dg = Some (c, k, d) ->
  datagram_is_valid dg = true /\ k = pid_sub (dg_seq dg) (r_base r) /\ k < r_wsize r /\ cboff r (dg_chan dg) <= k /\ c = dg_chan dg /\
  exists asm' alloc' p, asm_try_add (sl_asm (so r k)) (r_alloc r) (r_max_alloc r) dg = (asm', alloc', Some p) /\ d = ap_data p /\
                        (sl_asm (so r k) = AsmOpen -> d <> None -> dg_frag_last dg = 0 /\ d = Some (dg_data dg)).
Proof. exact prod_of_spec. Qed.

Example C01_receiver_run_productions :
  run_prod ex_ops (g_init 4 (pow20 - 1) 100000) [] = [(0, pow20, Some [3]); (0, pow20 - 1, Some [1; 2]); (1, pow20 + 1, Some [4])].
Proof. vm_compute. reflexivity. Qed.

Check C01_receiver_delivery_log.
Check C01_receiver_delivers_productions.
