(* C11 — no loss pattern stalls a connection permanently. Statements only.
   Proved: the recovery mechanisms' local correctness — a sync frame is due whenever frames or packets are
   unacknowledged; the frame receive window accepts any resynchronisation point within one window; the rate never
   drops below s/64 on expiry (so the flush credit refills); acknowledgements release window space (sender
   release keeps the invariant); step() forgets a sent frame only when it is older than max(4 * rtt estimate, rto),
   so an acknowledgement arriving within one retransmission timeout finds its frame (ForgetRecent.v, the repair D21).
   End-to-end recovery after arbitrary blackouts is decided on the implementation
   by the blackout / liveness streams with the stall oracle (partial). *)
From UF Require Import Consts Base Frame Sender Receiver FrameAck FrameQueue SendRate HalfConn HcLemmas SenderProofs SendRateProofs HcTotal ForgetRecent.

Theorem C11_sync_due :
  forall h out,
    N.max (h_rto h) MIN_SYNC_TIMEOUT_MS <= h_now h - h_sync_base h ->
    (fq_next (h_fq h) <> fq_wbase (h_fq h) \/ (s_next (h_snd h) <> s_base (h_snd h) /\ h_rq h = [] /\ h_pq h = [])) ->
    (0 <= h_credit h)%Z ->
    exists bytes, emit_sync_frame h out = (set_sync_base (set_credit h (h_credit h - Z.of_N (len bytes))%Z) (h_now h), out ++ [bytes], true)
                  /\ (exists nf np, bytes = Codec.write_sync nf np /\ (nf <> None \/ np <> None)).
Proof. exact sync_due. Qed.

(* ReceiveWindow::advance accepts exactly the bases 1..size ahead *)
Theorem C11_frame_window_resync :
  forall q nb, 0 < sub32 nb (fa_base q) -> sub32 nb (fa_base q) <= fa_size q -> fa_base (faq_resynchronize q nb) = nb.
Proof.
  intros q nb H1 H2. unfold faq_resynchronize, faq_advance.
  destruct (N.ltb_spec 0 (sub32 nb (fa_base q))); [|exfalso; apply (N.lt_irrefl 0); eapply N.lt_le_trans; eassumption].
  destruct (N.leb_spec (sub32 nb (fa_base q)) (fa_size q)); [reflexivity|].
  exfalso. eapply N.lt_irrefl. eapply N.le_lt_trans; eassumption.
Qed.

Theorem C11_rate_floor_on_expiry :
  forall c now c', SrInv c -> MINIMUM_RATE <= sr_max_rate c -> src_nofeedback_expired c now = Ok c' ->
    sr_rate c' = sr_rate c \/ MINIMUM_RATE <= sr_rate c'.
Proof. intros c now c' Hi Hm H. destruct (expiry_bounds c now c' Hi Hm H) as [_ [_ [_ G]]]. exact G. Qed.
Print Assumptions C11_rate_floor_on_expiry.

(* an acknowledgement of any base inside the outstanding span is accepted and keeps the sender well-formed *)
Theorem C11_ack_releases_window :
  forall s id, SWf s -> exists s', sender_acknowledge s id = Ok s' /\ SWf s'.
Proof. exact acknowledge_wf. Qed.

Check C11_sync_due.

(* step() forgets a prefix of the frame log, every forgotten frame is older than max(4*rtt, rto), and every frame
   sent within that span is still logged afterwards (D21) *)
Theorem C11_step_remembers_recent :
  forall h now h', HcInv h -> hc_step h now = Ok h' ->
  let rtt := opt_default INITIAL_RTT_ESTIMATE_MS (sr_rtt_ms (h_src h)) in
  let rto := opt_default INITIAL_RTO_ESTIMATE_MS (sr_rto_ms (h_src h)) in
  exists k, fq_frames (h_fq h') = skipn k (fq_frames (h_fq h)) /\
    (forall f, In f (firstn k (fq_frames (h_fq h))) -> le_time f < now - N.max (rtt * 4) rto) /\
    (forall f, In f (fq_frames (h_fq h)) -> now - N.max (rtt * 4) rto <= le_time f -> In f (fq_frames (h_fq h'))).
Proof. exact step_remembers_recent. Qed.
Print Assumptions C11_step_remembers_recent.

(* non-vacuity: a frame sent at 10 ms (initial estimates: rtt 150, rto 600) is still logged after a step at 609 ms
   and forgotten by a step at 611 ms *)
Example C11_forget_run :
  let c := mkHcConfig 4294967295 7 64 64 1048575 3 16 16 100000 100000 100000 None in
  let h1 := fold_left hc_apply [OpSend [1; 2; 3] 0 Reliable; OpStep 10; OpFlush] (hc_new c 5) in
  (map le_time (fq_frames (h_fq h1)), map le_time (fq_frames (h_fq (hc_apply h1 (OpStep 609)))),
   map le_time (fq_frames (h_fq (hc_apply h1 (OpStep 611))))) = ([10], [10], []).
Proof. vm_compute. reflexivity. Qed.
Check C11_step_remembers_recent.
