(* C03 — no network input can crash or hang an endpoint. Statements only.
   Proved (for ALL inputs): the frame reader never indexes out of range; PacketSender::acknowledge never runs past
   the window for any id; the rate controller's step never panics from a reachable state for any feedback; the
   receiver's slot and channel indices stay inside their arrays for any datagram stream; and, for the whole
   HalfConnection: in EVERY state reachable by ANY sequence of send / receive / step / flush / frame
   operations, EVERY such operation returns normally — no panic site is reached and every loop ends within the
   fuel the model gives it (C03_half_connection_total). The invariant behind it: the frame log, transfer window
   and reorder buffer stay consistent (FrameQueueProofs.v, ReorderProofs.v), the send window is well formed
   (SenderProofs.v), the rate controller has a receive-rate set and an RTT whenever it needs them, and the loss
   interval queue is non-empty whenever a loss increase can be reported (HcStepTotal.v); flush() terminates by a
   potential argument over (resend entries, free window slots, datagrams left in the frame being built)
   (HcFlushTotal.v — the repaired livelock D2 lived in exactly these loops).
   The same for the endpoints around it: for every history of a Client (C03_client_total) and of a Server
   (C03_server_total) — steps with any datagrams made of bytes from any addresses, any clock values, any
   nonces, flushes, sends, disconnects, drops — every further step or call returns normally (EndpointTotal.v;
   the server's timer loop terminates because every pop removes a due entry and every push adds one that is
   not due, counted through the binary heap's sift operations in HeapCount.v).
   So every panic site and every loop that the model contains is unreachable / bounded, for all inputs. What
   this does not cover is what the model does not contain: arithmetic overflow checks of debug builds where
   the model computes in unbounded N/Z (the code's wrapping and saturating operations are explicit in the model),
   allocation failure, the socket calls, and the agreement between model and code itself — those are what the
   correspondence streams (debug AND release builds, hang watchdog) decide (see DESIGN.md). *)
From UF Require Import Consts Base Frame Codec Sender Receiver SendRate FrameQueue HalfConn Endpoint
                       CodecTotal SenderProofs ReceiverProofs SendRateProofs FrameQueueProofs HcTotal HcFlushTotal HcStepTotal EndpointTotal.

Theorem C03_read_total : forall bs : list N, exists r, read_frame bs = Ok r.
Proof. exact read_frame_total. Qed.
Print Assumptions C03_read_total.

Theorem C03_acknowledge_total :
  forall w b m ops id, w <= MAX_PACKET_WINDOW_SIZE -> b < pow20 ->
    exists s', sender_acknowledge (fold_left sender_step ops (sender_new w b m)) id = Ok s'.
Proof. exact sender_acknowledge_total. Qed.

Theorem C03_rate_step_total :
  forall m ops now fb, MSS <= m -> exists c' r, src_step (fold_left rate_step ops (src_new m)) now fb = Ok (c', r).
Proof. exact rate_step_total. Qed.
Print Assumptions C03_rate_step_total.

Theorem C03_receiver_indices_in_range :
  forall w b m ops seq, 0 < w ->
    let r := fold_left receiver_step ops (receiver_new w b m) in
    (widx r seq < length (r_slots r))%nat.
Proof. intros w b m ops seq Hw r. apply widx_lt. apply receiver_reachable_wf. exact Hw. Qed.
Print Assumptions C03_receiver_indices_in_range.

(* The half-connection as a whole: any frame, any reachable state. `cfg_ok` bounds the configuration the way
   Client/Server construct it (frame ids < 2^32, packet ids < 2^20, windows within the protocol maxima);
   `frame_u32_ok` says an ack frame's frame-window base is a u32, which holds of every frame the reader returns. *)
Theorem C03_frame_never_panics :
  forall c seed ops f,
    cfg_ok c -> Forall op_ok ops -> frame_u32_ok f ->
    exists h' k, hc_handle_frame (fold_left hc_apply ops (hc_new c seed)) f = Ok (h', k).
Proof. exact hc_frame_never_panics. Qed.
Print Assumptions C03_frame_never_panics.

(* every operation, every reachable state: neither Panic nor Hang *)
Theorem C03_half_connection_total :
  forall c seed ops o,
    cfg_ok c -> Forall op_ok ops -> op_ok o ->
    hc_op_result (fold_left hc_apply ops (hc_new c seed)) o = Ok tt.
Proof. exact hc_never_panics_or_hangs. Qed.
Print Assumptions C03_half_connection_total.

Theorem C03_flush_terminates :
  forall c seed ops, cfg_ok c -> Forall op_ok ops -> exists r, hc_flush (fold_left hc_apply ops (hc_new c seed)) = Ok r.
Proof. exact hc_flush_never_hangs. Qed.

(* The Client as a whole: for every history of steps (any datagrams made of bytes, any clock values), flushes,
   sends and disconnect calls, every further step or call returns normally. *)
Theorem C03_client_total :
  forall ec nonce t0 seed ops o,
    nonce < pow32 -> Forall cl_op_ok ops -> cl_op_ok o ->
    cl_op_result (fold_left cl_apply ops (fst (client_connect ec nonce t0 seed))) o = Ok tt.
Proof. exact client_never_panics_or_hangs. Qed.
Print Assumptions C03_client_total.

Theorem C03_server_total :
  forall cfg t0 seed ops o,
    Forall sv_op_ok ops -> sv_op_ok o ->
    sv_op_result (fold_left sv_apply ops (server_new cfg t0 seed)) o = Ok tt.
Proof. exact server_never_panics_or_hangs. Qed.
Print Assumptions C03_server_total.

(* the configurations Client and Server actually construct (Endpoint.v, hc_config_of) satisfy cfg_ok *)
Theorem C03_endpoint_configs_ok :
  forall ec ln rn rmrr rmra, ln < pow32 -> cfg_ok (hc_config_of ec ln rn rmrr rmra).
Proof.
  intros ec ln rn rmrr rmra H. unfold cfg_ok, hc_config_of. cbn.
  repeat split; try assumption; try (vm_compute; congruence).
  change pow20 with 1048576. apply N.mod_lt. discriminate.
Qed.

Theorem C03_reachable_invariant :
  forall c seed ops, cfg_ok c -> Forall op_ok ops -> HcInv (fold_left hc_apply ops (hc_new c seed)).
Proof. exact hc_reachable_inv. Qed.

(* the frame queue alone: every operation total under its invariant *)
Theorem C03_ack_group_total :
  forall q s ack rtt, FqInv q -> exists q' s', fq_acknowledge_group q s ack rtt = Ok (q', s') /\ FqInv q' /\ same_shape q q'.
Proof. exact fq_acknowledge_group_total. Qed.

Theorem C03_advance_window_total :
  forall q nb rtt, FqInv q -> nb < pow32 -> exists q', fq_advance_transfer_window q nb rtt = Ok q' /\ FqInv q'.
Proof. exact fq_advance_transfer_window_total. Qed.

Theorem C03_forget_frames_total :
  forall q thresh rtt, FqInv q -> exists q', fq_forget_frames q thresh rtt = Ok q' /\ FqInv q'.
Proof. exact fq_forget_frames_total. Qed.

(* non-vacuity: a configuration as the endpoints build it, a history with real traffic (two sends, a flush that
   emits a frame, an acknowledgement of that frame that advances the window), and the state does change *)
Example C03_reachable_example :
  let c := mkHcConfig 4294967295 7 64 64 1048575 3 16 16 100000 100000 100000 None in
  let ops := [OpSend [1; 2; 3] 0 Reliable; OpSend [4] 1 Unreliable; OpStep 10; OpFlush;
              OpFrame (FAcks 0 0 [mkAg 4294967295 1 (nonce_bit 5 4294967295)]); OpStep 500; OpFlush] in
  cfg_ok c /\ Forall op_ok ops /\
  (let h := fold_left hc_apply (firstn 4 ops) (hc_new c 5) in
   (fq_wbase (h_fq h), fq_next (h_fq h), len (fq_frames (h_fq h)), s_total (h_snd h)) = (4294967295, 0, 1, 4)) /\
  (let h := fold_left hc_apply ops (hc_new c 5) in
   (fq_wbase (h_fq h), fq_next (h_fq h), len (fq_frames (h_fq h)), s_total (h_snd h)) = (0, 1, 2, 1)).
Proof.
  cbv zeta. split; [vm_compute; repeat split; discriminate|]. split; [repeat constructor; vm_compute; reflexivity|].
  split; vm_compute; reflexivity.
Qed.

Check C03_server_total :
  forall cfg t0 seed ops o, Forall sv_op_ok ops -> sv_op_ok o ->
    sv_op_result (fold_left sv_apply ops (server_new cfg t0 seed)) o = Ok tt.
Check C03_client_total :
  forall ec nonce t0 seed ops o, nonce < pow32 -> Forall cl_op_ok ops -> cl_op_ok o ->
    cl_op_result (fold_left cl_apply ops (fst (client_connect ec nonce t0 seed))) o = Ok tt.
Check C03_half_connection_total :
  forall c seed ops o, cfg_ok c -> Forall op_ok ops -> op_ok o ->
    hc_op_result (fold_left hc_apply ops (hc_new c seed)) o = Ok tt.
Check C03_frame_never_panics :
  forall c seed ops f, cfg_ok c -> Forall op_ok ops -> frame_u32_ok f ->
    exists h' k, hc_handle_frame (fold_left hc_apply ops (hc_new c seed)) f = Ok (h', k).
Check C03_read_total : forall bs : list N, exists r, read_frame bs = Ok r.
