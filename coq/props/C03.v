(* C03 — no network input can crash or hang an endpoint. Statements only.
   Proved (for ALL inputs): the frame reader never indexes out of range; PacketSender::acknowledge never runs past
   the window for any id; the rate controller's step never panics from a reachable state for any feedback; the
   receiver's slot and channel indices stay inside their arrays for any datagram stream. NOT proved: absence of
   panic sites and loop termination for the whole HalfConnection / Client / Server composition (frame-queue /
   reorder-buffer consistency, emit loops). Those are decided on the implementation (debug AND release builds,
   with a hang watchdog) by the hostile / pair streams and through the model correspondence, in which every
   modelled panic site and loop bound is explicit (partial, see DESIGN.md). *)
From UF Require Import Consts Base Frame Codec Sender Receiver SendRate
                       CodecTotal SenderProofs ReceiverProofs SendRateProofs.

Theorem C03_read_total : forall bs : list N, exists r, read_frame bs = Ok r.
Proof. exact read_frame_total. Qed.
Print Assumptions C03_read_total.

Theorem C03_acknowledge_total :
  forall w b m ops id, w <= MAX_PACKET_WINDOW_SIZE -> b < pow20 ->
    exists s', sender_acknowledge (fold_left sender_step ops (sender_new w b m)) id = Ok s'.
Proof. exact sender_acknowledge_total. Qed.

Theorem C03_rate_step_total :
  forall m ops now fb, MSS <= m -> exists c' r, src_step (fold_left rate_step ops (src_new m)) now fb = Ok (c', r).
Proof. exact rate_step_total. Qed.
Print Assumptions C03_rate_step_total.

Theorem C03_receiver_indices_in_range :
  forall w b m ops seq, 0 < w ->
    let r := fold_left receiver_step ops (receiver_new w b m) in
    (widx r seq < length (r_slots r))%nat.
Proof. intros w b m ops seq Hw r. apply widx_lt. apply receiver_reachable_wf. exact Hw. Qed.
Print Assumptions C03_receiver_indices_in_range.

Check C03_read_total : forall bs : list N, exists r, read_frame bs = Ok r.
