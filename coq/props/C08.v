(* C08 — the per-connection event stream is well-formed; nothing after the end. Statements only.
   Proved in full for the Client (LifecycleProofs.v): for EVERY sequence of steps (any datagrams, any clock
   values) and application calls, the concatenation of all events ever reported is accepted by the automaton
   Idle -Connect-> Connected -Receive*-> Connected -Disconnect|Error-> Ended (Idle -Error-> Ended for a refused
   or timed-out handshake), and nothing is accepted after Ended. For the Server the same grammar per address is
   decided on the implementation by the lifecycle / forge / limits streams with the grammar oracle, plus the
   per-handler lemmas of C07/C09 (partial for the server side). *)
From UF Require Import Consts Base Frame Sender HalfConn Endpoint LifecycleProofs.

Theorem C08_client_step_grammar :
  forall c vnow inbox c' evs sends,
    client_step c vnow inbox = Ok (c', evs, sends) -> run (cphase c) evs = Some (cphase c').
Proof. exact client_step_grammar. Qed.
Print Assumptions C08_client_step_grammar.

Theorem C08_client_event_stream_wellformed :
  forall ec nonce t0 seed ops,
    let '(c, log) := fold_left client_apply ops (fst (client_connect ec nonce t0 seed), []) in
    exists p, run Idle log = Some p /\ (p = cphase c \/ (p = Idle /\ cphase c = Ended)).
Proof. exact client_event_stream_wellformed. Qed.
Print Assumptions C08_client_event_stream_wellformed.

(* the automaton itself: what "well-formed" means *)
Example C08_grammar_examples :
  run Idle [EvConnect 0; EvReceive 0 [1]; EvReceive 0 []; EvDisconnect 0] = Some Ended /\
  run Idle [EvError 0 1] = Some Ended /\
  run Idle [EvReceive 0 [1]] = None /\ run Idle [EvDisconnect 0] = None /\
  run Idle [EvConnect 0; EvDisconnect 0; EvReceive 0 [1]] = None /\
  run Idle [EvConnect 0; EvError 0 0; EvConnect 0] = None.
Proof. repeat split; reflexivity. Qed.

Check C08_client_event_stream_wellformed.
