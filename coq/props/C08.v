(* C08 — the per-connection event stream is well-formed; nothing after the end. Statements only.
   Proved in full for the Client (LifecycleProofs.v): for EVERY sequence of steps (any datagrams, any clock
   values) and application calls, the concatenation of all events ever reported is accepted by the automaton
   Idle -Connect-> Connected -Receive*-> Connected -Disconnect|Error-> Ended (Idle -Error-> Ended for a refused
   or timed-out handshake), and nothing is accepted after Ended. For the Server (ServerGrammar.v): for EVERY
   history of steps (any datagrams from any addresses, any clock values), flushes, drops, sends and disconnect
   calls, and EVERY address, the events about that address — with the application's own drop calls interleaved —
   are accepted by the per-connection automaton Idle -Connect-> Conn -Receive*-> Conn -Disconnect|Error|drop-> Idle
   (an Error while Idle is a refused or timed-out handshake): Receive and Disconnect only inside a connection, a
   new Connect only after the previous connection has ended. The invariant: the address table has no duplicate
   addresses and points at objects of that address, every object that is not finished is in the table, and the
   automaton's state is "connected" exactly when the address is looked up to an Active or Closing object. *)
From UF Require Import Consts Base Frame Codec Sender HalfConn Endpoint LifecycleProofs EndpointTotal ServerGrammar.

Theorem C08_client_step_grammar :
  forall c vnow inbox c' evs sends,
    client_step c vnow inbox = Ok (c', evs, sends) -> run (cphase c) evs = Some (cphase c').
Proof. exact client_step_grammar. Qed.
Print Assumptions C08_client_step_grammar.

Theorem C08_client_event_stream_wellformed :
  forall ec nonce t0 seed ops,
    let '(c, log) := fold_left client_apply ops (fst (client_connect ec nonce t0 seed), []) in
    exists p, run Idle log = Some p /\ (p = cphase c \/ (p = Idle /\ cphase c = Ended)).
Proof. exact client_event_stream_wellformed. Qed.
Print Assumptions C08_client_event_stream_wellformed.

Theorem C08_server_event_stream_wellformed :
  forall (A : N) cfg t0 seed (ops : list sv_op),
    exists p, srun A PIdle (snd (fold_left (sv_trace_op) ops (server_new cfg t0 seed, []))) = Some p.
Proof. exact server_event_grammar. Qed.
Print Assumptions C08_server_event_stream_wellformed.

(* non-vacuity: what the server automaton rejects, and a history with two connections of one address (ended by the
   peer's disconnect and by the application's drop) and a refused request of another *)
Example C08_server_grammar_examples :
  srun 5 PIdle [TEv (EvConnect 5); TEv (EvReceive 5 [1]); TEv (EvDisconnect 5); TEv (EvConnect 5)] = Some PConn /\
  srun 5 PIdle [TEv (EvConnect 5); TEv (EvConnect 5)] = None /\
  srun 5 PIdle [TEv (EvReceive 5 [1])] = None /\ srun 5 PIdle [TEv (EvDisconnect 5)] = None /\
  srun 5 PIdle [TEv (EvConnect 5); TEv (EvError 5 0); TEv (EvReceive 5 [])] = None /\
  srun 5 PIdle [TEv (EvConnect 6); TEv (EvReceive 6 [2]); TEv (EvError 5 3)] = Some PIdle.
Proof. repeat split; reflexivity. Qed.

Example C08_server_history_example :
  let cfg := mkSvConfig 4 2 true (mkEpConfig 100000 100000 1000 10000 false 1000 20000) in
  let syn := write_handshake_syn PROTOCOL_VERSION 77 100000 1000 10000 in
  let ops := [SvStep 0 [(5, syn)] [99]; SvStep 10 [(5, write_handshake_ack 99)] []; SvStep 20 [(5, write_disconnect)] [];
              SvStep 30000 [] []; SvStep 30010 [(5, syn)] [100]; SvStep 30020 [(5, write_handshake_ack 100)] []; SvDrop 5;
              SvStep 30030 [(6, write_handshake_syn 3 1 1 1 1)] []] in
  snd (fold_left sv_trace_op ops (server_new cfg 0 1, []))
  = [TEv (EvConnect 5); TEv (EvDisconnect 5); TEv (EvConnect 5); TDrop 5; TEv (EvError 6 2)].
Proof. vm_compute. reflexivity. Qed.

(* the automaton itself: what "well-formed" means *)
Example C08_grammar_examples :
  run Idle [EvConnect 0; EvReceive 0 [1]; EvReceive 0 []; EvDisconnect 0] = Some Ended /\
  run Idle [EvError 0 1] = Some Ended /\
  run Idle [EvReceive 0 [1]] = None /\ run Idle [EvDisconnect 0] = None /\
  run Idle [EvConnect 0; EvDisconnect 0; EvReceive 0 [1]] = None /\
  run Idle [EvConnect 0; EvError 0 0; EvConnect 0] = None.
Proof. repeat split; reflexivity. Qed.

Check C08_server_event_stream_wellformed :
  forall (A : N) cfg t0 seed (ops : list sv_op),
    exists p, srun A PIdle (snd (fold_left (sv_trace_op) ops (server_new cfg t0 seed, []))) = Some p.
Check C08_client_event_stream_wellformed.
