(* C18 — unverified addresses cannot use the server as an amplifier. Statements only; proofs in EndpointProofs.v.
   The per-address byte argument: an unverified address is untracked or pending. Untracked: only a connection
   request produces output (one 10-byte error or one 25-byte SYN+ACK). Pending: only the timer produces output,
   one stored 25-byte SYN+ACK per expiry with a budget of HANDSHAKE_RESEND_COUNT. A connection request is exactly
   MAX_FRAME_SIZE = 1472 bytes. Hence bytes sent <= 25 * 11 = 275 < 1472 <= bytes received per accepted request
   and 10 < 1472 per refused one. The theorems below are the four facts, and C18_no_amplification is the
   summation over whole histories (ServerBytes.v): for EVERY history of server steps (any datagrams from any
   addresses, any clock values), flushes and application calls, and every address A that has not completed a
   handshake in it, 1472 * (bytes sent to A) <= 275 * (bytes received from A). The invariant is a potential:
   bytes sent to A + 25 * (retransmissions the timer heap still holds for A's pending entry), carried through
   the binary heap's sift operations by HeapCount.v. *)
From UF Require Import Consts Base Frame Codec Heap HalfConn Endpoint EndpointProofs EndpointTotal ServerBytes.

Theorem C18_request_is_full_size :
  forall bs v n a b c, read_frame bs = Ok (Some (FSyn v n a b c)) -> len bs = MAX_FRAME_SIZE.
Proof. exact syn_requires_full_size. Qed.
Print Assumptions C18_request_is_full_size.

Theorem C18_reply_sizes :
  (forall na n a b c, len (write_handshake_syn_ack na n a b c) = 25) /\
  (forall na e, len (write_handshake_error na e) = 10) /\
  (SERVER_HANDSHAKE_RESEND_COUNT + 1) * 25 < MAX_FRAME_SIZE /\ 10 < MAX_FRAME_SIZE.
Proof.
  split; [exact syn_ack_len|]. split; [exact hs_error_len|]. exact reply_budget_below_request.
Qed.

Theorem C18_untracked_address_only_answers_requests :
  forall s a addr f now vnow,
    sv_lookup s addr = None -> (forall v n x y z, f <> FSyn v n x y z) ->
    sv_handle_frame s a addr f now vnow = Ok (s, a).
Proof. exact untracked_address_ignored. Qed.

Theorem C18_pending_address_gets_nothing_for_frames :
  forall s a addr f now vnow id ln rn rmrr rmra reply,
    sv_lookup s addr = Some id -> so_state (sv_obj_get s id) = SvPending ln rn rmrr rmra reply ->
    (forall na, f = FHsAck na -> na <> ln) ->
    sv_handle_frame s a addr f now vnow = Ok (s, a).
Proof. exact pending_address_ignores. Qed.
Print Assumptions C18_pending_address_gets_nothing_for_frames.

Theorem C18_pending_resend_budget :
  forall s a ev now ln rn rmrr rmra reply,
    so_state (sv_obj_get s (rq_uid ev)) = SvPending ln rn rmrr rmra reply -> rq_frag ev = 0 ->
    let r := sv_handle_event s a ev now in
    (0 < rq_count ev ->
       ac_sends (snd r) = ac_sends a ++ [(so_addr (sv_obj_get s (rq_uid ev)), reply)] /\
       fst r = sv_push_event s (mkRq (rq_uid ev) 0 (now + SERVER_HANDSHAKE_RESEND_INTERVAL_MS) (rq_count ev - 1))) /\
    (rq_count ev = 0 -> ac_sends (snd r) = ac_sends a /\
       fst r = sv_remove_addr (sv_set_obj s (rq_uid ev) SvFin) (so_addr (sv_obj_get s (rq_uid ev)))).
Proof. exact pending_resend_budget. Qed.

(* whole histories *)
Theorem C18_no_amplification :
  forall (A : N) cfg t0 seed (ops : list sv_op),
    let '(_, E, Ou) := fold_left (sv_run_op) ops (server_new cfg t0 seed, [], []) in
    ~ In (EvConnect A) E -> 1472 * outb A Ou <= 275 * received_total A ops.
Proof. exact no_amplification. Qed.
Print Assumptions C18_no_amplification.

(* non-vacuity: a spoofed address sends one request and then nothing; the server answers, retransmits ten times
   2 s apart, gives up — 275 bytes out for 1472 in, no Connect, the bound holds with room to spare; a second address
   sending garbage gets nothing *)
Example C18_history_example :
  let cfg := mkSvConfig 4 2 true (mkEpConfig 100000 100000 1000 10000 false 1000 20000) in
  let syn := write_handshake_syn PROTOCOL_VERSION 77 100000 1000 10000 in
  let ops := SvStep 0 [(5, syn); (6, [1; 2; 3])] [99]
             :: map (fun k => SvStep (2000 * k) [] []) [1; 2; 3; 4; 5; 6; 7; 8; 9; 10; 11; 12] in
  let '(_, E, Ou) := fold_left sv_run_op ops (server_new cfg 0 1, [], []) in
  E = [EvError 5 0] /\ outb 5 Ou = 275 /\ received_total 5 ops = 1472 /\ outb 6 Ou = 0 /\ received_total 6 ops = 3.
Proof. vm_compute. repeat split. Qed.

Check C18_no_amplification :
  forall (A : N) cfg t0 seed (ops : list sv_op),
    let '(_, E, Ou) := fold_left (sv_run_op) ops (server_new cfg t0 seed, [], []) in
    ~ In (EvConnect A) E -> 1472 * outb A Ou <= 275 * received_total A ops.
Check C18_request_is_full_size.
