(* C18 — unverified addresses cannot use the server as an amplifier. Statements only; proofs in EndpointProofs.v.
   The per-address byte argument: an unverified address is untracked or pending. Untracked: only a connection
   request produces output (one 10-byte error or one 25-byte SYN+ACK). Pending: only the timer produces output,
   one stored 25-byte SYN+ACK per expiry with a budget of HANDSHAKE_RESEND_COUNT. A connection request is exactly
   MAX_FRAME_SIZE = 1472 bytes. Hence bytes sent <= 25 * 11 = 275 < 1472 <= bytes received per accepted request
   and 10 < 1472 per refused one. The theorems below are the four facts; the summation over a whole history is
   checked on the implementation by the per-address byte-count oracle. *)
From UF Require Import Consts Base Frame Codec Heap HalfConn Endpoint EndpointProofs.

Theorem C18_request_is_full_size :
  forall bs v n a b c, read_frame bs = Ok (Some (FSyn v n a b c)) -> len bs = MAX_FRAME_SIZE.
Proof. exact syn_requires_full_size. Qed.
Print Assumptions C18_request_is_full_size.

Theorem C18_reply_sizes :
  (forall na n a b c, len (write_handshake_syn_ack na n a b c) = 25) /\
  (forall na e, len (write_handshake_error na e) = 10) /\
  (SERVER_HANDSHAKE_RESEND_COUNT + 1) * 25 < MAX_FRAME_SIZE /\ 10 < MAX_FRAME_SIZE.
Proof.
  split; [exact syn_ack_len|]. split; [exact hs_error_len|]. exact reply_budget_below_request.
Qed.

Theorem C18_untracked_address_only_answers_requests :
  forall s a addr f now vnow,
    sv_lookup s addr = None -> (forall v n x y z, f <> FSyn v n x y z) ->
    sv_handle_frame s a addr f now vnow = Ok (s, a).
Proof. exact untracked_address_ignored. Qed.

Theorem C18_pending_address_gets_nothing_for_frames :
  forall s a addr f now vnow id ln rn rmrr rmra reply,
    sv_lookup s addr = Some id -> so_state (sv_obj_get s id) = SvPending ln rn rmrr rmra reply ->
    (forall na, f = FHsAck na -> na <> ln) ->
    sv_handle_frame s a addr f now vnow = Ok (s, a).
Proof. exact pending_address_ignores. Qed.
Print Assumptions C18_pending_address_gets_nothing_for_frames.

Theorem C18_pending_resend_budget :
  forall s a ev now ln rn rmrr rmra reply,
    so_state (sv_obj_get s (rq_uid ev)) = SvPending ln rn rmrr rmra reply -> rq_frag ev = 0 ->
    let r := sv_handle_event s a ev now in
    (0 < rq_count ev ->
       ac_sends (snd r) = ac_sends a ++ [(so_addr (sv_obj_get s (rq_uid ev)), reply)] /\
       fst r = sv_push_event s (mkRq (rq_uid ev) 0 (now + SERVER_HANDSHAKE_RESEND_INTERVAL_MS) (rq_count ev - 1))) /\
    (rq_count ev = 0 -> ac_sends (snd r) = ac_sends a /\
       fst r = sv_remove_addr (sv_set_obj s (rq_uid ev) SvFin) (so_addr (sv_obj_get s (rq_uid ev)))).
Proof. exact pending_resend_budget. Qed.

Check C18_request_is_full_size.
