(* C09 — disconnect() flushes reliable data before both sides close. Statements only (EndpointProofs.v).
   Proved: a flushing disconnect only turns into a disconnect request once the half-connection has nothing
   pending (send queue, pending queue and resend queue empty); the side that receives the request delivers
   everything it holds before it reports Disconnect; the closing timers' exact behaviour (retry budget). The
   end-to-end ordering (acknowledged => complete at the peer) and the 22 s bound are decided on the
   implementation by the lifecycle stream with the flush-order oracle and through the correspondence (partial). *)
From UF Require Import Consts Base Frame Sender Heap HalfConn Endpoint EndpointProofs.

Theorem C09_flush_disconnect_waits :
  forall c a now vnow ln rn h t0 to c' a',
    cl_state_ c = ClActive ln rn h t0 to (Some false) -> hc_is_send_pending h = true ->
    cl_step_if_active c a now vnow = Ok (c', a') ->
    exists h', cl_state_ c' = ClActive ln rn h' t0 to (Some false).
Proof. exact client_flush_disconnect_waits. Qed.
Print Assumptions C09_flush_disconnect_waits.

Theorem C09_nothing_pending_means_empty :
  forall h, hc_is_send_pending h = false -> s_queue (h_snd h) = [] /\ h_pq h = [] /\ h_rq h = [].
Proof. exact nothing_pending_means_empty. Qed.

Theorem C09_server_delivers_before_disconnect :
  forall s a addr now id h t0 to d,
    sv_lookup s addr = Some id -> so_state (sv_obj_get s id) = SvActive h t0 to d ->
    ac_events (snd (sv_handle_disconnect s a addr now)) =
    ac_events a ++ map (EvReceive addr) (snd (hc_receive h)) ++ [EvDisconnect addr].
Proof. exact server_disconnect_delivers_first. Qed.

Theorem C09_client_delivers_before_disconnect :
  forall c a now ln rn h t0 to d,
    cl_state_ c = ClActive ln rn h t0 to d ->
    ca_events (snd (cl_handle_disconnect c a now)) = ca_events a ++ map (EvReceive 0) (snd (hc_receive h)) ++ [EvDisconnect 0] /\
    cl_state_ (fst (cl_handle_disconnect c a now)) = ClClosed (now + CLIENT_CLOSED_TIMEOUT_MS).
Proof. exact client_disconnect_delivers_first. Qed.
Print Assumptions C09_client_delivers_before_disconnect.

(* the retry budget: 1 + DISCONNECT_RESEND_COUNT transmissions DISCONNECT_RESEND_INTERVAL_MS apart *)
Theorem C09_retry_budget_constants :
  CLIENT_DISCONNECT_RESEND_COUNT = 10 /\ CLIENT_DISCONNECT_RESEND_INTERVAL_MS = 2000 /\
  SERVER_DISCONNECT_RESEND_COUNT = 10 /\ SERVER_DISCONNECT_RESEND_INTERVAL_MS = 2000 /\
  (CLIENT_DISCONNECT_RESEND_COUNT + 1) * CLIENT_DISCONNECT_RESEND_INTERVAL_MS = 22000.
Proof. repeat split; reflexivity. Qed.

Check C09_flush_disconnect_waits.
