(* C06 — receiver memory stays within max_receive_alloc; senders respect it. Statements only. *)
From Coq Require Import ZArith Lia ZifyBool ZifyN ZifyNat.
From UF Require Import Consts Base Frame Sender Receiver HalfConn SenderProofs ReceiverProofs HcTotal HcLevel.

(* Receiver half: for EVERY stream of datagrams (hostile ones included: any ids, any claimed fragment
   counts, never completing), reads and resynchronisation requests, the allocation counter is the sum of
   the per-slot allocations and never exceeds the limit rounded up to a whole fragment. *)
Theorem C06_recv_alloc_bounded :
  forall (w b m : N) (ops : list receiver_op), 0 < w ->
    r_alloc (fold_left receiver_step ops (receiver_new w b m)) <= ceil_frag_r m.
Proof. exact receiver_alloc_bounded. Qed.
Print Assumptions C06_recv_alloc_bounded.

Theorem C06_recv_alloc_is_sum :
  forall (w b m : N) (ops : list receiver_op), 0 < w ->
    let r := fold_left receiver_step ops (receiver_new w b m) in
    r_alloc r = slots_alloc (r_slots r) /\ length (r_slots r) = N.to_nat (r_wsize r).
Proof.
  intros w b m ops Hw r. pose proof (receiver_reachable_wf w b m ops Hw) as W. split.
  - exact (rw_alloc _ W).
  - exact (rw_len _ W).
Qed.

(* Sender half: for every send history, every flush-id pattern and every acknowledgement (hostile ones
   included), the fragment-rounded bytes outstanding never exceed the peer's advertised limit (rounded to a
   fragment), and at most window-size (<= 4096) packets are outstanding. *)
Theorem C06_send_bounds :
  forall (w b m : N) (ops : list sender_op),
    w <= MAX_PACKET_WINDOW_SIZE -> b < pow20 ->
    let s := fold_left sender_step ops (sender_new w b m) in
    s_alloc s = window_alloc s /\ s_alloc s <= ceil_frag m /\ len (s_win s) <= w /\ len (s_win s) <= 4096.
Proof.
  intros w b m ops Hw Hb s. pose proof (sender_reachable_wf w b m ops Hw Hb) as W.
  assert (Em : s_max_alloc s = ceil_frag m /\ s_wsize s = w).
  { subst s. destruct (sender_fold_consts ops (sender_new w b m)) as [E1 E2]. rewrite E1, E2. split; reflexivity. }
  destruct Em as [Em Ew]. cbv [MAX_PACKET_WINDOW_SIZE] in Hw.
  pose proof (wf_alloc _ W). pose proof (wf_alloc_le _ W). pose proof (wf_win_le _ W).
  unfold s in *. repeat split; try assumption; lia.
Qed.
Print Assumptions C06_send_bounds.

(* The same at the level of the HalfConnection: in EVERY state reached by ANY sequence of send / receive / step /
   flush / frame operations (frames with any contents), receive memory is within the limit, and the send side
   keeps the fragment-rounded bytes outstanding within the peer's limit and the window within its size. *)
Theorem C06_half_connection_recv_bounded :
  forall c seed ops, 0 < cfg_rx_packet_window c ->
    let h := fold_left hc_apply ops (hc_new c seed) in
    r_alloc (h_rcv h) <= ceil_frag_r (cfg_rx_alloc_limit c) /\ RWf (h_rcv h).
Proof. exact hc_recv_alloc_bounded. Qed.
Print Assumptions C06_half_connection_recv_bounded.

Theorem C06_half_connection_send_bounded :
  forall c seed ops, cfg_ok c -> Forall op_ok ops ->
    let h := fold_left hc_apply ops (hc_new c seed) in
    s_alloc (h_snd h) <= s_max_alloc (h_snd h) /\ len (s_win (h_snd h)) <= s_wsize (h_snd h).
Proof. intros c seed ops Hc Ho h. destruct (hc_send_buffer_exact c seed ops Hc Ho) as (_ & _ & A & B). split; assumption. Qed.

(* both sides round the limit the same way, and the sender's per-packet charge is what the receiver charges
   for the packet's first datagram *)
Theorem C06_same_rounding : forall m : N, ceil_frag m = ceil_frag_r m.
Proof. reflexivity. Qed.

Example C06_nonvacuous :
  r_alloc (fold_left receiver_step [RDatagram (mkDg 20 0 0 0 0 3 (repeatN 7 1448)); RDatagram (mkDg 21 1 0 0 0 0 [1;2;3])]
                     (receiver_new 16 20 10000)) = 5795.
Proof. vm_compute. reflexivity. Qed.

Check C06_recv_alloc_bounded : forall (w b m : N) (ops : list receiver_op), 0 < w ->
    r_alloc (fold_left receiver_step ops (receiver_new w b m)) <= ceil_frag_r m.
Check C06_send_bounds : forall (w b m : N) (ops : list sender_op), w <= MAX_PACKET_WINDOW_SIZE -> b < pow20 ->
    let s := fold_left sender_step ops (sender_new w b m) in
    s_alloc s = window_alloc s /\ s_alloc s <= ceil_frag m /\ len (s_win s) <= w /\ len (s_win s) <= 4096.
