(* C12 — transmission behaviour matches the send mode. Statements only (proofs: HcLemmas.v).
   Proved here: the sender-side mechanisms (staleness test, resend flag, dead references); that each
   Unreliable/TimeSensitive fragment occurs at most once in the emitted frames is checked on the
   implementation's frames by the oracle and through the model correspondence (see DESIGN.md). *)
From UF Require Import Consts Base Frame Codec Sender Heap FrameQueue HalfConn HcLemmas ResendKept HcTotal EmitRefs TsEpoch PullBegins NoLeftover.

(* a packet leaves the send queue with the next sequence id, never as a stale TimeSensitive packet, and is
   marked for retransmission exactly when its mode is Persistent or Reliable *)
Theorem C12_emit_packet :
  forall s fid s' uid resend,
    sender_emit_packet s fid = (s', Some (uid, resend)) ->
    exists e q', fst (drop_stale (s_queue s) fid (s_total s)) = e :: q' /\
      s_queue s' = q' /\ uid = s_base_uid s + len (s_win s) /\
      s_next s' = pid_add (s_next s) 1 /\ s_base s' = s_base s /\ s_base_uid s' = s_base_uid s /\
      (exists we, s_win s' = s_win s ++ [we] /\ pp_data (we_packet we) = se_data e /\ pp_chan (we_packet we) = se_chan e /\
                  pp_seq (we_packet we) = s_next s /\ pp_acked (we_packet we) = [] /\
                  pp_last (we_packet we) = num_fragments (len (se_data e)) - 1) /\
      resend = is_resend (se_mode e) /\
      (se_mode e = TimeSensitive -> se_flush e = fid).
Proof. exact emit_packet_spec. Qed.
Print Assumptions C12_emit_packet.

(* every pending-queue entry created for a packet carries that packet's resend flag: fragments of Unreliable and
   TimeSensitive packets are never entered in the resend queue *)
Theorem C12_pending_entries_flag :
  forall uid resend i n, Forall (fun p => pq_resend p = resend /\ pq_uid p = uid) (pq_entries uid resend i n).
Proof. exact pq_entries_resend. Qed.

(* processing an acknowledgement marks the fragment; a marked fragment, or one whose packet the peer has moved
   past, is dropped from the resend queue without being transmitted *)
Theorem C12_acked_fragment_marked :
  forall s uid frag e, sender_lookup s uid = Some e ->
    exists e', sender_lookup (sender_ack_fragment s uid frag) uid = Some e' /\ pp_fragment_acked (we_packet e') frag = true.
Proof. exact ack_fragment_sets. Qed.

Theorem C12_released_packet_dead : forall s uid, uid < s_base_uid s -> sender_lookup s uid = None.
Proof. exact released_lookup_none. Qed.

Theorem C12_dead_entry_not_resent :
  forall f e ent rq',
    heap_peek (h_rq (es_h e)) = Some ent -> heap_pop (h_rq (es_h e)) = Some (ent, rq') ->
    (sender_lookup (h_snd (es_h e)) (rq_uid ent) = None \/
     exists we, sender_lookup (h_snd (es_h e)) (rq_uid ent) = Some we /\ pp_fragment_acked (we_packet we) (rq_frag ent) = true) ->
    resend_loop (S f) e = resend_loop f (mkEs (set_rq (es_h e) rq') (es_ip e) (es_out e)).
Proof. exact resend_loop_skips_dead. Qed.
Print Assumptions C12_dead_entry_not_resent.


(* the retransmission obligation is never dropped: a fragment that is scheduled for (re)transmission — in the
   resend queue, or in the pending queue with the resend flag — stays scheduled through EVERY sequence of
   HalfConnection operations (sends, receives, steps, flushes, frames with any contents) until it has been
   acknowledged or its packet has been released from the send window (ResendKept.v) *)
Theorem C12_retransmission_kept :
  forall u f ops h,
    emitted u (h_snd h) -> sched u f h ->
    let h' := fold_left hc_apply ops h in sched u f h' \/ fin u f (h_snd h').
Proof. exact retransmission_kept. Qed.
Print Assumptions C12_retransmission_kept.

(* the link between "this frame was acknowledged" and "these fragments were acknowledged" (EmitRefs.v): push()
   records a fragment's reference in the frame that carries its datagram, if and only if the fragment is to be
   retransmitted; a refused push leaves the fragment in no frame; finalize() logs exactly the recorded references *)
Theorem C12_push_records_reference :
  forall e uid frag resend e' r we,
  sender_lookup (h_snd (es_h e)) uid = Some we ->
  dfe_push e uid frag resend = Ok (e', r) ->
  let dg := pp_datagram (we_packet we) frag in
  let ref := mkFragRef uid frag in
  match r with
  | None =>
      exists f, es_ip e' = Some f /\
        ((exists f0, es_ip e = Some f0 /\ ip_seq f = ip_seq f0 /\ ip_enc f = ip_enc f0 ++ encode_datagram dg /\ ip_count f = ip_count f0 + 1 /\
                     ip_refs f = (if resend then ip_refs f0 ++ [ref] else ip_refs f0) /\ es_out e' = es_out e) \/
         (ip_enc f = encode_datagram dg /\ ip_count f = 1 /\ ip_refs f = (if resend then [ref] else []) /\
          es_out e' = es_out (dfe_finalize e)))
  | Some _ => es_ip e' = None /\ es_out e' = es_out (dfe_finalize e)
  end.
Proof. exact dfe_push_records_reference. Qed.
Print Assumptions C12_push_records_reference.

Theorem C12_finalize_logs_recorded_refs :
  forall e f, es_ip e = Some f ->
  h_fq (es_h (dfe_finalize e)) =
    fq_push (h_fq (es_h e)) (len (build_data_frame (ip_seq f) (ip_nonce f) (ip_enc f) (ip_count f))) (h_now (es_h e)) (ip_refs f) (ip_nonce f) /\
  es_out (dfe_finalize e) = es_out e ++ [build_data_frame (ip_seq f) (ip_nonce f) (ip_enc f) (ip_count f)].
Proof. exact dfe_finalize_logs_recorded_refs. Qed.

(* ---------- TimeSensitive packets and flush epochs (TsEpoch.v) ---------- *)
Theorem C12_send_stamps_epoch :
  forall h d c m,
  s_queue (h_snd (hc_send h d c m)) = s_queue (h_snd h) ++ [mkSendEntry d c m (h_flush_id h)] /\
  h_flush_id (hc_send h d c m) = h_flush_id h.
Proof. exact send_stamps_epoch. Qed.

Theorem C12_step_next_epoch :
  forall h now h', hc_step h now = Ok h' -> h_flush_id h' = add32 (h_flush_id h) 1 /\ h_snd h' = h_snd h.
Proof. exact step_next_epoch. Qed.

(* the only place that takes packets off the send queue: what it removes in front of the packet it hands out is
   TimeSensitive and of another epoch; a TimeSensitive packet is handed out only in the epoch it was stamped with *)
Theorem C12_time_sensitive_epoch :
  forall s fid s' uid r, sender_emit_packet s fid = (s', Some (uid, r)) ->
  exists dropped e rest,
    s_queue s = dropped ++ e :: rest /\ s_queue s' = rest /\ Forall (stale_ts fid) dropped /\
    (se_mode e = TimeSensitive -> se_flush e = fid) /\ r = is_resend (se_mode e) /\
    exists we, nth_error (s_win s') (length (s_win s)) = Some we /\ pp_data (we_packet we) = se_data e.
Proof. exact emit_packet_epoch. Qed.
Print Assumptions C12_time_sensitive_epoch.

Theorem C12_nothing_else_leaves_the_queue :
  forall s fid s', sender_emit_packet s fid = (s', None) ->
  exists dropped, s_queue s = dropped ++ s_queue s' /\ Forall (stale_ts fid) dropped.
Proof. exact emit_packet_none. Qed.

(* emit_data_frames takes a packet off the send queue only after check_push() succeeded; after that the push of a
   fragment cannot fail: it ends up in the frame under construction (and, if resendable, in its reference list) *)
Theorem C12_check_push_guarantees_push :
  forall e e' uid frag resend we,
  HcInv (es_h e) -> dfe_check_push e = (e', None) -> sender_lookup (h_snd (es_h e)) uid = Some we ->
  e' = e /\ exists e1 ip, dfe_push e uid frag resend = Ok (e1, None) /\ es_ip e1 = Some ip /\
    (resend = true -> In (mkFragRef uid frag) (ip_refs ip)).
Proof. exact check_push_guarantees_push. Qed.
Print Assumptions C12_check_push_guarantees_push.

(* flush() never abandons a data frame under construction: what emit_data_frames returns comes from an emitter state
   with no frame in progress (every early return finishes the frame first, the regular end finishes it explicitly) *)
Theorem C12_flush_finishes_frames :
  forall fuel h out h' out' ok, emit_data_frames fuel h out = Ok (h', out', ok) ->
  exists e, es_h e = h' /\ es_out e = out' /\ es_ip e = None.
Proof. exact emit_data_frames_no_leftover. Qed.
Print Assumptions C12_flush_finishes_frames.

(* non-vacuity: a TimeSensitive packet flushed in the epoch of its send() goes out as a 19-byte frame; after one
   more step() the flush emits nothing and the packet is gone from the queue *)
Example C12_ts_epoch_run :
  let c := mkHcConfig 4294967295 7 64 64 1048575 3 16 16 100000 100000 100000 None in
  let h0 := fold_left hc_apply [OpStep 10; OpStep 300] (hc_new c 5) in
  let fresh := hc_apply h0 (OpSend [1; 2; 3] 0 TimeSensitive) in
  let stale := fold_left hc_apply [OpSend [1; 2; 3] 0 TimeSensitive; OpStep 400] h0 in
  match hc_flush fresh, hc_flush stale with
  | Ok (_, o1), Ok (h2, o2) => (map len o1, o2, len (s_queue (h_snd stale)), len (s_queue (h_snd h2))) = ([19], [], 1, 0)
  | _, _ => False
  end.
Proof. vm_compute. reflexivity. Qed.

Check C12_emit_packet.
