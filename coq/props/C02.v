(* C02 — Reliable packets are never skipped and are eventually delivered. Statements only.
   Proved: the receive window only ever advances over slots that hold no undelivered packet (so a stored
   Reliable packet is never skipped by the receiver), resynchronisation stops at the first stored entry, dead
   references are never retransmitted, sync frames are due whenever something is unacknowledged, and the rate
   floor keeps the credit refilling. The end-to-end "delivered before any later packet" and the bounded-time
   delivery are decided on the implementation by the reliable-order and stall oracles (partial). *)
From UF Require Import Consts Base Frame Sender Receiver FrameQueue SendRate HalfConn HcLemmas SendRateProofs ResendKept HcTotal SyncSkip.

(* the scan that decides how far receive() advances the window passes a slot only if its data flag is clear *)
Theorem C02_window_never_passes_stored_packet :
  forall n seq nb r,
    recv_scan n seq nb r = nb \/
    exists j, (j < n)%nat /\ recv_scan n seq nb r = pid_add (iter_id seq j) 1 /\
              sl_dflag (get_slot r (widx r (iter_id seq j))) = false.
Proof. exact recv_scan_spec. Qed.
Print Assumptions C02_window_never_passes_stored_packet.

(* a sync frame carrying the frame id and/or packet id is emitted whenever something is outstanding, the sync
   timeout has elapsed and the credit is non-negative *)
Theorem C02_sync_due :
  forall h out,
    N.max (h_rto h) MIN_SYNC_TIMEOUT_MS <= h_now h - h_sync_base h ->
    (fq_next (h_fq h) <> fq_wbase (h_fq h) \/ (s_next (h_snd h) <> s_base (h_snd h) /\ h_rq h = [] /\ h_pq h = [])) ->
    (0 <= h_credit h)%Z ->
    exists bytes, emit_sync_frame h out = (set_sync_base (set_credit h (h_credit h - Z.of_N (len bytes))%Z) (h_now h), out ++ [bytes], true)
                  /\ (exists nf np, bytes = Codec.write_sync nf np /\ (nf <> None \/ np <> None)).
Proof. exact sync_due. Qed.
Print Assumptions C02_sync_due.

(* the allowed rate never falls below s/64 through a no-feedback expiry: credit keeps refilling *)
Theorem C02_rate_floor :
  forall c now c', SrInv c -> MINIMUM_RATE <= sr_max_rate c -> src_nofeedback_expired c now = Ok c' ->
    sr_rate c' = sr_rate c \/ MINIMUM_RATE <= sr_rate c'.
Proof. intros c now c' Hi Hm H. destruct (expiry_bounds c now c' Hi Hm H) as [_ [_ [_ G]]]. exact G. Qed.


(* the retransmission obligation is never dropped: a fragment that is scheduled for (re)transmission — in the
   resend queue, or in the pending queue with the resend flag — stays scheduled through EVERY sequence of
   HalfConnection operations (sends, receives, steps, flushes, frames with any contents) until it has been
   acknowledged or its packet has been released from the send window (ResendKept.v) *)
Theorem C02_retransmission_kept :
  forall u f ops h,
    emitted u (h_snd h) -> sched u f h ->
    let h' := fold_left hc_apply ops h in sched u f h' \/ fin u f (h_snd h').
Proof. exact retransmission_kept. Qed.
Print Assumptions C02_retransmission_kept.

Check C02_window_never_passes_stored_packet.

(* the sender asks the receiver to move past unreceived packets (next_packet_id of a sync frame) only when nothing is
   scheduled for (re)transmission: resend queue and pending queue both empty (SyncSkip.v); with
   C02_retransmission_kept an outstanding Reliable packet is therefore never skipped at the sender's request *)
Theorem C02_sync_packet_id_only_when_idle :
  forall h out h' out' ok, emit_sync_frame h out = (h', out', ok) ->
  out' = out \/
  exists nf np, out' = out ++ [Codec.write_sync nf np] /\
    (forall id, np = Some id -> id = s_next (h_snd h) /\ h_rq h = [] /\ h_pq h = [] /\ s_next (h_snd h) <> s_base (h_snd h)).
Proof. exact sync_packet_id_only_when_idle. Qed.
Print Assumptions C02_sync_packet_id_only_when_idle.
