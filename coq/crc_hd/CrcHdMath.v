(* CrcHdMath.v — algebra of the table-driven CRC: the table is the 8-fold bit step R of a reflected LFSR up to
   a constant, so differences propagate linearly, and the syndrome of a single flipped bit is R^m(u). *)
From Coq Require Import ZArith Lia ZifyBool ZifyN ZifyNat.
From UF Require Import Consts Base Crc BaseLemmas CrcLemmas.

Local Open Scope N_scope.

(* ---------- xor algebra ---------- *)
Lemma lxor_cancel_r x y p : N.lxor (N.lxor x p) (N.lxor y p) = N.lxor x y.
Proof.
  rewrite N.lxor_assoc, (N.lxor_comm p (N.lxor y p)), N.lxor_assoc, N.lxor_nilpotent, N.lxor_0_r. reflexivity.
Qed.

Lemma lxor_swap a b c : N.lxor (N.lxor a b) c = N.lxor (N.lxor a c) b.
Proof. rewrite !N.lxor_assoc, (N.lxor_comm b c). reflexivity. Qed.

Lemma div_lxor a b k : N.lxor a b / 2 ^ k = N.lxor (a / 2 ^ k) (b / 2 ^ k).
Proof. rewrite <- !N.shiftr_div_pow2. apply N.shiftr_lxor. Qed.

Lemma mod_lxor a b k : N.lxor a b mod 2 ^ k = N.lxor (a mod 2 ^ k) (b mod 2 ^ k).
Proof.
  apply N.bits_inj. intros m. destruct (N.lt_ge_cases m k) as [H|H].
  - rewrite N.mod_pow2_bits_low, !N.lxor_spec, !N.mod_pow2_bits_low by assumption. reflexivity.
  - rewrite N.mod_pow2_bits_high, N.lxor_spec, !N.mod_pow2_bits_high by assumption. reflexivity.
Qed.

Lemma div256_lxor a b : N.lxor a b / 256 = N.lxor (a / 256) (b / 256).
Proof. change 256 with (2 ^ 8). apply div_lxor. Qed.
Lemma mod256_lxor a b : N.lxor a b mod 256 = N.lxor (a mod 256) (b mod 256).
Proof. change 256 with (2 ^ 8). apply mod_lxor. Qed.

(* a = 2^k * (a / 2^k)  xor  a mod 2^k *)
Lemma split_lxor a k : a = N.lxor (2 ^ k * (a / 2 ^ k)) (a mod 2 ^ k).
Proof.
  rewrite <- N.add_nocarry_lxor.
  - apply N.div_mod. apply N.pow_nonzero. lia.
  - apply N.bits_inj. intros m. rewrite N.land_spec, N.bits_0.
    destruct (N.lt_ge_cases m k) as [H|H].
    + rewrite (N.mul_comm (2 ^ k)), N.mul_pow2_bits_low by assumption. reflexivity.
    + rewrite N.mod_pow2_bits_high by assumption. apply andb_false_r.
Qed.

(* ---------- the bit step ---------- *)
Definition R (r : N) : N := if N.odd r then N.lxor (r / 2) CRC_POLY_REFLECTED else r / 2.

Lemma odd_lxor a b : N.odd (N.lxor a b) = xorb (N.odd a) (N.odd b).
Proof. rewrite <- !N.bit0_odd. apply N.lxor_spec. Qed.

Lemma R_lxor a b : R (N.lxor a b) = N.lxor (R a) (R b).
Proof.
  unfold R. rewrite odd_lxor. change 2 with (2 ^ 1). rewrite div_lxor.
  destruct (N.odd a), (N.odd b); cbn [xorb].
  - symmetry. apply lxor_cancel_r.
  - apply lxor_swap.
  - rewrite N.lxor_assoc. reflexivity.
  - reflexivity.
Qed.

Lemma R_0 : R 0 = 0. Proof. reflexivity. Qed.

Lemma poly_range : 2 ^ 31 <= CRC_POLY_REFLECTED < pow32.
Proof. vm_compute. split; [discriminate|reflexivity]. Qed.

Lemma R_lt r : r < pow32 -> R r < pow32.
Proof.
  intros H. unfold R. destruct (N.odd r).
  - change pow32 with (2 ^ 32). apply lxor_lt_pow2; [|apply poly_range]. change (2 ^ 32) with pow32. unfold pow32 in *. lia.
  - unfold pow32 in *. lia.
Qed.

Lemma R_zero r : r < pow32 -> R r = 0 -> r = 0.
Proof.
  intros H E. unfold R in E. destruct (N.odd r) eqn:Eo.
  - apply N.lxor_eq in E. pose proof poly_range as [P _]. change (2 ^ 31) with 2147483648 in P. unfold pow32 in H. lia.
  - assert (r mod 2 = 0). { rewrite <- N.bit0_mod, N.bit0_odd. rewrite Eo. reflexivity. } lia.
Qed.

Lemma R_inj a b : a < pow32 -> b < pow32 -> R a = R b -> a = b.
Proof.
  intros Ha Hb E. apply N.lxor_eq. apply R_zero.
  - change pow32 with (2 ^ 32). apply lxor_lt_pow2; assumption.
  - rewrite R_lxor, E. apply N.lxor_nilpotent.
Qed.

Lemma R_double x : R (2 * x) = x.
Proof. unfold R. rewrite N.odd_mul, andb_false_l. cbn [N.odd]. rewrite N.mul_comm, N.div_mul by lia. reflexivity. Qed.

Fixpoint Rn (n : nat) (x : N) : N := match n with O => x | S n' => R (Rn n' x) end.

Lemma Rn_add n m x : Rn (n + m) x = Rn n (Rn m x).
Proof. induction n as [|n IH]; cbn [Nat.add Rn]; congruence. Qed.

Lemma Rn_S' n x : Rn (S n) x = Rn n (R x).
Proof. replace (S n) with (n + 1)%nat by lia. rewrite Rn_add. reflexivity. Qed.

Lemma Rn_lxor n a b : Rn n (N.lxor a b) = N.lxor (Rn n a) (Rn n b).
Proof. induction n as [|n IH]; cbn [Rn]; [reflexivity|]. rewrite IH. apply R_lxor. Qed.

Lemma Rn_0 n : Rn n 0 = 0.
Proof. induction n as [|n IH]; cbn [Rn]; [reflexivity|]. rewrite IH. apply R_0. Qed.

Lemma Rn_lt n x : x < pow32 -> Rn n x < pow32.
Proof. intros H. induction n as [|n IH]; cbn [Rn]; [assumption|]. apply R_lt, IH. Qed.

Lemma Rn_inj n a b : a < pow32 -> b < pow32 -> Rn n a = Rn n b -> a = b.
Proof.
  intros Ha Hb. induction n as [|n IH]; cbn [Rn]; [auto|]. intros E. apply IH. apply R_inj; [apply Rn_lt| apply Rn_lt|]; assumption.
Qed.

Lemma Rn_shift k q : Rn k (2 ^ N.of_nat k * q) = q.
Proof.
  induction k as [|k IH].
  - cbn [Rn]. cbn. destruct q; reflexivity.
  - rewrite Rn_S'. replace (2 ^ N.of_nat (S k) * q) with (2 * (2 ^ N.of_nat k * q)).
    + rewrite R_double. apply IH.
    + rewrite Nat2N.inj_succ, N.pow_succ_r'. lia.
Qed.

(* ---------- the table ---------- *)
Definition Tb (i : N) : N := crc_table_get i.
Definition Lt (j : N) : N := N.lxor (Tb j) (Tb 0).

Definition bytes256 : list N := map N.of_nat (seq 0 256).

Lemma in_bytes256 i : i < 256 -> In i bytes256.
Proof.
  intros H. unfold bytes256. apply in_map_iff. exists (N.to_nat i). split; [lia|]. apply in_seq. lia.
Qed.

Lemma table_difference_check :
  forallb (fun i => forallb (fun j => Tb (N.lxor i j) =? N.lxor (Tb i) (Lt j)) bytes256) bytes256 = true.
Proof. vm_compute. reflexivity. Qed.

Lemma table_difference i j : i < 256 -> j < 256 -> Tb (N.lxor i j) = N.lxor (Tb i) (Lt j).
Proof.
  intros Hi Hj. pose proof table_difference_check as C. rewrite forallb_forall in C.
  specialize (C i (in_bytes256 i Hi)). rewrite forallb_forall in C. specialize (C j (in_bytes256 j Hj)).
  apply N.eqb_eq. exact C.
Qed.

Lemma table_is_R8_check : forallb (fun j => Lt j =? Rn 8 j) bytes256 = true.
Proof. vm_compute. reflexivity. Qed.

Lemma Lt_R8 j : j < 256 -> Lt j = Rn 8 j.
Proof.
  intros Hj. pose proof table_is_R8_check as C. rewrite forallb_forall in C.
  apply N.eqb_eq. apply C. apply in_bytes256. exact Hj.
Qed.

Lemma Lt_lt j : Lt j < pow32.
Proof. unfold Lt. change pow32 with (2 ^ 32). apply lxor_lt_pow2; apply crc_table_get_lt. Qed.

(* eight bit steps of any value: shift the high part down, push the low byte through the table *)
Lemma R8_split d : Rn 8 d = N.lxor (d / 256) (Lt (d mod 256)).
Proof.
  rewrite (split_lxor d 8) at 1. rewrite Rn_lxor.
  change (2 ^ 8) with (2 ^ N.of_nat 8). rewrite Rn_shift. change (2 ^ N.of_nat 8) with 256.
  rewrite Lt_R8 by (apply N.mod_lt; lia). reflexivity.
Qed.

(* ---------- difference propagation through crc_step / crc_extend ---------- *)
Lemma idx_lt c b : b < 256 -> N.lxor (c mod 256) b < 256.
Proof. apply crc_index_in_range. Qed.

(* a difference d in the register: the next register differs by R^8 d, whatever the byte *)
Lemma crc_step_reg_diff c d b : b < 256 -> crc_step (N.lxor c d) b = N.lxor (crc_step c b) (Rn 8 d).
Proof.
  intros Hb. unfold crc_step. fold (Tb (N.lxor (N.lxor c d mod 256) b)) (Tb (N.lxor (c mod 256) b)).
  rewrite div256_lxor, mod256_lxor.
  replace (N.lxor (N.lxor (c mod 256) (d mod 256)) b) with (N.lxor (N.lxor (c mod 256) b) (d mod 256)) by apply lxor_swap.
  rewrite table_difference by (try apply idx_lt; try assumption; apply N.mod_lt; lia).
  rewrite R8_split.
  rewrite !N.lxor_assoc. f_equal. rewrite <- !N.lxor_assoc. rewrite (N.lxor_comm (d / 256)). reflexivity.
Qed.

(* a difference e in the byte: the next register differs by Lt e *)
Lemma crc_step_byte_diff c b e : b < 256 -> e < 256 -> crc_step c (N.lxor b e) = N.lxor (crc_step c b) (Lt e).
Proof.
  intros Hb He. unfold crc_step. fold (Tb (N.lxor (c mod 256) (N.lxor b e))) (Tb (N.lxor (c mod 256) b)).
  rewrite <- N.lxor_assoc. rewrite table_difference by (try apply idx_lt; assumption).
  rewrite N.lxor_assoc. reflexivity.
Qed.

Lemma crc_extend_reg_diff data : forall c d, Forall (fun b => b < 256) data ->
  crc_extend (N.lxor c d) data = N.lxor (crc_extend c data) (Rn (8 * length data) d).
Proof.
  unfold crc_extend. induction data as [|b data IH]; intros c d Hb; cbn [fold_left length].
  - cbn. reflexivity.
  - inversion Hb; subst. rewrite crc_step_reg_diff by assumption. rewrite IH by assumption.
    f_equal. replace (8 * S (length data))%nat with (8 * length data + 8)%nat by lia. rewrite Rn_add. reflexivity.
Qed.

Lemma crc_extend_app c a b : crc_extend c (a ++ b) = crc_extend (crc_extend c a) b.
Proof. unfold crc_extend. apply fold_left_app. Qed.

(* flipping bit j of one data byte changes the final CRC by R^(8*|post|) (Lt 2^j), whatever the data *)
Lemma crc_bit_flip c pre b post j :
  b < 256 -> (j < 8)%nat -> Forall (fun x => x < 256) post ->
  crc_extend c (pre ++ N.lxor b (2 ^ N.of_nat j) :: post)
  = N.lxor (crc_extend c (pre ++ b :: post)) (Rn (8 * length post) (Lt (2 ^ N.of_nat j))).
Proof.
  intros Hb Hj Hp. rewrite !crc_extend_app. cbn [crc_extend fold_left].
  change (fold_left crc_step post ?x) with (crc_extend x post).
  assert (He : 2 ^ N.of_nat j < 256).
  { change 256 with (2 ^ 8). apply N.pow_lt_mono_r; lia. }
  rewrite crc_step_byte_diff by assumption. apply crc_extend_reg_diff. exact Hp.
Qed.

(* ---------- everything is a power of R applied to u = 2^31 ---------- *)
Definition u0 : N := 2 ^ 31.

Lemma u0_lt : u0 < pow32. Proof. vm_compute. reflexivity. Qed.

Lemma unit_orbit_check : forallb (fun t => 2 ^ N.of_nat t =? Rn (31 - t) u0) (seq 0 32) = true.
Proof. vm_compute. reflexivity. Qed.

Lemma unit_orbit t : (t < 32)%nat -> 2 ^ N.of_nat t = Rn (31 - t) u0.
Proof.
  intros H. pose proof unit_orbit_check as C. rewrite forallb_forall in C. apply N.eqb_eq. apply C. apply in_seq. lia.
Qed.

Lemma Lt_orbit_check : forallb (fun j => Lt (2 ^ N.of_nat j) =? Rn (39 - j) u0) (seq 0 8) = true.
Proof. vm_compute. reflexivity. Qed.

Lemma Lt_orbit j : (j < 8)%nat -> Lt (2 ^ N.of_nat j) = Rn (39 - j) u0.
Proof.
  intros H. pose proof Lt_orbit_check as C. rewrite forallb_forall in C. apply N.eqb_eq. apply C. apply in_seq. lia.
Qed.

(* syndrome of data bit j of the byte followed by k more data bytes *)
Lemma data_bit_syndrome k j : (j < 8)%nat -> Rn (8 * k) (Lt (2 ^ N.of_nat j)) = Rn (8 * k + 39 - j) u0.
Proof.
  intros H. rewrite Lt_orbit by assumption. rewrite <- Rn_add. f_equal. lia.
Qed.

(* ---------- u32be is linear, and zero only for zero ---------- *)
Lemma u32be_lxor x y : u32be (N.lxor x y) = map (fun p => N.lxor (fst p) (snd p)) (combine (u32be x) (u32be y)).
Proof.
  unfold u32be. cbn [combine map fst snd].
  change pow24 with (2 ^ 24). change pow16 with (2 ^ 16). change pow8 with (2 ^ 8).
  rewrite !div_lxor, !mod_lxor. reflexivity.
Qed.

Lemma u32be_zero x : x < pow32 -> u32be x = [0; 0; 0; 0] -> x = 0.
Proof.
  intros Hx E. unfold u32be in E. injection E as E0 E1 E2 E3. rewrite <- (be32_u32be x Hx).
  rewrite E0, E1, E2, E3. reflexivity.
Qed.
