(* CrcHdFrame.v — from "no 1..4 distinct powers R^m(u) cancel" to "read_frame rejects every frame of at most
   MAX_FRAME_SIZE bytes altered in 1..4 bit positions". *)
From Coq Require Import ZArith Lia ZifyBool ZifyN ZifyNat.
From UF Require Import Consts Base Crc Frame Codec BaseLemmas CrcLemmas CrcHdMath CrcHdCheck CrcHdAll.

Local Open Scope N_scope.

(* flip bit j of byte i *)
Fixpoint flip_at (bs : list N) (i j : nat) : list N :=
  match bs, i with
  | [], _ => []
  | b :: r, O => N.lxor b (2 ^ N.of_nat j) :: r
  | b :: r, S i' => b :: flip_at r i' j
  end.

Definition flips (bs : list N) (ps : list (nat * nat)) : list N :=
  fold_left (fun acc p => flip_at acc (fst p) (snd p)) ps bs.

Definition byte (b : N) : Prop := b < 256.

Lemma flip_at_length bs : forall i j, length (flip_at bs i j) = length bs.
Proof. induction bs as [|b r IH]; intros [|i] j; cbn [flip_at length]; try reflexivity. rewrite IH. reflexivity. Qed.

Lemma pow2_byte j : (j < 8)%nat -> 2 ^ N.of_nat j < 256.
Proof. intros H. change 256 with (2 ^ 8). apply N.pow_lt_mono_r; lia. Qed.

Lemma flip_at_bytes bs : forall i j, (j < 8)%nat -> Forall byte bs -> Forall byte (flip_at bs i j).
Proof.
  induction bs as [|b r IH]; intros [|i] j Hj Hb; cbn [flip_at]; try assumption; inversion Hb; subst; constructor; auto.
  unfold byte. change 256 with (2 ^ 8). apply lxor_lt_pow2; [assumption|]. apply pow2_byte. exact Hj.
Qed.

Lemma flip_at_app_l a : forall b i j, (i < length a)%nat -> flip_at (a ++ b) i j = flip_at a i j ++ b.
Proof.
  induction a as [|x a IH]; intros b [|i] j H; cbn [length] in H; try lia; cbn [app flip_at]; [reflexivity|].
  rewrite IH by lia. reflexivity.
Qed.

Lemma flip_at_app_r a : forall b i j, (length a <= i)%nat -> flip_at (a ++ b) i j = a ++ flip_at b (i - length a) j.
Proof.
  induction a as [|x a IH]; intros b i j H; cbn [length app] in *.
  - rewrite Nat.sub_0_r. reflexivity.
  - destruct i as [|i]; [lia|]. cbn [flip_at Nat.sub]. rewrite IH by lia. reflexivity.
Qed.

Lemma flip_at_split a : forall i j, (i < length a)%nat ->
  exists pre x post, a = pre ++ x :: post /\ flip_at a i j = pre ++ N.lxor x (2 ^ N.of_nat j) :: post
                     /\ (length post = length a - 1 - i)%nat.
Proof.
  induction a as [|y a IH]; intros [|i] j H; cbn [length] in H; try lia.
  - exists [], y, a. cbn [app flip_at length]. repeat split. lia.
  - destruct (IH i j) as (pre & x & post & E1 & E2 & E3); [lia|].
    exists (y :: pre), x, post. cbn [app flip_at length]. rewrite <- E1, E2. repeat split. lia.
Qed.

(* ---------- the four CRC bytes ---------- *)
Lemma flip_crc_bytes v ci j : (ci < 4)%nat -> (j < 8)%nat ->
  flip_at (u32be v) ci j = u32be (N.lxor v (2 ^ N.of_nat (8 * (3 - ci) + j))).
Proof.
  intros Hc Hj. rewrite u32be_lxor.
  remember (u32be v) as l eqn:El. unfold u32be in El. subst l.
  do 4 (destruct ci as [|ci]; [do 8 (destruct j as [|j]; [
     match goal with |- context [u32be (2 ^ ?k)] =>
       let e := eval vm_compute in (u32be (2 ^ k)) in change (u32be (2 ^ k)) with e end;
     cbn [flip_at combine map fst snd];
     match goal with |- context [2 ^ N.of_nat ?k] =>
       let e := eval vm_compute in (2 ^ N.of_nat k) in change (2 ^ N.of_nat k) with e end;
     rewrite !N.lxor_0_r; reflexivity |]); lia |]).
  lia.
Qed.

(* ---------- exponent of a bit position, for a frame whose body has lb bytes ---------- *)
Definition expo (lb : nat) (p : nat * nat) : nat :=
  let (i, j) := p in if (i <? lb)%nat then 8 * (lb - 1 - i) + 39 - j else 8 * (i - lb) + 7 - j.

Definition valid (lb : nat) (p : nat * nat) : Prop := (fst p < lb + 4)%nat /\ (snd p < 8)%nat.

Lemma expo_inj lb p q : valid lb p -> valid lb q -> expo lb p = expo lb q -> p = q.
Proof.
  destruct p as [i j], q as [i' j']. unfold valid, expo. cbn [fst snd]. intros [H1 H2] [H3 H4] E.
  destruct (Nat.ltb_spec i lb), (Nat.ltb_spec i' lb); f_equal; lia.
Qed.

Lemma expo_bound lb p : valid lb p -> (expo lb p <= 8 * (lb + 4) - 1)%nat.
Proof.
  destruct p as [i j]. unfold valid, expo. cbn [fst snd]. intros [H1 H2]. destruct (Nat.ltb_spec i lb); lia.
Qed.

(* ---------- one flip ---------- *)
Lemma one_flip b v p :
  Forall byte b -> v < pow32 -> valid (length b) p ->
  exists b' v', flip_at (b ++ u32be v) (fst p) (snd p) = b' ++ u32be v' /\ length b' = length b /\ Forall byte b' /\ v' < pow32
    /\ N.lxor (crc_compute b') v' = N.lxor (N.lxor (crc_compute b) v) (Rn (expo (length b) p) u0).
Proof.
  destruct p as [i j]. unfold valid. cbn [fst snd]. intros Hb Hv [Hi Hj]. unfold expo.
  destruct (Nat.ltb_spec i (length b)) as [Hlt|Hge].
  - exists (flip_at b i j), v. rewrite flip_at_app_l by assumption. rewrite flip_at_length.
    repeat split; try assumption; [apply flip_at_bytes; assumption|].
    destruct (flip_at_split b i j Hlt) as (pre & x & post & E1 & E2 & E3).
    rewrite E2. rewrite E1 in Hb. apply Forall_app in Hb as [_ Hb]. inversion Hb as [|? ? Hx Hpost]; subst x0 l.
    unfold crc_compute. rewrite crc_bit_flip by assumption. rewrite data_bit_syndrome by assumption.
    rewrite <- E1. rewrite E3. apply lxor_swap.
  - exists b, (N.lxor v (2 ^ N.of_nat (8 * (3 - (i - length b)) + j))).
    rewrite flip_at_app_r by assumption. rewrite flip_crc_bytes by lia.
    assert (Ht : (8 * (3 - (i - length b)) + j < 32)%nat) by lia.
    repeat split; try assumption.
    + change pow32 with (2 ^ 32). apply lxor_lt_pow2; [exact Hv|]. apply N.pow_lt_mono_r; lia.
    + rewrite unit_orbit by exact Ht. rewrite <- N.lxor_assoc. f_equal. f_equal. lia.
Qed.

Definition syndrome (lb : nat) (ps : list (nat * nat)) (acc : N) : N :=
  fold_left (fun a p => N.lxor a (Rn (expo lb p) u0)) ps acc.

Lemma many_flips ps : forall b v,
  Forall byte b -> v < pow32 -> Forall (valid (length b)) ps ->
  exists b' v', flips (b ++ u32be v) ps = b' ++ u32be v' /\ length b' = length b /\ Forall byte b' /\ v' < pow32
    /\ N.lxor (crc_compute b') v' = syndrome (length b) ps (N.lxor (crc_compute b) v).
Proof.
  induction ps as [|p ps IH]; intros b v Hb Hv Hp.
  - exists b, v. unfold flips, syndrome. cbn [fold_left]. repeat split; assumption.
  - inversion Hp as [|? ? Hp1 Hp2]; subst.
    destruct (one_flip b v p Hb Hv Hp1) as (b1 & v1 & E & El & Hb1 & Hv1 & Ex).
    unfold flips. cbn [fold_left]. rewrite E. fold (flips (b1 ++ u32be v1) ps).
    rewrite <- El in Hp2. destruct (IH b1 v1 Hb1 Hv1 Hp2) as (b2 & v2 & E2 & El2 & Hb2 & Hv2 & Ex2).
    exists b2, v2. repeat split; try assumption; [congruence|]. rewrite Ex2. unfold syndrome. cbn [fold_left].
    rewrite El, Ex. reflexivity.
Qed.

(* ---------- no 1..4 distinct positions cancel ---------- *)
Lemma NB1_eq : NB1 = (8 * N.to_nat MAX_FRAME_SIZE - 1)%nat.
Proof. unfold NB1. lia. Qed.

Lemma syndrome_nonzero lb ps :
  (lb + 4 <= N.to_nat MAX_FRAME_SIZE)%nat -> NoDup ps -> Forall (valid lb) ps -> (1 <= length ps <= 4)%nat ->
  syndrome lb ps 0 <> 0.
Proof.
  intros Hlb Hnd Hv Hlen.
  assert (Hbound : forall p, valid lb p -> (expo lb p <= NB1)%nat).
  { intros p Hp. pose proof (expo_bound lb p Hp). rewrite NB1_eq. lia. }
  assert (Hinj : forall p q, valid lb p -> valid lb q -> p <> q -> expo lb p <> expo lb q).
  { intros p q Hp Hq Hne E. apply Hne. apply (expo_inj lb); assumption. }
  pose proof c2_ok as C2. pose proof c3_ok as C3. pose proof c4_ok as C4.
  unfold syndrome.
  destruct ps as [|p1 [|p2 [|p3 [|p4 [|p5 ps]]]]]; cbn [length] in Hlen; try lia; cbn [fold_left]; rewrite N.lxor_0_l.
  - apply w1.
  - inversion Hv as [|? ? V1 Hv1]; subst. inversion Hv1 as [|? ? V2 _]; subst.
    inversion Hnd as [|? ? N1 _]; subst. cbn [In] in N1.
    apply w2; auto; apply Hinj; auto; intros E; subst; tauto.
  - inversion Hv as [|? ? V1 Hv1]; subst. inversion Hv1 as [|? ? V2 Hv2]; subst. inversion Hv2 as [|? ? V3 _]; subst.
    inversion Hnd as [|? ? N1 Hnd1]; subst. inversion Hnd1 as [|? ? N2 _]; subst. cbn [In] in N1, N2.
    apply w3; auto; apply Hinj; auto; intros E; subst; tauto.
  - inversion Hv as [|? ? V1 Hv1]; subst. inversion Hv1 as [|? ? V2 Hv2]; subst. inversion Hv2 as [|? ? V3 Hv3]; subst.
    inversion Hv3 as [|? ? V4 _]; subst.
    inversion Hnd as [|? ? N1 Hnd1]; subst. inversion Hnd1 as [|? ? N2 Hnd2]; subst. inversion Hnd2 as [|? ? N3 _]; subst.
    cbn [In] in N1, N2, N3.
    apply w4; auto; apply Hinj; auto; intros E; subst; tauto.
Qed.

(* ---------- the reader rejects a frame whose stored CRC differs ---------- *)
Lemma read_frame_bad_crc b v : v < pow32 -> crc_compute b <> v -> read_frame (b ++ u32be v) = Ok None.
Proof.
  intros Hv Hne. unfold read_frame.
  assert (Hl : len (b ++ u32be v) = len b + 4) by (rewrite len_app; reflexivity).
  rewrite Hl. destruct (N.ltb_spec (len b + 4) 5) as [H|H]; [reflexivity|].
  replace (len b + 4 - 4) with (len b) by lia.
  rewrite slice_app_l. cbn [bind].
  rewrite <- (app_nil_r (u32be v)) at 1. rewrite get32_app_u32be by assumption. cbn [bind].
  destruct (N.eqb_spec (crc_compute b) v) as [E|E]; [contradiction|]. reflexivity.
Qed.

(* Every CRC-carrying byte string of at most MAX_FRAME_SIZE bytes, altered in one to four distinct bit
   positions (byte index, bit index), is rejected by the frame reader. *)
Theorem crc_detects_1_to_4_flips :
  forall (body : list N) (ps : list (nat * nat)),
    Forall byte body ->
    len (with_crc body) <= MAX_FRAME_SIZE ->
    NoDup ps -> (1 <= length ps <= 4)%nat ->
    Forall (fun p => (fst p < length (with_crc body))%nat /\ (snd p < 8)%nat) ps ->
    read_frame (flips (with_crc body) ps) = Ok None.
Proof.
  intros body ps Hb Hlen Hnd Hn Hp. unfold with_crc in *.
  assert (Hl : length (body ++ u32be (crc_compute body)) = (length body + 4)%nat) by (rewrite app_length; reflexivity).
  assert (Hv : Forall (valid (length body)) ps).
  { eapply Forall_impl; [|exact Hp]. intros p. rewrite Hl. unfold valid. tauto. }
  destruct (many_flips ps body (crc_compute body) Hb (crc_compute_lt body) Hv) as (b' & v' & E & El & Hb' & Hv' & Ex).
  rewrite E. apply read_frame_bad_crc; [exact Hv'|].
  intros Eq. rewrite N.lxor_nilpotent in Ex. rewrite Eq, N.lxor_nilpotent in Ex.
  symmetry in Ex. revert Ex. apply syndrome_nonzero; try assumption.
  unfold len in Hlen. rewrite Hl in Hlen. lia.
Qed.

(* every writer ends by appending the CRC of what it wrote *)
Lemma write_frame_is_with_crc f : exists body, write_frame f = with_crc body.
Proof.
  destruct f; cbn [write_frame];
    unfold write_handshake_syn, write_handshake_syn_ack, write_handshake_ack, write_handshake_error,
           write_disconnect, write_disconnect_ack, write_data, build_data_frame, write_sync, write_acks, build_ack_frame;
    eexists; reflexivity.
Qed.

(* The same for what the writer produces: any frame (of any of the nine types) whose serialisation is made of
   bytes and fits a datagram, altered in one to four bit positions, is rejected. *)
Corollary frame_flips_rejected :
  forall (f : frame) (ps : list (nat * nat)),
    bytes_ok (write_frame f) = true ->
    len (write_frame f) <= MAX_FRAME_SIZE ->
    NoDup ps -> (1 <= length ps <= 4)%nat ->
    Forall (fun p => (fst p < length (write_frame f))%nat /\ (snd p < 8)%nat) ps ->
    read_frame (flips (write_frame f) ps) = Ok None.
Proof.
  intros f ps Hb. destruct (write_frame_is_with_crc f) as [body E]. rewrite E in *.
  apply crc_detects_1_to_4_flips. apply bytes_ok_Forall in Hb. unfold with_crc in Hb.
  apply Forall_app in Hb as [Hb _]. exact Hb.
Qed.
