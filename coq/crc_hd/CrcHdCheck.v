(* CrcHdCheck.v — the exhaustive search behind "Hamming distance >= 5 up to MAX_FRAME_SIZE bytes", as boolean
   functions over the orbit u, R u, R^2 u, ... (one entry per bit of a maximal frame), and what their success means. *)
From Coq Require Import ZArith Lia ZifyBool ZifyN ZifyNat MSets.MSetPositive.
From UF Require Import Consts Base Crc BaseLemmas CrcLemmas CrcHdMath.

Local Open Scope N_scope.
Module PS := PositiveSet.

Fixpoint orbit_from (n : nat) (x : N) : list N :=
  match n with O => [] | S n' => x :: orbit_from n' (R x) end.

(* number of bits of a maximal frame, minus one (the orbit's head u0 is kept apart) *)
Definition NB1 : nat := N.to_nat (8 * MAX_FRAME_SIZE - 1).
Definition L : list N := orbit_from NB1 (R u0).          (* R^1 u0 .. R^NB1 u0 *)
Definition orbit : list N := u0 :: L.                     (* R^0 u0 .. R^NB1 u0 *)

Definition key (x : N) : positive := N.succ_pos x.
Definition SET : PS.t := fold_left (fun s x => PS.add (key x) s) orbit PS.empty.
Definition inS (x : N) : bool := PS.mem (key x) SET.

Definition c2 : bool := forallb (fun x => negb (x =? u0)) L.
Definition c3 : bool := forallb (fun x => negb (inS (N.lxor u0 x))) L.

Definition inner (x : N) (l : list N) : bool := forallb (fun y => negb (inS (N.lxor (N.lxor u0 x) y))) l.
Fixpoint c4_from (l : list N) : bool :=
  match l with [] => true | x :: l' => inner x l' && c4_from l' end.
(* the first n outer iterations only *)
Fixpoint c4_outer (n : nat) (l : list N) : bool :=
  match n, l with S n', x :: l' => inner x l' && c4_outer n' l' | _, _ => true end.

Definition shard (b b' : N) : bool := c4_outer (N.to_nat (b' - b)) (skipn (N.to_nat b) L).

(* ---------- splitting the outer loop ---------- *)
Lemma c4_split n : forall l, c4_from l = c4_outer n l && c4_from (skipn n l).
Proof.
  induction n as [|n IH]; intros l; [reflexivity|]. destruct l as [|x l]; [reflexivity|].
  cbn [c4_from c4_outer skipn]. rewrite (IH l). apply andb_assoc.
Qed.

Lemma skipn_add {A} n : forall m (l : list A), skipn n (skipn m l) = skipn (m + n) l.
Proof.
  intros m. induction m as [|m IH]; intros l; [reflexivity|]. destruct l as [|x l]; [rewrite !skipn_nil; reflexivity|].
  cbn [Nat.add skipn]. apply IH.
Qed.

Lemma c4_chain b b' : b <= b' ->
  c4_from (skipn (N.to_nat b) L) = shard b b' && c4_from (skipn (N.to_nat b') L).
Proof.
  intros H. unfold shard. rewrite (c4_split (N.to_nat (b' - b))). f_equal. f_equal.
  rewrite skipn_add. f_equal. lia.
Qed.

Lemma orbit_from_length n : forall x, length (orbit_from n x) = n.
Proof. induction n as [|n IH]; intros x; cbn [orbit_from length]; [reflexivity|]. rewrite IH. reflexivity. Qed.

Lemma c4_end b : 8 * MAX_FRAME_SIZE - 1 <= b -> c4_from (skipn (N.to_nat b) L) = true.
Proof.
  intros H. rewrite skipn_all2; [reflexivity|]. unfold L. rewrite orbit_from_length. unfold NB1. lia.
Qed.

(* ---------- what the orbit list contains ---------- *)
Lemma orbit_from_In n : forall x m, (m < n)%nat -> In (Rn m x) (orbit_from n x).
Proof.
  induction n as [|n IH]; intros x m Hm; [lia|]. cbn [orbit_from]. destruct m as [|m].
  - left. reflexivity.
  - right. rewrite Rn_S'. apply IH. lia.
Qed.

Lemma L_In d : (1 <= d <= NB1)%nat -> In (Rn d u0) L.
Proof.
  intros H. destruct d as [|d]; [lia|]. rewrite Rn_S'. apply orbit_from_In. lia.
Qed.

Lemma orbit_In m : (m <= NB1)%nat -> In (Rn m u0) orbit.
Proof.
  intros H. destruct m as [|m]; [left; reflexivity|]. right. apply L_In. lia.
Qed.

Lemma key_inj x y : key x = key y -> x = y.
Proof. unfold key. intros E. apply (f_equal Pos.pred_N) in E. rewrite !N.pos_pred_succ in E. exact E. Qed.

Lemma fold_add_mem l : forall s x, In x l -> PS.mem (key x) (fold_left (fun s x => PS.add (key x) s) l s) = true.
Proof.
  assert (K : forall l s k, PS.In k s -> PS.In k (fold_left (fun s x => PS.add (key x) s) l s)).
  { induction l0 as [|y l0 IH]; intros s k Hk; cbn [fold_left]; [exact Hk|]. apply IH. apply PS.add_spec. right. exact Hk. }
  induction l as [|y l IH]; intros s x Hx; [destruct Hx|]. cbn [fold_left]. destruct Hx as [->|Hx].
  - apply PS.mem_spec. apply K. apply PS.add_spec. left. reflexivity.
  - apply IH. exact Hx.
Qed.

Lemma inS_orbit m : (m <= NB1)%nat -> inS (Rn m u0) = true.
Proof. intros H. unfold inS, SET. apply fold_add_mem. apply orbit_In. exact H. Qed.

(* ---------- meaning of the checks ---------- *)
Lemma c4_pairs l : c4_from l = true ->
  ForallOrdPairs (fun x y => inS (N.lxor (N.lxor u0 x) y) = false) l.
Proof.
  induction l as [|x l IH]; intros H; [constructor|]. cbn [c4_from] in H. apply andb_prop in H as [H1 H2].
  constructor; [|apply IH; exact H2]. apply Forall_forall. intros y Hy. unfold inner in H1.
  rewrite forallb_forall in H1. specialize (H1 y Hy). apply negb_true_iff in H1. exact H1.
Qed.

(* proof checking must never unfold the 11775-element orbit or the set; vm_compute ignores this *)
Global Opaque L SET.

Section Sound.
  Hypothesis H2 : c2 = true.
  Hypothesis H3 : c3 = true.
  Hypothesis H4 : c4_from L = true.

  Lemma lx_lt a b : a < pow32 -> b < pow32 -> N.lxor a b < pow32.
  Proof. change pow32 with (2 ^ 32). apply lxor_lt_pow2. Qed.

  Lemma Ru_lt m : Rn m u0 < pow32. Proof. apply Rn_lt, u0_lt. Qed.

  Lemma u0_nonzero : u0 <> 0. Proof. intros E; discriminate E. Qed.

  Lemma w1 a : Rn a u0 <> 0.
  Proof.
    intros E. apply u0_nonzero. apply (Rn_inj a); [apply u0_lt|vm_compute; reflexivity|]. rewrite Rn_0. exact E.
  Qed.

  (* normalised: smallest exponent is 0 *)
  Lemma w2n d : (1 <= d <= NB1)%nat -> Rn d u0 <> u0.
  Proof.
    intros Hd E. unfold c2 in H2. rewrite forallb_forall in H2. specialize (H2 _ (L_In d Hd)).
    rewrite E, N.eqb_refl in H2. discriminate H2.
  Qed.

  Lemma w3n a b : (1 <= a <= NB1)%nat -> (b <= NB1)%nat -> N.lxor u0 (Rn a u0) <> Rn b u0.
  Proof.
    intros Ha Hb E. unfold c3 in H3. rewrite forallb_forall in H3. specialize (H3 _ (L_In a Ha)).
    rewrite E, inS_orbit in H3 by exact Hb. discriminate H3.
  Qed.

  Lemma w4n a b c : (1 <= a <= NB1)%nat -> (1 <= b <= NB1)%nat -> a <> b -> (c <= NB1)%nat ->
    N.lxor (N.lxor u0 (Rn a u0)) (Rn b u0) <> Rn c u0.
  Proof.
    intros Ha Hb Hab Hc E.
    assert (Hne : Rn a u0 <> Rn b u0).
    { intros E2. assert (a < b \/ b < a)%nat as [Hlt|Hlt] by lia.
      - replace b with (a + (b - a))%nat in E2 by lia. rewrite Rn_add in E2.
        apply Rn_inj in E2; [|apply u0_lt|apply Ru_lt]. symmetry in E2. revert E2. apply w2n. lia.
      - replace a with (b + (a - b))%nat in E2 by lia. rewrite Rn_add in E2.
        apply Rn_inj in E2; [|apply Ru_lt|apply u0_lt]. revert E2. apply w2n. lia. }
    pose proof (c4_pairs L H4) as P.
    destruct (ForallOrdPairs_In P _ _ (L_In a Ha) (L_In b Hb)) as [Q|[Q|Q]].
    - exact (Hne Q).
    - rewrite E, inS_orbit in Q by exact Hc. discriminate Q.
    - replace (N.lxor (N.lxor u0 (Rn b u0)) (Rn a u0)) with (N.lxor (N.lxor u0 (Rn a u0)) (Rn b u0)) in Q by apply lxor_swap.
      rewrite E, inS_orbit in Q by exact Hc. discriminate Q.
  Qed.

  (* shift the smallest exponent to 0 *)
  Lemma shift_out m x : x < pow32 -> Rn m x = 0 -> x = 0.
  Proof. intros Hx E. apply (Rn_inj m); [exact Hx|vm_compute; reflexivity|]. rewrite Rn_0. exact E. Qed.

  Lemma w2 a b : (a <= NB1)%nat -> (b <= NB1)%nat -> a <> b -> N.lxor (Rn a u0) (Rn b u0) <> 0.
  Proof.
    assert (K : forall a b, (a < b <= NB1)%nat -> N.lxor (Rn a u0) (Rn b u0) <> 0).
    { intros a0 b0 H E. replace b0 with (a0 + (b0 - a0))%nat in E by lia. rewrite Rn_add, <- Rn_lxor in E.
      apply shift_out in E; [|apply lx_lt; [apply u0_lt|apply Ru_lt]]. apply N.lxor_eq in E. symmetry in E. revert E. apply w2n. lia. }
    intros Ha Hb Hab. assert (a < b \/ b < a)%nat as [Hlt|Hlt] by lia.
    - apply K. lia.
    - rewrite N.lxor_comm. apply K. lia.
  Qed.

  Lemma w3o a b c : (a < b)%nat -> (a < c)%nat -> (b <= NB1)%nat -> (c <= NB1)%nat ->
    N.lxor (N.lxor (Rn a u0) (Rn b u0)) (Rn c u0) <> 0.
  Proof.
    intros Hab Hac Hb Hc E.
    replace b with (a + (b - a))%nat in E by lia. replace c with (a + (c - a))%nat in E by lia.
    rewrite !Rn_add, <- !Rn_lxor in E.
    apply shift_out in E; [|repeat apply lx_lt; try apply u0_lt; apply Ru_lt].
    apply N.lxor_eq in E. revert E. apply w3n; lia.
  Qed.

  Ltac xor_ac := apply N.bits_inj; intros ?i; rewrite !N.lxor_spec;
    repeat match goal with |- context [N.testbit ?x ?i] => destruct (N.testbit x i) end; reflexivity.

  Lemma w3 a b c : (a <= NB1)%nat -> (b <= NB1)%nat -> (c <= NB1)%nat -> a <> b -> a <> c -> b <> c ->
    N.lxor (N.lxor (Rn a u0) (Rn b u0)) (Rn c u0) <> 0.
  Proof.
    intros Ha Hb Hc Hab Hac Hbc.
    assert ((a < b /\ a < c) \/ (b < a /\ b < c) \/ (c < a /\ c < b))%nat as [[]|[[]|[]]] by lia.
    - apply w3o; lia.
    - replace (N.lxor (N.lxor (Rn a u0) (Rn b u0)) (Rn c u0)) with (N.lxor (N.lxor (Rn b u0) (Rn a u0)) (Rn c u0))
        by xor_ac. apply w3o; lia.
    - replace (N.lxor (N.lxor (Rn a u0) (Rn b u0)) (Rn c u0)) with (N.lxor (N.lxor (Rn c u0) (Rn b u0)) (Rn a u0))
        by xor_ac. apply w3o; lia.
  Qed.

  Lemma w4o a b c d : (a < b)%nat -> (a < c)%nat -> (a < d)%nat -> b <> c ->
    (b <= NB1)%nat -> (c <= NB1)%nat -> (d <= NB1)%nat ->
    N.lxor (N.lxor (N.lxor (Rn a u0) (Rn b u0)) (Rn c u0)) (Rn d u0) <> 0.
  Proof.
    intros Hab Hac Had Hbc Hb Hc Hd E.
    replace b with (a + (b - a))%nat in E by lia. replace c with (a + (c - a))%nat in E by lia.
    replace d with (a + (d - a))%nat in E by lia.
    rewrite !Rn_add, <- !Rn_lxor in E.
    apply shift_out in E; [|repeat apply lx_lt; try apply u0_lt; apply Ru_lt].
    apply N.lxor_eq in E. revert E. apply w4n; lia.
  Qed.

  Lemma w4 a b c d : (a <= NB1)%nat -> (b <= NB1)%nat -> (c <= NB1)%nat -> (d <= NB1)%nat ->
    a <> b -> a <> c -> a <> d -> b <> c -> b <> d -> c <> d ->
    N.lxor (N.lxor (N.lxor (Rn a u0) (Rn b u0)) (Rn c u0)) (Rn d u0) <> 0.
  Proof.
    intros Ha Hb Hc Hd Hab Hac Had Hbc Hbd Hcd.
    set (A := Rn a u0). set (B := Rn b u0). set (C := Rn c u0). set (D := Rn d u0).
    assert ((a < b /\ a < c /\ a < d) \/ (b < a /\ b < c /\ b < d) \/ (c < a /\ c < b /\ c < d) \/ (d < a /\ d < b /\ d < c))%nat
      as [(?&?&?)|[(?&?&?)|[(?&?&?)|(?&?&?)]]] by lia.
    - apply w4o; lia.
    - replace (N.lxor (N.lxor (N.lxor A B) C) D) with (N.lxor (N.lxor (N.lxor B A) C) D) by xor_ac. apply w4o; lia.
    - replace (N.lxor (N.lxor (N.lxor A B) C) D) with (N.lxor (N.lxor (N.lxor C A) B) D) by xor_ac. apply w4o; lia.
    - replace (N.lxor (N.lxor (N.lxor A B) C) D) with (N.lxor (N.lxor (N.lxor D A) B) C) by xor_ac. apply w4o; lia.
  Qed.
End Sound.
