(* Extract.v — OCaml extraction of the executable model for the correspondence driver.
   Directives used: exactly those of ExtrOcamlBasic (bool, option, unit, list, prod, sumbool,
   sumor, andb, orb) plus, for the float-using layers, ExtrOCamlFloats and ExtrOCamlInt63
   (primitive floats / 63-bit integers mapped to the kernel's own Float64 / Uint63 modules).
   N, Z, positive and nat stay the extracted Coq datatypes. *)
From Coq Require Import Extraction ExtrOcamlBasic.
From UF Require Import Consts Base Crc Frame Codec.

Extraction Language OCaml.
Extraction "uf_model.ml"
  N.add N.mul N.div N.modulo N.eqb N.ltb N.leb N.of_nat N.to_nat
  crc_compute read_frame write_frame representable.
