(* Extract.v — OCaml extraction of the executable model for the correspondence driver.
   Directives used: exactly those of ExtrOcamlBasic (bool, option, unit, list, prod, sumbool,
   sumor, andb, orb) plus ExtrOCamlFloats and ExtrOCamlInt63 (primitive floats / 63-bit integers
   mapped to the kernel's own Float64 / Uint63 OCaml modules, package coq-core.kernel).
   N, Z, positive and nat stay the extracted Coq datatypes. *)
From Coq Require Import Extraction ExtrOcamlBasic ExtrOCamlFloats ExtrOCamlInt63.
From UF Require Import Consts Base Crc Frame Codec F64 Feedback Sender Receiver FrameAck Heap FrameQueue SendRate HalfConn Endpoint.

Extraction Language OCaml.
Extraction "uf_model.ml"
  N.add N.mul N.div N.modulo N.eqb N.ltb N.leb N.of_nat N.to_nat N.testbit
  crc_compute read_frame write_frame representable
  hc_new hc_send hc_receive hc_handle_frame hc_step hc_flush hc_send_buffer_size hc_is_send_pending set_credit
  receiver_held src_new src_notify_frame_sent src_step eval_tcp_throughput f_bits
  server_new server_step server_flush server_drop server_client_send server_client_disconnect
  client_connect client_step client_flush client_send client_disconnect client_send_buffer_size.
