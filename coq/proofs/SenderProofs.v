(* SenderProofs.v — invariants of PacketSender: exact byte accounting (C20), allocation and window
   bounds (C06, sender half), acknowledge() never runs past the window (C03). *)
From Coq Require Import ZArith Lia ZifyBool ZifyN ZifyNat.
From UF Require Import Consts Base Frame Sender BaseLemmas.
Ltac Zify.zify_post_hook ::= Z.div_mod_to_equations.

Fixpoint sum_N (l : list N) : N := match l with [] => 0 | x :: t => x + sum_N t end.

Lemma sum_N_app a b : sum_N (a ++ b) = sum_N a + sum_N b.
Proof. induction a as [|x a IH]; cbn [app sum_N]; lia. Qed.

Definition queued_bytes (s : sender) : N := sum_N (map (fun e => len (se_data e)) (s_queue s)).
Definition window_bytes (s : sender) : N := sum_N (map (fun e => len (pp_data (we_packet e))) (s_win s)).
Definition window_alloc (s : sender) : N := sum_N (map we_alloc (s_win s)).

(* well-formedness of a sender state *)
Record SWf (s : sender) : Prop := mkSWf {
  wf_total : s_total s = queued_bytes s + window_bytes s;
  wf_alloc : s_alloc s = window_alloc s;
  wf_alloc_le : s_alloc s <= s_max_alloc s;
  wf_span : len (s_win s) = pid_sub (s_next s) (s_base s);
  wf_win_le : len (s_win s) <= s_wsize s;
  wf_wsize : s_wsize s <= MAX_PACKET_WINDOW_SIZE;
  wf_base : s_base s < pow20;
  wf_next : s_next s < pow20
}.

Lemma sender_new_wf w b m : w <= MAX_PACKET_WINDOW_SIZE -> b < pow20 -> SWf (sender_new w b m).
Proof.
  intros Hw Hb. constructor; cbn; try reflexivity; try lia.
  - unfold pid_sub. nia_pows.
Qed.

Lemma enqueue_wf s d c m f : SWf s -> SWf (sender_enqueue s d c m f).
Proof.
  intros [Ht Ha Hal Hs Hw Hws Hb Hn]. constructor; cbn; try assumption.
  unfold queued_bytes, window_bytes in *. cbn. rewrite map_app, sum_N_app. cbn. lia.
Qed.

(* drop_stale: exact accounting, and every subtraction is covered by the running total *)
Lemma drop_stale_spec q : forall (fid total extra : N),
  total = sum_N (map (fun e => len (se_data e)) q) + extra ->
  let '(q', total') := drop_stale q fid total in
  total' = sum_N (map (fun e => len (se_data e)) q') + extra /\ (exists pre, q = pre ++ q') .
Proof.
  induction q as [|e q IH]; intros fid total extra H; cbn [drop_stale].
  - split; [assumption|exists []; reflexivity].
  - destruct (se_mode e); try (split; [assumption|exists []; reflexivity]).
    destruct (negb (se_flush e =? fid)).
    + cbn [map sum_N] in H.
      specialize (IH fid (total - len (se_data e)) extra).
      destruct (drop_stale q fid (total - len (se_data e))) as [q' t'].
      destruct IH as [IH1 [pre IH2]]; [lia|].
      split; [assumption|]. exists (e :: pre). rewrite IH2. reflexivity.
    + split; [assumption|exists []; reflexivity].
Qed.

(* no underflow: whenever drop_stale subtracts, the total covers the subtrahend *)
Lemma drop_stale_no_underflow q (total extra : N) e q' :
  total = sum_N (map (fun e => len (se_data e)) q) + extra ->
  q = e :: q' -> len (se_data e) <= total.
Proof. intros H ->. cbn in H. lia. Qed.

Lemma pid_sub_self a : a < pow20 -> pid_sub a a = 0.
Proof. unfold pid_sub. nia_pows. Qed.

Lemma pid_span_succ next base n :
  next < pow20 -> base < pow20 -> pid_sub next base = n -> n < 4096 ->
  pid_sub (pid_add next 1) base = n + 1.
Proof. unfold pid_sub, pid_add. intros. nia_pows. Qed.

Lemma pid_span_pred next base n :
  next < pow20 -> base < pow20 -> pid_sub next base = n -> 0 < n -> n <= 4096 ->
  pid_sub next (pid_add base 1) = n - 1.
Proof. unfold pid_sub, pid_add. intros. nia_pows. Qed.

Lemma pid_add_lt a b : pid_add a b < pow20.
Proof. unfold pid_add. nia_pows. Qed.

Lemma emit_packet_wf s fid : SWf s -> SWf (fst (sender_emit_packet s fid)).
Proof.
  intros [Ht Ha Hal Hs Hw Hws Hb Hn]. unfold sender_emit_packet.
  pose proof (drop_stale_spec (s_queue s) fid (s_total s) (window_bytes s) Ht) as Hd.
  destruct (drop_stale (s_queue s) fid (s_total s)) as [q total]. destruct Hd as [Hd _].
  assert (W0 : SWf (mkSender q (s_base s) (s_next s) (s_base_uid s) (s_win s) (s_wsize s) (s_wparent s) (s_chans s)
                             (s_max_alloc s) (s_alloc s) total)).
  { constructor; cbn; assumption. }
  destruct q as [|e q']; [exact W0|].
  destruct (N.leb_spec (s_wsize s) (pid_sub (s_next s) (s_base s))) as [Hfull|Hroom]; [exact W0|].
  destruct (N.ltb_spec (s_max_alloc s) (s_alloc s + alloc_size (len (se_data e)))) as [Hno|Hok]; [exact W0|].
  cbn [fst]. cbv [MAX_PACKET_WINDOW_SIZE] in *.
  constructor; cbn [s_total s_alloc s_max_alloc s_win s_next s_base s_wsize s_queue].
  - unfold queued_bytes, window_bytes in *. cbn [s_queue s_win] in *. rewrite map_app, sum_N_app. cbn in *. lia.
  - unfold window_alloc in *. cbn [s_win]. rewrite map_app, sum_N_app. cbn. lia.
  - lia.
  - rewrite len_app. change (len [_]) with 1.
    rewrite (pid_span_succ (s_next s) (s_base s) (len (s_win s))); lia.
  - rewrite len_app. change (len [_]) with 1. lia.
  - assumption.
  - assumption.
  - apply pid_add_lt.
Qed.

Lemma release_wf n : forall s, SWf s -> N.of_nat n <= len (s_win s) ->
  exists s', sender_release n s = Ok s' /\ SWf s' /\ s_base s' = pid_add (s_base s) (N.of_nat n) /\ s_queue s' = s_queue s.
Proof.
  induction n as [|n IH]; intros s W Hn; cbn [sender_release].
  - exists s. split; [reflexivity|]. split; [exact W|]. split; [|reflexivity].
    destruct W. unfold pid_add. cbn [N.of_nat]. nia_pows.
  - destruct W as [Ht Ha Hal Hs Hw Hws Hb Hnx].
    destruct (s_win s) as [|e win'] eqn:Ewin; [rewrite len_nil in Hn; lia|].
    rewrite len_cons in *. cbv [MAX_PACKET_WINDOW_SIZE] in *.
    match goal with |- exists s', sender_release n ?S = _ /\ _ => set (s1 := S) end.
    assert (W1 : SWf s1).
    { subst s1. constructor; cbn [s_total s_alloc s_max_alloc s_win s_next s_base s_wsize s_queue].
      - unfold queued_bytes, window_bytes in *. rewrite Ewin in *. cbn in *. lia.
      - unfold window_alloc in *. rewrite Ewin in *. cbn in *. lia.
      - unfold window_alloc in *. rewrite Ewin in *. cbn in *. lia.
      - rewrite (pid_span_pred (s_next s) (s_base s) (1 + len win')); lia.
      - lia.
      - assumption.
      - apply pid_add_lt.
      - assumption. }
    destruct (IH s1 W1) as [s' [E [W' [Hb' Hq']]]]; [subst s1; cbn [s_win]; lia|].
    exists s'. split; [exact E|]. split; [exact W'|]. split.
    + rewrite Hb'. subst s1. cbn [s_base]. unfold pid_add. nia_pows.
    + rewrite Hq'. reflexivity.
Qed.

Lemma acknowledge_wf s id : SWf s -> exists s', sender_acknowledge s id = Ok s' /\ SWf s'.
Proof.
  intros W. unfold sender_acknowledge.
  destruct (negb (pid_valid id)); [eauto|].
  destruct (N.ltb_spec (pid_sub (s_next s) (s_base s)) (pid_sub id (s_base s))) as [H|H]; [eauto|].
  destruct (release_wf (N.to_nat (pid_sub id (s_base s))) s W) as [s' [E [W' _]]].
  - rewrite (wf_span s W). lia.
  - eauto.
Qed.

Lemma sum_N_upd_same {A} (f : A -> N) l i x :
  (forall y, nth_error l i = Some y -> f x = f y) -> sum_N (map f (upd l i x)) = sum_N (map f l).
Proof.
  revert i. induction l as [|h t IH]; intros i H; destruct i; cbn [upd map sum_N]; try reflexivity.
  - rewrite (H h eq_refl). reflexivity.
  - rewrite IH; [reflexivity|]. intros y Hy. apply H. exact Hy.
Qed.

Lemma upd_length {A} (l : list A) i x : length (upd l i x) = length l.
Proof. revert i; induction l as [|h t IH]; intros [|i]; cbn; congruence. Qed.

Lemma ack_fragment_wf s uid frag : SWf s -> SWf (sender_ack_fragment s uid frag).
Proof.
  intros W. unfold sender_ack_fragment, sender_lookup, nth_opt.
  destruct (uid <? s_base_uid s); [assumption|].
  destruct (uid - s_base_uid s <? N.of_nat (length (s_win s))); [|assumption].
  destruct (nth_error (s_win s) (N.to_nat (uid - s_base_uid s))) as [e|] eqn:E; [|assumption].
  destruct W as [Ht Ha Hal Hs Hw Hws Hb Hn].
  constructor; cbn [s_total s_alloc s_max_alloc s_win s_next s_base s_wsize s_queue]; try assumption.
  - unfold queued_bytes, window_bytes in *. cbn [s_queue s_win].
    rewrite sum_N_upd_same; [assumption|]. intros y Hy. rewrite E in Hy. inversion Hy; subst.
    destruct (pp_fragment_acked (we_packet y) frag); reflexivity.
  - unfold window_alloc in *. cbn [s_win]. rewrite sum_N_upd_same; [assumption|].
    intros y Hy. rewrite E in Hy. inversion Hy; subst. reflexivity.
  - unfold len in *. rewrite upd_length. assumption.
  - unfold len in *. rewrite upd_length. assumption.
Qed.

(* ---------- every reachable state ---------- *)
Inductive sender_op :=
| OpEnqueue (data : list N) (chan : N) (mode : send_mode) (flush_id : N)
| OpEmit (flush_id : N)
| OpAcknowledge (receiver_base_id : N)
| OpAckFragment (uid frag : N).

Definition sender_step (s : sender) (o : sender_op) : sender :=
  match o with
  | OpEnqueue d c m f => sender_enqueue s d c m f
  | OpEmit f => fst (sender_emit_packet s f)
  | OpAcknowledge id => match sender_acknowledge s id with Ok s' => s' | _ => s end
  | OpAckFragment u f => sender_ack_fragment s u f
  end.

Lemma sender_step_wf s o : SWf s -> SWf (sender_step s o).
Proof.
  intros W. destruct o; cbn [sender_step].
  - apply enqueue_wf, W.
  - apply emit_packet_wf, W.
  - destruct (acknowledge_wf s receiver_base_id W) as [s' [E W']]. rewrite E. exact W'.
  - apply ack_fragment_wf, W.
Qed.

Theorem sender_reachable_wf w b m ops :
  w <= MAX_PACKET_WINDOW_SIZE -> b < pow20 -> SWf (fold_left sender_step ops (sender_new w b m)).
Proof.
  intros Hw Hb. assert (W : SWf (sender_new w b m)) by (apply sender_new_wf; assumption).
  revert W. generalize (sender_new w b m). induction ops as [|o ops IH]; intros s W; cbn [fold_left]; [exact W|].
  apply IH, sender_step_wf, W.
Qed.

Theorem sender_acknowledge_total w b m ops id :
  w <= MAX_PACKET_WINDOW_SIZE -> b < pow20 ->
  exists s', sender_acknowledge (fold_left sender_step ops (sender_new w b m)) id = Ok s'.
Proof.
  intros Hw Hb. destruct (acknowledge_wf _ id (sender_reachable_wf w b m ops Hw Hb)) as [s' [E _]]. eauto.
Qed.

Lemma release_consts n : forall s0,
  match sender_release n s0 with
  | Ok s' => s_max_alloc s' = s_max_alloc s0 /\ s_wsize s' = s_wsize s0
  | _ => True end.
Proof.
  induction n as [|n IHn]; intros s0; cbn [sender_release]; [split; reflexivity|].
  destruct (s_win s0) as [|e win']; [exact I|].
  match goal with |- match sender_release n ?S with _ => _ end => specialize (IHn S); destruct (sender_release n S) end;
    [exact IHn|exact I|exact I].
Qed.

Lemma sender_step_consts s o :
  s_max_alloc (sender_step s o) = s_max_alloc s /\ s_wsize (sender_step s o) = s_wsize s.
Proof.
  destruct o; cbn [sender_step].
  - split; reflexivity.
  - unfold sender_emit_packet. destruct (drop_stale _ _ _) as [q t]. destruct q as [|e q']; [split; reflexivity|].
    destruct (s_wsize s <=? _); [split; reflexivity|]. destruct (s_max_alloc s <? _); split; reflexivity.
  - unfold sender_acknowledge. destruct (negb _); [split; reflexivity|]. destruct (_ <? _); [split; reflexivity|].
    pose proof (release_consts (N.to_nat (pid_sub receiver_base_id (s_base s))) s) as G.
    destruct (sender_release _ s); [exact G|split; reflexivity|split; reflexivity].
  - unfold sender_ack_fragment. destruct (sender_lookup s uid); split; reflexivity.
Qed.

Lemma sender_fold_consts ops : forall s,
  s_max_alloc (fold_left sender_step ops s) = s_max_alloc s /\ s_wsize (fold_left sender_step ops s) = s_wsize s.
Proof.
  induction ops as [|o ops IH]; intros s; cbn [fold_left]; [split; reflexivity|].
  destruct (IH (sender_step s o)) as [E1 E2]. destruct (sender_step_consts s o) as [E3 E4].
  split; congruence.
Qed.

Lemma wf_zero_when_empty s : SWf s -> s_queue s = [] -> s_win s = [] -> s_total s = 0.
Proof. intros W Hq Hw. rewrite (wf_total s W). unfold queued_bytes, window_bytes. rewrite Hq, Hw. reflexivity. Qed.

(* ceil_frag and the advertised limit *)
Lemma ceil_frag_ge x : x <= ceil_frag x.
Proof. unfold ceil_frag. cbv [MAX_FRAGMENT_SIZE]. lia. Qed.
