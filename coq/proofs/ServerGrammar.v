(* ServerGrammar.v — C08 for the server: for every history and every address, the events the application sees
   about that address (with the application's own drop calls interleaved) follow
   (Error* Connect Receive* (Disconnect | Error | drop))* — Receive and Disconnect only inside a connection,
   a new Connect only after the previous connection has ended. *)
From Coq Require Import ZArith Lia ZifyBool ZifyN ZifyNat.
From UF Require Import Consts Base Frame Codec F64 Feedback Sender Receiver FrameAck Heap FrameQueue SendRate HalfConn Endpoint
                       BaseLemmas SenderProofs EndpointTotal ServerBytes.
Local Open Scope N_scope.

Lemma NoDup_app_one {X} (l : list X) x : NoDup l -> ~ In x l -> NoDup (l ++ [x]).
Proof.
  induction l as [|h t IH]; intros Hn Hx; cbn [app]; [constructor; [intros []|constructor]|].
  inversion Hn as [|? ? Hh Ht]; subst. constructor.
  - intros Hin. apply in_app_or in Hin as [Hin|[->|[]]]; [exact (Hh Hin)|]. apply Hx. left. reflexivity.
  - apply IH; [exact Ht|]. intros Hin. apply Hx. right. exact Hin.
Qed.

Lemma find_app' {X} (f : X -> bool) (l1 l2 : list X) :
  find f (l1 ++ l2) = match find f l1 with Some x => Some x | None => find f l2 end.
Proof. induction l1 as [|h t IH]; cbn [app find]; [reflexivity|]. destruct (f h); [reflexivity|exact IH]. Qed.

Inductive titem := TEv (e : ep_event) | TDrop (addr : N).
Inductive sphase := PIdle | PConn.

Section Grammar.
  Variable A : N.

  Definition sstep (p : sphase) (x : titem) : option sphase :=
    match x with
    | TEv (EvConnect a) => if a =? A then match p with PIdle => Some PConn | PConn => None end else Some p
    | TEv (EvReceive a _) => if a =? A then match p with PConn => Some PConn | PIdle => None end else Some p
    | TEv (EvDisconnect a) => if a =? A then match p with PConn => Some PIdle | PIdle => None end else Some p
    | TEv (EvError a _) => if a =? A then Some PIdle else Some p
    | TDrop a => if a =? A then Some PIdle else Some p
    end.

  Fixpoint srun (p : sphase) (tr : list titem) : option sphase :=
    match tr with
    | [] => Some p
    | x :: t => match sstep p x with Some p' => srun p' t | None => None end
    end.

  Lemma srun_app p l1 l2 : srun p (l1 ++ l2) = match srun p l1 with Some p' => srun p' l2 | None => None end.
  Proof. revert p. induction l1 as [|e t IH]; intros p; cbn [app srun]; [reflexivity|]. destruct (sstep p e); [apply IH|reflexivity]. Qed.

  Definition ev_addr (e : ep_event) : N :=
    match e with EvConnect a | EvDisconnect a | EvReceive a _ | EvError a _ => a end.

  Lemma srun_other p evs : Forall (fun e => ev_addr e <> A) evs -> srun p (map TEv evs) = Some p.
  Proof.
    induction 1 as [|e t He Ht IH]; cbn [map srun]; [reflexivity|].
    assert (E : sstep p (TEv e) = Some p).
    { destruct e; cbn [sstep ev_addr] in *; rewrite (proj2 (N.eqb_neq _ _) He); reflexivity. }
    rewrite E. exact IH.
  Qed.

  Lemma srun_receives addr pkts : srun PConn (map TEv (map (EvReceive addr) pkts)) = Some PConn.
  Proof. induction pkts as [|x t IH]; cbn [map srun sstep]; [reflexivity|]. destruct (addr =? A); exact IH. Qed.

  (* ----- the server's view of an address ----- *)
  Definition conn_state (st : sv_cstate) : bool :=
    match st with SvActive _ _ _ _ | SvClosing => true | _ => false end.

  Definition phase_at (s : server) (addr : N) : sphase :=
    match sv_lookup s addr with
    | Some id => if conn_state (so_state (sv_obj_get s id)) then PConn else PIdle
    | None => PIdle
    end.

  Record WF (s : server) : Prop := {
    wf_table : Forall (fun p => snd p < len (sv_objs s) /\ so_addr (sv_obj_get s (snd p)) = fst p) (sv_clients s);
    wf_nodup : NoDup (map fst (sv_clients s));
    wf_live : forall id, id < len (sv_objs s) -> so_state (sv_obj_get s id) <> SvFin -> In (so_addr (sv_obj_get s id), id) (sv_clients s)
  }.

  Lemma find_first_in (l : list (N * N)) addr : forall id,
    NoDup (map fst l) -> In (addr, id) l -> find (fun p => fst p =? addr) l = Some (addr, id).
  Proof.
    induction l as [|[a i] t IH]; intros id Hn Hin; [destruct Hin|]. cbn [find fst]. cbn [map fst] in Hn. inversion Hn as [|? ? Hni Hnt]; subst.
    destruct Hin as [E|Hin].
    - inversion E; subst. rewrite N.eqb_refl. reflexivity.
    - destruct (N.eqb_spec a addr) as [->|Hne]; [|apply IH; assumption].
      exfalso. apply Hni. apply in_map_iff. exists (addr, id). split; [reflexivity|exact Hin].
  Qed.

  Lemma lookup_in s addr id : sv_lookup s addr = Some id -> In (addr, id) (sv_clients s).
  Proof.
    unfold sv_lookup. destruct (find _ (sv_clients s)) as [[a i]|] eqn:E; [|discriminate]. intros H; inversion H; subst.
    apply find_some in E as [Hin He]. cbn [fst] in He. apply N.eqb_eq in He. subst a. exact Hin.
  Qed.

  Lemma in_lookup s addr id : WF s -> In (addr, id) (sv_clients s) -> sv_lookup s addr = Some id.
  Proof. intros W Hin. unfold sv_lookup. rewrite (find_first_in _ addr id (wf_nodup s W) Hin). reflexivity. Qed.

  Lemma lookup_none_not_in s addr : sv_lookup s addr = None -> ~ In addr (map fst (sv_clients s)).
  Proof.
    unfold sv_lookup. destruct (find _ (sv_clients s)) eqn:E; [discriminate|]. intros _ Hin.
    apply in_map_iff in Hin as [[a i] [Ea Hin]]. cbn [fst] in Ea. subst a.
    pose proof (find_none _ _ E (addr, i) Hin) as F. cbn [fst] in F. rewrite N.eqb_refl in F. discriminate.
  Qed.

  (* a live object is the one its address is looked up to *)
  Lemma live_lookup s id : WF s -> id < len (sv_objs s) -> so_state (sv_obj_get s id) <> SvFin ->
    sv_lookup s (so_addr (sv_obj_get s id)) = Some id.
  Proof. intros W Hr Hl. apply in_lookup; [exact W|]. apply (wf_live s W); assumption. Qed.

  Lemma lookup_addr_wf s addr id : WF s -> sv_lookup s addr = Some id -> id < len (sv_objs s) /\ so_addr (sv_obj_get s id) = addr.
  Proof.
    intros W H. apply lookup_in in H. pose proof (wf_table s W) as T. rewrite Forall_forall in T. exact (T _ H).
  Qed.

  Lemma obj_range s id : so_state (sv_obj_get s id) <> SvFin -> id < len (sv_objs s).
  Proof.
    intros H. destruct (N.lt_ge_cases id (len (sv_objs s))) as [|Hge]; [assumption|]. exfalso. apply H.
    unfold sv_obj_get. rewrite nth_overflow; [reflexivity|]. unfold len in Hge. lia.
  Qed.

  (* ----- updates of the object table ----- *)
  Lemma set_obj_len s id st : len (sv_objs (sv_set_obj s id st)) = len (sv_objs s).
  Proof. unfold sv_set_obj, len. cbn [sv_objs]. rewrite upd_length. reflexivity. Qed.

  Lemma set_obj_addr s id st j : so_addr (sv_obj_get (sv_set_obj s id st) j) = so_addr (sv_obj_get s j).
  Proof.
    destruct (N.lt_ge_cases id (len (sv_objs s))) as [Hin|Hout].
    - destruct (N.eq_dec j id) as [->|Hne]; [rewrite obj_get_set_same by exact Hin; reflexivity|rewrite obj_get_set_other by exact Hne; reflexivity].
    - unfold sv_obj_get. rewrite set_obj_out_of_range by exact Hout. reflexivity.
  Qed.

  Lemma set_obj_state_other s id st j : j <> id -> so_state (sv_obj_get (sv_set_obj s id st) j) = so_state (sv_obj_get s j).
  Proof. intros H. rewrite obj_get_set_other by exact H. reflexivity. Qed.

  Lemma set_obj_WF s id st : WF s -> (st <> SvFin -> so_state (sv_obj_get s id) <> SvFin) -> WF (sv_set_obj s id st).
  Proof.
    intros [T N L] Hst. constructor.
    - cbn [sv_set_obj sv_clients]. eapply Forall_impl; [|exact T]. intros p [P1 P2]. cbn beta. rewrite set_obj_len, set_obj_addr. split; assumption.
    - exact N.
    - intros j Hj Hl. rewrite set_obj_len in Hj. rewrite set_obj_addr. cbn [sv_set_obj sv_clients]. apply L; [exact Hj|].
      destruct (N.eq_dec j id) as [->|Hne].
      + apply Hst. intros E. apply Hl. rewrite obj_get_set_same by exact Hj. exact E.
      + rewrite set_obj_state_other in Hl by exact Hne. exact Hl.
  Qed.

  Lemma NoDup_map_filter (l : list (N * N)) f : NoDup (map fst l) -> NoDup (map fst (filter f l)).
  Proof.
    induction l as [|x t IH]; intros H; cbn [filter map]; [constructor|]. cbn [map] in H. inversion H as [|? ? Hn Ht]; subst.
    destruct (f x); [|apply IH; exact Ht]. cbn [map]. constructor; [|apply IH; exact Ht].
    intros Hin. apply Hn. apply in_map_iff in Hin as [y [Ey Hy]]. apply filter_In in Hy as [Hy _]. apply in_map_iff. exists y. split; assumption.
  Qed.

  Lemma remove_addr_WF s addr : WF s -> (forall id, sv_lookup s addr = Some id -> so_state (sv_obj_get s id) = SvFin) -> WF (sv_remove_addr s addr).
  Proof.
    intros W Hfin. pose proof W as [T N L]. constructor; cbn [sv_remove_addr sv_clients sv_objs].
    - rewrite Forall_forall in *. intros p Hp. apply filter_In in Hp as [Hp _]. exact (T p Hp).
    - apply NoDup_map_filter. exact N.
    - intros id Hr Hl. change (sv_obj_get (sv_remove_addr s addr) id) with (sv_obj_get s id) in *.
      apply filter_In. split; [apply L; assumption|]. cbn [fst]. apply negb_true_iff. apply N.eqb_neq. intros E.
      apply Hl. apply Hfin. rewrite <- E. apply live_lookup; assumption.
  Qed.

  Lemma lookup_remove_other s addr a : a <> addr -> sv_lookup (sv_remove_addr s addr) a = sv_lookup s a.
  Proof.
    intros H. unfold sv_lookup, sv_remove_addr. cbn [sv_clients].
    induction (sv_clients s) as [|[x i] t IH]; [reflexivity|]. cbn [filter fst].
    destruct (N.eqb_spec x addr) as [->|Hx]; cbn [negb].
    - cbn [find fst]. rewrite (proj2 (N.eqb_neq addr a)) by (intros E; apply H; symmetry; exact E). exact IH.
    - cbn [find fst]. destruct (x =? a); [reflexivity|exact IH].
  Qed.

  Lemma lookup_remove_same s addr : sv_lookup (sv_remove_addr s addr) addr = None.
  Proof.
    unfold sv_lookup, sv_remove_addr. cbn [sv_clients].
    induction (sv_clients s) as [|[x i] t IH]; [reflexivity|]. cbn [filter fst].
    destruct (N.eqb_spec x addr) as [->|Hx]; cbn [negb]; [exact IH|]. cbn [find fst]. rewrite (proj2 (N.eqb_neq x addr) Hx). exact IH.
  Qed.

  (* ----- how the phase of A moves ----- *)
  Lemma phase_set_obj s id st :
    WF s -> so_state (sv_obj_get s id) <> SvFin ->
    phase_at (sv_set_obj s id st) A =
      if so_addr (sv_obj_get s id) =? A then (if conn_state st then PConn else PIdle) else phase_at s A.
  Proof.
    intros W Hl. pose proof (obj_range s id Hl) as Hr. pose proof (live_lookup s id W Hr Hl) as Lk.
    unfold phase_at. change (sv_lookup (sv_set_obj s id st) A) with (sv_lookup s A).
    destruct (N.eqb_spec (so_addr (sv_obj_get s id)) A) as [E|Hne].
    - rewrite E in Lk. rewrite Lk. rewrite obj_get_set_same by exact Hr. reflexivity.
    - destruct (sv_lookup s A) as [ia|] eqn:La; [|reflexivity].
      destruct (lookup_addr_wf s A ia W La) as [_ Ea].
      rewrite set_obj_state_other; [reflexivity|]. intros ->. apply Hne. exact Ea.
  Qed.

  Lemma phase_remove s addr : phase_at (sv_remove_addr s addr) A = if addr =? A then PIdle else phase_at s A.
  Proof.
    unfold phase_at. destruct (N.eqb_spec addr A) as [->|Hne].
    - rewrite lookup_remove_same. reflexivity.
    - rewrite lookup_remove_other by (intros E; apply Hne; symmetry; exact E). reflexivity.
  Qed.

  Lemma phase_ext s s' : sv_clients s' = sv_clients s -> sv_objs s' = sv_objs s -> phase_at s' A = phase_at s A.
  Proof. intros E1 E2. unfold phase_at, sv_lookup, sv_obj_get. rewrite E1, E2. reflexivity. Qed.

  Lemma WF_ext s s' : sv_clients s' = sv_clients s -> sv_objs s' = sv_objs s -> WF s -> WF s'.
  Proof.
    intros E1 E2 [T N L]. constructor; unfold sv_obj_get in *; rewrite ?E1, ?E2; assumption.
  Qed.

  (* ----- the accumulator judgment ----- *)
  Definition good (s : server) (a : sv_acc) (s' : server) (a' : sv_acc) : Prop :=
    WF s -> WF s' /\ exists evs, ac_events a' = ac_events a ++ evs /\ srun (phase_at s A) (map TEv evs) = Some (phase_at s' A).

  Lemma good_refl s a : good s a s a.
  Proof. intros W. split; [exact W|]. exists []. rewrite app_nil_r. split; reflexivity. Qed.

  Lemma good_trans s1 a1 s2 a2 s3 a3 : good s1 a1 s2 a2 -> good s2 a2 s3 a3 -> good s1 a1 s3 a3.
  Proof.
    intros G1 G2 W. destruct (G1 W) as [W2 [e1 [E1 R1]]]. destruct (G2 W2) as [W3 [e2 [E2 R2]]]. split; [exact W3|].
    exists (e1 ++ e2). split; [rewrite E2, E1, app_assoc; reflexivity|]. rewrite map_app, srun_app, R1. exact R2.
  Qed.

  Lemma good_quiet s a s' a' : ac_events a' = ac_events a -> (WF s -> WF s' /\ phase_at s' A = phase_at s A) -> good s a s' a'.
  Proof. intros Ev H W. destruct (H W) as [W' P]. split; [exact W'|]. exists []. rewrite app_nil_r, P. split; [exact Ev|reflexivity]. Qed.

  Lemma good_push s a e : good s a (sv_push_event s e) a.
  Proof. apply good_quiet; [reflexivity|]. intros W. split; [eapply WF_ext; [| |exact W]; reflexivity|apply phase_ext; reflexivity]. Qed.

  (* ----- events about one address ----- *)
  Lemma srun_foreign p evs addr : addr <> A -> Forall (fun e => ev_addr e = addr) evs -> srun p (map TEv evs) = Some p.
  Proof. intros Hne H. apply srun_other. eapply Forall_impl; [|exact H]. intros e He. cbn beta in He. congruence. Qed.

  Lemma receives_about addr pkts : Forall (fun e => ev_addr e = addr) (map (EvReceive addr) pkts).
  Proof. induction pkts; cbn [map]; constructor; [reflexivity|assumption]. Qed.

  Lemma acc_events_events a addr pkts : ac_events (acc_events a addr pkts) = ac_events a ++ map (EvReceive addr) pkts.
  Proof. reflexivity. Qed.

  (* a tracked object changes state (and is possibly forgotten), reporting `evs` about its address *)
  Lemma good_transition s a id st (forget : bool) evs a' :
    so_state (sv_obj_get s id) <> SvFin ->
    (st <> SvFin -> True) -> (forget = true -> st = SvFin) ->
    ac_events a' = ac_events a ++ evs ->
    Forall (fun e => ev_addr e = so_addr (sv_obj_get s id)) evs ->
    (so_addr (sv_obj_get s id) = A ->
       srun (if conn_state (so_state (sv_obj_get s id)) then PConn else PIdle) (map TEv evs)
       = Some (if forget then PIdle else if conn_state st then PConn else PIdle)) ->
    good s a (if forget then sv_remove_addr (sv_set_obj s id st) (so_addr (sv_obj_get s id)) else sv_set_obj s id st) a'.
  Proof.
    intros Hl _ Hf Ev Hab Hrun W.
    pose proof (obj_range s id Hl) as Hr. pose proof (live_lookup s id W Hr Hl) as Lk.
    assert (W1 : WF (sv_set_obj s id st)) by (apply set_obj_WF; [exact W|intros _; exact Hl]).
    assert (P1 : phase_at (sv_set_obj s id st) A = if so_addr (sv_obj_get s id) =? A then (if conn_state st then PConn else PIdle) else phase_at s A)
      by (apply phase_set_obj; assumption).
    assert (P0 : so_addr (sv_obj_get s id) = A -> phase_at s A = if conn_state (so_state (sv_obj_get s id)) then PConn else PIdle).
    { intros E. unfold phase_at. rewrite <- E, Lk. reflexivity. }
    destruct forget.
    - split.
      + apply remove_addr_WF; [exact W1|]. intros id' L'. change (sv_lookup (sv_set_obj s id st) (so_addr (sv_obj_get s id))) with (sv_lookup s (so_addr (sv_obj_get s id))) in L'.
        rewrite Lk in L'. inversion L'; subst id'. rewrite obj_get_set_same by exact Hr. cbn [so_state]. apply Hf. reflexivity.
      + exists evs. split; [exact Ev|]. rewrite phase_remove, P1.
        destruct (N.eqb_spec (so_addr (sv_obj_get s id)) A) as [E|Hne].
        * rewrite (P0 E). apply Hrun. exact E.
        * apply srun_foreign with (addr := so_addr (sv_obj_get s id)); assumption.
    - split; [exact W1|]. exists evs. split; [exact Ev|]. rewrite P1.
      destruct (N.eqb_spec (so_addr (sv_obj_get s id)) A) as [E|Hne].
      + rewrite (P0 E). apply Hrun. exact E.
      + apply srun_foreign with (addr := so_addr (sv_obj_get s id)); assumption.
  Qed.

  (* ----- the handlers ----- *)
  Lemma sv_refuse_good s a addr n e k : sv_lookup s addr = None -> good s a (fst (sv_refuse s a addr n e k)) (snd (sv_refuse s a addr n e k)).
  Proof.
    intros Ln W. unfold sv_refuse. cbn [fst snd]. split; [exact W|].
    destruct (svc_enable_errors _); cbn [acc_event acc_send ac_events].
    - exists [EvError addr k]. split; [reflexivity|]. cbn [map srun sstep].
      destruct (N.eqb_spec addr A) as [->|]; [|reflexivity]. unfold phase_at. rewrite Ln. reflexivity.
    - exists []. rewrite app_nil_r. split; reflexivity.
  Qed.

  Lemma sv_handle_syn_good s a addr v n mrr mps mra now :
    good s a (fst (sv_handle_syn s a addr v n mrr mps mra now)) (snd (sv_handle_syn s a addr v n mrr mps mra now)).
  Proof.
    unfold sv_handle_syn. destruct (sv_lookup s addr) eqn:Ln; [apply good_refl|].
    destruct (negb _); [apply sv_refuse_good; exact Ln|]. destruct (_ || _); [apply sv_refuse_good; exact Ln|].
    destruct (mra <? _); [apply sv_refuse_good; exact Ln|]. destruct (_ <? mps); [apply sv_refuse_good; exact Ln|].
    cbn [fst snd].
    set (ln := hd 0 (ac_nonces a)). set (reply := write_handshake_syn_ack n ln _ _ _). set (id := len (sv_objs s)).
    set (s1 := mkServer (sv_cfg s) (sv_objs s ++ [mkSvObj addr (SvPending ln n mrr mra reply)]) (sv_clients s ++ [(addr, id)])
                        (sv_active s) (sv_events s) (sv_t0 s) (sv_seed s)).
    eapply good_trans; [|apply good_push].
    apply good_quiet; [reflexivity|]. intros W. pose proof W as [T N L].
    assert (Hget : forall j, j < id -> sv_obj_get s1 j = sv_obj_get s j).
    { intros j Hj. unfold sv_obj_get. subst s1. cbn [sv_objs]. apply app_nth1. subst id. unfold len in Hj. lia. }
    assert (Hnew : sv_obj_get s1 id = mkSvObj addr (SvPending ln n mrr mra reply)).
    { unfold sv_obj_get. subst s1. cbn [sv_objs]. rewrite app_nth2 by (subst id; unfold len; lia).
      replace (N.to_nat id - length (sv_objs s))%nat with 0%nat by (subst id; unfold len; lia). reflexivity. }
    assert (Hlen1 : len (sv_objs s1) = id + 1) by (subst s1 id; cbn [sv_objs]; rewrite len_app, len_cons, len_nil; lia).
    assert (Lk : forall x, sv_lookup s1 x = match sv_lookup s x with Some i => Some i | None => if addr =? x then Some id else None end).
    { intros x. unfold sv_lookup. subst s1. cbn [sv_clients]. rewrite find_app'. destruct (find _ (sv_clients s)) as [p|]; [reflexivity|].
      cbn [find fst snd]. destruct (addr =? x); reflexivity. }
    split.
    - constructor.
      + change (sv_clients s1) with (sv_clients s ++ [(addr, id)]). apply Forall_app. split.
        * eapply Forall_impl; [|exact T]. intros p [P1 P2]. cbn beta. fold id in P1. rewrite Hlen1, Hget by exact P1. split; [lia|exact P2].
        * constructor; [|constructor]. cbn [fst snd]. rewrite Hlen1, Hnew. split; [lia|reflexivity].
      + change (sv_clients s1) with (sv_clients s ++ [(addr, id)]). rewrite map_app. cbn [map fst].
        apply NoDup_app_one; [exact N|]. apply lookup_none_not_in. exact Ln.
      + intros j Hj Hl. rewrite Hlen1 in Hj. change (sv_clients s1) with (sv_clients s ++ [(addr, id)]). apply in_or_app.
        destruct (N.eq_dec j id) as [->|Hne].
        * right. rewrite Hnew. left. reflexivity.
        * left. rewrite Hget in * by lia. apply L; [fold id; lia|exact Hl].
    - unfold phase_at. rewrite Lk. destruct (sv_lookup s A) as [ia|] eqn:La.
      + destruct (lookup_addr_wf s A ia W La) as [Hr _]. fold id in Hr. rewrite Hget by exact Hr. reflexivity.
      + destruct (addr =? A); [|reflexivity]. rewrite Hnew. reflexivity.
  Qed.

  Ltac live E := rewrite E; discriminate.

  Lemma sv_handle_ack_good s a addr na now vnow : good s a (fst (sv_handle_ack s a addr na now vnow)) (snd (sv_handle_ack s a addr na now vnow)).
  Proof.
    unfold sv_handle_ack. destruct (sv_lookup s addr) as [id|] eqn:El; [|apply good_refl].
    destruct (so_state (sv_obj_get s id)) eqn:E; try apply good_refl.
    - destruct (_ && _); [|apply good_refl]. cbn [fst snd]. intros W.
      destruct (lookup_addr_wf s addr id W El) as [_ Ea].
      set (st := SvActive _ _ _ _).
      assert (F : Forall (fun e => ev_addr e = so_addr (sv_obj_get s id)) [EvConnect addr]) by (constructor; [cbn; congruence|constructor]).
      assert (Rn : so_addr (sv_obj_get s id) = A ->
                   srun (if conn_state (so_state (sv_obj_get s id)) then PConn else PIdle) (map TEv [EvConnect addr]) = Some (if false then PIdle else if conn_state st then PConn else PIdle)).
      { intros EA. rewrite E. cbn [conn_state map srun sstep]. assert (HA : addr = A) by congruence. rewrite HA, N.eqb_refl. reflexivity. }
      destruct (good_transition s a id st false [EvConnect addr] (acc_event a (EvConnect addr)) ltac:(live E) (fun _ => I) ltac:(discriminate) eq_refl F Rn W) as [W' [evs [Ev R]]].
      split; [eapply WF_ext; [| |exact W']; reflexivity|]. exists evs. split; [exact Ev|exact R].
    - cbn [fst snd]. intros W.
      pose proof (good_transition s a id (SvActive h t0 (now + ec_active_timeout (svc_ec (sv_cfg s))) disc) false [] a ltac:(live E) (fun _ => I) ltac:(discriminate)
                    ltac:(rewrite app_nil_r; reflexivity) ltac:(constructor)) as G.
      cbv iota in G. apply G; [|exact W]. intros _. rewrite E. reflexivity.
  Qed.

  Lemma sv_handle_disconnect_good s a addr now : good s a (fst (sv_handle_disconnect s a addr now)) (snd (sv_handle_disconnect s a addr now)).
  Proof.
    unfold sv_handle_disconnect. destruct (sv_lookup s addr) as [id|] eqn:El; [|apply good_refl].
    destruct (so_state (sv_obj_get s id)) eqn:E; try apply good_refl.
    - destruct (hc_receive h) as [h' pkts]. cbn [fst snd]. eapply good_trans; [|apply good_push].
      intros W. destruct (lookup_addr_wf s addr id W El) as [_ Ea].
      pose proof (good_transition s a id SvClosed false (map (EvReceive addr) pkts ++ [EvDisconnect addr])
                    (acc_event (acc_events (acc_send a addr write_disconnect_ack) addr pkts) (EvDisconnect addr)) ltac:(live E) (fun _ => I) ltac:(discriminate)) as G.
      cbv iota in G. apply G; [cbn [acc_event acc_events acc_send ac_events]; rewrite app_assoc; reflexivity| | |exact W].
      + apply Forall_app. split; [rewrite Ea; apply receives_about|constructor; [cbn; congruence|constructor]].
      + intros EA. rewrite E. cbn [conn_state]. rewrite map_app, srun_app, srun_receives. cbn [map srun sstep]. assert (HA : addr = A) by congruence. rewrite HA, N.eqb_refl. reflexivity.
    - cbn [fst snd]. eapply good_trans; [|apply good_push].
      intros W. destruct (lookup_addr_wf s addr id W El) as [_ Ea].
      pose proof (good_transition s a id SvClosed false [EvDisconnect addr] (acc_event (acc_send a addr write_disconnect_ack) (EvDisconnect addr)) ltac:(live E) (fun _ => I) ltac:(discriminate) eq_refl) as G.
      cbv iota in G. apply G; [constructor; [cbn; congruence|constructor]| |exact W].
      intros EA. rewrite E. cbn [conn_state map srun sstep]. assert (HA : addr = A) by congruence. rewrite HA, N.eqb_refl. reflexivity.
    - cbn [fst snd]. apply good_quiet; [reflexivity|]. intros W. split; [exact W|reflexivity].
  Qed.

  Lemma sv_handle_disconnect_ack_good s a addr : good s a (fst (sv_handle_disconnect_ack s a addr)) (snd (sv_handle_disconnect_ack s a addr)).
  Proof.
    unfold sv_handle_disconnect_ack. destruct (sv_lookup s addr) as [id|] eqn:El; [|apply good_refl].
    destruct (so_state (sv_obj_get s id)) eqn:E; try apply good_refl. cbn [fst snd].
    intros W. destruct (lookup_addr_wf s addr id W El) as [_ Ea].
    pose proof (good_transition s a id SvFin true [EvDisconnect addr] (acc_event a (EvDisconnect addr)) ltac:(live E) (fun _ => I) (fun _ => eq_refl) eq_refl) as G.
    cbv iota in G. rewrite Ea in G. apply G; [constructor; [reflexivity|constructor]| |exact W].
    intros EA. rewrite E. cbn [conn_state map srun sstep]. rewrite EA, N.eqb_refl. reflexivity.
  Qed.

  Lemma sv_handle_hc_frame_good s a addr f now r : sv_handle_hc_frame s a addr f now = Ok r -> good s a (fst r) (snd r).
  Proof.
    unfold sv_handle_hc_frame. intros Er. destruct (sv_lookup s addr) as [id|]; [|inversion Er; subst; apply good_refl].
    destruct (so_state (sv_obj_get s id)) eqn:E; try (inversion Er; subst; apply good_refl).
    destruct (hc_handle_frame h f) as [[h' k]| |]; cbn [bind fst] in Er; try discriminate. inversion Er; subst. cbn [fst snd].
    intros W.
    pose proof (good_transition s a id (SvActive h' t0 (now + ec_active_timeout (svc_ec (sv_cfg s))) disc) false [] a ltac:(live E) (fun _ => I) ltac:(discriminate)
                  ltac:(rewrite app_nil_r; reflexivity) ltac:(constructor)) as G.
    cbv iota in G. apply G; [|exact W]. intros _. rewrite E. reflexivity.
  Qed.

  Lemma sv_handle_frame_good s a addr f now vnow r : sv_handle_frame s a addr f now vnow = Ok r -> good s a (fst r) (snd r).
  Proof.
    destruct f as [v n x y z|na n mrr mps mra|na|na e| | |seq nonce dgs|nf np|fb pb acks]; cbn [sv_handle_frame]; intros Er;
      try (inversion Er; subst; apply good_refl).
    - inversion Er; subst. apply sv_handle_syn_good.
    - inversion Er; subst. apply sv_handle_ack_good.
    - inversion Er; subst. apply sv_handle_disconnect_good.
    - inversion Er; subst. apply sv_handle_disconnect_ack_good.
    - eapply sv_handle_hc_frame_good; eassumption.
    - eapply sv_handle_hc_frame_good; eassumption.
    - eapply sv_handle_hc_frame_good; eassumption.
  Qed.

  Lemma sv_handle_frames_good now vnow : forall inbox s a r, sv_handle_frames inbox s a now vnow = Ok r -> good s a (fst r) (snd r).
  Proof.
    induction inbox as [|[addr bs] rest IH]; intros s a r Er; cbn [sv_handle_frames] in Er; [inversion Er; subst; apply good_refl|].
    destruct (read_frame bs) as [[f|]| |]; cbn [bind] in Er; try discriminate; [|eapply IH; exact Er].
    destruct (sv_handle_frame s a addr f now vnow) as [[s1 a1]| |] eqn:E1; cbn [bind fst snd] in Er; try discriminate.
    eapply good_trans; [apply (sv_handle_frame_good _ _ _ _ _ _ _ E1)|]. eapply IH. exact Er.
  Qed.

  (* ----- timers ----- *)
  Lemma sv_handle_event_good s a ev now : good s a (fst (sv_handle_event s a ev now)) (snd (sv_handle_event s a ev now)).
  Proof.
    unfold sv_handle_event. destruct (so_state (sv_obj_get s (rq_uid ev))) eqn:E; try apply good_refl.
    - destruct (rq_frag ev =? 0); [|apply good_refl]. destruct (0 <? rq_count ev); cbn [fst snd].
      + eapply good_trans; [|apply good_push]. apply good_quiet; [reflexivity|]. intros W. split; [exact W|reflexivity].
      + intros W. destruct (svc_enable_errors (sv_cfg s)).
        * pose proof (good_transition s a (rq_uid ev) SvFin true [EvError (so_addr (sv_obj_get s (rq_uid ev))) 0]
                        (acc_event a (EvError (so_addr (sv_obj_get s (rq_uid ev))) 0)) ltac:(live E) (fun _ => I) (fun _ => eq_refl) eq_refl) as G.
          cbv iota in G. apply G; [constructor; [reflexivity|constructor]| |exact W].
          intros EA. cbn [map srun sstep]. rewrite EA, N.eqb_refl. reflexivity.
        * pose proof (good_transition s a (rq_uid ev) SvFin true [] a ltac:(live E) (fun _ => I) (fun _ => eq_refl) ltac:(rewrite app_nil_r; reflexivity) ltac:(constructor)) as G.
          cbv iota in G. apply G; [|exact W]. intros _. rewrite E. reflexivity.
    - destruct (rq_frag ev =? 1); [|apply good_refl]. destruct (0 <? rq_count ev); cbn [fst snd].
      + eapply good_trans; [|apply good_push]. apply good_quiet; [reflexivity|]. intros W. split; [exact W|reflexivity].
      + intros W.
        pose proof (good_transition s a (rq_uid ev) SvFin true [EvError (so_addr (sv_obj_get s (rq_uid ev))) 0]
                      (acc_event a (EvError (so_addr (sv_obj_get s (rq_uid ev))) 0)) ltac:(live E) (fun _ => I) (fun _ => eq_refl) eq_refl) as G.
        cbv iota in G. apply G; [constructor; [reflexivity|constructor]| |exact W].
        intros EA. cbn [map srun sstep]. rewrite EA, N.eqb_refl. reflexivity.
    - destruct (rq_frag ev =? 2); cbn [fst snd]; [|apply good_refl]. intros W.
      pose proof (good_transition s a (rq_uid ev) SvFin true [] a ltac:(live E) (fun _ => I) (fun _ => eq_refl) ltac:(rewrite app_nil_r; reflexivity) ltac:(constructor)) as G.
      cbv iota in G. apply G; [|exact W]. intros _. rewrite E. reflexivity.
  Qed.

  Lemma sv_pop_events_good now : forall fuel s a r, sv_pop_events fuel s a now = Ok r -> good s a (fst r) (snd r).
  Proof.
    induction fuel as [|fuel IH]; intros s a r Er; cbn [sv_pop_events] in Er; [discriminate|].
    destruct (heap_peek (sv_events s)) as [ev|]; [|inversion Er; subst; apply good_refl].
    destruct (now <? rq_time ev); [inversion Er; subst; apply good_refl|].
    destruct (heap_pop (sv_events s)) as [[ev' rest]|]; [|discriminate].
    set (s1 := mkServer (sv_cfg s) (sv_objs s) (sv_clients s) (sv_active s) rest (sv_t0 s) (sv_seed s)) in *.
    pose proof (sv_handle_event_good s1 a ev' now) as He. destruct (sv_handle_event s1 a ev' now) as [s2 a2]. cbn [fst snd] in He.
    eapply good_trans; [|eapply IH; exact Er]. eapply good_trans; [|exact He].
    apply good_quiet; [reflexivity|]. intros W. split; [eapply WF_ext; [| |exact W]; reflexivity|apply phase_ext; reflexivity].
  Qed.

  (* ----- established connections ----- *)
  Lemma sv_active_timeouts_good now : forall ids s a, good s a (fst (sv_active_timeouts ids s a now)) (snd (sv_active_timeouts ids s a now)).
  Proof.
    induction ids as [|id rest IH]; intros s a; cbn [sv_active_timeouts]; [apply good_refl|].
    destruct (so_state (sv_obj_get s id)) eqn:E; try apply IH. destruct (timeout_time <=? now); [|apply IH].
    destruct (hc_receive h) as [h' pkts]. eapply good_trans; [|apply IH]. intros W.
    pose proof (good_transition s a id SvFin true (map (EvReceive (so_addr (sv_obj_get s id))) pkts ++ [EvError (so_addr (sv_obj_get s id)) 0])
                  (acc_event (acc_events a (so_addr (sv_obj_get s id)) pkts) (EvError (so_addr (sv_obj_get s id)) 0)) ltac:(live E) (fun _ => I) (fun _ => eq_refl)) as G.
    cbv iota in G. apply G; [cbn [acc_event acc_events ac_events]; rewrite app_assoc; reflexivity| | |exact W].
    - apply Forall_app. split; [apply receives_about|constructor; [reflexivity|constructor]].
    - intros EA. rewrite E. cbn [conn_state]. rewrite map_app, srun_app, srun_receives. cbn [map srun sstep]. rewrite EA, N.eqb_refl. reflexivity.
  Qed.

  Lemma fold_send_events' addr : forall out a, ac_events (fold_left (fun acc fr => acc_send acc addr fr) out a) = ac_events a.
  Proof. induction out as [|fr t IH]; intros a; cbn [fold_left]; [reflexivity|]. rewrite IH. reflexivity. Qed.

  Lemma sv_flush_active_good : forall ids s a r, sv_flush_active ids s a = Ok r -> good s a (fst r) (snd r).
  Proof.
    induction ids as [|id rest IH]; intros s a r Er; cbn [sv_flush_active] in Er; [inversion Er; subst; apply good_refl|].
    destruct (so_state (sv_obj_get s id)) eqn:E; try (eapply IH; eassumption).
    destruct (hc_flush h) as [[h' out]| |]; cbn [bind fst snd] in Er; try discriminate.
    eapply good_trans; [|eapply IH; exact Er]. intros W.
    pose proof (good_transition s a id (SvActive h' t0 timeout_time disc) false [] (fold_left (fun acc fr => acc_send acc (so_addr (sv_obj_get s id)) fr) out a)
                  ltac:(live E) (fun _ => I) ltac:(discriminate) ltac:(rewrite fold_send_events', app_nil_r; reflexivity) ltac:(constructor)) as G.
    cbv iota in G. apply G; [|exact W]. intros _. rewrite E. reflexivity.
  Qed.

  Lemma sv_step_active_good now vnow : forall ids s a r, sv_step_active ids s a now vnow = Ok r -> good s a (fst r) (snd r).
  Proof.
    induction ids as [|id rest IH]; intros s a r Er; cbn [sv_step_active] in Er; [inversion Er; subst; apply good_refl|].
    destruct (so_state (sv_obj_get s id)) eqn:E; try (eapply IH; eassumption).
    match type of Er with (if ?x then _ else _) = _ => destruct x end.
    - destruct (hc_receive h) as [h' pkts]. eapply good_trans; [|eapply IH; exact Er]. eapply good_trans; [|apply good_push]. intros W.
      pose proof (good_transition s a id SvClosing false (map (EvReceive (so_addr (sv_obj_get s id))) pkts)
                    (acc_send (acc_events a (so_addr (sv_obj_get s id)) pkts) (so_addr (sv_obj_get s id)) write_disconnect) ltac:(live E) (fun _ => I) ltac:(discriminate) eq_refl) as G.
      cbv iota in G. apply G; [apply receives_about| |exact W]. intros _. rewrite E. cbn [conn_state]. apply srun_receives.
    - destruct (hc_step h (vnow - t0)) as [h1| |]; cbn [bind] in Er; try discriminate.
      destruct (hc_receive h1) as [h2 pkts]. eapply good_trans; [|eapply IH; exact Er]. intros W.
      pose proof (good_transition s a id (SvActive h2 t0 timeout_time disc) false (map (EvReceive (so_addr (sv_obj_get s id))) pkts)
                    (acc_events a (so_addr (sv_obj_get s id)) pkts) ltac:(live E) (fun _ => I) ltac:(discriminate) eq_refl) as G.
      cbv iota in G. apply G; [apply receives_about| |exact W]. intros _. rewrite E. cbn [conn_state]. apply srun_receives.
  Qed.

  Theorem server_step_grammar s vnow inbox nonces s' evs sends rest :
    server_step s vnow inbox nonces = Ok (s', evs, sends, rest) -> WF s ->
    WF s' /\ srun (phase_at s A) (map TEv evs) = Some (phase_at s' A).
  Proof.
    unfold server_step. intros E W.
    destruct (sv_flush_active (sv_active s) s (mkAcc [] [] nonces)) as [[s1 a1]| |] eqn:E1; cbn [bind fst snd] in E; try discriminate.
    pose proof (sv_flush_active_good _ _ _ _ E1) as G1. cbn [fst snd] in G1.
    destruct (sv_handle_frames inbox s1 a1 (vnow - sv_t0 s) vnow) as [[s2 a2]| |] eqn:E2; cbn [bind fst snd] in E; try discriminate.
    pose proof (sv_handle_frames_good _ _ _ _ _ _ E2) as G2. cbn [fst snd] in G2.
    destruct (sv_pop_events _ s2 a2 (vnow - sv_t0 s)) as [[s3 a3]| |] eqn:E3; cbn [bind fst snd] in E; try discriminate.
    pose proof (sv_pop_events_good _ _ _ _ _ E3) as G3. cbn [fst snd] in G3.
    pose proof (sv_active_timeouts_good (vnow - sv_t0 s) (sv_active s3) s3 a3) as G4.
    destruct (sv_active_timeouts (sv_active s3) s3 a3 (vnow - sv_t0 s)) as [s4 a4]. cbn [fst snd] in G4.
    match type of E with (do r6 <- sv_step_active ?ids ?s5 a4 ?n ?v; _) = _ =>
      destruct (sv_step_active ids s5 a4 n v) as [[s6 a6]| |] eqn:E6; cbn [bind fst snd] in E; try discriminate;
      pose proof (sv_step_active_good n v ids s5 a4 _ E6) as G6; set (s5' := s5) in * end.
    cbn [fst snd] in G6. inversion E; subst.
    assert (G45 : good s4 a4 s5' a4).
    { apply good_quiet; [reflexivity|]. intros W4. split; [eapply WF_ext; [| |exact W4]; reflexivity|apply phase_ext; reflexivity]. }
    pose proof (good_trans _ _ _ _ _ _ G1 (good_trans _ _ _ _ _ _ G2 (good_trans _ _ _ _ _ _ G3 (good_trans _ _ _ _ _ _ G4 (good_trans _ _ _ _ _ _ G45 G6))))) as G.
    destruct (G W) as [W' [ev [Ev R]]]. cbn [ac_events app] in Ev. subst ev. split; [exact W'|exact R].
  Qed.

  (* ----- application calls ----- *)
  Lemma flush_active_events : forall ids s0 a0 r, sv_flush_active ids s0 a0 = Ok r -> ac_events (snd r) = ac_events a0.
  Proof.
    induction ids as [|id rest IH]; intros s0 a0 r Er; cbn [sv_flush_active] in Er; [inversion Er; reflexivity|].
    destruct (so_state (sv_obj_get s0 id)); try (eapply IH; eassumption).
    destruct (hc_flush h) as [[h' out]| |]; cbn [bind fst snd] in Er; try discriminate.
    rewrite (IH _ _ _ Er). apply fold_send_events'.
  Qed.

  Lemma server_flush_grammar s s' sends : server_flush s = Ok (s', sends) -> WF s -> WF s' /\ phase_at s' A = phase_at s A.
  Proof.
    unfold server_flush. intros E W.
    destruct (sv_flush_active (sv_active s) s (mkAcc [] [] [])) as [[s1 a1]| |] eqn:E1; cbn [bind fst snd] in E; try discriminate.
    inversion E; subst. destruct (sv_flush_active_good _ _ _ _ E1 W) as [W' [evs [Ev R]]]. cbn [fst snd] in *.
    pose proof (flush_active_events _ _ _ _ E1) as X. cbn [snd ac_events] in X. rewrite X in Ev. cbn [ac_events app] in Ev. subst evs. cbn [map srun] in R. inversion R. split; [exact W'|reflexivity].
  Qed.

  Lemma phase_set_obj_other s id st addr :
    WF s -> sv_lookup s addr = Some id -> addr <> A -> phase_at (sv_set_obj s id st) A = phase_at s A.
  Proof.
    intros W El Hne. unfold phase_at. change (sv_lookup (sv_set_obj s id st) A) with (sv_lookup s A).
    destruct (sv_lookup s A) as [ia|] eqn:La; [|reflexivity].
    destruct (lookup_addr_wf s A ia W La) as [_ Ea]. destruct (lookup_addr_wf s addr id W El) as [_ Eb].
    rewrite set_obj_state_other; [reflexivity|]. intros ->. apply Hne. congruence.
  Qed.

  Lemma server_drop_grammar s addr : WF s -> WF (server_drop s addr) /\ sstep (phase_at s A) (TDrop addr) = Some (phase_at (server_drop s addr) A).
  Proof.
    intros W. unfold server_drop. destruct (sv_lookup s addr) as [id|] eqn:El.
    - split.
      + apply remove_addr_WF; [apply set_obj_WF; [exact W|intros H; contradiction]|].
        intros id' L'. change (sv_lookup (sv_set_obj s id SvFin) addr) with (sv_lookup s addr) in L'. rewrite El in L'. inversion L'; subst id'.
        destruct (lookup_addr_wf s addr id W El) as [Hr _]. rewrite obj_get_set_same by exact Hr. reflexivity.
      + cbn [sstep]. rewrite phase_remove. destruct (N.eqb_spec addr A) as [E|Hne]; [reflexivity|].
        rewrite (phase_set_obj_other s id SvFin addr W El Hne). reflexivity.
    - split; [exact W|]. cbn [sstep]. destruct (N.eqb_spec addr A) as [->|]; [|reflexivity]. unfold phase_at. rewrite El. reflexivity.
  Qed.

  Lemma server_client_send_grammar s addr d ch m : WF s -> WF (server_client_send s addr d ch m) /\ phase_at (server_client_send s addr d ch m) A = phase_at s A.
  Proof.
    intros W. unfold server_client_send. destruct (sv_lookup s addr) as [id|] eqn:El; [|split; [exact W|reflexivity]].
    destruct (so_state (sv_obj_get s id)) eqn:E; try (split; [exact W|reflexivity]).
    split; [apply set_obj_WF; [exact W|intros _; rewrite E; discriminate]|].
    rewrite phase_set_obj by (try exact W; rewrite E; discriminate).
    destruct (N.eqb_spec (so_addr (sv_obj_get s id)) A) as [EA|]; [|reflexivity].
    unfold phase_at. destruct (lookup_addr_wf s addr id W El) as [_ Ea]. rewrite <- EA, Ea, El, E. reflexivity.
  Qed.

  Lemma server_client_disconnect_grammar s addr now : WF s -> WF (server_client_disconnect s addr now) /\ phase_at (server_client_disconnect s addr now) A = phase_at s A.
  Proof.
    intros W. unfold server_client_disconnect. destruct (sv_lookup s addr) as [id|] eqn:El; [|split; [exact W|reflexivity]].
    destruct (so_state (sv_obj_get s id)) eqn:E; try (split; [exact W|reflexivity]).
    split; [apply set_obj_WF; [exact W|intros _; rewrite E; discriminate]|].
    rewrite phase_set_obj by (try exact W; rewrite E; discriminate).
    destruct (N.eqb_spec (so_addr (sv_obj_get s id)) A) as [EA|]; [|reflexivity].
    unfold phase_at. destruct (lookup_addr_wf s addr id W El) as [_ Ea]. rewrite <- EA, Ea, El, E. reflexivity.
  Qed.

  (* ----- whole histories ----- *)
  Definition sv_trace_op (st : server * list titem) (o : sv_op) : server * list titem :=
    let '(s, tr) := st in
    match o with
    | SvStep vnow inbox nonces => match server_step s vnow inbox nonces with Ok (s', evs, _, _) => (s', tr ++ map TEv evs) | _ => st end
    | SvFlush => match server_flush s with Ok (s', _) => (s', tr) | _ => st end
    | SvDrop addr => (server_drop s addr, tr ++ [TDrop addr])
    | SvSend addr d ch m => (server_client_send s addr d ch m, tr)
    | SvDisconnect addr now => (server_client_disconnect s addr now, tr)
    end.

  Definition TrInv (st : server * list titem) : Prop := WF (fst st) /\ srun PIdle (snd st) = Some (phase_at (fst st) A).

  Lemma sv_trace_op_inv st o : TrInv st -> TrInv (sv_trace_op st o).
  Proof.
    destruct st as [s tr]. intros [W R]. cbn [fst snd] in *.
    destruct o as [vnow inbox nonces| |addr|addr d ch m|addr now]; cbn [sv_trace_op].
    - destruct (server_step s vnow inbox nonces) as [[[[s' evs] sends] rest]| |] eqn:Es; try (split; assumption).
      destruct (server_step_grammar _ _ _ _ _ _ _ _ Es W) as [W' R']. split; cbn [fst snd]; [exact W'|]. rewrite srun_app, R. exact R'.
    - destruct (server_flush s) as [[s' sends]| |] eqn:Es; try (split; assumption).
      destruct (server_flush_grammar _ _ _ Es W) as [W' P]. split; cbn [fst snd]; [exact W'|]. rewrite P. exact R.
    - destruct (server_drop_grammar s addr W) as [W' P]. split; cbn [fst snd]; [exact W'|]. rewrite srun_app, R. cbn [srun]. rewrite P. reflexivity.
    - destruct (server_client_send_grammar s addr d ch m W) as [W' P]. split; cbn [fst snd]; [exact W'|]. rewrite P. exact R.
    - destruct (server_client_disconnect_grammar s addr now W) as [W' P]. split; cbn [fst snd]; [exact W'|]. rewrite P. exact R.
  Qed.

  (* For every history and every address: the events about that address, with the application's drop calls
     interleaved, are accepted by the per-connection automaton. *)
  Theorem server_event_grammar cfg t0 seed ops :
    exists p, srun PIdle (snd (fold_left sv_trace_op ops (server_new cfg t0 seed, []))) = Some p.
  Proof.
    assert (G : forall st, TrInv st -> TrInv (fold_left sv_trace_op ops st)).
    { induction ops as [|o ops' IH]; intros st H; cbn [fold_left]; [exact H|]. apply IH. apply sv_trace_op_inv. exact H. }
    destruct (G (server_new cfg t0 seed, [])) as [_ R].
    - split; cbn [fst snd].
      + constructor; cbn [server_new sv_clients sv_objs]; [constructor|constructor|]. intros id Hid. unfold len in Hid. cbn in Hid. lia.
      + reflexivity.
    - eexists. exact R.
  Qed.
End Grammar.
