(* ReceiverProofs.v — invariants of PacketReceiver / AssemblyWindow for ANY datagram stream:
   the allocation counter equals the sum of the per-slot allocations and never exceeds the
   (fragment-rounded) limit; slot indices stay inside the arrays (C06 receiver half, C03). *)
From Coq Require Import ZArith Lia ZifyBool ZifyN ZifyNat.
From UF Require Import Consts Base Frame Receiver BaseLemmas SenderProofs.
Ltac Zify.zify_post_hook ::= Z.div_mod_to_equations.

Definition slots_alloc (sl : list slot) : N := sum_N (map (fun s => asm_entry_alloc (sl_asm s)) sl).

Record RWf (r : receiver) : Prop := mkRWf {
  rw_len : length (r_slots r) = N.to_nat (r_wsize r);
  rw_wsize : 0 < r_wsize r;
  rw_alloc : r_alloc r = slots_alloc (r_slots r);
  rw_le : r_alloc r <= r_max_alloc r
}.

Lemma widx_lt r seq : RWf r -> (widx r seq < length (r_slots r))%nat.
Proof. intros W. unfold widx. rewrite (rw_len r W). pose proof (rw_wsize r W). lia. Qed.

Lemma sum_N_upd {A} (f : A -> N) (d : A) l i x :
  (i < length l)%nat -> sum_N (map f (upd l i x)) + f (nth i l d) = sum_N (map f l) + f x.
Proof.
  revert i. induction l as [|h t IH]; intros i Hi; [cbn in Hi; lia|].
  destruct i; cbn [upd map sum_N nth].
  - lia.
  - cbn in Hi. specialize (IH i ltac:(lia)). lia.
Qed.

Lemma repeatN_map {A B} (f : A -> B) x n : map f (repeatN x n) = repeatN (f x) n.
Proof. induction n; cbn; congruence. Qed.

Lemma sum_N_repeat0 n : sum_N (repeatN 0 n) = 0.
Proof. induction n; cbn [repeatN sum_N]; lia. Qed.

Lemma receiver_new_wf w b m : 0 < w -> RWf (receiver_new w b m).
Proof.
  intros Hw. constructor; cbn.
  - apply repeatN_length.
  - assumption.
  - unfold slots_alloc. rewrite repeatN_map. cbn. rewrite sum_N_repeat0. reflexivity.
  - lia.
Qed.

(* asm_try_add keeps alloc' = alloc - old + new and alloc' <= max *)
Lemma asm_try_add_alloc e alloc maxa dg e' alloc' p :
  asm_try_add e alloc maxa dg = (e', alloc', p) ->
  alloc <= maxa -> asm_entry_alloc e <= alloc ->
  alloc' + asm_entry_alloc e = alloc + asm_entry_alloc e' /\ alloc' <= maxa.
Proof.
  unfold asm_try_add. intros H Hle He.
  destruct e as [|a|a chan wpl cpl last buf].
  - destruct (N.ltb_spec maxa (alloc + packet_alloc_size dg)).
    + inversion H; subst. cbn. lia.
    + destruct (dg_frag_last dg =? 0); inversion H; subst; cbn; lia.
  - inversion H; subst. lia.
  - destruct (negb (dg_chan dg =? chan) || negb (dg_wpl dg =? wpl) || negb (dg_cpl dg =? cpl) || negb (dg_frag_last dg =? last)).
    + inversion H; subst. lia.
    + destruct (fb_finished (fb_write buf (dg_frag dg) (dg_data dg))); inversion H; subst; cbn; lia.
Qed.

Lemma slot_alloc_le_sum sl i : (i < length sl)%nat ->
  asm_entry_alloc (sl_asm (nth i sl slot_init)) <= slots_alloc sl.
Proof.
  unfold slots_alloc. revert i. induction sl as [|h t IH]; intros i Hi; [cbn in Hi; lia|].
  destruct i; cbn [nth map sum_N]; [lia|]. cbn in Hi. specialize (IH i ltac:(lia)). lia.
Qed.

Lemma handle_datagram_wf r dg : RWf r -> RWf (receiver_handle_datagram r dg).
Proof.
  intros W. unfold receiver_handle_datagram.
  destruct (negb (datagram_is_valid dg)); [exact W|].
  destruct (r_wsize r <=? pid_sub (dg_seq dg) (r_base r)); [exact W|].
  destruct (pid_sub (dg_seq dg) (r_base r) <? _); [exact W|].
  pose proof (widx_lt r (dg_seq dg) W) as Hi.
  set (i := widx r (dg_seq dg)) in *.
  destruct (asm_try_add (sl_asm (get_slot r i)) (r_alloc r) (r_max_alloc r) dg) as [[asm' alloc'] produced] eqn:E.
  destruct W as [Hl Hw Ha Hle].
  assert (Hs : asm_entry_alloc (sl_asm (get_slot r i)) <= r_alloc r).
  { rewrite Ha. apply slot_alloc_le_sum, Hi. }
  destruct (asm_try_add_alloc _ _ _ _ _ _ _ E Hle Hs) as [H1 H2].
  unfold get_slot in *.
  destruct produced as [p|]; constructor; cbn [r_slots r_wsize r_alloc r_max_alloc];
    try (rewrite upd_length; assumption); try assumption.
  - unfold slots_alloc in *.
    pose proof (sum_N_upd (fun s => asm_entry_alloc (sl_asm s)) slot_init (r_slots r) i
                 (mkSlot asm' true true (ap_chan p) (ap_cpl p) (ap_wpl p) (ap_data p) (sl_marker (nth i (r_slots r) slot_init))) Hi) as Hs2.
    cbn [sl_asm] in Hs2. lia.
  - unfold slots_alloc in *.
    pose proof (sum_N_upd (fun s => asm_entry_alloc (sl_asm s)) slot_init (r_slots r) i
                 (mkSlot asm' (sl_entry (nth i (r_slots r) slot_init)) (sl_dflag (nth i (r_slots r) slot_init))
                         (sl_chan (nth i (r_slots r) slot_init)) (sl_cpl (nth i (r_slots r) slot_init))
                         (sl_wpl (nth i (r_slots r) slot_init)) (sl_data (nth i (r_slots r) slot_init))
                         (sl_marker (nth i (r_slots r) slot_init))) Hi) as Hs2.
    cbn [sl_asm] in Hs2. lia.
Qed.

(* operations that do not touch the assembly entries or the counter *)
Definition same_alloc (r r' : receiver) : Prop :=
  r_alloc r' = r_alloc r /\ r_max_alloc r' = r_max_alloc r /\ r_wsize r' = r_wsize r /\
  length (r_slots r') = length (r_slots r) /\ slots_alloc (r_slots r') = slots_alloc (r_slots r).

Lemma same_alloc_wf r r' : RWf r -> same_alloc r r' -> RWf r'.
Proof.
  intros [Hl Hw Ha Hle] [E1 [E2 [E3 [E4 E5]]]]. constructor; congruence.
Qed.

Lemma same_alloc_refl r : same_alloc r r.
Proof. repeat split. Qed.

Lemma same_alloc_trans a b c : same_alloc a b -> same_alloc b c -> same_alloc a c.
Proof. intros [A1 [A2 [A3 [A4 A5]]]] [B1 [B2 [B3 [B4 B5]]]]. repeat split; congruence. Qed.

Lemma slots_alloc_upd_same sl i x :
  (forall y, nth_error sl i = Some y -> sl_asm x = sl_asm y) -> slots_alloc (upd sl i x) = slots_alloc sl.
Proof.
  intros H. unfold slots_alloc. apply sum_N_upd_same. intros y Hy. rewrite (H y Hy). reflexivity.
Qed.

Lemma nth_error_nth_slot sl i y : nth_error sl i = Some y -> nth i sl slot_init = y.
Proof. intros H. apply nth_error_nth. exact H. Qed.

Lemma set_slot_marker_same r i m :
  same_alloc r (set_slots r (upd (r_slots r) i (slot_set_marker (get_slot r i) m))).
Proof.
  repeat split; cbn; try reflexivity.
  - apply upd_length.
  - apply slots_alloc_upd_same. intros y Hy. unfold get_slot. rewrite (nth_error_nth_slot _ _ _ Hy). reflexivity.
Qed.

Lemma set_chans_same r ch : same_alloc r (set_chans r ch).
Proof. repeat split. Qed.

Lemma set_channel_base_id_same r chan id : same_alloc r (set_channel_base_id r chan id).
Proof.
  unfold set_channel_base_id.
  set (r1 := match rc_base (get_chan r chan) with Some b => _ | None => r end).
  assert (S1 : same_alloc r r1).
  { subst r1. destruct (rc_base (get_chan r chan)); [apply set_slot_marker_same|apply same_alloc_refl]. }
  eapply same_alloc_trans; [exact S1|].
  eapply same_alloc_trans; [apply set_slot_marker_same|apply set_chans_same].
Qed.

Lemma try_unset_same r seq : same_alloc r (try_unset_channel_base_id r seq).
Proof.
  unfold try_unset_channel_base_id. destruct (sl_marker (get_slot r (widx r seq))); [|apply same_alloc_refl].
  eapply same_alloc_trans; [|apply set_chans_same].
  repeat split; cbn; try reflexivity; [apply upd_length|].
  apply slots_alloc_upd_same. intros y Hy. unfold get_slot. rewrite (nth_error_nth_slot _ _ _ Hy). reflexivity.
Qed.

Lemma adv_unset_same n : forall id r, same_alloc r (adv_unset n id r).
Proof.
  induction n as [|n IH]; intros id r; cbn [adv_unset]; [apply same_alloc_refl|].
  eapply same_alloc_trans; [apply try_unset_same|apply IH].
Qed.

Lemma adv_clear_wf n : forall id r, RWf r -> RWf (adv_clear n id r) /\ r_wsize (adv_clear n id r) = r_wsize r
                                       /\ r_max_alloc (adv_clear n id r) = r_max_alloc r.
Proof.
  induction n as [|n IH]; intros id r W; cbn [adv_clear]; [auto|].
  pose proof (widx_lt r id W) as Hi. set (i := widx r id) in *.
  match goal with |- RWf (adv_clear n _ ?R) /\ _ => set (r1 := R) end.
  assert (W1 : RWf r1).
  { destruct W as [Hl Hw Ha Hle]. subst r1. unfold get_slot.
    pose proof (slot_alloc_le_sum (r_slots r) i Hi) as Hs.
    pose proof (sum_N_upd (fun s => asm_entry_alloc (sl_asm s)) slot_init (r_slots r) i
                 (mkSlot AsmOpen false (sl_dflag (nth i (r_slots r) slot_init)) (sl_chan (nth i (r_slots r) slot_init))
                         (sl_cpl (nth i (r_slots r) slot_init)) (sl_wpl (nth i (r_slots r) slot_init))
                         (sl_data (nth i (r_slots r) slot_init)) (sl_marker (nth i (r_slots r) slot_init))) Hi) as Hs2.
    cbn [sl_asm asm_entry_alloc] in Hs2. unfold slots_alloc in *.
    constructor; cbn [r_slots r_wsize r_alloc r_max_alloc]; try assumption.
    - rewrite upd_length. assumption.
    - unfold slots_alloc. lia.
    - lia. }
  destruct (IH (pid_add id 1) r1 W1) as [W2 [E1 E2]].
  split; [exact W2|]. split; [rewrite E1|rewrite E2]; reflexivity.
Qed.

Lemma advance_window_wf r nb : RWf r -> RWf (advance_window r nb).
Proof.
  intros W. unfold advance_window.
  destruct (adv_clear_wf (N.to_nat (pid_sub nb (r_base r))) (r_base r) r W) as [W1 _].
  set (r1 := adv_clear _ _ r) in *.
  pose proof (adv_unset_same (N.to_nat (pid_sub nb (r_base r))) (r_base r) r1) as S.
  pose proof (same_alloc_wf _ _ W1 S) as [Hl Hw Ha Hle].
  constructor; cbn; assumption.
Qed.

Lemma recv_deliver_same n : forall seq base r out, same_alloc r (fst (recv_deliver n seq base r out)).
Proof.
  induction n as [|n IH]; intros seq base r out; cbn [recv_deliver]; [apply same_alloc_refl|].
  destruct (r_crf r =? 0); [apply same_alloc_refl|].
  destruct (sl_dflag (get_slot r (widx r seq))) eqn:Ed; [|apply IH].
  destruct (N.testbit (r_crf r) (sl_chan (get_slot r (widx r seq)))); [|apply IH].
  destruct (lead_ok _ _).
  - eapply same_alloc_trans; [|apply IH].
    eapply same_alloc_trans; [|apply set_channel_base_id_same].
    repeat split; cbn; try reflexivity; [apply upd_length|].
    apply slots_alloc_upd_same. intros y Hy. unfold get_slot. rewrite (nth_error_nth_slot _ _ _ Hy). reflexivity.
  - eapply same_alloc_trans; [|apply IH]. repeat split.
Qed.

Lemma receive_wf r : RWf r -> RWf (fst (receiver_receive r)).
Proof.
  intros W. unfold receiver_receive.
  pose proof (recv_deliver_same (N.to_nat (pid_sub (r_end r) (r_base r))) (r_base r) (r_base r) r []) as S.
  destruct (recv_deliver _ _ _ r []) as [r1 out]. cbn [fst] in S.
  pose proof (same_alloc_wf _ _ W S) as W1.
  destruct (r_wrf r1); cbn [fst]; [|exact W1].
  apply advance_window_wf. destruct W1 as [Hl Hw Ha Hle]. constructor; cbn; assumption.
Qed.

Lemma resynchronize_wf r id : RWf r -> RWf (receiver_resynchronize r id).
Proof.
  intros W. unfold receiver_resynchronize.
  destruct (negb (pid_valid id)); [exact W|]. destruct (r_wsize r <? _); [exact W|].
  apply advance_window_wf, W.
Qed.

(* ---------- every reachable state, for ANY stream of datagrams / sync requests / reads ---------- *)
Inductive receiver_op :=
| RDatagram (dg : datagram)
| RReceive
| RResync (sender_next_id : N).

Definition receiver_step (r : receiver) (o : receiver_op) : receiver :=
  match o with
  | RDatagram dg => receiver_handle_datagram r dg
  | RReceive => fst (receiver_receive r)
  | RResync id => receiver_resynchronize r id
  end.

Lemma receiver_step_wf r o : RWf r -> RWf (receiver_step r o).
Proof.
  destruct o; cbn [receiver_step]; auto using handle_datagram_wf, receive_wf, resynchronize_wf.
Qed.

Theorem receiver_reachable_wf w b m ops : 0 < w -> RWf (fold_left receiver_step ops (receiver_new w b m)).
Proof.
  intros Hw. assert (W : RWf (receiver_new w b m)) by (apply receiver_new_wf; assumption).
  revert W. generalize (receiver_new w b m). induction ops as [|o ops IH]; intros r W; cbn [fold_left]; [exact W|].
  apply IH, receiver_step_wf, W.
Qed.

Lemma step_max_alloc r o : r_max_alloc (receiver_step r o) = r_max_alloc r.
Proof.
  destruct o; cbn [receiver_step].
  - unfold receiver_handle_datagram.
    destruct (negb (datagram_is_valid dg)); [reflexivity|].
    destruct (r_wsize r <=? pid_sub (dg_seq dg) (r_base r)); [reflexivity|].
    destruct (pid_sub (dg_seq dg) (r_base r) <? _); [reflexivity|].
    destruct (asm_try_add _ _ _ _) as [[a b] p]. destruct p; reflexivity.
  - unfold receiver_receive.
    pose proof (recv_deliver_same (N.to_nat (pid_sub (r_end r) (r_base r))) (r_base r) (r_base r) r []) as S.
    destruct (recv_deliver _ _ _ r []) as [r1 out]. cbn [fst] in S. destruct S as [_ [E _]].
    destruct (r_wrf r1); cbn [fst]; [|exact E].
    unfold advance_window. cbn [r_max_alloc].
    set (r2 := mkReceiver _ _ _ _ _ _ _ _ false).
    pose proof (adv_unset_same (N.to_nat (pid_sub (recv_scan (N.to_nat (pid_sub (r_end r) (r_base r))) (r_base r) (r_base r) r2) (r_base r2))) (r_base r2)
                 (adv_clear (N.to_nat (pid_sub (recv_scan (N.to_nat (pid_sub (r_end r) (r_base r))) (r_base r) (r_base r) r2) (r_base r2))) (r_base r2) r2)) as [_ [E2 _]].
    rewrite E2. clear E2.
    assert (G : forall n id rr, r_max_alloc (adv_clear n id rr) = r_max_alloc rr).
    { induction n as [|n IH]; intros id rr; cbn [adv_clear]; [reflexivity|]. rewrite IH. reflexivity. }
    rewrite G. subst r2. cbn. exact E.
  - unfold receiver_resynchronize.
    destruct (negb (pid_valid sender_next_id)); [reflexivity|]. destruct (r_wsize r <? _); [reflexivity|].
    unfold advance_window. cbn [r_max_alloc].
    match goal with |- r_max_alloc (adv_unset ?n ?id ?rr) = _ => pose proof (adv_unset_same n id rr) as [_ [E2 _]] end.
    rewrite E2.
    assert (G : forall n id rr, r_max_alloc (adv_clear n id rr) = r_max_alloc rr).
    { induction n as [|n IH]; intros id rr; cbn [adv_clear]; [reflexivity|]. rewrite IH. reflexivity. }
    apply G.
Qed.

Theorem receiver_alloc_bounded w b m ops :
  0 < w ->
  r_alloc (fold_left receiver_step ops (receiver_new w b m)) <= ceil_frag_r m.
Proof.
  intros Hw.
  assert (E : r_max_alloc (fold_left receiver_step ops (receiver_new w b m)) = ceil_frag_r m).
  { change (ceil_frag_r m) with (r_max_alloc (receiver_new w b m)).
    generalize (receiver_new w b m). induction ops as [|o ops IH]; intros r; cbn [fold_left]; [reflexivity|].
    rewrite IH. apply step_max_alloc. }
  pose proof (receiver_reachable_wf w b m ops Hw) as W.
  rewrite <- E. apply (rw_le _ W).
Qed.
