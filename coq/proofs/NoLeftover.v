(* NoLeftover.v — C12 / C13: flush() never abandons a data frame under construction. Whenever one of the loops of
   emit_data_frames returns early (out of credit, frame window full), the frame under construction has been
   finished — logged, charged and handed to the socket — and at the regular end it is finished explicitly. Hence
   every fragment that was pushed into a frame during a flush is on the wire when the flush returns. *)
From Coq Require Import ZArith Lia ZifyBool ZifyN ZifyNat.
From UF Require Import Consts Base Frame Codec F64 Feedback Sender Receiver FrameAck Heap FrameQueue SendRate HalfConn BaseLemmas.
Local Open Scope N_scope.

Definition early (fl : flow) : bool := match fl with RetOk | RetErr => true | _ => false end.

Lemma finalize_none e : es_ip (dfe_finalize e) = None.
Proof. unfold dfe_finalize. destruct (es_ip e) eqn:E; [reflexivity|exact E]. Qed.

Lemma mark_rl_ip e : es_ip (mark_rate_limited e) = es_ip e. Proof. reflexivity. Qed.

Lemma push_new_err e dg ref r e' err : es_ip e = None -> dfe_push_new e dg ref r = (e', Some err) -> es_ip e' = None.
Proof.
  intros H. unfold dfe_push_new. destruct (_ <? _)%Z; [intros E; inversion E; subst; exact H|].
  destruct (negb _); intros E; inversion E; subst. exact H.
Qed.

Lemma push_err e uid frag r e' err : dfe_push e uid frag r = Ok (e', Some err) -> es_ip e' = None.
Proof.
  unfold dfe_push. destruct (sender_lookup _ _) as [we|]; [|discriminate].
  destruct (es_ip e) as [f|] eqn:Eip.
  - destruct (_ <? _)%Z; [intros E; inversion E; subst; rewrite mark_rl_ip; apply finalize_none|].
    destruct (_ || _); [|intros E; inversion E].
    intros E. inversion E as [E']. eapply push_new_err; [apply finalize_none|exact E'].
  - intros E. inversion E as [E']. eapply push_new_err; [exact Eip|exact E'].
Qed.

Lemma check_push_err e e' err : dfe_check_push e = (e', Some err) ->
  match err with SizeLimited => es_ip e' = None | WindowLimited => e' = e end.
Proof.
  unfold dfe_check_push. destruct (es_ip e) as [f|]; destruct (_ <? _)%Z;
    try (intros E; inversion E; subst; rewrite mark_rl_ip; apply finalize_none);
    destruct (negb _); intros E; inversion E; subst; reflexivity.
Qed.

Lemma resend_loop_early : forall fuel e e' fl, resend_loop fuel e = Ok (e', fl) -> early fl = true -> es_ip e' = None.
Proof.
  induction fuel as [|f IH]; intros e e' fl E Hf; cbn [resend_loop] in E; [discriminate|].
  destruct (heap_peek (h_rq (es_h e))) as [ent|]; [|inversion E; subst; discriminate Hf].
  destruct (sender_lookup _ _) as [we|]; [|eapply IH; eassumption].
  destruct (pp_fragment_acked _ _); [eapply IH; eassumption|].
  destruct (_ <? _); [inversion E; subst; discriminate Hf|].
  destruct (dfe_push e (rq_uid ent) (rq_frag ent) true) as [[e1 [[|]|]]| |] eqn:Ep; cbn [bind] in E; try discriminate.
  - inversion E; subst. eapply push_err; exact Ep.
  - inversion E; subst. eapply push_err; exact Ep.
  - destruct (heap_pop (h_rq (es_h e1))) as [[ent1 rq1]|]; [|discriminate]. eapply IH; eassumption.
Qed.

Lemma pending_inner_early : forall fuel e e' fl, pending_inner fuel e = Ok (e', fl) -> early fl = true -> es_ip e' = None.
Proof.
  induction fuel as [|f IH]; intros e e' fl E Hf; cbn [pending_inner] in E; [discriminate|].
  destruct (h_pq (es_h e)) as [|ent rest]; [inversion E; subst; discriminate Hf|].
  destruct (sender_lookup _ _) as [we|]; [|eapply IH; eassumption].
  destruct (pp_fragment_acked _ _); [eapply IH; eassumption|].
  destruct (dfe_push e (pq_uid ent) (pq_frag ent) (pq_resend ent)) as [[e1 [[|]|]]| |] eqn:Ep; cbn [bind] in E; try discriminate.
  - inversion E; subst. eapply push_err; exact Ep.
  - inversion E; subst. eapply push_err; exact Ep.
  - eapply IH; eassumption.
Qed.

Lemma pending_outer_early : forall fuel e e' fl, pending_outer fuel e = Ok (e', fl) -> early fl = true -> es_ip e' = None.
Proof.
  induction fuel as [|f IH]; intros e e' fl E Hf; cbn [pending_outer] in E; [discriminate|].
  match type of E with (do r0 <- ?X; _) = _ => destruct X as [[e2 fl2]| |] eqn:E0; cbn [bind] in E; try discriminate end.
  assert (H2 : early fl2 = true -> es_ip e2 = None).
  { destruct (h_pq (es_h e)) as [|x t]; [|inversion E0; subst; discriminate].
    destruct (dfe_check_push e) as [e1 [[|]|]] eqn:Ec.
    - inversion E0; subst. intros _. exact (check_push_err _ _ _ Ec).
    - inversion E0; subst. intros _. apply finalize_none.
    - destruct (sender_emit_packet _ _) as [s' [[uid rs]|]].
      + destruct (sender_lookup s' uid); [inversion E0; subst; discriminate|discriminate].
      + inversion E0; subst. discriminate. }
  destruct fl2; try (inversion E; subst; apply H2; exact Hf).
  destruct (pending_inner _ e2) as [[e3 fl3]| |] eqn:Ei; cbn [bind] in E; try discriminate.
  destruct fl3; try (inversion E; subst; eapply pending_inner_early; [exact Ei|exact Hf]).
  eapply IH; eassumption.
Qed.

(* emit_data_frames: the state and the frames it returns come from an emitter state with no frame under construction *)
Theorem emit_data_frames_no_leftover fuel h out h' out' ok :
  emit_data_frames fuel h out = Ok (h', out', ok) ->
  exists e, es_h e = h' /\ es_out e = out' /\ es_ip e = None.
Proof.
  unfold emit_data_frames. destruct (resend_loop fuel (mkEs h None out)) as [[e fl]| |] eqn:E1; cbn [bind]; try discriminate.
  destruct fl.
  - destruct (pending_outer fuel e) as [[e2 fl2]| |] eqn:E2; cbn [bind]; try discriminate.
    destruct fl2; intros E; inversion E; subst;
      try (exists (dfe_finalize e2); split; [reflexivity|split; [reflexivity|apply finalize_none]]);
      exists e2; (split; [reflexivity|split; [reflexivity|eapply pending_outer_early; [exact E2|reflexivity]]]).
  - destruct (pending_outer fuel e) as [[e2 fl2]| |] eqn:E2; cbn [bind]; try discriminate.
    destruct fl2; intros E; inversion E; subst;
      try (exists (dfe_finalize e2); split; [reflexivity|split; [reflexivity|apply finalize_none]]);
      exists e2; (split; [reflexivity|split; [reflexivity|eapply pending_outer_early; [exact E2|reflexivity]]]).
  - intros E; inversion E; subst. exists e. split; [reflexivity|]. split; [reflexivity|]. eapply resend_loop_early; [exact E1|reflexivity].
  - intros E; inversion E; subst. exists e. split; [reflexivity|]. split; [reflexivity|]. eapply resend_loop_early; [exact E1|reflexivity].
Qed.
