(* SyncSkip.v — C02 ("a Reliable packet is never skipped"), the sender's half: the only message that tells the receiver
   to move its packet window past packets it has not received is the next_packet_id of a sync frame, and a sync frame
   carries it only when the resend queue and the pending queue are both empty — i.e. when no fragment is scheduled
   for (re)transmission. With retransmission_kept (a Reliable / Persistent fragment stays scheduled until it is
   acknowledged or its packet released) the sender never asks the receiver to skip a Reliable packet that is still
   outstanding. *)
From Coq Require Import ZArith Lia ZifyBool ZifyN ZifyNat.
From UF Require Import Consts Base Frame Codec F64 Feedback Sender Receiver FrameAck Heap FrameQueue SendRate HalfConn BaseLemmas.
Local Open Scope N_scope.

Lemma len_zero_nil {A} (l : list A) : (len l =? 0) = true -> l = [].
Proof. destruct l; [reflexivity|]. unfold len. cbn [length]. intros H. apply N.eqb_eq in H. lia. Qed.

Theorem sync_packet_id_only_when_idle h out h' out' ok :
  emit_sync_frame h out = (h', out', ok) ->
  out' = out \/
  exists nf np, out' = out ++ [write_sync nf np] /\
    (forall id, np = Some id -> id = s_next (h_snd h) /\ h_rq h = [] /\ h_pq h = [] /\ s_next (h_snd h) <> s_base (h_snd h)).
Proof.
  unfold emit_sync_frame. destruct (_ <=? _); [|intros E; inversion E; left; reflexivity].
  set (nf := if negb (fq_next (h_fq h) =? fq_wbase (h_fq h)) then Some (fq_next (h_fq h)) else None).
  set (c := negb (s_next (h_snd h) =? s_base (h_snd h)) && (len (h_rq h) =? 0) && (len (h_pq h) =? 0)).
  match goal with |- (if ?sk then _ else _) = _ -> _ => destruct sk end; [intros E; inversion E; left; reflexivity|].
  destruct (h_credit h <? 0)%Z; intros E; inversion E; [left; reflexivity|].
  right. exists nf, (if c then Some (s_next (h_snd h)) else None). split; [reflexivity|].
  intros id Hid. unfold c in Hid. destruct (negb (s_next (h_snd h) =? s_base (h_snd h))) eqn:E1; cbn [andb] in Hid; [|discriminate].
  destruct (len (h_rq h) =? 0) eqn:E2; cbn [andb] in Hid; [|discriminate].
  destruct (len (h_pq h) =? 0) eqn:E3; [|discriminate]. inversion Hid; subst.
  split; [reflexivity|]. split; [apply len_zero_nil; exact E2|]. split; [apply len_zero_nil; exact E3|].
  apply negb_true_iff in E1. apply N.eqb_neq in E1. exact E1.
Qed.
