(* ResendKept.v — the retransmission obligation is never dropped (C02 / C09 / C12): a fragment that is scheduled
   for (re)transmission — it sits in the resend queue, or in the pending queue with the resend flag — stays
   scheduled through every HalfConnection operation until it has been acknowledged or its packet has left the
   send window. flush() in particular only ever removes such an entry when it is dead, and re-queues it every
   time it transmits it. *)
From Coq Require Import ZArith Lia ZifyBool ZifyN ZifyNat.
From UF Require Import Consts Base Frame Codec F64 Feedback Sender Receiver FrameAck Heap FrameQueue SendRate HalfConn
                       BaseLemmas SenderProofs FrameQueueProofs HcLemmas HeapCount HcTotal HcFlushTotal.
Local Open Scope N_scope.

Section Kept.
  Variables (u f : N).

  Definition is_uf (e : rq_entry) : bool := (rq_uid e =? u) && (rq_frag e =? f).

  Definition in_rq (h : hc) : Prop := (0 < cnt is_uf (h_rq h))%nat.
  Definition in_pq (h : hc) : Prop := exists p, In p (h_pq h) /\ pq_uid p = u /\ pq_frag p = f /\ pq_resend p = true.
  Definition sched (h : hc) : Prop := in_rq h \/ in_pq h.

  Definition fin (s : sender) : Prop :=
    u < s_base_uid s \/ exists we, sender_lookup s u = Some we /\ pp_fragment_acked (we_packet we) f = true.
  Definition emitted (s : sender) : Prop := u < s_base_uid s + len (s_win s).

  Definition K (h : hc) : Prop := emitted (h_snd h) /\ (sched h \/ fin (h_snd h)).

  (* a dead reference is a finished one *)
  Lemma lookup_none_fin s : emitted s -> sender_lookup s u = None -> fin s.
  Proof.
    unfold emitted, sender_lookup, fin. intros He. destruct (N.ltb_spec u (s_base_uid s)); [intros _; left; assumption|].
    intros Hn. exfalso. unfold nth_opt in Hn. destruct (N.ltb_spec (u - s_base_uid s) (N.of_nat (length (s_win s)))) as [Hl|Hl].
    - apply nth_error_None in Hn. lia.
    - unfold len in He. lia.
  Qed.

  (* emitting a packet appends to the window: nothing about u changes *)
  Lemma emit_keeps s fid s' r : sender_emit_packet s fid = (s', r) -> emitted s ->
    emitted s' /\ (fin s -> fin s') /\ sender_lookup s' u = sender_lookup s u.
  Proof.
    intros E He. destruct r as [[uid resend]|].
    - destruct (emit_packet_spec s fid s' uid resend E) as (e & q' & _ & _ & _ & _ & _ & Hb & (we & Hw & _) & _).
      assert (Hl : sender_lookup s' u = sender_lookup s u).
      { unfold sender_lookup. rewrite Hb, Hw. destruct (N.ltb_spec u (s_base_uid s)) as [|Hge]; [reflexivity|].
        unfold emitted in He. unfold nth_opt, len in *. rewrite app_length. cbn [length].
        destruct (N.ltb_spec (u - s_base_uid s) (N.of_nat (length (s_win s)))); [|lia].
        destruct (N.ltb_spec (u - s_base_uid s) (N.of_nat (length (s_win s) + 1))); [|lia].
        apply nth_error_app1. lia. }
      split; [unfold emitted in *; rewrite Hb, Hw, len_app, len_cons, len_nil; lia|]. split; [|exact Hl].
      unfold fin. rewrite Hb, Hl. auto.
    - assert (Hs : s_base_uid s' = s_base_uid s /\ s_win s' = s_win s).
      { unfold sender_emit_packet in E. destruct (drop_stale _ _ _) as [q total]. destruct q as [|x q']; [inversion E; split; reflexivity|].
        destruct (s_wsize s <=? _); [inversion E; split; reflexivity|]. destruct (s_max_alloc s <? _); [inversion E; split; reflexivity|discriminate]. }
      destruct Hs as [Hb Hw].
      assert (Hl : sender_lookup s' u = sender_lookup s u) by (unfold sender_lookup; rewrite Hb, Hw; reflexivity).
      split; [unfold emitted in *; rewrite Hb, Hw; exact He|]. split; [|exact Hl]. unfold fin. rewrite Hb, Hl. auto.
  Qed.

  Lemma K_ext h h' : h_snd h' = h_snd h -> h_pq h' = h_pq h -> h_rq h' = h_rq h -> K h -> K h'.
  Proof. unfold K, sched, in_rq, in_pq. intros -> -> ->. auto. Qed.

  (* ----- the emitter's loops ----- *)
  Definition KE (e : emit_state) : Prop := K (es_h e).

  Lemma KE_queues e e1 : same_queues e e1 -> KE e -> KE e1.
  Proof. intros (Q1 & Q2 & Q3). apply K_ext; assumption. Qed.

  Lemma pop_uf (rq : list rq_entry) x rest : heap_pop rq = Some (x, rest) ->
    (cnt is_uf rest + (if is_uf x then 1 else 0) = cnt is_uf rq)%nat.
  Proof. intros Ep. destruct (heap_pop_cnt is_uf _ _ _ Ep) as [C _]. unfold b2 in C. exact C. Qed.

  Lemma k_resend : forall fuel e e' fl, resend_loop fuel e = Ok (e', fl) -> KE e -> KE e'.
  Proof.
    induction fuel as [|fuel IH]; intros e e' fl E H; cbn [resend_loop] in E; [discriminate|].
    destruct (heap_peek (h_rq (es_h e))) as [ent|] eqn:Epk; [|inversion E; subst; exact H].
    destruct (heap_pop_some _ (heap_peek_nonempty _ _ Epk)) as (x & rest & Epop & _). rewrite Epop in E.
    destruct (heap_pop_cnt is_uf _ _ _ Epop) as [Cx Hpk]. rewrite Epk in Hpk. inversion Hpk; subst x. unfold b2 in Cx.
    (* dropping a dead entry *)
    assert (Dead : fin (h_snd (es_h e)) \/ is_uf ent = false -> KE (mkEs (set_rq (es_h e) rest) (es_ip e) (es_out e))).
    { intros D. destruct H as [He [[Hr|Hp]|Hf]]; split; cbn [es_h set_rq h_snd]; try exact He.
      - destruct D as [D|D]; [right; exact D|]. left. left. unfold in_rq in *. cbn [set_rq h_rq]. rewrite D in Cx. lia.
      - left. right. exact Hp.
      - right. exact Hf. }
    destruct (sender_lookup (h_snd (es_h e)) (rq_uid ent)) as [we|] eqn:Lk.
    2:{ eapply IH; [exact E|]. apply Dead. destruct (is_uf ent) eqn:Eu; [|right; reflexivity]. left.
        unfold is_uf in Eu. apply andb_prop in Eu as [Eu _]. apply N.eqb_eq in Eu. rewrite Eu in Lk. apply lookup_none_fin; [exact (proj1 H)|exact Lk]. }
    destruct (pp_fragment_acked (we_packet we) (rq_frag ent)) eqn:Ea.
    { eapply IH; [exact E|]. apply Dead. destruct (is_uf ent) eqn:Eu; [|right; reflexivity]. left.
      unfold is_uf in Eu. apply andb_prop in Eu as [Eu1 Eu2]. apply N.eqb_eq in Eu1, Eu2. right. exists we. rewrite <- Eu1, <- Eu2. split; assumption. }
    destruct (h_now (es_h e) <? rq_time ent); [inversion E; subst; exact H|].
    destruct (dfe_push_ok e (rq_uid ent) (rq_frag ent) true we Lk) as (e1 & r & Ep & Q).
    rewrite Ep in E. cbn [bind] in E. pose proof (KE_queues _ _ Q H) as H1.
    destruct r as [[|]|]; try (inversion E; subst; exact H1).
    destruct Q as (Q1 & Q2 & Q3). rewrite Q2, Epop in E.
    eapply IH; [exact E|]. destruct H1 as [He1 [[Hr|Hp]|Hf]]; split; cbn [es_h set_rq h_snd]; try exact He1.
    - left. left. unfold in_rq in *. cbn [set_rq h_rq]. rewrite heap_push_cnt. rewrite Q2 in Hr. unfold b2.
      replace (is_uf (mkRq (rq_uid ent) (rq_frag ent) _ _)) with (is_uf ent) by reflexivity. destruct (is_uf ent); lia.
    - left. right. exact Hp.
    - right. exact Hf.
  Qed.

  Lemma k_inner : forall fuel e e' fl, pending_inner fuel e = Ok (e', fl) -> KE e -> KE e'.
  Proof.
    induction fuel as [|fuel IH]; intros e e' fl E H; cbn [pending_inner] in E; [discriminate|].
    destruct (h_pq (es_h e)) as [|ent rest] eqn:Epq; [inversion E; subst; exact H|].
    assert (Drop : fin (h_snd (es_h e)) \/ ~ (pq_uid ent = u /\ pq_frag ent = f /\ pq_resend ent = true) ->
                   KE (mkEs (set_pq (es_h e) rest) (es_ip e) (es_out e))).
    { intros D. destruct H as [He [[Hr|Hp]|Hf]]; split; cbn [es_h set_pq h_snd]; try exact He.
      - left. left. exact Hr.
      - destruct D as [D|D]; [right; exact D|]. left. right. destruct Hp as (p & Hin & P1 & P2 & P3). rewrite Epq in Hin.
        destruct Hin as [->|Hin]; [exfalso; apply D; auto|]. exists p. cbn [set_pq h_pq]. auto.
      - right. exact Hf. }
    destruct (sender_lookup (h_snd (es_h e)) (pq_uid ent)) as [we|] eqn:Lk.
    2:{ eapply IH; [exact E|]. apply Drop. destruct (N.eq_dec (pq_uid ent) u) as [Eu|Nu]; [|right; tauto]. left.
        rewrite Eu in Lk. apply lookup_none_fin; [exact (proj1 H)|exact Lk]. }
    destruct (pp_fragment_acked (we_packet we) (pq_frag ent)) eqn:Ea.
    { eapply IH; [exact E|]. apply Drop. destruct (N.eq_dec (pq_uid ent) u) as [Eu|Nu]; [|right; tauto].
      destruct (N.eq_dec (pq_frag ent) f) as [Ef|Nf]; [|right; tauto]. left. right. exists we. rewrite <- Eu, <- Ef. split; assumption. }
    destruct (dfe_push_ok e (pq_uid ent) (pq_frag ent) (pq_resend ent) we Lk) as (e1 & r & Ep & Q).
    rewrite Ep in E. cbn [bind] in E. pose proof (KE_queues _ _ Q H) as H1.
    destruct r as [[|]|]; try (inversion E; subst; exact H1).
    destruct Q as (Q1 & Q2 & Q3).
    eapply IH; [exact E|]. destruct H1 as [He1 [[Hr|Hp]|Hf]].
    - split; [destruct (pq_resend ent); exact He1|]. left. left. unfold in_rq in *.
      destruct (pq_resend ent); cbn [es_h set_rq set_pq h_rq]; [rewrite heap_push_cnt; lia|exact Hr].
    - split; [destruct (pq_resend ent); exact He1|]. destruct Hp as (p & Hin & P1 & P2 & P3). rewrite Q1, Epq in Hin.
      destruct Hin as [->|Hin].
      + left. left. unfold in_rq. rewrite P3. cbn [es_h set_rq set_pq h_rq]. rewrite heap_push_cnt. unfold b2, is_uf. cbn [rq_uid rq_frag].
        rewrite P1, P2, !N.eqb_refl. cbn. lia.
      + left. right. exists p. split; [|auto]. destruct (pq_resend ent); cbn [es_h set_rq set_pq h_pq]; rewrite Q1, Epq; exact Hin.
    - split; [destruct (pq_resend ent); exact He1|]. right. destruct (pq_resend ent); exact Hf.
  Qed.

  Lemma k_outer : forall fuel e e' fl, pending_outer fuel e = Ok (e', fl) -> KE e -> KE e'.
  Proof.
    induction fuel as [|fuel IH]; intros e e' fl E H; cbn [pending_outer] in E; [discriminate|].
    match type of E with (do r0 <- ?X; _) = _ => destruct X as [[e2 fl2]| |] eqn:E0 end; cbn [bind] in E; try discriminate.
    assert (H2 : KE e2).
    { destruct (h_pq (es_h e)) as [|p ps] eqn:Epq; [|inversion E0; subst; exact H].
      pose proof (KE_queues _ _ (dfe_check_push_queues e) H) as Hc. pose proof (dfe_check_push_queues e) as (Q1 & _ & _).
      destruct (dfe_check_push e) as [e1 r]. cbn [fst] in Hc, Q1.
      destruct r as [[|]|].
      - inversion E0; subst. exact Hc.
      - inversion E0; subst. exact (KE_queues _ _ (dfe_finalize_queues e1) Hc).
      - destruct (sender_emit_packet (h_snd (es_h e1)) (h_flush_id (es_h e1))) as [s' r] eqn:Ee.
        destruct Hc as [He1 Hd]. destruct (emit_keeps _ _ _ _ Ee He1) as (He' & Hf' & Hl').
        assert (Kn : forall pq', emitted s' /\ ((in_rq (es_h e1) \/ (exists p0, In p0 pq' /\ pq_uid p0 = u /\ pq_frag p0 = f /\ pq_resend p0 = true)) \/ fin s')).
        { intros pq'. split; [exact He'|]. destruct Hd as [[Hr|Hp]|Hf]; [left; left; exact Hr| |right; apply Hf'; exact Hf].
          destruct Hp as (p0 & Hin & _). rewrite Q1, Epq in Hin. destruct Hin. }
        destruct r as [[uid resend]|].
        + destruct (sender_lookup s' uid) as [we|]; [|discriminate]. inversion E0; subst. exact (Kn _).
        + inversion E0; subst. unfold KE, K, sched, in_pq. cbn [es_h set_snd h_snd h_pq h_rq].
          destruct (Kn (h_pq (es_h e1))) as [A B]. split; [exact A|exact B]. }
    destruct fl2; try (inversion E; subst; exact H2).
    destruct (pending_inner _ e2) as [[e3 fl3]| |] eqn:E3; cbn [bind] in E; try discriminate.
    pose proof (k_inner _ _ _ _ E3 H2) as H3.
    destruct fl3; try (inversion E; subst; exact H3).
    eapply IH; eassumption.
  Qed.

  (* ----- the sender's own operations never undo "acknowledged or released" ----- *)
  Definition SK (s s' : sender) : Prop := emitted s -> emitted s' /\ (fin s -> fin s').

  Lemma SK_refl s : SK s s. Proof. intros H. split; auto. Qed.
  Lemma SK_trans a b c : SK a b -> SK b c -> SK a c.
  Proof. intros H1 H2 He. destruct (H1 He) as [He2 F1]. destruct (H2 He2) as [He3 F2]. split; auto. Qed.

  Lemma enqueue_SK s d c m fl : SK s (sender_enqueue s d c m fl).
  Proof. intros H. split; [exact H|]. unfold fin, sender_lookup. cbn [sender_enqueue s_base_uid s_win]. auto. Qed.

  Lemma ack_fragment_SK s uid frag : SK s (sender_ack_fragment s uid frag).
  Proof.
    intros He. unfold sender_ack_fragment. destruct (sender_lookup s uid) as [e|] eqn:L; [|split; auto].
    split; [unfold emitted in *; cbn [s_base_uid s_win]; rewrite nth_opt_upd_len; exact He|].
    intros [Hf|(we & Lw & Ha)]; [left; exact Hf|]. right.
    unfold sender_lookup in *. cbn [s_base_uid s_win].
    destruct (N.ltb_spec u (s_base_uid s)) as [|Hu]; [discriminate|]. destruct (N.ltb_spec uid (s_base_uid s)) as [|Hi]; [discriminate|].
    destruct (N.eq_dec (uid - s_base_uid s) (u - s_base_uid s)) as [Eq|Ne].
    - rewrite Eq. rewrite nth_opt_upd_same by (apply (nth_opt_lt _ _ _ Lw)). eexists. split; [reflexivity|]. cbn [we_packet].
      rewrite Eq in L. rewrite L in Lw. inversion Lw; subst e.
      destruct (pp_fragment_acked (we_packet we) frag); [exact Ha|]. unfold pp_fragment_acked in *. cbn [pp_acked existsb]. rewrite Ha. apply orb_true_r.
    - rewrite nth_opt_upd_other by exact Ne. exists we. split; assumption.
  Qed.

  Lemma ack_fragments_SK refs : forall s, SK s (ack_fragments s refs).
  Proof. induction refs as [|r t IH]; intros s; cbn [ack_fragments]; [apply SK_refl|]. eapply SK_trans; [apply ack_fragment_SK|apply IH]. Qed.

  Lemma release_SK n : forall s s', sender_release n s = Ok s' -> SK s s'.
  Proof.
    induction n as [|n IH]; intros s s' E; cbn [sender_release] in E; [inversion E; subst; apply SK_refl|].
    destruct (s_win s) as [|e win'] eqn:Ew; [discriminate|].
    eapply SK_trans; [|eapply IH; exact E]. intros He. unfold emitted, fin, sender_lookup in *. cbn [s_base_uid s_win]. rewrite Ew in *. rewrite len_cons in He.
    split; [lia|]. intros [Hf|(we & Lw & Ha)]; [left; lia|].
    destruct (N.ltb_spec u (s_base_uid s)) as [|Hu]; [discriminate|].
    destruct (N.eq_dec u (s_base_uid s)) as [->|Hne]; [left; lia|]. right. exists we. split; [|exact Ha].
    destruct (N.ltb_spec u (s_base_uid s + 1)); [lia|].
    unfold nth_opt in *. cbn [length] in Lw.
    destruct (N.ltb_spec (u - s_base_uid s) (N.of_nat (S (length win')))) as [H1|]; [|discriminate].
    destruct (N.ltb_spec (u - (s_base_uid s + 1)) (N.of_nat (length win'))); [|lia].
    replace (N.to_nat (u - s_base_uid s)) with (S (N.to_nat (u - (s_base_uid s + 1)))) in Lw by lia. exact Lw.
  Qed.

  Lemma acknowledge_SK s id s' : sender_acknowledge s id = Ok s' -> SK s s'.
  Proof.
    unfold sender_acknowledge. destruct (negb _); [intros E; inversion E; subst; apply SK_refl|].
    destruct (_ <? _); [intros E; inversion E; subst; apply SK_refl|apply release_SK].
  Qed.

  Lemma ack_apply_SK base bits rtt : forall n i q s a q' s' a', ack_apply q s base bits i n rtt a = Ok (q', s', a') -> SK s s'.
  Proof.
    induction n as [|n IH]; intros i q s a q' s' a' E; cbn [ack_apply] in E; [inversion E; subst; apply SK_refl|].
    destruct (fq_get_frame q (add32 base i)) as [fr|]; [|discriminate].
    destruct (N.testbit bits i && negb (le_acked fr)).
    - destruct (fq_notify_ack _ _ _) as [q2| |]; cbn [bind] in E; try discriminate.
      eapply SK_trans; [apply ack_fragments_SK|eapply IH; exact E].
    - eapply IH; exact E.
  Qed.

  Lemma ack_group_SK q s ack rtt q' s' : fq_acknowledge_group q s ack rtt = Ok (q', s') -> SK s s'.
  Proof.
    unfold fq_acknowledge_group. intros E.
    destruct (bitfield_size (ag_bits ack) =? 0); [inversion E; subst; apply SK_refl|].
    destruct (ack_check _ _ _ _ _ _); [|inversion E; subst; apply SK_refl].
    destruct (negb _); [inversion E; subst; apply SK_refl|].
    destruct (ack_apply _ _ _ _ _ _ _ _) as [[[q1 s1] a1]| |] eqn:Ea; cbn [bind] in E; try discriminate.
    pose proof (ack_apply_SK _ _ _ _ _ _ _ _ _ _ _ Ea) as X. destruct (aa_new a1); inversion E; subst; exact X.
  Qed.

  Lemma ack_groups_SK rtt : forall acks q s q' s', ack_groups q s acks rtt = Ok (q', s') -> SK s s'.
  Proof.
    induction acks as [|a t IH]; intros q s q' s' E; cbn [ack_groups] in E; [inversion E; subst; apply SK_refl|].
    destruct (fq_acknowledge_group q s a rtt) as [[q1 s1]| |] eqn:E1; cbn [bind fst snd] in E; try discriminate.
    eapply SK_trans; [eapply ack_group_SK; exact E1|eapply IH; exact E].
  Qed.

  (* ----- every operation ----- *)
  Lemma K_sender h h' : h_pq h' = h_pq h -> h_rq h' = h_rq h -> SK (h_snd h) (h_snd h') -> K h -> K h'.
  Proof.
    intros Ep Er S [He Hd]. destruct (S He) as [He' Hf]. split; [exact He'|].
    destruct Hd as [[Hr|Hp]|Hfin]; [left; left; unfold in_rq in *; rewrite Er; exact Hr|left; right; unfold in_pq in *; rewrite Ep; exact Hp|right; auto].
  Qed.

  Lemma emit_data_K fuel h out h' out' ok : emit_data_frames fuel h out = Ok (h', out', ok) -> K h -> K h'.
  Proof.
    unfold emit_data_frames. intros E H.
    destruct (resend_loop fuel (mkEs h None out)) as [[e fl]| |] eqn:E1; cbn [bind] in E; try discriminate.
    pose proof (k_resend _ _ _ _ E1 H) as H1.
    destruct fl; try (inversion E; subst; exact H1).
    - destruct (pending_outer fuel e) as [[e2 fl2]| |] eqn:E2; cbn [bind] in E; try discriminate.
      pose proof (k_outer _ _ _ _ E2 H1) as H2.
      destruct fl2; inversion E; subst; try exact H2; exact (KE_queues _ _ (dfe_finalize_queues e2) H2).
    - destruct (pending_outer fuel e) as [[e2 fl2]| |] eqn:E2; cbn [bind] in E; try discriminate.
      pose proof (k_outer _ _ _ _ E2 H1) as H2.
      destruct fl2; inversion E; subst; try exact H2; exact (KE_queues _ _ (dfe_finalize_queues e2) H2).
  Qed.

  (* the ack and sync emitters touch neither queue *)
  Definition same_q (h h' : hc) : Prop := h_pq h' = h_pq h /\ h_rq h' = h_rq h /\ h_snd h' = h_snd h.
  Lemma same_q_refl h : same_q h h. Proof. repeat split. Qed.
  Lemma same_q_trans a b c : same_q a b -> same_q b c -> same_q a c.
  Proof. intros (?&?&?) (?&?&?). repeat split; congruence. Qed.

  Lemma afe_finalize_q a : same_q (as_h a) (as_h (afe_finalize a)).
  Proof. unfold afe_finalize. destruct (as_ip a); [|apply same_q_refl]. repeat split. Qed.
  Lemma afe_push_new_q a g : same_q (as_h a) (as_h (fst (afe_push_new a g))).
  Proof. unfold afe_push_new. destruct (h_credit (as_h a) <? 0)%Z; cbn [fst as_h]; apply same_q_refl. Qed.
  Lemma afe_push_q a g : same_q (as_h a) (as_h (fst (afe_push a g))).
  Proof.
    unfold afe_push. destruct (as_ip a) as [fr|]; [|apply afe_push_new_q].
    destruct (h_credit (as_h a) - Z.of_N (ai_size fr) <? 0)%Z; cbn [fst]; [apply afe_finalize_q|].
    destruct (MAX_FRAME_SIZE <? _); [eapply same_q_trans; [apply afe_finalize_q|apply afe_push_new_q]|cbn [fst as_h]; apply same_q_refl].
  Qed.
  Lemma ack_loop_q : forall fuel a a' ok, ack_loop fuel a = Ok (a', ok) -> same_q (as_h a) (as_h a').
  Proof.
    induction fuel as [|fuel IH]; intros a a' ok E; cbn [ack_loop] in E; [discriminate|].
    destruct (faq_peek (h_faq (as_h a))) as [g|]; [|inversion E; subst; apply same_q_refl].
    pose proof (afe_push_q a g) as P. destruct (afe_push a g) as [a1 ok1]. cbn [fst] in P.
    destruct ok1; [|inversion E; subst; exact P].
    eapply same_q_trans; [exact P|]. eapply same_q_trans; [|eapply IH; exact E]. cbn [as_h]. repeat split.
  Qed.
  Lemma emit_ack_q h out h' out' ok : emit_ack_frames h out = Ok (h', out', ok) -> same_q h h'.
  Proof.
    unfold emit_ack_frames. intros E. set (a0 := mkAs h None out (fa_base (h_faq h)) (r_base (h_rcv h))) in *.
    assert (P1 : same_q h (as_h (fst (if h_sync_reply h then afe_push_dud a0 else (a0, true))))).
    { destruct (h_sync_reply h); [|apply same_q_refl]. unfold afe_push_dud. cbn [as_ip a0]. destruct (h_credit (as_h a0) <? 0)%Z; apply same_q_refl. }
    destruct (if h_sync_reply h then afe_push_dud a0 else (a0, true)) as [a1 ok1]. cbn [fst] in P1.
    destruct (negb ok1); [inversion E; subst; exact P1|].
    destruct (ack_loop _ a1) as [[a2 ok2]| |] eqn:E2; cbn [bind] in E; try discriminate.
    pose proof (ack_loop_q _ _ _ _ E2) as P2.
    destruct ok2; inversion E; subst; [eapply same_q_trans; [exact P1|eapply same_q_trans; [exact P2|apply afe_finalize_q]]|eapply same_q_trans; eassumption].
  Qed.
  Lemma emit_sync_q h out : same_q h (fst (fst (emit_sync_frame h out))).
  Proof.
    unfold emit_sync_frame. destruct (N.max (h_rto h) MIN_SYNC_TIMEOUT_MS <=? h_now h - h_sync_base h); [|apply same_q_refl].
    match goal with |- context [if ?c then (h, out, true) else _] => destruct c end; [apply same_q_refl|].
    destruct (h_credit h <? 0)%Z; cbn [fst]; [apply same_q_refl|repeat split].
  Qed.

  Lemma K_same_q h h' : same_q h h' -> K h -> K h'.
  Proof. intros (A & B & C). apply K_ext; assumption. Qed.

  Lemma hc_flush_K h h' out : hc_flush h = Ok (h', out) -> K h -> K h'.
  Proof.
    unfold hc_flush. intros E H.
    destruct (emit_ack_frames h []) as [[[h1 out1] ok1]| |] eqn:E1; cbn [bind] in E; try discriminate.
    pose proof (K_same_q _ _ (emit_ack_q _ _ _ _ _ E1) H) as H1.
    destruct (negb ok1); [inversion E; subst; exact H1|].
    destruct (emit_data_frames (hc_flush_fuel h1) h1 out1) as [[[h2 out2] ok2]| |] eqn:E2; cbn [bind] in E; try discriminate.
    pose proof (emit_data_K _ _ _ _ _ _ E2 H1) as H2.
    destruct (negb ok2); [inversion E; subst; exact H2|].
    pose proof (emit_sync_q h2 out2) as P3. destruct (emit_sync_frame h2 out2) as [[h3 out3] ok3]. cbn [fst] in P3.
    inversion E; subst. exact (K_same_q _ _ P3 H2).
  Qed.

  Theorem hc_apply_K h o : K h -> K (hc_apply h o).
  Proof.
    intros H. destruct o as [d c m| |now| |fr]; cbn [hc_apply].
    - revert H. apply K_sender; [reflexivity|reflexivity|]. cbn [hc_send set_snd h_snd]. apply enqueue_SK.
    - revert H. unfold hc_receive. destruct (receiver_receive (h_rcv h)). apply K_ext; reflexivity.
    - destruct (hc_step h now) as [h'| |] eqn:E; try exact H. revert H. unfold hc_step in E.
      destruct (fq_forget_frames _ _ _); cbn [bind] in E; try discriminate. destruct (fq_get_feedback _ _) as [q2 fb].
      destruct (src_step _ _ _) as [[src' reset]| |]; cbn [bind] in E; try discriminate.
      destruct (match reset with Some p => _ | None => _ end); cbn [bind] in E; try discriminate. inversion E; subst. apply K_ext; reflexivity.
    - destruct (hc_flush h) as [[h' out]| |] eqn:E; try exact H. eapply hc_flush_K; eassumption.
    - destruct (hc_handle_frame h fr) as [[h' k]| |] eqn:E; try exact H. revert H.
      destruct fr as [v n a b c|na n a b c|na|na e| | |seq nonce dgs|nf np|fb pb acks]; cbn [hc_handle_frame] in E; try (inversion E; subst; auto; fail).
      + inversion E; subst. unfold hc_handle_data_frame. destruct (faq_contains _ _); [|auto]. apply K_ext; reflexivity.
      + inversion E; subst. unfold hc_handle_sync_frame. apply K_ext; destruct nf, np; reflexivity.
      + destruct (hc_handle_ack_frame h fb pb acks) as [h1| |] eqn:Ea; cbn [bind] in E; try discriminate. inversion E; subst.
        unfold hc_handle_ack_frame in Ea.
        destruct (ack_groups _ _ _ _) as [[q1 s1]| |] eqn:E1; cbn [bind fst snd] in Ea; try discriminate.
        destruct (fq_advance_transfer_window q1 fb _) as [q2| |]; cbn [bind] in Ea; try discriminate.
        destruct (sender_acknowledge s1 pb) as [s2| |] eqn:E3; cbn [bind] in Ea; try discriminate. inversion Ea; subst.
        apply K_sender; [reflexivity|reflexivity|]. cbn [set_snd set_fq h_snd].
        eapply SK_trans; [eapply ack_groups_SK; exact E1|eapply acknowledge_SK; exact E3].
  Qed.
End Kept.

(* Once scheduled, a fragment stays scheduled — through any sequence of operations, frames with any contents
   included — until it is acknowledged or its packet has been released from the send window. *)
Theorem retransmission_kept u f ops : forall h,
  emitted u (h_snd h) -> sched u f h ->
  let h' := fold_left hc_apply ops h in sched u f h' \/ fin u f (h_snd h').
Proof.
  induction ops as [|o ops IH]; intros h He Hs; cbn [fold_left]; [left; exact Hs|].
  assert (G : forall ops' h0, K u f h0 -> K u f (fold_left hc_apply ops' h0)).
  { induction ops' as [|o' ops' IH']; intros h0 H0; cbn [fold_left]; [exact H0|]. apply IH'. apply hc_apply_K. exact H0. }
  destruct (G ops (hc_apply h o) (hc_apply_K u f h o (conj He (or_introl Hs)))) as [_ R]. exact R.
Qed.
