(* TimeoutHistory.v — C10 for the client over whole histories. For every sequence of steps (any datagrams, any
   non-decreasing clock), flushes, sends and disconnect calls:
   - Error(Timeout) reported from the handshake comes no earlier than 22 s (11 intervals of 2 s) after connect(),
     after exactly ten resends of the request;
   - Error(Timeout) reported from an established connection implies that every step in which a data, sync or
     acknowledgement frame arrived (and the step that reported Connect) lies at least active_timeout_ms back;
     the deadline is always exactly active_timeout_ms after some step of the history in which a frame from the
     server arrived, and a silent step at or past the deadline reports the timeout;
   - Error(Timeout) reported while disconnecting comes no earlier than 22 s after the step that first sent the
     Disconnect request. *)
From Coq Require Import ZArith Lia ZifyBool ZifyN ZifyNat.
From UF Require Import Consts Base Frame Codec F64 Feedback Sender Receiver FrameAck Heap FrameQueue SendRate HalfConn Endpoint
                       BaseLemmas CodecRoundtrip EndpointProofs EndpointTotal HandshakeHistory.
Local Open Scope N_scope.

Definition is_hc (f : frame) : bool := match f with FData _ _ _ | FSync _ _ | FAcks _ _ _ => true | _ => false end.

Definition has_hc (inbox : list (list N)) : Prop :=
  exists bs f, In bs inbox /\ read_frame bs = Ok (Some f) /\ is_hc f = true.

Lemma has_hc_app a b : has_hc (a ++ b) <-> has_hc a \/ has_hc b.
Proof.
  unfold has_hc. split.
  - intros (bs & f & Hi & Hr & Hh). apply in_app_or in Hi as [Hi|Hi]; [left|right]; eauto.
  - intros [(bs & f & Hi & Hr & Hh)|(bs & f & Hi & Hr & Hh)]; exists bs, f; (split; [apply in_or_app; auto|auto]).
Qed.

Lemma has_syn_ack_app n a b : has_syn_ack n (a ++ b) <-> has_syn_ack n a \/ has_syn_ack n b.
Proof.
  unfold has_syn_ack. split.
  - intros (bs & x & y & z & w & Hi & Hr). apply in_app_or in Hi as [Hi|Hi]; [left|right]; eauto 8.
  - intros [(bs & x & y & z & w & Hi & Hr)|(bs & x & y & z & w & Hi & Hr)]; exists bs, x, y, z, w; (split; [apply in_or_app; auto|auto]).
Qed.

Lemma not_in_app {A} (x : A) l1 l2 : ~ In x l1 -> ~ In x l2 -> ~ In x (l1 ++ l2).
Proof. intros H1 H2 H. apply in_app_or in H as [H|H]; auto. Qed.

Definition TO := EvError 0 0.
Definition CO := EvConnect 0.

Definition same_env (c c' : client) : Prop := cl_ec c' = cl_ec c /\ cl_t0 c' = cl_t0 c /\ cl_seed c' = cl_seed c.

(* what handling the datagrams of one step can do to the client's state, deadline and event list *)
Definition FR (now AT : N) (inbox : list (list N)) (c c' : client) (ev : list ep_event) (sd : list (list N)) : Prop :=
  same_env c c' /\ ~ In TO ev /\
  match cl_state_ c with
  | ClPending ln _ _ _ _ =>
      match cl_state_ c' with
      | ClPending _ _ _ _ _ => c' = c /\ ev = [] /\ sd = []
      | ClActive _ _ _ _ to' d' => In CO ev /\ to' = now + AT /\ d' = None
      | ClClosing _ _ _ => False
      | _ => True
      end
  | ClActive ln _ _ _ to d =>
      ~ In CO ev /\
      match cl_state_ c' with
      | ClActive ln' _ _ _ to' d' =>
          ln' = ln /\ d' = d /\ ((to' = to /\ ~ has_hc inbox) \/ (to' = now + AT /\ (has_hc inbox \/ has_syn_ack ln inbox)))
      | ClClosed _ => True
      | _ => False
      end
  | ClClosing _ _ _ =>
      ~ In CO ev /\
      match cl_state_ c' with
      | ClClosing _ _ _ => c' = c
      | ClClosed _ | ClFin => True
      | _ => False
      end
  | ClClosed _ => ev = [] /\ cl_state_ c' = cl_state_ c
  | ClFin => ev = [] /\ sd = [] /\ c' = c
  end.

Lemma FR_refl now AT inbox c : ~ has_hc inbox -> FR now AT inbox c c [] [].
Proof.
  intros Hn. unfold FR, same_env. split; [auto|]. split; [intros []|].
  destruct (cl_state_ c).
  - auto.
  - split; [intros []|]. split; [reflexivity|]. split; [reflexivity|]. left. auto.
  - split; [intros []|]. reflexivity.
  - auto.
  - auto.
Qed.

Lemma FR_trans now AT i1 i2 c c1 c2 e1 e2 s1 s2 :
  FR now AT i1 c c1 e1 s1 -> FR now AT i2 c1 c2 e2 s2 -> FR now AT (i1 ++ i2) c c2 (e1 ++ e2) (s1 ++ s2).
Proof.
  unfold FR, same_env. intros ((A1 & A2 & A3) & T1 & H1) ((B1 & B2 & B3) & T2 & H2).
  split; [repeat split; congruence|]. split; [apply not_in_app; assumption|].
  destruct (cl_state_ c) eqn:Ec.
  - (* pending *)
    destruct (cl_state_ c1) eqn:Ec1.
    + destruct H1 as (-> & -> & ->). cbn [app]. exact H2.
    + destruct H1 as (Hc & Hto & Hd). destruct H2 as (Hn & H2). destruct (cl_state_ c2) eqn:Ec2; try (destruct H2; fail); try exact I.
      destruct H2 as (_ & -> & [[-> _]|[-> _]]); (split; [apply in_or_app; left; exact Hc|auto]).
    + destruct H1.
    + destruct H2 as (-> & H2). rewrite H2. exact I.
    + destruct H2 as (-> & -> & ->). rewrite Ec1. exact I.
  - (* active *)
    destruct H1 as (Hn1 & H1). destruct (cl_state_ c1) eqn:Ec1; try (destruct H1; fail).
    + destruct H2 as (Hn2 & H2). split; [apply not_in_app; assumption|].
      destruct (cl_state_ c2) eqn:Ec2; try (destruct H2; fail); try exact I.
      destruct H1 as (-> & -> & H1). destruct H2 as (-> & -> & H2). split; [reflexivity|]. split; [reflexivity|].
      rewrite has_hc_app, has_syn_ack_app.
      destruct H2 as [[-> N2]|[-> R2]].
      * destruct H1 as [[-> N1]|[-> R1]]; [left; split; [reflexivity|tauto]|right; split; [reflexivity|tauto]].
      * right. split; [reflexivity|tauto].
    + destruct H2 as (-> & H2). split; [rewrite app_nil_r; exact Hn1|]. rewrite H2. exact I.
  - (* closing *)
    destruct H1 as (Hn1 & H1). destruct (cl_state_ c1) eqn:Ec1; try (destruct H1; fail).
    + subst c1. destruct H2 as (Hn2 & H2). split; [apply not_in_app; assumption|]. exact H2.
    + destruct H2 as (-> & H2). split; [rewrite app_nil_r; exact Hn1|]. rewrite H2. exact I.
    + destruct H2 as (-> & -> & ->). split; [rewrite app_nil_r; exact Hn1|]. rewrite Ec1. exact I.
  - destruct H1 as (-> & H1). rewrite H1 in H2. destruct H2 as (-> & H2). split; [reflexivity|]. congruence.
  - destruct H1 as (-> & -> & ->). rewrite Ec in H2. destruct H2 as (-> & -> & ->). auto.
Qed.


Definition ext (a a' : cl_acc) (ev : list ep_event) (sd : list (list N)) : Prop :=
  ca_events a' = ca_events a ++ ev /\ ca_sends a' = ca_sends a ++ sd.

Lemma ext_refl a : ext a a [] []. Proof. unfold ext. rewrite !app_nil_r. auto. Qed.

Lemma not_hc_single bs f : read_frame bs = Ok (Some f) -> is_hc f = false -> ~ has_hc [bs].
Proof. intros Hr Hf (b & g & [<-|[]] & Hr' & Hg). rewrite Hr in Hr'. inversion Hr'; subst. congruence. Qed.

Lemma in_receives_TO pkts : ~ In TO (map (EvReceive 0) pkts).
Proof. intros H. apply in_map_iff in H as (x & Hx & _). discriminate Hx. Qed.
Lemma in_receives_CO pkts : ~ In CO (map (EvReceive 0) pkts).
Proof. intros H. apply in_map_iff in H as (x & Hx & _). discriminate Hx. Qed.

Lemma hc_frame_FR c a bs f now vnow c' a' :
  read_frame bs = Ok (Some f) -> is_hc f = true -> cl_handle_frame c a f now vnow = Ok (c', a') ->
  exists ev sd, ext a a' ev sd /\ FR now (ec_active_timeout (cl_ec c)) [bs] c c' ev sd.
Proof.
  intros Hr Hf E. exists [], [].
  assert (G : a' = a /\ (match cl_state_ c with
                         | ClActive ln rn h t0 to d => exists h', c' = cl_set c (ClActive ln rn h' t0 (now + ec_active_timeout (cl_ec c)) d)
                         | _ => c' = c end)).
  { destruct f; try discriminate Hf; cbn [cl_handle_frame] in E; destruct (cl_state_ c) eqn:Es;
      try (injection E as <- <-; split; reflexivity);
      match type of E with
      | context [hc_handle_frame ?x ?y] => destruct (hc_handle_frame x y) as [[h' k]| |]; cbn [bind fst] in E; try discriminate E
      | _ => idtac
      end; injection E as <- <-; split; try reflexivity; eexists; reflexivity. }
  destruct G as [-> G]. split; [apply ext_refl|].
  unfold FR, same_env. destruct (cl_state_ c) eqn:Es; try subst c'; try rewrite Es.
  - split; [auto|]. split; [intros []|]. auto.
  - destruct G as [h' ->]. cbn [cl_set cl_ec cl_t0 cl_seed cl_state_].
    split; [auto|]. split; [intros []|]. split; [intros []|]. split; [reflexivity|]. split; [reflexivity|].
    right. split; [reflexivity|]. left. exists bs, f. split; [left; reflexivity|]. split; [exact Hr|exact Hf].
  - split; [auto|]. split; [intros []|]. split; [intros []|]. reflexivity.
  - split; [auto|]. split; [intros []|]. auto.
  - split; [auto|]. split; [intros []|]. auto.
Qed.

Lemma cl_handle_frame_FR c a bs f now vnow c' a' :
  read_frame bs = Ok (Some f) -> cl_handle_frame c a f now vnow = Ok (c', a') ->
  exists ev sd, ext a a' ev sd /\ FR now (ec_active_timeout (cl_ec c)) [bs] c c' ev sd.
Proof.
  intros Hr E.
  assert (Same : forall (Hf : is_hc f = false), c' = c -> a' = a -> exists ev sd, ext a a' ev sd /\ FR now (ec_active_timeout (cl_ec c)) [bs] c c' ev sd).
  { intros Hf -> ->. exists [], []. split; [apply ext_refl|]. apply FR_refl. eapply not_hc_single; eassumption. }
  destruct f as [v n x y z|na n mrr mps mra|na|na e| | |seq nn dgs|nf np|fb pb acks]; cbn [cl_handle_frame] in E.
  - inversion E; subst. apply Same; reflexivity.
  - (* SYN+ACK *)
    inversion E as [E']; clear E. unfold cl_handle_syn_ack in E'. destruct (cl_state_ c) eqn:Es.
    + destruct (N.eqb_spec na local_nonce) as [Ena|Ena].
      * inversion E'; subst c' a'. exists [CO], [write_handshake_ack n]. split; [split; reflexivity|].
        unfold FR, same_env. cbn [cl_set cl_ec cl_t0 cl_seed cl_state_]. rewrite Es.
        split; [auto|]. split; [intros [H|[]]; discriminate H|]. split; [left; reflexivity|auto].
      * inversion E'; subst. apply Same; reflexivity.
    + destruct ((na =? local_nonce) && (n =? remote_nonce)) eqn:Eb.
      * inversion E'; subst c' a'. exists [], [write_handshake_ack n]. split; [split; [rewrite app_nil_r|]; reflexivity|].
        unfold FR, same_env. cbn [cl_set cl_ec cl_t0 cl_seed cl_state_]. rewrite Es.
        split; [auto|]. split; [intros []|]. split; [intros []|]. split; [reflexivity|]. split; [reflexivity|].
        right. split; [reflexivity|]. right. apply andb_true_iff in Eb as [Eb1 Eb2]. apply N.eqb_eq in Eb1. subst na.
        exists bs, n, mrr, mps, mra. split; [left; reflexivity|exact Hr].
      * inversion E'; subst. apply Same; reflexivity.
    + inversion E'; subst. apply Same; reflexivity.
    + inversion E'; subst. apply Same; reflexivity.
    + inversion E'; subst. apply Same; reflexivity.
  - inversion E; subst. apply Same; reflexivity.
  - (* handshake error *)
    inversion E as [E']; clear E. unfold cl_handle_error in E'.
    destruct (cl_state_ c) eqn:Es; try (inversion E'; subst; apply Same; reflexivity).
    destruct (na =? local_nonce).
    + inversion E'; subst c' a'. exists [EvError 0 (match e with ErrVersion => 1 | ErrConfig => 2 | ErrServerFull => 3 end)]. exists []. split; [split; [reflexivity|rewrite app_nil_r; reflexivity]|].
      unfold FR, same_env. cbn [cl_set cl_ec cl_t0 cl_seed cl_state_]. rewrite Es.
      split; [auto|]. split; [|exact I]. intros [H|[]]. destruct e; discriminate H.
    + inversion E'; subst. apply Same; reflexivity.
  - (* disconnect *)
    inversion E as [E']; clear E. unfold cl_handle_disconnect in E'.
    destruct (cl_state_ c) eqn:Es; try (inversion E'; subst; apply Same; reflexivity).
    + destruct (hc_receive h) as [h' pkts]. inversion E'; subst c' a'.
      exists (map (EvReceive 0) pkts ++ [EvDisconnect 0]). exists [write_disconnect_ack]. split; [split; [cbn [ca_event ca_receives ca_send ca_events]; rewrite <- app_assoc; reflexivity|reflexivity]|].
      unfold FR, same_env. cbn [cl_set cl_ec cl_t0 cl_seed cl_state_]. rewrite Es.
      split; [auto|]. split; [apply not_in_app; [apply in_receives_TO|intros [H|[]]; discriminate H]|].
      split; [apply not_in_app; [apply in_receives_CO|intros [H|[]]; discriminate H]|exact I].
    + inversion E'; subst c' a'. exists [EvDisconnect 0], [write_disconnect_ack]. split; [split; reflexivity|].
      unfold FR, same_env. cbn [cl_set cl_ec cl_t0 cl_seed cl_state_]. rewrite Es.
      split; [auto|]. split; [intros [H|[]]; discriminate H|]. split; [intros [H|[]]; discriminate H|exact I].
    + inversion E'; subst c' a'. exists [], [write_disconnect_ack]. split; [split; [rewrite app_nil_r|]; reflexivity|].
      unfold FR, same_env. rewrite Es. split; [auto|]. split; [intros []|]. auto.
  - (* disconnect ack *)
    destruct (cl_state_ c) eqn:Es; try (inversion E; subst; apply Same; reflexivity).
    inversion E; subst c' a'. exists [EvDisconnect 0], []. split; [split; [reflexivity|rewrite app_nil_r; reflexivity]|].
    unfold FR, same_env. cbn [cl_set cl_ec cl_t0 cl_seed cl_state_]. rewrite Es.
    split; [auto|]. split; [intros [H|[]]; discriminate H|]. split; [intros [H|[]]; discriminate H|exact I].
  - exact (hc_frame_FR c a bs _ now vnow c' a' Hr eq_refl E).
  - exact (hc_frame_FR c a bs _ now vnow c' a' Hr eq_refl E).
  - exact (hc_frame_FR c a bs _ now vnow c' a' Hr eq_refl E).
Qed.

Lemma cl_handle_frames_FR now vnow : forall inbox c a c' a',
  cl_handle_frames inbox c a now vnow = Ok (c', a') ->
  exists ev sd, ext a a' ev sd /\ FR now (ec_active_timeout (cl_ec c)) inbox c c' ev sd.
Proof.
  induction inbox as [|bs rest IH]; intros c a c' a' E; cbn [cl_handle_frames] in E.
  - inversion E; subst. exists [], []. split; [apply ext_refl|]. apply FR_refl. intros (b & f & [] & _).
  - destruct (read_frame bs) as [[f|]| |] eqn:Ef; cbn [bind] in E; try discriminate.
    + destruct (cl_handle_frame c a f now vnow) as [[c1 a1]| |] eqn:E1; cbn [bind fst snd] in E; try discriminate.
      destruct (cl_handle_frame_FR _ _ _ _ _ _ _ _ Ef E1) as (e1 & s1 & [X1 X2] & F1).
      destruct (IH _ _ _ _ E) as (e2 & s2 & [Y1 Y2] & F2).
      assert (Hec : cl_ec c1 = cl_ec c) by (destruct F1 as ((H & _) & _); exact H). rewrite Hec in F2.
      exists (e1 ++ e2), (s1 ++ s2). split; [split; [rewrite Y1, X1, app_assoc|rewrite Y2, X2, app_assoc]; reflexivity|].
      exact (FR_trans _ _ [bs] rest _ _ _ _ _ _ _ F1 F2).
    + destruct (IH _ _ _ _ E) as (e2 & s2 & X & F2). exists e2, s2. split; [exact X|].
      assert (F1 : FR now (ec_active_timeout (cl_ec c)) [bs] c c [] []).
      { apply FR_refl. intros (b & g & [<-|[]] & Hr & _). rewrite Ef in Hr. discriminate Hr. }
      exact (FR_trans _ _ [bs] rest _ _ _ _ _ _ _ F1 F2).
Qed.

(* ---------- one whole step ---------- *)
Definition RI := CLIENT_HANDSHAKE_RESEND_INTERVAL_MS.

Definition StepSum (now AT : N) (inbox : list (list N)) (c c' : client) (evs : list ep_event) (sends : list (list N)) : Prop :=
  same_env c c' /\
  match cl_state_ c with
  | ClPending ln rq rt rc s0 =>
      match cl_state_ c' with
      | ClPending ln' rq' rt' rc' s0' =>
          ln' = ln /\ rq' = rq /\ ~ In TO evs /\ ~ In CO evs /\
          ((rt' = rt /\ rc' = rc /\ sends = []) \/ (rt <= now /\ 0 < rc /\ rt' = now + RI /\ rc' = rc - 1 /\ sends = [rq]))
      | ClActive _ _ _ _ to' _ => In CO evs /\ to' = now + AT
      | ClClosing _ _ _ => False
      | _ => In CO evs \/ ~ In TO evs \/ (rt <= now /\ rc = 0)
      end
  | ClActive ln _ _ _ to d =>
      ~ In CO evs /\
      match cl_state_ c' with
      | ClPending _ _ _ _ _ => False
      | ClActive ln' _ _ _ to' _ =>
          ln' = ln /\ ~ In TO evs /\ ((to' = to /\ ~ has_hc inbox) \/ (to' = now + AT /\ (has_hc inbox \/ has_syn_ack ln inbox)))
      | ClClosing rq rt' rc' => rq = write_disconnect /\ rt' = now + RI /\ rc' = 10 /\ In write_disconnect sends /\ ~ In TO evs
      | _ => In TO evs -> (to <= now /\ ~ has_hc inbox) \/ now + AT <= now
      end
  | ClClosing rq rt rc =>
      ~ In CO evs /\
      match cl_state_ c' with
      | ClClosing rq' rt' rc' =>
          rq' = rq /\ ~ In TO evs /\ ((rt' = rt /\ rc' = rc) \/ (rt <= now /\ 0 < rc /\ rt' = now + RI /\ rc' = rc - 1))
      | ClClosed _ | ClFin => In TO evs -> rt <= now /\ rc = 0
      | _ => False
      end
  | ClClosed _ => ~ In TO evs /\ ~ In CO evs /\ match cl_state_ c' with ClClosed _ | ClFin => True | _ => False end
  | ClFin => ~ In TO evs /\ ~ In CO evs /\ cl_state_ c' = ClFin
  end.

Lemma fold_ca_send_events : forall l a0, ca_events (fold_left ca_send l a0) = ca_events a0.
Proof. induction l as [|x t IHo]; intros a0; cbn [fold_left]; [reflexivity|]. rewrite IHo. reflexivity. Qed.

(* the flush stage: state constructor, deadline, nonce and disconnect flag unchanged, no events *)
Definition same_shape (c c' : client) : Prop :=
  same_env c c' /\
  match cl_state_ c with
  | ClActive ln rn _ t0 to d => exists h', cl_state_ c' = ClActive ln rn h' t0 to d
  | st => cl_state_ c' = st
  end.

Lemma cl_flush_shape c a c' a' : cl_flush_if_active c a = Ok (c', a') -> same_shape c c' /\ ca_events a' = ca_events a.
Proof.
  unfold cl_flush_if_active, same_shape, same_env. intros E. destruct (cl_state_ c) eqn:Es;
    try (injection E as <- <-; rewrite Es; auto).
  match type of E with context [hc_flush ?x] => destruct (hc_flush x) as [[h' out]| |] end; cbn [bind fst snd] in E; try discriminate E.
  injection E as <- <-. cbn [cl_set cl_ec cl_t0 cl_seed cl_state_]. rewrite fold_ca_send_events. split; [|reflexivity]. split; [auto|eauto].
Qed.

(* timer expiry followed by the per-step work of an established connection *)
Definition TailSum (now : N) (c2 c4 : client) (ev : list ep_event) (sd : list (list N)) : Prop :=
  same_env c2 c4 /\ ~ In CO ev /\
  match cl_state_ c2 with
  | ClPending ln rq rt rc s0 =>
      (now < rt /\ c4 = c2 /\ ev = [] /\ sd = []) \/
      (rt <= now /\ 0 < rc /\ cl_state_ c4 = ClPending ln rq (now + RI) (rc - 1) s0 /\ ev = [] /\ sd = [rq]) \/
      (rt <= now /\ rc = 0 /\ cl_state_ c4 = ClFin /\ ev = [TO])
  | ClActive ln rn h t0 to d =>
      (to <= now /\ cl_state_ c4 = ClFin /\ ev = [TO]) \/
      (now < to /\ ~ In TO ev /\
       ((exists h', cl_state_ c4 = ClActive ln rn h' t0 to d) \/
        (cl_state_ c4 = ClClosing write_disconnect (now + RI) 10 /\ In write_disconnect sd)))
  | ClClosing rq rt rc =>
      (now < rt /\ c4 = c2 /\ ev = []) \/
      (rt <= now /\ 0 < rc /\ cl_state_ c4 = ClClosing rq (now + RI) (rc - 1) /\ ev = []) \/
      (rt <= now /\ rc = 0 /\ cl_state_ c4 = ClFin /\ ev = [TO])
  | ClClosed _ => ev = [] /\ (cl_state_ c4 = ClFin \/ c4 = c2)
  | ClFin => ev = [] /\ c4 = c2
  end.

Lemma same_env_refl c : same_env c c. Proof. unfold same_env. auto. Qed.
Lemma same_env_set c st : same_env c (cl_set c st). Proof. unfold same_env. auto. Qed.
Lemma same_env_trans a b c : same_env a b -> same_env b c -> same_env a c.
Proof. unfold same_env. intros (A1 & A2 & A3) (B1 & B2 & B3). repeat split; congruence. Qed.

Lemma tail_sum c2 a2 now vnow c4 a4 :
  cl_step_if_active (fst (cl_handle_events c2 a2 now)) (snd (cl_handle_events c2 a2 now)) now vnow = Ok (c4, a4) ->
  exists ev sd, ext a2 a4 ev sd /\ TailSum now c2 c4 ev sd.
Proof.
  unfold cl_handle_events, TailSum. destruct (cl_state_ c2) eqn:Es.
  - (* pending *)
    destruct (N.leb_spec resend_time now) as [Hle|Hlt].
    + destruct (N.ltb_spec 0 resend_count) as [Hc|Hc]; cbn [fst snd]; unfold cl_step_if_active; cbn [cl_set cl_state_]; intros E; injection E as <- <-.
      * exists [], [request]. split; [split; [rewrite app_nil_r|]; reflexivity|]. split; [apply same_env_set|]. split; [intros []|].
        right. left. cbn [cl_set cl_state_]. auto 10.
      * exists [TO], []. split; [split; [|rewrite app_nil_r]; reflexivity|]. split; [apply same_env_set|]. split; [intros [H|[]]; discriminate H|].
        right. right. cbn [cl_set cl_state_]. repeat split; auto. lia.
    + cbn [fst snd]. unfold cl_step_if_active. rewrite Es. intros E; injection E as <- <-.
      exists [], []. split; [apply ext_refl|]. split; [apply same_env_refl|]. split; [intros []|]. left. auto.
  - (* active *)
    destruct (N.leb_spec timeout_time now) as [Hle|Hlt].
    + cbn [fst snd]. unfold cl_step_if_active; cbn [cl_set cl_state_]; intros E; injection E as <- <-.
      exists [TO], []. split; [split; [|rewrite app_nil_r]; reflexivity|]. split; [apply same_env_set|]. split; [intros [H|[]]; discriminate H|].
      left. cbn [cl_set cl_state_]. auto.
    + cbn [fst snd]. unfold cl_step_if_active. rewrite Es.
      match goal with |- (if ?x then _ else _) = _ -> _ => destruct x end.
      * destruct (hc_receive h) as [h' pkts]. intros E; injection E as <- <-.
        exists (map (EvReceive 0) pkts), [write_disconnect]. split; [split; reflexivity|]. split; [apply same_env_set|]. split; [apply in_receives_CO|].
        right. split; [exact Hlt|]. split; [apply in_receives_TO|]. right. cbn [cl_set cl_state_]. split; [reflexivity|left; reflexivity].
      * destruct (hc_step h _) as [h1| |]; cbn [bind]; try discriminate. destruct (hc_receive h1) as [h2 pkts]. intros E; injection E as <- <-.
        exists (map (EvReceive 0) pkts), []. split; [split; [|rewrite app_nil_r]; reflexivity|]. split; [apply same_env_set|]. split; [apply in_receives_CO|].
        right. split; [exact Hlt|]. split; [apply in_receives_TO|]. left. cbn [cl_set cl_state_]. eauto.
  - (* closing *)
    destruct (N.leb_spec resend_time now) as [Hle|Hlt].
    + destruct (N.ltb_spec 0 resend_count) as [Hc|Hc]; cbn [fst snd]; unfold cl_step_if_active; cbn [cl_set cl_state_]; intros E; injection E as <- <-.
      * exists [], [request]. split; [split; [rewrite app_nil_r|]; reflexivity|]. split; [apply same_env_set|]. split; [intros []|].
        right. left. cbn [cl_set cl_state_]. auto 10.
      * exists [TO], []. split; [split; [|rewrite app_nil_r]; reflexivity|]. split; [apply same_env_set|]. split; [intros [H|[]]; discriminate H|].
        right. right. cbn [cl_set cl_state_]. repeat split; auto. lia.
    + cbn [fst snd]. unfold cl_step_if_active. rewrite Es. intros E; injection E as <- <-.
      exists [], []. split; [apply ext_refl|]. split; [apply same_env_refl|]. split; [intros []|]. left. auto.
  - destruct (_ <=? _); cbn [fst snd]; unfold cl_step_if_active; cbn [cl_set cl_state_]; try rewrite Es; intros E; injection E as <- <-;
      exists [], []; (split; [apply ext_refl|]); (split; [first [apply same_env_set|apply same_env_refl]|]); (split; [intros []|]); auto.
  - cbn [fst snd]. unfold cl_step_if_active. rewrite Es. intros E; injection E as <- <-.
    exists [], []. split; [apply ext_refl|]. split; [apply same_env_refl|]. split; [intros []|]. auto.
Qed.

Theorem client_step_sum c vnow inbox c' evs sends :
  client_step c vnow inbox = Ok (c', evs, sends) ->
  StepSum (vnow - cl_t0 c) (ec_active_timeout (cl_ec c)) inbox c c' evs sends.
Proof.
  unfold client_step. intros E.
  destruct (cl_flush_if_active c (mkClAcc [] [])) as [[c1 a1]| |] eqn:E1; cbn [bind fst snd] in E; try discriminate.
  destruct (cl_flush_shape _ _ _ _ E1) as [[Env1 Sh1] Ev1]. cbn [ca_events] in Ev1.
  destruct (cl_handle_frames inbox c1 a1 (vnow - cl_t0 c) vnow) as [[c2 a2]| |] eqn:E2; cbn [bind fst snd] in E; try discriminate.
  destruct (cl_handle_frames_FR _ _ _ _ _ _ _ E2) as (ev2 & sd2 & [X1 X2] & (Env2 & T2 & F2)).
  assert (Hec : cl_ec c1 = cl_ec c) by (destruct Env1 as (H & _); exact H). rewrite Hec in F2.
  destruct (cl_handle_events c2 a2 (vnow - cl_t0 c)) as [c3 a3] eqn:E3.
  destruct (cl_step_if_active c3 a3 (vnow - cl_t0 c) vnow) as [[c4 a4]| |] eqn:E4; cbn [bind fst snd] in E; try discriminate.
  injection E as <- <- <-.
  assert (E4' : cl_step_if_active (fst (cl_handle_events c2 a2 (vnow - cl_t0 c))) (snd (cl_handle_events c2 a2 (vnow - cl_t0 c))) (vnow - cl_t0 c) vnow = Ok (c4, a4))
    by (rewrite E3; exact E4).
  destruct (tail_sum _ _ _ _ _ _ E4') as (ev4 & sd4 & [Y1 Y2] & (Env4 & C4 & F4)).
  rewrite Ev1 in X1. cbn [app] in X1.
  assert (Hev : ca_events a4 = ev2 ++ ev4) by (rewrite Y1, X1; reflexivity). rewrite Hev.
  set (now := vnow - cl_t0 c) in *. set (AT := ec_active_timeout (cl_ec c)) in *.
  unfold StepSum. split; [exact (same_env_trans _ _ _ Env1 (same_env_trans _ _ _ Env2 Env4))|].
  destruct (cl_state_ c) eqn:Es.
  - (* pending *)
    rewrite Sh1 in F2. destruct (cl_state_ c2) eqn:Es2.
    + destruct F2 as (-> & -> & ->). rewrite Sh1 in Es2. injection Es2 as <- <- <- <- <-.
      assert (Hs : ca_sends a4 = sd4).
      { rewrite Y2, X2. unfold cl_flush_if_active in E1. rewrite Es in E1. injection E1 as _ <-. reflexivity. }
      cbn [app]. destruct F4 as [(Hlt & -> & -> & ->)|[(Hle & Hc & St4 & -> & ->)|(Hle & Hc & St4 & ->)]].
      * rewrite Sh1. rewrite Hs. split; [reflexivity|]. split; [reflexivity|]. split; [intros []|]. split; [intros []|]. left. auto.
      * rewrite St4, Hs. split; [reflexivity|]. split; [reflexivity|]. split; [intros []|]. split; [intros []|]. right. auto 10.
      * rewrite St4. right. right. auto.
    + destruct F2 as (Hco & -> & ->).
      destruct F4 as [(Hle & St4 & ->)|(Hlt & Hn & [[h' St4]|[St4 Hin]])]; rewrite St4.
      * left. apply in_or_app. left. exact Hco.
      * split; [apply in_or_app; left; exact Hco|reflexivity].
      * (* disc = None straight after the handshake: no Closing *)
        exfalso. clear - E3 E4 Es2 St4. unfold cl_handle_events in E3. rewrite Es2 in E3.
        destruct (_ <=? _); injection E3 as <- <-; unfold cl_step_if_active in E4; cbn [cl_set cl_state_] in E4.
        -- injection E4 as <- _. cbn [cl_set cl_state_] in St4. discriminate St4.
        -- rewrite Es2 in E4. destruct (hc_step h _) as [h1| |]; cbn [bind] in E4; try discriminate. destruct (hc_receive h1). injection E4 as <- _.
           cbn [cl_set cl_state_] in St4. discriminate St4.
    + destruct F2.
    + destruct F4 as (-> & [St4| ->]); [rewrite St4|rewrite Es2]; right; left; rewrite app_nil_r; exact T2.
    + destruct F4 as (-> & ->). rewrite Es2. right. left. rewrite app_nil_r. exact T2.
  - (* active *)
    destruct Sh1 as [h1 Sh1]. rewrite Sh1 in F2. destruct F2 as (Hnc & F2). split; [apply not_in_app; assumption|].
    destruct (cl_state_ c2) eqn:Es2; try (destruct F2; fail).
    + destruct F2 as (-> & -> & F2).
      destruct F4 as [(Hle & St4 & ->)|(Hlt & Hn & [[h' St4]|[St4 Hin]])]; rewrite St4.
      * intros _. destruct F2 as [[-> Hnh]|[-> _]]; [left; auto|right; exact Hle].
      * split; [reflexivity|]. split; [apply not_in_app; assumption|]. exact F2.
      * split; [reflexivity|]. split; [reflexivity|]. split; [reflexivity|]. split; [rewrite Y2; apply in_or_app; right; exact Hin|apply not_in_app; assumption].
    + destruct F4 as (-> & [St4| ->]); [rewrite St4|rewrite Es2]; intros Hin; rewrite app_nil_r in Hin; contradiction.
  - (* closing *)
    rewrite Sh1 in F2. destruct F2 as (Hnc & F2). split; [apply not_in_app; assumption|].
    destruct (cl_state_ c2) eqn:Es2; try (destruct F2; fail).
    + subst c2. rewrite Sh1 in Es2. injection Es2 as <- <- <-.
      destruct F4 as [(Hlt & -> & ->)|[(Hle & Hc & St4 & ->)|(Hle & Hc & St4 & ->)]].
      * rewrite Sh1. split; [reflexivity|]. split; [apply not_in_app; [assumption|intros []]|]. left. auto.
      * rewrite St4. split; [reflexivity|]. split; [apply not_in_app; [assumption|intros []]|]. right. auto.
      * rewrite St4. intros _. auto.
    + destruct F4 as (-> & [St4| ->]); [rewrite St4|rewrite Es2]; intros Hin; rewrite app_nil_r in Hin; contradiction.
    + destruct F4 as (-> & ->). rewrite Es2. intros Hin. rewrite app_nil_r in Hin. contradiction.
  - (* closed *)
    rewrite Sh1 in F2. destruct F2 as (-> & St2). rewrite St2 in F4. destruct F4 as (-> & F4). cbn [app].
    split; [intros []|]. split; [intros []|]. destruct F4 as [-> | ->]; [exact I|]. rewrite St2. exact I.
  - rewrite Sh1 in F2. destruct F2 as (-> & -> & ->). rewrite Sh1 in F4. destruct F4 as (-> & ->). cbn [app].
    split; [intros []|]. split; [intros []|]. exact Sh1.
Qed.

(* ====================================================================== whole histories *)
Definition phase (c : client) : N :=
  match cl_state_ c with ClPending _ _ _ _ _ => 0 | ClActive _ _ _ _ _ _ => 1 | ClClosing _ _ _ => 2 | ClClosed _ => 3 | ClFin => 4 end.

(* one entry per step: time since connect(), datagrams received, events reported, datagrams sent, phase afterwards *)
Record cl_entry := mkEnt { en_now : N; en_inbox : list (list N); en_events : list ep_event; en_sends : list (list N); en_phase : N }.

Definition cl_hist := (client * list cl_entry)%type.

Definition cl_run_op (st : cl_hist) (o : cl_op) : cl_hist :=
  match o with
  | ClStep vnow inbox =>
      match client_step (fst st) vnow inbox with
      | Ok (c', evs, sends) => (c', snd st ++ [mkEnt (vnow - cl_t0 (fst st)) inbox evs sends (phase c')])
      | _ => st
      end
  | _ => (cl_apply (fst st) o, snd st)
  end.

Lemma cl_run_op_fst st o : fst (cl_run_op st o) = cl_apply (fst st) o.
Proof.
  destruct o as [vnow inbox| |d ch m|now]; cbn [cl_run_op cl_apply]; try reflexivity.
  destruct (client_step (fst st) vnow inbox) as [[[c' evs] sends]| |]; reflexivity.
Qed.

(* the clock of the steps never runs backwards *)
Fixpoint clock_mono (last : N) (ops : list cl_op) : Prop :=
  match ops with
  | [] => True
  | ClStep vnow _ :: rest => last <= vnow /\ clock_mono vnow rest
  | _ :: rest => clock_mono last rest
  end.

Fixpoint last_clock (last : N) (ops : list cl_op) : N :=
  match ops with
  | [] => last
  | ClStep vnow _ :: rest => last_clock vnow rest
  | _ :: rest => last_clock last rest
  end.

Definition sent_total (tr : list cl_entry) : N := fold_right (fun e acc => len (en_sends e) + acc) 0 tr.

Lemma sent_total_app a b : sent_total (a ++ b) = sent_total a + sent_total b.
Proof. unfold sent_total. induction a as [|x t IH]; cbn [app fold_right]; [reflexivity|]. rewrite IH. lia. Qed.

Lemma sent_total_one e : sent_total [e] = len (en_sends e).
Proof. unfold sent_total. cbn [fold_right]. lia. Qed.

Definition refreshing (ln : N) (e : cl_entry) : Prop :=
  has_hc (en_inbox e) \/ In CO (en_events e) \/ has_syn_ack ln (en_inbox e).

Definition first_closing (tr : list cl_entry) : option cl_entry := find (fun e => en_phase e =? 2) tr.

Definition BUDGET := (CLIENT_HANDSHAKE_RESEND_COUNT + 1) * RI.    (* 22000 ms *)

Ltac consts := unfold BUDGET, RI, CLIENT_HANDSHAKE_RESEND_INTERVAL_MS, CLIENT_HANDSHAKE_RESEND_COUNT in *.

(* vlast: clock value of the latest step (or any lower bound of the next one) *)
Definition TI (t0 AT vlast : N) (c : client) (tr : list cl_entry) : Prop :=
  cl_t0 c = t0 /\ ec_active_timeout (cl_ec c) = AT /\
  Forall (fun e => en_now e <= vlast - t0) tr /\
  match cl_state_ c with
  | ClPending _ _ rt rc _ =>
      BUDGET <= rt + RI * rc /\ sent_total tr + rc = CLIENT_HANDSHAKE_RESEND_COUNT /\ first_closing tr = None /\
      Forall (fun e => ~ In CO (en_events e)) tr
  | ClActive ln _ _ _ to _ =>
      first_closing tr = None /\
      exists e, In e tr /\ to = en_now e + AT /\ refreshing ln e /\
                forall e', In e' tr -> has_hc (en_inbox e') \/ In CO (en_events e') -> en_now e' <= en_now e
  | ClClosing rq rt rc =>
      exists e, first_closing tr = Some e /\ In write_disconnect (en_sends e) /\ en_now e + BUDGET <= rt + RI * rc
  | _ => True
  end.

Lemma find_app_none {A} (f : A -> bool) l x : find f l = None -> find f (l ++ [x]) = if f x then Some x else None.
Proof. induction l as [|y t IH]; cbn [find app]; [reflexivity|]. destruct (f y); [discriminate|]. exact IH. Qed.

Lemma find_app_some {A} (f : A -> bool) l x e : find f l = Some e -> find f (l ++ [x]) = Some e.
Proof. induction l as [|y t IH]; cbn [find app]; [discriminate|]. destruct (f y); [auto|]. exact IH. Qed.

Lemma TI_step t0 AT vlast c tr vnow inbox c' evs sends :
  TI t0 AT vlast c tr -> vlast <= vnow -> client_step c vnow inbox = Ok (c', evs, sends) ->
  TI t0 AT vnow c' (tr ++ [mkEnt (vnow - t0) inbox evs sends (phase c')]).
Proof.
  intros (Ht0 & HAT & Hall & Hst) Hmono E. pose proof (client_step_sum _ _ _ _ _ _ E) as S.
  rewrite Ht0, HAT in S. destruct S as ((Ec & Et & _) & S).
  set (now := vnow - t0) in *.
  assert (Hall' : Forall (fun e => en_now e <= now) (tr ++ [mkEnt now inbox evs sends (phase c')])).
  { apply Forall_app. split; [|constructor; [cbn [en_now]; lia|constructor]].
    eapply Forall_impl; [|exact Hall]. cbv beta. intros e He. unfold now. lia. }
  unfold TI. split; [congruence|]. split; [congruence|]. split; [exact Hall'|].
  unfold phase in *. destruct (cl_state_ c) eqn:Es.
  - (* pending *)
    destruct Hst as (Hb & Hs & Hfc & Hnc). destruct (cl_state_ c') eqn:Es'.
    + destruct S as (-> & -> & HnT & HnC & [(-> & -> & ->)|(Hle & Hc & -> & -> & ->)]).
      * split; [exact Hb|]. split; [rewrite sent_total_app, sent_total_one; cbn [en_sends]; unfold len; cbn [length]; lia|].
        split; [unfold first_closing; rewrite (find_app_none _ _ _ Hfc); reflexivity|].
        apply Forall_app. split; [exact Hnc|constructor; [exact HnC|constructor]].
      * split; [consts; lia|]. split; [rewrite sent_total_app, sent_total_one; cbn [en_sends]; unfold len; cbn [length]; lia|].
        split; [unfold first_closing; rewrite (find_app_none _ _ _ Hfc); reflexivity|].
        apply Forall_app. split; [exact Hnc|constructor; [exact HnC|constructor]].
    + destruct S as (Hco & ->). split; [unfold first_closing; rewrite (find_app_none _ _ _ Hfc); reflexivity|].
      exists (mkEnt now inbox evs sends 1). split; [apply in_or_app; right; left; reflexivity|]. split; [reflexivity|].
      split; [right; left; exact Hco|]. intros e' He' _. rewrite Forall_forall in Hall'. exact (Hall' _ He').
    + destruct S.
    + exact I.
    + exact I.
  - (* active *)
    destruct Hst as (Hfc & e & He & Hto & Hr & Hmax). destruct S as (HnC & S). destruct (cl_state_ c') eqn:Es'.
    + destruct S.
    + destruct S as (-> & HnT & S). split; [unfold first_closing; rewrite (find_app_none _ _ _ Hfc); reflexivity|].
      destruct S as [(-> & Hnh)|(-> & Hrf)].
      * exists e. split; [apply in_or_app; left; exact He|]. split; [exact Hto|]. split; [exact Hr|].
        intros e' He' Hp. apply in_app_or in He' as [He'|[<-|[]]]; [exact (Hmax _ He' Hp)|]. cbn [en_inbox en_events] in Hp. tauto.
      * exists (mkEnt now inbox evs sends 1). split; [apply in_or_app; right; left; reflexivity|]. split; [reflexivity|].
        split; [unfold refreshing; cbn [en_inbox en_events]; tauto|]. intros e' He' _. rewrite Forall_forall in Hall'. exact (Hall' _ He').
    + destruct S as (-> & -> & -> & Hin & HnT). exists (mkEnt now inbox evs sends 2).
      split; [unfold first_closing; rewrite (find_app_none _ _ _ Hfc); reflexivity|]. split; [exact Hin|]. cbn [en_now]. consts; lia.
    + exact I.
    + exact I.
  - (* closing *)
    destruct Hst as (e & Hfc & Hin & Hb). destruct S as (HnC & S). destruct (cl_state_ c') eqn:Es'; try (destruct S; fail); try exact I.
    destruct S as (-> & HnT & [(-> & ->)|(Hle & Hc & -> & ->)]).
    + exists e. split; [unfold first_closing; apply find_app_some; exact Hfc|]. auto.
    + exists e. split; [unfold first_closing; apply find_app_some; exact Hfc|]. split; [exact Hin|]. consts; lia.
  - destruct S as (_ & _ & S). destruct (cl_state_ c'); try (destruct S; fail); exact I.
  - destruct S as (_ & _ & ->). exact I.
Qed.

Lemma TI_shape t0 AT vlast c c' tr : same_shape c c' -> TI t0 AT vlast c tr -> TI t0 AT vlast c' tr.
Proof.
  intros ((Ec & Et & _) & Sh) (Ht0 & HAT & Hall & Hst). unfold TI. split; [congruence|]. split; [congruence|]. split; [exact Hall|].
  destruct (cl_state_ c) eqn:Es; try (rewrite Sh; exact Hst). destruct Sh as [h' ->]. exact Hst.
Qed.

Lemma TI_apply t0 AT vlast c tr o :
  match o with ClStep _ _ => False | _ => True end -> TI t0 AT vlast c tr -> TI t0 AT vlast (cl_apply c o) tr.
Proof.
  intros Ho H. destruct o as [vn ib| |d ch m|now]; [destruct Ho| | |]; cbn [cl_apply].
  - unfold client_flush. destruct (cl_flush_if_active c _) as [[c1 a1]| |] eqn:E1; cbn [bind fst snd]; try exact H.
    exact (TI_shape _ _ _ _ _ _ (proj1 (cl_flush_shape _ _ _ _ E1)) H).
  - destruct H as (Ht0 & HAT & Hall & Hst). unfold client_send, TI. destruct (cl_state_ c) eqn:Es; cbn [cl_set cl_ec cl_t0 cl_state_]; try rewrite Es; auto.
  - destruct H as (Ht0 & HAT & Hall & Hst). unfold client_disconnect, TI. destruct (cl_state_ c) eqn:Es; cbn [cl_set cl_ec cl_t0 cl_state_]; try rewrite Es; auto.
Qed.

Lemma TI_weaken t0 AT v v' c tr : v <= v' -> TI t0 AT v c tr -> TI t0 AT v' c tr.
Proof.
  intros Hv (Ht0 & HAT & Hall & Hst). unfold TI. split; [exact Ht0|]. split; [exact HAT|]. split; [|exact Hst].
  eapply Forall_impl; [|exact Hall]. cbv beta. intros e He. lia.
Qed.

Definition cl_start (ec : ep_config) (nonce t0 seed : N) : cl_hist := (fst (client_connect ec nonce t0 seed), []).

Lemma TI_start ec nonce t0 seed : TI t0 (ec_active_timeout ec) t0 (fst (cl_start ec nonce t0 seed)) [].
Proof.
  unfold TI, cl_start, client_connect. cbn [fst cl_t0 cl_ec cl_state_]. split; [reflexivity|]. split; [reflexivity|]. split; [constructor|].
  split; [consts; lia|]. split; [reflexivity|]. split; [reflexivity|constructor].
Qed.

Lemma TI_run t0 AT : forall ops v st,
  clock_mono v ops -> TI t0 AT v (fst st) (snd st) ->
  TI t0 AT (last_clock v ops) (fst (fold_left cl_run_op ops st)) (snd (fold_left cl_run_op ops st)).
Proof.
  induction ops as [|o ops IH]; intros v st Hm H; cbn [fold_left last_clock]; [exact H|].
  destruct o as [vnow inbox| |d ch m|now]; cbn [clock_mono] in Hm.
  - destruct Hm as [Hle Hm]. apply IH; [exact Hm|]. cbn [cl_run_op].
    destruct (client_step (fst st) vnow inbox) as [[[c' evs] sends]| |] eqn:E; cbn [fst snd].
    + pose proof (TI_step _ _ _ _ _ _ _ _ _ _ H Hle E) as H'. destruct H as (Ht0 & _). rewrite Ht0. exact H'.
    + exact (TI_weaken _ _ _ _ _ _ Hle H).
    + exact (TI_weaken _ _ _ _ _ _ Hle H).
  - apply IH; [exact Hm|]. cbn [cl_run_op fst snd]. apply TI_apply; [exact I|exact H].
  - apply IH; [exact Hm|]. cbn [cl_run_op fst snd]. apply TI_apply; [exact I|exact H].
  - apply IH; [exact Hm|]. cbn [cl_run_op fst snd]. apply TI_apply; [exact I|exact H].
Qed.

(* ---------- the three kinds of Error(Timeout) ---------- *)
Section Histories.
  Variables (ec : ep_config) (nonce t0 seed : N) (ops : list cl_op).
  Hypothesis Hclock : clock_mono t0 ops.
  Let c := fst (fold_left cl_run_op ops (cl_start ec nonce t0 seed)).
  Let tr := snd (fold_left cl_run_op ops (cl_start ec nonce t0 seed)).
  Variables (vnow : N) (inbox : list (list N)) (c' : client) (evs : list ep_event) (sends : list (list N)).
  Hypothesis Hnext : last_clock t0 ops <= vnow.
  Hypothesis Hstep : client_step c vnow inbox = Ok (c', evs, sends).
  Let now := vnow - t0.
  Let AT := ec_active_timeout ec.

  Lemma hist_TI : TI t0 AT (last_clock t0 ops) c tr.
  Proof. apply TI_run; [exact Hclock|apply TI_start]. Qed.

  (* handshake: not before 22 s after connect(), and only after the ten resends *)
  Theorem handshake_timeout_history ln rq rt rc s0 :
    cl_state_ c = ClPending ln rq rt rc s0 -> In TO evs -> ~ In CO evs ->
    BUDGET <= now /\ sent_total tr = CLIENT_HANDSHAKE_RESEND_COUNT /\ Forall (fun e => ~ In CO (en_events e)) tr.
  Proof.
    intros Es HT HC. destruct hist_TI as (Ht0 & HAT & Hall & Hst). rewrite Es in Hst. destruct Hst as (Hb & Hs & _ & Hnc).
    pose proof (client_step_sum _ _ _ _ _ _ Hstep) as (_ & S). rewrite Es, Ht0 in S. fold now in S.
    assert (G : rt <= now /\ rc = 0).
    { destruct (cl_state_ c'); try (destruct S as [S|[S|S]]; [contradiction|contradiction|exact S]).
      - destruct S as (_ & _ & S & _). contradiction.
      - destruct S as (S & _). contradiction.
      - destruct S. }
    destruct G as [Hle ->]. split; [consts; lia|]. split; [lia|exact Hnc].
  Qed.

  (* established: every step that brought a data / sync / ack frame, and the step that reported Connect, lies at
     least active_timeout_ms back — including the current one *)
  Theorem active_timeout_history ln rn h t1 to d :
    cl_state_ c = ClActive ln rn h t1 to d -> In TO evs ->
    forall e, In e (tr ++ [mkEnt now inbox evs sends (phase c')]) ->
      has_hc (en_inbox e) \/ In CO (en_events e) -> en_now e + AT <= now.
  Proof.
    intros Es HT e He Hp. destruct hist_TI as (Ht0 & HAT & Hall & Hst). rewrite Es in Hst. destruct Hst as (_ & e0 & He0 & Hto & _ & Hmax).
    pose proof (client_step_sum _ _ _ _ _ _ Hstep) as (_ & S). rewrite Es, Ht0, HAT in S. fold now in S. destruct S as (HnC & S).
    assert (G : (to <= now /\ ~ has_hc inbox) \/ now + AT <= now).
    { destruct (cl_state_ c'); try (exact (S HT)); try (destruct S; fail).
      - destruct S as (_ & S & _). contradiction.
      - destruct S as (_ & _ & _ & _ & S). contradiction. }
    assert (Hn : en_now e <= now).
    { apply in_app_or in He as [He|[<-|[]]]; [|cbn [en_now]; lia]. rewrite Forall_forall in Hall. specialize (Hall _ He). unfold now. lia. }
    destruct G as [[Hle Hnh]|Hz]; [|lia].
    apply in_app_or in He as [He|[<-|[]]].
    - specialize (Hmax _ He Hp). lia.
    - cbn [en_inbox en_events] in Hp. tauto.
  Qed.

  (* the deadline of an established connection is active_timeout_ms after a step of the history in which a frame
     from the server arrived (or Connect was reported), no data / sync / ack frame arrived in a later step, and a
     step without datagrams at or past that deadline reports the timeout *)
  Theorem active_deadline_exact ln rn h t1 to d :
    cl_state_ c = ClActive ln rn h t1 to d ->
    exists e, In e tr /\ to = en_now e + AT /\ refreshing ln e /\
              (forall e', In e' tr -> has_hc (en_inbox e') \/ In CO (en_events e') -> en_now e' <= en_now e) /\
              (inbox = [] -> to <= now -> In TO evs /\ cl_state_ c' = ClFin).
  Proof.
    intros Es. destruct hist_TI as (Ht0 & HAT & Hall & Hst). rewrite Es in Hst. destruct Hst as (_ & e0 & He0 & Hto & Hr & Hmax).
    exists e0. split; [exact He0|]. split; [exact Hto|]. split; [exact Hr|]. split; [exact Hmax|].
    intros -> Hle. unfold client_step in Hstep. unfold cl_flush_if_active in Hstep. rewrite Es in Hstep.
    destruct (hc_flush h) as [[h' out]| |]; cbn [bind fst snd cl_handle_frames] in Hstep; try discriminate.
    unfold cl_handle_events in Hstep. cbn [cl_set cl_state_ cl_t0] in Hstep. rewrite Ht0 in Hstep. fold now in Hstep.
    destruct (N.leb_spec to now) as [_|Hlt]; [|lia]. unfold cl_step_if_active in Hstep. cbn [cl_set cl_state_ bind fst snd] in Hstep.
    injection Hstep as <- <- _. cbn [cl_set cl_state_ ca_event ca_events]. rewrite fold_ca_send_events. cbn [ca_events app].
    split; [left; reflexivity|reflexivity].
  Qed.

  (* disconnecting: not before 22 s after the step that first sent the Disconnect request *)
  Theorem closing_timeout_history rq rt rc :
    cl_state_ c = ClClosing rq rt rc -> In TO evs ->
    exists e, first_closing tr = Some e /\ In write_disconnect (en_sends e) /\ en_now e + BUDGET <= now.
  Proof.
    intros Es HT. destruct hist_TI as (Ht0 & HAT & Hall & Hst). rewrite Es in Hst. destruct Hst as (e & Hfc & Hin & Hb).
    pose proof (client_step_sum _ _ _ _ _ _ Hstep) as (_ & S). rewrite Es, Ht0 in S. fold now in S. destruct S as (_ & S).
    assert (G : rt <= now /\ rc = 0).
    { destruct (cl_state_ c'); try (exact (S HT)); try (destruct S; fail). destruct S as (_ & S & _). contradiction. }
    destruct G as [Hle ->]. exists e. split; [exact Hfc|]. split; [exact Hin|]. lia.
  Qed.

End Histories.

(* nothing else reports Error(Timeout) *)
Theorem no_other_timeout ec nonce t0 seed ops vnow inbox c' evs sends :
  client_step (fst (fold_left cl_run_op ops (cl_start ec nonce t0 seed))) vnow inbox = Ok (c', evs, sends) ->
  In TO evs -> phase (fst (fold_left cl_run_op ops (cl_start ec nonce t0 seed))) <= 2.
Proof.
  intros Hstep HT. pose proof (client_step_sum _ _ _ _ _ _ Hstep) as (_ & S). unfold phase.
  destruct (cl_state_ _); try lia; destruct S as (S & _); contradiction.
Qed.
