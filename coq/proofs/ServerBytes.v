(* ServerBytes.v — C18 over whole histories: as long as an address has not completed the handshake, everything
   the server has sent to it (replies, every retransmission, every refusal) is at most 275/1472 of what it has
   received from it. The potential: bytes sent + 25 * (retransmissions its pending entry may still make). *)
From Coq Require Import ZArith Lia ZifyBool ZifyN ZifyNat.
From UF Require Import Consts Base Frame Codec F64 Feedback Sender Receiver FrameAck Heap FrameQueue SendRate HalfConn Endpoint
                       BaseLemmas CodecTotal SenderProofs EndpointProofs HcTotal HcStepTotal HeapCount EndpointTotal.
Local Open Scope N_scope.

Section Amp.
  Variable A : N.

  Definition outb (sends : list (N * list N)) : N :=
    fold_right (fun p acc => (if fst p =? A then len (snd p) else 0) + acc) 0 sends.

  Lemma outb_cons p l : outb (p :: l) = (if fst p =? A then len (snd p) else 0) + outb l.
  Proof. reflexivity. Qed.

  Lemma outb_app a b : outb (a ++ b) = outb a + outb b.
  Proof. induction a as [|x a IH]; [reflexivity|]. rewrite <- app_comm_cons, !outb_cons, IH. lia. Qed.

  Lemma outb_one addr bs : outb [(addr, bs)] = if addr =? A then len bs else 0.
  Proof. rewrite outb_cons. cbn [fst snd]. change (outb []) with 0. lia. Qed.

  Definition unverified_state (st : sv_cstate) : Prop :=
    match st with SvPending _ _ _ _ _ | SvFin => True | _ => False end.

  Definition obj_fine (o : sv_obj) : Prop :=
    (so_addr o = A -> unverified_state (so_state o)) /\
    match so_state o with SvPending _ _ _ _ reply => len reply = 25 | _ => True end.

  Definition wt (s : server) (e : rq_entry) : nat :=
    let o := sv_obj_get s (rq_uid e) in
    match so_state o with
    | SvPending _ _ _ _ _ => if (so_addr o =? A) && (rq_frag e =? 0) then N.to_nat (rq_count e) else 0%nat
    | _ => 0%nat
    end.

  Definition R (s : server) : N := N.of_nat (wsum (wt s) (sv_events s)).

  Definition uid_in (s : server) (e : rq_entry) : bool := rq_uid e <? len (sv_objs s).

  Record SI (s : server) : Prop := {
    si_objs : Forall obj_fine (sv_objs s);
    si_uids : Forall (fun e => uid_in s e = true) (sv_events s);
    si_clients : Forall (fun p => snd p < len (sv_objs s) /\ so_addr (sv_obj_get s (snd p)) = fst p) (sv_clients s)
  }.

  Lemma sv_obj_fine s id : SI s -> obj_fine (sv_obj_get s id).
  Proof.
    intros [H _ _]. unfold sv_obj_get. destruct (nth_in_or_default (N.to_nat id) (sv_objs s) (mkSvObj 0 SvFin)) as [Hin | ->].
    - rewrite Forall_forall in H. apply H. exact Hin.
    - split; [intros _; exact I|exact I].
  Qed.

  (* ----- changing one object ----- *)
  Lemma nth_upd_same {X} (d : X) : forall l i x, (i < length l)%nat -> nth i (upd l i x) d = x.
  Proof. induction l as [|h t IH]; intros [|i] x H; cbn [length upd nth] in *; try lia; [reflexivity|]. apply IH. lia. Qed.

  Lemma obj_get_set_other s id st j : j <> id -> sv_obj_get (sv_set_obj s id st) j = sv_obj_get s j.
  Proof. intros H. unfold sv_obj_get, sv_set_obj. cbn [sv_objs]. apply nth_upd_other. lia. Qed.

  Lemma obj_get_set_same s id st : id < len (sv_objs s) ->
    sv_obj_get (sv_set_obj s id st) id = mkSvObj (so_addr (sv_obj_get s id)) st.
  Proof. intros H. unfold sv_obj_get at 1. unfold sv_set_obj. cbn [sv_objs]. apply nth_upd_same. unfold len in H. lia. Qed.

  Lemma set_obj_out_of_range s id st : len (sv_objs s) <= id -> sv_objs (sv_set_obj s id st) = sv_objs s.
  Proof.
    intros H. unfold sv_set_obj. cbn [sv_objs]. unfold len in H.
    assert (G : forall (l : list sv_obj) i x, (length l <= i)%nat -> upd l i x = l).
    { induction l as [|h t IH]; intros [|i] x Hi; cbn [length upd] in *; try reflexivity; try lia. f_equal. apply IH. lia. }
    apply G. lia.
  Qed.

  Definition not_pending (st : sv_cstate) : Prop := match st with SvPending _ _ _ _ _ => False | _ => True end.

  (* replacing an object's state by a non-pending one never raises the potential *)
  Lemma set_obj_SI s id st :
    SI s -> not_pending st -> (so_addr (sv_obj_get s id) = A -> unverified_state st) ->
    SI (sv_set_obj s id st) /\ R (sv_set_obj s id st) <= R s.
  Proof.
    intros HS Hnp Hun. pose proof HS as [Ho Hu Hc].
    assert (Addr : forall j, so_addr (sv_obj_get (sv_set_obj s id st) j) = so_addr (sv_obj_get s j)).
    { intros j. destruct (N.lt_ge_cases id (len (sv_objs s))) as [Hin|Hout].
      - destruct (N.eq_dec j id) as [->|Hne]; [rewrite obj_get_set_same by exact Hin; reflexivity|rewrite obj_get_set_other by exact Hne; reflexivity].
      - unfold sv_obj_get. rewrite set_obj_out_of_range by exact Hout. reflexivity. }
    destruct (N.lt_ge_cases id (len (sv_objs s))) as [Hin|Hout].
    - split.
      + constructor.
        * unfold sv_set_obj. cbn [sv_objs]. apply Forall_upd; [exact Ho|].
          split; cbn [so_addr so_state]; [exact Hun|]. destruct st; try exact I. contradiction.
        * unfold sv_set_obj. cbn [sv_events sv_objs]. unfold uid_in, len in *. cbn [sv_objs]. rewrite upd_length. exact Hu.
        * cbn [sv_set_obj sv_clients]. eapply Forall_impl; [|exact Hc]. intros p [Hp1 Hp2]. cbn beta in *. rewrite Addr.
          split; [|exact Hp2]. unfold sv_set_obj, len in *. cbn [sv_objs]. rewrite upd_length. exact Hp1.
      + unfold R. cbn [sv_set_obj sv_events].
        enough (wsum (wt (sv_set_obj s id st)) (sv_events s) <= wsum (wt s) (sv_events s))%nat by lia.
        apply (wsum_le (wt (sv_set_obj s id st)) (wt s)). intros e _.
        unfold wt. destruct (N.eq_dec (rq_uid e) id) as [->|Hne].
        * rewrite obj_get_set_same by exact Hin. cbn [so_state so_addr]. destruct st; try lia. contradiction.
        * rewrite obj_get_set_other by exact Hne. lia.
    - assert (E : sv_objs (sv_set_obj s id st) = sv_objs s) by (apply set_obj_out_of_range; exact Hout).
      assert (Eg : forall j, sv_obj_get (sv_set_obj s id st) j = sv_obj_get s j) by (intros j; unfold sv_obj_get; rewrite E; reflexivity).
      split.
      + constructor; [rewrite E; exact Ho| |]. { unfold uid_in. rewrite E. exact Hu. }
        cbn [sv_set_obj sv_clients]. eapply Forall_impl; [|exact Hc]. intros p [Hp1 Hp2]. cbn beta in *. rewrite Addr.
        split; [|exact Hp2]. rewrite E. exact Hp1.
      + unfold R. cbn [sv_set_obj sv_events].
        enough (wsum (wt (sv_set_obj s id st)) (sv_events s) <= wsum (wt s) (sv_events s))%nat by lia.
        apply (wsum_le (wt (sv_set_obj s id st)) (wt s)). intros e _. unfold wt. rewrite Eg. lia.
  Qed.

  (* ----- what does not touch objects or timers ----- *)
  Lemma SI_ext s s' : sv_objs s' = sv_objs s -> sv_events s' = sv_events s -> sv_clients s' = sv_clients s -> SI s -> SI s'.
  Proof.
    intros E1 E2 E3 [H1 H2 H3]. constructor; [rewrite E1; exact H1| |].
    - unfold uid_in. rewrite E1, E2. exact H2.
    - rewrite E3. unfold sv_obj_get. rewrite E1. exact H3.
  Qed.

  Lemma R_ext s s' : sv_objs s' = sv_objs s -> sv_events s' = sv_events s -> R s' = R s.
  Proof.
    intros E1 E2. unfold R. rewrite E2. f_equal. unfold wsum. f_equal. apply map_ext. intros e. unfold wt, sv_obj_get. rewrite E1. reflexivity.
  Qed.

  Lemma remove_addr_SI s addr : SI s -> SI (sv_remove_addr s addr) /\ R (sv_remove_addr s addr) = R s.
  Proof.
    intros [H1 H2 H3]. split; [|apply R_ext; reflexivity]. constructor; [exact H1|exact H2|].
    cbn [sv_remove_addr sv_clients]. rewrite Forall_forall in *. intros p Hp. apply filter_In in Hp as [Hp _]. exact (H3 p Hp).
  Qed.

  (* ----- pushing a timer ----- *)
  Lemma push_event_SI s e : SI s -> rq_uid e < len (sv_objs s) ->
    SI (sv_push_event s e) /\ R (sv_push_event s e) = R s + N.of_nat (wt s e).
  Proof.
    intros [Ho Hu Hc] He. split.
    - constructor; [exact Ho| |exact Hc]. unfold sv_push_event. cbn [sv_events]. unfold uid_in. cbn [sv_objs].
      apply cnt_zero_forall. rewrite heap_push_cnt. apply cnt_zero_forall in Hu. unfold uid_in in Hu. rewrite Hu.
      destruct (N.ltb_spec (rq_uid e) (len (sv_objs s))); [reflexivity|lia].
    - unfold R, sv_push_event. cbn [sv_events].
      set (s' := mkServer (sv_cfg s) (sv_objs s) (sv_clients s) (sv_active s) (heap_push (sv_events s) e) (sv_t0 s) (sv_seed s)).
      change (wt s') with (wt s). rewrite heap_push_wsum. lia.
  Qed.


  (* ----- the running judgment ----- *)
  Definition Good (E0 : list ep_event) (O0 : N) (s : server) (a : sv_acc) (inb : N) : Prop :=
    In (EvConnect A) (E0 ++ ac_events a) \/ (SI s /\ 1472 * (O0 + outb (ac_sends a) + 25 * R s) <= 275 * inb).

  Lemma Good_step E0 O0 s a inb s' a' inb' d :
    (exists ev, ac_events a' = ac_events a ++ ev) ->
    (SI s -> SI s' /\ outb (ac_sends a') = outb (ac_sends a) + d /\ inb <= inb' /\
             1472 * (d + 25 * R s') <= 1472 * 25 * R s + 275 * (inb' - inb)) ->
    Good E0 O0 s a inb -> Good E0 O0 s' a' inb'.
  Proof.
    intros [ev Ev] H [G|[G1 G2]].
    - left. rewrite Ev, app_assoc. apply in_or_app. left. exact G.
    - right. destruct (H G1) as (S' & Eo & Hi & Hd). split; [exact S'|]. rewrite Eo. nia.
  Qed.

  Lemma no_ev a : exists ev : list ep_event, ac_events a = ac_events a ++ ev.
  Proof. exists []. rewrite app_nil_r. reflexivity. Qed.

  Lemma acc_send_out a addr bs : outb (ac_sends (acc_send a addr bs)) = outb (ac_sends a) + (if addr =? A then len bs else 0).
  Proof. unfold acc_send. cbn [ac_sends]. rewrite outb_app, outb_one. reflexivity. Qed.

  Lemma obj_in_range s id : so_state (sv_obj_get s id) <> SvFin -> id < len (sv_objs s).
  Proof.
    intros H. destruct (N.lt_ge_cases id (len (sv_objs s))) as [|Hge]; [assumption|]. exfalso. apply H.
    unfold sv_obj_get. rewrite nth_overflow; [reflexivity|]. unfold len in Hge. lia.
  Qed.

  Lemma verified_not_A s id : SI s -> ~ unverified_state (so_state (sv_obj_get s id)) -> so_addr (sv_obj_get s id) <> A.
  Proof. intros H Hn E. apply Hn. exact (proj1 (sv_obj_fine s id H) E). Qed.

  Lemma lookup_addr s addr id : SI s -> sv_lookup s addr = Some id -> so_addr (sv_obj_get s id) = addr.
  Proof.
    intros [_ _ Hc]. unfold sv_lookup. destruct (find _ (sv_clients s)) as [p|] eqn:E; [|discriminate].
    intros H; inversion H; subst. apply find_some in E as [Hin He]. rewrite Forall_forall in Hc. rewrite (proj2 (Hc p Hin)).
    apply N.eqb_eq in He. exact He.
  Qed.

  Lemma eqb_ne x y : x <> y -> (x =? y) = false.
  Proof. intros H. apply N.eqb_neq. exact H. Qed.

  Lemma wsum_ext_in (w w' : rq_entry -> nat) l : (forall e, In e l -> w e = w' e) -> wsum w l = wsum w' l.
  Proof. intros H. unfold wsum. f_equal. apply map_ext_in. exact H. Qed.

  (* ----- connection requests ----- *)
  Lemma sv_handle_syn_good E0 O0 s a addr v n mrr mps mra now inb :
    Good E0 O0 s a inb ->
    Good E0 O0 (fst (sv_handle_syn s a addr v n mrr mps mra now)) (snd (sv_handle_syn s a addr v n mrr mps mra now))
         (inb + (if addr =? A then 1472 else 0)).
  Proof.
    unfold sv_handle_syn.
    assert (Same : Good E0 O0 s a inb -> Good E0 O0 s a (inb + (if addr =? A then 1472 else 0))).
    { apply (Good_step E0 O0 s a inb s a _ 0); [apply no_ev|].
      intros H. split; [exact H|]. split; [lia|]. split; [lia|]. lia. }
    destruct (sv_lookup s addr); [exact Same|].
    assert (Ref : forall e k, Good E0 O0 s a inb ->
              Good E0 O0 (fst (sv_refuse s a addr n e k)) (snd (sv_refuse s a addr n e k)) (inb + (if addr =? A then 1472 else 0))).
    { intros e k. unfold sv_refuse. cbn [fst snd].
      apply (Good_step E0 O0 s a inb s _ _ (if addr =? A then 10 else 0)).
      - destruct (svc_enable_errors _); cbn [acc_event acc_send ac_events]; [eexists; reflexivity|apply no_ev].
      - intros H. split; [exact H|]. split.
        + destruct (svc_enable_errors _); cbn [acc_event ac_sends]; rewrite acc_send_out, hs_error_len; reflexivity.
        + split; [lia|]. destruct (addr =? A); lia. }
    destruct (negb _); [apply Ref|]. destruct (_ || _); [apply Ref|]. destruct (mra <? _); [apply Ref|]. destruct (_ <? mps); [apply Ref|].
    cbn [fst snd].
    set (ln := hd 0 (ac_nonces a)).
    set (reply := write_handshake_syn_ack n ln _ _ _).
    set (id := len (sv_objs s)).
    set (s1 := mkServer (sv_cfg s) (sv_objs s ++ [mkSvObj addr (SvPending ln n mrr mra reply)]) (sv_clients s ++ [(addr, id)])
                        (sv_active s) (sv_events s) (sv_t0 s) (sv_seed s)).
    apply (Good_step E0 O0 s a inb _ _ _ (if addr =? A then 25 else 0)).
    - cbn [acc_send ac_events]. apply no_ev.
    - intros HS. pose proof HS as [Ho Hu Hc].
      assert (Hget : forall j, j < id -> sv_obj_get s1 j = sv_obj_get s j).
      { intros j Hj. unfold sv_obj_get. subst s1. cbn [sv_objs]. apply app_nth1. subst id. unfold len in Hj. lia. }
      assert (Hnew : sv_obj_get s1 id = mkSvObj addr (SvPending ln n mrr mra reply)).
      { unfold sv_obj_get. subst s1. cbn [sv_objs]. rewrite app_nth2 by (subst id; unfold len; lia).
        replace (N.to_nat id - length (sv_objs s))%nat with 0%nat by (subst id; unfold len; lia). reflexivity. }
      assert (Hlen1 : len (sv_objs s1) = id + 1) by (subst s1 id; cbn [sv_objs]; rewrite len_app, len_cons, len_nil; lia).
      assert (S1 : SI s1).
      { constructor.
        - subst s1. cbn [sv_objs]. apply Forall_app. split; [exact Ho|]. constructor; [|constructor]. split; cbn [so_addr so_state]; [intros _; exact I|].
          subst reply. apply syn_ack_len.
        - change (sv_events s1) with (sv_events s). eapply Forall_impl; [|exact Hu]. intros e He. unfold uid_in in *. rewrite Hlen1. fold id in He. lia.
        - change (sv_clients s1) with (sv_clients s ++ [(addr, id)]). apply Forall_app. split.
          + eapply Forall_impl; [|exact Hc]. intros p [Hp1 Hp2]. cbn beta. fold id in Hp1. rewrite Hlen1, Hget by exact Hp1. split; [lia|exact Hp2].
          + constructor; [|constructor]. cbn [fst snd]. rewrite Hlen1, Hnew. split; [lia|reflexivity]. }
      assert (R1 : R s1 = R s).
      { unfold R. change (sv_events s1) with (sv_events s). f_equal. apply wsum_ext_in. intros e He.
        rewrite Forall_forall in Hu. specialize (Hu e He). unfold uid_in in Hu. fold id in Hu. unfold wt. rewrite Hget by lia. reflexivity. }
      destruct (push_event_SI s1 (mkRq id 0 (now + SERVER_HANDSHAKE_RESEND_INTERVAL_MS) SERVER_HANDSHAKE_RESEND_COUNT) S1 ltac:(cbn [rq_uid]; lia)) as [S2 R2].
      split; [exact S2|]. split; [cbn [ac_sends]; rewrite acc_send_out; subst reply; rewrite syn_ack_len; reflexivity|].
      split; [lia|]. rewrite R2, R1. unfold wt. cbn [rq_uid rq_frag rq_count]. rewrite Hnew. cbn [so_state so_addr].
      change (0 =? 0) with true. rewrite andb_true_r. destruct (addr =? A); cbn; lia.
  Qed.

  (* ----- the handshake acknowledgement: the only place where an address becomes verified ----- *)
  Lemma sv_handle_ack_good E0 O0 s a addr na now vnow inb :
    Good E0 O0 s a inb ->
    Good E0 O0 (fst (sv_handle_ack s a addr na now vnow)) (snd (sv_handle_ack s a addr na now vnow)) inb.
  Proof.
    unfold sv_handle_ack. intros G. destruct (sv_lookup s addr) as [id|] eqn:El; [|exact G].
    destruct (so_state (sv_obj_get s id)) eqn:E; try exact G.
    - destruct (_ && _); [|exact G]. cbn [fst snd].
      destruct (N.eq_dec addr A) as [->|Hne].
      + left. cbn [acc_event ac_events]. rewrite app_assoc. apply in_or_app. right. left. reflexivity.
      + revert G. apply (Good_step E0 O0 s a inb _ _ inb 0); [cbn [acc_event ac_events]; eexists; reflexivity|].
        intros HS. pose proof (lookup_addr s addr id HS El) as Ea.
        destruct (set_obj_SI s id (SvActive (hc_new (hc_config_of (svc_ec (sv_cfg s)) local_nonce remote_nonce remote_max_receive_rate remote_max_receive_alloc) (sv_seed s)) vnow (now + ec_active_timeout (svc_ec (sv_cfg s))) None) HS I) as [S' R'].
        { intros E2. congruence. }
        split; [eapply SI_ext; [| | |exact S']; reflexivity|]. split; [cbn [acc_event ac_sends]; lia|]. split; [lia|].
        match goal with |- context [R ?x] => replace (R x) with (R (sv_set_obj s id (SvActive (hc_new (hc_config_of (svc_ec (sv_cfg s)) local_nonce remote_nonce remote_max_receive_rate remote_max_receive_alloc) (sv_seed s)) vnow (now + ec_active_timeout (svc_ec (sv_cfg s))) None))) by (apply R_ext; reflexivity) end.
        lia.
    - cbn [fst snd]. revert G. apply (Good_step E0 O0 s a inb _ _ inb 0); [apply no_ev|].
      intros HS. destruct (set_obj_SI s id (SvActive h t0 (now + ec_active_timeout (svc_ec (sv_cfg s))) disc) HS I) as [S' R'].
      { intros E2. pose proof (proj1 (sv_obj_fine s id HS) E2) as U. rewrite E in U. exact U. }
      split; [exact S'|]. split; [lia|]. split; lia.
  Qed.

  (* ----- established connections: their address is not A ----- *)
  Lemma active_addr s id h t0 to d : SI s -> so_state (sv_obj_get s id) = SvActive h t0 to d -> (so_addr (sv_obj_get s id) =? A) = false.
  Proof. intros HS E. apply eqb_ne. apply verified_not_A; [exact HS|]. rewrite E. exact (fun x => x). Qed.

  Lemma set_obj_neutral E0 O0 s a inb id st a' :
    not_pending st -> (forall (HS : SI s), so_addr (sv_obj_get s id) = A -> unverified_state st) ->
    (exists ev, ac_events a' = ac_events a ++ ev) -> (SI s -> outb (ac_sends a') = outb (ac_sends a)) ->
    Good E0 O0 s a inb -> Good E0 O0 (sv_set_obj s id st) a' inb.
  Proof.
    intros Hnp Hun Hev Hout. apply (Good_step E0 O0 s a inb _ a' inb 0 Hev).
    intros HS. destruct (set_obj_SI s id st HS Hnp (Hun HS)) as [S' R']. split; [exact S'|]. split; [rewrite (Hout HS); lia|]. split; lia.
  Qed.

  Lemma push_neutral E0 O0 s a inb e :
    (forall (HS : SI s), rq_uid e < len (sv_objs s) /\ wt s e = 0%nat) ->
    Good E0 O0 s a inb -> Good E0 O0 (sv_push_event s e) a inb.
  Proof.
    intros H. apply (Good_step E0 O0 s a inb _ a inb 0 (no_ev a)).
    intros HS. destruct (H HS) as [Hu Hw]. destruct (push_event_SI s e HS Hu) as [S' R']. split; [exact S'|]. split; [lia|]. split; [lia|]. rewrite R', Hw. lia.
  Qed.

  Lemma wt_non_pending s e : not_pending (so_state (sv_obj_get s (rq_uid e))) -> wt s e = 0%nat.
  Proof. unfold wt. destruct (so_state (sv_obj_get s (rq_uid e))); [contradiction| | | |]; reflexivity. Qed.

  Lemma sv_handle_disconnect_good E0 O0 s a addr now inb :
    Good E0 O0 s a inb -> Good E0 O0 (fst (sv_handle_disconnect s a addr now)) (snd (sv_handle_disconnect s a addr now)) inb.
  Proof.
    unfold sv_handle_disconnect. intros G. destruct (sv_lookup s addr) as [id|] eqn:El; [|exact G].
    destruct (so_state (sv_obj_get s id)) eqn:E; try exact G.
    - destruct (hc_receive h) as [h' pkts]. cbn [fst snd].
      apply push_neutral.
      { intros HS. cbn [rq_uid]. split.
        - unfold sv_set_obj, len. cbn [sv_objs]. rewrite upd_length. apply obj_in_range. rewrite E. discriminate.
        - apply wt_non_pending. cbn [rq_uid]. rewrite obj_get_set_same by (apply obj_in_range; rewrite E; discriminate). exact I. }
      revert G. apply set_obj_neutral; [exact I| | |].
      + intros HS Ea. exfalso. apply (verified_not_A s id HS); [rewrite E; exact (fun x => x)|exact Ea].
      + cbn [acc_event acc_events acc_send ac_events]. rewrite <- app_assoc. eexists. reflexivity.
      + intros HS. cbn [acc_event acc_events ac_sends]. rewrite acc_send_out.
        rewrite <- (lookup_addr s addr id HS El). rewrite (active_addr s id _ _ _ _ HS E). lia.
    - cbn [fst snd]. apply push_neutral.
      { intros HS. cbn [rq_uid]. split.
        - unfold sv_set_obj, len. cbn [sv_objs]. rewrite upd_length. apply obj_in_range. rewrite E. discriminate.
        - apply wt_non_pending. cbn [rq_uid]. rewrite obj_get_set_same by (apply obj_in_range; rewrite E; discriminate). exact I. }
      revert G. apply set_obj_neutral; [exact I| | |].
      + intros HS Ea. exfalso. apply (verified_not_A s id HS); [rewrite E; exact (fun x => x)|exact Ea].
      + cbn [acc_event acc_send ac_events]. eexists. reflexivity.
      + intros HS. cbn [acc_event ac_sends]. rewrite acc_send_out.
        rewrite <- (lookup_addr s addr id HS El).
        rewrite eqb_ne by (apply verified_not_A; [exact HS|rewrite E; exact (fun x => x)]). lia.
    - cbn [fst snd]. revert G. apply (Good_step E0 O0 s a inb s _ inb 0); [cbn [acc_send ac_events]; apply no_ev|].
      intros HS. split; [exact HS|]. split; [|split; lia]. rewrite acc_send_out. rewrite <- (lookup_addr s addr id HS El).
      rewrite eqb_ne by (apply verified_not_A; [exact HS|rewrite E; exact (fun x => x)]). lia.
  Qed.

  Lemma sv_handle_disconnect_ack_good E0 O0 s a addr inb :
    Good E0 O0 s a inb -> Good E0 O0 (fst (sv_handle_disconnect_ack s a addr)) (snd (sv_handle_disconnect_ack s a addr)) inb.
  Proof.
    unfold sv_handle_disconnect_ack. intros G. destruct (sv_lookup s addr) as [id|] eqn:El; [|exact G].
    destruct (so_state (sv_obj_get s id)) eqn:E; try exact G. cbn [fst snd].
    revert G. apply (Good_step E0 O0 s a inb _ _ inb 0); [cbn [acc_event ac_events]; eexists; reflexivity|].
    intros HS. destruct (set_obj_SI s id SvFin HS I (fun _ => I)) as [S' R'].
    destruct (remove_addr_SI (sv_set_obj s id SvFin) addr S') as [S2 R2].
    split; [exact S2|]. split; [cbn [acc_event ac_sends]; lia|]. split; [lia|]. rewrite R2. lia.
  Qed.

  Lemma sv_handle_hc_frame_good E0 O0 s a addr f now inb r :
    sv_handle_hc_frame s a addr f now = Ok r -> Good E0 O0 s a inb -> Good E0 O0 (fst r) (snd r) inb.
  Proof.
    unfold sv_handle_hc_frame. intros Er G. destruct (sv_lookup s addr) as [id|]; [|inversion Er; subst; exact G].
    destruct (so_state (sv_obj_get s id)) eqn:E; try (inversion Er; subst; exact G).
    destruct (hc_handle_frame h f) as [[h' k]| |]; cbn [bind fst] in Er; try discriminate. inversion Er; subst. cbn [fst snd].
    revert G. apply set_obj_neutral; [exact I| |apply no_ev|reflexivity].
    intros HS Ea. exfalso. apply (verified_not_A s id HS); [rewrite E; exact (fun x => x)|exact Ea].
  Qed.

  Lemma sv_handle_frame_good E0 O0 s a addr f now vnow inb r c :
    (forall v n x y z, f = FSyn v n x y z -> c = 1472) ->
    sv_handle_frame s a addr f now vnow = Ok r -> Good E0 O0 s a inb ->
    Good E0 O0 (fst r) (snd r) (inb + (if addr =? A then c else 0)).
  Proof.
    intros Hc Er G.
    assert (Mono : forall s' a', Good E0 O0 s' a' inb -> Good E0 O0 s' a' (inb + (if addr =? A then c else 0))).
    { intros s' a'. apply (Good_step E0 O0 s' a' inb s' a' _ 0 (no_ev a')). intros H. split; [exact H|]. split; [lia|]. split; lia. }
    destruct f as [v n x y z|na n mrr mps mra|na|na e| | |seq nonce dgs|nf np|fb pb acks]; cbn [sv_handle_frame] in Er;
      try (inversion Er; subst; cbn [fst snd]; apply Mono; exact G).
    - inversion Er; subst. rewrite (Hc _ _ _ _ _ eq_refl). apply sv_handle_syn_good. exact G.
    - inversion Er; subst. apply Mono. apply sv_handle_ack_good. exact G.
    - inversion Er; subst. apply Mono. apply sv_handle_disconnect_good. exact G.
    - inversion Er; subst. apply Mono. apply sv_handle_disconnect_ack_good. exact G.
    - apply Mono. eapply sv_handle_hc_frame_good; eassumption.
    - apply Mono. eapply sv_handle_hc_frame_good; eassumption.
    - apply Mono. eapply sv_handle_hc_frame_good; eassumption.
  Qed.

  Definition inb_of (inbox : list (N * list N)) : N :=
    fold_right (fun p acc => (if fst p =? A then len (snd p) else 0) + acc) 0 inbox.

  Lemma sv_handle_frames_good E0 O0 now vnow : forall inbox s a inb r,
    sv_handle_frames inbox s a now vnow = Ok r -> Good E0 O0 s a inb -> Good E0 O0 (fst r) (snd r) (inb + inb_of inbox).
  Proof.
    induction inbox as [|[addr bs] rest IH]; intros s a inb r Er G; cbn [sv_handle_frames] in Er.
    - inversion Er; subst. cbn [inb_of fold_right]. rewrite N.add_0_r. exact G.
    - destruct (read_frame bs) as [[f|]| |] eqn:Ef; cbn [bind] in Er; try discriminate.
      + destruct (sv_handle_frame s a addr f now vnow) as [[s1 a1]| |] eqn:E1; cbn [bind fst snd] in Er; try discriminate.
        pose proof (sv_handle_frame_good E0 O0 s a addr f now vnow inb (s1, a1) (len bs)) as G1. cbn [fst snd] in G1.
        specialize (G1 ltac:(intros v n x y z ->; apply (syn_requires_full_size bs v n x y z Ef)) E1 G).
        specialize (IH s1 a1 _ r Er G1). cbn [inb_of fold_right fst snd]. fold (inb_of rest).
        replace (inb + ((if addr =? A then len bs else 0) + inb_of rest)) with (inb + (if addr =? A then len bs else 0) + inb_of rest) by lia. exact IH.
      + specialize (IH s a inb r Er G). cbn [inb_of fold_right fst snd]. fold (inb_of rest).
        revert IH. apply (Good_step E0 O0 (fst r) (snd r) _ (fst r) (snd r) _ 0 (no_ev _)). intros H. split; [exact H|]. split; [lia|]. split; lia.
  Qed.

  (* ----- timers ----- *)
  (* popping an entry from the heap: the potential drops by its weight *)
  Lemma pop_SI s x rest :
    SI s -> heap_pop (sv_events s) = Some (x, rest) ->
    let s1 := mkServer (sv_cfg s) (sv_objs s) (sv_clients s) (sv_active s) rest (sv_t0 s) (sv_seed s) in
    SI s1 /\ R s1 + N.of_nat (wt s x) = R s /\ uid_in s x = true.
  Proof.
    intros [Ho Hu Hc] Ep s1. pose proof (heap_pop_wsum (wt s) _ _ _ Ep) as W.
    apply cnt_zero_forall in Hu. pose proof (heap_pop_cnt (fun e => negb (uid_in s e)) _ _ _ Ep) as [C _].
    rewrite Hu in C.
    assert (Cx : uid_in s x = true) by (destruct (uid_in s x); [reflexivity|cbn in C; lia]).
    assert (Cr : cnt (fun e => negb (uid_in s e)) rest = 0%nat) by lia.
    split; [|split; [|exact Cx]].
    - constructor; [exact Ho| |exact Hc]. subst s1. cbn [sv_events]. apply cnt_zero_forall in Cr. exact Cr.
    - unfold R. subst s1. cbn [sv_events]. change (wt (mkServer (sv_cfg s) (sv_objs s) (sv_clients s) (sv_active s) rest (sv_t0 s) (sv_seed s))) with (wt s). lia.
  Qed.

  (* handling a popped timer entry, starting from the state without it *)
  Lemma sv_handle_event_good E0 O0 s a ev now inb :
    (In (EvConnect A) (E0 ++ ac_events a) \/
     (SI s /\ uid_in s ev = true /\ 1472 * (O0 + outb (ac_sends a) + 25 * (R s + N.of_nat (wt s ev))) <= 275 * inb)) ->
    Good E0 O0 (fst (sv_handle_event s a ev now)) (snd (sv_handle_event s a ev now)) inb.
  Proof.
    intros G.
    assert (Drop : forall s' a', (exists e2, ac_events a' = ac_events a ++ e2) ->
              (SI s -> uid_in s ev = true -> SI s' /\ outb (ac_sends a') + 25 * R s' <= outb (ac_sends a) + 25 * (R s + N.of_nat (wt s ev))) ->
              Good E0 O0 s' a' inb).
    { intros s' a' [e2 Ev] H. destruct G as [G|(G1 & G2 & G3)].
      - left. rewrite Ev, app_assoc. apply in_or_app. left. exact G.
      - right. destruct (H G1 G2) as [S' L]. split; [exact S'|]. nia. }
    unfold sv_handle_event.
    destruct (so_state (sv_obj_get s (rq_uid ev))) eqn:E.
    - (* pending *)
      destruct (rq_frag ev =? 0) eqn:Ek; [|(cbn [fst snd]; apply Drop; [apply no_ev|intros HS _; split; [exact HS|lia]])].
      destruct (0 <? rq_count ev) eqn:Ec; cbn [fst snd].
      + apply Drop; [cbn [acc_send ac_events]; apply no_ev|]. intros HS Hu.
        assert (Hr : rq_uid ev < len (sv_objs s)) by (unfold uid_in in Hu; lia).
        destruct (push_event_SI s (mkRq (rq_uid ev) 0 (now + SERVER_HANDSHAKE_RESEND_INTERVAL_MS) (rq_count ev - 1)) HS Hr) as [S' R'].
        split; [exact S'|]. rewrite acc_send_out, R'.
        pose proof (proj2 (sv_obj_fine s (rq_uid ev) HS)) as Hl. rewrite E in Hl.
        unfold wt. cbn [rq_uid rq_frag rq_count]. rewrite E. rewrite Ek. change (0 =? 0) with true.
        rewrite !andb_true_r. destruct (so_addr (sv_obj_get s (rq_uid ev)) =? A); lia.
      + apply Drop; [destruct (svc_enable_errors _); [cbn [acc_event ac_events]; eexists; reflexivity|apply no_ev]|].
        intros HS _. destruct (set_obj_SI s (rq_uid ev) SvFin HS I (fun _ => I)) as [S' R'].
        destruct (remove_addr_SI (sv_set_obj s (rq_uid ev) SvFin) (so_addr (sv_obj_get s (rq_uid ev))) S') as [S2 R2].
        split; [exact S2|]. rewrite R2. destruct (svc_enable_errors _); cbn [acc_event ac_sends]; lia.
    - (cbn [fst snd]; apply Drop; [apply no_ev|intros HS _; split; [exact HS|lia]]).
    - (* closing *)
      destruct (rq_frag ev =? 1); [|(cbn [fst snd]; apply Drop; [apply no_ev|intros HS _; split; [exact HS|lia]])].
      destruct (0 <? rq_count ev); cbn [fst snd].
      + apply Drop; [cbn [acc_send ac_events]; apply no_ev|]. intros HS Hu.
        assert (Hr : rq_uid ev < len (sv_objs s)) by (unfold uid_in in Hu; lia).
        destruct (push_event_SI s (mkRq (rq_uid ev) 1 (now + SERVER_DISCONNECT_RESEND_INTERVAL_MS) (rq_count ev - 1)) HS Hr) as [S' R'].
        split; [exact S'|]. rewrite acc_send_out, R'.
        rewrite eqb_ne by (apply verified_not_A; [exact HS|rewrite E; exact (fun x => x)]).
        rewrite (wt_non_pending s (mkRq _ _ _ _)) by (cbn [rq_uid]; rewrite E; exact I). lia.
      + apply Drop; [cbn [acc_event ac_events]; eexists; reflexivity|].
        intros HS _. destruct (set_obj_SI s (rq_uid ev) SvFin HS I (fun _ => I)) as [S' R'].
        destruct (remove_addr_SI (sv_set_obj s (rq_uid ev) SvFin) (so_addr (sv_obj_get s (rq_uid ev))) S') as [S2 R2].
        split; [exact S2|]. rewrite R2. cbn [acc_event ac_sends]. lia.
    - (* closed *)
      destruct (rq_frag ev =? 2); cbn [fst snd]; [|(cbn [fst snd]; apply Drop; [apply no_ev|intros HS _; split; [exact HS|lia]])].
      apply Drop; [apply no_ev|]. intros HS _. destruct (set_obj_SI s (rq_uid ev) SvFin HS I (fun _ => I)) as [S' R'].
      destruct (remove_addr_SI (sv_set_obj s (rq_uid ev) SvFin) (so_addr (sv_obj_get s (rq_uid ev))) S') as [S2 R2].
      split; [exact S2|]. rewrite R2. lia.
    - (cbn [fst snd]; apply Drop; [apply no_ev|intros HS _; split; [exact HS|lia]]).
  Qed.

  Lemma sv_pop_events_good E0 O0 now : forall fuel s a inb r,
    sv_pop_events fuel s a now = Ok r -> Good E0 O0 s a inb -> Good E0 O0 (fst r) (snd r) inb.
  Proof.
    induction fuel as [|fuel IH]; intros s a inb r Er G; cbn [sv_pop_events] in Er; [discriminate|].
    destruct (heap_peek (sv_events s)) as [ev|]; [|inversion Er; subst; exact G].
    destruct (now <? rq_time ev); [inversion Er; subst; exact G|].
    destruct (heap_pop (sv_events s)) as [[ev' rest]|] eqn:Ep; [|discriminate].
    set (s1 := mkServer (sv_cfg s) (sv_objs s) (sv_clients s) (sv_active s) rest (sv_t0 s) (sv_seed s)) in *.
    pose proof (sv_handle_event_good E0 O0 s1 a ev' now inb) as He.
    destruct (sv_handle_event s1 a ev' now) as [s2 a2]. cbn [fst snd] in He.
    eapply IH; [exact Er|]. apply He.
    destruct G as [G|[G1 G2]]; [left; exact G|]. right.
    destruct (pop_SI s ev' rest G1 Ep) as (S1 & R1 & U1). fold s1 in S1, R1. split; [exact S1|]. split; [exact U1|].
    change (wt s1) with (wt s). rewrite R1. exact G2.
  Qed.

  (* ----- established connections ----- *)
  Lemma sv_active_timeouts_good E0 O0 now : forall ids s a inb,
    Good E0 O0 s a inb -> Good E0 O0 (fst (sv_active_timeouts ids s a now)) (snd (sv_active_timeouts ids s a now)) inb.
  Proof.
    induction ids as [|id rest IH]; intros s a inb G; cbn [sv_active_timeouts]; [exact G|].
    destruct (so_state (sv_obj_get s id)) eqn:E; try (apply IH; exact G).
    destruct (timeout_time <=? now); [|apply IH; exact G].
    destruct (hc_receive h) as [h' pkts]. apply IH.
    revert G. apply (Good_step E0 O0 s a inb _ _ inb 0); [cbn [acc_event acc_events ac_events]; rewrite <- app_assoc; eexists; reflexivity|].
    intros HS. destruct (set_obj_SI s id SvFin HS I (fun _ => I)) as [S' R'].
    destruct (remove_addr_SI (sv_set_obj s id SvFin) (so_addr (sv_obj_get s id)) S') as [S2 R2].
    split; [exact S2|]. split; [cbn [acc_event acc_events ac_sends]; lia|]. split; [lia|]. rewrite R2. lia.
  Qed.

  Lemma fold_send_out addr : forall out a, outb (ac_sends (fold_left (fun acc fr => acc_send acc addr fr) out a)) =
    outb (ac_sends a) + (if addr =? A then fold_right (fun fr acc => len fr + acc) 0 out else 0).
  Proof.
    induction out as [|fr t IH]; intros a; cbn [fold_left fold_right]; [destruct (addr =? A); lia|].
    rewrite IH, acc_send_out. destruct (addr =? A); lia.
  Qed.

  Lemma fold_send_events addr : forall out a, ac_events (fold_left (fun acc fr => acc_send acc addr fr) out a) = ac_events a.
  Proof. induction out as [|fr t IH]; intros a; cbn [fold_left]; [reflexivity|]. rewrite IH. reflexivity. Qed.

  Lemma sv_flush_active_good E0 O0 : forall ids s a inb r,
    sv_flush_active ids s a = Ok r -> Good E0 O0 s a inb -> Good E0 O0 (fst r) (snd r) inb.
  Proof.
    induction ids as [|id rest IH]; intros s a inb r Er G; cbn [sv_flush_active] in Er; [inversion Er; subst; exact G|].
    destruct (so_state (sv_obj_get s id)) eqn:E; try (eapply IH; eassumption).
    destruct (hc_flush h) as [[h' out]| |]; cbn [bind fst snd] in Er; try discriminate.
    eapply IH; [exact Er|]. revert G. apply set_obj_neutral; [exact I| | |].
    - intros HS Ea. exfalso. apply (verified_not_A s id HS); [rewrite E; exact (fun x => x)|exact Ea].
    - rewrite fold_send_events. apply no_ev.
    - intros HS. rewrite fold_send_out, (active_addr s id _ _ _ _ HS E). lia.
  Qed.

  Lemma sv_step_active_good E0 O0 now vnow : forall ids s a inb r,
    sv_step_active ids s a now vnow = Ok r -> Good E0 O0 s a inb -> Good E0 O0 (fst r) (snd r) inb.
  Proof.
    induction ids as [|id rest IH]; intros s a inb r Er G; cbn [sv_step_active] in Er; [inversion Er; subst; exact G|].
    destruct (so_state (sv_obj_get s id)) eqn:E; try (eapply IH; eassumption).
    match type of Er with (if ?x then _ else _) = _ => destruct x end.
    - destruct (hc_receive h) as [h' pkts]. eapply IH; [exact Er|].
      apply push_neutral.
      { intros HS. cbn [rq_uid]. split.
        - unfold sv_set_obj, len. cbn [sv_objs]. rewrite upd_length. apply obj_in_range. rewrite E. discriminate.
        - apply wt_non_pending. cbn [rq_uid]. rewrite obj_get_set_same by (apply obj_in_range; rewrite E; discriminate). exact I. }
      revert G. apply set_obj_neutral; [exact I| | |].
      + intros HS Ea. exfalso. apply (verified_not_A s id HS); [rewrite E; exact (fun x => x)|exact Ea].
      + cbn [acc_send acc_events ac_events]. eexists. reflexivity.
      + intros HS. rewrite acc_send_out. cbn [acc_events ac_sends]. rewrite (active_addr s id _ _ _ _ HS E). lia.
    - destruct (hc_step h (vnow - t0)) as [h1| |]; cbn [bind] in Er; try discriminate.
      destruct (hc_receive h1) as [h2 pkts]. eapply IH; [exact Er|].
      revert G. apply set_obj_neutral; [exact I| | |].
      + intros HS Ea. exfalso. apply (verified_not_A s id HS); [rewrite E; exact (fun x => x)|exact Ea].
      + cbn [acc_events ac_events]. eexists. reflexivity.
      + intros HS. reflexivity.
  Qed.

  (* ----- one step of the server ----- *)
  Lemma Good_ext E0 O0 s a inb s' :
    sv_objs s' = sv_objs s -> sv_events s' = sv_events s -> sv_clients s' = sv_clients s -> Good E0 O0 s a inb -> Good E0 O0 s' a inb.
  Proof.
    intros E1 E2 E3 [G|[G1 G2]]; [left; exact G|]. right. split; [eapply SI_ext; eassumption|]. rewrite (R_ext s s') by assumption. exact G2.
  Qed.

  Theorem server_step_good E0 O0 s vnow inbox nonces inb s' evs sends rest :
    server_step s vnow inbox nonces = Ok (s', evs, sends, rest) ->
    Good E0 O0 s (mkAcc [] [] nonces) inb ->
    Good E0 O0 s' (mkAcc evs sends rest) (inb + inb_of inbox).
  Proof.
    unfold server_step. intros E G.
    destruct (sv_flush_active (sv_active s) s (mkAcc [] [] nonces)) as [[s1 a1]| |] eqn:E1; cbn [bind fst snd] in E; try discriminate.
    pose proof (sv_flush_active_good E0 O0 _ _ _ inb _ E1 G) as G1. cbn [fst snd] in G1.
    destruct (sv_handle_frames inbox s1 a1 (vnow - sv_t0 s) vnow) as [[s2 a2]| |] eqn:E2; cbn [bind fst snd] in E; try discriminate.
    pose proof (sv_handle_frames_good E0 O0 _ _ _ _ _ _ _ E2 G1) as G2. cbn [fst snd] in G2.
    destruct (sv_pop_events _ s2 a2 (vnow - sv_t0 s)) as [[s3 a3]| |] eqn:E3; cbn [bind fst snd] in E; try discriminate.
    pose proof (sv_pop_events_good E0 O0 _ _ _ _ _ _ E3 G2) as G3. cbn [fst snd] in G3.
    pose proof (sv_active_timeouts_good E0 O0 (vnow - sv_t0 s) (sv_active s3) s3 a3 _ G3) as G4.
    destruct (sv_active_timeouts (sv_active s3) s3 a3 (vnow - sv_t0 s)) as [s4 a4]. cbn [fst snd] in G4.
    match type of E with (do r6 <- sv_step_active ?ids ?s5 a4 ?n ?v; _) = _ =>
      destruct (sv_step_active ids s5 a4 n v) as [[s6 a6]| |] eqn:E6; cbn [bind fst snd] in E; try discriminate;
      pose proof (sv_step_active_good E0 O0 n v ids s5 a4 _ _ E6 (Good_ext E0 O0 s4 a4 _ s5 eq_refl eq_refl eq_refl G4)) as G6 end.
    cbn [fst snd] in G6. inversion E; subst. destruct a6. exact G6.
  Qed.

  (* ----- application calls ----- *)
  Lemma server_flush_good E0 O0 s inb s' sends :
    server_flush s = Ok (s', sends) -> Good E0 O0 s (mkAcc [] [] []) inb -> Good E0 O0 s' (mkAcc [] sends []) inb.
  Proof.
    unfold server_flush. intros E G.
    destruct (sv_flush_active (sv_active s) s (mkAcc [] [] [])) as [[s1 a1]| |] eqn:E1; cbn [bind fst snd] in E; try discriminate.
    pose proof (sv_flush_active_good E0 O0 _ _ _ inb _ E1 G) as G1. cbn [fst snd] in G1. inversion E; subst.
    destruct G1 as [G1|G1]; [left|right; exact G1].
    (* a flush reports no events *)
    assert (Ev : forall ids s0 a0 r, sv_flush_active ids s0 a0 = Ok r -> ac_events (snd r) = ac_events a0).
    { induction ids as [|id rest IH]; intros s0 a0 r Er; cbn [sv_flush_active] in Er; [inversion Er; reflexivity|].
      destruct (so_state (sv_obj_get s0 id)); try (eapply IH; eassumption).
      destruct (hc_flush h) as [[h' out]| |]; cbn [bind fst snd] in Er; try discriminate.
      rewrite (IH _ _ _ Er). apply fold_send_events. }
    pose proof (Ev _ _ _ _ E1) as X. cbn [snd ac_events] in X. rewrite X in G1. exact G1.
  Qed.

  Lemma server_drop_good E0 O0 s a inb addr : Good E0 O0 s a inb -> Good E0 O0 (server_drop s addr) a inb.
  Proof.
    unfold server_drop. destruct (sv_lookup s addr) as [id|]; [|auto].
    apply (Good_step E0 O0 s a inb _ a inb 0 (no_ev a)). intros HS.
    destruct (set_obj_SI s id SvFin HS I (fun _ => I)) as [S' R'].
    destruct (remove_addr_SI (sv_set_obj s id SvFin) addr S') as [S2 R2].
    split; [exact S2|]. split; [lia|]. split; [lia|]. rewrite R2. lia.
  Qed.

  Lemma server_client_send_good E0 O0 s a inb addr d ch m : Good E0 O0 s a inb -> Good E0 O0 (server_client_send s addr d ch m) a inb.
  Proof.
    unfold server_client_send. destruct (sv_lookup s addr) as [id|]; [|auto].
    destruct (so_state (sv_obj_get s id)) eqn:E; auto.
    apply set_obj_neutral; [exact I| |apply no_ev|reflexivity].
    intros HS Ea. exfalso. apply (verified_not_A s id HS); [rewrite E; exact (fun x => x)|exact Ea].
  Qed.

  Lemma server_client_disconnect_good E0 O0 s a inb addr now : Good E0 O0 s a inb -> Good E0 O0 (server_client_disconnect s addr now) a inb.
  Proof.
    unfold server_client_disconnect. destruct (sv_lookup s addr) as [id|]; [|auto].
    destruct (so_state (sv_obj_get s id)) eqn:E; auto.
    apply set_obj_neutral; [exact I| |apply no_ev|reflexivity].
    intros HS Ea. exfalso. apply (verified_not_A s id HS); [rewrite E; exact (fun x => x)|exact Ea].
  Qed.

  (* ----- whole histories ----- *)
  Definition sv_trace := (server * list ep_event * list (N * list N))%type.

  Definition sv_run_op (st : sv_trace) (o : sv_op) : sv_trace :=
    let '(s, E, Ou) := st in
    match o with
    | SvStep vnow inbox nonces =>
        match server_step s vnow inbox nonces with Ok (s', evs, sends, _) => (s', E ++ evs, Ou ++ sends) | _ => st end
    | SvFlush => match server_flush s with Ok (s', sends) => (s', E, Ou ++ sends) | _ => st end
    | SvDrop addr => (server_drop s addr, E, Ou)
    | SvSend addr d ch m => (server_client_send s addr d ch m, E, Ou)
    | SvDisconnect addr now => (server_client_disconnect s addr now, E, Ou)
    end.

  Definition received (o : sv_op) : N := match o with SvStep _ inbox _ => inb_of inbox | _ => 0 end.
  Definition received_total (ops : list sv_op) : N := fold_right (fun o acc => received o + acc) 0 ops.

  Definition Big (st : sv_trace) (inb : N) : Prop :=
    let '(s, E, Ou) := st in In (EvConnect A) E \/ (SI s /\ 1472 * (outb Ou + 25 * R s) <= 275 * inb).

  Lemma Big_Good s E Ou inb nonces : Big (s, E, Ou) inb <-> Good E (outb Ou) s (mkAcc [] [] nonces) inb.
  Proof.
    unfold Big, Good. cbn [ac_events ac_sends]. rewrite app_nil_r. change (outb []) with 0. rewrite N.add_0_r. reflexivity.
  Qed.

  Lemma sv_run_op_big st o inb : Big st inb -> Big (sv_run_op st o) (inb + received o).
  Proof.
    destruct st as [[s E] Ou]. intros B.
    assert (Mono : forall st' x, Big st' inb -> Big st' (inb + x)).
    { intros [[s' E'] Ou'] x [G|[G1 G2]]; [left; exact G|right; split; [exact G1|lia]]. }
    destruct o as [vnow inbox nonces| |addr|addr d ch m|addr now]; cbn [sv_run_op received].
    - destruct (server_step s vnow inbox nonces) as [[[[s' evs] sends] rest]| |] eqn:Es; try (apply Mono; exact B).
      apply (Big_Good s E Ou inb nonces) in B. pose proof (server_step_good E (outb Ou) _ _ _ _ inb _ _ _ _ Es B) as G.
      unfold Big. unfold Good in G. cbn [ac_events ac_sends] in G. rewrite outb_app. exact G.
    - rewrite N.add_0_r. destruct (server_flush s) as [[s' sends]| |] eqn:Es; try exact B.
      apply (Big_Good s E Ou inb []) in B. pose proof (server_flush_good E (outb Ou) _ inb _ _ Es B) as G.
      unfold Big. unfold Good in G. cbn [ac_events ac_sends] in G. rewrite app_nil_r in G. rewrite outb_app. exact G.
    - rewrite N.add_0_r. apply (Big_Good s E Ou inb []) in B. apply (Big_Good _ E Ou inb []). apply server_drop_good. exact B.
    - rewrite N.add_0_r. apply (Big_Good s E Ou inb []) in B. apply (Big_Good _ E Ou inb []). apply server_client_send_good. exact B.
    - rewrite N.add_0_r. apply (Big_Good s E Ou inb []) in B. apply (Big_Good _ E Ou inb []). apply server_client_disconnect_good. exact B.
  Qed.

  Lemma sv_run_big : forall ops st inb, Big st inb -> Big (fold_left sv_run_op ops st) (inb + received_total ops).
  Proof.
    induction ops as [|o ops IH]; intros st inb B; cbn [fold_left received_total fold_right]; [rewrite N.add_0_r; exact B|].
    fold (received_total ops). replace (inb + (received o + received_total ops)) with (inb + received o + received_total ops) by lia.
    apply IH. apply sv_run_op_big. exact B.
  Qed.

  (* Until the address A has completed a handshake (no Connect event for it), everything the server has sent to
     it — replies, every retransmission, every refusal — is at most 275/1472 of what it has received from it. *)
  Theorem no_amplification cfg t0 seed ops :
    let '(s, E, Ou) := fold_left sv_run_op ops (server_new cfg t0 seed, [], []) in
    ~ In (EvConnect A) E -> 1472 * outb Ou <= 275 * received_total ops.
  Proof.
    pose proof (sv_run_big ops (server_new cfg t0 seed, [], []) 0) as B.
    destruct (fold_left sv_run_op ops (server_new cfg t0 seed, [], [])) as [[s E] Ou].
    intros Hn. destruct B as [B|[_ B]].
    - right. split; [constructor; constructor|]. change (outb []) with 0. unfold R, server_new. cbn. lia.
    - contradiction.
    - rewrite N.add_0_l in B. lia.
  Qed.
End Amp.
