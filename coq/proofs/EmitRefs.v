(* EmitRefs.v — C12 / C04: the bookkeeping that ties "this frame was acknowledged" to "these fragments were
   acknowledged". DataFrameEmitter::push, for every state and every fragment:
   - when it reports success, the frame under construction ends with exactly that fragment's datagram, its datagram
     count went up by one (or a new frame with count 1 was started), and the fragment's reference is recorded in
     that frame if and only if the fragment is to be retransmitted (Persistent / Reliable);
   - when it reports an error (no byte budget, frame window full), the fragment is in no frame: no frame is left
     under construction and the frames handed out so far are at most extended by the frame that was already under
     construction, with its own references. *)
From Coq Require Import ZArith Lia ZifyBool ZifyN ZifyNat.
From UF Require Import Consts Base Frame Codec F64 Feedback Sender Receiver FrameAck Heap FrameQueue SendRate HalfConn.
Local Open Scope N_scope.

Definition refs_of (e : emit_state) : list frag_ref := match es_ip e with Some f => ip_refs f | None => [] end.

Lemma dfe_push_new_spec e dg ref resend e' r :
  dfe_push_new e dg ref resend = (e', r) ->
  match r with
  | None => exists f, es_ip e' = Some f /\ ip_enc f = encode_datagram dg /\ ip_count f = 1 /\
                      ip_refs f = (if resend then [ref] else []) /\ es_out e' = es_out e
  | Some _ => es_ip e' = es_ip e /\ es_out e' = es_out e
  end.
Proof.
  unfold dfe_push_new. destruct (_ <? 0)%Z; [intros E; inversion E; subst; cbn; auto|].
  destruct (negb _); [intros E; inversion E; subst; auto|].
  intros E; inversion E; subst. eexists. cbn [es_ip es_out]. split; [reflexivity|]. cbn. auto.
Qed.

Lemma dfe_finalize_ip e : es_ip (dfe_finalize e) = None.
Proof. unfold dfe_finalize. destruct (es_ip e) eqn:E; [reflexivity|exact E]. Qed.

Theorem dfe_push_records_reference e uid frag resend e' r we :
  sender_lookup (h_snd (es_h e)) uid = Some we ->
  dfe_push e uid frag resend = Ok (e', r) ->
  let dg := pp_datagram (we_packet we) frag in
  let ref := mkFragRef uid frag in
  match r with
  | None =>
      exists f, es_ip e' = Some f /\
        ((exists f0, es_ip e = Some f0 /\ ip_seq f = ip_seq f0 /\ ip_enc f = ip_enc f0 ++ encode_datagram dg /\ ip_count f = ip_count f0 + 1 /\
                     ip_refs f = (if resend then ip_refs f0 ++ [ref] else ip_refs f0) /\ es_out e' = es_out e) \/
         (ip_enc f = encode_datagram dg /\ ip_count f = 1 /\ ip_refs f = (if resend then [ref] else []) /\
          es_out e' = es_out (dfe_finalize e)))
  | Some _ => es_ip e' = None /\ es_out e' = es_out (dfe_finalize e)
  end.
Proof.
  intros Hl E. unfold dfe_push in E. rewrite Hl in E. cbv zeta.
  destruct (es_ip e) as [f0|] eqn:Eip.
  - destruct (_ <? 0)%Z.
    + inversion E; subst. cbn [mark_rate_limited es_ip es_out]. split; [apply dfe_finalize_ip|reflexivity].
    + destruct (_ || _).
      * destruct (dfe_push_new (dfe_finalize e) _ _ resend) as [e1 r1] eqn:En. inversion E; subst.
        pose proof (dfe_push_new_spec _ _ _ _ _ _ En) as S. destruct r as [err|].
        -- destruct S as (S1 & S2). rewrite S1, S2. split; [apply dfe_finalize_ip|reflexivity].
        -- destruct S as (f & S1 & S2 & S3 & S4 & S5). exists f. split; [exact S1|]. right. auto.
      * inversion E; subst. eexists. cbn [es_ip es_out]. split; [reflexivity|]. left. exists f0. cbn. auto 10.
  - destruct (dfe_push_new e _ _ resend) as [e1 r1] eqn:En. inversion E; subst.
    pose proof (dfe_push_new_spec _ _ _ _ _ _ En) as S.
    assert (Hf : dfe_finalize e = e) by (unfold dfe_finalize; rewrite Eip; reflexivity). rewrite Hf.
    destruct r as [err|].
    + destruct S as (S1 & S2). rewrite S1, S2. auto.
    + destruct S as (f & S1 & S2 & S3 & S4 & S5). exists f. split; [exact S1|]. right. auto.
Qed.

(* what finalize hands to the frame log: exactly the references recorded for the frame under construction *)
Theorem dfe_finalize_logs_recorded_refs e f :
  es_ip e = Some f ->
  h_fq (es_h (dfe_finalize e)) =
    fq_push (h_fq (es_h e)) (len (build_data_frame (ip_seq f) (ip_nonce f) (ip_enc f) (ip_count f))) (h_now (es_h e)) (ip_refs f) (ip_nonce f) /\
  es_out (dfe_finalize e) = es_out e ++ [build_data_frame (ip_seq f) (ip_nonce f) (ip_enc f) (ip_count f)].
Proof. intros E. unfold dfe_finalize. rewrite E. cbn. auto. Qed.
