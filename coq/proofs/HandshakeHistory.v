(* HandshakeHistory.v — C07 over whole histories. Client: a Connect event is reported only in a step whose
   datagrams include a SYN+ACK echoing the nonce the client chose at connect(). Server: a Connect event for an
   address is reported only in a step whose datagrams include, from that address, an ACK carrying a nonce that the
   server has sent to that address in a SYN+ACK before. *)
From Coq Require Import ZArith Lia ZifyBool ZifyN ZifyNat.
From UF Require Import Consts Base Frame Codec F64 Feedback Sender Receiver FrameAck Heap FrameQueue SendRate HalfConn Endpoint
                       BaseLemmas CodecRoundtrip EndpointProofs EndpointTotal ServerGrammar.
Local Open Scope N_scope.

(* ====================================================================== client *)
Section ClientSide.
  Variable nonce : N.

  Definition cl_nonce_ok (c : client) : Prop :=
    match cl_state_ c with ClPending ln _ _ _ _ => ln = nonce | _ => True end.

  Definition has_syn_ack (inbox : list (list N)) : Prop :=
    exists bs n mrr mps mra, In bs inbox /\ read_frame bs = Ok (Some (FSynAck nonce n mrr mps mra)).

  Definition no_connect (evs : list ep_event) : Prop := ~ In (EvConnect 0) evs.

  Lemma cl_handle_frame_connect c a f now vnow c' a' :
    cl_nonce_ok c -> cl_handle_frame c a f now vnow = Ok (c', a') ->
    cl_nonce_ok c' /\ (exists ev, ca_events a' = ca_events a ++ ev /\
                                  (In (EvConnect 0) ev -> exists n mrr mps mra, f = FSynAck nonce n mrr mps mra)).
  Proof.
    intros Hn E. unfold cl_nonce_ok in *.
    destruct f as [v n x y z|na n mrr mps mra|na|na e| | |seq nn dgs|nf np|fb pb acks]; cbn [cl_handle_frame] in E.
    all: try (inversion E; subst; split; [exact Hn|exists []; rewrite app_nil_r; split; [reflexivity|intros []]]).
    - (* SYN+ACK *)
      inversion E as [E']. clear E. unfold cl_handle_syn_ack in E'. destruct (cl_state_ c) eqn:Es.
      + destruct (N.eqb_spec na local_nonce) as [Ena|].
        * inversion E'; subst c' a'. cbn [cl_set cl_state_]. split; [exact I|].
          exists [EvConnect 0]. split; [reflexivity|]. intros _. subst. eauto.
        * inversion E'; subst c' a'. rewrite Es. split; [exact Hn|exists []; rewrite app_nil_r; split; [reflexivity|intros []]].
      + destruct (_ && _); inversion E'; subst; cbn [cl_set cl_state_]; try rewrite Es; (split; [exact I|]);
          exists []; cbn [ca_send ca_events]; rewrite app_nil_r; (split; [reflexivity|intros []]).
      + inversion E'; subst. rewrite Es. split; [exact I|exists []; rewrite app_nil_r; split; [reflexivity|intros []]].
      + inversion E'; subst. rewrite Es. split; [exact I|exists []; rewrite app_nil_r; split; [reflexivity|intros []]].
      + inversion E'; subst. rewrite Es. split; [exact I|exists []; rewrite app_nil_r; split; [reflexivity|intros []]].
    - inversion E as [E']. clear E. unfold cl_handle_error in E'. destruct (cl_state_ c) eqn:Es;
        try (inversion E'; subst c' a'; rewrite Es; split; [exact Hn|exists []; rewrite app_nil_r; split; [reflexivity|intros []]]).
      destruct (na =? local_nonce); inversion E'; subst c' a'; cbn [cl_set cl_state_]; try rewrite Es.
      + split; [exact I|]. eexists. split; [reflexivity|]. intros [H|[]]. discriminate H.
      + split; [exact Hn|exists []; rewrite app_nil_r; split; [reflexivity|intros []]].
    - inversion E as [E']. clear E. unfold cl_handle_disconnect in E'. destruct (cl_state_ c) eqn:Es.
      + inversion E'; subst c' a'. rewrite Es. split; [exact Hn|exists []; rewrite app_nil_r; split; [reflexivity|intros []]].
      + destruct (hc_receive h) as [h' pkts]. inversion E'; subst. cbn [cl_set cl_state_]. split; [exact I|].
        eexists. cbn [ca_event ca_receives ca_send ca_events]. rewrite <- app_assoc. split; [reflexivity|].
        intros Hin. apply in_app_or in Hin as [Hin|[Hin|[]]]; [|discriminate Hin]. apply in_map_iff in Hin as [x [Hx _]]. discriminate Hx.
      + inversion E'; subst. cbn [cl_set cl_state_]. split; [exact I|]. eexists. cbn [ca_event ca_send ca_events]. split; [reflexivity|].
        intros [H|[]]. discriminate H.
      + inversion E'; subst. rewrite Es. split; [exact I|exists []; cbn [ca_send ca_events]; rewrite app_nil_r; split; [reflexivity|intros []]].
      + inversion E'; subst. rewrite Es. split; [exact I|exists []; rewrite app_nil_r; split; [reflexivity|intros []]].
    - destruct (cl_state_ c) eqn:Es; inversion E; subst c' a'; cbn [cl_set cl_state_]; try rewrite Es;
        try (split; [exact Hn|exists []; rewrite app_nil_r; split; [reflexivity|intros []]]).
      split; [exact I|]. eexists. cbn [ca_event ca_events]. split; [reflexivity|]. intros [H|[]]. discriminate H.
    - destruct (cl_state_ c) eqn:Es; try (inversion E; subst c' a'; rewrite Es; split; [exact Hn|exists []; rewrite app_nil_r; split; [reflexivity|intros []]]).
      destruct (hc_handle_frame h _) as [[h' k]| |]; cbn [bind fst] in E; try discriminate. inversion E; subst. cbn [cl_set cl_state_].
      split; [exact I|exists []; rewrite app_nil_r; split; [reflexivity|intros []]].
    - destruct (cl_state_ c) eqn:Es; try (inversion E; subst c' a'; rewrite Es; split; [exact Hn|exists []; rewrite app_nil_r; split; [reflexivity|intros []]]).
      destruct (hc_handle_frame h _) as [[h' k]| |]; cbn [bind fst] in E; try discriminate. inversion E; subst. cbn [cl_set cl_state_].
      split; [exact I|exists []; rewrite app_nil_r; split; [reflexivity|intros []]].
    - destruct (cl_state_ c) eqn:Es; try (inversion E; subst c' a'; rewrite Es; split; [exact Hn|exists []; rewrite app_nil_r; split; [reflexivity|intros []]]).
      destruct (hc_handle_frame h _) as [[h' k]| |]; cbn [bind fst] in E; try discriminate. inversion E; subst. cbn [cl_set cl_state_].
      split; [exact I|exists []; rewrite app_nil_r; split; [reflexivity|intros []]].
  Qed.

  Lemma cl_handle_frames_connect now vnow : forall inbox c a c' a',
    cl_nonce_ok c -> cl_handle_frames inbox c a now vnow = Ok (c', a') ->
    cl_nonce_ok c' /\ exists ev, ca_events a' = ca_events a ++ ev /\ (In (EvConnect 0) ev -> has_syn_ack inbox).
  Proof.
    induction inbox as [|bs rest IH]; intros c a c' a' Hn E; cbn [cl_handle_frames] in E.
    - inversion E; subst. split; [exact Hn|exists []; rewrite app_nil_r; split; [reflexivity|intros []]].
    - destruct (read_frame bs) as [[f|]| |] eqn:Ef; cbn [bind] in E; try discriminate.
      + destruct (cl_handle_frame c a f now vnow) as [[c1 a1]| |] eqn:E1; cbn [bind fst snd] in E; try discriminate.
        destruct (cl_handle_frame_connect _ _ _ _ _ _ _ Hn E1) as [Hn1 [ev1 [Ev1 C1]]].
        destruct (IH _ _ _ _ Hn1 E) as [Hn2 [ev2 [Ev2 C2]]]. split; [exact Hn2|].
        exists (ev1 ++ ev2). split; [rewrite Ev2, Ev1, app_assoc; reflexivity|].
        intros Hin. apply in_app_or in Hin as [Hin|Hin].
        * destruct (C1 Hin) as (n & mrr & mps & mra & ->). exists bs, n, mrr, mps, mra. split; [left; reflexivity|exact Ef].
        * destruct (C2 Hin) as (b & n & mrr & mps & mra & Hb & Hr). exists b, n, mrr, mps, mra. split; [right; exact Hb|exact Hr].
      + destruct (IH _ _ _ _ Hn E) as [Hn2 [ev2 [Ev2 C2]]]. split; [exact Hn2|]. exists ev2. split; [exact Ev2|].
        intros Hin. destruct (C2 Hin) as (b & n & mrr & mps & mra & Hb & Hr). exists b, n, mrr, mps, mra. split; [right; exact Hb|exact Hr].
  Qed.

  Theorem client_step_connect c vnow inbox c' evs sends :
    cl_nonce_ok c -> client_step c vnow inbox = Ok (c', evs, sends) ->
    cl_nonce_ok c' /\ (In (EvConnect 0) evs -> has_syn_ack inbox).
  Proof.
    intros Hn E. unfold client_step in E.
    destruct (cl_flush_if_active c (mkClAcc [] [])) as [[c1 a1]| |] eqn:E1; cbn [bind fst snd] in E; try discriminate.
    assert (F1 : cl_nonce_ok c1 /\ ca_events a1 = []).
    { unfold cl_flush_if_active in E1. unfold cl_nonce_ok in *. destruct (cl_state_ c) eqn:Es; try (inversion E1; subst c1 a1; rewrite Es; split; [exact Hn|reflexivity]).
      match type of E1 with context [hc_flush ?x] => destruct (hc_flush x) as [[h' out]| |] end; cbn [bind fst snd] in E1; try discriminate. inversion E1; subst. cbn [cl_set cl_state_]. split; [exact I|].
      assert (G : forall l a0, ca_events (fold_left ca_send l a0) = ca_events a0).
      { clear. induction l as [|x t IHo]; intros a0; cbn [fold_left]; [reflexivity|]. rewrite IHo. reflexivity. }
      rewrite G. reflexivity. }
    destruct F1 as [Hn1 Ev1].
    destruct (cl_handle_frames inbox c1 a1 (vnow - cl_t0 c) vnow) as [[c2 a2]| |] eqn:E2; cbn [bind fst snd] in E; try discriminate.
    destruct (cl_handle_frames_connect _ _ _ _ _ _ _ Hn1 E2) as [Hn2 [ev2 [Ev2 C2]]]. rewrite Ev1 in Ev2. cbn [app] in Ev2.
    assert (F3 : cl_nonce_ok (fst (cl_handle_events c2 a2 (vnow - cl_t0 c))) /\
                 exists ev3, ca_events (snd (cl_handle_events c2 a2 (vnow - cl_t0 c))) = ca_events a2 ++ ev3 /\ ~ In (EvConnect 0) ev3).
    { unfold cl_handle_events, cl_nonce_ok in *. destruct (cl_state_ c2) eqn:Es.
      - destruct (_ <=? _); [destruct (0 <? _)|]; cbn [fst snd cl_set cl_state_ ca_send ca_event ca_events]; try rewrite Es;
          (split; [first [exact Hn2|exact I]|]); first [exists []; rewrite app_nil_r; split; [reflexivity|intros []]|
          (eexists; split; [reflexivity|intros [H|[]]; discriminate H])].
      - destruct (_ <=? _); cbn [fst snd cl_set cl_state_ ca_event ca_events]; try rewrite Es; (split; [exact I|]);
          first [exists []; rewrite app_nil_r; split; [reflexivity|intros []]|(eexists; split; [reflexivity|intros [H|[]]; discriminate H])].
      - destruct (_ <=? _); [destruct (0 <? _)|]; cbn [fst snd cl_set cl_state_ ca_send ca_event ca_events]; try rewrite Es; (split; [exact I|]);
          first [exists []; rewrite app_nil_r; split; [reflexivity|intros []]|(eexists; split; [reflexivity|intros [H|[]]; discriminate H])].
      - destruct (_ <=? _); cbn [fst snd cl_set cl_state_]; try rewrite Es; (split; [exact I|]); exists []; rewrite app_nil_r; split; [reflexivity|intros []|reflexivity|intros []].
      - cbn [fst snd]. rewrite Es. split; [exact I|]. exists []. rewrite app_nil_r. split; [reflexivity|intros []]. }
    destruct (cl_handle_events c2 a2 (vnow - cl_t0 c)) as [c3 a3]. cbn [fst snd] in F3. destruct F3 as [Hn3 [ev3 [Ev3 C3]]].
    destruct (cl_step_if_active c3 a3 (vnow - cl_t0 c) vnow) as [[c4 a4]| |] eqn:E4; cbn [bind fst snd] in E; try discriminate.
    assert (F4 : cl_nonce_ok c4 /\ exists ev4, ca_events a4 = ca_events a3 ++ ev4 /\ ~ In (EvConnect 0) ev4).
    { unfold cl_step_if_active, cl_nonce_ok in *. destruct (cl_state_ c3) eqn:Es; try (inversion E4; subst c4 a4; rewrite Es; split; [first [exact Hn3|exact I]|exists []; rewrite app_nil_r; split; [reflexivity|intros []]]).
      match type of E4 with (if ?x then _ else _) = _ => destruct x end.
      - match type of E4 with context [hc_receive ?x] => destruct (hc_receive x) as [h' pkts] end. inversion E4; subst. cbn [cl_set cl_state_]. split; [exact I|].
        eexists. cbn [ca_send ca_receives ca_events]. split; [reflexivity|]. intros Hin. apply in_map_iff in Hin as [x [Hx _]]. discriminate Hx.
      - match type of E4 with context [hc_step ?x ?y] => destruct (hc_step x y) as [h1| |] end; cbn [bind] in E4; try discriminate. destruct (hc_receive h1) as [h2 pkts]. inversion E4; subst.
        cbn [cl_set cl_state_]. split; [exact I|]. eexists. cbn [ca_receives ca_events]. split; [reflexivity|].
        intros Hin. apply in_map_iff in Hin as [x [Hx _]]. discriminate Hx. }
    destruct F4 as [Hn4 [ev4 [Ev4 C4]]]. inversion E; subst c' evs sends. split; [exact Hn4|].
    rewrite Ev4, Ev3, Ev2. intros Hin. apply in_app_or in Hin as [Hin|Hin]; [|contradiction].
    apply in_app_or in Hin as [Hin|Hin]; [|contradiction]. exact (C2 Hin).
  Qed.
End ClientSide.

(* every history of a client: Connect only in a step that brought a SYN+ACK echoing the client's nonce *)
Theorem client_connect_history ec nonce t0 seed ops vnow inbox c' evs sends :
  client_step (fold_left cl_apply ops (fst (client_connect ec nonce t0 seed))) vnow inbox = Ok (c', evs, sends) ->
  In (EvConnect 0) evs -> has_syn_ack nonce inbox.
Proof.
  assert (G : forall c, cl_nonce_ok nonce c -> cl_nonce_ok nonce (fold_left cl_apply ops c)).
  { induction ops as [|o ops' IH]; intros c H; cbn [fold_left]; [exact H|]. apply IH.
    destruct o as [vn ib| |d ch m|now]; cbn [cl_apply].
    - destruct (client_step c vn ib) as [[[c1 e1] s1]| |] eqn:E1; try exact H. exact (proj1 (client_step_connect nonce _ _ _ _ _ _ H E1)).
    - unfold client_flush. destruct (cl_flush_if_active c _) as [[c1 a1]| |] eqn:E1; cbn [bind fst snd]; try exact H.
      unfold cl_flush_if_active, cl_nonce_ok in *. destruct (cl_state_ c) eqn:Es; try (inversion E1; subst c1 a1; rewrite Es; exact H).
      match type of E1 with context [hc_flush ?x] => destruct (hc_flush x) as [[h' out]| |] end; cbn [bind fst snd] in E1; try discriminate. inversion E1; subst. exact I.
    - unfold client_send, cl_nonce_ok in *. destruct (cl_state_ c) eqn:Es; cbn [cl_set cl_state_]; try rewrite Es; auto.
    - unfold client_disconnect, cl_nonce_ok in *. destruct (cl_state_ c) eqn:Es; cbn [cl_set cl_state_]; try rewrite Es; auto. }
  intros E. assert (H0 : cl_nonce_ok nonce (fst (client_connect ec nonce t0 seed))) by reflexivity.
  apply (client_step_connect nonce _ _ _ _ _ _ (G _ H0) E).
Qed.

(* ====================================================================== server *)
Section ServerSide.
  Variable O0 : list (N * list N).      (* everything sent before the current step *)

  Definition nonce_sent (outs : list (N * list N)) (addr ln : N) : Prop :=
    exists reply rn x y z, In (addr, reply) outs /\ reply = write_handshake_syn_ack rn ln x y z.

  Definition pend_ok (outs : list (N * list N)) (o : sv_obj) : Prop :=
    match so_state o with
    | SvPending ln rn _ _ reply => In (so_addr o, reply) outs /\ exists x y z, reply = write_handshake_syn_ack rn ln x y z
    | _ => True
    end.

  Definition PS (s : server) (a : sv_acc) : Prop := Forall (pend_ok (O0 ++ ac_sends a)) (sv_objs s).

  (* which Connect events a piece of code may add: only those `P` allows *)
  Definition okev (P : N -> Prop) (e : ep_event) : Prop := match e with EvConnect x => P x | _ => True end.

  Definition J (P : N -> Prop) (s : server) (a : sv_acc) (s' : server) (a' : sv_acc) : Prop :=
    PS s a -> PS s' a' /\ exists more ev, ac_sends a' = ac_sends a ++ more /\ ac_events a' = ac_events a ++ ev /\ Forall (okev P) ev.

  Definition never : N -> Prop := fun _ => False.

  Lemma J_refl P s a : J P s a s a.
  Proof. intros H. split; [exact H|]. exists [], []. rewrite !app_nil_r. repeat split. constructor. Qed.

  Lemma okev_mono (P Q : N -> Prop) ev : (forall x, P x -> Q x) -> Forall (okev P) ev -> Forall (okev Q) ev.
  Proof. intros H. apply Forall_impl. intros e. destruct e; cbn [okev]; auto. Qed.

  Lemma J_weaken (P Q : N -> Prop) s a s' a' : (forall x, P x -> Q x) -> J P s a s' a' -> J Q s a s' a'.
  Proof. intros H G Hp. destruct (G Hp) as [Hp' (more & ev & E1 & E2 & F)]. split; [exact Hp'|]. exists more, ev. repeat split; try assumption. eapply okev_mono; eassumption. Qed.

  Lemma J_trans P s1 a1 s2 a2 s3 a3 : J P s1 a1 s2 a2 -> J P s2 a2 s3 a3 -> J P s1 a1 s3 a3.
  Proof.
    intros G1 G2 H. destruct (G1 H) as [H2 (m1 & e1 & S1 & E1 & F1)]. destruct (G2 H2) as [H3 (m2 & e2 & S2 & E2 & F2)].
    split; [exact H3|]. exists (m1 ++ m2), (e1 ++ e2). rewrite S2, S1, E2, E1, !app_assoc. repeat split. apply Forall_app. split; assumption.
  Qed.

  Lemma pend_ok_more outs more o : pend_ok outs o -> pend_ok (outs ++ more) o.
  Proof. unfold pend_ok. destruct (so_state o); auto. intros [H1 H2]. split; [apply in_or_app; left; exact H1|exact H2]. Qed.

  Lemma PS_more s a a' more : ac_sends a' = ac_sends a ++ more -> PS s a -> PS s a'.
  Proof. unfold PS. intros ->. apply Forall_impl. intros o. rewrite app_assoc. apply pend_ok_more. Qed.

  (* only the accumulator changes: sends `more` are appended and events `ev` none of which is a Connect *)
  Lemma J_acc P s a a' more ev :
    ac_sends a' = ac_sends a ++ more -> ac_events a' = ac_events a ++ ev -> Forall (okev never) ev -> J P s a s a'.
  Proof.
    intros S E F H. split; [eapply PS_more; eassumption|]. exists more, ev. repeat split; try assumption. eapply okev_mono; [|exact F]. intros x [].
  Qed.

  Lemma PS_set_obj s a id st : (match st with SvPending _ _ _ _ _ => False | _ => True end) -> PS s a -> PS (sv_set_obj s id st) a.
  Proof.
    intros Hst H. unfold PS, sv_set_obj. cbn [sv_objs]. apply Forall_upd; [exact H|]. unfold pend_ok. cbn [so_state]. destruct st; auto. contradiction.
  Qed.

  Lemma PS_ext s s' a : sv_objs s' = sv_objs s -> PS s a -> PS s' a.
  Proof. unfold PS. intros ->. auto. Qed.

  Lemma J_set_obj P s a id st a' more ev :
    (match st with SvPending _ _ _ _ _ => False | _ => True end) ->
    ac_sends a' = ac_sends a ++ more -> ac_events a' = ac_events a ++ ev -> Forall (okev P) ev ->
    J P s a (sv_set_obj s id st) a'.
  Proof.
    intros Hst S E F H. split; [apply PS_set_obj; [exact Hst|eapply PS_more; eassumption]|]. exists more, ev. repeat split; assumption.
  Qed.

  Lemma J_state P s a s1 a1 s2 : sv_objs s2 = sv_objs s1 -> J P s a s1 a1 -> J P s a s2 a1.
  Proof. intros E G H. destruct (G H) as [H1 R]. split; [eapply PS_ext; eassumption|exact R]. Qed.

  Lemma okev_receives P addr pkts : Forall (okev P) (map (EvReceive addr) pkts).
  Proof. induction pkts; cbn [map]; constructor; [exact I|assumption]. Qed.

  (* ----- frames ----- *)
  Lemma sv_handle_syn_J s a addr v n mrr mps mra now :
    J never s a (fst (sv_handle_syn s a addr v n mrr mps mra now)) (snd (sv_handle_syn s a addr v n mrr mps mra now)).
  Proof.
    unfold sv_handle_syn. destruct (sv_lookup s addr); [apply J_refl|].
    assert (R : forall e k, J never s a (fst (sv_refuse s a addr n e k)) (snd (sv_refuse s a addr n e k))).
    { intros e k. unfold sv_refuse. cbn [fst snd]. destruct (svc_enable_errors _).
      - eapply J_acc; cbn [acc_event acc_send ac_sends ac_events]; [reflexivity|reflexivity|]. constructor; [exact I|constructor].
      - eapply J_acc; cbn [acc_send ac_sends ac_events]; [reflexivity|rewrite app_nil_r; reflexivity|constructor]. }
    destruct (negb _); [apply R|]. destruct (_ || _); [apply R|]. destruct (mra <? _); [apply R|]. destruct (_ <? mps); [apply R|].
    cbn [fst snd]. intros H. split.
    - unfold PS, sv_push_event. cbn [sv_objs acc_send ac_sends]. apply Forall_app. split.
      + eapply Forall_impl; [|exact H]. intros o. rewrite app_assoc. apply pend_ok_more.
      + constructor; [|constructor]. unfold pend_ok. cbn [so_state so_addr]. split; [apply in_or_app; right; apply in_or_app; right; left; reflexivity|eauto].
    - eexists. exists []. cbn [acc_send ac_sends ac_events]. split; [reflexivity|]. split; [rewrite app_nil_r; reflexivity|constructor].
  Qed.

  Lemma sv_handle_ack_J s a addr na now vnow :
    WF s ->
    J (fun x => x = addr /\ nonce_sent (O0 ++ ac_sends a) addr na) s a (fst (sv_handle_ack s a addr na now vnow)) (snd (sv_handle_ack s a addr na now vnow)).
  Proof.
    intros W. unfold sv_handle_ack. destruct (sv_lookup s addr) as [id|] eqn:El; [|apply J_refl].
    destruct (so_state (sv_obj_get s id)) eqn:E; try apply J_refl.
    - destruct (N.eqb_spec na local_nonce) as [Ena|]; cbn [andb]; [|apply J_refl]. destruct (_ <? _); [|apply J_refl]. cbn [fst snd].
      intros H.
      assert (Hobj : pend_ok (O0 ++ ac_sends a) (sv_obj_get s id)).
      { unfold sv_obj_get. destruct (nth_in_or_default (N.to_nat id) (sv_objs s) (mkSvObj 0 SvFin)) as [Hin | Hd].
        - unfold PS in H. rewrite Forall_forall in H. apply H. exact Hin.
        - unfold sv_obj_get in E. rewrite Hd in E. discriminate E. }
      unfold pend_ok in Hobj. rewrite E in Hobj. destruct Hobj as [Hin (x & y & z & Hr)].
      destruct (lookup_addr_wf s addr id W El) as [_ Ea]. rewrite Ea in Hin.
      split.
      + unfold PS. cbn [sv_objs sv_set_obj]. apply Forall_upd; [exact H|]. unfold pend_ok. cbn [so_state]. exact I.
      + exists [], [EvConnect addr]. cbn [acc_event ac_sends ac_events]. rewrite app_nil_r. repeat split.
        constructor; [|constructor]. cbn [okev]. split; [reflexivity|].
        exists reply_bytes, remote_nonce, x, y, z. subst na. split; [exact Hin|exact Hr].
    - cbn [fst snd]. eapply J_set_obj; [exact I|rewrite app_nil_r; reflexivity|rewrite app_nil_r; reflexivity|constructor].
  Qed.

  Lemma sv_handle_disconnect_J s a addr now : J never s a (fst (sv_handle_disconnect s a addr now)) (snd (sv_handle_disconnect s a addr now)).
  Proof.
    unfold sv_handle_disconnect. destruct (sv_lookup s addr) as [id|]; [|apply J_refl].
    destruct (so_state (sv_obj_get s id)) eqn:E; try apply J_refl.
    - destruct (hc_receive h) as [h' pkts]. cbn [fst snd]. eapply J_state; [|eapply J_set_obj with (st := SvClosed)]; [reflexivity|exact I| | |].
      + cbn [acc_event acc_events acc_send ac_sends]. reflexivity.
      + cbn [acc_event acc_events acc_send ac_events]. rewrite <- app_assoc. reflexivity.
      + apply Forall_app. split; [apply okev_receives|constructor; [exact I|constructor]].
    - cbn [fst snd]. eapply J_state; [|eapply J_set_obj with (st := SvClosed)]; [reflexivity|exact I| | |].
      + cbn [acc_event acc_send ac_sends]. reflexivity.
      + cbn [acc_event acc_send ac_events]. reflexivity.
      + constructor; [exact I|constructor].
    - cbn [fst snd]. eapply J_acc; cbn [acc_send ac_sends ac_events]; [reflexivity|rewrite app_nil_r; reflexivity|constructor].
  Qed.

  Lemma sv_handle_disconnect_ack_J s a addr : J never s a (fst (sv_handle_disconnect_ack s a addr)) (snd (sv_handle_disconnect_ack s a addr)).
  Proof.
    unfold sv_handle_disconnect_ack. destruct (sv_lookup s addr) as [id|]; [|apply J_refl].
    destruct (so_state (sv_obj_get s id)) eqn:E; try apply J_refl. cbn [fst snd].
    eapply J_state; [|eapply J_set_obj with (st := SvFin)]; [reflexivity|exact I| | |].
    - cbn [acc_event ac_sends]. rewrite app_nil_r. reflexivity.
    - cbn [acc_event ac_events]. reflexivity.
    - constructor; [exact I|constructor].
  Qed.

  Lemma sv_handle_hc_frame_J s a addr f now r : sv_handle_hc_frame s a addr f now = Ok r -> J never s a (fst r) (snd r).
  Proof.
    unfold sv_handle_hc_frame. intros Er. destruct (sv_lookup s addr) as [id|]; [|inversion Er; subst; apply J_refl].
    destruct (so_state (sv_obj_get s id)) eqn:E; try (inversion Er; subst; apply J_refl).
    destruct (hc_handle_frame h f) as [[h' k]| |]; cbn [bind fst] in Er; try discriminate. inversion Er; subst. cbn [fst snd].
    eapply J_set_obj; [exact I|rewrite app_nil_r; reflexivity|rewrite app_nil_r; reflexivity|constructor].
  Qed.

  (* what justifies a Connect event for address x while handling the datagram (addr, f) *)
  Definition justified (outs : list (N * list N)) (addr : N) (f : frame) (x : N) : Prop :=
    x = addr /\ exists ln, f = FHsAck ln /\ nonce_sent outs addr ln.

  Lemma sv_handle_frame_J s a addr f now vnow r :
    WF s -> sv_handle_frame s a addr f now vnow = Ok r -> J (justified (O0 ++ ac_sends a) addr f) s a (fst r) (snd r).
  Proof.
    intros W Er.
    destruct f as [v n x y z|na n mrr mps mra|na|na e| | |seq nonce dgs|nf np|fb pb acks]; cbn [sv_handle_frame] in Er;
      try (inversion Er; subst; apply J_refl).
    - inversion Er; subst. eapply J_weaken; [|apply sv_handle_syn_J]. intros x0 [].
    - inversion Er; subst. eapply J_weaken; [|apply sv_handle_ack_J; exact W]. intros x0 [-> Hs]. split; [reflexivity|]. exists na. split; [reflexivity|exact Hs].
    - inversion Er; subst. eapply J_weaken; [|apply sv_handle_disconnect_J]. intros x0 [].
    - inversion Er; subst. eapply J_weaken; [|apply sv_handle_disconnect_ack_J]. intros x0 [].
    - eapply J_weaken; [|eapply sv_handle_hc_frame_J; exact Er]. intros x0 [].
    - eapply J_weaken; [|eapply sv_handle_hc_frame_J; exact Er]. intros x0 [].
    - eapply J_weaken; [|eapply sv_handle_hc_frame_J; exact Er]. intros x0 [].
  Qed.

  (* a Connect for x is justified by some datagram of the inbox *)
  Definition inbox_justifies (outs : list (N * list N)) (inbox : list (N * list N)) (x : N) : Prop :=
    exists bs ln, In (x, bs) inbox /\ read_frame bs = Ok (Some (FHsAck ln)) /\ nonce_sent outs x ln.

  Lemma nonce_sent_more outs more addr ln : nonce_sent outs addr ln -> nonce_sent (outs ++ more) addr ln.
  Proof. intros (r & rn & x & y & z & Hin & Hr). exists r, rn, x, y, z. split; [apply in_or_app; left; exact Hin|exact Hr]. Qed.

  Lemma sv_handle_frames_J now vnow outsF : forall inbox s a r,
    WF s -> sv_handle_frames inbox s a now vnow = Ok r ->
    (exists tail, outsF = O0 ++ ac_sends (snd r) ++ tail) ->
    J (inbox_justifies outsF inbox) s a (fst r) (snd r).
  Proof.
    induction inbox as [|[addr bs] rest IH]; intros s a r W Er Hext; cbn [sv_handle_frames] in Er; [inversion Er; subst; apply J_refl|].
    destruct (read_frame bs) as [[f|]| |] eqn:Ef; cbn [bind] in Er; try discriminate.
    - destruct (sv_handle_frame s a addr f now vnow) as [[s1 a1]| |] eqn:E1; cbn [bind fst snd] in Er; try discriminate.
      pose proof (sv_handle_frame_J s a addr f now vnow _ W E1) as G1. cbn [fst snd] in G1.
      assert (W1 : WF s1) by (exact (proj1 (ServerGrammar.sv_handle_frame_good 0 _ _ _ _ _ _ _ E1 W))).
      pose proof (IH s1 a1 r W1 Er Hext) as G2.
      intros H. destruct (G1 H) as [H1 (m1 & e1 & S1 & Ev1 & F1)]. destruct (G2 H1) as [H2 (m2 & e2 & S2 & Ev2 & F2)].
      split; [exact H2|]. exists (m1 ++ m2), (e1 ++ e2).
      split; [rewrite S2, S1, app_assoc; reflexivity|]. split; [rewrite Ev2, Ev1, app_assoc; reflexivity|].
      apply Forall_app. split.
      + eapply okev_mono; [|exact F1]. intros x0 [-> (ln & -> & Hs)]. exists bs, ln. split; [left; reflexivity|]. split; [exact Ef|].
        destruct Hext as [tail Ht].
        assert (Eo : outsF = (O0 ++ ac_sends a) ++ (m1 ++ m2 ++ tail)) by (rewrite Ht, S2, S1, <- !app_assoc; reflexivity).
        rewrite Eo. apply nonce_sent_more. exact Hs.
      + eapply okev_mono; [|exact F2]. intros x0 (b & ln & Hin & Hr & Hs). exists b, ln. split; [right; exact Hin|]. split; [exact Hr|exact Hs].
    - pose proof (IH s a r W Er Hext) as G2. eapply J_weaken; [|exact G2].
      intros x0 (b & ln & Hin & Hr & Hs). exists b, ln. split; [right; exact Hin|]. split; [exact Hr|exact Hs].
  Qed.

  (* ----- the other phases of a step never report a Connect ----- *)
  Lemma sv_handle_event_J s a ev now : J never s a (fst (sv_handle_event s a ev now)) (snd (sv_handle_event s a ev now)).
  Proof.
    unfold sv_handle_event. destruct (so_state (sv_obj_get s (rq_uid ev))) eqn:E; try apply J_refl.
    - destruct (rq_frag ev =? 0); [|apply J_refl]. destruct (0 <? rq_count ev); cbn [fst snd].
      + eapply J_state; [|eapply J_acc]; [reflexivity|cbn [acc_send ac_sends]; reflexivity|cbn [acc_send ac_events]; rewrite app_nil_r; reflexivity|constructor].
      + destruct (svc_enable_errors (sv_cfg s)).
        * eapply J_state; [|eapply J_set_obj with (st := SvFin)]; [reflexivity|exact I|cbn [acc_event ac_sends]; rewrite app_nil_r; reflexivity|cbn [acc_event ac_events]; reflexivity|constructor; [exact I|constructor]].
        * eapply J_state; [|eapply J_set_obj with (st := SvFin)]; [reflexivity|exact I|rewrite app_nil_r; reflexivity|rewrite app_nil_r; reflexivity|constructor].
    - destruct (rq_frag ev =? 1); [|apply J_refl]. destruct (0 <? rq_count ev); cbn [fst snd].
      + eapply J_state; [|eapply J_acc]; [reflexivity|cbn [acc_send ac_sends]; reflexivity|cbn [acc_send ac_events]; rewrite app_nil_r; reflexivity|constructor].
      + eapply J_state; [|eapply J_set_obj with (st := SvFin)]; [reflexivity|exact I|cbn [acc_event ac_sends]; rewrite app_nil_r; reflexivity|cbn [acc_event ac_events]; reflexivity|constructor; [exact I|constructor]].
    - destruct (rq_frag ev =? 2); cbn [fst snd]; [|apply J_refl].
      eapply J_state; [|eapply J_set_obj with (st := SvFin)]; [reflexivity|exact I|rewrite app_nil_r; reflexivity|rewrite app_nil_r; reflexivity|constructor].
  Qed.

  Lemma sv_pop_events_J now : forall fuel s a r, sv_pop_events fuel s a now = Ok r -> J never s a (fst r) (snd r).
  Proof.
    induction fuel as [|fuel IH]; intros s a r Er; cbn [sv_pop_events] in Er; [discriminate|].
    destruct (heap_peek (sv_events s)) as [ev|]; [|inversion Er; subst; apply J_refl].
    destruct (now <? rq_time ev); [inversion Er; subst; apply J_refl|].
    destruct (heap_pop (sv_events s)) as [[ev' rest]|]; [|discriminate].
    set (s1 := mkServer (sv_cfg s) (sv_objs s) (sv_clients s) (sv_active s) rest (sv_t0 s) (sv_seed s)) in *.
    pose proof (sv_handle_event_J s1 a ev' now) as He. destruct (sv_handle_event s1 a ev' now) as [s2 a2]. cbn [fst snd] in He.
    eapply J_trans; [|eapply IH; exact Er]. eapply J_trans; [|exact He]. eapply J_state; [|apply J_refl]. reflexivity.
  Qed.

  Lemma sv_active_timeouts_J now : forall ids s a, J never s a (fst (sv_active_timeouts ids s a now)) (snd (sv_active_timeouts ids s a now)).
  Proof.
    induction ids as [|id rest IH]; intros s a; cbn [sv_active_timeouts]; [apply J_refl|].
    destruct (so_state (sv_obj_get s id)) eqn:E; try apply IH. destruct (timeout_time <=? now); [|apply IH].
    destruct (hc_receive h) as [h' pkts]. eapply J_trans; [|apply IH].
    eapply J_state; [|eapply J_set_obj with (st := SvFin)]; [reflexivity|exact I| | |].
    - cbn [acc_event acc_events ac_sends]. rewrite app_nil_r. reflexivity.
    - cbn [acc_event acc_events ac_events]. rewrite <- app_assoc. reflexivity.
    - apply Forall_app. split; [apply okev_receives|constructor; [exact I|constructor]].
  Qed.

  Lemma fold_send_acc addr : forall out a, exists more, ac_sends (fold_left (fun acc fr => acc_send acc addr fr) out a) = ac_sends a ++ more /\
    ac_events (fold_left (fun acc fr => acc_send acc addr fr) out a) = ac_events a.
  Proof.
    induction out as [|fr t IH]; intros a; cbn [fold_left]; [exists []; rewrite app_nil_r; split; reflexivity|].
    destruct (IH (acc_send a addr fr)) as [m [S E]]. exists ((addr, fr) :: m). rewrite S, E. cbn [acc_send ac_sends ac_events]. rewrite <- app_assoc. split; reflexivity.
  Qed.

  Lemma sv_flush_active_J : forall ids s a r, sv_flush_active ids s a = Ok r -> J never s a (fst r) (snd r).
  Proof.
    induction ids as [|id rest IH]; intros s a r Er; cbn [sv_flush_active] in Er; [inversion Er; subst; apply J_refl|].
    destruct (so_state (sv_obj_get s id)) eqn:E; try (eapply IH; eassumption).
    destruct (hc_flush h) as [[h' out]| |]; cbn [bind fst snd] in Er; try discriminate.
    eapply J_trans; [|eapply IH; exact Er].
    destruct (fold_send_acc (so_addr (sv_obj_get s id)) out a) as [m [S Ev]].
    eapply J_set_obj; [exact I|exact S|rewrite Ev, app_nil_r; reflexivity|constructor].
  Qed.

  Lemma sv_step_active_J now vnow : forall ids s a r, sv_step_active ids s a now vnow = Ok r -> J never s a (fst r) (snd r).
  Proof.
    induction ids as [|id rest IH]; intros s a r Er; cbn [sv_step_active] in Er; [inversion Er; subst; apply J_refl|].
    destruct (so_state (sv_obj_get s id)) eqn:E; try (eapply IH; eassumption).
    match type of Er with (if ?x then _ else _) = _ => destruct x end.
    - destruct (hc_receive h) as [h' pkts]. eapply J_trans; [|eapply IH; exact Er].
      eapply J_state; [|eapply J_set_obj with (st := SvClosing)]; [reflexivity|exact I| | |].
      + cbn [acc_send acc_events ac_sends]. reflexivity.
      + cbn [acc_send acc_events ac_events]. reflexivity.
      + apply okev_receives.
    - destruct (hc_step h (vnow - t0)) as [h1| |]; cbn [bind] in Er; try discriminate.
      destruct (hc_receive h1) as [h2 pkts]. eapply J_trans; [|eapply IH; exact Er].
      eapply J_set_obj; [exact I| | |].
      + cbn [acc_events ac_sends]. rewrite app_nil_r. reflexivity.
      + cbn [acc_events ac_events]. reflexivity.
      + apply okev_receives.
  Qed.

  (* ----- a whole step ----- *)
  Theorem server_step_connects s vnow inbox nonces s' evs sends rest :
    WF s -> PS s (mkAcc [] [] nonces) ->
    server_step s vnow inbox nonces = Ok (s', evs, sends, rest) ->
    PS s' (mkAcc evs sends rest) /\ Forall (okev (inbox_justifies (O0 ++ sends) inbox)) evs.
  Proof.
    unfold server_step. intros W H E.
    destruct (sv_flush_active (sv_active s) s (mkAcc [] [] nonces)) as [[s1 a1]| |] eqn:E1; cbn [bind fst snd] in E; try discriminate.
    pose proof (sv_flush_active_J _ _ _ _ E1) as G1. cbn [fst snd] in G1.
    assert (W1 : WF s1) by (exact (proj1 (ServerGrammar.sv_flush_active_good 0 _ _ _ _ E1 W))).
    destruct (sv_handle_frames inbox s1 a1 (vnow - sv_t0 s) vnow) as [[s2 a2]| |] eqn:E2; cbn [bind fst snd] in E; try discriminate.
    destruct (sv_pop_events _ s2 a2 (vnow - sv_t0 s)) as [[s3 a3]| |] eqn:E3; cbn [bind fst snd] in E; try discriminate.
    pose proof (sv_pop_events_J _ _ _ _ _ E3) as G3. cbn [fst snd] in G3.
    pose proof (sv_active_timeouts_J (vnow - sv_t0 s) (sv_active s3) s3 a3) as G4.
    destruct (sv_active_timeouts (sv_active s3) s3 a3 (vnow - sv_t0 s)) as [s4 a4]. cbn [fst snd] in G4.
    match type of E with (do r6 <- sv_step_active ?ids ?s5 a4 ?n ?v; _) = _ =>
      destruct (sv_step_active ids s5 a4 n v) as [[s6 a6]| |] eqn:E6; cbn [bind fst snd] in E; try discriminate;
      pose proof (sv_step_active_J n v ids s5 a4 _ E6) as G6; set (s5' := s5) in * end.
    cbn [fst snd] in G6. inversion E; subst s' evs sends rest. clear E.
    destruct (G1 H) as [H1 (m1 & e1 & S1 & Ev1 & F1)].
    (* sends after the frames phase only grow until the end of the step *)
    assert (G45 : J never s4 a4 s5' a4) by (eapply J_state; [|apply J_refl]; reflexivity).
    assert (Tail : forall a2', PS s2 a2' -> a2' = a2 -> PS s6 a6 /\ exists m e, ac_sends a6 = ac_sends a2 ++ m /\ ac_events a6 = ac_events a2 ++ e /\ Forall (okev never) e).
    { intros a2' H2 ->. exact (J_trans _ _ _ _ _ _ _ G3 (J_trans _ _ _ _ _ _ _ G4 (J_trans _ _ _ _ _ _ _ G45 G6)) H2). }
    (* the frames phase, justified relative to the final sends *)
    assert (G2 : forall tail, ac_sends a6 = ac_sends a2 ++ tail -> J (inbox_justifies (O0 ++ ac_sends a6) inbox) s1 a1 s2 a2).
    { intros tail Ht. apply (sv_handle_frames_J (vnow - sv_t0 s) vnow (O0 ++ ac_sends a6) inbox s1 a1 (s2, a2) W1 E2). cbn [snd]. exists tail. rewrite Ht. reflexivity. }
    (* first run the tail abstractly to learn that a6 extends a2 *)
    destruct (sv_handle_frames_J (vnow - sv_t0 s) vnow (O0 ++ ac_sends a2) inbox s1 a1 (s2, a2) W1 E2 ltac:(exists []; cbn [snd]; rewrite app_nil_r; reflexivity) H1)
      as [H2 _]. cbn [fst snd] in H2.
    destruct (Tail a2 H2 eq_refl) as [H6 (m3 & e3 & S3 & Ev3 & F3)].
    destruct (G2 m3 S3 H1) as [_ (m2 & e2 & S2 & Ev2 & F2)]. cbn [fst snd] in S2, Ev2.
    destruct a6 as [evs6 sends6 rest6]. cbn [ac_events ac_sends ac_nonces] in *. split; [exact H6|].
    rewrite Ev3, Ev2, Ev1. cbn [app]. apply Forall_app. split; [apply Forall_app; split|].
    - eapply okev_mono; [|exact F1]. intros x [].
    - exact F2.
    - eapply okev_mono; [|exact F3]. intros x [].
  Qed.
End ServerSide.

(* ----- whole histories of a server ----- *)
From UF Require Import ServerBytes.

Definition HInv (st : sv_trace) : Prop :=
  let '(s, _, Ou) := st in WF s /\ Forall (pend_ok Ou) (sv_objs s).

Lemma PS_nil O0 s nonces : PS O0 s (mkAcc [] [] nonces) <-> Forall (pend_ok O0) (sv_objs s).
Proof. unfold PS. cbn [ac_sends]. rewrite app_nil_r. reflexivity. Qed.

Lemma sv_run_op_HInv st o : HInv st -> HInv (sv_run_op st o).
Proof.
  destruct st as [[s E] Ou]. intros [W P]. destruct o as [vnow inbox nonces| |addr|addr d ch m|addr now]; cbn [sv_run_op].
  - destruct (server_step s vnow inbox nonces) as [[[[s' evs] sends] rest]| |] eqn:Es; try (split; assumption).
    destruct (server_step_connects Ou s vnow inbox nonces s' evs sends rest W (proj2 (PS_nil Ou s nonces) P) Es) as [P' _].
    split; [exact (proj1 (server_step_grammar 0 _ _ _ _ _ _ _ _ Es W))|]. unfold PS in P'. cbn [ac_sends] in P'. exact P'.
  - destruct (server_flush s) as [[s' sends]| |] eqn:Es; try (split; assumption).
    split; [exact (proj1 (server_flush_grammar 0 _ _ _ Es W))|].
    unfold server_flush in Es. destruct (sv_flush_active (sv_active s) s (mkAcc [] [] [])) as [[s1 a1]| |] eqn:E1; cbn [bind fst snd] in Es; try discriminate.
    inversion Es; subst. destruct (sv_flush_active_J Ou _ _ _ _ E1 (proj2 (PS_nil Ou s []) P)) as [P' _]. exact P'.
  - split; [exact (proj1 (server_drop_grammar 0 s addr W))|]. unfold server_drop. destruct (sv_lookup s addr) as [id|]; [|exact P].
    cbn [sv_remove_addr sv_objs]. apply (proj1 (PS_nil Ou _ [])). apply PS_set_obj; [exact I|apply PS_nil; exact P].
  - split; [exact (proj1 (server_client_send_grammar 0 s addr d ch m W))|]. unfold server_client_send. destruct (sv_lookup s addr) as [id|]; [|exact P].
    destruct (so_state (sv_obj_get s id)); try exact P. apply (proj1 (PS_nil Ou _ [])). apply PS_set_obj; [exact I|apply PS_nil; exact P].
  - split; [exact (proj1 (server_client_disconnect_grammar 0 s addr now W))|]. unfold server_client_disconnect. destruct (sv_lookup s addr) as [id|]; [|exact P].
    destruct (so_state (sv_obj_get s id)); try exact P. apply (proj1 (PS_nil Ou _ [])). apply PS_set_obj; [exact I|apply PS_nil; exact P].
Qed.

(* Whatever happened before: a step reports Connect for an address only if that step's datagrams include, from
   that address, an ACK carrying a nonce which the server has sent to that very address in a SYN+ACK. *)
Theorem server_connect_history cfg t0 seed ops vnow inbox nonces s' evs sends rest x :
  let '(s, _, Ou) := fold_left sv_run_op ops (server_new cfg t0 seed, [], []) in
  server_step s vnow inbox nonces = Ok (s', evs, sends, rest) ->
  In (EvConnect x) evs -> inbox_justifies (Ou ++ sends) inbox x.
Proof.
  assert (G : forall st, HInv st -> HInv (fold_left sv_run_op ops st)).
  { induction ops as [|o ops' IH]; intros st H; cbn [fold_left]; [exact H|]. apply IH. apply sv_run_op_HInv. exact H. }
  pose proof (G (server_new cfg t0 seed, [], [])) as H.
  destruct (fold_left sv_run_op ops (server_new cfg t0 seed, [], [])) as [[s E] Ou].
  destruct H as [W P].
  - split; [|constructor]. constructor; cbn [server_new sv_clients sv_objs]; [constructor|constructor|]. intros id Hid. unfold len in Hid. cbn in Hid. lia.
  - intros Es Hin. destruct (server_step_connects Ou s vnow inbox nonces s' evs sends rest W (proj2 (PS_nil Ou s nonces) P) Es) as [_ F].
    rewrite Forall_forall in F. exact (F _ Hin).
Qed.
