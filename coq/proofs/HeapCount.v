(* HeapCount.v — push and pop of the binary heap (sift_up / sift_down over an array) rearrange their elements:
   for every predicate the number of elements satisfying it is what a multiset push / pop would give, and
   pop returns the element peek shows. *)
From Coq Require Import ZArith Lia ZifyBool ZifyN ZifyNat.
From UF Require Import Base Heap BaseLemmas SenderProofs.

Section Count.
  Variable P : rq_entry -> bool.

  Definition cnt (l : list rq_entry) : nat := length (filter P l).
  Definition b2 (b : bool) : nat := if b then 1%nat else 0%nat.

  Lemma cnt_cons x l : cnt (x :: l) = (b2 (P x) + cnt l)%nat.
  Proof. unfold cnt. cbn [filter]. destruct (P x); reflexivity. Qed.

  Lemma cnt_app a b : cnt (a ++ b) = (cnt a + cnt b)%nat.
  Proof. unfold cnt. rewrite filter_app, app_length. reflexivity. Qed.

  Lemma cnt_le l : (cnt l <= length l)%nat.
  Proof. unfold cnt. induction l as [|x l IH]; cbn [filter length]; [lia|]. destruct (P x); cbn [length]; lia. Qed.

  Lemma cnt_upd d : forall l i x, (i < length l)%nat ->
    (cnt (upd l i x) + b2 (P (nth i l d)) = cnt l + b2 (P x))%nat.
  Proof.
    induction l as [|h t IH]; intros [|i] x H; cbn [length] in H; try lia; cbn [upd nth]; rewrite !cnt_cons.
    - lia.
    - specialize (IH i x ltac:(lia)). lia.
  Qed.

  Lemma nth_upd_other {A} (d : A) : forall l i j x, i <> j -> nth j (upd l i x) d = nth j l d.
  Proof. induction l as [|h t IH]; intros [|i] [|j] x H; cbn [upd nth]; try reflexivity; try lia. apply IH. lia. Qed.

  (* moving the hole: writing h[j] into the hole at i and the element into j is the same multiset as writing
     the element into the hole *)
  Lemma swap_cnt h i j x : i <> j -> (i < length h)%nat -> (j < length h)%nat ->
    cnt (upd (upd h i (hget h j)) j x) = cnt (upd h i x).
  Proof.
    intros Hne Hi Hj. unfold hget.
    pose proof (cnt_upd (mkRq 0 0 0 0) (upd h i (nth j h (mkRq 0 0 0 0))) j x ltac:(rewrite upd_length; exact Hj)) as A.
    rewrite (nth_upd_other (mkRq 0 0 0 0) h i j _ Hne) in A.
    pose proof (cnt_upd (mkRq 0 0 0 0) h i (nth j h (mkRq 0 0 0 0)) Hi) as B.
    pose proof (cnt_upd (mkRq 0 0 0 0) h i x Hi) as C. lia.
  Qed.

  Lemma sift_up_cnt : forall fuel h pos elt, (pos < length h)%nat -> cnt (sift_up fuel h pos elt) = cnt (upd h pos elt).
  Proof.
    induction fuel as [|f IH]; intros h pos elt Hp; cbn [sift_up]; [reflexivity|].
    destruct pos as [|p]; [reflexivity|]. destruct (rq_le elt _); [reflexivity|].
    set (parent := Nat.div (S p - 1) 2).
    assert (Hpar : (parent < S p)%nat).
    { subst parent. replace (S p - 1)%nat with p by lia. pose proof (Nat.div_le_upper_bound p 2 p ltac:(lia) ltac:(lia)). lia. }
    rewrite IH by (rewrite upd_length; lia). apply swap_cnt; lia.
  Qed.

  Lemma sift_down_cnt : forall fuel h pos elt,
    (pos < length h)%nat -> cnt (sift_down fuel h pos (length h) elt) = cnt (upd h pos elt).
  Proof.
    induction fuel as [|f IH]; intros h pos elt Hp; cbn [sift_down]; [apply sift_up_cnt; exact Hp|].
    destruct (Nat.leb (2 * pos + 1) (length h - 2) && Nat.leb 2 (length h)) eqn:E1.
    - apply andb_prop in E1 as [A B]. apply Nat.leb_le in A, B.
      set (c := if rq_le _ _ then (2 * pos + 1 + 1)%nat else (2 * pos + 1)%nat).
      assert (Hc : (c < length h)%nat /\ c <> pos) by (subst c; destruct (rq_le _ _); lia).
      pose proof (IH (upd h pos (hget h c)) c elt ltac:(rewrite upd_length; lia)) as X. rewrite upd_length in X.
      rewrite X. apply swap_cnt; lia.
    - destruct (Nat.eqb (2 * pos + 1) (length h - 1) && Nat.leb 1 (length h)) eqn:E2.
      + apply andb_prop in E2 as [A B]. apply Nat.eqb_eq in A. apply Nat.leb_le in B.
        rewrite sift_up_cnt by (rewrite upd_length; lia). apply swap_cnt; lia.
      + apply sift_up_cnt. exact Hp.
  Qed.

  Lemma heap_push_cnt h e : cnt (heap_push h e) = (cnt h + b2 (P e))%nat.
  Proof.
    unfold heap_push. rewrite sift_up_cnt by (rewrite app_length; cbn; lia).
    pose proof (cnt_upd (mkRq 0 0 0 0) (h ++ [e]) (length h) e ltac:(rewrite app_length; cbn; lia)) as A.
    rewrite app_nth2 in A by lia. rewrite Nat.sub_diag in A. cbn [nth] in A.
    rewrite cnt_app in *. cbn [cnt filter] in *. unfold cnt in *. cbn [filter] in *. destruct (P e); cbn [length b2] in *; lia.
  Qed.

  Lemma heap_pop_cnt h x r : heap_pop h = Some (x, r) -> (cnt r + b2 (P x) = cnt h)%nat /\ heap_peek h = Some x.
  Proof.
    unfold heap_pop. destruct (rev h) as [|l rr] eqn:E; [discriminate|].
    assert (Eh : h = rev rr ++ [l]).
    { rewrite <- (rev_involutive h), E. reflexivity. }
    destruct (rev rr) as [|root t] eqn:E2.
    - intros H. injection H as <- <-. rewrite Eh. cbn. unfold cnt. cbn [filter]. destruct (P l); split; reflexivity.
    - pose proof (sift_down_cnt (S (length (root :: t))) (root :: t) 0 l ltac:(cbn; lia)) as Sd.
      set (sd := sift_down (S (length (root :: t))) (root :: t) 0 (length (root :: t)) l) in *.
      intros H. injection H as <- <-. rewrite Eh. split; [|reflexivity]. rewrite Sd.
      pose proof (cnt_upd (mkRq 0 0 0 0) (root :: t) 0 l ltac:(cbn; lia)) as A. cbn [nth] in A.
      rewrite cnt_app. unfold cnt at 3. cbn [filter]. destruct (P l); cbn [length b2] in *; lia.
  Qed.
End Count.

(* the same for sums of a weight *)
Section Weight.
  Variable w : rq_entry -> nat.

  Definition wsum (l : list rq_entry) : nat := list_sum (map w l).

  Lemma wsum_cons x l : wsum (x :: l) = (w x + wsum l)%nat. Proof. reflexivity. Qed.
  Lemma wsum_app a b : wsum (a ++ b) = (wsum a + wsum b)%nat.
  Proof. unfold wsum. rewrite map_app, list_sum_app. reflexivity. Qed.

  Lemma wsum_upd d : forall l i x, (i < length l)%nat -> (wsum (upd l i x) + w (nth i l d) = wsum l + w x)%nat.
  Proof.
    induction l as [|h t IH]; intros [|i] x H; cbn [length] in H; try lia; cbn [upd nth]; rewrite !wsum_cons.
    - lia.
    - specialize (IH i x ltac:(lia)). lia.
  Qed.

  Lemma swap_wsum h i j x : i <> j -> (i < length h)%nat -> (j < length h)%nat ->
    wsum (upd (upd h i (hget h j)) j x) = wsum (upd h i x).
  Proof.
    intros Hne Hi Hj. unfold hget.
    pose proof (wsum_upd (mkRq 0 0 0 0) (upd h i (nth j h (mkRq 0 0 0 0))) j x ltac:(rewrite upd_length; exact Hj)) as A.
    rewrite (nth_upd_other (mkRq 0 0 0 0) h i j _ Hne) in A.
    pose proof (wsum_upd (mkRq 0 0 0 0) h i (nth j h (mkRq 0 0 0 0)) Hi) as B.
    pose proof (wsum_upd (mkRq 0 0 0 0) h i x Hi) as C. lia.
  Qed.

  Lemma sift_up_wsum : forall fuel h pos elt, (pos < length h)%nat -> wsum (sift_up fuel h pos elt) = wsum (upd h pos elt).
  Proof.
    induction fuel as [|f IH]; intros h pos elt Hp; cbn [sift_up]; [reflexivity|].
    destruct pos as [|p]; [reflexivity|]. destruct (rq_le elt _); [reflexivity|].
    set (parent := Nat.div (S p - 1) 2).
    assert (Hpar : (parent < S p)%nat).
    { subst parent. replace (S p - 1)%nat with p by lia. pose proof (Nat.div_le_upper_bound p 2 p ltac:(lia) ltac:(lia)). lia. }
    rewrite IH by (rewrite upd_length; lia). apply swap_wsum; lia.
  Qed.

  Lemma sift_down_wsum : forall fuel h pos elt,
    (pos < length h)%nat -> wsum (sift_down fuel h pos (length h) elt) = wsum (upd h pos elt).
  Proof.
    induction fuel as [|f IH]; intros h pos elt Hp; cbn [sift_down]; [apply sift_up_wsum; exact Hp|].
    destruct (Nat.leb (2 * pos + 1) (length h - 2) && Nat.leb 2 (length h)) eqn:E1.
    - apply andb_prop in E1 as [A B]. apply Nat.leb_le in A, B.
      set (c := if rq_le _ _ then (2 * pos + 1 + 1)%nat else (2 * pos + 1)%nat).
      assert (Hc : (c < length h)%nat /\ c <> pos) by (subst c; destruct (rq_le _ _); lia).
      pose proof (IH (upd h pos (hget h c)) c elt ltac:(rewrite upd_length; lia)) as X. rewrite upd_length in X.
      rewrite X. apply swap_wsum; lia.
    - destruct (Nat.eqb (2 * pos + 1) (length h - 1) && Nat.leb 1 (length h)) eqn:E2.
      + apply andb_prop in E2 as [A B]. apply Nat.eqb_eq in A. apply Nat.leb_le in B.
        rewrite sift_up_wsum by (rewrite upd_length; lia). apply swap_wsum; lia.
      + apply sift_up_wsum. exact Hp.
  Qed.

  Lemma heap_push_wsum h e : wsum (heap_push h e) = (wsum h + w e)%nat.
  Proof.
    unfold heap_push. rewrite sift_up_wsum by (rewrite app_length; cbn; lia).
    pose proof (wsum_upd (mkRq 0 0 0 0) (h ++ [e]) (length h) e ltac:(rewrite app_length; cbn; lia)) as A.
    rewrite app_nth2 in A by lia. rewrite Nat.sub_diag in A. cbn [nth] in A.
    rewrite wsum_app in *. assert (W1 : wsum [e] = w e) by (unfold wsum; cbn; lia). rewrite W1 in *. lia.
  Qed.

  Lemma heap_pop_wsum h x r : heap_pop h = Some (x, r) -> (wsum r + w x = wsum h)%nat.
  Proof.
    unfold heap_pop. destruct (rev h) as [|l rr] eqn:E; [discriminate|].
    assert (Eh : h = rev rr ++ [l]).
    { rewrite <- (rev_involutive h), E. reflexivity. }
    destruct (rev rr) as [|root t] eqn:E2.
    - intros H. injection H as <- <-. rewrite Eh. unfold wsum. cbn. lia.
    - pose proof (sift_down_wsum (S (length (root :: t))) (root :: t) 0 l ltac:(cbn; lia)) as Sd.
      set (sd := sift_down (S (length (root :: t))) (root :: t) 0 (length (root :: t)) l) in *.
      intros H. injection H as <- <-. rewrite Eh. rewrite Sd.
      pose proof (wsum_upd (mkRq 0 0 0 0) (root :: t) 0 l ltac:(cbn; lia)) as A. cbn [nth] in A.
      rewrite wsum_app. assert (W1 : wsum [l] = w l) by (unfold wsum; cbn; lia). rewrite W1. lia.
  Qed.

  Lemma wsum_le (w' : rq_entry -> nat) l : (forall e, In e l -> (w e <= w' e)%nat) -> (wsum l <= list_sum (map w' l))%nat.
  Proof.
    induction l as [|x l IH]; intros H; [cbn; lia|].
    assert (A : (w x <= w' x)%nat) by (apply H; left; reflexivity).
    assert (B : (wsum l <= list_sum (map w' l))%nat) by (apply IH; intros e He; apply H; right; exact He).
    rewrite wsum_cons. change (list_sum (map w' (x :: l))) with (w' x + list_sum (map w' l))%nat. lia.
  Qed.
End Weight.

(* a predicate holds of every element iff none fails it; used to carry Forall through the sift operations *)
Lemma cnt_zero_forall P l : cnt (fun e => negb (P e)) l = 0%nat <-> Forall (fun e => P e = true) l.
Proof.
  unfold cnt. induction l as [|x l IH]; cbn [filter]; [split; [constructor|reflexivity]|].
  destruct (P x) eqn:E; cbn [negb length].
  - rewrite IH. split; [intros H; constructor; assumption|intros H; inversion H; assumption].
  - split; [discriminate|]. intros H. inversion H; congruence.
Qed.
