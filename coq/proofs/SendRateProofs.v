(* SendRateProofs.v — RFC 5348 bounds of the allowed send rate (C14), on the bit-exact model.
   Float-valued quantities (throughput equation, initial rates, RTO) are opaque here: every bound
   below is about how the u32 rate is combined from them, for ALL their values. *)
From Coq Require Import ZArith Lia ZifyBool ZifyN ZifyNat.
From UF Require Import Consts Base F64 FrameQueue SendRate.

Local Open Scope N_scope.

(* ---------- the receive-rate set ---------- *)
Definition values (es : list recv_entry) : list N := map re_value es.

Fixpoint lmax (l : list N) (m : N) : N :=
  match l with [] => m | x :: t => lmax t (if m <? x then x else m) end.

Lemma rrs_max_lmax e t : rrs_max (e :: t) = Ok (lmax (values t) (re_value e)).
Proof.
  unfold rrs_max, values. f_equal. generalize (re_value e). induction t as [|x t IH]; intros m; cbn [fold_left map lmax]; [reflexivity|].
  apply IH.
Qed.

Definition set_max (es : list recv_entry) : N :=
  match es with [] => 0 | e :: t => lmax (values t) (re_value e) end.

Lemma rrs_max_ok es : es <> [] -> rrs_max es = Ok (set_max es).
Proof. destruct es as [|e t]; [congruence|]. intros _. apply rrs_max_lmax. Qed.

Lemma filter_keeps_new es x (f : recv_entry -> bool) : f x = true -> filter f (es ++ [x]) <> [].
Proof.
  intros H. rewrite filter_app. cbn [filter]. rewrite H. intros E. apply app_eq_nil in E. destruct E as [_ E]. discriminate.
Qed.

Lemma rate_limited_update_ok es now rate rtt :
  exists es' m, rrs_rate_limited_update es now rate rtt = Ok (es', m) /\ es' <> [] /\ m = set_max es'.
Proof.
  unfold rrs_rate_limited_update.
  set (f := fun e => (re_time e =? now) || (now - re_time e <? 2 * rtt)).
  assert (Hne : filter f (es ++ [mkRe rate now false]) <> []).
  { apply filter_keeps_new. subst f. cbn. rewrite N.eqb_refl. reflexivity. }
  rewrite (rrs_max_ok _ Hne). cbn [bind]. eauto.
Qed.

Lemma replace_max_ok es now rate :
  exists m, rrs_replace_max es now rate = Ok ([mkRe m now false], m) /\ rate <= m.
Proof.
  unfold rrs_replace_max, rrs_reset.
  destruct (filter (fun e => negb (re_initial e)) es) as [|e t] eqn:E; cbn [bind].
  - exists rate. split; [reflexivity|lia].
  - rewrite rrs_max_lmax. cbn [bind]. eexists. split; [reflexivity|lia].
Qed.

(* ---------- state invariant ---------- *)
Definition eqn_ok (c : send_rate_comp) : Prop :=
  match sr_mode_ c with
  | ThroughputEqn tcp =>
      sr_recv_set c <> [] /\ (exists r, sr_rtt_s c = Some r) /\
      N.min (N.max (N.min tcp (N.min (set_max (sr_recv_set c)) u32_max)) MINIMUM_RATE) (sr_max_rate c) <= sr_rate c
  | _ => True
  end.

Record SrInv (c : send_rate_comp) : Prop := mkSrInv {
  si_ceiling : sr_rate c <= sr_max_rate c;
  si_eqn : eqn_ok c
}.

Lemma src_new_inv m : MSS <= m -> SrInv (src_new m).
Proof. intros H. constructor; cbn; [exact H|exact I]. Qed.

Lemma notify_inv c now : SrInv c -> SrInv (src_notify_frame_sent c now).
Proof.
  intros [H1 H2]. unfold src_notify_frame_sent. destruct (sr_mode_ c) eqn:E; constructor; cbn; try assumption.
  - exact I.
  - unfold eqn_ok in *. cbn. rewrite E in *. exact I.
  - unfold eqn_ok in *. cbn. rewrite E in *. exact H2.
Qed.

(* the three ways of computing recv_limit: the new set is non-empty and recv_limit >= its maximum *)
Lemma recv_limit_ok c now fb loss_increase rtt_ms :
  exists es' rl,
    recv_limit_update (sr_recv_set c) now (fd_recv_rate fb) rtt_ms (fd_rate_limited fb) loss_increase
    = Ok (es', rl) /\ es' <> [] /\ N.min (set_max es') u32_max <= rl.
Proof.
  unfold recv_limit_update. destruct (fd_rate_limited fb).
  - destruct (rate_limited_update_ok (sr_recv_set c) now (fd_recv_rate fb) rtt_ms) as [es' [m [E [Hne Hm]]]].
    rewrite E. cbn [bind fst snd]. exists es', (sat_mul2_u32 m). repeat split; try assumption.
    unfold sat_mul2_u32, u32_max. subst m. lia.
  - destruct loss_increase.
    + unfold rrs_loss_increase_update.
      destruct (replace_max_ok (map (fun e => mkRe (re_value e / 2) (re_time e) (re_initial e)) (sr_recv_set c)) now
                  (f_to_u32 (PrimFloat.mul (f_of_N (fd_recv_rate fb)) 0.85))) as [m [E _]].
      rewrite E. cbn [bind fst snd]. exists [mkRe m now false], m. repeat split; [discriminate|cbn; lia].
    + unfold rrs_data_limited_update.
      destruct (replace_max_ok (sr_recv_set c) now (fd_recv_rate fb)) as [m [E _]].
      rewrite E. cbn [bind fst snd]. exists [mkRe m now false], (sat_mul2_u32 m). repeat split; [discriminate|].
      cbn. unfold sat_mul2_u32, u32_max. lia.
Qed.

(* ---------- feedback ---------- *)
Theorem feedback_inv c now fb c' r :
  SrInv c -> src_handle_feedback c now fb = Ok (c', r) ->
  SrInv c' /\ sr_max_rate c' = sr_max_rate c.
Proof.
  intros [H1 H2] H. unfold src_handle_feedback in H.
  destruct (update_rtt c (ms_to_s (fd_rtt_ms fb))) as [rtt_s rtt_ms] eqn:Eu.
  destruct (recv_limit_ok c now fb (PrimFloat.ltb (sr_prev_loss c) (fd_loss_rate fb)) rtt_ms) as [es' [rl [E [Hne Hrl]]]].
  rewrite E in H. cbn [bind] in H.
  destruct (sr_mode_ c) as [|tld|tcp0] eqn:Em; cbn [bind] in H; [discriminate| |].
  - (* slow start *)
    destruct (PrimFloat.ltb (sr_prev_loss c) (fd_loss_rate fb)).
    + cbn [bind] in H. inversion H; subst; clear H. split; [|reflexivity].
      constructor; cbn; [lia|]. unfold eqn_ok. cbn.
      split; [assumption|]. split; [eauto|]. unfold u32_max in *. lia.
    + destruct tld as [t|].
      * destruct (rtt_ms <=? now - t); cbn [bind] in H; inversion H; subst; clear H; (split; [|reflexivity]);
          constructor; cbn; try lia; exact I.
      * cbn [bind] in H. inversion H; subst; clear H. split; [|reflexivity]. constructor; cbn; [lia|exact I].
  - inversion H; subst; clear H. split; [|reflexivity].
    constructor; cbn; [lia|]. unfold eqn_ok. cbn.
    split; [assumption|]. split; [eauto|]. unfold u32_max in *. lia.
Qed.

(* once loss has been reported the rate never exceeds the throughput equation (or the floor) *)
Theorem feedback_eqn_bound c now fb c' r tcp0 :
  sr_mode_ c = ThroughputEqn tcp0 -> src_handle_feedback c now fb = Ok (c', r) ->
  exists rtt_s, sr_rtt_s c' = Some rtt_s /\
    sr_mode_ c' = ThroughputEqn (eval_tcp_throughput rtt_s (fd_loss_rate fb)) /\
    sr_rate c' <= N.max (eval_tcp_throughput rtt_s (fd_loss_rate fb)) MINIMUM_RATE /\ r = None.
Proof.
  intros Em H. unfold src_handle_feedback in H.
  destruct (update_rtt c (ms_to_s (fd_rtt_ms fb))) as [rtt_s rtt_ms] eqn:Eu.
  destruct (recv_limit_ok c now fb (PrimFloat.ltb (sr_prev_loss c) (fd_loss_rate fb)) rtt_ms) as [es' [rl [E _]]].
  rewrite E in H. cbn [bind] in H. rewrite Em in H. cbn [bind] in H. inversion H; subst; clear H.
  exists rtt_s. cbn. repeat split; try reflexivity. lia.
Qed.

(* slow start: one feedback at most doubles the rate, or sets the initial window per RTT *)
Theorem feedback_slowstart_bound c now fb c' r tld :
  sr_mode_ c = SlowStart tld -> PrimFloat.ltb (sr_prev_loss c) (fd_loss_rate fb) = false ->
  src_handle_feedback c now fb = Ok (c', r) ->
  exists rtt_s, sr_rtt_s c' = Some rtt_s /\
    sr_rate c' <= N.max (2 * sr_rate c) (compute_initial_send_rate rtt_s) /\
    (tld = None -> sr_rate c' <= compute_initial_send_rate rtt_s) /\ r = None.
Proof.
  intros Em Hl H. unfold src_handle_feedback in H.
  destruct (update_rtt c (ms_to_s (fd_rtt_ms fb))) as [rtt_s rtt_ms] eqn:Eu.
  destruct (recv_limit_ok c now fb (PrimFloat.ltb (sr_prev_loss c) (fd_loss_rate fb)) rtt_ms) as [es' [rl [E _]]].
  rewrite E in H. cbn [bind] in H. rewrite Em, Hl in H.
  exists rtt_s. destruct tld as [t|].
  - destruct (rtt_ms <=? now - t); cbn [bind] in H; inversion H; subst; clear H; cbn;
      (split; [reflexivity|]); (split; [unfold sat_mul2_u32; lia|]); (split; [discriminate|reflexivity]).
  - cbn [bind] in H. inversion H; subst; clear H. cbn. split; [reflexivity|]. split; [lia|]. split; [lia|reflexivity].
Qed.

(* first loss in slow start: the rate is at most the target (half the rate, or the initial loss rate) or the floor *)
Theorem feedback_first_loss_bound c now fb c' r tld :
  sr_mode_ c = SlowStart tld -> PrimFloat.ltb (sr_prev_loss c) (fd_loss_rate fb) = true ->
  src_handle_feedback c now fb = Ok (c', r) ->
  exists rtt_s, sr_rtt_s c' = Some rtt_s /\
    let target := match tld with None => compute_initial_loss_send_rate rtt_s | Some _ => sr_rate c / 2 end in
    sr_mode_ c' = ThroughputEqn target /\ sr_rate c' <= N.max target MINIMUM_RATE.
Proof.
  intros Em Hl H. unfold src_handle_feedback in H.
  destruct (update_rtt c (ms_to_s (fd_rtt_ms fb))) as [rtt_s rtt_ms] eqn:Eu.
  destruct (recv_limit_ok c now fb (PrimFloat.ltb (sr_prev_loss c) (fd_loss_rate fb)) rtt_ms) as [es' [rl [E _]]].
  rewrite E in H. cbn [bind] in H. rewrite Em, Hl in H. cbn [bind] in H. inversion H; subst; clear H.
  exists rtt_s. cbn. repeat split; try reflexivity. lia.
Qed.

(* the RTT estimate is the 0.9/0.1 moving average of the samples (binary64 arithmetic, in this order) *)
Theorem feedback_rtt_ewma c now fb c' r :
  src_handle_feedback c now fb = Ok (c', r) ->
  sr_rtt_s c' = Some (match sr_rtt_s c with
                      | Some old => PrimFloat.add (PrimFloat.mul (PrimFloat.sub 1 RTT_ALPHA) old)
                                                  (PrimFloat.mul RTT_ALPHA (ms_to_s (fd_rtt_ms fb)))
                      | None => ms_to_s (fd_rtt_ms fb) end).
Proof.
  intros H. unfold src_handle_feedback in H.
  destruct (update_rtt c (ms_to_s (fd_rtt_ms fb))) as [rtt_s rtt_ms] eqn:Eu.
  destruct (recv_limit_ok c now fb (PrimFloat.ltb (sr_prev_loss c) (fd_loss_rate fb)) rtt_ms) as [es' [rl [E _]]].
  rewrite E in H. cbn [bind] in H.
  unfold update_rtt in Eu. inversion Eu; subst; clear Eu.
  destruct (sr_mode_ c) as [|tld|tcp0]; cbn [bind] in H; [discriminate| |].
  - destruct (PrimFloat.ltb (sr_prev_loss c) (fd_loss_rate fb)).
    + cbn [bind] in H. inversion H; subst. reflexivity.
    + destruct tld as [t|]; [destruct (_ <=? _)|]; cbn [bind] in H; inversion H; subst; reflexivity.
  - inversion H; subst. reflexivity.
Qed.

(* ---------- no-feedback expiry ---------- *)
Theorem expiry_total c now : SrInv c -> sr_mode_ c <> AwaitSend -> exists c', src_nofeedback_expired c now = Ok c'.
Proof.
  intros [H1 H2] Hm. unfold src_nofeedback_expired.
  destruct (sr_mode_ c) as [|tld|tcp] eqn:Em; [congruence| |].
  - destruct (sr_rtt_s c); [destruct (_ && _)|]; cbn [bind]; eauto.
  - unfold eqn_ok in H2. rewrite Em in H2. destruct H2 as [Hne [[r Hr] _]]. rewrite Hr.
    rewrite (rrs_max_ok _ Hne). cbn [bind]. destruct (_ && _); cbn [bind]; eauto.
Qed.

Theorem expiry_bounds c now c' :
  SrInv c -> MINIMUM_RATE <= sr_max_rate c -> src_nofeedback_expired c now = Ok c' ->
  SrInv c' /\ sr_max_rate c' = sr_max_rate c /\
  sr_rate c' <= N.max (sr_rate c) MINIMUM_RATE /\          (* never increases (except up to the floor) *)
  (sr_rate c' = sr_rate c \/ MINIMUM_RATE <= sr_rate c').   (* kept, or lowered but never below s/64 *)
Proof.
  intros [H1 H2] Hmin H. unfold src_nofeedback_expired in H.
  destruct (sr_mode_ c) as [|tld|tcp] eqn:Em; cbn [bind] in H; [discriminate| |].
  - assert (G : forall rate', (rate' = sr_rate c \/ rate' = N.max (sr_rate c / 2) MINIMUM_RATE) ->
              forall rs nf rto, c' = mkSrc (sr_prev_loss c) nf true (SlowStart tld) rate' (sr_max_rate c) rs (sr_rtt_s c) (sr_rtt_ms c) rto ->
              SrInv c' /\ sr_max_rate c' = sr_max_rate c /\ sr_rate c' <= N.max (sr_rate c) MINIMUM_RATE /\
              (sr_rate c' = sr_rate c \/ MINIMUM_RATE <= sr_rate c')).
    { intros rate' Hr rs nf rto ->. cbn. split; [constructor; cbn; [lia|exact I]|]. split; [reflexivity|]. lia. }
    destruct (sr_rtt_s c) as [rtt_s|].
    + destruct (sr_nofeedback_idle c && _); cbn [bind] in H; inversion H; subst; clear H;
        (eapply G; [|reflexivity]); auto.
    + cbn [bind] in H. inversion H; subst; clear H. (eapply G; [|reflexivity]); auto.
  - unfold eqn_ok in H2. rewrite Em in H2. destruct H2 as [Hne [[r Hr] HJ]]. rewrite Hr in H.
    rewrite (rrs_max_ok _ Hne) in H. cbn [bind] in H.
    destruct (sr_nofeedback_idle c && _); cbn [bind] in H; inversion H; subst; clear H; cbn.
    + split; [constructor; cbn; [lia|]|]. { unfold eqn_ok. cbn. repeat split; eauto. }
      split; [reflexivity|]. lia.
    + split; [constructor; cbn; [lia|]|].
      { unfold eqn_ok. cbn. split; [discriminate|]. split; [eauto|]. unfold sat_mul2_u32, u32_max. lia. }
      split; [reflexivity|]. unfold sat_mul2_u32, u32_max in *. lia.
Qed.

(* ---------- every reachable state ---------- *)
Inductive rate_op := RSent (now : N) | RStep (now : N) (fb : option feedback_data).

Definition rate_step (c : send_rate_comp) (o : rate_op) : send_rate_comp :=
  match o with
  | RSent now => src_notify_frame_sent c now
  | RStep now fb => match src_step c now fb with Ok (c', _) => c' | _ => c end
  end.

Lemma rate_step_inv c o : SrInv c -> MINIMUM_RATE <= sr_max_rate c ->
  SrInv (rate_step c o) /\ sr_max_rate (rate_step c o) = sr_max_rate c.
Proof.
  intros Hi Hmin. destruct o as [now|now fb]; cbn [rate_step].
  - split; [apply notify_inv, Hi|]. unfold src_notify_frame_sent. destruct (sr_mode_ c); reflexivity.
  - unfold src_step. destruct (sr_mode_ c) eqn:Em; [auto| |].
    + destruct fb as [f|].
      * destruct (src_handle_feedback c now f) as [[c' r]| |] eqn:E; [|auto|auto]. eapply feedback_inv; eauto.
      * destruct (sr_nofeedback_exp c) as [e|]; [|auto]. destruct (e <=? now); [|auto].
        destruct (src_nofeedback_expired c now) as [c'| |] eqn:E; cbn [bind]; [|auto|auto].
        destruct (expiry_bounds c now c' Hi Hmin E) as [A [B _]]. auto.
    + destruct fb as [f|].
      * destruct (src_handle_feedback c now f) as [[c' r]| |] eqn:E; [|auto|auto]. eapply feedback_inv; eauto.
      * destruct (sr_nofeedback_exp c) as [e|]; [|auto]. destruct (e <=? now); [|auto].
        destruct (src_nofeedback_expired c now) as [c'| |] eqn:E; cbn [bind]; [|auto|auto].
        destruct (expiry_bounds c now c' Hi Hmin E) as [A [B _]]. auto.
Qed.

Theorem rate_reachable_inv m ops : MSS <= m ->
  let c := fold_left rate_step ops (src_new m) in SrInv c /\ sr_max_rate c = m.
Proof.
  intros Hm. assert (H0 : SrInv (src_new m) /\ sr_max_rate (src_new m) = m) by (split; [apply src_new_inv, Hm|reflexivity]).
  revert H0. generalize (src_new m). induction ops as [|o ops IH]; intros c [Hi He]; cbn [fold_left]; [auto|].
  apply IH. assert (Hmin : MINIMUM_RATE <= sr_max_rate c) by (rewrite He; cbv [MINIMUM_RATE MSS] in *; lia).
  destruct (rate_step_inv c o Hi Hmin) as [A B]. split; [exact A|congruence].
Qed.

(* the step function never panics from a reachable state (RecvRateSet::max on an empty set, rtt_s.unwrap()) *)
Theorem rate_step_total m ops now fb : MSS <= m ->
  exists c' r, src_step (fold_left rate_step ops (src_new m)) now fb = Ok (c', r).
Proof.
  intros Hm. destruct (rate_reachable_inv m ops Hm) as [Hi He]. set (c := fold_left rate_step ops (src_new m)) in *.
  unfold src_step. destruct (sr_mode_ c) eqn:Em; [eauto| |].
  - destruct fb as [f|].
    + unfold src_handle_feedback.
      destruct (update_rtt c (ms_to_s (fd_rtt_ms f))) as [rtt_s rtt_ms].
      destruct (recv_limit_ok c now f (PrimFloat.ltb (sr_prev_loss c) (fd_loss_rate f)) rtt_ms) as [es' [rl [E _]]].
      rewrite E. cbn [bind]. rewrite Em.
      destruct (PrimFloat.ltb (sr_prev_loss c) (fd_loss_rate f)); cbn [bind]; [eauto|].
      destruct time_last_doubled as [t|]; [destruct (_ <=? _)|]; cbn [bind]; eauto.
    + destruct (sr_nofeedback_exp c) as [e|]; [|eauto]. destruct (e <=? now); [|eauto].
      destruct (expiry_total c now Hi) as [c' E]; [congruence|]. rewrite E. cbn [bind]. eauto.
  - destruct fb as [f|].
    + unfold src_handle_feedback.
      destruct (update_rtt c (ms_to_s (fd_rtt_ms f))) as [rtt_s rtt_ms].
      destruct (recv_limit_ok c now f (PrimFloat.ltb (sr_prev_loss c) (fd_loss_rate f)) rtt_ms) as [es' [rl [E _]]].
      rewrite E. cbn [bind]. rewrite Em. cbn [bind]. eauto.
    + destruct (sr_nofeedback_exp c) as [e|]; [|eauto]. destruct (e <=? now); [|eauto].
      destruct (expiry_total c now Hi) as [c' E]; [congruence|]. rewrite E. cbn [bind]. eauto.
Qed.
