(* ReceiverOrder.v — C01, receiver side, over whole histories: for ANY sequence of datagrams (any contents),
   receive() calls and resynchronisation requests, the packets PacketReceiver hands out on a channel carry strictly
   increasing absolute packet ids — nothing is delivered twice or out of order on a channel, across any number of
   wrap-arounds of the 20-bit ids and of the slot arrays. Absolute id = (number of ids the receive window has moved
   past since the start) + offset inside the window; the model works with the 20-bit ids and slot indices only. *)
From Coq Require Import ZArith Lia ZifyBool ZifyN ZifyNat.
From UF Require Import Consts Base Frame Receiver BaseLemmas SenderProofs FragmentProofs ReceiverProofs.
Local Open Scope N_scope.
Ltac Zify.zify_post_hook ::= Z.div_mod_to_equations.

(* ---------- arithmetic on 20-bit ids and slot indices ---------- *)
Lemma pow32_pow20 : pow32 = 4096 * pow20. Proof. reflexivity. Qed.

Lemma pid_sub_spec x b k : b < pow20 -> k < pow20 -> x mod pow20 = (b + k) mod pow20 -> pid_sub x b = k.
Proof. unfold pid_sub, pow32, pow20. intros Hb Hk E. lia. Qed.

Lemma pid_add_spec b k : b < pow20 -> k < pow20 -> (pid_add b k) mod pow20 = (b + k) mod pow20 /\ pid_add b k < pow20.
Proof. unfold pid_add, pow32, pow20. intros Hb Hk. lia. Qed.

Lemma pid_sub_lt x b : pid_sub x b < pow20.
Proof. unfold pid_sub, pow32, pow20. lia. Qed.

Lemma pid_sub_id x b : b < pow20 -> x < pow20 -> x mod pow20 = (b + pid_sub x b) mod pow20.
Proof. unfold pid_sub, pow32, pow20. intros Hb Hx. lia. Qed.

Lemma pid_sub_any x b : b < pow20 -> x mod pow20 = (b + pid_sub x b) mod pow20.
Proof. unfold pid_sub, pow32, pow20. intros Hb. lia. Qed.

Lemma pid_add_any x k : k < pow20 -> (pid_add x k) mod pow20 = (x + k) mod pow20 /\ pid_add x k < pow20.
Proof. unfold pid_add, pow32, pow20. intros Hk. lia. Qed.

Lemma end_arith1 x b e k eo : e < pow20 -> x mod pow20 = (b + k) mod pow20 -> e mod pow20 = (b + eo) mod pow20 -> eo <= k ->
  x mod pow20 = (e + (k - eo)) mod pow20.
Proof. unfold pow20. intros He Hx Hen Hle. lia. Qed.

Lemma end_arith2 x b e k eo : e < pow20 -> x mod pow20 = (b + k) mod pow20 -> e mod pow20 = (b + eo) mod pow20 -> k < eo -> eo <= pow20 ->
  x mod pow20 = (e + (pow20 - (eo - k))) mod pow20.
Proof. unfold pow20. intros He Hx Hen Hlt Hle. lia. Qed.

Lemma succ_arith x b k : x mod pow20 = (b + k) mod pow20 -> (x + 1) mod pow20 = (b + (k + 1)) mod pow20.
Proof. unfold pow20. intros Hx. lia. Qed.

Lemma succ_arith_gen x y : x mod pow20 = y mod pow20 -> (x + 1) mod pow20 = (y + 1) mod pow20.
Proof. unfold pow20. intros Hx. lia. Qed.

Lemma shift_arith x b nb o d : x mod pow20 = (b + o) mod pow20 -> nb mod pow20 = (b + d) mod pow20 -> d <= o ->
  x mod pow20 = (nb + (o - d)) mod pow20.
Proof. unfold pow20. intros Hx Hn Hle. lia. Qed.

Lemma shift_arith2 b nb d k : nb mod pow20 = (b + d) mod pow20 -> (nb + k) mod pow20 = (b + (d + k)) mod pow20.
Proof. unfold pow20. intros Hn. lia. Qed.

(* from here on `mod` by the (variable) window size is opaque to lia *)
Ltac Zify.zify_post_hook ::= idtac.

Section Mod.
  Variable W : N.
  Hypothesis HW : 0 < W.
  Hypothesis Hdiv : pow20 mod W = 0.

  Lemma mod_pow20_W a : (a mod pow20) mod W = a mod W.
  Proof.
    assert (Hq : pow20 = W * (pow20 / W)). { pose proof (N.div_mod pow20 W) as H. rewrite Hdiv, N.add_0_r in H. apply H. intros E0. rewrite E0 in HW. discriminate HW. }
    remember (pow20 / W) as q eqn:Eq. clear Eq.
    assert (Hq0 : q <> 0). { intros ->. rewrite N.mul_0_r in Hq. discriminate Hq. }
    assert (HW0 : W <> 0). { intros E0. rewrite E0 in HW. discriminate HW. }
    rewrite Hq. rewrite N.mod_mul_r by assumption.
    rewrite (N.mul_comm W), N.mod_add by assumption. apply N.mod_mod. assumption.
  Qed.

  Lemma cong_W a b : a mod pow20 = b mod pow20 -> a mod W = b mod W.
  Proof. intros E. rewrite <- (mod_pow20_W a), <- (mod_pow20_W b), E. reflexivity. Qed.

  Lemma mod_inj a b : a <= b -> b - a < W -> a mod W = b mod W -> a = b.
  Proof.
    clear Hdiv. intros Hle Hd E. pose proof (N.div_mod a W ltac:(lia)) as Ha. pose proof (N.div_mod b W ltac:(lia)) as Hb.
    pose proof (N.mod_lt a W ltac:(lia)). pose proof (N.mod_lt b W ltac:(lia)).
    assert (a / W = b / W) by nia. nia.
  Qed.

  Lemma mod_W_W b : (b + W) mod W = b mod W.
  Proof. clear Hdiv. replace (b + W) with (b + 1 * W) by lia. apply N.mod_add. lia. Qed.
End Mod.

(* ---------- views of the receiver by offset from the window base ---------- *)
Definition sidx (r : receiver) (k : N) : nat := N.to_nat ((r_base r + k) mod r_wsize r).
Definition so (r : receiver) (k : N) : slot := get_slot r (sidx r k).
Definition cboff (r : receiver) (c : N) : N :=
  match rc_base (get_chan r c) with Some cb => pid_sub cb (r_base r) | None => 0 end.
Definition eoff (r : receiver) : N := pid_sub (r_end r) (r_base r).
Definition is_closed (e : asm_entry) : bool := match e with AsmClosed _ => true | _ => false end.

Record RI (r : receiver) : Prop := mkRI {
  ri_w : 0 < r_wsize r /\ 2 * r_wsize r <= pow20 /\ pow20 mod r_wsize r = 0;
  ri_len : length (r_slots r) = N.to_nat (r_wsize r);
  ri_chans : length (r_chans r) = N.to_nat CHANNEL_COUNT;
  ri_base : r_base r < pow20;
  ri_end : r_end r < pow20;
  ri_eoff : eoff r <= r_wsize r;
  ri_dflag : forall k, k < r_wsize r -> sl_dflag (so r k) = true ->
               sl_entry (so r k) = true /\ k < eoff r /\ sl_chan (so r k) < CHANNEL_COUNT /\
               is_closed (sl_asm (so r k)) = true /\ cboff r (sl_chan (so r k)) <= k;
  ri_cb : forall c cb, rc_base (get_chan r c) = Some cb ->
               cb < pow20 /\ 0 < pid_sub cb (r_base r) /\ pid_sub cb (r_base r) <= eoff r /\
               sl_marker (so r (pid_sub cb (r_base r))) = Some c /\
               sl_dflag (so r (pid_sub cb (r_base r) - 1)) = false /\
               is_closed (sl_asm (so r (pid_sub cb (r_base r) - 1))) = true;
  ri_mk : forall k c, k < r_wsize r -> sl_marker (so r k) = Some c ->
               exists cb, rc_base (get_chan r c) = Some cb /\
                          (k = pid_sub cb (r_base r) \/ (k = 0 /\ pid_sub cb (r_base r) = r_wsize r))
}.

Lemma sidx_lt r k : RI r -> (sidx r k < length (r_slots r))%nat.
Proof. intros I. unfold sidx. rewrite (ri_len r I). destruct (ri_w r I) as (H & _). pose proof (N.mod_lt (r_base r + k) (r_wsize r)). lia. Qed.

Lemma sidx_inj r j k : RI r -> j <= k -> k - j < r_wsize r -> sidx r j = sidx r k -> j = k.
Proof.
  intros I Hle Hd E. destruct (ri_w r I) as (H & _). unfold sidx in E.
  assert (E' : (r_base r + j) mod r_wsize r = (r_base r + k) mod r_wsize r) by lia.
  apply (mod_inj (r_wsize r) H) in E'; lia.
Qed.

Lemma sidx_W r : RI r -> sidx r (r_wsize r) = sidx r 0.
Proof. intros I. destruct (ri_w r I) as (H & _). unfold sidx. rewrite mod_W_W by exact H. rewrite N.add_0_r. reflexivity. Qed.

(* the slot of a 20-bit id x that lies k ids after the base *)
Lemma widx_sidx r x : RI r -> widx r x = sidx r (pid_sub x (r_base r)).
Proof.
  intros I. destruct (ri_w r I) as (H & _ & Hd). unfold widx, sidx. f_equal.
  apply (cong_W _ H Hd). apply pid_sub_any. exact (ri_base r I).
Qed.

Lemma nth_upd_eq {A} (d : A) l i j x : (i < length l)%nat -> nth j (upd l i x) d = if Nat.eqb i j then x else nth j l d.
Proof.
  intros Hi. destruct (Nat.eqb_spec i j) as [->|Hne].
  - revert j Hi. induction l as [|h t IH]; intros j Hi; cbn [length] in Hi; [lia|]. destruct j; cbn [upd nth]; [reflexivity|]. apply IH. lia.
  - revert i j Hi Hne. induction l as [|h t IH]; intros i j Hi Hne; cbn [length] in Hi; [lia|].
    destruct i, j; cbn [upd nth]; try reflexivity; try lia. apply IH; lia.
Qed.

Lemma pid_sub_self b : b < pow20 -> pid_sub b b = 0.
Proof. intros Hb. apply pid_sub_spec; [exact Hb|reflexivity|]. rewrite N.add_0_r. reflexivity. Qed.

Lemma asm_produced_chan e alloc maxa dg e' alloc' p :
  asm_try_add e alloc maxa dg = (e', alloc', Some p) -> ap_chan p = dg_chan dg /\ is_closed e = false /\ is_closed e' = true.
Proof.
  unfold asm_try_add. destruct e as [|a|a chan wpl cpl last buf].
  - destruct (maxa <? _); [intros H; inversion H; auto|]. destruct (dg_frag_last dg =? 0); intros H; inversion H; auto.
  - intros H; inversion H.
  - destruct (_ || _); [intros H; inversion H|]. destruct (fb_finished _); intros H; inversion H; auto.
Qed.

Lemma asm_closed_same e alloc maxa dg : is_closed e = true -> asm_try_add e alloc maxa dg = (e, alloc, None).
Proof. destruct e; try discriminate. intros _. reflexivity. Qed.

(* a receiver that differs from r in one slot (and possibly counters) *)
Lemma so_upd r r' i s' j :
  RI r -> r_base r' = r_base r -> r_wsize r' = r_wsize r -> r_slots r' = upd (r_slots r) i s' -> (i < length (r_slots r))%nat ->
  so r' j = if Nat.eqb i (sidx r j) then s' else so r j.
Proof.
  intros I Hb Hw Hs Hi. unfold so, get_slot, sidx. rewrite Hs, Hb, Hw. apply nth_upd_eq. exact Hi.
Qed.

Lemma get_chan_upd r c x c' : (N.to_nat c < length (r_chans r))%nat ->
  nth (N.to_nat c') (upd (r_chans r) (N.to_nat c) x) (mkRChan None 0) = if c =? c' then x else get_chan r c'.
Proof.
  intros Hc. unfold get_chan. rewrite nth_upd_eq by exact Hc.
  destruct (N.eqb_spec c c') as [->|Hne]; [rewrite Nat.eqb_refl; reflexivity|].
  destruct (Nat.eqb_spec (N.to_nat c) (N.to_nat c')) as [E|_]; [lia|reflexivity].
Qed.

Lemma valid_chan dg : datagram_is_valid dg = true -> dg_chan dg < CHANNEL_COUNT.
Proof. unfold datagram_is_valid. destruct (N.leb_spec CHANNEL_COUNT (dg_chan dg)); [discriminate|auto]. Qed.

Lemma handle_datagram_RI r dg : RI r -> RI (receiver_handle_datagram r dg).
Proof.
  intros I. unfold receiver_handle_datagram.
  destruct (datagram_is_valid dg) eqn:Hv; cbn [negb]; [|exact I].
  set (k := pid_sub (dg_seq dg) (r_base r)).
  destruct (N.leb_spec (r_wsize r) k) as [_|Hk]; [exact I|].
  assert (Hcl : pid_sub (opt_default (r_base r) (rc_base (get_chan r (dg_chan dg)))) (r_base r) = cboff r (dg_chan dg)).
  { unfold cboff. destruct (rc_base (get_chan r (dg_chan dg))); cbn [opt_default]; [reflexivity|]. apply pid_sub_self, (ri_base r I). }
  rewrite Hcl. destruct (N.ltb_spec k (cboff r (dg_chan dg))) as [_|Hcb]; [exact I|].
  rewrite (widx_sidx r _ I). fold k. fold (so r k).
  destruct (ri_w r I) as (HW & H2W & Hdiv).
  pose proof (sidx_lt r k I) as Hi.
  destruct (asm_try_add (sl_asm (so r k)) (r_alloc r) (r_max_alloc r) dg) as [[asm' alloc'] produced] eqn:Ea.
  destruct produced as [p|].
  - (* a packet is produced *)
    destruct (asm_produced_chan _ _ _ _ _ _ _ Ea) as (Hpc & Hnc & Hc').
    set (s' := mkSlot asm' true true (ap_chan p) (ap_cpl p) (ap_wpl p) (ap_data p) (sl_marker (so r k))).
    match goal with |- RI ?R => set (r' := R) end.
    assert (Hb : r_base r' = r_base r) by reflexivity. assert (Hw : r_wsize r' = r_wsize r) by reflexivity.
    assert (Hso : forall j, so r' j = if Nat.eqb (sidx r k) (sidx r j) then s' else so r j).
    { intros j. apply (so_upd r r' _ s' j I Hb Hw); [reflexivity|exact Hi]. }
    assert (Hch : forall c, rc_base (get_chan r' c) = rc_base (get_chan r c)).
    { intros c. unfold get_chan at 1. cbn [r' r_chans]. rewrite get_chan_upd by (rewrite (ri_chans r I); pose proof (valid_chan dg Hv); lia).
      destruct (N.eqb_spec (dg_chan dg) c) as [->|_]; reflexivity. }
    assert (Hcb' : forall c, cboff r' c = cboff r c). { intros c. unfold cboff. rewrite Hch, Hb. reflexivity. }
    assert (Heo : eoff r <= eoff r' /\ k < eoff r' /\ eoff r' <= r_wsize r /\ r_end r' < pow20).
    { unfold eoff. rewrite Hb. cbn [r' r_end].
      pose proof (ri_eoff r I) as He. unfold eoff in He. pose proof (ri_base r I) as Hbase. pose proof (ri_end r I) as Hend.
      pose proof (pid_sub_any (dg_seq dg) (r_base r) Hbase) as Hseq. fold k in Hseq.
      pose proof (pid_sub_id (r_end r) (r_base r) Hbase Hend) as Hen. set (eo := pid_sub (r_end r) (r_base r)) in *.
      destruct (N.le_gt_cases eo k) as [Hke|Hke].
      - assert (Hse : pid_sub (dg_seq dg) (r_end r) = k - eo).
        { apply pid_sub_spec; [exact Hend|unfold pow20 in *; lia|]. exact (end_arith1 _ _ _ _ _ Hend Hseq Hen Hke). }
        rewrite Hse. destruct (N.ltb_spec (k - eo) (r_wsize r)) as [_|Hge]; [|lia].
        destruct (pid_add_any (dg_seq dg) 1 ltac:(reflexivity)) as [Ha Halt].
        assert (Hn : pid_sub (pid_add (dg_seq dg) 1) (r_base r) = k + 1).
        { apply pid_sub_spec; [exact Hbase|unfold pow20 in *; lia|]. rewrite Ha. exact (succ_arith _ _ _ Hseq). }
        rewrite Hn. repeat split; lia.
      - assert (Hse : pid_sub (dg_seq dg) (r_end r) = pow20 - (eo - k)).
        { apply pid_sub_spec; [exact Hend|unfold pow20 in *; lia|]. apply (end_arith2 _ _ _ _ _ Hend Hseq Hen); [lia|unfold pow20 in *; lia]. }
        rewrite Hse. destruct (N.ltb_spec (pow20 - (eo - k)) (r_wsize r)) as [Hlt|_]; [unfold pow20 in *; lia|].
        fold eo. repeat split; lia. }
    destruct Heo as (Heo1 & Heo2 & Heo3 & Heo4).
    constructor.
    + exact (ri_w r I).
    + cbn [r' r_slots r_wsize]. rewrite upd_length. exact (ri_len r I).
    + cbn [r' r_chans]. rewrite upd_length. exact (ri_chans r I).
    + exact (ri_base r I).
    + exact Heo4.
    + rewrite Hw. exact Heo3.
    + intros j Hj. rewrite Hw in Hj. rewrite Hso. destruct (Nat.eqb_spec (sidx r k) (sidx r j)) as [E|Hne].
      * assert (j = k).
        { destruct (N.le_gt_cases j k); [apply (sidx_inj r j k I); [assumption|lia|auto]|symmetry; apply (sidx_inj r k j I); [lia|lia|auto]]. }
        subst j. intros _. cbn [s' sl_entry sl_chan sl_asm]. rewrite Hpc, Hcb'. pose proof (valid_chan dg Hv). auto.
      * intros Hd. destruct (ri_dflag r I j Hj Hd) as (A1 & A2 & A3 & A4 & A5). rewrite Hcb'. repeat split; auto. lia.
    + intros c cb Hc. rewrite Hch in Hc. destruct (ri_cb r I c cb Hc) as (B1 & B2 & B3 & B4 & B5 & B6). rewrite Hb.
      set (o := pid_sub cb (r_base r)) in *. split; [exact B1|]. split; [exact B2|]. split; [lia|].
      split.
      * rewrite Hso. destruct (Nat.eqb_spec (sidx r k) (sidx r o)) as [E|Hne]; [|exact B4].
        cbn [s' sl_marker]. unfold so in *. rewrite E. exact B4.
      * rewrite !Hso. destruct (Nat.eqb_spec (sidx r k) (sidx r (o - 1))) as [E|Hne]; [|auto].
        exfalso. assert (o - 1 = k).
        { pose proof (ri_eoff r I). destruct (N.le_gt_cases (o - 1) k); [apply (sidx_inj r _ _ I); [assumption|lia|auto]|symmetry; apply (sidx_inj r _ _ I); [lia|lia|auto]]. }
        rewrite H in B6. rewrite B6 in Hnc. discriminate Hnc.
    + intros j c Hj Hm. rewrite Hw in Hj. rewrite Hso in Hm. rewrite Hb.
      assert (Hm' : sl_marker (so r j) = Some c).
      { destruct (Nat.eqb_spec (sidx r k) (sidx r j)) as [E|Hne]; [|exact Hm]. cbn [s' sl_marker] in Hm. unfold so in *. rewrite <- E. exact Hm. }
      destruct (ri_mk r I j c Hj Hm') as (cb & Hc & Hor). exists cb. rewrite Hch. split; [exact Hc|exact Hor].
  - (* no packet: only the assembly entry of the slot changes *)
    match goal with |- RI ?R => set (r' := R) end.
    assert (Hb : r_base r' = r_base r) by reflexivity. assert (Hw : r_wsize r' = r_wsize r) by reflexivity.
    set (s' := mkSlot asm' (sl_entry (so r k)) (sl_dflag (so r k)) (sl_chan (so r k)) (sl_cpl (so r k)) (sl_wpl (so r k)) (sl_data (so r k)) (sl_marker (so r k))).
    assert (Hso : forall j, so r' j = if Nat.eqb (sidx r k) (sidx r j) then s' else so r j).
    { intros j. apply (so_upd r r' _ s' j I Hb Hw); [reflexivity|exact Hi]. }
    assert (Hsame : forall j, sl_entry (so r' j) = sl_entry (so r j) /\ sl_dflag (so r' j) = sl_dflag (so r j) /\ sl_chan (so r' j) = sl_chan (so r j) /\
                              sl_marker (so r' j) = sl_marker (so r j) /\ (is_closed (sl_asm (so r j)) = true -> is_closed (sl_asm (so r' j)) = true)).
    { intros j. rewrite Hso. destruct (Nat.eqb_spec (sidx r k) (sidx r j)) as [E|Hne]; [|auto 10].
      unfold so in *. rewrite <- E. cbn [s' sl_entry sl_dflag sl_chan sl_marker sl_asm]. repeat split; auto.
      intros Hc. rewrite (asm_closed_same _ _ _ _ Hc) in Ea. inversion Ea; subst. exact Hc. }
    assert (Hch : forall c, get_chan r' c = get_chan r c) by reflexivity.
    assert (Hcb' : forall c, cboff r' c = cboff r c) by reflexivity.
    assert (Heo : eoff r' = eoff r) by reflexivity.
    constructor.
    + exact (ri_w r I).
    + cbn [r' r_slots r_wsize]. rewrite upd_length. exact (ri_len r I).
    + exact (ri_chans r I).
    + exact (ri_base r I).
    + exact (ri_end r I).
    + rewrite Heo, Hw. exact (ri_eoff r I).
    + intros j Hj. rewrite Hw in Hj. destruct (Hsame j) as (S1 & S2 & S3 & S4 & S5). rewrite S1, S2, S3, Heo, Hcb'. intros Hd.
      destruct (ri_dflag r I j Hj Hd) as (A1 & A2 & A3 & A4 & A5). auto 10.
    + intros c cb Hc. rewrite Hch in Hc. destruct (ri_cb r I c cb Hc) as (B1 & B2 & B3 & B4 & B5 & B6). rewrite Hb, Heo.
      set (o := pid_sub cb (r_base r)) in *. destruct (Hsame o) as (_ & _ & _ & S4 & _). destruct (Hsame (o - 1)) as (_ & S2 & _ & _ & S5).
      rewrite S4, S2. auto 10.
    + intros j c Hj Hm. rewrite Hw in Hj. destruct (Hsame j) as (_ & _ & _ & S4 & _). rewrite S4 in Hm. rewrite Hb. exact (ri_mk r I j c Hj Hm).
Qed.

(* ---------- advance_window ---------- *)
Definition Geo (r : receiver) : Prop :=
  0 < r_wsize r /\ 2 * r_wsize r <= pow20 /\ pow20 mod r_wsize r = 0 /\ length (r_slots r) = N.to_nat (r_wsize r) /\ r_base r < pow20.

Lemma RI_Geo r : RI r -> Geo r.
Proof. intros I. destruct (ri_w r I) as (A & B & C). unfold Geo. repeat split; auto using (ri_len r I), (ri_base r I). Qed.

Lemma widx_geo r x k : Geo r -> x mod pow20 = (r_base r + k) mod pow20 -> widx r x = sidx r k.
Proof. intros (H & _ & Hd & _) E. unfold widx, sidx. f_equal. apply (cong_W _ H Hd). exact E. Qed.

Lemma sidx_lt_geo r k : Geo r -> (sidx r k < length (r_slots r))%nat.
Proof. intros (H & _ & _ & Hl & _). unfold sidx. rewrite Hl. pose proof (N.mod_lt (r_base r + k) (r_wsize r)). lia. Qed.

Lemma sidx_inj_geo r j k : Geo r -> j <= k -> k - j < r_wsize r -> sidx r j = sidx r k -> j = k.
Proof.
  intros (H & _) Hle Hd E. unfold sidx in E.
  assert (E' : (r_base r + j) mod r_wsize r = (r_base r + k) mod r_wsize r) by lia.
  apply (mod_inj (r_wsize r) H) in E'; lia.
Qed.

Lemma sidx_eq_iff r j k : Geo r -> j < r_wsize r -> k < r_wsize r -> (sidx r j = sidx r k <-> j = k).
Proof.
  intros G Hj Hk. split; [|intros ->; reflexivity]. intros E.
  destruct (N.le_gt_cases j k); [apply (sidx_inj_geo r j k G); [assumption|lia|exact E]|symmetry; apply (sidx_inj_geo r k j G); [lia|lia|auto]].
Qed.

Definition clr (s : slot) : slot := mkSlot AsmOpen false (sl_dflag s) (sl_chan s) (sl_cpl s) (sl_wpl s) (sl_data s) (sl_marker s).

Lemma so_upd_geo r r' i s' j :
  Geo r -> r_base r' = r_base r -> r_wsize r' = r_wsize r -> r_slots r' = upd (r_slots r) i s' -> (i < length (r_slots r))%nat ->
  so r' j = if Nat.eqb i (sidx r j) then s' else so r j.
Proof. intros G Hb Hw Hs Hi. unfold so, get_slot, sidx. rewrite Hs, Hb, Hw. apply nth_upd_eq. exact Hi. Qed.

Lemma adv_clear_spec : forall n j id r,
  Geo r -> id mod pow20 = (r_base r + j) mod pow20 -> j + N.of_nat n <= r_wsize r ->
  let r1 := adv_clear n id r in
  r_base r1 = r_base r /\ r_end r1 = r_end r /\ r_wsize r1 = r_wsize r /\ r_chans r1 = r_chans r /\
  length (r_slots r1) = length (r_slots r) /\
  forall k, k < r_wsize r -> so r1 k = if (j <=? k) && (k <? j + N.of_nat n) then clr (so r k) else so r k.
Proof.
  induction n as [|n IH]; intros j id r G Hid Hn; cbn [adv_clear].
  - repeat split; auto. intros k Hk. destruct (j <=? k) eqn:E1; cbn [andb]; [|reflexivity].
    destruct (N.ltb_spec k (j + N.of_nat 0)); [lia|reflexivity].
  - rewrite (widx_geo r id j G Hid). fold (so r j).
    match goal with |- context [adv_clear n _ ?R] => set (r' := R) end.
    assert (G' : Geo r'). { destruct G as (A & B & C & D & E). unfold Geo. cbn [r' r_wsize r_slots r_base]. rewrite upd_length. auto. }
    assert (Hid' : pid_add id 1 mod pow20 = (r_base r' + (j + 1)) mod pow20).
    { destruct (pid_add_any id 1 ltac:(reflexivity)) as [Ha _]. rewrite Ha. cbn [r' r_base]. rewrite N.add_assoc. apply succ_arith_gen. exact Hid. }
    assert (Hn' : j + 1 + N.of_nat n <= r_wsize r') by (cbn [r' r_wsize]; lia).
    destruct (IH (j + 1) (pid_add id 1) r' G' Hid' Hn') as (B1 & B2 & B3 & B4 & B5 & B6).
    cbn [r' r_base r_end r_wsize r_chans r_slots] in B1, B2, B3, B4, B5. rewrite upd_length in B5.
    repeat split; auto. intros k Hk. rewrite (B6 k Hk).
    assert (Hso : so r' k = if Nat.eqb (sidx r j) (sidx r k) then clr (so r j) else so r k).
    { apply (so_upd_geo r r' _ _ k G); [reflexivity|reflexivity|reflexivity|apply sidx_lt_geo; exact G]. }
    rewrite Hso. destruct (Nat.eqb_spec (sidx r j) (sidx r k)) as [E|Hne].
    + apply (sidx_eq_iff r j k G) in E; [|lia|exact Hk]. subst k.
      destruct (N.leb_spec (j + 1) j); [lia|]. cbn [andb]. destruct (N.leb_spec j j); [|lia]. destruct (N.ltb_spec j (j + N.of_nat (S n))); [|lia]. reflexivity.
    + assert (k <> j) by (intros ->; apply Hne; reflexivity).
      destruct (N.leb_spec (j + 1) k), (N.leb_spec j k), (N.ltb_spec k (j + 1 + N.of_nat n)), (N.ltb_spec k (j + N.of_nat (S n))); cbn [andb]; try reflexivity; lia.
Qed.

(* marker discipline: a channel's base marker sits in the slot of its base id, and only there *)
Definition MK (r : receiver) : Prop :=
  length (r_chans r) = N.to_nat CHANNEL_COUNT /\
  (forall c cb, rc_base (get_chan r c) = Some cb ->
     0 < pid_sub cb (r_base r) /\ pid_sub cb (r_base r) <= r_wsize r /\ sl_marker (so r (pid_sub cb (r_base r))) = Some c) /\
  (forall k c, k < r_wsize r -> sl_marker (so r k) = Some c ->
     exists cb, rc_base (get_chan r c) = Some cb /\ sidx r (pid_sub cb (r_base r)) = sidx r k).

Definition same_but_marker (s s' : slot) : Prop :=
  sl_asm s' = sl_asm s /\ sl_entry s' = sl_entry s /\ sl_dflag s' = sl_dflag s /\ sl_chan s' = sl_chan s /\
  sl_cpl s' = sl_cpl s /\ sl_wpl s' = sl_wpl s /\ sl_data s' = sl_data s.

Lemma same_but_marker_refl s : same_but_marker s s. Proof. unfold same_but_marker. auto 10. Qed.
Lemma same_but_marker_trans a b c : same_but_marker a b -> same_but_marker b c -> same_but_marker a c.
Proof. unfold same_but_marker. intros (A1&A2&A3&A4&A5&A6&A7) (B1&B2&B3&B4&B5&B6&B7). repeat split; congruence. Qed.

Lemma chan_lt_of_base r c cb : length (r_chans r) = N.to_nat CHANNEL_COUNT -> rc_base (get_chan r c) = Some cb -> (N.to_nat c < length (r_chans r))%nat.
Proof.
  intros Hl Hc. destruct (Nat.lt_ge_cases (N.to_nat c) (length (r_chans r))) as [|Hge]; [assumption|].
  unfold get_chan in Hc. rewrite nth_overflow in Hc by lia. discriminate Hc.
Qed.

(* offsets 1..W name slots; offset W shares the slot of offset 0 *)
Definition norm (r : receiver) (j : N) : N := if j =? r_wsize r then 0 else j.
Lemma sidx_norm r j : Geo r -> j <= r_wsize r -> sidx r (norm r j) = sidx r j /\ norm r j < r_wsize r.
Proof.
  intros G Hj. unfold norm. destruct (N.eqb_spec j (r_wsize r)) as [->|Hne].
  - destruct G as (H & _). split; [|lia]. unfold sidx. rewrite mod_W_W by exact H. rewrite N.add_0_r. reflexivity.
  - split; [reflexivity|lia].
Qed.

Lemma try_unset_spec r id j :
  Geo r -> MK r -> id mod pow20 = (r_base r + j) mod pow20 -> 0 < j -> j <= r_wsize r ->
  let r' := try_unset_channel_base_id r id in
  Geo r' /\ MK r' /\ r_base r' = r_base r /\ r_end r' = r_end r /\ r_wsize r' = r_wsize r /\
  (forall i, same_but_marker (get_slot r i) (get_slot r' i)) /\
  sl_marker (get_slot r' (sidx r j)) = None /\
  (forall i, i <> sidx r j -> sl_marker (get_slot r' i) = sl_marker (get_slot r i)) /\
  (forall c, rc_base (get_chan r' c) =
             match rc_base (get_chan r c) with Some cb => if pid_sub cb (r_base r) =? j then None else Some cb | None => None end).
Proof.
  intros G (ML & M1 & M2) Hid Hj0 HjW. unfold try_unset_channel_base_id. cbv zeta. rewrite (widx_geo r id j G Hid).
  destruct (sidx_norm r j G HjW) as [Hn1 Hn2].
  destruct (sl_marker (get_slot r (sidx r j))) as [chan|] eqn:Em.
  - (* a marker: the channel loses its base *)
    assert (Em' : sl_marker (so r (norm r j)) = Some chan) by (unfold so; rewrite Hn1; exact Em).
    destruct (M2 _ _ Hn2 Em') as (cb & Hcb & Hsx). rewrite Hn1 in Hsx.
    destruct (M1 _ _ Hcb) as (O1 & O2 & O3).
    assert (Ho : pid_sub cb (r_base r) = j).
    { destruct (N.le_gt_cases (pid_sub cb (r_base r)) j); [apply (sidx_inj_geo r _ _ G); [assumption|lia|exact Hsx]|symmetry; apply (sidx_inj_geo r _ _ G); [lia|lia|auto]]. }
    pose proof (chan_lt_of_base r chan cb ML Hcb) as Hcl.
    match goal with |- Geo ?R /\ _ => set (r' := R) end.
    pose proof (sidx_lt_geo r j G) as Hi.
    assert (Hgs : forall i, get_slot r' i = if Nat.eqb (sidx r j) i then slot_set_marker (get_slot r (sidx r j)) None else get_slot r i).
    { intros i. unfold get_slot. cbn [r' set_chans set_slots r_slots]. apply nth_upd_eq. exact Hi. }
    assert (Hgc : forall c, get_chan r' c = if chan =? c then mkRChan None (rc_count (get_chan r chan)) else get_chan r c).
    { intros c. unfold get_chan at 1. cbn [r' set_chans set_slots r_chans]. rewrite get_chan_upd by exact Hcl.
      destruct (chan =? c); [|reflexivity]. reflexivity. }
    assert (G' : Geo r'). { destruct G as (A & B & C & D & E). unfold Geo. cbn [r' set_chans set_slots r_wsize r_slots r_base]. rewrite upd_length. auto. }
    assert (Hsidx : forall k, sidx r' k = sidx r k) by reflexivity.
    assert (Hso : forall k, so r' k = if Nat.eqb (sidx r j) (sidx r k) then slot_set_marker (so r j) None else so r k).
    { intros k. unfold so. rewrite Hsidx. apply Hgs. }
    split; [exact G'|]. split.
    { (* MK r' *)
      split; [cbn [r' set_chans set_slots r_chans]; rewrite upd_length; exact ML|]. split.
      - intros c cb' Hc. rewrite Hgc in Hc. destruct (N.eqb_spec chan c) as [->|Hne]; [discriminate Hc|].
        destruct (M1 _ _ Hc) as (P1 & P2 & P3). change (r_base r') with (r_base r). change (r_wsize r') with (r_wsize r).
        split; [exact P1|]. split; [exact P2|]. rewrite Hso.
        destruct (Nat.eqb_spec (sidx r j) (sidx r (pid_sub cb' (r_base r)))) as [E|_]; [|exact P3].
        exfalso. unfold so in P3, O3. rewrite <- E, <- Hsx in P3. rewrite O3 in P3. congruence.
      - intros k c Hk Hm. change (r_wsize r') with (r_wsize r) in Hk. rewrite Hso in Hm.
        destruct (Nat.eqb_spec (sidx r j) (sidx r k)) as [E|Hne]; [discriminate Hm|].
        destruct (M2 _ _ Hk Hm) as (cb' & Hc' & Hs'). exists cb'. rewrite Hgc.
        destruct (N.eqb_spec chan c) as [<-|_]; [|split; [exact Hc'|exact Hs']].
        exfalso. rewrite Hcb in Hc'. injection Hc' as <-. rewrite Ho in Hs'. contradiction. }
    split; [reflexivity|]. split; [reflexivity|]. split; [reflexivity|]. split.
    { intros i. rewrite Hgs. destruct (Nat.eqb_spec (sidx r j) i) as [<-|_]; [|apply same_but_marker_refl]. unfold same_but_marker, slot_set_marker. cbn. auto 10. }
    split. { rewrite Hgs, Nat.eqb_refl. reflexivity. }
    split. { intros i Hi'. rewrite Hgs. destruct (Nat.eqb_spec (sidx r j) i); [congruence|reflexivity]. }
    intros c. rewrite Hgc. destruct (N.eqb_spec chan c) as [<-|Hne].
    + rewrite Hcb, Ho, N.eqb_refl. reflexivity.
    + destruct (rc_base (get_chan r c)) as [cb'|] eqn:Hc'; [|reflexivity].
      destruct (N.eqb_spec (pid_sub cb' (r_base r)) j) as [E|_]; [|reflexivity].
      exfalso. destruct (M1 _ _ Hc') as (_ & _ & P3). rewrite E in P3. unfold so in P3. rewrite Em in P3. congruence.
  - (* no marker: nothing happens; no channel has its base here *)
    split; [exact G|]. split; [exact (conj ML (conj M1 M2))|]. repeat split; auto using same_but_marker_refl.
    intros c. destruct (rc_base (get_chan r c)) as [cb'|] eqn:Hc'; [|reflexivity].
    destruct (N.eqb_spec (pid_sub cb' (r_base r)) j) as [E|_]; [|reflexivity].
    exfalso. destruct (M1 _ _ Hc') as (_ & _ & P3). rewrite E in P3. unfold so in P3. rewrite Em in P3. discriminate P3.
Qed.

Lemma adv_unset_spec : forall n j0 id r,
  Geo r -> MK r -> id mod pow20 = (r_base r + j0) mod pow20 -> j0 + N.of_nat n <= r_wsize r ->
  let r2 := adv_unset n id r in
  Geo r2 /\ MK r2 /\ r_base r2 = r_base r /\ r_end r2 = r_end r /\ r_wsize r2 = r_wsize r /\
  (forall i, same_but_marker (get_slot r i) (get_slot r2 i)) /\
  (forall j, j0 < j -> j <= j0 + N.of_nat n -> sl_marker (get_slot r2 (sidx r j)) = None) /\
  (forall i, (forall j, j0 < j -> j <= j0 + N.of_nat n -> sidx r j <> i) -> sl_marker (get_slot r2 i) = sl_marker (get_slot r i)) /\
  (forall c, rc_base (get_chan r2 c) =
             match rc_base (get_chan r c) with
             | Some cb => if (j0 <? pid_sub cb (r_base r)) && (pid_sub cb (r_base r) <=? j0 + N.of_nat n) then None else Some cb
             | None => None end).
Proof.
  induction n as [|n IH]; intros j0 id r G M Hid Hn; cbn [adv_unset].
  - cbv zeta. split; [exact G|]. split; [exact M|]. repeat split; auto using same_but_marker_refl.
    + intros j H1 H2. lia.
    + intros c. destruct (rc_base (get_chan r c)) as [cb|]; [|reflexivity].
      destruct (N.ltb_spec j0 (pid_sub cb (r_base r))), (N.leb_spec (pid_sub cb (r_base r)) (j0 + N.of_nat 0)); cbn [andb]; try reflexivity. lia.
  - cbv zeta.
    assert (Hid' : pid_add id 1 mod pow20 = (r_base r + (j0 + 1)) mod pow20).
    { destruct (pid_add_any id 1 ltac:(reflexivity)) as [Ha _]. rewrite Ha, N.add_assoc. apply succ_arith_gen. exact Hid. }
    destruct (try_unset_spec r (pid_add id 1) (j0 + 1) G M Hid' ltac:(lia) ltac:(lia)) as (G1 & M1 & B1 & E1 & W1 & S1 & N1 & K1 & C1).
    set (r1 := try_unset_channel_base_id r (pid_add id 1)) in *.
    assert (Hid1 : pid_add id 1 mod pow20 = (r_base r1 + (j0 + 1)) mod pow20) by (rewrite B1; exact Hid').
    destruct (IH (j0 + 1) (pid_add id 1) r1 G1 M1 Hid1 ltac:(rewrite W1; lia)) as (G2 & M2 & B2 & E2 & W2 & S2 & N2 & K2 & C2).
    assert (Hsx : forall j, sidx r1 j = sidx r j) by (intros j; unfold sidx; rewrite B1, W1; reflexivity).
    split; [exact G2|]. split; [exact M2|]. split; [congruence|]. split; [congruence|]. split; [congruence|].
    split. { intros i. eapply same_but_marker_trans; [apply S1|apply S2]. }
    split.
    { intros j H1 H2. destruct (N.eq_dec j (j0 + 1)) as [->|Hne].
      - (* cleared by the first step; later steps touch other slots or clear again *)
        destruct (sl_marker (get_slot (adv_unset n (pid_add id 1) r1) (sidx r (j0 + 1)))) as [c|] eqn:Em; [|reflexivity].
        exfalso.
        (* if it were kept by the rest, it would equal the (cleared) marker after the first step *)
        assert (Hkeep : forall j', j0 + 1 < j' -> j' <= j0 + 1 + N.of_nat n -> sidx r1 j' <> sidx r (j0 + 1)).
        { intros j' A1 A2 E. rewrite Hsx in E. symmetry in E.
          assert (Hd : j' - (j0 + 1) < r_wsize r) by (clear - A2 Hn; lia).
          assert (Hl : j0 + 1 <= j') by (clear - A1; lia).
          pose proof (sidx_inj_geo r (j0 + 1) j' G Hl Hd E) as Q. clear - Q A1. lia. }
        rewrite (K2 _ Hkeep) in Em. rewrite N1 in Em. discriminate Em.
      - rewrite <- Hsx. apply N2; lia. }
    split.
    { intros i Hi. rewrite K2.
      - apply K1. intros E. apply (Hi (j0 + 1)); [lia|lia|symmetry; exact E].
      - intros j A1 A2. rewrite Hsx. apply Hi; lia. }
    intros c. rewrite C2, C1, B1. destruct (rc_base (get_chan r c)) as [cb|]; [|reflexivity].
    set (o := pid_sub cb (r_base r)).
    destruct (N.eqb_spec o (j0 + 1)) as [E|Hne].
    + clearbody o. clear - E. destruct (N.ltb_spec j0 o), (N.leb_spec o (j0 + N.of_nat (S n))); cbn [andb]; try reflexivity; lia.
    + fold o. clearbody o. clear - Hne. destruct (N.ltb_spec (j0 + 1) o), (N.leb_spec o (j0 + 1 + N.of_nat n)), (N.ltb_spec j0 o), (N.leb_spec o (j0 + N.of_nat (S n))); cbn [andb]; try reflexivity; lia.
Qed.

Lemma so_W r : Geo r -> so r (r_wsize r) = so r 0.
Proof. intros (H & _). unfold so, sidx. rewrite mod_W_W by exact H. rewrite N.add_0_r. reflexivity. Qed.

Lemma RI_MK r : RI r -> MK r.
Proof.
  intros I. pose proof (RI_Geo r I) as G. split; [exact (ri_chans r I)|]. split.
  - intros c cb Hc. destruct (ri_cb r I c cb Hc) as (_ & B2 & B3 & B4 & _). pose proof (ri_eoff r I). repeat split; auto. lia.
  - intros k c Hk Hm. destruct (ri_mk r I k c Hk Hm) as (cb & Hc & [->|[-> E]]); exists cb; (split; [exact Hc|]); [reflexivity|].
    rewrite E. unfold sidx. destruct G as (H & _). rewrite mod_W_W by exact H. rewrite N.add_0_r. reflexivity.
Qed.

Lemma advance_window_RI r nb :
  RI r -> nb < pow20 -> pid_sub nb (r_base r) <= r_wsize r ->
  (forall k, k < pid_sub nb (r_base r) -> sl_dflag (so r k) = false) ->
  let r' := advance_window r nb in
  RI r' /\ r_base r' = nb /\ r_wsize r' = r_wsize r /\
  (forall c, cboff r' c = cboff r c - pid_sub nb (r_base r)) /\
  (forall k, k < r_wsize r -> pid_sub nb (r_base r) + k < r_wsize r ->
     same_but_marker (so r (pid_sub nb (r_base r) + k)) (so r' k)).
Proof.
  intros I Hnb Hd Hnf. cbv zeta. remember (pid_sub nb (r_base r)) as delta eqn:Ed.
  pose proof (RI_Geo r I) as G. pose proof (RI_MK r I) as M0. destruct (ri_w r I) as (HW & H2W & Hdiv).
  pose proof (ri_base r I) as Hbase. pose proof (ri_end r I) as Hend. pose proof (ri_eoff r I) as Heo.
  assert (Hnbc : nb mod pow20 = (r_base r + delta) mod pow20) by (rewrite Ed; apply pid_sub_id; assumption).
  assert (Hb0 : r_base r mod pow20 = (r_base r + 0) mod pow20) by (rewrite N.add_0_r; reflexivity).
  assert (Hdn : 0 + N.of_nat (N.to_nat delta) <= r_wsize r) by lia.
  destruct (adv_clear_spec (N.to_nat delta) 0 (r_base r) r G Hb0 Hdn) as (A1 & A2 & A3 & A4 & A5 & A6).
  set (r1 := adv_clear (N.to_nat delta) (r_base r) r) in *.
  assert (G1 : Geo r1). { destruct G as (P1 & P2 & P3 & P4 & P5). unfold Geo. rewrite A1, A3, A5. auto. }
  assert (Hsx1 : forall j, sidx r1 j = sidx r j) by (intros j; unfold sidx; rewrite A1, A3; reflexivity).
  assert (Hmk1 : forall k, k <= r_wsize r -> sl_marker (so r1 k) = sl_marker (so r k) /\ (delta <= k -> k < r_wsize r -> so r1 k = so r k)).
  { intros k Hk. destruct (N.eq_dec k (r_wsize r)) as [->|Hne].
    - rewrite <- A3 at 1. rewrite (so_W r1 G1), (so_W r G). split; [|lia]. rewrite (A6 0 HW). destruct (_ && _); reflexivity.
    - assert (Hk' : k < r_wsize r) by lia. rewrite (A6 k Hk'). split.
      + destruct (_ && _); reflexivity.
      + intros Hdk _. destruct (N.leb_spec 0 k); [|lia]. destruct (N.ltb_spec k (0 + N.of_nat (N.to_nat delta))); [lia|]. reflexivity. }
  assert (M1 : MK r1).
  { destruct M0 as (ML & Ma & Mb). split; [rewrite A4; exact ML|]. split.
    - intros c cb Hc. unfold get_chan in Hc. rewrite A4 in Hc. destruct (Ma c cb Hc) as (P1 & P2 & P3). rewrite A1, A3.
      split; [exact P1|]. split; [exact P2|]. rewrite (proj1 (Hmk1 _ P2)). exact P3.
    - intros k c Hk Hm. rewrite A3 in Hk. rewrite (proj1 (Hmk1 k ltac:(lia))) in Hm. destruct (Mb k c Hk Hm) as (cb & Hc & Hs).
      exists cb. unfold get_chan. rewrite A4, A1, !Hsx1. split; [exact Hc|exact Hs]. }
  assert (Hb1 : r_base r mod pow20 = (r_base r1 + 0) mod pow20) by (rewrite A1, N.add_0_r; reflexivity).
  assert (Hdn1 : 0 + N.of_nat (N.to_nat delta) <= r_wsize r1) by (rewrite A3; lia).
  destruct (adv_unset_spec (N.to_nat delta) 0 (r_base r) r1 G1 M1 Hb1 Hdn1) as (G2 & M2 & B1 & B2 & B3 & B4 & B5 & B6 & B7).
  set (r2 := adv_unset (N.to_nat delta) (r_base r) r1) in *.
  unfold advance_window. rewrite <- Ed. fold r1. fold r2. cbv zeta.
  match goal with |- RI ?R /\ _ => set (r' := R) end.
  clearbody r1 r2.
  replace (0 + N.of_nat (N.to_nat delta)) with delta in * by (clear; lia).
  assert (Hbase' : r_base r' = nb) by reflexivity. assert (Hw' : r_wsize r' = r_wsize r) by (cbn [r' r_wsize]; congruence).
  assert (Hsl' : r_slots r' = r_slots r2) by reflexivity. assert (Hch' : r_chans r' = r_chans r2) by reflexivity.
  assert (Hen' : r_end r' = if eoff r <? delta then nb else r_end r) by reflexivity.
  clearbody r'.
  (* slot of r' at offset k is the slot of r2 at offset delta + k of r *)
  assert (Hsx' : forall k, sidx r' k = sidx r (delta + k)).
  { intros k. unfold sidx. rewrite Hbase', Hw'. f_equal. apply (cong_W _ HW Hdiv). apply shift_arith2. exact Hnbc. }
  assert (Hso' : forall k, so r' k = get_slot r2 (sidx r (delta + k))).
  { intros k. unfold so, get_slot. rewrite Hsx', Hsl'. reflexivity. }
  (* channel bases *)
  assert (Hcb2 : forall c, rc_base (get_chan r' c) =
                           match rc_base (get_chan r c) with Some cb => if pid_sub cb (r_base r) <=? delta then None else Some cb | None => None end).
  { intros c. replace (get_chan r' c) with (get_chan r2 c) by (unfold get_chan; rewrite Hch'; reflexivity). rewrite B7. unfold get_chan at 1. rewrite A4. fold (get_chan r c). rewrite A1.
    destruct (rc_base (get_chan r c)) as [cb|] eqn:Hc; [|reflexivity].
    destruct (ri_cb r I c cb Hc) as (_ & P2 & _). destruct (N.ltb_spec 0 (pid_sub cb (r_base r))); [|lia]. reflexivity. }
  assert (Hoff' : forall c cb, rc_base (get_chan r c) = Some cb -> delta < pid_sub cb (r_base r) -> pid_sub cb nb = pid_sub cb (r_base r) - delta).
  { intros c cb Hc Hlt. destruct (ri_cb r I c cb Hc) as (P1 & P2 & P3 & _).
    apply pid_sub_spec; [exact Hnb|unfold pow20 in *; lia|].
    apply (shift_arith cb (r_base r) nb _ delta); [apply pid_sub_id; assumption|exact Hnbc|lia]. }
  assert (Hcboff : forall c, cboff r' c = cboff r c - delta).
  { intros c. unfold cboff. rewrite Hcb2, Hbase'. destruct (rc_base (get_chan r c)) as [cb|] eqn:Hc; [|reflexivity].
    destruct (N.leb_spec (pid_sub cb (r_base r)) delta) as [Hle|Hgt].
    + Show.
      assert_succeeds (clear Hnbc Hb0 Hb1 Hdiv; idtac "cleared mod hyps"; timeout 10 lia; idtac "OK1").
      assert_succeeds (clear I G G1 G2 M0 M1 M2; idtac "cleared records"; timeout 10 lia; idtac "OK2").
      assert_succeeds (clear Hnf A6 Hmk1 B4 B5 B6 B7 Hcb2 Hoff' Hso' Hsx' Hsx1; idtac "cleared foralls"; timeout 10 lia; idtac "OK3").
Abort.
