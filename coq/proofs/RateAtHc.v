(* RateAtHc.v — C13: the allowed rate of a HalfConnection never exceeds the negotiated ceiling, in every reachable
   state: for any sequence of sends, receives, steps, flushes and incoming frames, sr_rate (h_src h) <= the
   tx_bandwidth_limit the connection was created with. (The rate controller is touched by step() and by the
   frame-sent notification of every data frame only; C14/C13_rate_le_ceiling is the same bound for the controller
   alone.) This is the rate that refill(rate, t_prev, t_now) of the credit ledger uses. *)
From Coq Require Import ZArith Lia ZifyBool ZifyN ZifyNat.
From UF Require Import Consts Base Frame Codec F64 Feedback Sender Receiver FrameAck Heap FrameQueue SendRate HalfConn
                       BaseLemmas SendRateProofs HcLemmas HcTotal HcStepTotal.
Local Open Scope N_scope.

Section Ceil.
  Variable m : N.
  Hypothesis Hm : MSS <= m.

  Definition RC (h : hc) : Prop := SrInv (h_src h) /\ sr_max_rate (h_src h) = m.

  Lemma RC_ext h h' : h_src h' = h_src h -> RC h -> RC h'.
  Proof. unfold RC. intros ->. auto. Qed.

  Lemma Hmin c : sr_max_rate c = m -> MINIMUM_RATE <= sr_max_rate c.
  Proof. intros ->. cbv [MINIMUM_RATE MSS] in *. lia. Qed.

  Lemma RC_fin e : RC (es_h e) -> RC (es_h (dfe_finalize e)).
  Proof.
    unfold dfe_finalize. destruct (es_ip e) as [f|]; [|auto]. intros [I E]. cbn [es_h].
    unfold RC. cbn [set_sync_base set_credit set_src set_fq h_src].
    destruct (rate_step_inv (h_src (es_h e)) (RSent (h_now (es_h e))) I (Hmin _ E)) as [A B]. cbn [rate_step] in A, B.
    split; [exact A|congruence].
  Qed.

  Lemma hc_flush_RC h h' out : hc_flush h = Ok (h', out) -> RC h -> RC h'.
  Proof.
    unfold hc_flush. intros E H.
    destruct (emit_ack_frames h []) as [[[h1 out1] ok1]| |] eqn:E1; cbn [bind] in E; try discriminate.
    assert (H1 : RC h1).
    { destruct (emit_ack_frames_core _ _ _ _ _ E1) as (A & _ & C & _). revert H. apply RC_ext. exact C. }
    destruct (negb ok1); [inversion E; subst; exact H1|].
    destruct (emit_data_frames (hc_flush_fuel h1) h1 out1) as [[[h2 out2] ok2]| |] eqn:E2; cbn [bind] in E; try discriminate.
    assert (H2 : RC h2).
    { revert H1. eapply (g_emit_data RC); try eassumption.
      - intros h0 rq. apply RC_ext; reflexivity.
      - intros h0 pq. apply RC_ext; reflexivity.
      - intros h0. apply RC_ext; reflexivity.
      - apply RC_fin.
      - intros e. apply RC_ext; reflexivity. }
    destruct (negb ok2); [inversion E; subst; exact H2|].
    destruct (emit_sync_frame_core h2 out2) as (A & _ & C & _).
    destruct (emit_sync_frame h2 out2) as [[h3 out3] ok3]. cbn [fst] in A, C. inversion E; subst.
    revert H2. apply RC_ext. exact C.
  Qed.

  Lemma hc_step_RC h now h' : hc_step h now = Ok h' -> RC h -> RC h'.
  Proof.
    unfold hc_step. intros E [I Em].
    destruct (fq_forget_frames _ _ _) as [q1| |]; cbn [bind] in E; try discriminate.
    destruct (fq_get_feedback q1 now) as [q2 fb].
    destruct (src_step (h_src h) now fb) as [[src' reset]| |] eqn:Es; cbn [bind] in E; try discriminate.
    match type of E with (do q3 <- ?X; _) = _ => destruct X as [q3| |]; cbn [bind] in E; try discriminate end.
    inversion E; subst h'. unfold RC. cbn [h_src].
    destruct (rate_step_inv (h_src h) (RStep now fb) I (Hmin _ Em)) as [A B]. cbn [rate_step] in A, B. rewrite Es in A, B.
    split; [exact A|congruence].
  Qed.

  Lemma hc_apply_RC h o : RC h -> RC (hc_apply h o).
  Proof.
    intros H. destruct o as [d c k| |now| |f]; cbn [hc_apply].
    - revert H. apply RC_ext; reflexivity.
    - revert H. unfold hc_receive. destruct (receiver_receive (h_rcv h)). apply RC_ext; reflexivity.
    - destruct (hc_step h now) as [h'| |] eqn:E; [eapply hc_step_RC; eassumption|exact H|exact H].
    - destruct (hc_flush h) as [[h' out]| |] eqn:E; [eapply hc_flush_RC; eassumption|exact H|exact H].
    - destruct (hc_handle_frame h f) as [[h' k]| |] eqn:E; [|exact H|exact H]. revert H. apply RC_ext.
      destruct f; cbn [hc_handle_frame] in E; try (inversion E; reflexivity).
      + inversion E; subst. unfold hc_handle_data_frame. destruct (faq_contains _ _); reflexivity.
      + inversion E; subst. unfold hc_handle_sync_frame. destruct next_frame_id, next_packet_id; reflexivity.
      + unfold hc_handle_ack_frame in E. destruct (ack_groups _ _ _ _) as [r| |]; cbn [bind] in E; try discriminate.
        destruct (fq_advance_transfer_window _ _ _) as [q2| |]; cbn [bind] in E; try discriminate.
        destruct (sender_acknowledge _ _) as [s2| |]; cbn [bind] in E; try discriminate. inversion E; reflexivity.
  Qed.
End Ceil.

Theorem hc_rate_le_ceiling c seed ops :
  MSS <= cfg_tx_bandwidth_limit c ->
  sr_rate (h_src (fold_left hc_apply ops (hc_new c seed))) <= cfg_tx_bandwidth_limit c.
Proof.
  intros Hm. set (m := cfg_tx_bandwidth_limit c).
  assert (G : forall h, RC m h -> RC m (fold_left hc_apply ops h)).
  { induction ops as [|o t IH]; intros h H; cbn [fold_left]; [exact H|]. apply IH. apply hc_apply_RC; assumption. }
  destruct (G (hc_new c seed)) as [I E].
  - split; [apply src_new_inv; exact Hm|reflexivity].
  - rewrite <- E. exact (si_ceiling _ I).
Qed.
