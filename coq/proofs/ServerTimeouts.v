(* ServerTimeouts.v — C10, server side: handshake and disconnect attempts over whole histories. Ghost: T id = the
   server clock (ms since bind) of the step in which tracked object `id` was created, i.e. in which its connection
   request was accepted; U id = the server clock of the step in which it started closing (the application's
   disconnect took effect and the first Disconnect request went out). Invariant over every history of steps (any
   datagrams, any clock values), flushes, drops, sends and disconnect calls: every timer names an existing object;
   every SYN+ACK resend timer of a still-pending object satisfies
       T id + 22000 <= expiry time + 2000 * remaining resends,
   every disconnect resend timer belongs to an object that is closing or beyond, and while it is closing
       U id + 22000 <= expiry time + 2000 * remaining resends.
   Consequence: when the timer loop gives up on a pending handshake or on a disconnect (the only places that forget
   such an entry and report Error(Timeout)), at least 22 s have passed since the attempt began — "after the retry
   budget (10 resends, 2 s apart) and not before". *)
From Coq Require Import ZArith Lia ZifyBool ZifyN ZifyNat.
From UF Require Import Consts Base Frame Codec F64 Feedback Sender Receiver FrameAck Heap FrameQueue SendRate HalfConn Endpoint
                       BaseLemmas SenderProofs HeapCount EndpointProofs EndpointTotal.
Local Open Scope N_scope.

Definition is_pending (st : sv_cstate) : bool := match st with SvPending _ _ _ _ _ => true | _ => false end.

Definition SBUDGET : N := (SERVER_HANDSHAKE_RESEND_COUNT + 1) * SERVER_HANDSHAKE_RESEND_INTERVAL_MS.   (* 22000 *)

Definition is_closing (st : sv_cstate) : bool := match st with SvClosing => true | _ => false end.
Definition rank (st : sv_cstate) : N :=
  match st with SvPending _ _ _ _ _ => 0 | SvActive _ _ _ _ => 1 | SvClosing => 2 | SvClosed => 3 | SvFin => 4 end.

(* the ghost: T id = server clock of the step that created object id; U id = server clock of the step in which
   it started closing (meaningful while it is closing) *)
Definition ghost := ((N -> N) * (N -> N))%type.

Definition okb (s : server) (G : ghost) (e : rq_entry) : bool :=
  (rq_uid e <? len (sv_objs s)) &&
  (if (rq_frag e =? 0) && is_pending (so_state (sv_obj_get s (rq_uid e)))
   then fst G (rq_uid e) + SBUDGET <=? rq_time e + SERVER_HANDSHAKE_RESEND_INTERVAL_MS * rq_count e else true) &&
  (if rq_frag e =? 1
   then (2 <=? rank (so_state (sv_obj_get s (rq_uid e)))) &&
        (if is_closing (so_state (sv_obj_get s (rq_uid e)))
         then snd G (rq_uid e) + SBUDGET <=? rq_time e + SERVER_DISCONNECT_RESEND_INTERVAL_MS * rq_count e else true)
   else true).

Definition TInv (s : server) (T : ghost) : Prop := Forall (fun e => okb s T e = true) (sv_events s).

(* ---------- Forall through the binary heap ---------- *)
(* (T below is the ghost pair) *)
Lemma heap_push_forall (P : rq_entry -> bool) h e :
  Forall (fun x => P x = true) h -> P e = true -> Forall (fun x => P x = true) (heap_push h e).
Proof.
  intros H He. apply cnt_zero_forall. rewrite heap_push_cnt. apply cnt_zero_forall in H. rewrite H, He. reflexivity.
Qed.

Lemma heap_pop_forall (P : rq_entry -> bool) h x r :
  heap_pop h = Some (x, r) -> Forall (fun y => P y = true) h -> P x = true /\ Forall (fun y => P y = true) r /\ heap_peek h = Some x.
Proof.
  intros E H. apply cnt_zero_forall in H. destruct (heap_pop_cnt (fun e => negb (P e)) h x r E) as [Hc Hp].
  rewrite H in Hc. split; [destruct (P x); [reflexivity|cbn [negb b2] in Hc; lia]|]. split; [|exact Hp].
  apply cnt_zero_forall. lia.
Qed.

(* ---------- how the state may change ---------- *)
(* the object list only grows; objects never become pending again; their rank only grows *)
Definition ext_ok (s s' : server) : Prop :=
  len (sv_objs s) <= len (sv_objs s') /\
  (forall id, id < len (sv_objs s) -> is_pending (so_state (sv_obj_get s' id)) = true ->
              so_state (sv_obj_get s' id) = so_state (sv_obj_get s id)) /\
  (forall id, id < len (sv_objs s) -> rank (so_state (sv_obj_get s id)) <= rank (so_state (sv_obj_get s' id))).

Lemma closing_rank st : is_closing st = true <-> rank st = 2.
Proof. destruct st; cbn; split; intros H; try reflexivity; try discriminate; lia. Qed.

Lemma okb_ext s s' G e : ext_ok s s' -> okb s G e = true -> okb s' G e = true.
Proof.
  unfold okb. intros (Hl & Hp & Hr) H. apply andb_true_iff in H as [H H3]. apply andb_true_iff in H as [H1 H2]. apply N.ltb_lt in H1.
  apply andb_true_iff. split; [apply andb_true_iff; split; [apply N.ltb_lt; lia|]|].
  - destruct (rq_frag e =? 0); cbn [andb] in *; [|reflexivity].
    destruct (is_pending (so_state (sv_obj_get s' (rq_uid e)))) eqn:E; [|reflexivity].
    rewrite (Hp _ H1 E) in E. rewrite E in H2. exact H2.
  - destruct (rq_frag e =? 1); [|reflexivity]. apply andb_true_iff in H3 as [H3 H4]. apply N.leb_le in H3.
    specialize (Hr _ H1). apply andb_true_iff. split; [apply N.leb_le; lia|].
    destruct (is_closing (so_state (sv_obj_get s' (rq_uid e)))) eqn:E; [|reflexivity].
    apply closing_rank in E. assert (Ec : is_closing (so_state (sv_obj_get s (rq_uid e))) = true) by (apply closing_rank; lia).
    rewrite Ec in H4. exact H4.
Qed.

Lemma ext_ok_refl s : ext_ok s s. Proof. split; [lia|]. split; [auto|intros; lia]. Qed.

Lemma ext_ok_trans a b c : ext_ok a b -> ext_ok b c -> ext_ok a c.
Proof.
  intros (L1 & P1 & R1) (L2 & P2 & R2). split; [lia|]. split.
  - intros id Hid Hp. assert (Hid' : id < len (sv_objs b)) by lia. pose proof (P2 id Hid' Hp) as E. rewrite E. apply P1; [exact Hid|]. rewrite <- E. exact Hp.
  - intros id Hid. specialize (R1 id Hid). specialize (R2 id ltac:(lia)). lia.
Qed.

Lemma nth_upd_same' {X} (d : X) : forall l i x, (i < length l)%nat -> nth i (upd l i x) d = x.
Proof. induction l as [|h t IH]; intros i x Hi; cbn [length] in Hi; [lia|]. destruct i; cbn [upd nth]; [reflexivity|]. apply IH. lia. Qed.

Lemma nth_upd_other' {X} (d : X) : forall l i j x, i <> j -> nth j (upd l i x) d = nth j l d.
Proof. induction l as [|h t IH]; intros i j x Hne; cbn [upd]; [reflexivity|]. destruct i, j; cbn [nth]; try reflexivity; try lia. apply IH. lia. Qed.

Lemma set_obj_state s id st : id < len (sv_objs s) -> so_state (sv_obj_get (sv_set_obj s id st) id) = st.
Proof. intros H. unfold sv_obj_get, sv_set_obj. cbn [sv_objs]. rewrite nth_upd_same' by (unfold len in H; lia). reflexivity. Qed.

Lemma set_obj_ext s id st : is_pending st = false -> rank (so_state (sv_obj_get s id)) <= rank st -> ext_ok s (sv_set_obj s id st).
Proof.
  intros Hst Hrk. split; [|split].
  - unfold sv_set_obj, len. cbn [sv_objs]. rewrite upd_length. lia.
  - intros j Hj Hp. unfold sv_obj_get, sv_set_obj in *. cbn [sv_objs] in *.
    destruct (N.eq_dec id j) as [->|Hne].
    + rewrite nth_upd_same' in Hp by (unfold len in Hj; lia). cbn [so_state] in Hp. congruence.
    + rewrite nth_upd_other' in * by lia. reflexivity.
  - intros j Hj. destruct (N.eq_dec id j) as [->|Hne].
    + rewrite set_obj_state by exact Hj. exact Hrk.
    + unfold sv_obj_get, sv_set_obj. cbn [sv_objs]. rewrite nth_upd_other' by lia. lia.
Qed.

Lemma same_objs_ext s s' : sv_objs s' = sv_objs s -> ext_ok s s'.
Proof. intros E. unfold ext_ok, sv_obj_get. rewrite E. split; [lia|]. split; [auto|intros; lia]. Qed.

(* a judgment threaded through the handlers of one step at server time `now`; G' is the ghost after the step *)
Definition J (G' : ghost) (s s' : server) : Prop := ext_ok s s' /\ (TInv s G' -> TInv s' G').

Lemma J_refl G' s : J G' s s. Proof. split; [apply ext_ok_refl|auto]. Qed.
Lemma J_trans G' a b c : J G' a b -> J G' b c -> J G' a c.
Proof. intros (E1 & I1) (E2 & I2). split; [eapply ext_ok_trans; eassumption|auto]. Qed.

Lemma J_quiet G' s s' : ext_ok s s' -> sv_events s' = sv_events s -> J G' s s'.
Proof.
  intros E Ev. split; [exact E|]. unfold TInv. rewrite Ev. intros H. eapply Forall_impl; [|exact H]. intros e. apply okb_ext. exact E.
Qed.

Lemma J_set_obj G' s id st : is_pending st = false -> rank (so_state (sv_obj_get s id)) <= rank st -> J G' s (sv_set_obj s id st).
Proof. intros H R. apply J_quiet; [apply set_obj_ext; assumption|reflexivity]. Qed.

Lemma J_remove G' s addr : J G' s (sv_remove_addr s addr).
Proof. apply J_quiet; [apply same_objs_ext|]; reflexivity. Qed.

Lemma J_push G' s e : okb s G' e = true -> J G' s (sv_push_event s e).
Proof.
  intros He. split; [apply same_objs_ext; reflexivity|]. unfold TInv, sv_push_event. cbn [sv_events]. intros H.
  apply heap_push_forall; [|exact He]. exact H.
Qed.

Lemma okb_other_kind s G e : rq_uid e < len (sv_objs s) -> rq_frag e <> 0 -> rq_frag e <> 1 -> okb s G e = true.
Proof.
  intros H1 H2 H3. unfold okb. apply N.ltb_lt in H1. rewrite H1.
  destruct (N.eqb_spec (rq_frag e) 0); [contradiction|]. destruct (N.eqb_spec (rq_frag e) 1); [contradiction|]. reflexivity.
Qed.

Lemma obj_in_range s id : so_state (sv_obj_get s id) <> SvFin -> id < len (sv_objs s).
Proof.
  intros H. destruct (N.lt_ge_cases id (len (sv_objs s))) as [|Hge]; [assumption|]. exfalso. apply H.
  unfold sv_obj_get. rewrite nth_overflow by (unfold len in Hge; lia). reflexivity.
Qed.

Ltac inrange E := apply obj_in_range; rewrite E; discriminate.
Ltac rk E := rewrite E; cbn [rank]; lia.

(* ---------- the handlers of one step at server time `now` ---------- *)
Section Step.
  Variables (G' : ghost) (now len0 : N) (C0 : N -> bool).
  (* objects created in this step get T = now; objects that were not closing when the step began get U = now *)
  Hypothesis Hnew : forall id, len0 <= id -> fst G' id <= now.
  Hypothesis HU : forall id, C0 id = false -> snd G' id <= now.

  Definition Pre (s : server) : Prop :=
    len0 <= len (sv_objs s) /\ forall id, C0 id = true -> id < len (sv_objs s) /\ 2 <= rank (so_state (sv_obj_get s id)).

  Lemma Pre_ext s s' : ext_ok s s' -> Pre s -> Pre s'.
  Proof.
    intros (L & _ & R) (P1 & P2). split; [lia|]. intros id Hc. destruct (P2 id Hc) as (Q1 & Q2). specialize (R id Q1). split; lia.
  Qed.

  Lemma sv_handle_syn_J s a addr v n mrr mps mra :
    Pre s -> J G' s (fst (sv_handle_syn s a addr v n mrr mps mra now)).
  Proof.
    intros (Hl & _). unfold sv_handle_syn. destruct (sv_lookup s addr); [apply J_refl|].
    destruct (negb _); [apply J_refl|]. destruct (_ || _); [apply J_refl|]. destruct (_ <? _); [apply J_refl|]. destruct (_ <? _); [apply J_refl|].
    cbn [fst].
    match goal with |- J G' s (sv_push_event ?S1 ?E) => set (s1 := S1); set (e := E) end.
    assert (E1 : ext_ok s s1).
    { split; [|split].
      - unfold s1, len. cbn [sv_objs]. rewrite app_length. cbn [length]. lia.
      - intros id Hid _. unfold sv_obj_get, s1. cbn [sv_objs]. rewrite app_nth1 by (unfold len in Hid; lia). reflexivity.
      - intros id Hid. unfold sv_obj_get, s1. cbn [sv_objs]. rewrite app_nth1 by (unfold len in Hid; lia). lia. }
    eapply J_trans; [apply J_quiet; [exact E1|reflexivity]|]. apply J_push.
    unfold okb, e. cbn [rq_uid rq_frag rq_time rq_count N.eqb]. rewrite andb_true_r. apply andb_true_iff. split.
    - apply N.ltb_lt. unfold s1, len. cbn [sv_objs]. rewrite app_length. cbn [length]. lia.
    - cbn [andb]. unfold sv_obj_get, s1. cbn [sv_objs].
      replace (N.to_nat (len (sv_objs s))) with (length (sv_objs s)) by (unfold len; lia).
      rewrite app_nth2 by lia. rewrite Nat.sub_diag. cbn [nth so_state is_pending].
      apply N.leb_le. specialize (Hnew (len (sv_objs s)) Hl). unfold SBUDGET, SERVER_HANDSHAKE_RESEND_COUNT, SERVER_HANDSHAKE_RESEND_INTERVAL_MS in *. lia.
  Qed.

  Lemma sv_handle_ack_J s a addr na vnow : J G' s (fst (sv_handle_ack s a addr na now vnow)).
  Proof.
    unfold sv_handle_ack. destruct (sv_lookup s addr) as [id|]; [|apply J_refl].
    destruct (so_state (sv_obj_get s id)) eqn:E; try apply J_refl.
    - destruct (_ && _); [|apply J_refl]. cbn [fst].
      match goal with |- context [sv_set_obj s id ?st] =>
        apply (J_trans G' s (sv_set_obj s id st)); [apply J_set_obj; [reflexivity|rk E]|apply J_quiet; [apply same_objs_ext|]; reflexivity] end.
    - cbn [fst]. apply J_set_obj; [reflexivity|rk E].
  Qed.

  Lemma sv_handle_disconnect_J s a addr : J G' s (fst (sv_handle_disconnect s a addr now)).
  Proof.
    unfold sv_handle_disconnect. destruct (sv_lookup s addr) as [id|]; [|apply J_refl].
    destruct (so_state (sv_obj_get s id)) eqn:E; try apply J_refl.
    - destruct (hc_receive h) as [h' pkts]. cbn [fst]. eapply J_trans; [apply (J_set_obj G' s id SvClosed); [reflexivity|rk E]|].
      apply J_push. apply okb_other_kind; [|cbn [rq_frag]; lia|cbn [rq_frag]; lia]. cbn [rq_uid].
      destruct (set_obj_ext s id SvClosed eq_refl ltac:(rk E)) as (L & _). assert (id < len (sv_objs s)) by (inrange E). lia.
    - cbn [fst]. eapply J_trans; [apply (J_set_obj G' s id SvClosed); [reflexivity|rk E]|].
      apply J_push. apply okb_other_kind; [|cbn [rq_frag]; lia|cbn [rq_frag]; lia]. cbn [rq_uid].
      destruct (set_obj_ext s id SvClosed eq_refl ltac:(rk E)) as (L & _). assert (id < len (sv_objs s)) by (inrange E). lia.
  Qed.

  Lemma sv_handle_disconnect_ack_J s a addr : J G' s (fst (sv_handle_disconnect_ack s a addr)).
  Proof.
    unfold sv_handle_disconnect_ack. destruct (sv_lookup s addr) as [id|]; [|apply J_refl].
    destruct (so_state (sv_obj_get s id)) eqn:E; try apply J_refl. cbn [fst].
    eapply J_trans; [apply (J_set_obj G' s id SvFin); [reflexivity|rk E]|apply J_remove].
  Qed.

  Lemma sv_handle_hc_frame_J s a addr f r : sv_handle_hc_frame s a addr f now = Ok r -> J G' s (fst r).
  Proof.
    unfold sv_handle_hc_frame. destruct (sv_lookup s addr) as [id|]; [|intros E; inversion E; apply J_refl].
    destruct (so_state (sv_obj_get s id)) eqn:Es; try (intros E; inversion E; apply J_refl).
    destruct (hc_handle_frame h f) as [[h' k]| |]; cbn [bind fst]; try discriminate. intros E; inversion E. cbn [fst]. apply J_set_obj; [reflexivity|rk Es].
  Qed.

  Lemma sv_handle_frame_J s a addr f vnow r : Pre s -> sv_handle_frame s a addr f now vnow = Ok r -> J G' s (fst r).
  Proof.
    intros Hl. destruct f; cbn [sv_handle_frame]; intros E; try (inversion E; subst; cbn [fst]);
      auto using sv_handle_syn_J, sv_handle_ack_J, sv_handle_disconnect_J, sv_handle_disconnect_ack_J, J_refl;
      eapply sv_handle_hc_frame_J; exact E.
  Qed.

  Lemma sv_handle_frames_J vnow : forall inbox s a r, Pre s -> sv_handle_frames inbox s a now vnow = Ok r -> J G' s (fst r).
  Proof.
    induction inbox as [|[addr bytes] rest IH]; intros s a r Hl E; cbn [sv_handle_frames] in E.
    - inversion E. apply J_refl.
    - destruct (read_frame bytes) as [[f|]| |]; cbn [bind] in E; try discriminate.
      + destruct (sv_handle_frame s a addr f now vnow) as [[s1 a1]| |] eqn:E1; cbn [bind fst snd] in E; try discriminate.
        pose proof (sv_handle_frame_J _ _ _ _ _ _ Hl E1) as J1. cbn [fst] in J1.
        eapply J_trans; [exact J1|]. eapply IH; [|exact E]. eapply Pre_ext; [exact (proj1 J1)|exact Hl].
      + eapply IH; eassumption.
  Qed.

  (* a due timer: the entry handed to handle_event satisfies the invariant and has expired *)
  Lemma sv_handle_event_J s a ev : okb s G' ev = true -> rq_time ev <= now -> J G' s (fst (sv_handle_event s a ev now)).
  Proof.
    intros Hok Hdue. unfold sv_handle_event. destruct (so_state (sv_obj_get s (rq_uid ev))) eqn:E; try apply J_refl.
    - destruct (N.eqb_spec (rq_frag ev) 0) as [Ek|]; [|apply J_refl]. destruct (N.ltb_spec 0 (rq_count ev)) as [Hc|Hc]; cbn [fst].
      + apply J_push. unfold okb in *. cbn [rq_uid rq_frag rq_time rq_count N.eqb]. rewrite andb_true_r.
        apply andb_true_iff in Hok as [Hok _]. apply andb_true_iff in Hok as [H1 H2].
        apply andb_true_iff. split; [exact H1|]. rewrite E. cbn [andb is_pending].
        rewrite Ek, E in H2. cbn [N.eqb andb is_pending] in H2. apply N.leb_le in H2. apply N.leb_le.
        unfold SERVER_HANDSHAKE_RESEND_INTERVAL_MS in *. lia.
      + eapply J_trans; [apply (J_set_obj G' s (rq_uid ev) SvFin); [reflexivity|rk E]|apply J_remove].
    - destruct (N.eqb_spec (rq_frag ev) 1) as [Ek|]; [|apply J_refl]. destruct (N.ltb_spec 0 (rq_count ev)) as [Hc|Hc]; cbn [fst].
      + apply J_push. unfold okb in *. cbn [rq_uid rq_frag rq_time rq_count N.eqb].
        apply andb_true_iff in Hok as [Hok H3]. apply andb_true_iff in Hok as [H1 _]. rewrite H1. cbn [andb]. rewrite E. cbn [rank is_closing N.leb andb].
        rewrite Ek, E in H3. cbn [N.eqb rank is_closing N.leb andb] in H3. apply N.leb_le in H3. apply N.leb_le.
        unfold SERVER_DISCONNECT_RESEND_INTERVAL_MS in *. lia.
      + eapply J_trans; [apply (J_set_obj G' s (rq_uid ev) SvFin); [reflexivity|rk E]|apply J_remove].
    - destruct (rq_frag ev =? 2); cbn [fst]; [|apply J_refl].
      eapply J_trans; [apply (J_set_obj G' s (rq_uid ev) SvFin); [reflexivity|rk E]|apply J_remove].
  Qed.

  Lemma sv_pop_events_J : forall fuel s a r, TInv s G' -> sv_pop_events fuel s a now = Ok r -> ext_ok s (fst r) /\ TInv (fst r) G'.
  Proof.
    induction fuel as [|fuel IH]; intros s a r HI Er; cbn [sv_pop_events] in Er; [discriminate|].
    destruct (heap_peek (sv_events s)) as [ev|] eqn:Ep; [|inversion Er; subst; split; [apply ext_ok_refl|exact HI]].
    destruct (N.ltb_spec now (rq_time ev)) as [|Hdue]; [inversion Er; subst; split; [apply ext_ok_refl|exact HI]|].
    destruct (heap_pop (sv_events s)) as [[ev' rest]|] eqn:Epop; [|discriminate].
    destruct (heap_pop_forall (fun e => okb s G' e) _ _ _ Epop HI) as (Hok & Hrest & Hpk). rewrite Ep in Hpk. injection Hpk as <-.
    set (s1 := mkServer (sv_cfg s) (sv_objs s) (sv_clients s) (sv_active s) rest (sv_t0 s) (sv_seed s)) in *.
    assert (E1 : ext_ok s s1) by (apply same_objs_ext; reflexivity).
    assert (I1 : TInv s1 G'). { unfold TInv, s1. cbn [sv_events]. eapply Forall_impl; [|exact Hrest]. intros e. apply okb_ext. exact E1. }
    pose proof (sv_handle_event_J s1 a ev (okb_ext _ _ _ _ E1 Hok) Hdue) as (E2 & I2).
    destruct (sv_handle_event s1 a ev now) as [s2 a2]. cbn [fst] in E2, I2.
    destruct (IH s2 a2 r (I2 I1) Er) as (E3 & I3). split; [|exact I3].
    eapply ext_ok_trans; [exact E1|]. eapply ext_ok_trans; eassumption.
  Qed.

  Lemma sv_active_timeouts_J : forall ids s a, J G' s (fst (sv_active_timeouts ids s a now)).
  Proof.
    induction ids as [|id rest IH]; intros s a; cbn [sv_active_timeouts]; [apply J_refl|].
    destruct (so_state (sv_obj_get s id)) eqn:E; try apply IH. destruct (_ <=? now); [|apply IH].
    destruct (hc_receive h) as [h' pkts]. eapply J_trans; [|apply IH].
    eapply J_trans; [apply (J_set_obj G' s id SvFin); [reflexivity|rk E]|apply J_remove].
  Qed.

  Lemma sv_flush_active_J : forall ids s a r, sv_flush_active ids s a = Ok r -> J G' s (fst r).
  Proof.
    induction ids as [|id rest IH]; intros s a r Er; cbn [sv_flush_active] in Er; [inversion Er; apply J_refl|].
    destruct (so_state (sv_obj_get s id)) eqn:E; try (eapply IH; eassumption).
    destruct (hc_flush h) as [[h' out]| |]; cbn [bind fst snd] in Er; try discriminate.
    eapply J_trans; [|eapply IH; exact Er]. apply J_set_obj; [reflexivity|rk E].
  Qed.

  Lemma sv_step_active_J vnow : forall ids s a r, Pre s -> sv_step_active ids s a now vnow = Ok r -> J G' s (fst r).
  Proof.
    induction ids as [|id rest IH]; intros s a r HP Er; cbn [sv_step_active] in Er; [inversion Er; apply J_refl|].
    destruct (so_state (sv_obj_get s id)) eqn:E; try (eapply IH; eassumption).
    match type of Er with (if ?x then _ else _) = _ => destruct x end.
    - destruct (hc_receive h) as [h' pkts].
      assert (Hid : id < len (sv_objs s)) by (inrange E).
      assert (J1 : J G' s (sv_push_event (sv_set_obj s id SvClosing) (mkRq id 1 (now + SERVER_DISCONNECT_RESEND_INTERVAL_MS) SERVER_DISCONNECT_RESEND_COUNT))).
      { eapply J_trans; [apply (J_set_obj G' s id SvClosing); [reflexivity|rk E]|].
        apply J_push. unfold okb. cbn [rq_uid rq_frag rq_time rq_count N.eqb andb].
        destruct (set_obj_ext s id SvClosing eq_refl ltac:(rk E)) as (L & _).
        assert (Hlt : id <? len (sv_objs (sv_set_obj s id SvClosing)) = true) by (apply N.ltb_lt; lia). rewrite Hlt. cbn [andb].
        rewrite (set_obj_state s id SvClosing Hid). cbn [rank is_closing N.leb andb].
        assert (Hc0 : C0 id = false).
        { destruct (C0 id) eqn:Hc; [|reflexivity]. destruct HP as (_ & P2). destruct (P2 id Hc) as (_ & Q). rewrite E in Q. cbn [rank] in Q. lia. }
        specialize (HU id Hc0). apply N.leb_le. unfold SBUDGET, SERVER_HANDSHAKE_RESEND_COUNT, SERVER_HANDSHAKE_RESEND_INTERVAL_MS, SERVER_DISCONNECT_RESEND_INTERVAL_MS, SERVER_DISCONNECT_RESEND_COUNT in *. lia. }
      eapply J_trans; [exact J1|]. eapply IH; [|exact Er]. eapply Pre_ext; [exact (proj1 J1)|exact HP].
    - destruct (hc_step h (vnow - t0)) as [h1| |]; cbn [bind] in Er; try discriminate.
      destruct (hc_receive h1) as [h2 pkts].
      match type of Er with sv_step_active rest ?S1 _ _ _ = _ => assert (J1 : J G' s S1) by (apply J_set_obj; [reflexivity|rk E]) end.
      eapply J_trans; [exact J1|]. eapply IH; [|exact Er]. eapply Pre_ext; [exact (proj1 J1)|exact HP].
  Qed.
End Step.

(* ---------- one whole step, and whole histories ---------- *)
Definition G_after (s : server) (G : ghost) (now : N) : ghost :=
  (fun id => if id <? len (sv_objs s) then fst G id else now,
   fun id => if is_closing (so_state (sv_obj_get s id)) then snd G id else now).

Lemma TInv_G_after s G now : TInv s G -> TInv s (G_after s G now).
Proof.
  unfold TInv. intros H. eapply Forall_impl; [|exact H]. intros e He. unfold okb, G_after in *. cbn [fst snd].
  apply andb_true_iff in He as [He H3]. apply andb_true_iff in He as [H1 H2]. rewrite H1. cbn [andb]. rewrite H2. cbn [andb].
  destruct (rq_frag e =? 1); [|reflexivity]. destruct (is_closing (so_state (sv_obj_get s (rq_uid e)))); exact H3.
Qed.

Theorem server_step_TInv s G vnow inbox nonces s' evs sends rest :
  TInv s G -> server_step s vnow inbox nonces = Ok (s', evs, sends, rest) -> TInv s' (G_after s G (vnow - sv_t0 s)).
Proof.
  intros HI E. unfold server_step in E. set (now := vnow - sv_t0 s) in *. set (G' := G_after s G now).
  set (C0 := fun id => is_closing (so_state (sv_obj_get s id))). set (l0 := len (sv_objs s)).
  assert (Hnew : forall id, l0 <= id -> fst G' id <= now).
  { intros id Hid. unfold G', G_after, l0 in *. cbn [fst]. destruct (N.ltb_spec id (len (sv_objs s))); lia. }
  assert (HU : forall id, C0 id = false -> snd G' id <= now).
  { intros id Hc. unfold G', G_after, C0 in *. cbn [snd]. rewrite Hc. lia. }
  assert (P0 : Pre l0 C0 s).
  { split; [unfold l0; lia|]. intros id Hc. unfold C0 in Hc. split; [apply obj_in_range; intros Ef; rewrite Ef in Hc; discriminate Hc|].
    apply closing_rank in Hc. lia. }
  pose proof (TInv_G_after s G now HI) as I0. fold G' in I0.
  destruct (sv_flush_active (sv_active s) s _) as [[s1 a1]| |] eqn:E1; cbn [bind fst snd] in E; try discriminate.
  destruct (sv_flush_active_J G' now l0 C0 Hnew HU _ _ _ _ E1) as (X1 & I1). cbn [fst] in X1, I1.
  pose proof (Pre_ext G' now l0 C0 Hnew HU _ _ X1 P0) as P1.
  destruct (sv_handle_frames inbox s1 a1 now vnow) as [[s2 a2]| |] eqn:E2; cbn [bind fst snd] in E; try discriminate.
  destruct (sv_handle_frames_J G' now l0 C0 Hnew HU vnow _ _ _ _ P1 E2) as (X2 & I2). cbn [fst] in X2, I2.
  pose proof (Pre_ext G' now l0 C0 Hnew HU _ _ X2 P1) as P2.
  destruct (sv_pop_events _ s2 a2 now) as [[s3 a3]| |] eqn:E3; cbn [bind fst snd] in E; try discriminate.
  destruct (sv_pop_events_J G' now l0 C0 Hnew HU _ _ _ _ (I2 (I1 I0)) E3) as (X3 & I3). cbn [fst] in X3, I3.
  pose proof (Pre_ext G' now l0 C0 Hnew HU _ _ X3 P2) as P3.
  pose proof (sv_active_timeouts_J G' now l0 C0 Hnew HU (sv_active s3) s3 a3) as (X4 & I4).
  destruct (sv_active_timeouts (sv_active s3) s3 a3 now) as [s4 a4]. cbn [fst] in X4, I4.
  pose proof (Pre_ext G' now l0 C0 Hnew HU _ _ X4 P3) as P4.
  match type of E with context [sv_step_active _ ?S5 _ _ _] => set (s5 := S5) in * end.
  assert (J5 : J G' s4 s5) by (apply J_quiet; [apply same_objs_ext|]; reflexivity).
  pose proof (Pre_ext G' now l0 C0 Hnew HU _ _ (proj1 J5) P4) as P5.
  destruct (sv_step_active (sv_active s5) s5 a4 now vnow) as [[s6 a6]| |] eqn:E6; cbn [bind fst snd] in E; try discriminate.
  destruct (sv_step_active_J G' now l0 C0 Hnew HU vnow _ _ _ _ P5 E6) as (X6 & I6). cbn [fst] in X6, I6.
  inversion E; subst. apply I6. apply (proj2 J5). apply I4. exact I3.
Qed.

Definition tstep (st : server * ghost) (o : sv_op) : server * ghost :=
  let '(s, G) := st in
  match o with
  | SvStep vnow inbox nonces =>
      match server_step s vnow inbox nonces with
      | Ok (s', _, _, _) => (s', G_after s G (vnow - sv_t0 s))
      | _ => (s, G)
      end
  | _ => (sv_apply s o, G)
  end.

Lemma tstep_fst st o : fst (tstep st o) = sv_apply (fst st) o.
Proof.
  destruct st as [s G]. destruct o as [vnow inbox nonces| | | |]; cbn [tstep sv_apply fst]; try reflexivity.
  destruct (server_step s vnow inbox nonces) as [[[[s' e] sd] r]| |]; reflexivity.
Qed.

(* operations other than step() do not create objects or start closing: any bounds will do for the section *)
Lemma flush_TInv s G s' sends : TInv s G -> server_flush s = Ok (s', sends) -> TInv s' G.
Proof.
  intros HI E. unfold server_flush in E. destruct (sv_flush_active (sv_active s) s _) as [[s1 a1]| |] eqn:E1; cbn [bind fst snd] in E; try discriminate.
  inversion E; subst.
  (* the flush judgment does not depend on the ghost values *)
  assert (Jf : forall ids s0 a0 r0, sv_flush_active ids s0 a0 = Ok r0 -> J G s0 (fst r0)).
  { induction ids as [|id rest IH]; intros s0 a0 r0 Er; cbn [sv_flush_active] in Er; [inversion Er; apply J_refl|].
    destruct (so_state (sv_obj_get s0 id)) eqn:Es; try (eapply IH; eassumption).
    destruct (hc_flush h) as [[h' out]| |]; cbn [bind fst snd] in Er; try discriminate.
    eapply J_trans; [|eapply IH; exact Er]. apply J_set_obj; [reflexivity|rk Es]. }
  exact (proj2 (Jf _ _ _ _ E1) HI).
Qed.

Lemma tstep_TInv st o : TInv (fst st) (snd st) -> TInv (fst (tstep st o)) (snd (tstep st o)).
Proof.
  destruct st as [s G]. cbn [fst snd]. intros HI. destruct o as [vnow inbox nonces| |addr|addr d ch m|addr nw]; cbn [tstep].
  - destruct (server_step s vnow inbox nonces) as [[[[s' e] sd] r]| |] eqn:E; cbn [fst snd]; try exact HI.
    eapply server_step_TInv; eassumption.
  - cbn [fst snd sv_apply]. destruct (server_flush s) as [[s' sd]| |] eqn:E; try exact HI. eapply flush_TInv; eassumption.
  - cbn [fst snd sv_apply]. unfold server_drop. destruct (sv_lookup s addr) as [id|]; [|exact HI].
    assert (Jd : J G s (sv_remove_addr (sv_set_obj s id SvFin) addr)).
    { eapply J_trans; [apply (J_set_obj G s id SvFin); [reflexivity|destruct (so_state (sv_obj_get s id)); cbn [rank]; lia]|apply J_remove]. }
    exact (proj2 Jd HI).
  - cbn [fst snd sv_apply]. unfold server_client_send. destruct (sv_lookup s addr) as [id|]; [|exact HI].
    destruct (so_state (sv_obj_get s id)) eqn:Es; try exact HI.
    match goal with |- TInv (sv_set_obj s id ?st) G => apply (proj2 (J_set_obj G s id st eq_refl ltac:(rk Es))) end. exact HI.
  - cbn [fst snd sv_apply]. unfold server_client_disconnect. destruct (sv_lookup s addr) as [id|]; [|exact HI].
    destruct (so_state (sv_obj_get s id)) eqn:Es; try exact HI.
    match goal with |- TInv (sv_set_obj s id ?st) G => apply (proj2 (J_set_obj G s id st eq_refl ltac:(rk Es))) end. exact HI.
Qed.

(* every history: all timers name existing objects; every SYN+ACK timer of a pending object and every disconnect
   timer of a closing object still has the whole remaining budget ahead of it, counted from the step in which the
   connection request was accepted / the disconnect began *)
Theorem server_timer_budget cfg t0 seed ops :
  let st := fold_left tstep ops (server_new cfg t0 seed, (fun _ => 0, fun _ => 0)) in
  fst st = fold_left sv_apply ops (server_new cfg t0 seed) /\
  forall e, In e (sv_events (fst st)) ->
    let o := so_state (sv_obj_get (fst st) (rq_uid e)) in
    rq_uid e < len (sv_objs (fst st)) /\
    (rq_frag e = 0 -> is_pending o = true ->
       fst (snd st) (rq_uid e) + SBUDGET <= rq_time e + SERVER_HANDSHAKE_RESEND_INTERVAL_MS * rq_count e) /\
    (rq_frag e = 1 -> 2 <= rank o /\
       (o = SvClosing -> snd (snd st) (rq_uid e) + SBUDGET <= rq_time e + SERVER_DISCONNECT_RESEND_INTERVAL_MS * rq_count e)).
Proof.
  cbv zeta.
  assert (H : forall st, TInv (fst st) (snd st) -> TInv (fst (fold_left tstep ops st)) (snd (fold_left tstep ops st)) /\
                         fst (fold_left tstep ops st) = fold_left sv_apply ops (fst st)).
  { induction ops as [|o t IH]; intros st HI; cbn [fold_left]; [auto|].
    destruct (IH (tstep st o) (tstep_TInv st o HI)) as (A & B). split; [exact A|]. rewrite B, tstep_fst. reflexivity. }
  destruct (H (server_new cfg t0 seed, (fun _ => 0, fun _ => 0))) as (HI & E); [constructor|]. cbn [fst] in E. split; [exact E|].
  intros e He. unfold TInv in HI. rewrite Forall_forall in HI. specialize (HI e He). unfold okb in HI.
  apply andb_true_iff in HI as [HI H3]. apply andb_true_iff in HI as [H1 H2]. split; [apply N.ltb_lt; exact H1|]. split.
  - intros Ek Hp. rewrite Ek, Hp in H2. cbn [N.eqb andb] in H2. apply N.leb_le. exact H2.
  - intros Ek. rewrite Ek in H3. cbn [N.eqb] in H3. apply andb_true_iff in H3 as [H3 H4]. split; [apply N.leb_le; exact H3|].
    intros Eo. rewrite Eo in H4. cbn [is_closing] in H4. apply N.leb_le. exact H4.
Qed.

(* the timer loop gives up on an attempt — forgets the entry and reports Error(Timeout) — only for an expired timer
   with no resends left: then at least 22 s have passed since the attempt began; with resends left it resends *)
Theorem server_give_up_after_budget s G ev now :
  okb s G ev = true -> rq_time ev <= now -> rq_count ev = 0 ->
  (forall ln rn mrr mra reply, so_state (sv_obj_get s (rq_uid ev)) = SvPending ln rn mrr mra reply -> rq_frag ev = 0 ->
     fst G (rq_uid ev) + SBUDGET <= now) /\
  (so_state (sv_obj_get s (rq_uid ev)) = SvClosing -> rq_frag ev = 1 -> snd G (rq_uid ev) + SBUDGET <= now).
Proof.
  intros Hok Hdue Ec. unfold okb in Hok. apply andb_true_iff in Hok as [Hok H3]. apply andb_true_iff in Hok as [_ H2]. split.
  - intros ln rn mrr mra reply E Ek. rewrite Ek, E in H2. cbn [N.eqb andb is_pending] in H2. apply N.leb_le in H2. rewrite Ec in H2. lia.
  - intros E Ek. rewrite Ek, E in H3. cbn [N.eqb rank is_closing N.leb andb] in H3. apply N.leb_le in H3. rewrite Ec in H3. lia.
Qed.

Theorem server_no_give_up_with_resends_left s a ev now :
  0 < rq_count ev -> is_pending (so_state (sv_obj_get s (rq_uid ev))) = true \/ so_state (sv_obj_get s (rq_uid ev)) = SvClosing ->
  so_state (sv_obj_get (fst (sv_handle_event s a ev now)) (rq_uid ev)) = so_state (sv_obj_get s (rq_uid ev)) /\
  ac_events (snd (sv_handle_event s a ev now)) = ac_events a.
Proof.
  intros Hc Hst. unfold sv_handle_event. destruct (so_state (sv_obj_get s (rq_uid ev))) eqn:E; cbn [fst snd];
    try (destruct Hst as [Hst|Hst]; discriminate Hst).
  - destruct (rq_frag ev =? 0); [|split; [exact E|reflexivity]]. destruct (N.ltb_spec 0 (rq_count ev)); [|lia].
    cbn [fst snd acc_send ac_events]. split; [exact E|reflexivity].
  - destruct (rq_frag ev =? 1); [|split; [exact E|reflexivity]]. destruct (N.ltb_spec 0 (rq_count ev)); [|lia].
    cbn [fst snd acc_send ac_events]. split; [exact E|reflexivity].
Qed.
