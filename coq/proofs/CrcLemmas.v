(* CrcLemmas.v — range facts about the table-driven CRC. *)
From Coq Require Import ZArith Lia ZifyBool ZifyN ZifyNat.
From UF Require Import Consts Base Crc BaseLemmas.
Ltac Zify.zify_post_hook ::= Z.div_mod_to_equations.

Lemma lxor_lt_pow2 a b n : a < 2 ^ n -> b < 2 ^ n -> N.lxor a b < 2 ^ n.
Proof.
  intros Ha Hb.
  destruct (N.eq_dec (N.lxor a b) 0) as [E|E]; [rewrite E; apply N.neq_0_lt_0, N.pow_nonzero; lia|].
  apply N.log2_lt_pow2; [lia|].
  eapply N.le_lt_trans; [apply N.log2_lxor|].
  apply N.max_lub_lt.
  - destruct (N.eq_dec a 0) as [->|Ea]; [cbn; destruct n; [|lia]|apply N.log2_lt_pow2; lia].
    exfalso. cbn in Hb. assert (b = 0) by lia. subst. apply E. reflexivity.
  - destruct (N.eq_dec b 0) as [->|Eb]; [cbn; destruct n; [|lia]|apply N.log2_lt_pow2; lia].
    exfalso. cbn in Ha. assert (a = 0) by lia. subst. apply E. reflexivity.
Qed.

Lemma crc_table_words : forallb (fun w => w <? pow32) CRC_TABLE = true.
Proof. vm_compute. reflexivity. Qed.

Lemma crc_table_length : length CRC_TABLE = 256%nat.
Proof. reflexivity. Qed.

Lemma crc_table_get_lt i : crc_table_get i < pow32.
Proof.
  unfold crc_table_get.
  destruct (nth_in_or_default (N.to_nat i) CRC_TABLE 0) as [H|H].
  - pose proof crc_table_words as W. rewrite forallb_forall in W. specialize (W _ H). lia.
  - rewrite H. unfold pow32. lia.
Qed.

Lemma crc_step_lt crc b : crc < pow32 -> crc_step crc b < pow32.
Proof.
  intros H. unfold crc_step. change pow32 with (2 ^ 32).
  apply lxor_lt_pow2.
  - change (2 ^ 32) with 4294967296. unfold pow32 in H. lia.
  - apply crc_table_get_lt.
Qed.

Lemma crc_extend_lt d : forall crc, crc < pow32 -> crc_extend crc d < pow32.
Proof.
  unfold crc_extend. induction d as [|b d IH]; intros crc H; cbn [fold_left]; [assumption|].
  apply IH, crc_step_lt, H.
Qed.

Lemma crc_compute_lt d : crc_compute d < pow32.
Proof. apply crc_extend_lt. vm_compute. reflexivity. Qed.

(* the table index (crc as u8 ^ byte) never leaves the table for byte values *)
Lemma crc_index_in_range crc b : b < 256 -> N.lxor (crc mod 256) b < 256.
Proof.
  intros H. change 256 with (2 ^ 8) at 2. apply lxor_lt_pow2; change (2 ^ 8) with 256; lia.
Qed.
