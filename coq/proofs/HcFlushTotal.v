(* HcFlushTotal.v — flush() terminates and does not panic: in every state satisfying the half-connection
   invariant each of its loops returns within the fuel hc_flush derives from the state (C03, C02 liveness of the
   emitter itself; the defect D2 was a livelock of exactly these loops). *)
From Coq Require Import ZArith Lia ZifyBool ZifyN ZifyNat.
From UF Require Import Consts Base Frame Codec F64 Feedback Sender Receiver FrameAck Heap FrameQueue SendRate HalfConn
                       BaseLemmas SenderProofs AckProofs ReorderProofs FrameQueueProofs HcLemmas HcTotal.
Ltac Zify.zify_post_hook ::= Z.div_mod_to_equations.
Local Open Scope N_scope.

(* ---------- the binary heap keeps its size ---------- *)
Lemma sift_up_length fuel : forall h pos elt, length (sift_up fuel h pos elt) = length h.
Proof.
  induction fuel as [|f IH]; intros h pos elt; cbn [sift_up]; [apply upd_length|].
  destruct pos as [|p]; [apply upd_length|]. destruct (rq_le elt _); [apply upd_length|].
  rewrite IH. apply upd_length.
Qed.

Lemma sift_down_length fuel : forall h pos e elt, length (sift_down fuel h pos e elt) = length h.
Proof.
  induction fuel as [|f IH]; intros h pos e elt; cbn [sift_down]; [apply sift_up_length|].
  destruct (_ && _).
  - rewrite IH. apply upd_length.
  - destruct (_ && _); rewrite sift_up_length; [apply upd_length|reflexivity].
Qed.

Lemma heap_push_length h e : length (heap_push h e) = S (length h).
Proof. unfold heap_push. rewrite sift_up_length, app_length. cbn. lia. Qed.

Lemma heap_pop_some h : h <> [] -> exists x r, heap_pop h = Some (x, r) /\ S (length r) = length h.
Proof.
  intros Hne. unfold heap_pop. destruct (rev h) as [|l rr] eqn:E.
  - apply (f_equal (@rev _)) in E. rewrite rev_involutive in E. cbn in E. contradiction.
  - assert (Hl : length h = S (length rr)).
    { rewrite <- (rev_length h), E. reflexivity. }
    destruct (rev rr) as [|root t] eqn:E2.
    + exists l, []. split; [reflexivity|]. assert (length rr = 0%nat) by (rewrite <- (rev_length rr), E2; reflexivity). cbn. lia.
    + eexists _, _. split; [reflexivity|]. rewrite sift_down_length. rewrite <- E2, rev_length. lia.
Qed.

Lemma heap_peek_nonempty h ent : heap_peek h = Some ent -> h <> [].
Proof. unfold heap_peek. destruct h; [discriminate|discriminate]. Qed.

(* ---------- what the data frame emitter leaves alone ---------- *)
Definition same_queues (e e1 : emit_state) : Prop :=
  h_pq (es_h e1) = h_pq (es_h e) /\ h_rq (es_h e1) = h_rq (es_h e) /\ h_snd (es_h e1) = h_snd (es_h e).

Lemma same_queues_refl e : same_queues e e. Proof. repeat split. Qed.
Lemma same_queues_trans a b c : same_queues a b -> same_queues b c -> same_queues a c.
Proof. intros (?&?&?) (?&?&?). repeat split; congruence. Qed.

Lemma dfe_finalize_queues e : same_queues e (dfe_finalize e).
Proof. unfold dfe_finalize. destruct (es_ip e); [|apply same_queues_refl]. repeat split. Qed.

Lemma mark_rate_limited_queues e : same_queues e (mark_rate_limited e).
Proof. repeat split. Qed.

Lemma dfe_push_new_queues e dg ref resend : same_queues e (fst (dfe_push_new e dg ref resend)).
Proof.
  unfold dfe_push_new. destruct (h_credit (es_h e) <? 0)%Z; cbn [fst]; [apply mark_rate_limited_queues|].
  destruct (negb _); cbn [fst]; repeat split.
Qed.

Lemma dfe_push_ok e uid frag resend we :
  sender_lookup (h_snd (es_h e)) uid = Some we ->
  exists e1 r, dfe_push e uid frag resend = Ok (e1, r) /\ same_queues e e1.
Proof.
  intros L. unfold dfe_push. rewrite L. destruct (es_ip e) as [f|].
  - destruct (h_credit (es_h e) - Z.of_N (ip_size f) <? 0)%Z.
    + eexists _, _. split; [reflexivity|]. eapply same_queues_trans; [apply dfe_finalize_queues|apply mark_rate_limited_queues].
    + destruct ((MAX_FRAME_SIZE <? _) || _).
      * pose proof (dfe_push_new_queues (dfe_finalize e) (pp_datagram (we_packet we) frag) (mkFragRef uid frag) resend) as P.
        destruct (dfe_push_new (dfe_finalize e) _ _ resend) as [e1 r]. cbn [fst] in P.
        exists e1, r. split; [reflexivity|]. eapply same_queues_trans; [apply dfe_finalize_queues|exact P].
      * eexists _, _. split; [reflexivity|]. repeat split.
  - pose proof (dfe_push_new_queues e (pp_datagram (we_packet we) frag) (mkFragRef uid frag) resend) as P.
    destruct (dfe_push_new e _ _ resend) as [e1 r]. cbn [fst] in P. exists e1, r. split; [reflexivity|exact P].
Qed.

Lemma dfe_check_push_queues e : same_queues e (fst (dfe_check_push e)).
Proof.
  unfold dfe_check_push.
  destruct (es_ip e) as [f|]; cbv beta iota;
    (destruct (h_credit (es_h e) - Z.of_N _ <? 0)%Z; cbn [fst];
     [eapply same_queues_trans; [apply dfe_finalize_queues|apply mark_rate_limited_queues]|]);
    destruct (negb _); cbn [fst]; apply same_queues_refl.
Qed.

(* ---------- acknowledgement frames ---------- *)
Lemma afe_finalize_faq a : h_faq (as_h (afe_finalize a)) = h_faq (as_h a).
Proof. unfold afe_finalize. destruct (as_ip a); reflexivity. Qed.

Lemma afe_push_new_faq a g : h_faq (as_h (fst (afe_push_new a g))) = h_faq (as_h a).
Proof. unfold afe_push_new. destruct (h_credit (as_h a) <? 0)%Z; reflexivity. Qed.

Lemma afe_push_faq a g : h_faq (as_h (fst (afe_push a g))) = h_faq (as_h a).
Proof.
  unfold afe_push. destruct (as_ip a) as [f|]; [|apply afe_push_new_faq].
  destruct (h_credit (as_h a) - Z.of_N (ai_size f) <? 0)%Z; cbn [fst]; [apply afe_finalize_faq|].
  destruct (MAX_FRAME_SIZE <? _); [rewrite afe_push_new_faq; apply afe_finalize_faq|reflexivity].
Qed.

Lemma ack_loop_total : forall fuel a,
  (length (fa_entries (h_faq (as_h a))) < fuel)%nat -> exists r, ack_loop fuel a = Ok r.
Proof.
  induction fuel as [|fuel IH]; intros a H; [lia|]. cbn [ack_loop].
  unfold faq_peek. destruct (fa_entries (h_faq (as_h a))) as [|g t] eqn:E; cbn [hd_error]; [eauto|].
  pose proof (afe_push_faq a g) as P. destruct (afe_push a g) as [a1 ok]. cbn [fst] in P.
  destruct ok; [|eauto]. apply IH. cbn [as_h set_faq h_faq faq_pop fa_entries]. rewrite P, E. cbn [tl length] in *. lia.
Qed.

Theorem emit_ack_frames_total h out : exists r, emit_ack_frames h out = Ok r.
Proof.
  unfold emit_ack_frames.
  set (a0 := mkAs h None out (fa_base (h_faq h)) (r_base (h_rcv h))).
  assert (P : h_faq (as_h (fst (if h_sync_reply h then afe_push_dud a0 else (a0, true)))) = h_faq h).
  { destruct (h_sync_reply h); [|reflexivity]. unfold afe_push_dud. cbn [as_ip a0]. destruct (h_credit (as_h a0) <? 0)%Z; reflexivity. }
  destruct (if h_sync_reply h then afe_push_dud a0 else (a0, true)) as [a1 ok1]. cbn [fst] in P.
  destruct (negb ok1); [eauto|].
  destruct (ack_loop_total (S (length (fa_entries (h_faq h)))) a1) as [[a2 ok2] E]; [rewrite P; lia|].
  rewrite E. cbn [bind]. destruct ok2; eauto.
Qed.

(* ---------- the pending-queue loops ---------- *)
Lemma pending_inner_total : forall fuel e,
  (length (h_pq (es_h e)) < fuel)%nat ->
  exists e' fl, pending_inner fuel e = Ok (e', fl) /\ h_snd (es_h e') = h_snd (es_h e) /\ (fl = Continue -> h_pq (es_h e') = []).
Proof.
  induction fuel as [|fuel IH]; intros e H; [lia|]. cbn [pending_inner].
  destruct (h_pq (es_h e)) as [|ent rest] eqn:Epq; [exists e, Continue; split; [reflexivity|split; [reflexivity|intros _; exact Epq]]|].
  cbn [length] in H.
  destruct (sender_lookup (h_snd (es_h e)) (pq_uid ent)) as [we|] eqn:L.
  2:{ destruct (IH (mkEs (set_pq (es_h e) rest) (es_ip e) (es_out e))) as (e' & fl & E & S & P); [cbn; lia|].
      exists e', fl. split; [exact E|]. split; [exact S|exact P]. }
  destruct (pp_fragment_acked (we_packet we) (pq_frag ent)).
  { destruct (IH (mkEs (set_pq (es_h e) rest) (es_ip e) (es_out e))) as (e' & fl & E & S & P); [cbn; lia|].
    exists e', fl. split; [exact E|]. split; [exact S|exact P]. }
  destruct (dfe_push_ok e (pq_uid ent) (pq_frag ent) (pq_resend ent) we L) as (e1 & r & Ep & Q1 & Q2 & Q3).
  rewrite Ep. cbn [bind]. destruct r as [[|]|].
  - exists e1, RetErr. split; [reflexivity|]. split; [exact Q3|discriminate].
  - exists e1, RetOk. split; [reflexivity|]. split; [exact Q3|discriminate].
  - match goal with |- context [pending_inner fuel ?x] => destruct (IH x) as (e' & fl & E & S & P) end.
    { cbn [es_h]. destruct (pq_resend ent); cbn [set_rq set_pq h_pq]; rewrite Q1, Epq; cbn; lia. }
    exists e', fl. split; [exact E|]. split; [|exact P]. rewrite S. cbn [es_h]. destruct (pq_resend ent); cbn; exact Q3.
Qed.

Lemma drop_stale_length q : forall fid total, (length (fst (drop_stale q fid total)) <= length q)%nat.
Proof.
  induction q as [|e q IH]; intros fid total; cbn [drop_stale]; [cbn; lia|].
  destruct (se_mode e); cbn [fst length]; try lia. destruct (negb _); cbn [fst length]; [|lia].
  specialize (IH fid (total - len (se_data e))). lia.
Qed.

Lemma emit_packet_shrinks s fid s' r :
  sender_emit_packet s fid = (s', Some r) -> (length (s_queue s') < length (s_queue s))%nat.
Proof.
  unfold sender_emit_packet. pose proof (drop_stale_length (s_queue s) fid (s_total s)) as D.
  destruct (drop_stale (s_queue s) fid (s_total s)) as [q total]. cbn [fst] in D.
  destruct q as [|e q']; [discriminate|]. destruct (s_wsize s <=? _); [discriminate|]. destruct (s_max_alloc s <? _); [discriminate|].
  intros E. inversion E; subst. cbn [s_queue length] in *. lia.
Qed.

Lemma emit_packet_none_queue s fid s' :
  sender_emit_packet s fid = (s', None) -> (length (s_queue s') <= length (s_queue s))%nat.
Proof.
  unfold sender_emit_packet. pose proof (drop_stale_length (s_queue s) fid (s_total s)) as D.
  destruct (drop_stale (s_queue s) fid (s_total s)) as [q total]. cbn [fst] in D.
  destruct q as [|e q']; [intros E; inversion E; subst; cbn; lia|].
  destruct (s_wsize s <=? _); [intros E; inversion E; subst; exact D|].
  destruct (s_max_alloc s <? _); [intros E; inversion E; subst; exact D|discriminate].
Qed.

Lemma emit_packet_lookup s fid s' uid resend :
  sender_emit_packet s fid = (s', Some (uid, resend)) -> exists we, sender_lookup s' uid = Some we.
Proof.
  intros E. destruct (emit_packet_spec s fid s' uid resend E) as (e & q' & _ & _ & Hu & _ & _ & Hb & (we & Hw & _) & _).
  exists we. unfold sender_lookup. rewrite Hb, Hw, Hu. destruct (N.ltb_spec (s_base_uid s + len (s_win s)) (s_base_uid s)); [lia|].
  replace (s_base_uid s + len (s_win s) - s_base_uid s) with (len (s_win s)) by lia.
  unfold nth_opt, len. rewrite app_length. cbn [length].
  destruct (N.ltb_spec (N.of_nat (length (s_win s))) (N.of_nat (length (s_win s) + 1))); [|lia].
  rewrite Nat2N.id. rewrite nth_error_app2 by lia. rewrite Nat.sub_diag. reflexivity.
Qed.

Definition outer_measure (e : emit_state) : nat :=
  (length (s_queue (h_snd (es_h e))) + match h_pq (es_h e) with [] => 0 | _ => 1 end)%nat.

Lemma pending_outer_total : forall fuel e,
  (outer_measure e < fuel)%nat -> exists r, pending_outer fuel e = Ok r.
Proof.
  induction fuel as [|fuel IH]; intros e H; [lia|]. cbn [pending_outer]. unfold outer_measure in H.
  destruct (h_pq (es_h e)) as [|p ps] eqn:Epq.
  - pose proof (dfe_check_push_queues e) as Q.
    destruct (dfe_check_push e) as [e1 r]. cbn [fst] in Q. destruct Q as (Q1 & Q2 & Q3).
    destruct r as [[|]|]; cbn [bind]; [eauto|eauto|].
    destruct (sender_emit_packet (h_snd (es_h e1)) (h_flush_id (es_h e1))) as [s' r] eqn:Ee.
    destruct r as [[uid resend]|]; [|cbn [bind]; eauto].
    destruct (emit_packet_lookup _ _ _ _ _ Ee) as [we L]. rewrite L. cbn [bind].
    pose proof (emit_packet_shrinks _ _ _ _ Ee) as Hs. rewrite Q3 in Hs.
    set (e2 := mkEs (set_pq (set_snd (es_h e1) s') (pq_entries uid resend 0 (N.to_nat (pp_last (we_packet we) + 1)))) (es_ip e1) (es_out e1)).
    destruct (pending_inner_total (S (length (h_pq (es_h e2)))) e2 ltac:(lia)) as (e3 & fl & E3 & S3 & P3).
    rewrite E3. cbn [bind]. destruct fl; eauto.
    apply IH. unfold outer_measure. rewrite (P3 eq_refl), S3. subst e2. cbn [es_h set_pq set_snd h_snd]. lia.
  - cbn [bind].
    destruct (pending_inner_total (S (length (h_pq (es_h e)))) e ltac:(lia)) as (e3 & fl & E3 & S3 & P3).
    rewrite E3. cbn [bind]. destruct fl; eauto.
    apply IH. unfold outer_measure. rewrite (P3 eq_refl), S3. lia.
Qed.

(* ---------- the resend loop: a potential that every pushed datagram lowers ---------- *)
Definition mpc : N := max_packet_count.
Lemma mpc_val : mpc = 127. Proof. vm_compute. reflexivity. Qed.

Definition slots (q : frame_queue) : N := fq_wsize q - sub32 (fq_next q) (fq_wbase q).

Definition phi (e : emit_state) : N :=
  (mpc + 1) * slots (h_fq (es_h e)) + match es_ip e with None => mpc + 1 | Some f => mpc - ip_count f end.

Definition LI (e : emit_state) : Prop :=
  EI e /\ forall f, es_ip e = Some f -> 1 <= ip_count f /\ ip_count f <= mpc /\ 1 <= slots (h_fq (es_h e)).

Lemma can_push_slots q : FqInv q -> fq_can_push q = true <-> 1 <= slots q.
Proof.
  intros [[_ _ _ _ H5 _ _ _ _ _] _]. unfold fq_can_push, slots. split; intros H; lia.
Qed.

Lemma push_slots q size now refs nonce :
  FqInv q -> fq_can_push q = true -> slots (fq_push q size now refs nonce) + 1 = slots q.
Proof.
  intros [[H1 _ H3 _ H5 _ H7 _ _ _] _] Hc. unfold fq_push. rewrite Hc. unfold slots. cbn [fq_wsize fq_next fq_wbase].
  unfold fq_can_push in Hc.
  assert (Ew : sub32 (add32 (fq_next q) 1) (fq_wbase q) = sub32 (fq_next q) (fq_wbase q) + 1).
  { unfold sub32, add32, HALF32 in *. unfold_pows. lia. }
  rewrite Ew. lia.
Qed.

Lemma dfe_finalize_LI e : LI e -> LI (dfe_finalize e) /\ es_ip (dfe_finalize e) = None /\
  (forall f, es_ip e = Some f -> slots (h_fq (es_h (dfe_finalize e))) + 1 = slots (h_fq (es_h e))) /\
  (es_ip e = None -> dfe_finalize e = e).
Proof.
  intros [H Hip]. pose proof (dfe_finalize_inv e H) as H'. unfold dfe_finalize in *.
  destruct (es_ip e) as [f|] eqn:E.
  - split; [split; [exact H'|intros g Hg; discriminate Hg]|]. split; [reflexivity|]. split; [|discriminate].
    intros g Hg. cbn [es_h set_sync_base set_credit set_src set_fq h_fq].
    destruct (Hip f eq_refl) as (_ & _ & Hs). apply push_slots; [exact (proj1 H)|]. apply can_push_slots; [exact (proj1 H)|exact Hs].
  - split; [split; [exact H|intros g Hg; rewrite E in Hg; discriminate Hg]|]. split; [exact E|]. split; [intros g Hg; discriminate Hg|reflexivity].
Qed.

Lemma mark_rate_limited_slots e : slots (h_fq (es_h (mark_rate_limited e))) = slots (h_fq (es_h e)).
Proof. reflexivity. Qed.

Lemma dfe_push_new_phi e dg ref resend :
  LI e -> es_ip e = None ->
  let r := dfe_push_new e dg ref resend in
  LI (fst r) /\ (snd r = None -> phi (fst r) + 2 <= phi e).
Proof.
  intros [H Hip] En. unfold dfe_push_new. cbv zeta.
  destruct (h_credit (es_h e) <? 0)%Z; cbn [fst snd].
  { split; [|discriminate]. split; [apply mark_rate_limited_inv; exact H|]. cbn [mark_rate_limited es_ip]. rewrite En. discriminate. }
  destruct (fq_can_push (h_fq (es_h e))) eqn:Ec; cbn [negb fst snd].
  2:{ split; [|discriminate]. split; assumption. }
  apply can_push_slots in Ec; [|exact (proj1 H)].
  split.
  - split; [exact H|]. cbn [es_ip es_h]. intros f Hf. inversion Hf; subst. cbn [ip_count]. rewrite mpc_val. lia.
  - intros _. unfold phi. cbn [es_ip es_h ip_count]. rewrite En. rewrite mpc_val. lia.
Qed.

Lemma dfe_push_phi e uid frag resend e1 r :
  dfe_push e uid frag resend = Ok (e1, r) -> LI e -> LI e1 /\ (r = None -> phi e1 + 1 <= phi e).
Proof.
  unfold dfe_push. intros E L. destruct (sender_lookup _ _) as [we|]; [|discriminate].
  pose proof L as [H Hip].
  destruct (es_ip e) as [f|] eqn:Eip.
  - destruct (Hip f eq_refl) as (Hc1 & Hc & Hs).
    destruct (dfe_finalize_LI e L) as (Lf & Ef & Sf & _). specialize (Sf f Eip).
    destruct (h_credit (es_h e) - Z.of_N (ip_size f) <? 0)%Z.
    + inversion E; subst. split; [|discriminate]. split; [apply mark_rate_limited_inv; exact (proj1 Lf)|].
      cbn [mark_rate_limited es_ip]. rewrite Ef. discriminate.
    + destruct ((MAX_FRAME_SIZE <? _) || (max_packet_count <=? ip_count f)) eqn:Efull.
      * pose proof (dfe_push_new_phi (dfe_finalize e) (pp_datagram (we_packet we) frag) (mkFragRef uid frag) resend Lf Ef) as P.
        cbv zeta in P. inversion E as [E']. rewrite E' in P. cbn [fst snd] in P. destruct P as [P1 P2].
        split; [exact P1|]. intros Hr. specialize (P2 Hr). unfold phi in *. rewrite Ef in P2. rewrite Eip.
        rewrite mpc_val in *. nia.
      * apply orb_false_iff in Efull as [_ Efull]. fold mpc in Efull.
        inversion E; subst. split.
        -- split; [exact H|]. cbn [es_ip es_h]. intros g Hg. inversion Hg; subst. cbn [ip_count]. lia.
        -- intros _. unfold phi. cbn [es_ip es_h ip_count]. rewrite Eip. lia.
  - pose proof (dfe_push_new_phi e (pp_datagram (we_packet we) frag) (mkFragRef uid frag) resend L Eip) as P.
    cbv zeta in P. inversion E as [E']. rewrite E' in P. cbn [fst snd] in P. destruct P as [P1 P2].
    split; [exact P1|]. intros Hr. specialize (P2 Hr). lia.
Qed.

Lemma LI_set_rq e rq : LI e -> LI (mkEs (set_rq (es_h e) rq) (es_ip e) (es_out e)).
Proof. intros [H Hip]. split; [apply EI_set_rq; exact H|exact Hip]. Qed.

Lemma resend_loop_total : forall fuel e,
  LI e -> len (h_rq (es_h e)) + phi e < N.of_nat fuel ->
  exists e' fl, resend_loop fuel e = Ok (e', fl) /\ h_snd (es_h e') = h_snd (es_h e) /\ h_pq (es_h e') = h_pq (es_h e).
Proof.
  induction fuel as [|fuel IH]; intros e L Hm; [lia|]. cbn [resend_loop].
  destruct (heap_peek (h_rq (es_h e))) as [ent|] eqn:Epk; [|exists e, Continue; repeat split].
  destruct (heap_pop_some _ (heap_peek_nonempty _ _ Epk)) as (x & rest & Epop & Hlen).
  rewrite Epop. unfold len in *.
  assert (Rec : exists e' fl, resend_loop fuel (mkEs (set_rq (es_h e) rest) (es_ip e) (es_out e)) = Ok (e', fl)
                  /\ h_snd (es_h e') = h_snd (es_h e) /\ h_pq (es_h e') = h_pq (es_h e)).
  { destruct (IH (mkEs (set_rq (es_h e) rest) (es_ip e) (es_out e)) (LI_set_rq e rest L)) as (e' & fl & E & S & P).
    - unfold phi in *. cbn [es_h es_ip set_rq h_rq h_fq] in *. lia.
    - exists e', fl. split; [exact E|]. split; [exact S|exact P]. }
  destruct (sender_lookup (h_snd (es_h e)) (rq_uid ent)) as [we|] eqn:Lk; [|exact Rec].
  destruct (pp_fragment_acked (we_packet we) (rq_frag ent)); [exact Rec|].
  destruct (h_now (es_h e) <? rq_time ent); [exists e, Continue; repeat split|].
  destruct (dfe_push_ok e (rq_uid ent) (rq_frag ent) true we Lk) as (e1 & r & Ep & Q1 & Q2 & Q3).
  rewrite Ep. cbn [bind]. destruct (dfe_push_phi _ _ _ _ _ _ Ep L) as [L1 Hphi].
  destruct r as [[|]|].
  - exists e1, RetErr. repeat split; assumption.
  - exists e1, RetOk. repeat split; assumption.
  - specialize (Hphi eq_refl). rewrite Q2, Epop.
    set (rq2 := heap_push rest _).
    destruct (IH (mkEs (set_rq (es_h e1) rq2) (es_ip e1) (es_out e1)) (LI_set_rq e1 rq2 L1)) as (e' & fl & E & S & P).
    + unfold phi in *. cbn [es_h es_ip set_rq h_rq h_fq] in *. subst rq2. rewrite heap_push_length. lia.
    + exists e', fl. split; [exact E|]. cbn [es_h set_rq h_snd h_pq] in S, P. split; congruence.
Qed.

(* ---------- flush ---------- *)
Theorem emit_data_frames_total fuel h out :
  HcInv h ->
  len (h_rq h) + (mpc + 1) * slots (h_fq h) + mpc + 1 < N.of_nat fuel ->
  len (s_queue (h_snd h)) + 1 < N.of_nat fuel ->
  exists r, emit_data_frames fuel h out = Ok r.
Proof.
  intros H Hf1 Hf2. unfold emit_data_frames.
  destruct (resend_loop_total fuel (mkEs h None out)) as (e & fl & E & S & P).
  { split; [exact H|]. cbn [es_ip]. discriminate. }
  { unfold phi. cbn [es_h es_ip]. lia. }
  rewrite E. cbn [bind]. cbn [es_h] in S, P.
  assert (Ho : exists r, pending_outer fuel e = Ok r).
  { apply pending_outer_total. unfold outer_measure. rewrite S. unfold len in Hf2. destruct (h_pq (es_h e)); lia. }
  destruct Ho as [[e2 fl2] Eo].
  destruct fl; eauto; rewrite Eo; cbn [bind]; destruct fl2; eauto.
Qed.

Lemma slots_le q : slots q <= fq_wsize q. Proof. unfold slots. lia. Qed.

Theorem hc_flush_total h : HcInv h -> exists r, hc_flush h = Ok r.
Proof.
  intros H. unfold hc_flush.
  destruct (emit_ack_frames_total h []) as [[[h1 out1] ok1] E1]. rewrite E1. cbn [bind].
  pose proof (same_core_inv _ _ (emit_ack_frames_core _ _ _ _ _ E1) H) as H1.
  destruct (negb ok1); [eauto|].
  destruct (emit_data_frames_total (hc_flush_fuel h1) h1 out1 H1) as [[[h2 out2] ok2] E2].
  - unfold hc_flush_fuel. pose proof (slots_le (h_fq h1)). rewrite mpc_val.
    assert (DATA_FRAME_MAX_DATAGRAM_COUNT = 127) as -> by reflexivity. lia.
  - unfold hc_flush_fuel. assert (DATA_FRAME_MAX_DATAGRAM_COUNT = 127) as -> by reflexivity. lia.
  - rewrite E2. cbn [bind]. destruct (negb ok2); [eauto|].
    destruct (emit_sync_frame h2 out2) as [[h3 out3] ok3]. eauto.
Qed.

(* flush from every reachable state: returns, and without a panic *)
Theorem hc_flush_never_hangs c seed ops :
  cfg_ok c -> Forall op_ok ops -> exists r, hc_flush (fold_left hc_apply ops (hc_new c seed)) = Ok r.
Proof. intros Hc Ho. apply hc_flush_total. apply hc_reachable_inv; assumption. Qed.
