(* EndpointProofs.v — handshake, limits, amplification, lifecycle and timer lemmas of the Client / Server
   models (C07, C08, C09, C10, C17, C18). *)
From Coq Require Import ZArith Lia ZifyBool ZifyN ZifyNat.
From UF Require Import Consts Base Frame Codec Sender Receiver FrameAck Heap FrameQueue SendRate HalfConn Endpoint
                       BaseLemmas CrcLemmas CodecRoundtrip CodecTotal.
Ltac Zify.zify_post_hook ::= Z.div_mod_to_equations.

(* ====================================================================== C17: connection limits *)

Definition SvLimits (s : server) : Prop :=
  len (sv_clients s) <= svc_max_total (sv_cfg s) /\ len (sv_active s) <= svc_max_active (sv_cfg s).

(* s' tracks no more addresses than s, has the same active list and configuration *)
Definition NoGrow (s s' : server) : Prop :=
  len (sv_clients s') <= len (sv_clients s) /\ sv_active s' = sv_active s /\ sv_cfg s' = sv_cfg s.

Lemma nogrow_refl s : NoGrow s s. Proof. repeat split; lia. Qed.
Lemma nogrow_trans a b c : NoGrow a b -> NoGrow b c -> NoGrow a c.
Proof. intros [A1 [A2 A3]] [B1 [B2 B3]]. repeat split; [lia|congruence|congruence]. Qed.
Lemma nogrow_limits s s' : SvLimits s -> NoGrow s s' -> SvLimits s'.
Proof. intros [L1 L2] [N1 [N2 N3]]. unfold SvLimits. rewrite N2, N3. split; lia. Qed.

Lemma set_obj_nogrow s id st : NoGrow s (sv_set_obj s id st).
Proof. repeat split; cbn; lia. Qed.
Lemma filter_len {A} (f : A -> bool) l : len (filter f l) <= len l.
Proof. unfold len. induction l as [|x l IH]; cbn; [lia|]. destruct (f x); cbn; lia. Qed.
Lemma remove_addr_nogrow s addr : NoGrow s (sv_remove_addr s addr).
Proof. split; [cbn; apply filter_len|split; reflexivity]. Qed.
Lemma push_event_nogrow s e : NoGrow s (sv_push_event s e).
Proof. repeat split; cbn; lia. Qed.

(* NoGrow goals about compositions of set_obj / remove_addr / push_event *)
Lemma nogrow_push s s' e : NoGrow s s' -> NoGrow s (sv_push_event s' e).
Proof. intros H. eapply nogrow_trans; [exact H|apply push_event_nogrow]. Qed.
Lemma nogrow_remove s s' addr : NoGrow s s' -> NoGrow s (sv_remove_addr s' addr).
Proof. intros H. eapply nogrow_trans; [exact H|apply remove_addr_nogrow]. Qed.
Lemma nogrow_set s s' id st : NoGrow s s' -> NoGrow s (sv_set_obj s' id st).
Proof. intros H. eapply nogrow_trans; [exact H|apply set_obj_nogrow]. Qed.

Ltac ng := cbn [fst]; repeat lazymatch goal with
  | |- NoGrow _ (sv_push_event _ _) => apply nogrow_push
  | |- NoGrow _ (sv_remove_addr _ _) => apply nogrow_remove
  | |- NoGrow _ (sv_set_obj _ _ _) => apply nogrow_set
  | |- NoGrow ?s ?t => constr_eq s t; apply nogrow_refl
  end.

Lemma refuse_same s a addr nonce e k : fst (sv_refuse s a addr nonce e k) = s.
Proof. reflexivity. Qed.

Lemma handle_syn_limits s a addr v n mrr mps mra now : SvLimits s -> SvLimits (fst (sv_handle_syn s a addr v n mrr mps mra now)).
Proof.
  intros [L1 L2]. unfold sv_handle_syn. destruct (sv_lookup s addr); [split; assumption|].
  destruct (negb (v =? PROTOCOL_VERSION)); [split; assumption|].
  destruct (N.leb_spec (svc_max_total (sv_cfg s)) (len (sv_clients s))); cbn [orb]; [split; assumption|].
  destruct (N.leb_spec (svc_max_active (sv_cfg s)) (len (sv_active s))); [split; assumption|].
  destruct (mra <? _); [split; assumption|]. destruct (_ <? mps); [split; assumption|].
  cbn [fst]. unfold SvLimits, sv_push_event. cbn. rewrite len_app. change (len [_]) with 1. split; lia.
Qed.

Lemma handle_ack_limits s a addr na now vnow : SvLimits s -> SvLimits (fst (sv_handle_ack s a addr na now vnow)).
Proof.
  intros [L1 L2]. unfold sv_handle_ack. destruct (sv_lookup s addr) as [id|]; [|split; assumption].
  destruct (so_state (sv_obj_get s id)); try (split; assumption).
  destruct (na =? local_nonce); cbn [andb]; [|split; assumption].
  destruct (N.ltb_spec (len (sv_active s)) (svc_max_active (sv_cfg s))); [|split; assumption].
  cbn [fst]. unfold SvLimits. cbn. rewrite len_app. change (len [_]) with 1. split; lia.
Qed.

Lemma handle_disconnect_nogrow s a addr now : NoGrow s (fst (sv_handle_disconnect s a addr now)).
Proof.
  unfold sv_handle_disconnect. destruct (sv_lookup s addr) as [id|]; [|ng].
  destruct (so_state (sv_obj_get s id)) as [| h t0 to d | | |]; [ng| |ng|ng|ng].
  destruct (hc_receive h) as [h' pkts]. ng.
Qed.

Lemma handle_disconnect_ack_nogrow s a addr : NoGrow s (fst (sv_handle_disconnect_ack s a addr)).
Proof.
  unfold sv_handle_disconnect_ack. destruct (sv_lookup s addr) as [id|]; [|ng].
  destruct (so_state (sv_obj_get s id)); ng.
Qed.

Lemma handle_hc_frame_nogrow s a addr f now r : sv_handle_hc_frame s a addr f now = Ok r -> NoGrow s (fst r).
Proof.
  unfold sv_handle_hc_frame. destruct (sv_lookup s addr) as [id|]; [|intros H; inversion H; ng].
  destruct (so_state (sv_obj_get s id)) as [| h t0 to d | | |]; intros H.
  - inversion H; ng.
  - destruct (hc_handle_frame h f) as [[h' k]| |]; cbn [bind] in H; inversion H; ng.
  - inversion H; ng.
  - inversion H; ng.
  - inversion H; ng.
Qed.

Lemma handle_frame_limits s a addr f now vnow r : SvLimits s -> sv_handle_frame s a addr f now vnow = Ok r -> SvLimits (fst r).
Proof.
  intros L. destruct f; cbn [sv_handle_frame]; intros H.
  - inversion H; subst. apply handle_syn_limits, L.
  - inversion H; subst. exact L.
  - inversion H; subst. apply handle_ack_limits, L.
  - inversion H; subst. exact L.
  - inversion H; subst. eapply nogrow_limits; [exact L|apply handle_disconnect_nogrow].
  - inversion H; subst. eapply nogrow_limits; [exact L|apply handle_disconnect_ack_nogrow].
  - eapply nogrow_limits; [exact L|eapply handle_hc_frame_nogrow; exact H].
  - eapply nogrow_limits; [exact L|eapply handle_hc_frame_nogrow; exact H].
  - eapply nogrow_limits; [exact L|eapply handle_hc_frame_nogrow; exact H].
Qed.

Lemma handle_frames_limits inbox : forall s a now vnow r,
  SvLimits s -> sv_handle_frames inbox s a now vnow = Ok r -> SvLimits (fst r).
Proof.
  induction inbox as [|[addr bytes] rest IH]; intros s a now vnow r L H; cbn [sv_handle_frames] in H.
  - inversion H; subst. exact L.
  - destruct (read_frame bytes) as [[f|]| |]; cbn [bind] in H; try discriminate.
    + destruct (sv_handle_frame s a addr f now vnow) as [sa| |] eqn:E; cbn [bind] in H; try discriminate.
      eapply IH; [|exact H]. eapply handle_frame_limits; eassumption.
    + eapply IH; eassumption.
Qed.

Lemma handle_event_nogrow s a ev now : NoGrow s (fst (sv_handle_event s a ev now)).
Proof.
  unfold sv_handle_event. destruct (so_state (sv_obj_get s (rq_uid ev))) as [ln rn rmrr rmra reply | h t0 to d | | |].
  - destruct (rq_frag ev =? 0); [|ng]. destruct (0 <? rq_count ev); ng.
  - ng.
  - destruct (rq_frag ev =? 1); [|ng]. destruct (0 <? rq_count ev); ng.
  - destruct (rq_frag ev =? 2); ng.
  - ng.
Qed.

Lemma pop_events_limits fuel : forall s a now r, SvLimits s -> sv_pop_events fuel s a now = Ok r -> SvLimits (fst r).
Proof.
  induction fuel as [|f IH]; intros s a now r L H; cbn [sv_pop_events] in H; [discriminate|].
  destruct (heap_peek (sv_events s)) as [ev|]; [|inversion H; subst; exact L].
  destruct (now <? rq_time ev); [inversion H; subst; exact L|].
  destruct (heap_pop (sv_events s)) as [[ev' rest]|]; [|discriminate].
  set (s1 := mkServer _ _ _ _ rest _ _) in H.
  assert (L1 : SvLimits s1) by (destruct L; split; assumption).
  pose proof (handle_event_nogrow s1 a ev' now) as N.
  destruct (sv_handle_event s1 a ev' now) as [s2 a2]. cbn [fst] in N.
  eapply IH; [|exact H]. eapply nogrow_limits; eassumption.
Qed.

Lemma active_timeouts_nogrow ids : forall s a now, NoGrow s (fst (sv_active_timeouts ids s a now)).
Proof.
  induction ids as [|id rest IH]; intros s a now; cbn [sv_active_timeouts]; [ng|].
  destruct (so_state (sv_obj_get s id)) as [| h t0 to d | | |]; try apply IH.
  destruct (to <=? now); [|apply IH].
  destruct (hc_receive h) as [h' pkts]. eapply nogrow_trans; [|apply IH]. ng.
Qed.

Lemma flush_active_nogrow ids : forall s a r, sv_flush_active ids s a = Ok r -> NoGrow s (fst r).
Proof.
  induction ids as [|id rest IH]; intros s a r H; cbn [sv_flush_active] in H; [inversion H; ng|].
  destruct (so_state (sv_obj_get s id)) as [| h t0 to d | | |]; try (eapply IH; exact H).
  destruct (hc_flush h) as [[h' frames]| |]; cbn [bind] in H; try discriminate.
  eapply nogrow_trans; [|eapply IH; exact H]. ng.
Qed.

Lemma step_active_nogrow ids : forall s a now vnow r, sv_step_active ids s a now vnow = Ok r -> NoGrow s (fst r).
Proof.
  induction ids as [|id rest IH]; intros s a now vnow r H; cbn [sv_step_active] in H; [inversion H; ng|].
  destruct (so_state (sv_obj_get s id)) as [| h t0 to d | | |]; try (eapply IH; exact H).
  match type of H with (if ?c then _ else _) = _ => destruct c end.
  - destruct (hc_receive h) as [h' pkts]. eapply nogrow_trans; [|eapply IH; exact H]. ng.
  - destruct (hc_step h (vnow - t0)) as [h1| |]; cbn [bind] in H; try discriminate.
    destruct (hc_receive h1) as [h2 pkts]. eapply nogrow_trans; [|eapply IH; exact H]. ng.
Qed.

Theorem server_step_limits s vnow inbox nonces r :
  SvLimits s -> server_step s vnow inbox nonces = Ok r -> SvLimits (fst (fst (fst r))).
Proof.
  intros L H. unfold server_step in H.
  destruct (sv_flush_active (sv_active s) s _) as [r1| |] eqn:E1; cbn [bind] in H; try discriminate.
  assert (L1 : SvLimits (fst r1)) by (eapply nogrow_limits; [exact L|eapply flush_active_nogrow; exact E1]).
  destruct (sv_handle_frames inbox (fst r1) (snd r1) _ vnow) as [r2| |] eqn:E2; cbn [bind] in H; try discriminate.
  assert (L2 : SvLimits (fst r2)) by (eapply handle_frames_limits; eassumption).
  destruct (sv_pop_events _ (fst r2) (snd r2) _) as [r3| |] eqn:E3; cbn [bind] in H; try discriminate.
  assert (L3 : SvLimits (fst r3)) by (eapply pop_events_limits; eassumption).
  pose proof (active_timeouts_nogrow (sv_active (fst r3)) (fst r3) (snd r3) (vnow - sv_t0 s)) as N4.
  destruct (sv_active_timeouts _ (fst r3) (snd r3) _) as [s4 a4]. cbn [fst] in N4.
  assert (L4 : SvLimits s4) by (eapply nogrow_limits; eassumption).
  set (s5 := mkServer _ _ _ (filter _ _) _ _ _) in H.
  assert (L5 : SvLimits s5).
  { destruct L4 as [A B]. split; cbn; [exact A|]. eapply N.le_trans; [apply filter_len|exact B]. }
  destruct (sv_step_active (sv_active s5) s5 a4 _ vnow) as [r6| |] eqn:E6; cbn [bind] in H; try discriminate.
  inversion H; subst; clear H. cbn [fst]. eapply nogrow_limits; [exact L5|eapply step_active_nogrow; exact E6].
Qed.

Lemma server_new_limits cfg t0 seed : SvLimits (server_new cfg t0 seed).
Proof. split; cbn; lia. Qed.

Lemma server_drop_limits s addr : SvLimits s -> SvLimits (server_drop s addr).
Proof. intros L. unfold server_drop. destruct (sv_lookup s addr); [|exact L]. eapply nogrow_limits; [exact L|ng]. Qed.

Lemma server_client_send_limits s addr d c m : SvLimits s -> SvLimits (server_client_send s addr d c m).
Proof.
  intros L. unfold server_client_send. destruct (sv_lookup s addr) as [id|]; [|exact L].
  destruct (so_state (sv_obj_get s id)); exact L.
Qed.

Lemma server_client_disconnect_limits s addr now : SvLimits s -> SvLimits (server_client_disconnect s addr now).
Proof.
  intros L. unfold server_client_disconnect. destruct (sv_lookup s addr) as [id|]; [|exact L].
  destruct (so_state (sv_obj_get s id)); exact L.
Qed.

Lemma server_flush_limits s r : SvLimits s -> server_flush s = Ok r -> SvLimits (fst r).
Proof.
  intros L H. unfold server_flush in H. destruct (sv_flush_active _ _ _) as [r1| |] eqn:E; cbn [bind] in H; try discriminate.
  inversion H; subst. cbn [fst]. eapply nogrow_limits; [exact L|eapply flush_active_nogrow; exact E].
Qed.

(* every reachable server state *)
Inductive server_op :=
| SStep (vnow : N) (inbox : list (N * list N)) (nonces : list N)
| SFlush
| SDrop (addr : N)
| SSend (addr : N) (data : list N) (chan : N) (mode : send_mode)
| SDisconnect (addr : N) (now : bool).

Definition server_apply (s : server) (o : server_op) : server :=
  match o with
  | SStep vnow inbox nonces => match server_step s vnow inbox nonces with Ok r => fst (fst (fst r)) | _ => s end
  | SFlush => match server_flush s with Ok r => fst r | _ => s end
  | SDrop a => server_drop s a
  | SSend a d c m => server_client_send s a d c m
  | SDisconnect a now => server_client_disconnect s a now
  end.

Theorem server_reachable_limits cfg t0 seed ops : SvLimits (fold_left server_apply ops (server_new cfg t0 seed)).
Proof.
  pose proof (server_new_limits cfg t0 seed) as L. revert L. generalize (server_new cfg t0 seed).
  induction ops as [|o ops IH]; intros s L; cbn [fold_left]; [exact L|]. apply IH.
  destruct o; cbn [server_apply].
  - destruct (server_step s vnow inbox nonces) as [r| |] eqn:E; try exact L. eapply server_step_limits; eassumption.
  - destruct (server_flush s) as [r| |] eqn:E; try exact L. eapply server_flush_limits; eassumption.
  - apply server_drop_limits, L.
  - apply server_client_send_limits, L.
  - apply server_client_disconnect_limits, L.
Qed.

(* established connections are exactly objects in the Active state; they are all listed in sv_active *)
Definition is_active_obj (o : sv_obj) : bool := match so_state o with SvActive _ _ _ _ => true | _ => false end.

(* a SYN is refused with ServerFull exactly when one of the limits is reached (and the version matches) *)
Theorem syn_refused_when_full s a addr n mrr mps mra now :
  sv_lookup s addr = None ->
  (svc_max_total (sv_cfg s) <= len (sv_clients s) \/ svc_max_active (sv_cfg s) <= len (sv_active s)) ->
  sv_handle_syn s a addr PROTOCOL_VERSION n mrr mps mra now = sv_refuse s a addr n ErrServerFull 3.
Proof.
  intros Hl Hf. unfold sv_handle_syn. rewrite Hl. rewrite N.eqb_refl. cbn [negb].
  destruct Hf as [Hf|Hf].
  - destruct (N.leb_spec (svc_max_total (sv_cfg s)) (len (sv_clients s))); [reflexivity|lia].
  - destruct (N.leb_spec (svc_max_active (sv_cfg s)) (len (sv_active s))); [rewrite orb_true_r; reflexivity|lia].
Qed.

(* ====================================================================== C07: handshake *)

(* server: Connect only for a pending address that returns the nonce the server generated for it *)
Theorem server_connect_sound s a addr na now vnow s' a' :
  sv_handle_ack s a addr na now vnow = (s', a') -> ac_events a' <> ac_events a ->
  exists id ln rn rmrr rmra reply,
    sv_lookup s addr = Some id /\ so_state (sv_obj_get s id) = SvPending ln rn rmrr rmra reply /\ na = ln /\
    ac_events a' = ac_events a ++ [EvConnect addr] /\ ac_sends a' = ac_sends a.
Proof.
  unfold sv_handle_ack. intros H Hne.
  destruct (sv_lookup s addr) as [id|] eqn:El; [|inversion H; subst; contradiction].
  destruct (so_state (sv_obj_get s id)) eqn:Es; try (inversion H; subst; contradiction).
  destruct (N.eqb_spec na local_nonce); cbn [andb] in H; [|inversion H; subst; contradiction].
  destruct (len (sv_active s) <? _); inversion H; subst; [|contradiction].
  exists id, local_nonce, remote_nonce, remote_max_receive_rate, remote_max_receive_alloc, reply_bytes.
  split; [reflexivity|]. split; [exact Es|]. repeat split; reflexivity.
Qed.

(* a forged / stale / duplicated ACK (unknown address, wrong nonce, or connection closing/closed) changes nothing;
   for an established connection it only moves the silence deadline (no event, nothing sent) *)
Theorem server_forged_ack_identity s a addr na now vnow :
  (sv_lookup s addr = None \/
   exists id, sv_lookup s addr = Some id /\
     match so_state (sv_obj_get s id) with SvPending ln _ _ _ _ => na <> ln | SvActive _ _ _ _ => False | _ => True end) ->
  sv_handle_ack s a addr na now vnow = (s, a).
Proof.
  unfold sv_handle_ack. intros [H|[id [H1 H2]]]; [rewrite H; reflexivity|]. rewrite H1.
  destruct (so_state (sv_obj_get s id)); try reflexivity; try contradiction.
  destruct (N.eqb_spec na local_nonce); [contradiction|reflexivity].
Qed.

Theorem server_ack_when_established s a addr na now vnow id h t0 to d :
  sv_lookup s addr = Some id -> so_state (sv_obj_get s id) = SvActive h t0 to d ->
  sv_handle_ack s a addr na now vnow =
  (sv_set_obj s id (SvActive h t0 (now + ec_active_timeout (svc_ec (sv_cfg s))) d), a).
Proof. intros Hl Hs. unfold sv_handle_ack. rewrite Hl, Hs. reflexivity. Qed.

(* a SYN from an address that is already tracked (connecting, established, closing) changes nothing *)
Theorem server_repeated_syn_identity s a addr v n mrr mps mra now id :
  sv_lookup s addr = Some id -> sv_handle_syn s a addr v n mrr mps mra now = (s, a).
Proof. intros H. unfold sv_handle_syn. rewrite H. reflexivity. Qed.

(* version mismatch: refused with the Version error echoing the SYN's nonce; no entry is created *)
Theorem server_version_refused s a addr v n mrr mps mra now :
  sv_lookup s addr = None -> v <> PROTOCOL_VERSION ->
  sv_handle_syn s a addr v n mrr mps mra now = sv_refuse s a addr n ErrVersion 1.
Proof.
  intros Hl Hv. unfold sv_handle_syn. rewrite Hl. destruct (N.eqb_spec v PROTOCOL_VERSION); [contradiction|reflexivity].
Qed.

Theorem server_config_refused s a addr n mrr mps mra now :
  sv_lookup s addr = None ->
  len (sv_clients s) < svc_max_total (sv_cfg s) -> len (sv_active s) < svc_max_active (sv_cfg s) ->
  (mra < ec_max_packet_size (svc_ec (sv_cfg s)) \/ ec_max_receive_alloc (svc_ec (sv_cfg s)) < mps) ->
  sv_handle_syn s a addr PROTOCOL_VERSION n mrr mps mra now = sv_refuse s a addr n ErrConfig 2.
Proof.
  intros Hl H1 H2 Hc. unfold sv_handle_syn. rewrite Hl, N.eqb_refl. cbn [negb].
  destruct (N.leb_spec (svc_max_total (sv_cfg s)) (len (sv_clients s))); [lia|].
  destruct (N.leb_spec (svc_max_active (sv_cfg s)) (len (sv_active s))); [lia|]. cbn [orb].
  destruct (N.ltb_spec mra (ec_max_packet_size (svc_ec (sv_cfg s)))); [reflexivity|].
  destruct (N.ltb_spec (ec_max_receive_alloc (svc_ec (sv_cfg s))) mps); [reflexivity|]. lia.
Qed.

Lemma refuse_sends s a addr n e k :
  ac_sends (snd (sv_refuse s a addr n e k)) = ac_sends a ++ [(addr, write_handshake_error n e)] /\ fst (sv_refuse s a addr n e k) = s.
Proof. unfold sv_refuse. destruct (svc_enable_errors (sv_cfg s)); split; reflexivity. Qed.

(* client: Connect only for a SYN+ACK echoing the client's own nonce while pending; exactly one *)
Theorem client_connect_sound c a na n mrr mra now vnow c' a' :
  cl_handle_syn_ack c a na n mrr mra now vnow = (c', a') -> ca_events a' <> ca_events a ->
  exists ln rq rt rc sends, cl_state_ c = ClPending ln rq rt rc sends /\ na = ln /\
    ca_events a' = ca_events a ++ [EvConnect 0] /\
    exists h t0 to, cl_state_ c' = ClActive ln n h t0 to None.
Proof.
  unfold cl_handle_syn_ack. intros H Hne. destruct (cl_state_ c) eqn:Es; try (inversion H; subst; contradiction).
  - destruct (N.eqb_spec na local_nonce); inversion H; subst; [|contradiction].
    exists local_nonce, request, resend_time, resend_count, initial_sends. repeat split; try reflexivity. cbn. eauto.
  - destruct ((na =? local_nonce) && (n =? remote_nonce)); inversion H; subst; contradiction.
Qed.

(* a SYN+ACK that does not echo the client's nonce never changes the client; an established client only
   re-acknowledges the very SYN+ACK it accepted and emits no event *)
Theorem client_forged_syn_ack_identity c a na n mrr mra now vnow :
  match cl_state_ c with
  | ClPending ln _ _ _ _ => na <> ln
  | ClActive ln rn _ _ _ _ => na <> ln \/ n <> rn
  | _ => True
  end -> cl_handle_syn_ack c a na n mrr mra now vnow = (c, a).
Proof.
  unfold cl_handle_syn_ack. destruct (cl_state_ c); try reflexivity.
  - intros H. destruct (N.eqb_spec na local_nonce); [contradiction|reflexivity].
  - intros [H|H].
    + destruct (N.eqb_spec na local_nonce); [contradiction|reflexivity].
    + destruct (N.eqb_spec n remote_nonce); [contradiction|rewrite andb_false_r; reflexivity].
Qed.

Theorem client_active_syn_ack_no_event c a na n mrr mra now vnow ln rn h t0 to d :
  cl_state_ c = ClActive ln rn h t0 to d ->
  ca_events (snd (cl_handle_syn_ack c a na n mrr mra now vnow)) = ca_events a /\
  exists to', cl_state_ (fst (cl_handle_syn_ack c a na n mrr mra now vnow)) = ClActive ln rn h t0 to' d.
Proof. intros E. unfold cl_handle_syn_ack. rewrite E. destruct (_ && _); cbn; [split; eauto|split; [reflexivity|rewrite E; eauto]]. Qed.

(* the error a client reports is the one the server sent for this very handshake *)
Theorem client_error_sound c a na e c' a' :
  cl_handle_error c a na e = (c', a') -> ca_events a' <> ca_events a ->
  exists ln rq rt rc sends, cl_state_ c = ClPending ln rq rt rc sends /\ na = ln /\ cl_state_ c' = ClFin /\
    ca_events a' = ca_events a ++ [EvError 0 (match e with ErrVersion => 1 | ErrConfig => 2 | ErrServerFull => 3 end)].
Proof.
  unfold cl_handle_error. intros H Hne. destruct (cl_state_ c) eqn:Es; try (inversion H; subst; contradiction).
  destruct (N.eqb_spec na local_nonce); inversion H; subst; [|contradiction]. repeat eexists.
Qed.

(* agreement on starting sequence numbers and limits: both sides derive their half-connection configuration
   from the pair (own nonce, peer nonce) and the peer's advertised limits, symmetrically *)
Theorem handshake_agreement ecc ecs cn sn :
  let cc := hc_config_of ecc cn sn (u32_clamp (ec_max_receive_rate ecs)) (u32_clamp (ec_max_receive_alloc ecs)) in
  let cs := hc_config_of ecs sn cn (u32_clamp (ec_max_receive_rate ecc)) (u32_clamp (ec_max_receive_alloc ecc)) in
  cfg_tx_frame_base cc = cfg_rx_frame_base cs /\ cfg_rx_frame_base cc = cfg_tx_frame_base cs /\
  cfg_tx_packet_base cc = cfg_rx_packet_base cs /\ cfg_rx_packet_base cc = cfg_tx_packet_base cs /\
  cfg_tx_frame_window cc = cfg_rx_frame_window cs /\ cfg_tx_packet_window cc = cfg_rx_packet_window cs /\
  cfg_tx_bandwidth_limit cc = N.min (ec_max_send_rate ecc mod pow32) (u32_clamp (ec_max_receive_rate ecs)) /\
  cfg_tx_alloc_limit cc = u32_clamp (ec_max_receive_alloc ecs) /\ cfg_rx_alloc_limit cs = ec_max_receive_alloc ecs /\
  cfg_tx_alloc_limit cs = u32_clamp (ec_max_receive_alloc ecc) /\ cfg_rx_alloc_limit cc = ec_max_receive_alloc ecc.
Proof. cbn. repeat split; reflexivity. Qed.

(* ====================================================================== C18: amplification *)

Lemma with_crc_len body : len (with_crc body) = len body + 4.
Proof. unfold with_crc. rewrite len_app. reflexivity. Qed.

Lemma syn_ack_len na n a b c : len (write_handshake_syn_ack na n a b c) = 25.
Proof. unfold write_handshake_syn_ack. rewrite with_crc_len. reflexivity. Qed.

Lemma hs_error_len na e : len (write_handshake_error na e) = 10.
Proof. unfold write_handshake_error. rewrite with_crc_len. reflexivity. Qed.

(* only a datagram of exactly MAX_FRAME_SIZE bytes parses as a connection request *)
Theorem syn_requires_full_size bs v n a b c :
  read_frame bs = Ok (Some (FSyn v n a b c)) -> len bs = MAX_FRAME_SIZE.
Proof.
  unfold read_frame. destruct (N.ltb_spec (len bs) 5) as [H5|H5]; [discriminate|].
  destruct (slice_not_panic bs 0 (len bs - 4)) as [d [Hd Ld]]; [lia|lia|]. rewrite Hd. cbn [bind].
  destruct (get32_ok bs (len bs - 4)) as [crc Hc]; [lia|]. rewrite Hc. cbn [bind].
  destruct (negb _); [discriminate|].
  destruct (slice_not_panic bs 1 (len bs - 4)) as [p [Hp Lp]]; [lia|lia|]. rewrite Hp. cbn [bind].
  destruct (get_not_panic bs 0) as [ty Ht]; [lia|]. rewrite Ht. cbn [bind].
  unfold read_payload.
  destruct (ty =? HANDSHAKE_SYN_FRAME_ID).
  - unfold read_handshake_syn_payload. destruct (N.eqb_spec (len p) HANDSHAKE_SYN_FRAME_PAYLOAD_SIZE) as [E|E]; cbn [negb]; [|discriminate].
    intros _. cbv [HANDSHAKE_SYN_FRAME_PAYLOAD_SIZE MAX_FRAME_SIZE] in *. lia.
  - unfold read_handshake_syn_ack_payload, read_handshake_ack_payload, read_handshake_error_payload,
           read_disconnect_payload, read_disconnect_ack_payload, read_data_payload, read_sync_payload, read_ack_payload.
    intros Hx. exfalso.
    repeat (match type of Hx with
            | Ok _ = _ => discriminate Hx
            | Panic _ = _ => discriminate Hx
            | Hang _ = _ => discriminate Hx
            | context [bind ?e _] => destruct e; cbn [bind] in Hx
            | context [if ?c then _ else _] => destruct c
            | context [match ?e with _ => _ end] => destruct e
            end).
Qed.

(* the whole reply budget for one connection request is smaller than the request *)
Theorem reply_budget_below_request :
  (SERVER_HANDSHAKE_RESEND_COUNT + 1) * 25 < MAX_FRAME_SIZE /\ 10 < MAX_FRAME_SIZE.
Proof. vm_compute. split; reflexivity. Qed.

(* frames of every other type from an address the server does not track produce no output and no state change *)
Theorem untracked_address_ignored s a addr f now vnow :
  sv_lookup s addr = None -> (forall v n x y z, f <> FSyn v n x y z) ->
  sv_handle_frame s a addr f now vnow = Ok (s, a).
Proof.
  intros Hl Hs. destruct f; cbn [sv_handle_frame].
  - exfalso. eapply Hs. reflexivity.
  - reflexivity.
  - unfold sv_handle_ack. rewrite Hl. reflexivity.
  - reflexivity.
  - unfold sv_handle_disconnect. rewrite Hl. reflexivity.
  - unfold sv_handle_disconnect_ack. rewrite Hl. reflexivity.
  - unfold sv_handle_hc_frame. rewrite Hl. reflexivity.
  - unfold sv_handle_hc_frame. rewrite Hl. reflexivity.
  - unfold sv_handle_hc_frame. rewrite Hl. reflexivity.
Qed.

(* while an address is only pending (unverified), every frame other than the acknowledgement of the server's
   nonce is ignored: nothing is sent to it *)
Theorem pending_address_ignores s a addr f now vnow id ln rn rmrr rmra reply :
  sv_lookup s addr = Some id -> so_state (sv_obj_get s id) = SvPending ln rn rmrr rmra reply ->
  (forall na, f = FHsAck na -> na <> ln) ->
  sv_handle_frame s a addr f now vnow = Ok (s, a).
Proof.
  intros Hl Hs Hn. destruct f; cbn [sv_handle_frame].
  - unfold sv_handle_syn. rewrite Hl. reflexivity.
  - reflexivity.
  - unfold sv_handle_ack. rewrite Hl, Hs. destruct (N.eqb_spec nonce_ack ln) as [E|E]; [exfalso; eapply Hn; [reflexivity|exact E]|reflexivity].
  - reflexivity.
  - unfold sv_handle_disconnect. rewrite Hl, Hs. reflexivity.
  - unfold sv_handle_disconnect_ack. rewrite Hl, Hs. reflexivity.
  - unfold sv_handle_hc_frame. rewrite Hl, Hs. reflexivity.
  - unfold sv_handle_hc_frame. rewrite Hl, Hs. reflexivity.
  - unfold sv_handle_hc_frame. rewrite Hl, Hs. reflexivity.
Qed.

(* a pending connection's timer sends the stored 25-byte reply once per expiry, with a strictly decreasing
   budget, and forgets the address when the budget is exhausted *)
Theorem pending_resend_budget s a ev now ln rn rmrr rmra reply :
  so_state (sv_obj_get s (rq_uid ev)) = SvPending ln rn rmrr rmra reply -> rq_frag ev = 0 ->
  let r := sv_handle_event s a ev now in
  (0 < rq_count ev ->
     ac_sends (snd r) = ac_sends a ++ [(so_addr (sv_obj_get s (rq_uid ev)), reply)] /\
     fst r = sv_push_event s (mkRq (rq_uid ev) 0 (now + SERVER_HANDSHAKE_RESEND_INTERVAL_MS) (rq_count ev - 1))) /\
  (rq_count ev = 0 -> ac_sends (snd r) = ac_sends a /\
     fst r = sv_remove_addr (sv_set_obj s (rq_uid ev) SvFin) (so_addr (sv_obj_get s (rq_uid ev)))).
Proof.
  intros Hs Hk. unfold sv_handle_event. rewrite Hs, Hk. cbn [N.eqb]. change (0 =? 0) with true. cbv iota.
  split; intros Hc.
  - destruct (N.ltb_spec 0 (rq_count ev)); [|lia]. split; reflexivity.
  - rewrite Hc. change (0 <? 0) with false. cbv iota. destruct (svc_enable_errors (sv_cfg s)); split; reflexivity.
Qed.

(* ====================================================================== C09 / C10: closing and timers *)

(* disconnect() (Flush) only turns into a disconnect request when nothing is pending in the half-connection *)
Theorem client_flush_disconnect_waits c a now vnow ln rn h t0 to c' a' :
  cl_state_ c = ClActive ln rn h t0 to (Some false) -> hc_is_send_pending h = true ->
  cl_step_if_active c a now vnow = Ok (c', a') ->
  exists h', cl_state_ c' = ClActive ln rn h' t0 to (Some false).
Proof.
  intros Es Hp H. unfold cl_step_if_active in H. rewrite Es, Hp in H. cbn [negb] in H.
  destruct (hc_step h (vnow - t0)) as [h1| |]; cbn [bind] in H; try discriminate.
  destruct (hc_receive h1) as [h2 pkts]. inversion H; subst. cbn. eauto.
Qed.

Lemma nothing_pending_means_empty h :
  hc_is_send_pending h = false -> s_queue (h_snd h) = [] /\ h_pq h = [] /\ h_rq h = [].
Proof.
  unfold hc_is_send_pending. intros H.
  apply orb_false_iff in H. destruct H as [H H3]. apply orb_false_iff in H. destruct H as [H1 H2].
  apply negb_false_iff in H1, H2, H3.
  assert (G : forall A (l : list A), (len l =? 0) = true -> l = []).
  { intros A l E. destruct l; [reflexivity|]. unfold len in E. cbn in E. lia. }
  repeat split; apply G; assumption.
Qed.

(* the peer delivers everything it holds before it reports Disconnect *)
Theorem server_disconnect_delivers_first s a addr now id h t0 to d :
  sv_lookup s addr = Some id -> so_state (sv_obj_get s id) = SvActive h t0 to d ->
  ac_events (snd (sv_handle_disconnect s a addr now)) =
  ac_events a ++ map (EvReceive addr) (snd (hc_receive h)) ++ [EvDisconnect addr].
Proof.
  intros Hl Hs. unfold sv_handle_disconnect. rewrite Hl, Hs. destruct (hc_receive h) as [h' pkts]. cbn.
  rewrite <- app_assoc. reflexivity.
Qed.

Theorem client_disconnect_delivers_first c a now ln rn h t0 to d :
  cl_state_ c = ClActive ln rn h t0 to d ->
  ca_events (snd (cl_handle_disconnect c a now)) = ca_events a ++ map (EvReceive 0) (snd (hc_receive h)) ++ [EvDisconnect 0] /\
  cl_state_ (fst (cl_handle_disconnect c a now)) = ClClosed (now + CLIENT_CLOSED_TIMEOUT_MS).
Proof.
  intros Es. unfold cl_handle_disconnect. rewrite Es. destruct (hc_receive h) as [h' pkts]. cbn.
  rewrite <- app_assoc. split; reflexivity.
Qed.

(* timers of the client: what each expiry does, exactly *)
Theorem client_timer_semantics c a now :
  let r := cl_handle_events c a now in
  match cl_state_ c with
  | ClPending ln rq rt rc sends =>
      (now < rt -> r = (c, a)) /\
      (rt <= now -> 0 < rc -> r = (cl_set c (ClPending ln rq (now + CLIENT_HANDSHAKE_RESEND_INTERVAL_MS) (rc - 1) sends), ca_send a rq)) /\
      (rt <= now -> rc = 0 -> r = (cl_set c ClFin, ca_event a (EvError 0 0)))
  | ClActive _ _ _ _ to _ =>
      (now < to -> r = (c, a)) /\ (to <= now -> r = (cl_set c ClFin, ca_event a (EvError 0 0)))
  | ClClosing rq rt rc =>
      (now < rt -> r = (c, a)) /\
      (rt <= now -> 0 < rc -> r = (cl_set c (ClClosing rq (now + CLIENT_DISCONNECT_RESEND_INTERVAL_MS) (rc - 1)), ca_send a rq)) /\
      (rt <= now -> rc = 0 -> r = (cl_set c ClFin, ca_event a (EvError 0 0)))
  | ClClosed to => (now < to -> r = (c, a)) /\ (to <= now -> r = (cl_set c ClFin, a))
  | ClFin => r = (c, a)
  end.
Proof.
  unfold cl_handle_events. destruct (cl_state_ c).
  - repeat split; intros; destruct (N.leb_spec resend_time now); try lia; try reflexivity;
      destruct (N.ltb_spec 0 resend_count); try lia; reflexivity.
  - split; intros; destruct (N.leb_spec timeout_time now); try lia; reflexivity.
  - repeat split; intros; destruct (N.leb_spec resend_time now); try lia; try reflexivity;
      destruct (N.ltb_spec 0 resend_count); try lia; reflexivity.
  - split; intros; destruct (N.leb_spec timeout_time now); try lia; reflexivity.
  - reflexivity.
Qed.

(* every frame of the connection handled while established pushes the deadline a full active_timeout ahead *)
Theorem client_rx_refreshes_deadline c a f now vnow ln rn h t0 to d c' a' :
  cl_state_ c = ClActive ln rn h t0 to d ->
  (exists s n dgs, f = FData s n dgs) \/ (exists x y, f = FSync x y) \/ (exists x y z, f = FAcks x y z) ->
  cl_handle_frame c a f now vnow = Ok (c', a') ->
  exists h', cl_state_ c' = ClActive ln rn h' t0 (now + ec_active_timeout (cl_ec c)) d /\ a' = a.
Proof.
  intros Es Hf H. destruct Hf as [[s0 [n0 [dgs ->]]]|[[x [y ->]]|[x [y [z ->]]]]]; cbn [cl_handle_frame] in H; rewrite Es in H;
    (match type of H with bind ?e _ = _ => destruct e as [[h' k]| |]; cbn [bind] in H; try discriminate end);
    inversion H; subst; cbn; eauto.
Qed.

(* the connection's first deadline counts from the completion of the handshake *)
Theorem client_deadline_from_connect c a na n mrr mra now vnow ln rq rt rc sends :
  cl_state_ c = ClPending ln rq rt rc sends -> na = ln ->
  exists h, cl_state_ (fst (cl_handle_syn_ack c a na n mrr mra now vnow)) = ClActive ln n h vnow (now + ec_active_timeout (cl_ec c)) None.
Proof. intros Es ->. unfold cl_handle_syn_ack. rewrite Es, N.eqb_refl. cbn. eauto. Qed.
