(* ReorderProofs.v — the reorder buffer (src/half_connection/reorder_buffer.rs) seen through offsets from a
   reference id L: every callback it makes names an id between its base and the largest id it was given. *)
From Coq Require Import ZArith Lia ZifyBool ZifyN ZifyNat.
From UF Require Import Consts Base F64 Feedback BaseLemmas.
Ltac Zify.zify_post_hook ::= Z.div_mod_to_equations.
Local Open Scope N_scope.

(* ---------- offsets ---------- *)
Definition off (L x : N) : N := sub32 x L.

Lemma off_lt L x : off L x < pow32.
Proof. unfold off, sub32. unfold_pows. lia. Qed.

Lemma off_inj L x y : L < pow32 -> x < pow32 -> y < pow32 -> off L x = off L y -> x = y.
Proof. unfold off, sub32. unfold_pows. lia. Qed.

Lemma off_add32 L x k : L < pow32 -> off L (add32 x k) = (off L x + k) mod pow32.
Proof. unfold off, sub32, add32. unfold_pows. lia. Qed.

Lemma off_inc L x : L < pow32 -> off L x + 1 < pow32 -> off L (inc32 x) = off L x + 1.
Proof. intros HL H. unfold inc32. rewrite off_add32 by exact HL. unfold_pows. lia. Qed.

Lemma sub32_off L x y : L < pow32 -> x < pow32 -> y < pow32 ->
  sub32 x y = (off L x + pow32 - off L y) mod pow32.
Proof. unfold off, sub32. unfold_pows. lia. Qed.

Lemma sub32_off_le L x y : L < pow32 -> x < pow32 -> y < pow32 -> off L y <= off L x ->
  sub32 x y = off L x - off L y.
Proof.
  intros HL Hx Hy H. rewrite (sub32_off L) by assumption.
  pose proof (off_lt L x). pose proof (off_lt L y). unfold_pows. lia.
Qed.

Lemma sub32_off_gt L x y : L < pow32 -> x < pow32 -> y < pow32 -> off L x < off L y ->
  sub32 x y = pow32 - (off L y - off L x).
Proof.
  intros HL Hx Hy H. rewrite (sub32_off L) by assumption.
  pose proof (off_lt L x). pose proof (off_lt L y). unfold_pows. lia.
Qed.

Lemma inc32_lt x : inc32 x < pow32.
Proof. unfold inc32, add32. unfold_pows. lia. Qed.

Lemma eqb_off L x y : L < pow32 -> x < pow32 -> y < pow32 -> (x =? y) = (off L x =? off L y).
Proof.
  intros HL Hx Hy. destruct (N.eqb_spec x y) as [->|Hne]; [rewrite N.eqb_refl; reflexivity|].
  destruct (N.eqb_spec (off L x) (off L y)) as [E|_]; [|reflexivity].
  exfalso. apply Hne. apply (off_inj L); assumption.
Qed.

(* ---------- the buffer ---------- *)
Definition stored (b : reorder) : list N :=
  if rb_count b =? 0 then [] else if rb_count b =? 1 then [rb_f0 b] else [rb_f0 b; rb_f1 b].

Definition ev_ok (L n : N) (ev : rb_events) : Prop := Forall (fun e => off L (fst e) < n) ev.

Record RbIn (L n : N) (b : reorder) : Prop := {
  ri_base : rb_base b < pow32;
  ri_f0 : rb_f0 b < pow32;
  ri_f1 : rb_f1 b < pow32;
  ri_count : rb_count b <= 2;
  ri_base_le : off L (rb_base b) <= n;
  ri_one : rb_count b = 1 -> off L (rb_base b) < off L (rb_f0 b) /\ off L (rb_f0 b) < n;
  ri_two : rb_count b = 2 -> off L (rb_base b) < off L (rb_f0 b) /\ off L (rb_f0 b) < off L (rb_f1 b) /\ off L (rb_f1 b) < n
}.

Lemma ev_ok_app L n a b : ev_ok L n a -> ev_ok L n b -> ev_ok L n (a ++ b).
Proof. unfold ev_ok. intros. apply Forall_app. split; assumption. Qed.

Lemma ev_ok_one L n x s : off L x < n -> ev_ok L n [(x, s)].
Proof. intros H. constructor; [exact H|constructor]. Qed.

(* while base != target { callback(base, false); base += 1 } *)
Lemma nack_until_spec L n fuel : forall base target ev,
  L < pow32 -> n < pow32 -> base < pow32 -> target < pow32 ->
  off L base <= off L target -> off L target <= n -> off L target - off L base <= N.of_nat fuel ->
  ev_ok L n ev ->
  fst (rb_nack_until fuel base target ev) = target /\ ev_ok L n (snd (rb_nack_until fuel base target ev)).
Proof.
  induction fuel as [|fuel IH]; intros base target ev HL Hn Hb Ht Hle Htn Hf Hev; cbn [rb_nack_until].
  - cbn [fst snd]. split; [|exact Hev]. apply (off_inj L); try assumption. lia.
  - rewrite (eqb_off L) by assumption.
    destruct (N.eqb_spec (off L base) (off L target)) as [E|Hne].
    + cbn [fst snd]. split; [|exact Hev]. apply (off_inj L); assumption.
    + assert (Hinc : off L (inc32 base) = off L base + 1) by (apply off_inc; [exact HL|lia]).
      apply IH; try assumption; try apply inc32_lt; try lia.
      apply ev_ok_app; [exact Hev|]. apply ev_ok_one. lia.
Qed.

Lemma nack_until_fst L n base target ev :
  L < pow32 -> n < pow32 -> base < pow32 -> target < pow32 ->
  off L base <= off L target -> off L target <= n -> ev_ok L n ev ->
  rb_nack_until (N.to_nat (sub32 target base)) base target ev
  = (target, snd (rb_nack_until (N.to_nat (sub32 target base)) base target ev))
  /\ ev_ok L n (snd (rb_nack_until (N.to_nat (sub32 target base)) base target ev)).
Proof.
  intros HL Hn Hb Ht Hle Htn Hev.
  destruct (nack_until_spec L n (N.to_nat (sub32 target base)) base target ev) as [E1 E2]; try assumption.
  - rewrite (sub32_off_le L) by assumption. lia.
  - split; [|exact E2]. destruct (rb_nack_until (N.to_nat (sub32 target base)) base target ev) as [x y]. cbn [fst snd] in *. subst x. reflexivity.
Qed.

(* put: the id lies at or after the base, inside the logged range, and is not already stored *)
Lemma rb_put_ok L n b id :
  L < pow32 -> n + 2 < pow32 -> id < pow32 -> RbIn L n b ->
  off L (rb_base b) <= off L id -> off L id < n ->
  (1 <= rb_count b -> id <> rb_f0 b) -> (rb_count b = 2 -> id <> rb_f1 b) ->
  RbIn L n (fst (rb_put b id)) /\ ev_ok L n (snd (rb_put b id))
  /\ off L (rb_base b) <= off L (rb_base (fst (rb_put b id)))
  /\ rb_span (fst (rb_put b id)) = rb_span b
  /\ (forall x, In x (stored (fst (rb_put b id))) -> In x (stored b) \/ x = id).
Proof.
  intros HL Hn Hid [Hb Hf0 Hf1 Hc Hbl H1 H2] Hle Hlt Hn0 Hn1.
  pose proof (off_lt L id) as Boi. pose proof (off_lt L (rb_base b)) as Bob.
  unfold rb_put.
  destruct (N.eqb_spec (rb_count b) 0) as [C0|C0].
  { (* empty *)
    rewrite (eqb_off L) by assumption.
    destruct (N.eqb_spec (off L id) (off L (rb_base b))) as [E|E]; cbn [fst snd rb_base rb_span].
    - assert (Hi : off L (inc32 (rb_base b)) = off L (rb_base b) + 1) by (apply off_inc; [exact HL|lia]).
      split; [|split; [apply ev_ok_one; exact Hlt|split; [lia|split; [reflexivity|]]]].
      + constructor; cbn [rb_base rb_f0 rb_f1 rb_count]; try assumption; try lia. apply inc32_lt.
      + intros x Hx. unfold stored in Hx. cbn [rb_count] in Hx. destruct Hx.
    - split; [|split; [constructor|split; [lia|split; [reflexivity|]]]].
      + constructor; cbn [rb_base rb_f0 rb_f1 rb_count]; try assumption; try lia.
      + intros x Hx. unfold stored in Hx. cbn [rb_count rb_f0] in Hx. destruct Hx as [<-|[]]. right; reflexivity. }
  destruct (N.eqb_spec (rb_count b) 1) as [C1|C1].
  { (* one stored *)
    destruct (H1 C1) as [Ha Hb1]. pose proof (off_lt L (rb_f0 b)) as Bof.
    assert (Hne0 : off L id <> off L (rb_f0 b)).
    { intros E. apply (Hn0 ltac:(lia)). apply (off_inj L); assumption. }
    rewrite (eqb_off L id) by assumption.
    destruct (N.eqb_spec (off L id) (off L (rb_base b))) as [E|E].
    - assert (Hi : off L (inc32 (rb_base b)) = off L (rb_base b) + 1) by (apply off_inc; [exact HL|lia]).
      rewrite (eqb_off L (rb_f0 b)) by (try assumption; apply inc32_lt). rewrite Hi.
      destruct (N.eqb_spec (off L (rb_f0 b)) (off L (rb_base b) + 1)) as [E2|E2]; cbn [fst snd rb_base rb_span].
      + assert (Hi2 : off L (inc32 (inc32 (rb_base b))) = off L (rb_base b) + 2).
        { rewrite off_inc; [lia|exact HL|lia]. }
        split; [|split; [|split; [lia|split; [reflexivity|]]]].
        * constructor; cbn [rb_base rb_f0 rb_f1 rb_count]; try assumption; try lia. apply inc32_lt.
        * constructor; [cbn [fst]; lia|]. apply ev_ok_one. lia.
        * intros x Hx. unfold stored in Hx. cbn [rb_count] in Hx. destruct Hx.
      + split; [|split; [apply ev_ok_one; lia|split; [lia|split; [reflexivity|]]]].
        * constructor; cbn [rb_base rb_f0 rb_f1 rb_count]; try assumption; try lia. apply inc32_lt.
        * intros x Hx. unfold stored in Hx |- *. cbn [rb_count rb_f0] in Hx. rewrite C1. cbn. left. exact Hx.
    - rewrite !(sub32_off_le L) by (try assumption; lia).
      destruct (N.ltb_spec (off L id - off L (rb_base b)) (off L (rb_f0 b) - off L (rb_base b))) as [Hd|Hd];
        cbn [fst snd rb_base rb_span].
      + split; [|split; [constructor|split; [lia|split; [reflexivity|]]]].
        * constructor; cbn [rb_base rb_f0 rb_f1 rb_count]; try assumption; try lia.
        * intros x Hx. unfold stored in Hx |- *. cbn [rb_count rb_f0 rb_f1] in Hx. rewrite C1. cbn.
          destruct Hx as [<-|[<-|[]]]; [right; reflexivity|left; left; reflexivity].
      + split; [|split; [constructor|split; [lia|split; [reflexivity|]]]].
        * constructor; cbn [rb_base rb_f0 rb_f1 rb_count]; try assumption; try lia.
        * intros x Hx. unfold stored in Hx |- *. cbn [rb_count rb_f0 rb_f1] in Hx. rewrite C1. cbn.
          destruct Hx as [<-|[<-|[]]]; [left; left; reflexivity|right; reflexivity]. }
  assert (C2 : rb_count b = 2) by lia.
  destruct (H2 C2) as (Ha & Hb1 & Hc1).
  pose proof (off_lt L (rb_f0 b)) as Bof0. pose proof (off_lt L (rb_f1 b)) as Bof1.
  assert (Hne0 : off L id <> off L (rb_f0 b)).
  { intros E. apply (Hn0 ltac:(lia)). apply (off_inj L); assumption. }
  assert (Hne1 : off L id <> off L (rb_f1 b)).
  { intros E. apply (Hn1 C2). apply (off_inj L); assumption. }
  rewrite C2. change (2 =? 2) with true. cbv iota.
  rewrite !(sub32_off_le L) by (try assumption; lia).
  (* name the three ids by rank *)
  set (ob := off L (rb_base b)) in *. set (oi := off L id) in *.
  set (o0 := off L (rb_f0 b)) in *. set (o1 := off L (rb_f1 b)) in *.
  assert (Key : exists fmin fmid fmax,
     fmin < pow32 /\ fmid < pow32 /\ fmax < pow32 /\
     ob <= off L fmin /\ off L fmin < off L fmid /\ off L fmid < off L fmax /\ off L fmax < n /\
     (forall x, In x [fmin; fmid; fmax] -> In x [rb_f0 b; rb_f1 b] \/ x = id) /\
     (let '(f1, minf, dmin) := if o1 - ob <? oi - ob then (id, rb_f1 b, o1 - ob) else (rb_f1 b, id, oi - ob) in
      let '(f0, minf0) := if o0 - ob <? dmin then (minf, rb_f0 b) else (rb_f0 b, minf) in
      (f0, minf0, f1)) = (fmid, fmin, fmax)).
  { assert (Fin : forall u v w : N, forall x, In x [u; v; w] -> x = u \/ x = v \/ x = w).
    { intros u v w x [<-|[<-|[<-|[]]]]; tauto. }
    destruct (N.ltb_spec (o1 - ob) (oi - ob)) as [A|A]; cbv beta iota.
    - assert (B : (o0 - ob <? o1 - ob) = true) by lia. rewrite B.
      exists (rb_f0 b), (rb_f1 b), id. fold o0 o1 oi.
      split; [assumption|]. split; [assumption|]. split; [assumption|]. split; [lia|]. split; [lia|]. split; [lia|]. split; [lia|].
      split; [|reflexivity]. intros x Hx. apply Fin in Hx. cbn [In]. destruct Hx as [-> | [-> | ->]]; tauto.
    - destruct (N.ltb_spec (o0 - ob) (oi - ob)) as [B|B].
      + exists (rb_f0 b), id, (rb_f1 b). fold o0 o1 oi.
        split; [assumption|]. split; [assumption|]. split; [assumption|]. split; [lia|]. split; [lia|]. split; [lia|]. split; [lia|].
        split; [|reflexivity]. intros x Hx. apply Fin in Hx. cbn [In]. destruct Hx as [-> | [-> | ->]]; tauto.
      + exists id, (rb_f0 b), (rb_f1 b). fold o0 o1 oi.
        split; [assumption|]. split; [assumption|]. split; [assumption|]. split; [lia|]. split; [lia|]. split; [lia|]. split; [lia|].
        split; [|reflexivity]. intros x Hx. apply Fin in Hx. cbn [In]. destruct Hx as [-> | [-> | ->]]; tauto. }
  destruct Key as (fmin & fmid & fmax & Bmin & Bmid & Bmax & K1 & K2 & K3 & K4 & Kin & Keq).
  destruct (if o1 - ob <? oi - ob then (id, rb_f1 b, o1 - ob) else (rb_f1 b, id, oi - ob)) as [[f1' minf'] dmin'].
  destruct (if o0 - ob <? dmin' then (minf', rb_f0 b) else (rb_f0 b, minf')) as [f0' minf0'].
  injection Keq as -> -> ->.
  destruct (nack_until_fst L n (rb_base b) fmin [] HL ltac:(lia) Hb Bmin ltac:(fold ob; lia) ltac:(lia) ltac:(constructor))
    as [En Eev].
  rewrite En. set (ev0 := snd (rb_nack_until _ _ _ _)) in *.
  assert (Hi1 : off L (inc32 fmin) = off L fmin + 1) by (apply off_inc; [exact HL|lia]).
  rewrite (eqb_off L fmid) by (try assumption; apply inc32_lt). rewrite Hi1.
  destruct (N.eqb_spec (off L fmid) (off L fmin + 1)) as [E1|E1].
  - assert (Hi2 : off L (inc32 (inc32 fmin)) = off L fmin + 2) by (rewrite off_inc; [lia|exact HL|lia]).
    rewrite (eqb_off L fmax) by (try assumption; apply inc32_lt). rewrite Hi2.
    destruct (N.eqb_spec (off L fmax) (off L fmin + 2)) as [E2|E2]; cbn [fst snd rb_base rb_span].
    + assert (Hi3 : off L (inc32 (inc32 (inc32 fmin))) = off L fmin + 3) by (rewrite off_inc; [lia|exact HL|lia]).
      split; [|split; [|split; [fold ob; lia|split; [reflexivity|]]]].
      * constructor; cbn [rb_base rb_f0 rb_f1 rb_count]; try assumption; try lia. apply inc32_lt.
      * repeat apply ev_ok_app; try exact Eev; apply ev_ok_one; lia.
      * intros x Hx. unfold stored in Hx. cbn [rb_count] in Hx. destruct Hx.
    + split; [|split; [|split; [fold ob; lia|split; [reflexivity|]]]].
      * constructor; cbn [rb_base rb_f0 rb_f1 rb_count]; try assumption; try lia. apply inc32_lt.
      * repeat apply ev_ok_app; try exact Eev; apply ev_ok_one; lia.
      * intros x Hx. unfold stored in Hx |- *. cbn [rb_count rb_f0] in Hx. rewrite C2. cbn.
        destruct Hx as [<-|[]]. apply Kin. cbn. tauto.
  - cbn [fst snd rb_base rb_span].
    split; [|split; [|split; [fold ob; lia|split; [reflexivity|]]]].
    + constructor; cbn [rb_base rb_f0 rb_f1 rb_count]; try assumption; try lia. apply inc32_lt.
    + repeat apply ev_ok_app; try exact Eev; apply ev_ok_one; lia.
    + intros x Hx. unfold stored in Hx |- *. cbn [rb_count rb_f0 rb_f1] in Hx. rewrite C2. cbn.
      destruct Hx as [<-|[<-|[]]]; apply Kin; cbn; tauto.
Qed.

(* inside advance() a stored id may coincide with the base for a moment *)
Record RbW (L n : N) (b : reorder) : Prop := {
  rw_base : rb_base b < pow32;
  rw_f0 : rb_f0 b < pow32;
  rw_f1 : rb_f1 b < pow32;
  rw_count : rb_count b <= 2;
  rw_base_le : off L (rb_base b) <= n;
  rw_one : rb_count b = 1 -> off L (rb_base b) <= off L (rb_f0 b) /\ off L (rb_f0 b) < n;
  rw_two : rb_count b = 2 -> off L (rb_base b) <= off L (rb_f0 b) /\ off L (rb_f0 b) < off L (rb_f1 b) /\ off L (rb_f1 b) < n
}.

Lemma RbIn_W L n b : RbIn L n b -> RbW L n b.
Proof. intros [H1 H2 H3 H4 H5 H6 H7]. constructor; try assumption; intros C; [specialize (H6 C)|specialize (H7 C)]; lia. Qed.

Lemma stored_count0 b : rb_count b = 0 -> stored b = [].
Proof. intros C. unfold stored. rewrite C. reflexivity. Qed.

Lemma adv_loop_ok L n nb : forall fuel b ev,
  L < pow32 -> n + 2 < pow32 -> nb < pow32 -> RbW L n b ->
  off L (rb_base b) <= off L nb -> off L nb <= n -> ev_ok L n ev -> rb_count b <= N.of_nat fuel ->
  let r := rb_adv_loop fuel b nb ev in
  RbW L n (fst r) /\ ev_ok L n (snd r)
  /\ off L (rb_base b) <= off L (rb_base (fst r)) /\ off L (rb_base (fst r)) <= off L nb
  /\ rb_span (fst r) = rb_span b
  /\ (forall x, In x (stored (fst r)) -> In x (stored b))
  /\ (1 <= rb_count (fst r) -> off L nb <= off L (rb_f0 (fst r))).
Proof.
  induction fuel as [|fuel IH]; intros b ev HL Hn Hnb W Hle Hnn Hev Hfu.
  - cbn [rb_adv_loop fst snd]. split; [exact W|]. repeat split; try assumption; try reflexivity; try lia; auto.
  - destruct W as [Hb Hf0 Hf1 Hc Hbl H1 H2]. cbn [rb_adv_loop].
    pose proof (off_lt L (rb_base b)) as Bob. pose proof (off_lt L nb) as Bon. pose proof (off_lt L (rb_f0 b)) as Bo0.
    destruct (N.ltb_spec 0 (rb_count b)) as [Cpos|Cz]; cbn [andb].
    2:{ cbn [fst snd]. split; [constructor; assumption|]. repeat split; try assumption; try reflexivity; try lia; auto. }
    assert (Hf0le : off L (rb_base b) <= off L (rb_f0 b) /\ off L (rb_f0 b) < n).
    { assert (rb_count b = 1 \/ rb_count b = 2) as [C|C] by lia; [apply H1|destruct (H2 C) as (?&?&?); split; [|lia]]; assumption. }
    destruct (nack_until_fst L n (rb_base b) (rb_f0 b) ev HL ltac:(lia) Hb Hf0 ltac:(lia) ltac:(lia) Hev) as [En Eev].
    rewrite En. set (ev1 := snd (rb_nack_until _ _ _ _)) in *.
    rewrite !(sub32_off_le L) by (try assumption; lia).
    destruct (N.ltb_spec (off L (rb_f0 b) - off L (rb_base b)) (off L nb - off L (rb_base b))) as [Hlt|Hge].
    2:{ cbn [fst snd]. split; [constructor; assumption|]. repeat split; try assumption; try reflexivity; try lia; auto. }
    assert (Hi : off L (inc32 (rb_f0 b)) = off L (rb_f0 b) + 1) by (apply off_inc; [exact HL|lia]).
    set (b1 := mkRb (if rb_count b =? 2 then rb_f1 b else rb_f0 b) (rb_f1 b) (rb_count b - 1) (inc32 (rb_f0 b)) (rb_span b)).
    assert (W1 : RbW L n b1).
    { constructor; subst b1; cbn [rb_base rb_f0 rb_f1 rb_count]; try assumption; try lia.
      - apply inc32_lt.
      - destruct (rb_count b =? 2); assumption.
      - intros C. assert (C2 : rb_count b = 2) by lia. destruct (H2 C2) as (?&?&?).
        rewrite C2. change (2 =? 2) with true. cbv iota. lia. }
    specialize (IH b1 (ev1 ++ [(rb_f0 b, true)]) HL Hn Hnb W1).
    subst b1. cbn [rb_base rb_count rb_span] in IH.
    destruct IH as (A1 & A2 & A3 & A4 & A5 & A6 & A7); try lia.
    { apply ev_ok_app; [exact Eev|apply ev_ok_one; lia]. }
    split; [exact A1|]. split; [exact A2|]. split; [lia|]. split; [exact A4|]. split; [exact A5|]. split; [|exact A7].
    intros x Hx. specialize (A6 x Hx). unfold stored in A6 |- *. cbn [rb_count rb_f0 rb_f1] in A6.
    assert (rb_count b = 1 \/ rb_count b = 2) as [C|C] by lia; rewrite C in A6 |- *.
    + change (1 - 1 =? 0) with true in A6. cbv iota in A6. destruct A6.
    + change (2 - 1 =? 0) with false in A6. change (2 - 1 =? 1) with true in A6. change (2 =? 2) with true in A6.
      change (2 =? 0) with false. change (2 =? 1) with false. cbv iota in A6 |- *. cbn [In] in A6 |- *. tauto.
Qed.

(* advance: the new base lies after the old one, within the logged range *)
Lemma rb_advance_ok L n b nb :
  L < pow32 -> n + 2 < pow32 -> nb < pow32 -> RbIn L n b ->
  off L (rb_base b) <= off L nb -> off L nb <= n ->
  let r := rb_advance b nb in
  RbIn L n (fst r) /\ ev_ok L n (snd r)
  /\ off L nb <= off L (rb_base (fst r))
  /\ rb_span (fst r) = rb_span b
  /\ (forall x, In x (stored (fst r)) -> In x (stored b)).
Proof.
  intros HL Hn Hnb I Hle Hnn. unfold rb_advance.
  pose proof (adv_loop_ok L n nb 3 b [] HL Hn Hnb (RbIn_W _ _ _ I) Hle Hnn ltac:(constructor)) as A.
  destruct I as [_ _ _ Hc _ _ _]. specialize (A ltac:(lia)). cbv zeta in A.
  destruct (rb_adv_loop 3 b nb []) as [b1 ev1]. cbn [fst snd] in A.
  destruct A as ([Hb Hf0 Hf1 Hc1 Hbl H1 H2] & A2 & A3 & A4 & A5 & A6 & A7).
  destruct (nack_until_fst L n (rb_base b1) nb ev1 HL ltac:(lia) Hb Hnb A4 Hnn A2) as [En Eev].
  rewrite En. set (ev2 := snd (rb_nack_until _ _ _ _)) in *.
  pose proof (off_lt L nb) as Bon.
  cbn [rb_count rb_f0 rb_f1 rb_span rb_base].
  destruct (N.eqb_spec (rb_count b1) 1) as [C1|C1].
  { destruct (H1 C1) as [Ha Hb1]. specialize (A7 ltac:(lia)).
    rewrite (eqb_off L) by assumption.
    destruct (N.eqb_spec (off L (rb_f0 b1)) (off L nb)) as [E|E]; cbn [fst snd rb_base rb_span].
    - assert (Hi : off L (inc32 nb) = off L nb + 1) by (apply off_inc; [exact HL|lia]).
      split; [|split; [|split; [lia|split; [exact A5|]]]].
      + constructor; cbn [rb_base rb_f0 rb_f1 rb_count]; try assumption; try lia. apply inc32_lt.
      + apply ev_ok_app; [exact Eev|apply ev_ok_one; lia].
      + intros x Hx. unfold stored in Hx. cbn [rb_count] in Hx. destruct Hx.
    - split; [|split; [exact Eev|split; [lia|split; [exact A5|]]]].
      + constructor; cbn [rb_base rb_f0 rb_f1 rb_count]; try assumption; try lia.
      + intros x Hx. apply A6. unfold stored in Hx |- *. cbn [rb_count rb_f0 rb_f1] in Hx. exact Hx. }
  destruct (N.eqb_spec (rb_count b1) 2) as [C2|C2].
  { destruct (H2 C2) as (Ha & Hb1 & Hc2). specialize (A7 ltac:(lia)).
    rewrite (eqb_off L) by assumption.
    destruct (N.eqb_spec (off L (rb_f0 b1)) (off L nb)) as [E|E].
    - assert (Hi : off L (inc32 nb) = off L nb + 1) by (apply off_inc; [exact HL|lia]).
      rewrite (eqb_off L) by (try assumption; apply inc32_lt). rewrite Hi.
      destruct (N.eqb_spec (off L (rb_f1 b1)) (off L nb + 1)) as [E2|E2]; cbn [fst snd rb_base rb_span].
      + assert (Hi2 : off L (inc32 (inc32 nb)) = off L nb + 2) by (rewrite off_inc; [lia|exact HL|lia]).
        split; [|split; [|split; [lia|split; [exact A5|]]]].
        * constructor; cbn [rb_base rb_f0 rb_f1 rb_count]; try assumption; try lia. apply inc32_lt.
        * repeat apply ev_ok_app; try exact Eev; apply ev_ok_one; lia.
        * intros x Hx. unfold stored in Hx. cbn [rb_count] in Hx. destruct Hx.
      + split; [|split; [|split; [lia|split; [exact A5|]]]].
        * constructor; cbn [rb_base rb_f0 rb_f1 rb_count]; try assumption; try lia. apply inc32_lt.
        * apply ev_ok_app; [exact Eev|apply ev_ok_one; lia].
        * intros x Hx. apply A6. unfold stored in Hx |- *. cbn [rb_count rb_f0] in Hx. rewrite C2.
          change (1 =? 0) with false in Hx. change (1 =? 1) with true in Hx.
          change (2 =? 0) with false. change (2 =? 1) with false. cbv iota in Hx |- *. cbn [In] in Hx |- *. tauto.
    - cbn [fst snd rb_base rb_span].
      split; [|split; [exact Eev|split; [lia|split; [exact A5|]]]].
      + constructor; cbn [rb_base rb_f0 rb_f1 rb_count]; try assumption; try lia.
      + intros x Hx. apply A6. unfold stored in Hx |- *. cbn [rb_count rb_f0 rb_f1] in Hx. exact Hx. }
  cbn [fst snd rb_base rb_span].
  split; [|split; [exact Eev|split; [lia|split; [exact A5|]]]].
  - constructor; cbn [rb_base rb_f0 rb_f1 rb_count]; try assumption; try lia.
  - intros x Hx. apply A6. unfold stored in Hx |- *. cbn [rb_count rb_f0 rb_f1] in Hx. exact Hx.
Qed.
