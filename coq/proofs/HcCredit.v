(* HcCredit.v — flush() charges every byte it emits to the flush credit and starts a frame only while the credit
   is non-negative: credit' = credit - bytes emitted, and all frames but the last fit in the credit (C13). *)
From Coq Require Import ZArith Lia ZifyBool ZifyN ZifyNat.
From UF Require Import Consts Base Frame Codec F64 Feedback Sender Receiver FrameAck Heap FrameQueue SendRate HalfConn
                       BaseLemmas HcLemmas HcTotal.
Local Open Scope Z_scope.

Definition bytes_of (out : list (list N)) : Z := fold_right (fun f acc => Z.of_N (len f) + acc) 0 out.

Lemma bytes_of_cons x a : bytes_of (x :: a) = Z.of_N (len x) + bytes_of a.
Proof. reflexivity. Qed.

Lemma bytes_of_app a b : bytes_of (a ++ b) = bytes_of a + bytes_of b.
Proof. induction a as [|x a IH]; [reflexivity|]. rewrite <- app_comm_cons, !bytes_of_cons, IH. lia. Qed.

Lemma bytes_of_nonneg a : 0 <= bytes_of a.
Proof. induction a as [|x a IH]; [cbn; lia|]. rewrite bytes_of_cons. lia. Qed.

Lemma bytes_of_one x : bytes_of [x] = Z.of_N (len x).
Proof. rewrite bytes_of_cons. cbn. lia. Qed.

(* all frames but the last were within the credit: the last one started while the credit was >= 0 *)
Definition lastfit (cr : Z) (out : list (list N)) : Prop :=
  out = [] \/ exists pre l, out = pre ++ [l] /\ 0 <= cr + Z.of_N (len l).

Definition CI (c0 cr : Z) (started : bool) (out : list (list N)) : Prop :=
  cr = c0 - bytes_of out /\ (started = true -> 0 <= cr) /\ lastfit cr out.

Definition is_some {A} (o : option A) : bool := match o with Some _ => true | None => false end.

Section Credit.
  Variable c0 : Z.

  Definition CIe (e : emit_state) : Prop := CI c0 (h_credit (es_h e)) (is_some (es_ip e)) (es_out e).
  Definition CIa (a : ack_state) : Prop := CI c0 (h_credit (as_h a)) (is_some (as_ip a)) (as_out a).

  (* ----- data frames ----- *)
  Lemma ci_fin e : CIe e -> CIe (dfe_finalize e).
  Proof.
    unfold CIe, dfe_finalize. destruct (es_ip e) as [f|] eqn:Eip; [|intros H; rewrite Eip; exact H]. intros (A & B & C).
    cbn [es_h es_ip es_out is_some set_sync_base set_credit set_src set_fq h_credit].
    split; [rewrite bytes_of_app, bytes_of_one; lia|]. split; [discriminate|].
    right. eexists _, _. split; [reflexivity|]. specialize (B eq_refl). lia.
  Qed.

  Lemma ci_mark e : CIe e -> CIe (mark_rate_limited e).
  Proof. auto. Qed.

  Lemma ci_push_new e dg ref resend : CIe e -> es_ip e = None -> CIe (fst (dfe_push_new e dg ref resend)).
  Proof.
    intros H En. unfold dfe_push_new. destruct (Z.ltb_spec (h_credit (es_h e)) 0); cbn [fst]; [exact H|].
    destruct (negb _); cbn [fst]; [exact H|]. unfold CIe in *. rewrite En in H. destruct H as (A & B & C).
    cbn [es_h es_ip es_out is_some]. split; [exact A|]. split; [intros _; lia|exact C].
  Qed.

  Lemma ci_push e uid frag resend e1 r : dfe_push e uid frag resend = Ok (e1, r) -> CIe e -> CIe e1.
  Proof.
    unfold dfe_push. intros E H. destruct (sender_lookup _ _) as [we|]; [|discriminate].
    destruct (es_ip e) as [f|] eqn:Eip.
    - destruct (h_credit (es_h e) - Z.of_N (ip_size f) <? 0).
      + inversion E; subst. apply ci_mark, ci_fin. exact H.
      + destruct ((MAX_FRAME_SIZE <? _)%N || _).
        * inversion E as [E'].
          assert (En : es_ip (dfe_finalize e) = None) by (unfold dfe_finalize; rewrite Eip; reflexivity).
          pose proof (ci_push_new (dfe_finalize e) (pp_datagram (we_packet we) frag) (mkFragRef uid frag) resend (ci_fin e H) En) as X.
          rewrite E' in X. exact X.
        * inversion E; subst. unfold CIe in *. rewrite Eip in H. exact H.
    - inversion E as [E']. pose proof (ci_push_new e (pp_datagram (we_packet we) frag) (mkFragRef uid frag) resend H Eip) as X.
      rewrite E' in X. exact X.
  Qed.

  Lemma ci_check e : CIe e -> CIe (fst (dfe_check_push e)).
  Proof.
    intros H. unfold dfe_check_push.
    destruct (es_ip e) as [f|]; cbv beta iota;
      (destruct (h_credit (es_h e) - Z.of_N _ <? 0); cbn [fst]; [apply ci_mark, ci_fin; exact H|]);
      destruct (negb _); cbn [fst]; exact H.
  Qed.

  Lemma ci_resend : forall fuel e e' fl, resend_loop fuel e = Ok (e', fl) -> CIe e -> CIe e'.
  Proof.
    induction fuel as [|fuel IH]; intros e e' fl E H; cbn [resend_loop] in E; [discriminate|].
    destruct (heap_peek (h_rq (es_h e))) as [ent|]; [|inversion E; subst; exact H].
    destruct (sender_lookup (h_snd (es_h e)) (rq_uid ent)) as [we|].
    2:{ eapply IH; [exact E|]. exact H. }
    destruct (pp_fragment_acked (we_packet we) (rq_frag ent)).
    { eapply IH; [exact E|]. exact H. }
    destruct (h_now (es_h e) <? rq_time ent)%N; [inversion E; subst; exact H|].
    destruct (dfe_push e (rq_uid ent) (rq_frag ent) true) as [[e1 r]| |] eqn:Ep; cbn [bind] in E; try discriminate.
    pose proof (ci_push _ _ _ _ _ _ Ep H) as H1.
    destruct r as [[|]|]; try (inversion E; subst; exact H1).
    destruct (heap_pop (h_rq (es_h e1))) as [[ent1 rq1]|]; [|discriminate].
    eapply IH; [exact E|]. exact H1.
  Qed.

  Lemma ci_inner : forall fuel e e' fl, pending_inner fuel e = Ok (e', fl) -> CIe e -> CIe e'.
  Proof.
    induction fuel as [|fuel IH]; intros e e' fl E H; cbn [pending_inner] in E; [discriminate|].
    destruct (h_pq (es_h e)) as [|ent rest]; [inversion E; subst; exact H|].
    destruct (sender_lookup (h_snd (es_h e)) (pq_uid ent)) as [we|].
    2:{ eapply IH; [exact E|]. exact H. }
    destruct (pp_fragment_acked (we_packet we) (pq_frag ent)).
    { eapply IH; [exact E|]. exact H. }
    destruct (dfe_push e (pq_uid ent) (pq_frag ent) (pq_resend ent)) as [[e1 r]| |] eqn:Ep; cbn [bind] in E; try discriminate.
    pose proof (ci_push _ _ _ _ _ _ Ep H) as H1.
    destruct r as [[|]|]; try (inversion E; subst; exact H1).
    eapply IH; [exact E|]. unfold CIe in *. cbn [es_h es_ip es_out]. destruct (pq_resend ent); exact H1.
  Qed.

  Lemma ci_outer : forall fuel e e' fl, pending_outer fuel e = Ok (e', fl) -> CIe e -> CIe e'.
  Proof.
    induction fuel as [|fuel IH]; intros e e' fl E H; cbn [pending_outer] in E; [discriminate|].
    match type of E with (do r0 <- ?X; _) = _ => destruct X as [[e2 fl2]| |] eqn:E0 end; cbn [bind] in E; try discriminate.
    assert (H2 : CIe e2).
    { destruct (h_pq (es_h e)) as [|p ps]; [|inversion E0; subst; exact H].
      pose proof (ci_check e H) as Hc. destruct (dfe_check_push e) as [e1 r]. cbn [fst] in Hc.
      destruct r as [[|]|].
      - inversion E0; subst. exact Hc.
      - inversion E0; subst. apply ci_fin. exact Hc.
      - destruct (sender_emit_packet (h_snd (es_h e1)) (h_flush_id (es_h e1))) as [s' r].
        destruct r as [[uid resend]|].
        + destruct (sender_lookup s' uid) as [we|]; [|discriminate]. inversion E0; subst. exact Hc.
        + inversion E0; subst. exact Hc. }
    destruct fl2; try (inversion E; subst; exact H2).
    destruct (pending_inner _ e2) as [[e3 fl3]| |] eqn:E3; cbn [bind] in E; try discriminate.
    pose proof (ci_inner _ _ _ _ E3 H2) as H3.
    destruct fl3; try (inversion E; subst; exact H3).
    eapply IH; eassumption.
  Qed.

  Lemma ci_emit_data fuel h out h' out' ok :
    emit_data_frames fuel h out = Ok (h', out', ok) -> CI c0 (h_credit h) false out -> CI c0 (h_credit h') false out'.
  Proof.
    unfold emit_data_frames. intros E H.
    destruct (resend_loop fuel (mkEs h None out)) as [[e fl]| |] eqn:E1; cbn [bind] in E; try discriminate.
    pose proof (ci_resend _ _ _ _ E1 H) as H1.
    assert (Drop : forall e0, CIe e0 -> CI c0 (h_credit (es_h e0)) false (es_out e0)).
    { intros e0 (A & B & C). split; [exact A|]. split; [discriminate|exact C]. }
    destruct fl; try (inversion E; subst; apply Drop; exact H1).
    - destruct (pending_outer fuel e) as [[e2 fl2]| |] eqn:E2; cbn [bind] in E; try discriminate.
      pose proof (ci_outer _ _ _ _ E2 H1) as H2.
      destruct fl2; inversion E; subst; apply Drop; try exact H2; apply ci_fin; exact H2.
    - destruct (pending_outer fuel e) as [[e2 fl2]| |] eqn:E2; cbn [bind] in E; try discriminate.
      pose proof (ci_outer _ _ _ _ E2 H1) as H2.
      destruct fl2; inversion E; subst; apply Drop; try exact H2; apply ci_fin; exact H2.
  Qed.

  (* ----- acknowledgement frames ----- *)
  Lemma cia_fin a : CIa a -> CIa (afe_finalize a).
  Proof.
    unfold CIa, afe_finalize. destruct (as_ip a) as [f|] eqn:Eip; [|intros H; rewrite Eip; exact H]. intros (A & B & C).
    cbn [as_h as_ip as_out is_some set_sync_reply set_credit h_credit].
    split; [rewrite bytes_of_app, bytes_of_one; lia|]. split; [discriminate|].
    right. eexists _, _. split; [reflexivity|]. specialize (B eq_refl). lia.
  Qed.

  Lemma cia_push_new a g : CIa a -> as_ip a = None -> CIa (fst (afe_push_new a g)).
  Proof.
    intros H En. unfold afe_push_new. destruct (Z.ltb_spec (h_credit (as_h a)) 0); cbn [fst]; [exact H|].
    unfold CIa in *. rewrite En in H. destruct H as (A & B & C). cbn [as_h as_ip as_out is_some].
    split; [exact A|]. split; [intros _; lia|exact C].
  Qed.

  Lemma cia_push a g : CIa a -> CIa (fst (afe_push a g)).
  Proof.
    intros H. unfold afe_push. destruct (as_ip a) as [f|] eqn:Eip; [|apply cia_push_new; assumption].
    destruct (h_credit (as_h a) - Z.of_N (ai_size f) <? 0); cbn [fst]; [apply cia_fin; exact H|].
    destruct (MAX_FRAME_SIZE <? _)%N.
    - apply cia_push_new; [apply cia_fin; exact H|]. unfold afe_finalize. rewrite Eip. reflexivity.
    - cbn [fst]. unfold CIa in *. rewrite Eip in H. exact H.
  Qed.

  Lemma cia_dud a : CIa a -> CIa (fst (afe_push_dud a)).
  Proof.
    intros H. unfold afe_push_dud. destruct (as_ip a) eqn:Eip; cbn [fst]; [exact H|].
    destruct (Z.ltb_spec (h_credit (as_h a)) 0); cbn [fst]; [exact H|].
    unfold CIa in *. rewrite Eip in H. destruct H as (A & B & C). cbn [as_h as_ip as_out is_some].
    split; [exact A|]. split; [intros _; lia|exact C].
  Qed.

  Lemma cia_loop : forall fuel a a' ok, ack_loop fuel a = Ok (a', ok) -> CIa a -> CIa a'.
  Proof.
    induction fuel as [|fuel IH]; intros a a' ok E H; cbn [ack_loop] in E; [discriminate|].
    destruct (faq_peek (h_faq (as_h a))) as [g|]; [|inversion E; subst; exact H].
    pose proof (cia_push a g H) as P. destruct (afe_push a g) as [a1 ok1]. cbn [fst] in P.
    destruct ok1; [|inversion E; subst; exact P].
    eapply IH; [exact E|]. exact P.
  Qed.

  Lemma ci_emit_ack h out h' out' ok :
    emit_ack_frames h out = Ok (h', out', ok) -> CI c0 (h_credit h) false out -> CI c0 (h_credit h') false out'.
  Proof.
    unfold emit_ack_frames. intros E H.
    set (a0 := mkAs h None out (fa_base (h_faq h)) (r_base (h_rcv h))) in *.
    assert (H0 : CIa a0) by exact H.
    assert (P1 : CIa (fst (if h_sync_reply h then afe_push_dud a0 else (a0, true)))).
    { destruct (h_sync_reply h); [apply cia_dud; exact H0|exact H0]. }
    assert (Drop : forall a, CIa a -> CI c0 (h_credit (as_h a)) false (as_out a)).
    { intros a (A & B & C). split; [exact A|]. split; [discriminate|exact C]. }
    destruct (if h_sync_reply h then afe_push_dud a0 else (a0, true)) as [a1 ok1]. cbn [fst] in P1.
    destruct (negb ok1); [inversion E; subst; apply Drop; exact P1|].
    destruct (ack_loop _ a1) as [[a2 ok2]| |] eqn:E2; cbn [bind] in E; try discriminate.
    pose proof (cia_loop _ _ _ _ E2 P1) as P2.
    destruct ok2; inversion E; subst; apply Drop; [apply cia_fin|]; exact P2.
  Qed.

  Lemma ci_emit_sync h out :
    CI c0 (h_credit h) false out ->
    CI c0 (h_credit (fst (fst (emit_sync_frame h out)))) false (snd (fst (emit_sync_frame h out))).
  Proof.
    intros H. unfold emit_sync_frame.
    destruct (N.max (h_rto h) MIN_SYNC_TIMEOUT_MS <=? h_now h - h_sync_base h)%N; [|exact H].
    match goal with |- context [if ?c then (h, out, true) else _] => destruct c end; [exact H|].
    destruct (Z.ltb_spec (h_credit h) 0); cbn [fst snd]; [exact H|].
    destruct H as (A & B & C). cbn [set_sync_base set_credit h_credit].
    split; [rewrite bytes_of_app, bytes_of_one; lia|]. split; [discriminate|].
    right. eexists _, _. split; [reflexivity|]. lia.
  Qed.
End Credit.

(* flush(): exact charge, and every frame starts within the credit *)
Theorem hc_flush_credit h h' out :
  hc_flush h = Ok (h', out) ->
  h_credit h' = h_credit h - bytes_of out /\ lastfit (h_credit h') out.
Proof.
  unfold hc_flush. intros E.
  assert (H0 : CI (h_credit h) (h_credit h) false []).
  { split; [cbn; lia|]. split; [discriminate|left; reflexivity]. }
  assert (Fin : forall hx ox, CI (h_credit h) (h_credit hx) false ox -> h_credit hx = h_credit h - bytes_of ox /\ lastfit (h_credit hx) ox).
  { intros hx ox (A & _ & C). split; assumption. }
  destruct (emit_ack_frames h []) as [[[h1 out1] ok1]| |] eqn:E1; cbn [bind] in E; try discriminate.
  pose proof (ci_emit_ack _ _ _ _ _ _ E1 H0) as H1.
  destruct (negb ok1); [inversion E; subst; apply Fin; exact H1|].
  destruct (emit_data_frames (hc_flush_fuel h1) h1 out1) as [[[h2 out2] ok2]| |] eqn:E2; cbn [bind] in E; try discriminate.
  pose proof (ci_emit_data _ _ _ _ _ _ _ E2 H1) as H2.
  destruct (negb ok2); [inversion E; subst; apply Fin; exact H2|].
  pose proof (ci_emit_sync (h_credit h) h2 out2 H2) as H3.
  destruct (emit_sync_frame h2 out2) as [[h3 out3] ok3]. cbn [fst snd] in H3. inversion E; subst. apply Fin. exact H3.
Qed.

(* hence: with a negative credit nothing is sent; otherwise everything but the last frame fits in the credit *)
Corollary hc_flush_within_credit h h' out :
  hc_flush h = Ok (h', out) ->
  (h_credit h < 0 -> out = []) /\
  (forall pre l, out = pre ++ [l] -> bytes_of pre <= h_credit h).
Proof.
  intros E. destruct (hc_flush_credit h h' out E) as [A B]. split.
  - intros Hn. destruct B as [B|(pre & l & -> & B)]; [exact B|].
    rewrite bytes_of_app, bytes_of_one in A. pose proof (bytes_of_nonneg pre). lia.
  - intros pre l ->. destruct B as [B|(pre' & l' & Eq & B)]; [destruct pre; discriminate|].
    apply app_inj_tail in Eq as [-> ->]. rewrite bytes_of_app, bytes_of_one in A. lia.
Qed.
