(* PullBegins.v — C12 (the repair D7 at model level): emit_data_frames takes the next packet off the send queue only
   after DataFrameEmitter::check_push() succeeded, and after a successful check_push() the push of a fragment cannot
   fail for lack of credit or of frame-window space: the fragment goes into the frame under construction in this
   very flush. So a packet leaves the send queue only when its transmission begins. *)
From Coq Require Import ZArith Lia ZifyBool ZifyN ZifyNat.
From UF Require Import Consts Base Frame Codec F64 Feedback Sender Receiver FrameAck Heap FrameQueue SendRate HalfConn
                       BaseLemmas SenderProofs AckProofs ReorderProofs FrameQueueProofs HcLemmas HcTotal.
Local Open Scope N_scope.

Lemma can_push_after_push q size now refs nonce :
  FqCore q -> fq_can_push_count q 2 = true -> fq_can_push (fq_push q size now refs nonce) = true.
Proof.
  intros C H. unfold fq_can_push_count in H. apply N.leb_le in H.
  assert (Hc : fq_can_push q = true) by (unfold fq_can_push; apply N.ltb_lt; lia).
  unfold fq_push. rewrite Hc. unfold fq_can_push. cbn [fq_next fq_wbase fq_wsize]. apply N.ltb_lt.
  pose proof (off_add32 (fq_wbase q) (fq_next q) 1 (fc_wbase q C)) as E. unfold off in E. rewrite E.
  pose proof (N.mod_le (sub32 (fq_next q) (fq_wbase q) + 1) pow32 ltac:(unfold_pows; lia)). lia.
Qed.

Theorem check_push_guarantees_push e e' uid frag resend we :
  HcInv (es_h e) -> dfe_check_push e = (e', None) -> sender_lookup (h_snd (es_h e)) uid = Some we ->
  e' = e /\ exists e1 ip, dfe_push e uid frag resend = Ok (e1, None) /\ es_ip e1 = Some ip /\
    (resend = true -> In (mkFragRef uid frag) (ip_refs ip)).
Proof.
  intros [I W] Hc Hl. unfold dfe_check_push in Hc. unfold dfe_push. rewrite Hl.
  destruct (es_ip e) as [f|] eqn:Eip.
  - destruct (Z.ltb_spec (h_credit (es_h e) - Z.of_N (ip_size f)) 0) as [|Hcr]; [discriminate|].
    destruct (fq_can_push_count (h_fq (es_h e)) (1 + 1)) eqn:Ecp; cbn [negb] in Hc; [|discriminate].
    inversion Hc; subst e'. split; [reflexivity|].
    destruct (_ || _).
    + (* the frame in progress is full: it is finished and a new one started *)
      unfold dfe_push_new, dfe_finalize. rewrite Eip. cbn [es_h es_ip es_out].
      cbn [set_sync_base set_credit set_src set_fq h_credit h_fq h_nonce_seed].
      rewrite build_data_frame_len.
      assert (Es : (6 + len (ip_enc f) + 4 = ip_size f)%N) by (unfold ip_size; reflexivity). rewrite Es.
      destruct (Z.ltb_spec (h_credit (es_h e) - Z.of_N (ip_size f)) 0) as [|_]; [lia|].
      rewrite (can_push_after_push _ _ _ _ _ (proj1 I) Ecp). cbn [negb].
      eexists _, _. split; [reflexivity|]. cbn [es_ip]. split; [reflexivity|]. intros ->. cbn [ip_refs]. left. reflexivity.
    + eexists _, _. split; [reflexivity|]. cbn [es_ip]. split; [reflexivity|]. intros ->. cbn [ip_refs]. apply in_or_app. right. left. reflexivity.
  - destruct (Z.ltb_spec (h_credit (es_h e) - Z.of_N 0) 0) as [|Hcr]; [discriminate|].
    destruct (fq_can_push_count (h_fq (es_h e)) (0 + 1)) eqn:Ecp; cbn [negb] in Hc; [|discriminate].
    inversion Hc; subst e'. split; [reflexivity|].
    unfold dfe_push_new. destruct (Z.ltb_spec (h_credit (es_h e)) 0) as [|_]; [lia|].
    assert (Hp : fq_can_push (h_fq (es_h e)) = true).
    { unfold fq_can_push_count in Ecp. apply N.leb_le in Ecp. unfold fq_can_push. apply N.ltb_lt. lia. }
    rewrite Hp. cbn [negb]. eexists _, _. split; [reflexivity|]. cbn [es_ip]. split; [reflexivity|]. intros ->. cbn [ip_refs]. left. reflexivity.
Qed.

(* a packet just taken off the send queue has no acknowledged fragment: the pending loop will push its first one *)
Lemma fresh_packet_unacked data chan seq wpl cpl last frag :
  pp_fragment_acked (mkPending data chan seq wpl cpl last []) frag = false.
Proof. reflexivity. Qed.
