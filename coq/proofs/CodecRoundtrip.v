(* CodecRoundtrip.v — read_frame (write_frame f) = Ok (Some f) for every representable frame. *)
From Coq Require Import ZArith Lia ZifyBool ZifyN ZifyNat.
From UF Require Import Consts Base Crc Frame Codec BaseLemmas CrcLemmas.
Ltac Zify.zify_post_hook ::= Z.div_mod_to_equations.

(* evaluate closed additions that `simpl never` keeps folded *)
Ltac ceval :=
  repeat match goal with
  | |- context [N.add (Npos ?a) (Npos ?b)] =>
      let v := eval vm_compute in (N.add (Npos a) (Npos b)) in change (N.add (Npos a) (Npos b)) with v
  | |- context [N.add N0 ?b] => change (N.add N0 b) with b
  end.

Ltac get_eval := unfold get32, get16, get; ceval;
  cbv -[N.div N.modulo N.add N.mul N.sub N.eqb N.ltb N.leb N.lxor N.lor N.land
        pow8 pow16 pow20 pow24 pow32 be32 be16 crc_compute len app slice slice_from].

Ltac bool_hyps :=
  repeat match goal with
  | H : andb _ _ = true |- _ => apply andb_true_iff in H; destruct H
  | H : orb _ _ = true |- _ => apply orb_true_iff in H
  | H : negb _ = true |- _ => apply negb_true_iff in H
  end.

Lemma read_frame_with_crc ty payload :
  read_frame (with_crc (ty :: payload)) = read_payload ty payload.
Proof.
  unfold read_frame, with_crc.
  set (body := ty :: payload). set (c := crc_compute body).
  assert (Hc : c < pow32) by apply crc_compute_lt.
  assert (Hl : len (body ++ u32be c) = len body + 4) by (rewrite len_app; reflexivity).
  assert (Hb : len body = 1 + len payload) by apply len_cons.
  rewrite Hl.
  destruct (N.ltb_spec (len body + 4) 5) as [H|H]; [lia|].
  replace (len body + 4 - 4) with (len body) by lia.
  rewrite slice_app_l. cbn [bind].
  rewrite <- (app_nil_r (u32be c)) at 1. rewrite get32_app_u32be by assumption. cbn [bind].
  fold c. rewrite N.eqb_refl. cbn [negb].
  change (body ++ u32be c) with ([ty] ++ payload ++ u32be c).
  replace (len body) with (len [ty] + len payload) by (rewrite Hb; reflexivity).
  change 1 with (len [ty]) at 1.
  rewrite slice_mid. cbn [bind app]. rewrite get_cons_0. cbn [bind]. reflexivity.
Qed.

(* ---- fixed-size frames ---- *)

Lemma rt_syn_ack na n a b c :
  na < pow32 -> n < pow32 -> a < pow32 -> b < pow32 -> c < pow32 ->
  read_frame (write_handshake_syn_ack na n a b c) = Ok (Some (FSynAck na n a b c)).
Proof.
  intros. unfold write_handshake_syn_ack. cbn [app]. rewrite read_frame_with_crc.
  unfold read_payload. cbv [HANDSHAKE_SYN_FRAME_ID HANDSHAKE_SYN_ACK_FRAME_ID].
  change (1 =? 0) with false. change (1 =? 1) with true. cbv iota.
  unfold read_handshake_syn_ack_payload, u32be. cbn [app].
  change (len _ =? HANDSHAKE_SYN_ACK_FRAME_PAYLOAD_SIZE) with true. cbn [negb].
  get_eval. rewrite !be32_u32be by assumption. reflexivity.
Qed.

Lemma rt_hs_ack na : na < pow32 -> read_frame (write_handshake_ack na) = Ok (Some (FHsAck na)).
Proof.
  intros. unfold write_handshake_ack. cbn [app]. rewrite read_frame_with_crc.
  unfold read_payload. cbv [HANDSHAKE_SYN_FRAME_ID HANDSHAKE_SYN_ACK_FRAME_ID HANDSHAKE_ACK_FRAME_ID].
  change (2 =? 0) with false. change (2 =? 1) with false. change (2 =? 2) with true. cbv iota.
  unfold read_handshake_ack_payload, u32be.
  change (len _ =? HANDSHAKE_ACK_FRAME_PAYLOAD_SIZE) with true. cbn [negb].
  get_eval. rewrite !be32_u32be by assumption. reflexivity.
Qed.

Lemma rt_hs_error na e : na < pow32 -> read_frame (write_handshake_error na e) = Ok (Some (FHsError na e)).
Proof.
  intros. unfold write_handshake_error. cbn [app]. rewrite read_frame_with_crc.
  unfold read_payload. cbv [HANDSHAKE_SYN_FRAME_ID HANDSHAKE_SYN_ACK_FRAME_ID HANDSHAKE_ACK_FRAME_ID HANDSHAKE_ERROR_FRAME_ID].
  change (3 =? 0) with false. change (3 =? 1) with false. change (3 =? 2) with false. change (3 =? 3) with true. cbv iota.
  unfold read_handshake_error_payload, u32be. cbn [app].
  change (len _ =? HANDSHAKE_ERROR_FRAME_PAYLOAD_SIZE) with true. cbn [negb].
  get_eval. rewrite !be32_u32be by assumption. destruct e; reflexivity.
Qed.

Lemma rt_disconnect : read_frame write_disconnect = Ok (Some FDisconnect).
Proof. vm_compute. reflexivity. Qed.

Lemma rt_disconnect_ack : read_frame write_disconnect_ack = Ok (Some FDisconnectAck).
Proof. vm_compute. reflexivity. Qed.

Lemma rt_sync nf np : opt_u32 nf = true -> opt_u32 np = true ->
  read_frame (write_sync nf np) = Ok (Some (FSync nf np)).
Proof.
  intros Hf Hp. unfold write_sync. cbn [app]. rewrite read_frame_with_crc.
  unfold read_payload. cbv [HANDSHAKE_SYN_FRAME_ID HANDSHAKE_SYN_ACK_FRAME_ID HANDSHAKE_ACK_FRAME_ID HANDSHAKE_ERROR_FRAME_ID
                            DISCONNECT_FRAME_ID DISCONNECT_ACK_FRAME_ID DATA_FRAME_ID SYNC_FRAME_ID].
  change (11 =? 0) with false. change (11 =? 1) with false. change (11 =? 2) with false. change (11 =? 3) with false.
  change (11 =? 4) with false. change (11 =? 5) with false. change (11 =? 10) with false. change (11 =? 11) with true.
  cbv iota.
  unfold read_sync_payload, u32be. cbn [app].
  change (len _ =? SYNC_FRAME_PAYLOAD_SIZE) with true. cbn [negb].
  destruct nf as [f|], np as [p|]; cbn [opt_u32] in *; cbn [b2n]; get_eval;
    repeat match goal with |- context [?a mod 2 =? 0] => let v := eval vm_compute in (a mod 2 =? 0) in change (a mod 2 =? 0) with v end;
    cbn [negb]; get_eval; rewrite ?be32_u32be by lia; reflexivity.
Qed.

Lemma len_repeatN {A} (x : A) n : len (repeatN x n) = N.of_nat n.
Proof. unfold len. rewrite repeatN_length. reflexivity. Qed.

Lemma rt_syn v n a b c :
  v < pow8 -> n < pow32 -> a < pow32 -> b < pow32 -> c < pow32 ->
  read_frame (write_handshake_syn v n a b c) = Ok (Some (FSyn v n a b c)).
Proof.
  intros. unfold write_handshake_syn. cbn [app]. rewrite read_frame_with_crc.
  unfold read_payload. cbv [HANDSHAKE_SYN_FRAME_ID]. change (0 =? 0) with true. cbv iota.
  unfold read_handshake_syn_payload, u32be. cbn [app length].
  set (pad := repeatN 0 _).
  match goal with |- context [len ?l =? _] => assert (Hlen : len l = HANDSHAKE_SYN_FRAME_PAYLOAD_SIZE) end.
  { rewrite !len_cons. subst pad. rewrite len_repeatN. vm_compute. reflexivity. }
  rewrite Hlen, N.eqb_refl. cbn [negb].
  get_eval. rewrite !be32_u32be by assumption.
  replace (v mod pow8) with v by nia_pows. reflexivity.
Qed.

(* ---- ack frames ---- *)

Lemma get32_at0 x rest : x < pow32 -> get32 (u32be x ++ rest) 0 = Ok x.
Proof. intros. apply (get32_app_u32be [] x rest). assumption. Qed.

Lemma get16_at0 x rest : x < pow16 -> get16 (u16be x ++ rest) 0 = Ok x.
Proof. intros. apply (get16_app_u16be [] x rest). assumption. Qed.

Lemma len_u32be x : len (u32be x) = 4. Proof. reflexivity. Qed.
Lemma len_u16be x : len (u16be x) = 2. Proof. reflexivity. Qed.

Lemma read_frame_ack_enc ag rest :
  ag_representable ag = true ->
  read_frame_ack (encode_ack_group ag ++ rest) = Ok (Some (ag, ACK_GROUP_SIZE)).
Proof.
  intros Hr. unfold ag_representable in Hr. bool_hyps.
  unfold read_frame_ack, encode_ack_group.
  rewrite <- !app_assoc.
  rewrite !len_app, !len_u32be. cbv [ACK_GROUP_SIZE].
  destruct (N.ltb_spec (4 + (4 + (len [b2n (ag_nonce ag)] + len rest))) 9) as [Hl|Hl].
  { rewrite len_cons in Hl. lia. }
  rewrite get32_at0 by lia. cbn [bind].
  change 4 with (len (u32be (ag_base ag))) at 1. rewrite get32_app_u32be by lia. cbn [bind].
  rewrite (app_assoc (u32be (ag_base ag))).
  change 8 with (len (u32be (ag_base ag) ++ u32be (ag_bits ag))).
  rewrite get_app_off0. cbn [app]. rewrite get_cons_0. cbn [bind].
  destruct ag as [b bits nonce]; cbn [ag_base ag_bits ag_nonce]. destruct nonce; reflexivity.
Qed.

Lemma read_frame_acks_enc acks : forall rest acc,
  forallb ag_representable acks = true ->
  read_frame_acks (length acks) (concat (map encode_ack_group acks) ++ rest) acc
  = Ok (Some (rev acc ++ acks, rest)).
Proof.
  induction acks as [|ag acks IH]; intros rest acc Hr; cbn [length map concat read_frame_acks app].
  - rewrite app_nil_r. reflexivity.
  - cbn [forallb] in Hr. bool_hyps.
    rewrite <- app_assoc. rewrite read_frame_ack_enc by assumption. cbn [bind].
    replace ACK_GROUP_SIZE with (len (encode_ack_group ag)) by reflexivity.
    rewrite slice_from_app. cbn [bind].
    rewrite IH by assumption. cbn [rev]. rewrite <- app_assoc. reflexivity.
Qed.

Lemma rt_acks fb pb acks :
  fb < pow32 -> pb < pow32 -> len acks < pow16 -> forallb ag_representable acks = true ->
  read_frame (write_acks fb pb acks) = Ok (Some (FAcks fb pb acks)).
Proof.
  intros Hf Hp Hn Hr. unfold write_acks, build_ack_frame. cbn [app]. rewrite read_frame_with_crc.
  unfold read_payload. cbv [HANDSHAKE_SYN_FRAME_ID HANDSHAKE_SYN_ACK_FRAME_ID HANDSHAKE_ACK_FRAME_ID HANDSHAKE_ERROR_FRAME_ID
                            DISCONNECT_FRAME_ID DISCONNECT_ACK_FRAME_ID DATA_FRAME_ID SYNC_FRAME_ID ACK_FRAME_ID].
  change (12 =? 0) with false. change (12 =? 1) with false. change (12 =? 2) with false. change (12 =? 3) with false.
  change (12 =? 4) with false. change (12 =? 5) with false. change (12 =? 10) with false. change (12 =? 11) with false.
  change (12 =? 12) with true. cbv iota.
  replace (len acks mod pow16) with (len acks) by nia_pows.
  unfold read_ack_payload.
  set (enc := concat (map encode_ack_group acks)).
  rewrite !len_app, !len_u32be, len_u16be. cbv [ACK_FRAME_PAYLOAD_HEADER_SIZE].
  destruct (N.ltb_spec (4 + (4 + (2 + len enc))) 10) as [Hl|Hl]; [lia|].
  rewrite get32_at0 by assumption. cbn [bind].
  change 4 with (len (u32be fb)) at 1. rewrite get32_app_u32be by assumption. cbn [bind].
  rewrite (app_assoc (u32be fb)).
  change 8 with (len (u32be fb ++ u32be pb)).
  rewrite get16_app_u16be by assumption. cbn [bind].
  rewrite (app_assoc (u32be fb ++ u32be pb)).
  change 10 with (len ((u32be fb ++ u32be pb) ++ u16be (len acks))).
  rewrite slice_from_app. cbn [bind].
  rewrite len_length. rewrite <- (app_nil_r enc). subst enc.
  rewrite read_frame_acks_enc by assumption. cbn [bind rev app].
  reflexivity.
Qed.

(* ---- data frames ---- *)

Lemma slice_hdr hdr data rest n m :
  n = len hdr -> m = len hdr + len data -> slice (hdr ++ data ++ rest) n m = Ok data.
Proof. intros -> ->. apply slice_mid. Qed.

Lemma read_datagram_micro h0 h1 h2 h3 h4 h5 data rest :
  h0 / 128 = 0 -> len data = h0 mod 64 ->
  read_datagram ([h0; h1; h2; h3; h4; h5] ++ data ++ rest)
  = Ok (Some (mkDg ((h1 / 16) * pow16 + h2 * pow8 + h3)
                   (((h4 / 128) mod 2) * 32 + ((h0 / 64) mod 2) * 16 + h1 mod 16)
                   (h4 mod 128) h5 0 0 data, 6 + len data)).
Proof.
  intros H0 Hl. unfold read_datagram.
  rewrite !len_app. change (len [h0; h1; h2; h3; h4; h5]) with 6.
  cbv [DATAGRAM_HEADER_SIZE_MIN DATAGRAM_HEADER_SIZE_MICRO].
  destruct (N.ltb_spec (6 + (len data + len rest)) 6) as [Hx|Hx]; [lia|].
  cbn [app]. rewrite get_cons_0. cbn [bind]. rewrite H0. change (0 =? 0) with true. cbv iota.
  rewrite <- Hl.
  destruct (N.ltb_spec (6 + (len data + len rest)) (6 + len data)) as [Hy|Hy]; [lia|].
  get_eval.
  change (h0 :: h1 :: h2 :: h3 :: h4 :: h5 :: data ++ rest) with ([h0; h1; h2; h3; h4; h5] ++ data ++ rest).
  rewrite (slice_hdr [h0; h1; h2; h3; h4; h5] data rest) by reflexivity.
  reflexivity.
Qed.

Lemma read_datagram_small h0 h1 h2 h3 h4 w0 w1 c0 c1 data rest :
  h0 / 128 <> 0 -> (h0 / 64) mod 2 = 0 -> len data = h1 ->
  read_datagram ([h0; h1; h2; h3; h4; w0; w1; c0; c1] ++ data ++ rest)
  = Ok (Some (mkDg ((h2 mod 16) * pow16 + h3 * pow8 + h4) (h0 mod 64)
                   (be16 w0 w1) (be16 c0 c1) 0 0 data, 9 + len data)).
Proof.
  intros H0 H1 Hl. unfold read_datagram.
  rewrite !len_app. change (len [h0; h1; h2; h3; h4; w0; w1; c0; c1]) with 9.
  cbv [DATAGRAM_HEADER_SIZE_MIN DATAGRAM_HEADER_SIZE_SMALL].
  destruct (N.ltb_spec (9 + (len data + len rest)) 6) as [Hx|Hx]; [lia|].
  cbn [app]. rewrite get_cons_0. cbn [bind].
  destruct (N.eqb_spec (h0 / 128) 0) as [E|E]; [contradiction|].
  rewrite H1. change (0 =? 0) with true. cbv iota.
  rewrite get_cons_S by lia. change (1 - 1) with 0. rewrite get_cons_0. cbn [bind].
  rewrite <- Hl.
  destruct (N.ltb_spec (9 + (len data + len rest)) (9 + len data)) as [Hy|Hy]; [lia|].
  get_eval.
  change (h0 :: len data :: h2 :: h3 :: h4 :: w0 :: w1 :: c0 :: c1 :: data ++ rest)
    with ([h0; len data; h2; h3; h4; w0; w1; c0; c1] ++ data ++ rest).
  rewrite (slice_hdr [h0; len data; h2; h3; h4; w0; w1; c0; c1] data rest) by reflexivity.
  reflexivity.
Qed.

Lemma read_datagram_large h0 l0 l1 h3 h4 h5 w0 w1 c0 c1 f0 f1 g0 g1 data rest :
  h0 / 128 <> 0 -> (h0 / 64) mod 2 <> 0 -> len data = be16 l0 l1 ->
  read_datagram ([h0; l0; l1; h3; h4; h5; w0; w1; c0; c1; f0; f1; g0; g1] ++ data ++ rest)
  = Ok (Some (mkDg ((h3 mod 16) * pow16 + h4 * pow8 + h5) (h0 mod 64)
                   (be16 w0 w1) (be16 c0 c1) (be16 f0 f1) (be16 g0 g1) data, 14 + len data)).
Proof.
  intros H0 H1 Hl. unfold read_datagram.
  rewrite !len_app. change (len [h0; l0; l1; h3; h4; h5; w0; w1; c0; c1; f0; f1; g0; g1]) with 14.
  cbv [DATAGRAM_HEADER_SIZE_MIN DATAGRAM_HEADER_SIZE_LARGE].
  destruct (N.ltb_spec (14 + (len data + len rest)) 6) as [Hx|Hx]; [lia|].
  cbn [app]. rewrite get_cons_0. cbn [bind].
  destruct (N.eqb_spec (h0 / 128) 0) as [E|E]; [contradiction|].
  destruct (N.eqb_spec ((h0 / 64) mod 2) 0) as [E1|E1]; [contradiction|].
  unfold get16 at 1. ceval.
  rewrite get_cons_S by lia. change (1 - 1) with 0. rewrite get_cons_0. cbn [bind].
  rewrite get_cons_S by lia. change (2 - 1) with 1.
  rewrite get_cons_S by lia. change (1 - 1) with 0. rewrite get_cons_0. cbn [bind].
  rewrite <- Hl.
  destruct (N.ltb_spec (14 + (len data + len rest)) (14 + len data)) as [Hy|Hy]; [lia|].
  get_eval.
  change (h0 :: l0 :: l1 :: h3 :: h4 :: h5 :: w0 :: w1 :: c0 :: c1 :: f0 :: f1 :: g0 :: g1 :: data ++ rest)
    with ([h0; l0; l1; h3; h4; h5; w0; w1; c0; c1; f0; f1; g0; g1] ++ data ++ rest).
  rewrite (slice_hdr [h0; l0; l1; h3; h4; h5; w0; w1; c0; c1; f0; f1; g0; g1] data rest) by reflexivity.
  reflexivity.
Qed.

Lemma dg_eq a b c d e f g a' b' c' d' e' f' :
  a = a' -> b = b' -> c = c' -> d = d' -> e = e' -> f = f' ->
  mkDg a b c d e f g = mkDg a' b' c' d' e' f' g.
Proof. intros; subst; reflexivity. Qed.

Lemma read_datagram_encode dg rest :
  dg_representable dg = true ->
  read_datagram (encode_datagram dg ++ rest) = Ok (Some (dg, len (encode_datagram dg))).
Proof.
  intros Hr. unfold dg_representable in Hr. bool_hyps.
  destruct dg as [seq chan wpl cpl frag fl data]; cbn [dg_seq dg_chan dg_wpl dg_cpl dg_frag dg_frag_last dg_data] in *.
  cbv [MAX_CHANNELS] in *.
  assert (Hlen : len data mod pow16 = len data) by nia_pows.
  unfold encode_datagram; cbn [dg_seq dg_chan dg_wpl dg_cpl dg_frag dg_frag_last dg_data].
  rewrite Hlen.
  assert (Hchan : forall flag, chan_or chan flag = chan + flag).
  { intros flag. unfold chan_or. destruct (N.ltb_spec chan 64); [reflexivity|lia]. }
  destruct (N.eqb_spec fl 0) as [Efl|Efl].
  - (* single fragment *)
    assert (frag = 0) by lia. subst frag fl.
    destruct ((len data <? 64) && (wpl <? 128) && (cpl <? 256)) eqn:Em.
    + bool_hyps. rewrite <- app_assoc.
      rewrite read_datagram_micro by nia_pows.
      rewrite len_app. change (len [_; _; _; _; _; _]) with 6.
      do 3 f_equal. apply dg_eq; nia_pows.
    + destruct (N.ltb_spec (len data) 256) as [Es|Es].
      * unfold u16be. rewrite Hchan. cbn [app]. 
        match goal with |- read_datagram (?a :: ?b :: ?c :: ?d :: ?e :: ?f :: ?g :: ?h :: ?i :: data ++ rest) = _ =>
          change (read_datagram ([a; b; c; d; e; f; g; h; i] ++ data ++ rest) = Ok (Some (mkDg seq chan wpl cpl 0 0 data, len ([a; b; c; d; e; f; g; h; i] ++ data)))) end.
        rewrite read_datagram_small by nia_pows.
        rewrite len_app. change (len [_; _; _; _; _; _; _; _; _]) with 9.
        do 3 f_equal. unfold be16. apply dg_eq; nia_pows.
      * unfold u16be. rewrite Hchan. cbn [app].
        match goal with |- read_datagram (?a :: ?b :: ?c :: ?d :: ?e :: ?f :: ?g :: ?h :: ?i :: ?j :: ?k :: ?l :: ?m :: ?n :: data ++ rest) = _ =>
          change (read_datagram ([a; b; c; d; e; f; g; h; i; j; k; l; m; n] ++ data ++ rest) = Ok (Some (mkDg seq chan wpl cpl 0 0 data, len ([a; b; c; d; e; f; g; h; i; j; k; l; m; n] ++ data)))) end.
        rewrite read_datagram_large by (unfold be16; nia_pows).
        rewrite len_app. change (len [_; _; _; _; _; _; _; _; _; _; _; _; _; _]) with 14.
        do 3 f_equal. unfold be16. apply dg_eq; nia_pows.
  - unfold u16be. rewrite Hchan. cbn [app].
    match goal with |- read_datagram (?a :: ?b :: ?c :: ?d :: ?e :: ?f :: ?g :: ?h :: ?i :: ?j :: ?k :: ?l :: ?m :: ?n :: data ++ rest) = _ =>
      change (read_datagram ([a; b; c; d; e; f; g; h; i; j; k; l; m; n] ++ data ++ rest) = Ok (Some (mkDg seq chan wpl cpl frag fl data, len ([a; b; c; d; e; f; g; h; i; j; k; l; m; n] ++ data)))) end.
    rewrite read_datagram_large by (unfold be16; nia_pows).
    rewrite len_app. change (len [_; _; _; _; _; _; _; _; _; _; _; _; _; _]) with 14.
    do 3 f_equal. unfold be16. apply dg_eq; nia_pows.
Qed.

Lemma read_datagrams_enc dgs : forall rest acc,
  forallb dg_representable dgs = true ->
  read_datagrams (length dgs) (concat (map encode_datagram dgs) ++ rest) acc
  = Ok (Some (rev acc ++ dgs, rest)).
Proof.
  induction dgs as [|dg dgs IH]; intros rest acc Hr; cbn [length map concat read_datagrams app].
  - rewrite app_nil_r. reflexivity.
  - cbn [forallb] in Hr. bool_hyps.
    rewrite <- app_assoc. rewrite read_datagram_encode by assumption. cbn [bind].
    rewrite slice_from_app. cbn [bind].
    rewrite IH by assumption. cbn [rev]. rewrite <- app_assoc. reflexivity.
Qed.

Lemma rt_data seq nonce dgs :
  seq < pow32 -> len dgs <= DATA_FRAME_MAX_DATAGRAM_COUNT -> forallb dg_representable dgs = true ->
  read_frame (write_data seq nonce dgs) = Ok (Some (FData seq nonce dgs)).
Proof.
  intros Hs Hn Hr. unfold write_data, build_data_frame. cbn [app]. rewrite read_frame_with_crc.
  unfold read_payload. cbv [HANDSHAKE_SYN_FRAME_ID HANDSHAKE_SYN_ACK_FRAME_ID HANDSHAKE_ACK_FRAME_ID HANDSHAKE_ERROR_FRAME_ID
                            DISCONNECT_FRAME_ID DISCONNECT_ACK_FRAME_ID DATA_FRAME_ID].
  change (10 =? 0) with false. change (10 =? 1) with false. change (10 =? 2) with false. change (10 =? 3) with false.
  change (10 =? 4) with false. change (10 =? 5) with false. change (10 =? 10) with true. cbv iota.
  cbv [DATA_FRAME_MAX_DATAGRAM_COUNT] in Hn.
  unfold nonce_count_byte. destruct (N.ltb_spec (len dgs) 128) as [Hc|Hc]; [|lia].
  unfold read_data_payload.
  set (enc := concat (map encode_datagram dgs)).
  set (cb := b2n nonce * 128 + len dgs).
  rewrite !len_app, !len_u32be, len_cons. cbv [DATA_FRAME_PAYLOAD_HEADER_SIZE].
  destruct (N.ltb_spec (4 + (1 + len enc)) 5) as [Hl|Hl]; [lia|].
  rewrite get32_at0 by assumption. cbn [bind].
  change 4 with (len (u32be seq)) at 1. rewrite get_app_off0. cbn [app]. rewrite get_cons_0. cbn [bind].
  change (u32be seq ++ cb :: enc) with (u32be seq ++ [cb] ++ enc). rewrite app_assoc.
  change 5 with (len (u32be seq ++ [cb])).
  rewrite slice_from_app. cbn [bind].
  assert (Hcb : cb mod 128 = len dgs) by (subst cb; destruct nonce; cbn [b2n]; lia).
  rewrite Hcb, len_length. rewrite <- (app_nil_r enc). subst enc.
  rewrite read_datagrams_enc by assumption. cbn [bind rev app].
  change (len [] =? 0) with true. cbn [negb].
  replace (negb (cb / 128 =? 0)) with nonce; [reflexivity|].
  subst cb. destruct nonce; cbn [b2n].
  - destruct (N.eqb_spec ((1 * 128 + len dgs) / 128) 0); [lia|reflexivity].
  - destruct (N.eqb_spec ((0 * 128 + len dgs) / 128) 0); [reflexivity|lia].
Qed.

Theorem codec_roundtrip f : representable f = true -> read_frame (write_frame f) = Ok (Some f).
Proof.
  intros Hr. destruct f; cbn [representable write_frame] in *; bool_hyps.
  - apply rt_syn; lia.
  - apply rt_syn_ack; lia.
  - apply rt_hs_ack; lia.
  - apply rt_hs_error; lia.
  - apply rt_disconnect.
  - apply rt_disconnect_ack.
  - apply rt_data; try assumption; lia.
  - apply rt_sync; assumption.
  - apply rt_acks; try assumption; lia.
Qed.
