(* ReceiverData.v — C01, receiver side: what is handed out is what was assembled. Every entry of the delivery log
   of ReceiverOrder.v (channel, absolute id, data) is a *production*: the result the assembly window returned for
   that very slot generation when a datagram completed the packet (single fragment: the datagram's payload;
   several: FragmentBuffer::finalize) — same channel, same data, nothing invented, nothing moved to another
   channel or id. Together with the strictly increasing ids per channel, each production is handed out at most
   once. *)
From Coq Require Import ZArith Lia ZifyBool ZifyN ZifyNat.
From UF Require Import Consts Base Frame Receiver BaseLemmas SenderProofs FragmentProofs ReceiverProofs HcLemmas ReceiverOrder.
Local Open Scope N_scope.
Ltac Zify.zify_post_hook ::= idtac.

(* the packet a datagram completes, by offset from the window base: (channel, offset, data) *)
Definition prod_of (r : receiver) (dg : datagram) : option logent :=
  if negb (datagram_is_valid dg) then None else
  let k := pid_sub (dg_seq dg) (r_base r) in
  if r_wsize r <=? k then None else
  if k <? cboff r (dg_chan dg) then None else
  match asm_try_add (sl_asm (so r k)) (r_alloc r) (r_max_alloc r) dg with
  | (_, _, Some p) => Some (ap_chan p, k, ap_data p)
  | _ => None
  end.

Definition view (s : slot) : bool * N * option (list N) := (sl_dflag s, sl_chan s, sl_data s).

Lemma handle_datagram_view r dg : RI r -> forall k', k' < r_wsize r ->
  view (so (receiver_handle_datagram r dg) k') =
  match prod_of r dg with
  | Some (c, k, d) => if k' =? k then (true, c, d) else view (so r k')
  | None => view (so r k')
  end.
Proof.
  intros I k' Hk'. unfold receiver_handle_datagram, prod_of.
  destruct (datagram_is_valid dg) eqn:Hv; cbn [negb]; [|reflexivity].
  remember (pid_sub (dg_seq dg) (r_base r)) as k eqn:Ek.
  destruct (N.leb_spec (r_wsize r) k) as [_|Hk]; [reflexivity|].
  assert (Hcl : pid_sub (opt_default (r_base r) (rc_base (get_chan r (dg_chan dg)))) (r_base r) = cboff r (dg_chan dg)).
  { unfold cboff. destruct (rc_base (get_chan r (dg_chan dg))); cbn [opt_default]; [reflexivity|]. apply pid_sub_self, (ri_base r I). }
  rewrite Hcl. destruct (N.ltb_spec k (cboff r (dg_chan dg))) as [_|Hcb]; [reflexivity|].
  rewrite (widx_sidx r _ I), <- Ek. fold (so r k).
  pose proof (sidx_lt r k I) as Hi. pose proof (RI_Geo r I) as G.
  destruct (asm_try_add (sl_asm (so r k)) (r_alloc r) (r_max_alloc r) dg) as [[asm' alloc'] [p|]].
  - match goal with |- view (so ?R k') = _ => remember R as r' eqn:Er' end.
    assert (Hso : so r' k' = if Nat.eqb (sidx r k) (sidx r k') then mkSlot asm' true true (ap_chan p) (ap_cpl p) (ap_wpl p) (ap_data p) (sl_marker (so r k)) else so r k').
    { apply (so_upd r r' _ _ k' I); try (rewrite Er'; reflexivity). exact Hi. }
    rewrite Hso. destruct (Nat.eqb_spec (sidx r k) (sidx r k')) as [E|Hne].
    + apply (sidx_eq_iff r k k' G Hk Hk') in E. subst k'. rewrite N.eqb_refl. reflexivity.
    + destruct (N.eqb_spec k' k) as [->|_]; [exfalso; apply Hne; reflexivity|reflexivity].
  - match goal with |- view (so ?R k') = _ => remember R as r' eqn:Er' end.
    assert (Hso : so r' k' = if Nat.eqb (sidx r k) (sidx r k') then mkSlot asm' (sl_entry (so r k)) (sl_dflag (so r k)) (sl_chan (so r k)) (sl_cpl (so r k)) (sl_wpl (so r k)) (sl_data (so r k)) (sl_marker (so r k)) else so r k').
    { apply (so_upd r r' _ _ k' I); try (rewrite Er'; reflexivity). exact Hi. }
    rewrite Hso. destruct (Nat.eqb_spec (sidx r k) (sidx r k')) as [E|Hne]; [|reflexivity].
    apply (sidx_eq_iff r k k' G Hk Hk') in E. subst k'. reflexivity.
Qed.

(* every undelivered packet held in a slot is a recorded production for that absolute id *)
Definition PI (B : N) (r : receiver) (P : list logent) : Prop :=
  forall k, k < r_wsize r -> sl_dflag (so r k) = true -> In (sl_chan (so r k), B + k, sl_data (so r k)) P.

Definition prod_abs (B : N) (r : receiver) (dg : datagram) : list logent :=
  match prod_of r dg with Some (c, k, d) => [(c, B + k, d)] | None => [] end.

Lemma PI_datagram B r dg P : RI r -> PI B r P -> PI B (receiver_handle_datagram r dg) (P ++ prod_abs B r dg).
Proof.
  intros I H k Hk Hd.
  assert (Hw : r_wsize (receiver_handle_datagram r dg) = r_wsize r).
  { pose proof (handle_datagram_wf r dg) as _. unfold receiver_handle_datagram.
    destruct (negb _); [reflexivity|]. destruct (_ <=? _); [reflexivity|]. destruct (_ <? _); [reflexivity|].
    destruct (asm_try_add _ _ _ _) as [[a b] [p|]]; reflexivity. }
  rewrite Hw in Hk. pose proof (handle_datagram_view r dg I k Hk) as V. unfold view in V.
  unfold prod_abs. destruct (prod_of r dg) as [[[c k0] d]|].
  - destruct (N.eqb_spec k k0) as [->|Hne].
    + injection V as _ V2 V3. rewrite V2, V3. apply in_or_app. right. left. reflexivity.
    + injection V as V1 V2 V3. rewrite V2, V3. apply in_or_app. left. apply H; [exact Hk|congruence].
  - injection V as V1 V2 V3. rewrite V2, V3, app_nil_r. apply H; [exact Hk|congruence].
Qed.

Lemma same_but_marker_view s s' : same_but_marker s s' -> view s' = view s.
Proof. unfold same_but_marker, view. intros (_ & _ & A & B & _ & _ & C). rewrite A, B, C. reflexivity. Qed.

Lemma PI_advance B r nb P :
  RI r -> nb < pow20 -> pid_sub nb (r_base r) <= r_wsize r -> (forall k, k < pid_sub nb (r_base r) -> sl_dflag (so r k) = false) ->
  PI B r P -> PI (B + pid_sub nb (r_base r)) (advance_window r nb) P.
Proof.
  intros I Hnb Hd Hnf H. destruct (advance_window_RI r nb I Hnb Hd Hnf) as (I' & Bq & Wq & _ & Hkeep & Heo).
  remember (pid_sub nb (r_base r)) as delta eqn:Ed. intros k Hk Hdf. rewrite Wq in Hk.
  destruct (ri_dflag _ I' k ltac:(rewrite Wq; exact Hk) Hdf) as (_ & Hke & _). rewrite Heo in Hke.
  pose proof (ri_eoff r I) as Heo1.
  assert (HK : delta + k < r_wsize r) by lia.
  pose proof (same_but_marker_view _ _ (Hkeep k Hk HK)) as V. unfold view in V. injection V as V1 V2 V3.
  rewrite V2, V3. replace (B + delta + k) with (B + (delta + k)) by lia. apply H; [exact HK|congruence].
Qed.

(* updates that only touch markers (or one other slot) leave the data of the other slots alone *)
Lemma nth_upd_pres {A B} (f : A -> B) (d : A) : forall l i x j, f x = f (nth i l d) -> f (nth j (upd l i x) d) = f (nth j l d).
Proof.
  induction l as [|h t IH]; intros i x j Hx; cbn [upd]; [reflexivity|].
  destruct i, j; cbn [nth] in *; auto.
Qed.

Lemma set_channel_base_id_data r chan id i :
  sl_data (get_slot (set_channel_base_id r chan id) i) = sl_data (get_slot r i) /\
  r_base (set_channel_base_id r chan id) = r_base r /\ r_wsize (set_channel_base_id r chan id) = r_wsize r.
Proof.
  unfold set_channel_base_id. cbv zeta. destruct (rc_base (get_chan r chan)) as [b|].
  - split; [|split; reflexivity]. unfold get_slot. cbn [set_chans set_slots r_slots].
    rewrite (nth_upd_pres sl_data slot_init) by reflexivity. rewrite (nth_upd_pres sl_data slot_init) by reflexivity. reflexivity.
  - split; [|split; reflexivity]. unfold get_slot. cbn [set_chans set_slots r_slots].
    rewrite (nth_upd_pres sl_data slot_init) by reflexivity. reflexivity.
Qed.

Lemma deliver_step_data r j seq crf' :
  RI r -> cg seq (r_base r + j) -> j < eoff r -> sl_dflag (so r j) = true ->
  forall k, k < r_wsize r -> k <> j ->
  let s := so r j in
  let chan := sl_chan s in
  let ch := get_chan r chan in
  let s' := mkSlot (sl_asm s) (sl_entry s) false (sl_chan s) (sl_cpl s) (sl_wpl s) None (sl_marker s) in
  let r1 := mkReceiver (r_base r) (r_end r) (r_alloc r) (r_max_alloc r) (r_wsize r) (upd (r_slots r) (sidx r j) s')
                       (upd (r_chans r) (N.to_nat chan) (mkRChan (rc_base ch) (rc_count ch - 1))) crf' (r_wrf r) in
  sl_data (so (set_channel_base_id r1 chan (pid_add seq 1)) k) = sl_data (so r k).
Proof.
  intros I Hseq Hj Hd k Hk Hne. cbv zeta. pose proof (RI_Geo r I) as G. pose proof (ri_eoff r I) as Heo.
  match goal with |- sl_data (so (set_channel_base_id ?R1 ?C ?X) k) = _ => remember R1 as r1 eqn:Er1; remember C as chan; remember X as nx end.
  destruct (set_channel_base_id_data r1 chan nx (sidx r k)) as (Hdat & Hb & Hw).
  unfold so at 1. unfold sidx at 1. rewrite Hb, Hw. replace (r_base r1) with (r_base r) by (rewrite Er1; reflexivity).
  replace (r_wsize r1) with (r_wsize r) by (rewrite Er1; reflexivity). fold (sidx r k). rewrite Hdat.
  unfold get_slot. rewrite Er1. cbn [r_slots]. rewrite nth_upd_eq by (apply sidx_lt_geo; exact G).
  destruct (Nat.eqb_spec (sidx r j) (sidx r k)) as [E|_]; [|reflexivity].
  apply (sidx_eq_iff r j k G ltac:(lia) Hk) in E. congruence.
Qed.

(* the delivery loop: the log entries are productions; the slots keep describing productions *)
Lemma deliver_loop_PI B P : forall n seq j r out log,
  RI r -> cg seq (r_base r + j) -> j + N.of_nat n <= eoff r -> Skip r j -> PI B r P ->
  let '(r', out', log') := recv_deliver_g n seq (r_base r) r out log in
  PI B r' P /\ exists nl, log' = log ++ nl /\ forall e, In e nl -> In (absent B r e) P.
Proof.
  induction n as [|n IH]; intros seq j r out log I Hseq Hn Hskip HP; cbn [recv_deliver_g].
  - split; [exact HP|]. exists []. rewrite app_nil_r. split; [reflexivity|intros e []].
  - pose proof (RI_Geo r I) as G. pose proof (ri_eoff r I) as Heo.
    assert (Stop : PI B r P /\ exists nl, log = log ++ nl /\ forall e, In e nl -> In (absent B r e) P).
    { split; [exact HP|]. exists []. rewrite app_nil_r. split; [reflexivity|intros e []]. }
    destruct (r_crf r =? 0); [exact Stop|]. clear Stop.
    assert (HjW : j < r_wsize r) by lia.
    assert (Hseq' : cg (pid_add seq 1) (r_base r + (j + 1))).
    { destruct (pid_add_any seq 1 ltac:(reflexivity)) as [Ha _]. unfold cg. rewrite Ha, N.add_assoc. apply succ_arith_gen. exact Hseq. }
    assert (Hn' : j + 1 + N.of_nat n <= eoff r) by lia.
    rewrite (widx_geo r seq j G Hseq). fold (so r j).
    destruct (sl_dflag (so r j)) eqn:Hd.
    2:{ apply (IH (pid_add seq 1) (j + 1) r out log I Hseq' Hn'); [|exact HP].
        intros k Hk Hdk. destruct (N.eq_dec k j) as [->|Hne]; [congruence|]. apply Hskip; [lia|exact Hdk]. }
    destruct (N.testbit (r_crf r) (sl_chan (so r j))) eqn:Hbit.
    2:{ apply (IH (pid_add seq 1) (j + 1) r out log I Hseq' Hn'); [|exact HP].
        intros k Hk Hdk. destruct (N.eq_dec k j) as [->|Hne]; [exact Hbit|]. apply Hskip; [lia|exact Hdk]. }
    destruct (lead_ok _ _).
    + remember (if rc_count (get_chan r (sl_chan (so r j))) - 1 =? 0 then N.clearbit (r_crf r) (sl_chan (so r j)) else r_crf r) as crf' eqn:Ecrf.
      assert (Hlow : forall k, k < r_wsize r -> k <> j -> sl_dflag (so r k) = true -> sl_chan (so r k) = sl_chan (so r j) -> j < k).
      { intros k Hk Hne Hdk Hck. destruct (N.lt_ge_cases k j) as [Hlt|Hge]; [|lia].
        pose proof (Hskip k Hlt Hdk) as Hb. rewrite Hck, Hbit in Hb. discriminate Hb. }
      pose proof (deliver_step r j seq crf' I Hseq ltac:(lia) Hd Hlow) as Hstep. cbv zeta in Hstep.
      match goal with |- context [recv_deliver_g n _ _ ?R2 _ _] => remember R2 as r2 eqn:Er2 end.
      (* the data of the other slots: r2 differs from r in slot j (flag, data) and in markers only *)
      assert (Hdata : forall k, k < r_wsize r -> k <> j -> sl_data (so r2 k) = sl_data (so r k)).
      { intros k Hk Hne. rewrite Er2. apply (deliver_step_data r j seq crf' I Hseq ltac:(lia) Hd k Hk Hne). }
      destruct Hstep as (I2 & B2 & E2 & W2 & F2 & _ & _ & D2 & Ch2).
      assert (Hseq2 : cg (pid_add seq 1) (r_base r2 + (j + 1))) by (rewrite B2; exact Hseq').
      assert (Hn2 : j + 1 + N.of_nat n <= eoff r2) by (unfold eoff; rewrite E2, B2; exact Hn').
      assert (Hps : pid_sub seq (r_base r) = j).
      { apply pid_sub_spec; [exact (ri_base r I)|destruct (ri_w r I) as (_ & Q & _); unfold pow20 in *; lia|exact Hseq]. }
      assert (Hskip2 : Skip r2 (j + 1)).
      { intros k Hk Hdk. rewrite (D2 k ltac:(lia)) in Hdk. destruct (N.eqb_spec k j) as [->|Hne]; [discriminate Hdk|].
        rewrite (Ch2 k ltac:(lia)), F2. pose proof (Hskip k ltac:(lia) Hdk) as Hb. rewrite Ecrf.
        destruct (_ =? 0); [|exact Hb]. destruct (N.eq_dec (sl_chan (so r k)) (sl_chan (so r j))) as [->|Hnc]; [apply N.clearbit_eq|].
        rewrite N.clearbit_neq by auto. exact Hb. }
      assert (HP2 : PI B r2 P).
      { intros k Hk Hdk. rewrite W2 in Hk. rewrite (D2 k Hk) in Hdk. destruct (N.eqb_spec k j) as [->|Hne]; [discriminate Hdk|].
        rewrite (Ch2 k Hk), (Hdata k Hk Hne). apply HP; assumption. }
      specialize (IH (pid_add seq 1) (j + 1) r2 (match sl_data (so r j) with Some d => out ++ [d] | None => out end)
                     (log ++ [(sl_chan (so r j), seq, sl_data (so r j))]) I2 Hseq2 Hn2 Hskip2 HP2).
      rewrite B2 in IH.
      destruct (recv_deliver_g n (pid_add seq 1) (r_base r) r2 _ _) as [[r' out'] log'].
      destruct IH as (HP' & nl & El & Hin). split; [exact HP'|].
      exists ((sl_chan (so r j), seq, sl_data (so r j)) :: nl). split; [rewrite El, <- app_assoc; reflexivity|].
      intros e [<-|He].
      * unfold absent. cbn [fst snd]. rewrite Hps. apply HP; assumption.
      * specialize (Hin e He). unfold absent in *. rewrite B2 in Hin. exact Hin.
    + match goal with |- context [recv_deliver_g n _ _ ?R1 _ _] => remember R1 as r1 eqn:Er1 end.
      assert (I1 : RI r1) by (apply (RI_same r r1); try (rewrite Er1; reflexivity); exact I).
      assert (B1 : r_base r1 = r_base r) by (rewrite Er1; reflexivity).
      assert (Hso1 : forall k, so r1 k = so r k) by (intros k; rewrite Er1; reflexivity).
      assert (F1 : r_crf r1 = N.clearbit (r_crf r) (sl_chan (so r j))) by (rewrite Er1; reflexivity).
      assert (Hseq1 : cg (pid_add seq 1) (r_base r1 + (j + 1))) by (rewrite B1; exact Hseq').
      assert (Hn1 : j + 1 + N.of_nat n <= eoff r1) by (rewrite Er1; exact Hn').
      assert (Hskip1 : Skip r1 (j + 1)).
      { intros k Hk Hdk. rewrite Hso1 in Hdk |- *. rewrite F1.
        destruct (N.eq_dec (sl_chan (so r k)) (sl_chan (so r j))) as [->|Hnc]; [apply N.clearbit_eq|].
        rewrite N.clearbit_neq by auto. destruct (N.eq_dec k j) as [->|Hne]; [congruence|]. apply Hskip; [lia|exact Hdk]. }
      assert (HP1 : PI B r1 P).
      { intros k Hk Hdk. rewrite Hso1 in *. apply HP; [rewrite Er1 in Hk; exact Hk|exact Hdk]. }
      specialize (IH (pid_add seq 1) (j + 1) r1 out log I1 Hseq1 Hn1 Hskip1 HP1). rewrite B1 in IH.
      destruct (recv_deliver_g n (pid_add seq 1) (r_base r) r1 out log) as [[r' out'] log'].
      destruct IH as (HP' & nl & El & Hin). split; [exact HP'|]. exists nl. split; [exact El|].
      intros e He. specialize (Hin e He). unfold absent in *. rewrite B1 in Hin. exact Hin.
Qed.

Lemma receive_PI B r P :
  RI r -> PI B r P ->
  let '(r', out, log) := receive_g r in
  PI (abs_step B r r') r' P /\ forall e, In e log -> In (absent B r e) P.
Proof.
  intros I HP. unfold receive_g.
  pose proof (ri_base r I) as Hb. pose proof (ri_eoff r I) as Heo.
  assert (Hs0 : cg (r_base r) (r_base r + 0)) by (unfold cg; rewrite N.add_0_r; reflexivity).
  assert (Hn0 : 0 + N.of_nat (N.to_nat (pid_sub (r_end r) (r_base r))) <= eoff r) by (unfold eoff; lia).
  assert (Hsk : Skip r 0) by (intros k Hk; lia).
  assert (Dok0 : Dok B r []) by (intros c A []). assert (S0 : chan_sorted []) by (intros c; constructor).
  pose proof (deliver_loop B (N.to_nat (pid_sub (r_end r) (r_base r))) (r_base r) 0 r [] [] [] I Hs0 Hn0 Hsk Dok0 S0) as L.
  pose proof (deliver_loop_PI B P (N.to_nat (pid_sub (r_end r) (r_base r))) (r_base r) 0 r [] [] I Hs0 Hn0 Hsk HP) as LP.
  destruct (recv_deliver_g _ _ _ r [] []) as [[r1 out] log]. destruct L as (I1 & B1 & E1 & W1 & _).
  destruct LP as (HP1 & nl & El & Hin). cbn [app] in El. subst nl.
  destruct (r_wrf r1).
  - remember (mkReceiver (r_base r1) (r_end r1) (r_alloc r1) (r_max_alloc r1) (r_wsize r1) (r_slots r1) (r_chans r1) (r_crf r1) false) as r2 eqn:Er2.
    assert (I2 : RI r2) by (apply (RI_same r1 r2); try (rewrite Er2; reflexivity); exact I1).
    assert (B2 : r_base r2 = r_base r) by (rewrite Er2; exact B1).
    assert (Eo2 : eoff r2 = eoff r) by (unfold eoff; rewrite Er2; cbn [r_end r_base]; rewrite E1, B1; reflexivity).
    assert (HP2 : PI B r2 P) by (intros k Hk Hd; rewrite Er2 in *; apply HP1; assumption).
    assert (Hs2 : cg (r_base r) (r_base r2 + 0)) by (rewrite B2; exact Hs0).
    destruct (recv_scan_spec r2 I2 (N.to_nat (pid_sub (r_end r) (r_base r))) (r_base r) (r_base r) 0 0 Hs2 Hs2 Hb ltac:(lia)) as (m' & Q1 & Q2 & Q3 & Q4 & Q5).
    { rewrite Eo2. unfold eoff. lia. }
    { intros k H1 H2. lia. }
    remember (recv_scan (N.to_nat (pid_sub (r_end r) (r_base r))) (r_base r) (r_base r) r2) as nb eqn:Enb.
    assert (Hps : pid_sub nb (r_base r2) = m').
    { apply pid_sub_spec; [rewrite B2; exact Hb|destruct (ri_w r I) as (_ & Q & _); unfold eoff in *; unfold pow20 in *; lia|exact Q2]. }
    assert (Hd : pid_sub nb (r_base r2) <= r_wsize r2).
    { rewrite Hps. rewrite Er2. cbn [r_wsize]. rewrite W1. unfold eoff in *. lia. }
    assert (Hnf : forall k, k < pid_sub nb (r_base r2) -> sl_dflag (so r2 k) = false) by (rewrite Hps; intros k Hk; apply Q5; lia).
    pose proof (PI_advance B r2 nb P I2 Q1 Hd Hnf HP2) as HPa.
    destruct (advance_window_RI r2 nb I2 Q1 Hd Hnf) as (_ & Bq & _).
    split; [|exact Hin]. unfold abs_step. rewrite Bq. rewrite B2 in HPa. exact HPa.
  - split; [|exact Hin]. unfold abs_step. rewrite B1, (pid_sub_self _ Hb), N.add_0_r. exact HP1.
Qed.

Lemma resync_PI B r id P :
  RI r -> PI B r P -> PI (abs_step B r (receiver_resynchronize r id)) (receiver_resynchronize r id) P.
Proof.
  intros I HP. unfold receiver_resynchronize. pose proof (ri_base r I) as Hb.
  assert (Same : PI (abs_step B r r) r P) by (unfold abs_step; rewrite (pid_sub_self _ Hb), N.add_0_r; exact HP).
  destruct (pid_valid id) eqn:Hv; cbn [negb]; [|exact Same].
  destruct (N.ltb_spec (r_wsize r) (pid_sub id (r_base r))) as [_|Hle]; [exact Same|].
  assert (Hs0 : cg (r_base r) (r_base r + 0)) by (unfold cg; rewrite N.add_0_r; reflexivity).
  destruct (resync_scan_spec r I (N.to_nat (pid_sub id (r_base r))) (r_base r) 0 Hs0 Hb ltac:(lia)) as (j' & Q1 & Q2 & Q3 & Q4 & Q5).
  remember (resync_scan (N.to_nat (pid_sub id (r_base r))) (r_base r) r) as nb eqn:Enb.
  assert (Hps : pid_sub nb (r_base r) = j').
  { apply pid_sub_spec; [exact Hb|destruct (ri_w r I) as (_ & Q & _); unfold pow20 in *; lia|exact Q2]. }
  assert (Hd : pid_sub nb (r_base r) <= r_wsize r) by (rewrite Hps; lia).
  assert (Hnf : forall k, k < pid_sub nb (r_base r) -> sl_dflag (so r k) = false).
  { rewrite Hps. intros k Hk. destruct (sl_dflag (so r k)) eqn:Hdf; [|reflexivity].
    destruct (ri_dflag r I k ltac:(lia) Hdf) as (Pe & _). rewrite (Q5 k ltac:(lia) Hk) in Pe. discriminate Pe. }
  pose proof (PI_advance B r nb P I Q1 Hd Hnf HP) as HPa.
  destruct (advance_window_RI r nb I Q1 Hd Hnf) as (_ & Bq & _). unfold abs_step. rewrite Bq. exact HPa.
Qed.

(* ---------- whole histories ---------- *)
Fixpoint run_prod (ops : list receiver_op) (g : gstate) (P : list logent) : list logent :=
  match ops with
  | [] => P
  | o :: t =>
      match o with
      | RDatagram dg => run_prod t (gstep g o) (P ++ prod_abs (g_B g) (g_r g) dg)
      | _ => run_prod t (gstep g o) P
      end
  end.

Lemma PI_more B r P Q : PI B r P -> PI B r (P ++ Q).
Proof. intros H k Hk Hd. apply in_or_app. left. apply H; assumption. Qed.

Lemma run_prod_grows : forall ops g P e, In e P -> In e (run_prod ops g P).
Proof.
  induction ops as [|o t IH]; intros g P e He; cbn [run_prod]; [exact He|].
  destruct o; apply IH; try exact He. apply in_or_app. left. exact He.
Qed.

Lemma run_log_in_prod : forall ops g L P,
  GI g -> PI (g_B g) (g_r g) P -> (forall e, In e L -> In e P) ->
  forall e, In e (run_log ops g L) -> In e (run_prod ops g P).
Proof.
  induction ops as [|o t IH]; intros g L P HG HP HL e He; cbn [run_log run_prod] in *; [apply HL; exact He|].
  pose proof (gstep_GI g o HG) as HG'. destruct HG as (I & _).
  destruct o as [dg| |id].
  - apply (IH (gstep g (RDatagram dg)) L _ HG'); [| |exact He].
    + cbn [gstep g_B g_r]. apply PI_datagram; assumption.
    + intros e' He'. apply in_or_app. left. apply HL. exact He'.
  - pose proof (receive_PI (g_B g) (g_r g) P I HP) as R. cbn [gstep] in *. destruct (receive_g (g_r g)) as [[r' out] log].
    destruct R as (HP' & Hin). eapply IH; [exact HG'|exact HP'| |exact He].
    intros e' He'. apply in_app_or in He' as [He'|He']; [apply HL; exact He'|].
    apply in_map_iff in He' as (x & <- & Hx). apply Hin. exact Hx.
  - apply (IH (gstep g (RResync id)) L P HG'); [|exact HL|exact He]. cbn [gstep g_B g_r]. apply resync_PI; assumption.
Qed.

(* every packet handed out is a production (same channel, same absolute id, same data); ids per channel increase *)
Theorem receiver_delivers_productions w b m ops :
  0 < w -> 2 * w <= pow20 -> pow20 mod w = 0 -> b < pow20 ->
  let L := run_log ops (g_init w b m) [] in
  let P := run_prod ops (g_init w b m) [] in
  handed_out ops (receiver_new w b m) = log_data L /\ chan_sorted (log_ids L) /\ forall e, In e L -> In e P.
Proof.
  intros Hw H2 Hd Hb. cbv zeta.
  destruct (run_log_spec ops (g_init w b m) [] eq_refl eq_refl) as (ED & EO).
  destruct (receiver_delivery_order w b m ops Hw H2 Hd Hb) as (S & _). cbv zeta in S.
  split; [rewrite <- EO, g_out_handed; reflexivity|]. split; [rewrite <- ED; exact S|].
  assert (G0 : GI (g_init w b m)).
  { split; [apply receiver_new_RI; assumption|]. split; [intros c A []|intros c; constructor]. }
  apply (run_log_in_prod ops (g_init w b m) [] [] G0); [|intros e []].
  intros k Hk Hdf. exfalso. unfold so, get_slot, g_init, receiver_new in Hdf. cbn [g_r r_slots] in Hdf.
  rewrite repeatN_nth in Hdf. destruct (Nat.ltb _ _); discriminate Hdf.
Qed.

(* what a production is: the packet the assembly window returns for the slot the datagram addresses — on the
   datagram's own channel; for a single-fragment packet the datagram's payload itself *)
Lemma prod_of_spec r dg c k d :
  prod_of r dg = Some (c, k, d) ->
  datagram_is_valid dg = true /\ k = pid_sub (dg_seq dg) (r_base r) /\ k < r_wsize r /\ cboff r (dg_chan dg) <= k /\ c = dg_chan dg /\
  exists asm' alloc' p, asm_try_add (sl_asm (so r k)) (r_alloc r) (r_max_alloc r) dg = (asm', alloc', Some p) /\ d = ap_data p /\
                        (sl_asm (so r k) = AsmOpen -> d <> None -> dg_frag_last dg = 0 /\ d = Some (dg_data dg)).
Proof.
  unfold prod_of. destruct (datagram_is_valid dg) eqn:Hv; cbn [negb]; [|discriminate].
  destruct (N.leb_spec (r_wsize r) (pid_sub (dg_seq dg) (r_base r))) as [|Hk]; [discriminate|].
  destruct (N.ltb_spec (pid_sub (dg_seq dg) (r_base r)) (cboff r (dg_chan dg))) as [|Hc]; [discriminate|].
  destruct (asm_try_add _ _ _ dg) as [[asm' alloc'] [p|]] eqn:Ea; [|discriminate].
  intros E. injection E as <- <- <-. destruct (asm_produced_chan _ _ _ _ _ _ _ Ea) as (Hpc & _).
  repeat split; auto. exists asm', alloc', p. split; [exact Ea|]. split; [reflexivity|].
  intros Ho Hd. rewrite Ho in Ea. destruct (HcLemmas.asm_single_fragment_exact _ _ _ _ _ _ Ea Hd) as (A & B & _). auto.
Qed.
