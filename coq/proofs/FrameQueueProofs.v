(* FrameQueueProofs.v — src/half_connection/frame_queue.rs never indexes outside its log: an invariant of the
   frame queue (log, transfer window, reorder buffer) kept by every operation, under which every operation
   returns normally for every argument (C03). *)
From Coq Require Import ZArith Lia ZifyBool ZifyN ZifyNat.
From UF Require Import Consts Base Frame F64 Feedback Sender FrameQueue BaseLemmas SenderProofs AckProofs ReorderProofs.
Ltac Zify.zify_post_hook ::= Z.div_mod_to_equations.
Local Open Scope N_scope.

Definition fq_n (q : frame_queue) : N := len (fq_frames q).
Definition HALF32 : N := 2147483648.

Record FqCore (q : frame_queue) : Prop := {
  fc_next : fq_next q < pow32;
  fc_lbase : fq_lbase q < pow32;
  fc_wbase : fq_wbase q < pow32;
  fc_len : fq_n q = off (fq_lbase q) (fq_next q);
  fc_win : sub32 (fq_next q) (fq_wbase q) <= fq_wsize q;
  fc_span : rb_span (fq_rb q) = fq_wsize q + fq_wtail q;
  fc_small : fq_wsize q + fq_wtail q < HALF32;
  fc_cap : fq_n q <= fq_wsize q + fq_wtail q;
  fc_rb : RbIn (fq_lbase q) (fq_n q) (fq_rb q);
  fc_acked : forall x, In x (stored (fq_rb q)) -> exists f, fq_get_frame q x = Some f /\ le_acked f = true
}.

(* the log reaches at most wtail frames behind the transfer window *)
Definition FqInv (q : frame_queue) : Prop :=
  FqCore q /\ fq_n q <= sub32 (fq_next q) (fq_wbase q) + fq_wtail q.

(* ---------- list helpers ---------- *)
Lemma nth_opt_some {A} (l : list A) i : i < len l -> exists x, nth_opt l i = Some x.
Proof.
  intros H. unfold nth_opt, len in *. destruct (N.ltb_spec i (N.of_nat (length l))); [|lia].
  destruct (nth_error l (N.to_nat i)) eqn:E; [eauto|]. apply nth_error_None in E. lia.
Qed.

Lemma nth_opt_lt {A} (l : list A) i x : nth_opt l i = Some x -> i < len l.
Proof. unfold nth_opt, len. destruct (N.ltb_spec i (N.of_nat (length l))); [auto|discriminate]. Qed.

Lemma nth_opt_app_l {A} (l l2 : list A) i x : nth_opt l i = Some x -> nth_opt (l ++ l2) i = Some x.
Proof.
  intros H. pose proof (nth_opt_lt _ _ _ H) as Hl. unfold nth_opt, len in *. rewrite app_length.
  destruct (N.ltb_spec i (N.of_nat (length l))); [|lia].
  destruct (N.ltb_spec i (N.of_nat (length l + length l2))); [|lia].
  rewrite nth_error_app1 by lia. exact H.
Qed.

Lemma nth_error_skipn' {A} (l : list A) : forall d i, nth_error (skipn d l) i = nth_error l (d + i).
Proof. induction l as [|h t IH]; intros [|d] i; cbn [skipn nth_error Nat.add]; try reflexivity; [destruct i; reflexivity|apply IH]. Qed.

Lemma nth_opt_skipn {A} (l : list A) d i : d <= len l -> nth_opt (skipn (N.to_nat d) l) i = nth_opt l (d + i).
Proof.
  intros H. unfold nth_opt, len in *. rewrite skipn_length.
  destruct (N.ltb_spec i (N.of_nat (length l - N.to_nat d))), (N.ltb_spec (d + i) (N.of_nat (length l))); try lia; [|reflexivity].
  rewrite nth_error_skipn'. f_equal. lia.
Qed.

Lemma nth_opt_upd_len {A} (l : list A) k y : len (upd l k y) = len l.
Proof. unfold len. rewrite upd_length. reflexivity. Qed.

Lemma nth_error_upd_same {A} (l : list A) : forall k y, (k < length l)%nat -> nth_error (upd l k y) k = Some y.
Proof. induction l as [|h t IH]; intros [|k] y H; cbn [length upd nth_error] in *; try lia; [reflexivity|]. apply IH. lia. Qed.

Lemma nth_error_upd_other {A} (l : list A) : forall k j y, k <> j -> nth_error (upd l k y) j = nth_error l j.
Proof.
  induction l as [|h t IH]; intros [|k] [|j] y H; cbn [upd nth_error]; try reflexivity; try lia. apply IH. lia.
Qed.

Lemma nth_opt_upd_same {A} (l : list A) i y : i < len l -> nth_opt (upd l (N.to_nat i) y) i = Some y.
Proof.
  intros H. unfold nth_opt, len in *. rewrite upd_length. destruct (N.ltb_spec i (N.of_nat (length l))); [|lia].
  apply nth_error_upd_same. lia.
Qed.

Lemma nth_opt_upd_other {A} (l : list A) i j y : i <> j -> nth_opt (upd l (N.to_nat i) y) j = nth_opt l j.
Proof.
  intros H. unfold nth_opt. rewrite upd_length. destruct (j <? N.of_nat (length l)); [|reflexivity].
  apply nth_error_upd_other. lia.
Qed.

(* ---------- what the invariant looks at ---------- *)
Lemma FqCore_ext q q' :
  fq_next q' = fq_next q -> fq_lbase q' = fq_lbase q -> fq_frames q' = fq_frames q -> fq_rb q' = fq_rb q ->
  fq_wbase q' = fq_wbase q -> fq_wsize q' = fq_wsize q -> fq_wtail q' = fq_wtail q ->
  FqCore q -> FqCore q'.
Proof.
  intros E1 E2 E3 E4 E5 E6 E7 [H1 H2 H3 H4 H5 H6 H7 H8 H9 H10].
  constructor; unfold fq_n, fq_get_frame in *; rewrite ?E1, ?E2, ?E3, ?E4, ?E5, ?E6, ?E7; assumption.
Qed.

Lemma FqInv_ext q q' :
  fq_next q' = fq_next q -> fq_lbase q' = fq_lbase q -> fq_frames q' = fq_frames q -> fq_rb q' = fq_rb q ->
  fq_wbase q' = fq_wbase q -> fq_wsize q' = fq_wsize q -> fq_wtail q' = fq_wtail q ->
  FqInv q -> FqInv q'.
Proof.
  intros E1 E2 E3 E4 E5 E6 E7 [C T]. split; [eapply FqCore_ext; eassumption|].
  unfold fq_n in *. rewrite E1, E3, E5, E7. exact T.
Qed.

Lemma fq_new_inv size tail base :
  base < pow32 -> size + tail < HALF32 -> FqInv (fq_new size tail base).
Proof.
  intros Hb Hs. unfold fq_new, FqInv, fq_n. cbn [fq_frames fq_next fq_wbase fq_wtail].
  assert (E0 : sub32 base base = 0) by (unfold sub32; unfold_pows; lia).
  assert (Ea : add32 size tail = size + tail) by (unfold add32, HALF32 in *; unfold_pows; lia).
  split; [|rewrite E0; unfold len; cbn; lia].
  constructor; cbn [fq_next fq_lbase fq_wbase fq_frames fq_wsize fq_wtail fq_rb rb_span rb_new]; unfold fq_n, off;
    cbn [fq_frames]; try assumption; try (rewrite E0; unfold len; cbn; lia); try (unfold len; cbn; lia).
  - constructor; unfold rb_new; cbn [rb_base rb_f0 rb_f1 rb_count]; unfold off; try assumption; try (rewrite E0; unfold len; cbn; lia);
      try (unfold_pows; lia); intros C; discriminate C.
  - intros x Hx. unfold stored, rb_new in Hx. cbn [rb_count] in Hx. destruct Hx.
Qed.

(* get_frame succeeds exactly on ids whose offset from the log base is below the log length *)
Lemma get_frame_some q x : off (fq_lbase q) x < fq_n q -> exists f, fq_get_frame q x = Some f.
Proof. intros H. unfold fq_get_frame. apply nth_opt_some. exact H. Qed.

Lemma get_frame_lt q x f : fq_get_frame q x = Some f -> off (fq_lbase q) x < fq_n q.
Proof. unfold fq_get_frame. apply nth_opt_lt. Qed.

(* ---------- push ---------- *)
Lemma fq_push_inv q size now refs nonce : FqInv q -> FqInv (fq_push q size now refs nonce).
Proof.
  intros [C T]. unfold fq_push, fq_can_push. destruct (N.ltb_spec (sub32 (fq_next q) (fq_wbase q)) (fq_wsize q)) as [Hc|Hc]; [|split; assumption].
  destruct C as [H1 H2 H3 H4 H5 H6 H7 H8 H9 H10]. unfold fq_n, HALF32 in *.
  assert (En : off (fq_lbase q) (add32 (fq_next q) 1) = off (fq_lbase q) (fq_next q) + 1).
  { rewrite off_add32 by assumption. unfold_pows. lia. }
  assert (Ew : sub32 (add32 (fq_next q) 1) (fq_wbase q) = sub32 (fq_next q) (fq_wbase q) + 1).
  { unfold sub32, add32 in *. unfold_pows. lia. }
  split.
  - constructor; cbn [fq_next fq_lbase fq_wbase fq_frames fq_wsize fq_wtail fq_rb]; unfold fq_n; cbn [fq_frames];
      rewrite ?len_app, ?len_cons, ?len_nil; try assumption; try lia.
    + unfold add32. unfold_pows. lia.
    + destruct H9 as [R1 R2 R3 R4 R5 R6 R7]. constructor; try assumption; try lia.
    + intros x Hx. destruct (H10 x Hx) as [f [Hf Ha]]. exists f. split; [|exact Ha].
      unfold fq_get_frame in *. cbn [fq_frames fq_lbase]. apply nth_opt_app_l. exact Hf.
  - unfold fq_n. cbn [fq_next fq_wbase fq_frames fq_wtail]. rewrite len_app, len_cons, len_nil. lia.
Qed.

(* ---------- the reorder buffer's callbacks ---------- *)
Lemma apply_rb_events_total q rtt : forall ev li,
  ev_ok (fq_lbase q) (fq_n q) ev -> exists li', apply_rb_events q ev rtt li = Ok li'.
Proof.
  induction ev as [|[id seen] ev IH]; intros li H; cbn [apply_rb_events]; [eauto|].
  inversion H as [|? ? H1 H2]; subst. cbn [fst] in H1.
  destruct (get_frame_some q id H1) as [f Hf]. rewrite Hf. apply IH. exact H2.
Qed.

Lemma stored_cases b x : In x (stored b) ->
  (1 <= rb_count b /\ x = rb_f0 b) \/ (2 <= rb_count b /\ x = rb_f1 b).
Proof.
  unfold stored. destruct (N.eqb_spec (rb_count b) 0); [intros []|].
  destruct (N.eqb_spec (rb_count b) 1); cbn [In]; intros H.
  - destruct H as [<-|[]]. left. split; [lia|reflexivity].
  - destruct H as [<-|[<-|[]]]; [left|right]; split; try reflexivity; lia.
Qed.

Lemma stored_after_base L n b x : RbIn L n b -> In x (stored b) -> off L (rb_base b) < off L x /\ off L x < n.
Proof.
  intros [_ _ _ Hc _ H1 H2] Hx. apply stored_cases in Hx.
  assert (rb_count b = 0 \/ rb_count b = 1 \/ rb_count b = 2) as [C|[C|C]] by lia.
  - destruct Hx as [[? _]|[? _]]; lia.
  - destruct Hx as [[_ ->]|[? _]]; [apply H1; exact C|lia].
  - destruct (H2 C) as (?&?&?). destruct Hx as [[_ ->]|[_ ->]]; lia.
Qed.

Definition same_shape (q q' : frame_queue) : Prop :=
  fq_next q' = fq_next q /\ fq_lbase q' = fq_lbase q /\ len (fq_frames q') = len (fq_frames q) /\
  fq_wbase q' = fq_wbase q /\ fq_wsize q' = fq_wsize q /\ fq_wtail q' = fq_wtail q.

Lemma same_shape_refl q : same_shape q q. Proof. repeat split. Qed.
Lemma same_shape_trans a b c : same_shape a b -> same_shape b c -> same_shape a c.
Proof. unfold same_shape. intros (?&?&?&?&?&?) (?&?&?&?&?&?). repeat split; congruence. Qed.

Lemma FqInv_tail_shape q q' : same_shape q q' -> FqCore q' -> FqInv q -> FqInv q'.
Proof.
  intros (E1&E2&E3&E4&E5&E6) C [_ T]. split; [exact C|]. unfold fq_n in *. rewrite E1, E3, E4, E6. exact T.
Qed.

(* notify_ack for a logged frame that has just been marked acknowledged *)
Lemma fq_notify_ack_inv q id rtt f :
  FqCore q -> id < pow32 -> fq_get_frame q id = Some f -> le_acked f = true -> ~ In id (stored (fq_rb q)) ->
  exists q', fq_notify_ack q id rtt = Ok q' /\ FqCore q' /\ same_shape q q' /\ fq_frames q' = fq_frames q.
Proof.
  intros C Hid Hf Ha Hns. unfold fq_notify_ack.
  destruct (rb_can_put (fq_rb q) id) eqn:Ecp; [|exists q; split; [reflexivity|split; [exact C|split; [apply same_shape_refl|reflexivity]]]].
  destruct C as [H1 H2 H3 H4 H5 H6 H7 H8 H9 H10].
  pose proof (get_frame_lt _ _ _ Hf) as Hlt. unfold HALF32 in *.
  pose proof H9 as [R1 R2 R3 R4 R5 R6 R7].
  assert (Hle : off (fq_lbase q) (rb_base (fq_rb q)) <= off (fq_lbase q) id).
  { unfold rb_can_put in Ecp. destruct (N.le_gt_cases (off (fq_lbase q) (rb_base (fq_rb q))) (off (fq_lbase q) id)) as [|G]; [assumption|].
    rewrite (sub32_off_gt (fq_lbase q)) in Ecp by assumption. rewrite H6 in Ecp.
    pose proof (off_lt (fq_lbase q) (rb_base (fq_rb q))). unfold_pows. lia. }
  destruct (rb_put_ok (fq_lbase q) (fq_n q) (fq_rb q) id H2 ltac:(unfold_pows; lia) Hid H9 Hle Hlt) as (P1 & P2 & P3 & P4 & P5).
  { intros Cc E. apply Hns. unfold stored. destruct (N.eqb_spec (rb_count (fq_rb q)) 0); [lia|].
    destruct (rb_count (fq_rb q) =? 1); cbn [In]; left; symmetry; exact E. }
  { intros Cc E. apply Hns. unfold stored. rewrite Cc. change (2 =? 0) with false. change (2 =? 1) with false.
    cbv iota. cbn [In]. right. left. symmetry. exact E. }
  destruct (rb_put (fq_rb q) id) as [rb' ev]. cbn [fst snd] in *.
  destruct (apply_rb_events_total q rtt ev (fq_li q) P2) as [li' Eli]. rewrite Eli. cbn [bind].
  exists (fq_set_feedback q rb' li'). split; [reflexivity|]. split; [|split; [repeat split|reflexivity]].
  constructor; cbn [fq_set_feedback fq_next fq_lbase fq_wbase fq_frames fq_wsize fq_wtail fq_rb]; unfold fq_n in *;
    cbn [fq_frames]; try assumption; try lia.
  intros x Hx. destruct (P5 x Hx) as [Hin| ->]; [apply H10 in Hin; exact Hin|]. exists f. split; [exact Hf|exact Ha].
Qed.

(* marking one logged, not yet acknowledged frame *)
Lemma mark_acked_core q id f f' :
  FqCore q -> id < pow32 -> fq_get_frame q id = Some f -> le_acked f = false -> le_acked f' = true ->
  let q1 := fq_set_frames q (upd (fq_frames q) (N.to_nat (sub32 id (fq_lbase q))) f') in
  FqCore q1 /\ same_shape q q1 /\ fq_get_frame q1 id = Some f' /\ ~ In id (stored (fq_rb q1)).
Proof.
  intros C Hid Hf Ha Ha' q1. pose proof (get_frame_lt _ _ _ Hf) as Hlt.
  destruct C as [H1 H2 H3 H4 H5 H6 H7 H8 H9 H10].
  assert (Hns : ~ In id (stored (fq_rb q))).
  { intros Hin. destruct (H10 id Hin) as [g [Hg Hga]]. congruence. }
  subst q1. unfold fq_set_frames. split; [|split; [|split]].
  - constructor; cbn [fq_set_frames fq_next fq_lbase fq_wbase fq_frames fq_wsize fq_wtail fq_rb]; unfold fq_n in *;
      cbn [fq_frames]; rewrite ?nth_opt_upd_len; try assumption.
    intros x Hx. destruct (H10 x Hx) as [g [Hg Hga]]. exists g. split; [|exact Hga].
    unfold fq_get_frame in *. cbn [fq_frames fq_lbase]. rewrite nth_opt_upd_other; [exact Hg|].
    intros E. apply Hns. replace id with x; [exact Hx|].
    destruct (stored_after_base _ _ _ _ H9 Hx) as [_ Hxl].
    assert (Bx : x < pow32). { destruct H9 as [_ R2 R3 _ _ _ _]. apply stored_cases in Hx. destruct Hx as [[_ ->]|[_ ->]]; assumption. }
    apply (off_inj (fq_lbase q)); try assumption. unfold off. exact (eq_sym E).
  - unfold same_shape. cbn [fq_set_frames fq_next fq_lbase fq_wbase fq_frames fq_wsize fq_wtail]. rewrite nth_opt_upd_len. repeat split.
  - unfold fq_get_frame. cbn [fq_set_frames fq_frames fq_lbase]. apply nth_opt_upd_same. exact Hlt.
  - exact Hns.
Qed.

Lemma span_logged_shape q q' base : same_shape q q' -> forall n i, span_logged q base i n -> span_logged q' base i n.
Proof.
  intros (E1&E2&E3&_) n. induction n as [|n IH]; intros i H; cbn [span_logged] in *; [exact I|].
  destruct H as [[f Hf] Hs]. split; [|apply IH; exact Hs].
  apply get_frame_lt in Hf. apply get_frame_some. unfold fq_n in *. rewrite E2, E3. exact Hf.
Qed.

(* second pass of acknowledge_group: total on a logged span, keeps the invariant *)
Lemma ack_apply_total base bits rtt : forall n i q s a,
  FqInv q -> span_logged q base i n ->
  exists q' s' a', ack_apply q s base bits i n rtt a = Ok (q', s', a') /\ FqInv q' /\ same_shape q q'.
Proof.
  induction n as [|n IH]; intros i q s a I Hs; cbn [ack_apply].
  - exists q, s, a. split; [reflexivity|]. split; [exact I|apply same_shape_refl].
  - cbn [span_logged] in Hs. destruct Hs as [[f Hf] Hs]. rewrite Hf.
    destruct (N.testbit bits i && negb (le_acked f)) eqn:Eb.
    + apply andb_prop in Eb as [_ Eb]. apply negb_true_iff in Eb.
      assert (Hid : add32 base i < pow32) by (unfold add32; unfold_pows; lia).
      set (f' := mkLogEntry (le_size f) (le_time f) [] (le_nonce f) (le_rate_limited f) true).
      destruct (mark_acked_core q (add32 base i) f f' (proj1 I) Hid Hf Eb eq_refl) as (C1 & S1 & G1 & N1).
      set (q1 := fq_set_frames q _) in *.
      destruct (fq_notify_ack_inv q1 (add32 base i) rtt f' C1 Hid G1 eq_refl N1) as (q2 & E2 & C2 & S2 & _).
      rewrite E2. cbn [bind].
      pose proof (same_shape_trans _ _ _ S1 S2) as S12.
      destruct (IH (i + 1) q2 (ack_fragments s (le_refs f))
                   (mkAckAcc (N.max (aa_last a) (le_time f)) (aa_total a + le_size f) (aa_rl a || le_rate_limited f) true)
                   (FqInv_tail_shape _ _ S12 C2 I) (span_logged_shape _ _ _ S12 _ _ Hs)) as (q' & s' & a' & E & I' & S').
      exists q', s', a'. split; [exact E|]. split; [exact I'|]. eapply same_shape_trans; eassumption.
    + destruct (IH (i + 1) q s (mkAckAcc (aa_last a) (aa_total a) (aa_rl a || le_rate_limited f) (aa_new a)) I Hs)
        as (q' & s' & a' & E & I' & S').
      exists q', s', a'. split; [exact E|]. split; assumption.
Qed.

Lemma fq_put_ack_data_inv q ad : FqInv q -> FqInv (fq_put_ack_data q ad).
Proof. apply FqInv_ext; reflexivity. Qed.

Theorem fq_acknowledge_group_total q s ack rtt :
  FqInv q -> exists q' s', fq_acknowledge_group q s ack rtt = Ok (q', s') /\ FqInv q' /\ same_shape q q'.
Proof.
  intros I. unfold fq_acknowledge_group.
  destruct (bitfield_size (ag_bits ack) =? 0); [exists q, s; split; [reflexivity|split; [exact I|apply same_shape_refl]]|].
  destruct (ack_check q (ag_base ack) (ag_bits ack) 0 (N.to_nat (bitfield_size (ag_bits ack))) false) as [tn|] eqn:E;
    [|exists q, s; split; [reflexivity|split; [exact I|apply same_shape_refl]]].
  destruct (negb (Bool.eqb (ag_nonce ack) tn)); [exists q, s; split; [reflexivity|split; [exact I|apply same_shape_refl]]|].
  destruct (ack_apply_total (ag_base ack) (ag_bits ack) rtt _ 0 q s (mkAckAcc 0 0 false false) I (ack_check_some _ _ _ _ _ _ _ E))
    as (q' & s' & a' & E' & I' & S').
  rewrite E'. cbn [bind]. destruct (aa_new a').
  - eexists _, s'. split; [reflexivity|]. split; [apply fq_put_ack_data_inv; exact I'|].
    eapply same_shape_trans; [exact S'|]. repeat split.
  - exists q', s'. split; [reflexivity|]. split; assumption.
Qed.

(* ---------- culling the log ---------- *)
Lemma fq_notify_advancement_inv q nb rtt :
  FqCore q -> nb < pow32 -> off (fq_lbase q) nb <= fq_n q ->
  exists q', fq_notify_advancement q nb rtt = Ok q' /\ FqCore q' /\ same_shape q q' /\ fq_frames q' = fq_frames q
             /\ off (fq_lbase q) nb <= off (fq_lbase q) (rb_base (fq_rb q')).
Proof.
  intros C Hnb Hle. unfold fq_notify_advancement.
  pose proof C as [H1 H2 H3 H4 H5 H6 H7 H8 H9 H10]. unfold HALF32 in *.
  pose proof H9 as [R1 R2 R3 R4 R5 R6 R7].
  pose proof (off_lt (fq_lbase q) (rb_base (fq_rb q))) as Bob. pose proof (off_lt (fq_lbase q) nb) as Bon.
  destruct (rb_can_advance (fq_rb q) nb) eqn:Eca.
  - assert (Hbl : off (fq_lbase q) (rb_base (fq_rb q)) <= off (fq_lbase q) nb).
    { unfold rb_can_advance in Eca.
      destruct (N.le_gt_cases (off (fq_lbase q) (rb_base (fq_rb q))) (off (fq_lbase q) nb)) as [|G]; [assumption|].
      rewrite (sub32_off_gt (fq_lbase q)) in Eca by assumption. rewrite H6 in Eca. unfold_pows. lia. }
    pose proof (rb_advance_ok (fq_lbase q) (fq_n q) (fq_rb q) nb H2 ltac:(unfold_pows; lia) Hnb H9 Hbl Hle) as P.
    cbv zeta in P. destruct (rb_advance (fq_rb q) nb) as [rb' ev]. cbn [fst snd] in P.
    destruct P as (P1 & P2 & P3 & P4 & P5).
    destruct (apply_rb_events_total q rtt ev (fq_li q) P2) as [li' Eli]. rewrite Eli. cbn [bind].
    exists (fq_set_feedback q rb' li'). split; [reflexivity|]. split; [|split; [repeat split|split; [reflexivity|exact P3]]].
    constructor; cbn [fq_set_feedback fq_next fq_lbase fq_wbase fq_frames fq_wsize fq_wtail fq_rb]; unfold fq_n in *;
      cbn [fq_frames]; try assumption; try lia.
    intros x Hx. apply H10. apply P5. exact Hx.
  - exists q. split; [reflexivity|]. split; [exact C|]. split; [apply same_shape_refl|]. split; [reflexivity|].
    unfold rb_can_advance in Eca.
    destruct (N.le_gt_cases (off (fq_lbase q) nb) (off (fq_lbase q) (rb_base (fq_rb q)))) as [|G]; [assumption|].
    rewrite (sub32_off_le (fq_lbase q)) in Eca by (try assumption; lia). rewrite H6 in Eca. lia.
Qed.

Lemma fq_cull_inv q nb rtt :
  FqCore q -> nb < pow32 -> off (fq_lbase q) nb <= fq_n q ->
  exists q', fq_cull q nb rtt = Ok q' /\ FqCore q' /\ fq_n q' = fq_n q - off (fq_lbase q) nb /\
    fq_next q' = fq_next q /\ fq_wbase q' = fq_wbase q /\ fq_wsize q' = fq_wsize q /\ fq_wtail q' = fq_wtail q /\ fq_lbase q' = nb.
Proof.
  intros C Hnb Hle. unfold fq_cull.
  destruct (fq_notify_advancement_inv q nb rtt C Hnb Hle) as (q1 & E1 & C1 & (S1 & S2 & S3 & S4 & S5 & S6) & F1 & B1).
  rewrite E1. cbn [bind]. rewrite S2. fold (off (fq_lbase q) nb).
  set (d := off (fq_lbase q) nb) in *. unfold fq_n in *.
  destruct (N.ltb_spec (len (fq_frames q1)) d) as [Hbad|_]; [lia|].
  eexists. split; [reflexivity|].
  destruct C1 as [H1 H2 H3 H4 H5 H6 H7 H8 H9 H10]. unfold HALF32, fq_n in *.
  rewrite S1, S2, ?S3, ?S4, ?S5, ?S6 in *.
  pose proof (off_lt (fq_lbase q) (fq_next q)) as Bnx.
  assert (Eoff : forall x, x < pow32 -> d <= off (fq_lbase q) x -> off nb x = off (fq_lbase q) x - d).
  { intros x Hx Hd. unfold off at 1. rewrite (sub32_off_le (fq_lbase q)) by assumption. reflexivity. }
  assert (Elen : len (skipn (N.to_nat d) (fq_frames q1)) = len (fq_frames q) - d).
  { unfold len in *. rewrite skipn_length. lia. }
  split; [|cbn [fq_next fq_lbase fq_wbase fq_frames fq_wsize fq_wtail]; repeat split; exact Elen].
  constructor; cbn [fq_next fq_lbase fq_wbase fq_frames fq_wsize fq_wtail fq_rb]; unfold fq_n; cbn [fq_frames];
    rewrite ?Elen; try assumption; try lia.
  - rewrite Eoff by (try assumption; lia). lia.
  - destruct H9 as [R1 R2 R3 R4 R5 R6 R7].
    constructor; try assumption; rewrite ?Eoff by (try assumption; try lia); try lia.
    + intros Cc. destruct (R6 Cc). rewrite !Eoff by (try assumption; lia). lia.
    + intros Cc. destruct (R7 Cc) as (?&?&?). rewrite !Eoff by (try assumption; lia). lia.
  - intros x Hx. destruct (H10 x Hx) as [f [Hf Ha]]. exists f. split; [|exact Ha].
    destruct (stored_after_base _ _ _ _ H9 Hx) as [Hxa Hxb].
    assert (Bx : x < pow32). { destruct H9 as [_ R2 R3 _ _ _ _]. apply stored_cases in Hx. destruct Hx as [[_ ->]|[_ ->]]; assumption. }
    unfold fq_get_frame in *. cbn [fq_frames fq_lbase]. rewrite S2 in Hf. fold (off nb x). fold (off (fq_lbase q) x) in Hf.
    rewrite nth_opt_skipn by lia. rewrite Eoff by (try assumption; lia). rewrite <- Hf. f_equal. lia.
Qed.

Lemma expiry_count_le frames thresh : expiry_count frames thresh <= len frames.
Proof.
  induction frames as [|f t IH]; cbn [expiry_count]; [unfold len; cbn; lia|].
  rewrite len_cons. destruct (le_time f <? thresh); lia.
Qed.

Theorem fq_forget_frames_total q thresh rtt :
  FqInv q -> exists q', fq_forget_frames q thresh rtt = Ok q' /\ FqInv q'.
Proof.
  intros [C T]. unfold fq_forget_frames.
  pose proof (expiry_count_le (fq_frames q) thresh) as Hle.
  pose proof C as [H1 H2 H3 H4 H5 H6 H7 H8 H9 H10]. unfold HALF32, fq_n in *.
  assert (Ew : wrap32 (expiry_count (fq_frames q) thresh) = expiry_count (fq_frames q) thresh).
  { unfold wrap32. unfold_pows. lia. }
  rewrite Ew. set (d := expiry_count (fq_frames q) thresh) in *.
  destruct (N.eqb_spec d 0); [exists q; split; [reflexivity|split; assumption]|].
  assert (Eo : off (fq_lbase q) (add32 (fq_lbase q) d) = d).
  { rewrite off_add32 by assumption. unfold off, sub32. unfold_pows. lia. }
  destruct (fq_cull_inv q (add32 (fq_lbase q) d) rtt C ltac:(unfold add32; unfold_pows; lia) ltac:(unfold fq_n; lia))
    as (q' & E & C' & N' & E1 & E2 & E3 & E4 & E5).
  exists q'. split; [exact E|]. split; [exact C'|]. unfold fq_n in *. rewrite N', E1, E2, E4, Eo. lia.
Qed.

Lemma atw_arith next wbase lbase nb wtail wsize n :
  next < pow32 -> wbase < pow32 -> lbase < pow32 -> nb < pow32 ->
  wsize + wtail < HALF32 -> n = sub32 next lbase -> sub32 next wbase <= wsize -> n <= sub32 next wbase + wtail ->
  sub32 nb wbase <> 0 -> sub32 nb wbase <= sub32 next wbase ->
  sub32 next nb = sub32 next wbase - sub32 nb wbase /\
  (sub32 (sub32 nb wtail) lbase <> 0 -> sub32 (sub32 nb wtail) lbase <= n ->
     n - sub32 (sub32 nb wtail) lbase <= sub32 next wbase - sub32 nb wbase + wtail) /\
  (sub32 (sub32 nb wtail) lbase = 0 \/ n < sub32 (sub32 nb wtail) lbase ->
     n <= sub32 next wbase - sub32 nb wbase + wtail).
Proof. unfold sub32, HALF32. unfold_pows. intros. subst n. repeat split; intros; lia. Qed.

Theorem fq_advance_transfer_window_total q nb rtt :
  FqInv q -> nb < pow32 -> exists q', fq_advance_transfer_window q nb rtt = Ok q' /\ FqInv q'.
Proof.
  intros [C T] Hnb. unfold fq_advance_transfer_window, fq_can_advance_transfer_window.
  pose proof C as [H1 H2 H3 H4 H5 H6 H7 H8 H9 H10]. unfold fq_n in *.
  destruct (negb (sub32 nb (fq_wbase q) =? 0) && (sub32 nb (fq_wbase q) <=? sub32 (fq_next q) (fq_wbase q))) eqn:Eg;
    [|exists q; split; [reflexivity|split; assumption]].
  apply andb_prop in Eg as [Eg1 Eg2]. apply negb_true_iff in Eg1. apply N.eqb_neq in Eg1. apply N.leb_le in Eg2.
  destruct (atw_arith (fq_next q) (fq_wbase q) (fq_lbase q) nb (fq_wtail q) (fq_wsize q) (len (fq_frames q))
              H1 H3 H2 Hnb H7 H4 H5 T Eg1 Eg2) as (Ew & ArA & ArB).
  set (q1 := mkFq (fq_next q) (fq_lbase q) (fq_frames q) (fq_last_feedback q) (fq_ack_data q) (fq_rb q) (fq_li q)
                  nb (fq_wsize q) (fq_wtail q) (fq_rate_limited q)).
  assert (C1 : FqCore q1).
  { constructor; subst q1; cbn [fq_next fq_lbase fq_wbase fq_frames fq_wsize fq_wtail fq_rb]; unfold fq_n, fq_get_frame in *;
      cbn [fq_frames fq_lbase]; try assumption. rewrite Ew. lia. }
  change (fq_wtail q1) with (fq_wtail q). change (fq_lbase q1) with (fq_lbase q). change (fq_frames q1) with (fq_frames q).
  set (mb := sub32 nb (fq_wtail q)) in *.
  assert (Hmb : mb < pow32) by (subst mb; unfold sub32; unfold_pows; lia).
  destruct (negb (sub32 mb (fq_lbase q) =? 0) && (sub32 mb (fq_lbase q) <=? len (fq_frames q))) eqn:Ec.
  - apply andb_prop in Ec as [Ec1 Ec2]. apply negb_true_iff in Ec1. apply N.eqb_neq in Ec1. apply N.leb_le in Ec2.
    destruct (fq_cull_inv q1 mb rtt C1 Hmb Ec2) as (q' & E & C' & N' & E1 & E2 & E3 & E4 & E5).
    exists q'. split; [exact E|]. split; [exact C'|].
    unfold fq_n in *. rewrite N', E1, E2, E4. subst q1. cbn [fq_next fq_lbase fq_wbase fq_frames fq_wtail].
    rewrite Ew. apply ArA; assumption.
  - exists q1. split; [reflexivity|]. split; [exact C1|].
    unfold fq_n. subst q1. cbn [fq_next fq_wbase fq_frames fq_wtail]. rewrite Ew.
    apply ArB. apply andb_false_iff in Ec. destruct Ec as [Ec|Ec].
    + apply negb_false_iff in Ec. apply N.eqb_eq in Ec. left. exact Ec.
    + apply N.leb_gt in Ec. right. exact Ec.
Qed.

(* ---------- the remaining operations touch nothing the invariant looks at ---------- *)
Lemma fq_set_rate_limited_inv q b : FqInv q -> FqInv (fq_set_rate_limited q b).
Proof. apply FqInv_ext; reflexivity. Qed.

Lemma fq_get_feedback_inv q now : FqInv q -> FqInv (fst (fq_get_feedback q now)).
Proof.
  intros I. unfold fq_get_feedback. destruct (fq_ack_data q); [|exact I]. cbn [fst].
  revert I. apply FqInv_ext; reflexivity.
Qed.

Lemma fq_reset_loss_rate_inv q p q' : FqInv q -> fq_reset_loss_rate q p = Ok q' -> FqInv q'.
Proof.
  intros I. unfold fq_reset_loss_rate. destruct (li_reset (fq_li q) p) as [li'| |]; cbn [bind]; intros E; inversion E; subst.
  revert I. apply FqInv_ext; reflexivity.
Qed.
