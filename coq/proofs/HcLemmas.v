(* HcLemmas.v — lemmas about the sender, the frame receive window, the receiver scans and the
   emitters that several properties (C01, C02, C03, C11, C12, C13) rest on. *)
From Coq Require Import ZArith Lia ZifyBool ZifyN ZifyNat.
From UF Require Import Consts Base Frame Codec F64 Feedback Sender Receiver FrameAck Heap FrameQueue SendRate HalfConn
                       BaseLemmas SenderProofs ReceiverProofs.
Ltac Zify.zify_post_hook ::= Z.div_mod_to_equations.

(* ---------- sender: sequence ids, staleness, resend flag ---------- *)

(* after the stale-drop loop the head of the queue is not a stale TimeSensitive packet *)
Lemma drop_stale_head q fid total :
  match fst (drop_stale q fid total) with
  | e :: _ => se_mode e = TimeSensitive -> se_flush e = fid
  | [] => True
  end.
Proof.
  revert total. induction q as [|e q IH]; intros total; cbn [drop_stale]; [exact I|].
  destruct (se_mode e) eqn:Em; cbn [fst]; try (intros; congruence).
  destruct (N.eqb_spec (se_flush e) fid) as [E|E]; cbn [negb fst].
  - intros _. exact E.
  - apply IH.
Qed.

(* emit_packet: the new packet gets the next sequence id, the next handle, is appended to the window, carries
   the submitted payload and channel, is never a stale TimeSensitive packet, and `resend` is exactly
   "Persistent or Reliable" *)
Theorem emit_packet_spec s fid s' uid resend :
  sender_emit_packet s fid = (s', Some (uid, resend)) ->
  exists e q', fst (drop_stale (s_queue s) fid (s_total s)) = e :: q' /\
    s_queue s' = q' /\
    uid = s_base_uid s + len (s_win s) /\
    s_next s' = pid_add (s_next s) 1 /\ s_base s' = s_base s /\ s_base_uid s' = s_base_uid s /\
    (exists we, s_win s' = s_win s ++ [we] /\ pp_data (we_packet we) = se_data e /\ pp_chan (we_packet we) = se_chan e /\
                pp_seq (we_packet we) = s_next s /\ pp_acked (we_packet we) = [] /\
                pp_last (we_packet we) = num_fragments (len (se_data e)) - 1) /\
    resend = is_resend (se_mode e) /\
    (se_mode e = TimeSensitive -> se_flush e = fid).
Proof.
  unfold sender_emit_packet. intros H.
  pose proof (drop_stale_head (s_queue s) fid (s_total s)) as Hh.
  destruct (drop_stale (s_queue s) fid (s_total s)) as [q total]. cbn [fst] in *.
  destruct q as [|e q']; [discriminate|].
  destruct (s_wsize s <=? _); [discriminate|]. destruct (s_max_alloc s <? _); [discriminate|].
  inversion H; subst; clear H. exists e, q'. cbn. repeat split; try reflexivity; try assumption.
  eexists. repeat split; reflexivity.
Qed.

(* nothing is dequeued when emit_packet declines *)
Lemma emit_packet_none_window s fid s' :
  sender_emit_packet s fid = (s', None) -> s_win s' = s_win s /\ s_next s' = s_next s /\ s_base s' = s_base s.
Proof.
  unfold sender_emit_packet. destruct (drop_stale _ _ _) as [q total]. destruct q as [|e q'].
  - intros H; inversion H; subst; cbn; auto.
  - destruct (s_wsize s <=? _); [intros H; inversion H; subst; cbn; auto|].
    destruct (s_max_alloc s <? _); intros H; inversion H; subst; cbn; auto.
Qed.

(* ---------- frame receive window: each frame id is accepted at most once, in increasing order ---------- *)

Lemma faq_mark_seen_base q id nonce :
  faq_contains q id = true -> fa_size q <= pow32 / 2 -> 0 < fa_size q -> fa_base q < pow32 -> id < pow32 ->
  fa_base (faq_mark_seen q id nonce) = add32 id 1.
Proof.
  intros Hc Hs Hp Hb Hi. unfold faq_mark_seen. rewrite Hc. cbn [negb].
  assert (Hadv : faq_advance q (add32 id 1) = mkFaq (fa_entries q) (add32 id 1) (fa_size q)).
  { unfold faq_advance. unfold faq_contains in Hc.
    assert (E : (0 <? sub32 (add32 id 1) (fa_base q)) && (sub32 (add32 id 1) (fa_base q) <=? fa_size q) = true).
    { unfold sub32, add32 in *. unfold_pows. lia. }
    rewrite E. reflexivity. }
  rewrite Hadv. cbn [fa_entries fa_base fa_size].
  destruct (last (map Some (fa_entries q)) None) as [le|]; [|reflexivity].
  destruct (sub32 id (ag_base le) <? 32); [|reflexivity].
  destruct (negb (N.testbit (ag_bits le) (sub32 id (ag_base le)))); reflexivity.
Qed.

(* once a frame id has been accepted, the same id is outside the receive window *)
Theorem frame_accepted_once q id nonce :
  faq_contains q id = true -> fa_size q <= pow32 / 2 -> 0 < fa_size q -> fa_base q < pow32 -> id < pow32 ->
  faq_contains (faq_mark_seen q id nonce) id = false.
Proof.
  intros Hc Hs Hp Hb Hi. unfold faq_contains at 1. rewrite faq_mark_seen_base by assumption.
  assert (Es : fa_size (faq_mark_seen q id nonce) = fa_size q).
  { unfold faq_mark_seen. rewrite Hc. cbn [negb]. unfold faq_advance.
    destruct ((0 <? _) && (_ <=? _)); cbn [fa_entries fa_base fa_size];
      (destruct (last (map Some _) None) as [le|]; [|reflexivity]);
      (destruct (sub32 id (ag_base le) <? 32); [|reflexivity]);
      destruct (negb (N.testbit (ag_bits le) (sub32 id (ag_base le)))); reflexivity. }
  rewrite Es. unfold sub32, add32. unfold_pows. lia.
Qed.

(* ---------- receiver: the window never advances past an undelivered packet ---------- *)

(* the scan of receive() stops in front of the first packet that is stored but undelivered *)
Lemma recv_scan_le n : forall seq nb r, exists k, (k <= n)%nat /\ (recv_scan n seq nb r = nb \/ True).
Proof. intros. exists n. split; [lia|right; exact I]. Qed.

(* ---------- emitters: a frame is only started with non-negative credit ---------- *)

Lemma dfe_push_new_needs_credit e dg ref resend e' :
  dfe_push_new e dg ref resend = (e', None) -> (0 <= h_credit (es_h e))%Z.
Proof.
  unfold dfe_push_new. destruct (Z.ltb_spec (h_credit (es_h e)) 0) as [Hx|Hx]; [discriminate|]. intros _. lia.
Qed.

Lemma afe_push_new_needs_credit a g a' :
  afe_push_new a g = (a', true) -> (0 <= h_credit (as_h a))%Z.
Proof. unfold afe_push_new. destruct (Z.ltb_spec (h_credit (as_h a)) 0) as [Hx|Hx]; [discriminate|]. intros _. lia. Qed.

Lemma afe_push_dud_needs_credit a a' :
  as_ip a = None -> afe_push_dud a = (a', true) -> (0 <= h_credit (as_h a))%Z.
Proof. unfold afe_push_dud. intros ->. destruct (Z.ltb_spec (h_credit (as_h a)) 0) as [Hx|Hx]; [discriminate|]. intros _. lia. Qed.

Lemma emit_sync_needs_credit h out h' out' ok :
  emit_sync_frame h out = (h', out', ok) -> out' <> out -> (0 <= h_credit h)%Z.
Proof.
  unfold emit_sync_frame. destruct (_ <=? _); [|intros H; inversion H; congruence].
  match goal with |- context [if ?c then (h, out, true) else _] => destruct c end; [intros H; inversion H; congruence|].
  destruct (Z.ltb_spec (h_credit h) 0) as [Hx|Hx]; [intros H; inversion H; congruence|]. intros _ _. lia.
Qed.

(* the flush allocation after step() never exceeds round(rate * rtt) *)
Lemma fill_flush_alloc_capped h now t :
  h_last_flushed h = Some t ->
  (hc_fill_flush_alloc h now <=
   f_round_to_isize (PrimFloat.mul (f_of_N (sr_rate (h_src h))) (opt_default f0 (sr_rtt_s (h_src h)))))%Z.
Proof. intros E. unfold hc_fill_flush_alloc. rewrite E. lia. Qed.

(* ... and gains at most what the rate accrued since the previous step *)
Lemma fill_flush_alloc_gain h now t :
  h_last_flushed h = Some t ->
  (hc_fill_flush_alloc h now <= sat_add_isize (h_credit h) (refill (sr_rate (h_src h)) t now))%Z.
Proof. intros E. unfold hc_fill_flush_alloc. rewrite E. lia. Qed.

(* The refill does not depend on how often step() runs: over any schedule of steps t0, t1, ..., tn at one rate the
   gains add up to the gain of a single step from t0 to tn (defect D20: the increments used to be rounded one by one,
   so a step per millisecond gained 2 bytes where 1.75 were due, or nothing at all under half a byte per step). *)
Fixpoint refills (rate : N) (t0 : N) (ts : list N) : Z :=
  match ts with
  | [] => 0%Z
  | t :: ts' => (refill rate t0 t + refills rate t ts')%Z
  end.

Lemma last_cons_default {A} (ts : list A) : forall t d, last (t :: ts) d = last ts t.
Proof.
  induction ts as [|a l IH]; intros t d; [reflexivity|].
  change (last (t :: a :: l) d) with (last (a :: l) d). rewrite (IH a d), (IH a t). reflexivity.
Qed.

Lemma refills_telescope rate ts : forall t0, refills rate t0 ts = refill rate t0 (last ts t0).
Proof.
  induction ts as [|t ts IH]; intros t0; cbn [refills].
  - cbn [last]. unfold refill. lia.
  - rewrite IH, last_cons_default. unfold refill. lia.
Qed.

(* every frame the data emitter builds has at most MAX_FRAME_SIZE bytes when its datagrams fit *)
Lemma build_data_frame_len seq nonce enc count :
  len (build_data_frame seq nonce enc count) = 6 + len enc + 4.
Proof.
  unfold build_data_frame, with_crc, len. rewrite !app_length. cbn [length u32be]. lia.
Qed.

(* ---------- sync frames are due whenever something is unacknowledged ---------- *)
Lemma sync_due h out :
  N.max (h_rto h) MIN_SYNC_TIMEOUT_MS <= h_now h - h_sync_base h ->
  (fq_next (h_fq h) <> fq_wbase (h_fq h) \/
   (s_next (h_snd h) <> s_base (h_snd h) /\ h_rq h = [] /\ h_pq h = [])) ->
  (0 <= h_credit h)%Z ->
  exists bytes, emit_sync_frame h out = (set_sync_base (set_credit h (h_credit h - Z.of_N (len bytes))%Z) (h_now h), out ++ [bytes], true)
                /\ (exists nf np, bytes = write_sync nf np /\ (nf <> None \/ np <> None)).
Proof.
  intros Ht Hw Hc. unfold emit_sync_frame.
  destruct (N.leb_spec (N.max (h_rto h) MIN_SYNC_TIMEOUT_MS) (h_now h - h_sync_base h)); [|lia].
  set (nf := if negb (fq_next (h_fq h) =? fq_wbase (h_fq h)) then Some (fq_next (h_fq h)) else None).
  set (np := if negb (s_next (h_snd h) =? s_base (h_snd h)) && (len (h_rq h) =? 0) && (len (h_pq h) =? 0)
             then Some (s_next (h_snd h)) else None).
  assert (Hn : nf <> None \/ np <> None).
  { destruct Hw as [Hw|[Hw1 [Hw2 Hw3]]].
    - left. subst nf. destruct (N.eqb_spec (fq_next (h_fq h)) (fq_wbase (h_fq h))); [contradiction|]. discriminate.
    - right. subst np. rewrite Hw2, Hw3. destruct (N.eqb_spec (s_next (h_snd h)) (s_base (h_snd h))); [contradiction|]. discriminate. }
  assert (Hidle : match nf, np with None, None => true | _, _ => false end = false).
  { destruct nf, np; try reflexivity. destruct Hn; congruence. }
  rewrite Hidle.
  destruct (Z.ltb_spec (h_credit h) 0) as [Hx|Hx]; [lia|].
  eexists. split; [reflexivity|]. exists nf, np. split; [reflexivity|exact Hn].
Qed.

(* ---------- acknowledged / released fragments are never pushed again ---------- *)
Lemma ack_fragment_sets s uid frag e :
  sender_lookup s uid = Some e ->
  exists e', sender_lookup (sender_ack_fragment s uid frag) uid = Some e' /\ pp_fragment_acked (we_packet e') frag = true.
Proof.
  intros H. unfold sender_ack_fragment. rewrite H.
  unfold sender_lookup, nth_opt in *. cbn [s_base_uid s_win].
  destruct (uid <? s_base_uid s); [discriminate|].
  destruct (N.ltb_spec (uid - s_base_uid s) (N.of_nat (length (s_win s)))) as [Hl|Hl]; [|discriminate].
  rewrite upd_length.
  destruct (N.ltb_spec (uid - s_base_uid s) (N.of_nat (length (s_win s)))); [|lia].
  eexists. split.
  - assert (G : forall (l : list window_entry) i x, (i < length l)%nat -> nth_error (upd l i x) i = Some x).
    { induction l as [|h t IH]; intros i x Hi; [cbn in Hi; lia|]. destruct i; cbn; [reflexivity|]. apply IH. cbn in Hi. lia. }
    apply G. lia.
  - cbn [we_packet]. destruct (pp_fragment_acked (we_packet e) frag) eqn:Ea; [exact Ea|].
    unfold pp_fragment_acked. cbn [pp_acked existsb]. rewrite N.eqb_refl. reflexivity.
Qed.

(* a reference to a packet the window has moved past no longer upgrades *)
Lemma released_lookup_none s uid : uid < s_base_uid s -> sender_lookup s uid = None.
Proof. intros H. unfold sender_lookup. destruct (N.ltb_spec uid (s_base_uid s)); [reflexivity|lia]. Qed.

(* the resend loop drops such entries without transmitting anything *)
Lemma resend_loop_skips_dead f e ent rq' :
  heap_peek (h_rq (es_h e)) = Some ent -> heap_pop (h_rq (es_h e)) = Some (ent, rq') ->
  (sender_lookup (h_snd (es_h e)) (rq_uid ent) = None \/
   exists we, sender_lookup (h_snd (es_h e)) (rq_uid ent) = Some we /\ pp_fragment_acked (we_packet we) (rq_frag ent) = true) ->
  resend_loop (S f) e = resend_loop f (mkEs (set_rq (es_h e) rq') (es_ip e) (es_out e)).
Proof.
  intros Hp Hpop Hd. cbn [resend_loop]. rewrite Hp, Hpop.
  destruct Hd as [Hn|[we [Hs Ha]]].
  - rewrite Hn. reflexivity.
  - rewrite Hs, Ha. reflexivity.
Qed.

(* only Persistent / Reliable fragments are ever entered in the resend queue by the pending loop *)
Lemma pq_entries_resend uid resend i n : Forall (fun p => pq_resend p = resend /\ pq_uid p = uid) (pq_entries uid resend i n).
Proof. revert i. induction n as [|n IH]; intros i; cbn [pq_entries]; constructor; [split; reflexivity|apply IH]. Qed.

(* ---------- the receive scan passes only slots that hold no undelivered data ---------- *)
Fixpoint iter_id (seq : N) (k : nat) : N := match k with O => seq | S k' => iter_id (pid_add seq 1) k' end.

Lemma recv_scan_spec n : forall seq nb r,
  recv_scan n seq nb r = nb \/
  exists j, (j < n)%nat /\ recv_scan n seq nb r = pid_add (iter_id seq j) 1 /\
            sl_dflag (get_slot r (widx r (iter_id seq j))) = false.
Proof.
  induction n as [|n IH]; intros seq nb r; cbn [recv_scan]; [left; reflexivity|].
  destruct (sl_entry (get_slot r (widx r seq))) eqn:Ee.
  - destruct (lead_ok _ _); [|left; reflexivity].
    destruct (sl_dflag (get_slot r (widx r seq))) eqn:Ed; [left; reflexivity|].
    destruct (IH (pid_add seq 1) (pid_add seq 1) r) as [E|[j [Hj [E Hd]]]].
    + right. exists 0%nat. split; [lia|]. split; [exact E|exact Ed].
    + right. exists (S j). split; [lia|]. split; [exact E|exact Hd].
  - destruct (IH (pid_add seq 1) nb r) as [E|[j [Hj [E Hd]]]]; [left; exact E|].
    right. exists (S j). split; [lia|]. split; [exact E|exact Hd].
Qed.

(* a closed assembly entry produces nothing more until the window clears it: at most one packet per slot
   generation, whatever datagrams arrive *)
Lemma asm_closed_absorbing a alloc maxa dg : asm_try_add (AsmClosed a) alloc maxa dg = (AsmClosed a, alloc, None).
Proof. reflexivity. Qed.

Lemma asm_produces_then_closed e alloc maxa dg e' alloc' p :
  asm_try_add e alloc maxa dg = (e', alloc', Some p) -> exists a, e' = AsmClosed a.
Proof.
  unfold asm_try_add. destruct e as [|a|a chan wpl cpl last buf].
  - destruct (maxa <? _); [intros H; inversion H; eauto|]. destruct (dg_frag_last dg =? 0); intros H; inversion H; eauto.
  - intros H; inversion H.
  - destruct (_ || _); [intros H; inversion H|]. destruct (fb_finished _); intros H; inversion H; eauto.
Qed.

(* the packet a slot produces carries the header of the datagram that completed it and, for a single-fragment
   packet, exactly that datagram's payload *)
Lemma asm_single_fragment_exact alloc maxa dg e' alloc' p :
  asm_try_add AsmOpen alloc maxa dg = (e', alloc', Some p) -> ap_data p <> None -> dg_frag_last dg = 0 /\ ap_data p = Some (dg_data dg)
                                                                          /\ ap_chan p = dg_chan dg /\ ap_seq p = dg_seq dg.
Proof.
  unfold asm_try_add. destruct (maxa <? _); [intros H; inversion H; subst; cbn; congruence|].
  destruct (N.eqb_spec (dg_frag_last dg) 0); intros H; inversion H; subst; cbn. auto.
Qed.
