(* LedgerProofs.v — the reassembly buffer respects the allocator contract for every packet size (C19). *)
From Coq Require Import ZArith Lia ZifyBool ZifyN ZifyNat.
From UF Require Import Consts Base Ledger.

Ltac led := repeat (progress (cbv [mem_run mem_step hfind hremove find filter fst snd app negb andb];
                              rewrite ?N.eqb_refl; change (1 =? 2) with false; change (2 =? 1) with false)).

Theorem fragment_buffer_balanced n total : 0 < n -> balanced (fragment_buffer_ledger n total).
Proof.
  intros Hn. unfold balanced, fragment_buffer_ledger.
  set (cap := n * MAX_FRAGMENT_SIZE). set (w := (n + 63) / 64 * 8).
  destruct (N.eqb_spec total cap) as [E|E]; destruct (N.eqb_spec total 0) as [Z|Z]; try subst total; led; try reflexivity.
Qed.

(* before the repair the contract was violated for every multi-fragment size that is not a multiple of the
   fragment size (witness: two fragments, 1449 bytes) *)
Theorem fragment_buffer_before_fix_refuted :
  exists n total, 0 < n /\ total <= n * MAX_FRAGMENT_SIZE /\ ~ balanced (fragment_buffer_ledger_before_fix n total).
Proof. exists 2, 1449. split; [lia|]. split; [vm_compute; discriminate|]. vm_compute. discriminate. Qed.

Theorem fragment_buffer_before_fix_unbalanced n total :
  0 < n -> total <> n * MAX_FRAGMENT_SIZE -> ~ balanced (fragment_buffer_ledger_before_fix n total).
Proof.
  intros Hn Ht. unfold balanced, fragment_buffer_ledger_before_fix. led.
  destruct (N.eqb_spec (n * MAX_FRAGMENT_SIZE) total); [congruence|]. led. discriminate.
Qed.
