(* HcLevel.v — component theorems lifted to the HalfConnection: in every state that any sequence of
   HalfConnection operations reaches, the receiver is a state the receiver's own operations reach (so every
   receiver theorem applies), and the sender satisfies its well-formedness (send buffer accounting, alloc bound). *)
From Coq Require Import ZArith Lia ZifyBool ZifyN ZifyNat.
From UF Require Import Consts Base Frame Codec F64 Feedback Sender Receiver FrameAck Heap FrameQueue SendRate HalfConn
                       BaseLemmas SenderProofs ReceiverProofs FrameQueueProofs HcTotal HcFlushTotal HcStepTotal.
Local Open Scope N_scope.

Lemma fold_datagrams dgs : forall r, fold_left receiver_handle_datagram dgs r = fold_left receiver_step (map RDatagram dgs) r.
Proof. induction dgs as [|d t IH]; intros r; cbn [fold_left map]; [reflexivity|]. apply IH. Qed.

Lemma hc_flush_rcv h h' out : hc_flush h = Ok (h', out) -> h_rcv h' = h_rcv h.
Proof.
  unfold hc_flush. intros E.
  destruct (emit_ack_frames h []) as [[[h1 out1] ok1]| |] eqn:E1; cbn [bind] in E; try discriminate.
  destruct (emit_ack_frames_core _ _ _ _ _ E1) as (_ & _ & _ & R1).
  destruct (negb ok1); [inversion E; subst; exact R1|].
  destruct (emit_data_frames (hc_flush_fuel h1) h1 out1) as [[[h2 out2] ok2]| |] eqn:E2; cbn [bind] in E; try discriminate.
  assert (R2 : h_rcv h2 = h_rcv h).
  { eapply (g_emit_data (fun x => h_rcv x = h_rcv h)); try eassumption; try (intros; assumption).
    - intros e He. unfold dfe_finalize. destruct (es_ip e); exact He. }
  destruct (negb ok2); [inversion E; subst; exact R2|].
  destruct (emit_sync_frame_core h2 out2) as (_ & _ & _ & R3).
  destruct (emit_sync_frame h2 out2) as [[h3 out3] ok3]. cbn [fst] in R3. inversion E; subst. congruence.
Qed.

Lemma hc_apply_rcv h o : exists rops, h_rcv (hc_apply h o) = fold_left receiver_step rops (h_rcv h).
Proof.
  destruct o as [d c m| |now| |f]; cbn [hc_apply].
  - exists []. reflexivity.
  - exists [RReceive]. unfold hc_receive. cbn [fold_left receiver_step]. destruct (receiver_receive (h_rcv h)). reflexivity.
  - exists []. cbn [fold_left]. unfold hc_step.
    destruct (fq_forget_frames _ _ _); cbn [bind]; try reflexivity.
    destruct (fq_get_feedback _ _) as [q2 fb]. destruct (src_step _ _ _) as [[src' reset]| |]; cbn [bind]; try reflexivity.
    destruct (match reset with Some p => _ | None => _ end); cbn [bind]; reflexivity.
  - exists []. cbn [fold_left]. destruct (hc_flush h) as [[h' out]| |] eqn:E; [|reflexivity|reflexivity]. eapply hc_flush_rcv. exact E.
  - destruct f as [v n a b c|na n a b c|na|na e| | |seq nonce dgs|nf np|fb pb acks]; cbn [hc_handle_frame];
      try (exists []; reflexivity).
    + unfold hc_handle_data_frame. destruct (faq_contains _ _); [|exists []; reflexivity].
      exists (map RDatagram dgs). cbn [set_rcv set_faq h_rcv]. apply fold_datagrams.
    + unfold hc_handle_sync_frame. destruct np as [id|].
      * exists [RResync id]. destruct nf; reflexivity.
      * exists []. destruct nf; reflexivity.
    + exists []. cbn [fold_left]. destruct (hc_handle_ack_frame h fb pb acks) as [h'| |] eqn:E; cbn [bind]; try reflexivity.
      unfold hc_handle_ack_frame in E.
      destruct (ack_groups _ _ _ _) as [[q1 s1]| |]; cbn [bind fst snd] in E; try discriminate.
      destruct (fq_advance_transfer_window _ _ _); cbn [bind] in E; try discriminate.
      destruct (sender_acknowledge _ _); cbn [bind] in E; try discriminate. inversion E; subst. reflexivity.
Qed.

(* the receiver inside a half-connection only ever does what the receiver's own operations do *)
Theorem hc_rcv_projection ops : forall h,
  exists rops, h_rcv (fold_left hc_apply ops h) = fold_left receiver_step rops (h_rcv h).
Proof.
  induction ops as [|o ops IH]; intros h; cbn [fold_left]; [exists []; reflexivity|].
  destruct (IH (hc_apply h o)) as [r2 E2]. destruct (hc_apply_rcv h o) as [r1 E1].
  exists (r1 ++ r2). rewrite fold_left_app, <- E1. exact E2.
Qed.

(* C06 at the level of the half-connection: whatever frames arrive, receive memory stays within the limit *)
Theorem hc_recv_alloc_bounded c seed ops :
  0 < cfg_rx_packet_window c ->
  let h := fold_left hc_apply ops (hc_new c seed) in
  r_alloc (h_rcv h) <= ceil_frag_r (cfg_rx_alloc_limit c) /\ RWf (h_rcv h).
Proof.
  intros Hw h. destruct (hc_rcv_projection ops (hc_new c seed)) as [rops E]. subst h. rewrite E.
  cbn [hc_new h_rcv]. split; [apply receiver_alloc_bounded; exact Hw|apply receiver_reachable_wf; exact Hw].
Qed.

(* C20 / C06 (sender half) at the level of the half-connection *)
Theorem hc_send_buffer_exact c seed ops :
  cfg_ok c -> Forall op_ok ops ->
  let h := fold_left hc_apply ops (hc_new c seed) in
  hc_send_buffer_size h = queued_bytes (h_snd h) + window_bytes (h_snd h) /\
  (s_queue (h_snd h) = [] -> s_win (h_snd h) = [] -> hc_send_buffer_size h = 0) /\
  s_alloc (h_snd h) <= s_max_alloc (h_snd h) /\ len (s_win (h_snd h)) <= s_wsize (h_snd h).
Proof.
  intros Hc Ho h. destruct (hc_reachable_inv c seed ops Hc Ho) as [_ W]. fold h in W. unfold hc_send_buffer_size.
  split; [exact (wf_total _ W)|]. split; [apply wf_zero_when_empty; exact W|]. split; [exact (wf_alloc_le _ W)|exact (wf_win_le _ W)].
Qed.
