(* FragmentProofs.v — fragmentation and reassembly are exact (C04):
   the fragments of a packet partition its payload, every fragment but the last has exactly
   MAX_FRAGMENT_SIZE bytes, and a FragmentBuffer fed those fragments in any order, with any
   repetition, returns the payload; a second write to an index never changes the buffer. *)
From Coq Require Import ZArith Lia ZifyBool ZifyN ZifyNat.
From UF Require Import Consts Base Frame Sender Receiver BaseLemmas SenderProofs ReceiverProofs.
Ltac Zify.zify_post_hook ::= Z.div_mod_to_equations.

Definition Fn : nat := N.to_nat MAX_FRAGMENT_SIZE.
Lemma Fn_pos : (0 < Fn)%nat. Proof. vm_compute. lia. Qed.

(* fragment i of a payload, as PendingPacket::datagram slices it *)
Definition frag (d : list N) (i : nat) : list N := firstn Fn (skipn (i * Fn) d).

(* number of fragments as a nat *)
Definition nfrag (d : list N) : nat := N.to_nat (num_fragments (len d)).

Lemma nfrag_spec d : nfrag d = if Nat.eqb (length d) 0 then 1%nat else ((length d + Fn - 1) / Fn)%nat.
Proof.
  unfold nfrag, num_fragments, len, Fn. cbv [MAX_FRAGMENT_SIZE].
  destruct (Nat.eqb_spec (length d) 0) as [E|E].
  - rewrite E. reflexivity.
  - destruct (N.eqb_spec (N.of_nat (length d)) 0); [lia|].
    change (N.to_nat 1448) with 1448%nat.
    rewrite N.add_0_r. rewrite N2Nat.inj_div. f_equal; lia.
Qed.

Lemma nfrag_pos d : (0 < nfrag d)%nat.
Proof.
  rewrite nfrag_spec. destruct (Nat.eqb_spec (length d) 0); [lia|].
  pose proof Fn_pos. apply Nat.div_str_pos. lia.
Qed.

Lemma nfrag_bound d : (length d <= nfrag d * Fn)%nat /\ ((nfrag d - 1) * Fn <= length d)%nat.
Proof.
  rewrite nfrag_spec. pose proof Fn_pos as HF. destruct (Nat.eqb_spec (length d) 0) as [E|E]; [lia|].
  pose proof (Nat.div_mod (length d + Fn - 1) Fn ltac:(lia)) as H.
  pose proof (Nat.mod_upper_bound (length d + Fn - 1) Fn ltac:(lia)) as H2.
  split; nia.
Qed.

(* concatenating the first k fragments gives the first k*F bytes *)
Lemma concat_frags d k : concat (map (frag d) (seq 0 k)) = firstn (k * Fn) d.
Proof.
  induction k as [|k IH]; [reflexivity|].
  rewrite seq_S, map_app, concat_app, IH. cbn [map concat Nat.add]. rewrite app_nil_r.
  unfold frag. replace (S k * Fn)%nat with (k * Fn + Fn)%nat by lia.
  rewrite <- (firstn_skipn (k * Fn) (firstn (k * Fn + Fn) d)).
  rewrite firstn_firstn, Nat.min_l by lia. f_equal.
  rewrite skipn_firstn_comm. f_equal. lia.
Qed.

Theorem fragments_partition d : concat (map (frag d) (seq 0 (nfrag d))) = d.
Proof.
  rewrite concat_frags. apply firstn_all2. apply (proj1 (nfrag_bound d)).
Qed.

Lemma frag_length_full d i : (S i < nfrag d)%nat -> length (frag d i) = Fn.
Proof.
  intros Hi. unfold frag. rewrite firstn_length, skipn_length.
  pose proof (nfrag_bound d) as [_ H]. nia.
Qed.

Lemma frag_length_le d i : (length (frag d i) <= Fn)%nat.
Proof. unfold frag. rewrite firstn_length. lia. Qed.

(* pp_datagram produces exactly these fragments, with the packet's header in every one *)
Lemma pp_datagram_data p i :
  pp_last p = N.of_nat (nfrag (pp_data p) - 1) -> (i < nfrag (pp_data p))%nat ->
  dg_data (pp_datagram p (N.of_nat i)) = frag (pp_data p) i.
Proof.
  intros Hl Hi. unfold pp_datagram, frag. cbn [dg_data].
  replace (N.to_nat (N.of_nat i * MAX_FRAGMENT_SIZE)) with (i * Fn)%nat by (unfold Fn; lia).
  destruct (N.eqb_spec (N.of_nat i) (pp_last p)) as [E|E]; [|reflexivity].
  symmetry. apply firstn_all2. rewrite skipn_length.
  pose proof (nfrag_bound (pp_data p)) as [H1 _].
  assert (i = nfrag (pp_data p) - 1)%nat by lia. subst i. nia.
Qed.

Lemma pp_datagram_header p i :
  let dg := pp_datagram p i in
  dg_seq dg = pp_seq p /\ dg_chan dg = pp_chan p /\ dg_wpl dg = pp_wpl p /\ dg_cpl dg = pp_cpl p /\
  dg_frag dg = i /\ dg_frag_last dg = pp_last p.
Proof. cbn. repeat split. Qed.

(* ---------- reassembly ---------- *)

(* what a buffer knows about the payload d: every written slot holds the right fragment *)
Record FbInv (d : list N) (b : frag_buffer) : Prop := mkFbInv {
  fi_n : fb_n b = N.of_nat (nfrag d);
  fi_len : length (fb_frags b) = nfrag d;
  fi_frags : forall i, (i < nfrag d)%nat -> nth i (fb_frags b) None = None \/ nth i (fb_frags b) None = Some (frag d i);
  fi_remaining : fb_remaining b = N.of_nat (length (filter (fun o => match o with None => true | Some _ => false end) (fb_frags b)));
  fi_total : fb_total b = sum_N (map (fun o => match o with None => 0 | Some x => len x end) (fb_frags b))
}.

Lemma repeatN_nth {A} (x d : A) n i : nth i (repeatN x n) d = if Nat.ltb i n then x else d.
Proof.
  revert i. induction n as [|n IH]; intros i; cbn [repeatN].
  - destruct i; reflexivity.
  - destruct i; [reflexivity|]. cbn [nth]. rewrite IH. reflexivity.
Qed.

Lemma filter_repeat_none n :
  length (filter (fun o : option (list N) => match o with None => true | Some _ => false end) (repeatN None n)) = n.
Proof. induction n; cbn; congruence. Qed.

Lemma fb_new_inv d : FbInv d (fb_new (N.of_nat (nfrag d))).
Proof.
  unfold fb_new. rewrite Nat2N.id. constructor; cbn.
  - reflexivity.
  - apply repeatN_length.
  - intros i Hi. left. rewrite repeatN_nth. destruct (Nat.ltb i (nfrag d)); reflexivity.
  - rewrite filter_repeat_none. reflexivity.
  - rewrite repeatN_map. rewrite sum_N_repeat0. reflexivity.
Qed.

Lemma filter_upd_none (l : list (option (list N))) i x :
  nth_error l i = Some None ->
  S (length (filter (fun o => match o with None => true | Some _ => false end) (upd l i (Some x))))
  = length (filter (fun o => match o with None => true | Some _ => false end) l).
Proof.
  revert i. induction l as [|h t IH]; intros i H; [destruct i; discriminate|].
  destruct i; cbn [upd filter nth_error] in *.
  - inversion H; subst. cbn. reflexivity.
  - destruct h; cbn [length]; rewrite <- (IH i H); reflexivity.
Qed.

Lemma nth_upd {A} (l : list A) i j x d : (i < length l)%nat ->
  nth j (upd l i x) d = if Nat.eqb j i then x else nth j l d.
Proof.
  revert i j. induction l as [|h t IH]; intros i j Hi; [cbn in Hi; lia|].
  destruct i, j; cbn [upd nth Nat.eqb]; try reflexivity.
  apply IH. cbn in Hi. lia.
Qed.

(* writing the right fragment keeps the invariant; writing to an occupied index changes nothing *)
Lemma fb_write_inv d b i : FbInv d b -> (i < nfrag d)%nat -> FbInv d (fb_write b (N.of_nat i) (frag d i)).
Proof.
  intros [Hn Hl Hf Hr Ht] Hi. unfold fb_write, nth_opt.
  destruct (N.ltb_spec (N.of_nat i) (N.of_nat (length (fb_frags b)))) as [Hlt|Hge]; [|lia].
  rewrite Nat2N.id.
  destruct (nth_error (fb_frags b) i) as [[x|]|] eqn:E; try (constructor; assumption).
  constructor; cbn [fb_n fb_frags fb_remaining fb_total].
  - assumption.
  - rewrite upd_length. assumption.
  - intros j Hj. rewrite nth_upd by lia. destruct (Nat.eqb_spec j i) as [->|Hne]; [right; reflexivity|apply Hf, Hj].
  - rewrite Hr. rewrite <- (filter_upd_none _ _ (frag d i) E). lia.
  - rewrite Ht.
    pose proof (sum_N_upd (fun o : option (list N) => match o with None => 0 | Some x => len x end) None (fb_frags b) i (Some (frag d i)) ltac:(lia)) as H.
    rewrite (nth_error_nth _ _ None E) in H. lia.
Qed.

Lemma fb_write_first_wins b i x y :
  nth_opt (fb_frags b) i = Some (Some x) -> fb_write b i y = b.
Proof. intros H. unfold fb_write. rewrite H. reflexivity. Qed.

Lemma filter_none_zero (l : list (option (list N))) :
  length (filter (fun o => match o with None => true | Some _ => false end) l) = 0%nat ->
  forall i, (i < length l)%nat -> nth i l None <> None.
Proof.
  induction l as [|h t IH]; intros H i Hi; [cbn in Hi; lia|].
  destruct h; cbn [filter length] in H; [|discriminate].
  destruct i; cbn [nth]; [discriminate|]. apply IH; [assumption|cbn in Hi; lia].
Qed.

Lemma all_frags d l : length l = nfrag d ->
  (forall i, (i < nfrag d)%nat -> nth i l None = Some (frag d i)) ->
  l = map (fun i => Some (frag d i)) (seq 0 (nfrag d)).
Proof.
  intros Hl H. apply (nth_ext _ _ None None).
  - rewrite map_length, seq_length. assumption.
  - intros i Hi. rewrite H by lia.
    rewrite (nth_indep _ None (Some (frag d 0))) by (rewrite map_length, seq_length; lia).
    rewrite (map_nth (fun i => Some (frag d i)) (seq 0 (nfrag d)) 0%nat i). rewrite seq_nth by lia. reflexivity.
Qed.

Lemma pad_full x : length x = Fn -> pad_frag (Some x) = x.
Proof. intros H. unfold pad_frag. cbn. fold Fn. rewrite H, Nat.sub_diag. cbn. apply app_nil_r. Qed.

Lemma concat_pad_frags d k : (k < nfrag d)%nat ->
  concat (map pad_frag (map (fun i => Some (frag d i)) (seq 0 k))) = concat (map (frag d) (seq 0 k)).
Proof.
  intros Hk. induction k as [|k IH]; [reflexivity|].
  rewrite seq_S, !map_app, !concat_app, IH by lia. cbn [map concat Nat.add]. rewrite !app_nil_r.
  f_equal. apply pad_full, frag_length_full. lia.
Qed.

Lemma finalize_concat d :
  firstn (length d) (concat (map pad_frag (map (fun i : nat => Some (frag d i)) (seq 0 (nfrag d))))) = d.
Proof.
  pose proof (nfrag_pos d) as Hp.
  set (n := (nfrag d - 1)%nat). assert (Hn : nfrag d = S n) by (subst n; lia).
  assert (Hd : d = concat (map (frag d) (seq 0 n)) ++ frag d n).
  { rewrite <- (fragments_partition d) at 1. rewrite Hn, seq_S, map_app, concat_app. cbn [map concat Nat.add].
    rewrite app_nil_r. reflexivity. }
  rewrite Hn, seq_S, !map_app, concat_app, concat_pad_frags by lia. cbn [map concat Nat.add]. rewrite app_nil_r.
  unfold pad_frag. cbn [opt_default]. rewrite app_assoc, <- Hd.
  rewrite firstn_app, firstn_all, Nat.sub_diag. cbn [firstn]. apply app_nil_r.
Qed.

Lemma sum_len_concat (l : list (list N)) : sum_N (map (fun x => len x) l) = len (concat l).
Proof. induction l as [|x l IH]; cbn [map sum_N concat]; [reflexivity|]. rewrite len_app. lia. Qed.

Theorem reassembly_exact d b :
  FbInv d b -> fb_finished b = true -> fb_finalize b = d.
Proof.
  intros [Hn Hl Hf Hr Ht] Hfin. unfold fb_finished in Hfin.
  assert (Hz : length (filter (fun o => match o with None => true | Some _ => false end) (fb_frags b)) = 0%nat) by lia.
  pose proof (filter_none_zero _ Hz) as Hnn.
  assert (Hall : fb_frags b = map (fun i => Some (frag d i)) (seq 0 (nfrag d))).
  { apply all_frags; [assumption|]. intros i Hi. destruct (Hf i Hi) as [H|H]; [|assumption].
    exfalso. apply (Hnn i); [lia|assumption]. }
  unfold fb_finalize.
  assert (Htot : fb_total b = len d).
  { rewrite Ht, Hall, map_map. cbv beta.
    rewrite <- (map_map (frag d) (fun x => len x)).
    rewrite sum_len_concat, fragments_partition. reflexivity. }
  rewrite Htot, Hall, len_length. apply finalize_concat.
Qed.

(* feeding any sequence of (correct) fragments of d, in any order with any repetition *)
Definition feed (d : list N) (b : frag_buffer) (i : nat) : frag_buffer := fb_write b (N.of_nat i) (frag d i).

Lemma feed_inv d (order : list nat) : forall b0,
  Forall (fun i => (i < nfrag d)%nat) order -> FbInv d b0 -> FbInv d (fold_left (feed d) order b0).
Proof.
  induction order as [|i order IH]; intros b0 Ho I; cbn [fold_left]; [exact I|].
  inversion Ho; subst. apply IH; [assumption|]. apply fb_write_inv; assumption.
Qed.

Theorem reassembly_any_order d (order : list nat) :
  Forall (fun i => (i < nfrag d)%nat) order ->
  let b := fold_left (feed d) order (fb_new (N.of_nat (nfrag d))) in
  fb_finished b = true -> fb_finalize b = d.
Proof.
  intros Ho b Hfin. apply reassembly_exact; [|exact Hfin].
  apply feed_inv; [exact Ho|apply fb_new_inv].
Qed.

(* the writer never produces a datagram payload above the fragment size, hence (with the codec's
   14-byte large header, 6-byte frame header and 4-byte CRC) a single-datagram frame fits the MTU *)
Lemma fragment_frame_fits : MAX_FRAGMENT_SIZE + DATAGRAM_HEADER_SIZE_LARGE + 6 + FRAME_CRC_SIZE <= MAX_FRAME_SIZE.
Proof. vm_compute. discriminate. Qed.
