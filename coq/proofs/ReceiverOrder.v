(* ReceiverOrder.v — C01, receiver side, over whole histories: for ANY sequence of datagrams (any contents),
   receive() calls and resynchronisation requests, the packets PacketReceiver hands out on a channel carry strictly
   increasing absolute packet ids — nothing is delivered twice or out of order on a channel, across any number of
   wrap-arounds of the 20-bit ids and of the slot arrays. Absolute id = (number of ids the receive window has moved
   past since the start) + offset inside the window; the model works with the 20-bit ids and slot indices only. *)
From Coq Require Import ZArith Lia ZifyBool ZifyN ZifyNat.
From UF Require Import Consts Base Frame Receiver BaseLemmas SenderProofs FragmentProofs ReceiverProofs.
Local Open Scope N_scope.
Ltac Zify.zify_post_hook ::= Z.div_mod_to_equations.

(* ---------- arithmetic on 20-bit ids and slot indices ---------- *)
Lemma pow32_pow20 : pow32 = 4096 * pow20. Proof. reflexivity. Qed.

Lemma pid_sub_spec x b k : b < pow20 -> k < pow20 -> x mod pow20 = (b + k) mod pow20 -> pid_sub x b = k.
Proof. unfold pid_sub, pow32, pow20. intros Hb Hk E. lia. Qed.

Lemma pid_add_spec b k : b < pow20 -> k < pow20 -> (pid_add b k) mod pow20 = (b + k) mod pow20 /\ pid_add b k < pow20.
Proof. unfold pid_add, pow32, pow20. intros Hb Hk. lia. Qed.

Lemma pid_sub_lt x b : pid_sub x b < pow20.
Proof. unfold pid_sub, pow32, pow20. lia. Qed.

Lemma pid_sub_id x b : b < pow20 -> x < pow20 -> x mod pow20 = (b + pid_sub x b) mod pow20.
Proof. unfold pid_sub, pow32, pow20. intros Hb Hx. lia. Qed.

Lemma pid_sub_any x b : b < pow20 -> x mod pow20 = (b + pid_sub x b) mod pow20.
Proof. unfold pid_sub, pow32, pow20. intros Hb. lia. Qed.

Lemma pid_add_any x k : k < pow20 -> (pid_add x k) mod pow20 = (x + k) mod pow20 /\ pid_add x k < pow20.
Proof. unfold pid_add, pow32, pow20. intros Hk. lia. Qed.

Lemma end_arith1 x b e k eo : e < pow20 -> x mod pow20 = (b + k) mod pow20 -> e mod pow20 = (b + eo) mod pow20 -> eo <= k ->
  x mod pow20 = (e + (k - eo)) mod pow20.
Proof. unfold pow20. intros He Hx Hen Hle. lia. Qed.

Lemma end_arith2 x b e k eo : e < pow20 -> x mod pow20 = (b + k) mod pow20 -> e mod pow20 = (b + eo) mod pow20 -> k < eo -> eo <= pow20 ->
  x mod pow20 = (e + (pow20 - (eo - k))) mod pow20.
Proof. unfold pow20. intros He Hx Hen Hlt Hle. lia. Qed.

Lemma succ_arith x b k : x mod pow20 = (b + k) mod pow20 -> (x + 1) mod pow20 = (b + (k + 1)) mod pow20.
Proof. unfold pow20. intros Hx. lia. Qed.

Lemma succ_arith_gen x y : x mod pow20 = y mod pow20 -> (x + 1) mod pow20 = (y + 1) mod pow20.
Proof. unfold pow20. intros Hx. lia. Qed.

Lemma shift_arith x b nb o d : x mod pow20 = (b + o) mod pow20 -> nb mod pow20 = (b + d) mod pow20 -> d <= o ->
  x mod pow20 = (nb + (o - d)) mod pow20.
Proof. unfold pow20. intros Hx Hn Hle. lia. Qed.

Lemma shift_arith2 b nb d k : nb mod pow20 = (b + d) mod pow20 -> (nb + k) mod pow20 = (b + (d + k)) mod pow20.
Proof. unfold pow20. intros Hn. lia. Qed.

(* from here on `mod` by the (variable) window size is opaque to lia *)
Ltac Zify.zify_post_hook ::= idtac.

Section Mod.
  Variable W : N.
  Hypothesis HW : 0 < W.
  Hypothesis Hdiv : pow20 mod W = 0.

  Lemma mod_pow20_W a : (a mod pow20) mod W = a mod W.
  Proof.
    assert (Hq : pow20 = W * (pow20 / W)). { pose proof (N.div_mod pow20 W) as H. rewrite Hdiv, N.add_0_r in H. apply H. intros E0. rewrite E0 in HW. discriminate HW. }
    remember (pow20 / W) as q eqn:Eq. clear Eq.
    assert (Hq0 : q <> 0). { intros ->. rewrite N.mul_0_r in Hq. discriminate Hq. }
    assert (HW0 : W <> 0). { intros E0. rewrite E0 in HW. discriminate HW. }
    rewrite Hq. rewrite N.mod_mul_r by assumption.
    rewrite (N.mul_comm W), N.mod_add by assumption. apply N.mod_mod. assumption.
  Qed.

  Lemma cong_W a b : a mod pow20 = b mod pow20 -> a mod W = b mod W.
  Proof. intros E. rewrite <- (mod_pow20_W a), <- (mod_pow20_W b), E. reflexivity. Qed.

  Lemma mod_inj a b : a <= b -> b - a < W -> a mod W = b mod W -> a = b.
  Proof.
    clear Hdiv. intros Hle Hd E. pose proof (N.div_mod a W ltac:(lia)) as Ha. pose proof (N.div_mod b W ltac:(lia)) as Hb.
    pose proof (N.mod_lt a W ltac:(lia)). pose proof (N.mod_lt b W ltac:(lia)).
    assert (a / W = b / W) by nia. nia.
  Qed.

  Lemma mod_W_W b : (b + W) mod W = b mod W.
  Proof. clear Hdiv. replace (b + W) with (b + 1 * W) by lia. apply N.mod_add. lia. Qed.
End Mod.

(* ---------- views of the receiver by offset from the window base ---------- *)
Definition sidx (r : receiver) (k : N) : nat := N.to_nat ((r_base r + k) mod r_wsize r).
Definition so (r : receiver) (k : N) : slot := get_slot r (sidx r k).
Definition cboff (r : receiver) (c : N) : N :=
  match rc_base (get_chan r c) with Some cb => pid_sub cb (r_base r) | None => 0 end.
Definition eoff (r : receiver) : N := pid_sub (r_end r) (r_base r).
Definition is_closed (e : asm_entry) : bool := match e with AsmClosed _ => true | _ => false end.

Record RI (r : receiver) : Prop := mkRI {
  ri_w : 0 < r_wsize r /\ 2 * r_wsize r <= pow20 /\ pow20 mod r_wsize r = 0;
  ri_len : length (r_slots r) = N.to_nat (r_wsize r);
  ri_chans : length (r_chans r) = N.to_nat CHANNEL_COUNT;
  ri_base : r_base r < pow20;
  ri_end : r_end r < pow20;
  ri_eoff : eoff r <= r_wsize r;
  ri_dflag : forall k, k < r_wsize r -> sl_dflag (so r k) = true ->
               sl_entry (so r k) = true /\ k < eoff r /\ sl_chan (so r k) < CHANNEL_COUNT /\
               is_closed (sl_asm (so r k)) = true /\ cboff r (sl_chan (so r k)) <= k;
  ri_cb : forall c cb, rc_base (get_chan r c) = Some cb ->
               cb < pow20 /\ 0 < pid_sub cb (r_base r) /\ pid_sub cb (r_base r) <= eoff r /\
               sl_marker (so r (pid_sub cb (r_base r))) = Some c /\
               sl_dflag (so r (pid_sub cb (r_base r) - 1)) = false /\
               is_closed (sl_asm (so r (pid_sub cb (r_base r) - 1))) = true;
  ri_mk : forall k c, k < r_wsize r -> sl_marker (so r k) = Some c ->
               exists cb, rc_base (get_chan r c) = Some cb /\
                          (k = pid_sub cb (r_base r) \/ (k = 0 /\ pid_sub cb (r_base r) = r_wsize r))
}.

Lemma sidx_lt r k : RI r -> (sidx r k < length (r_slots r))%nat.
Proof. intros I. unfold sidx. rewrite (ri_len r I). destruct (ri_w r I) as (H & _). pose proof (N.mod_lt (r_base r + k) (r_wsize r)). lia. Qed.

Lemma sidx_inj r j k : RI r -> j <= k -> k - j < r_wsize r -> sidx r j = sidx r k -> j = k.
Proof.
  intros I Hle Hd E. destruct (ri_w r I) as (H & _). unfold sidx in E.
  assert (E' : (r_base r + j) mod r_wsize r = (r_base r + k) mod r_wsize r) by lia.
  apply (mod_inj (r_wsize r) H) in E'; lia.
Qed.

Lemma sidx_W r : RI r -> sidx r (r_wsize r) = sidx r 0.
Proof. intros I. destruct (ri_w r I) as (H & _). unfold sidx. rewrite mod_W_W by exact H. rewrite N.add_0_r. reflexivity. Qed.

(* the slot of a 20-bit id x that lies k ids after the base *)
Lemma widx_sidx r x : RI r -> widx r x = sidx r (pid_sub x (r_base r)).
Proof.
  intros I. destruct (ri_w r I) as (H & _ & Hd). unfold widx, sidx. f_equal.
  apply (cong_W _ H Hd). apply pid_sub_any. exact (ri_base r I).
Qed.

Lemma nth_upd_eq {A} (d : A) l i j x : (i < length l)%nat -> nth j (upd l i x) d = if Nat.eqb i j then x else nth j l d.
Proof.
  intros Hi. destruct (Nat.eqb_spec i j) as [->|Hne].
  - revert j Hi. induction l as [|h t IH]; intros j Hi; cbn [length] in Hi; [lia|]. destruct j; cbn [upd nth]; [reflexivity|]. apply IH. lia.
  - revert i j Hi Hne. induction l as [|h t IH]; intros i j Hi Hne; cbn [length] in Hi; [lia|].
    destruct i, j; cbn [upd nth]; try reflexivity; try lia. apply IH; lia.
Qed.

Lemma pid_sub_self b : b < pow20 -> pid_sub b b = 0.
Proof. intros Hb. apply pid_sub_spec; [exact Hb|reflexivity|]. rewrite N.add_0_r. reflexivity. Qed.

Lemma asm_produced_chan e alloc maxa dg e' alloc' p :
  asm_try_add e alloc maxa dg = (e', alloc', Some p) -> ap_chan p = dg_chan dg /\ is_closed e = false /\ is_closed e' = true.
Proof.
  unfold asm_try_add. destruct e as [|a|a chan wpl cpl last buf].
  - destruct (maxa <? _); [intros H; inversion H; auto|]. destruct (dg_frag_last dg =? 0); intros H; inversion H; auto.
  - intros H; inversion H.
  - destruct (_ || _); [intros H; inversion H|]. destruct (fb_finished _); intros H; inversion H; auto.
Qed.

Lemma asm_closed_same e alloc maxa dg : is_closed e = true -> asm_try_add e alloc maxa dg = (e, alloc, None).
Proof. destruct e; try discriminate. intros _. reflexivity. Qed.

(* a receiver that differs from r in one slot (and possibly counters) *)
Lemma so_upd r r' i s' j :
  RI r -> r_base r' = r_base r -> r_wsize r' = r_wsize r -> r_slots r' = upd (r_slots r) i s' -> (i < length (r_slots r))%nat ->
  so r' j = if Nat.eqb i (sidx r j) then s' else so r j.
Proof.
  intros I Hb Hw Hs Hi. unfold so, get_slot, sidx. rewrite Hs, Hb, Hw. apply nth_upd_eq. exact Hi.
Qed.

Lemma get_chan_upd r c x c' : (N.to_nat c < length (r_chans r))%nat ->
  nth (N.to_nat c') (upd (r_chans r) (N.to_nat c) x) (mkRChan None 0) = if c =? c' then x else get_chan r c'.
Proof.
  intros Hc. unfold get_chan. rewrite nth_upd_eq by exact Hc.
  destruct (N.eqb_spec c c') as [->|Hne]; [rewrite Nat.eqb_refl; reflexivity|].
  destruct (Nat.eqb_spec (N.to_nat c) (N.to_nat c')) as [E|_]; [lia|reflexivity].
Qed.

Lemma valid_chan dg : datagram_is_valid dg = true -> dg_chan dg < CHANNEL_COUNT.
Proof. unfold datagram_is_valid. destruct (N.leb_spec CHANNEL_COUNT (dg_chan dg)); [discriminate|auto]. Qed.

Lemma handle_datagram_RI r dg : RI r -> RI (receiver_handle_datagram r dg).
Proof.
  intros I. unfold receiver_handle_datagram.
  destruct (datagram_is_valid dg) eqn:Hv; cbn [negb]; [|exact I].
  set (k := pid_sub (dg_seq dg) (r_base r)).
  destruct (N.leb_spec (r_wsize r) k) as [_|Hk]; [exact I|].
  assert (Hcl : pid_sub (opt_default (r_base r) (rc_base (get_chan r (dg_chan dg)))) (r_base r) = cboff r (dg_chan dg)).
  { unfold cboff. destruct (rc_base (get_chan r (dg_chan dg))); cbn [opt_default]; [reflexivity|]. apply pid_sub_self, (ri_base r I). }
  rewrite Hcl. destruct (N.ltb_spec k (cboff r (dg_chan dg))) as [_|Hcb]; [exact I|].
  rewrite (widx_sidx r _ I). fold k. fold (so r k).
  destruct (ri_w r I) as (HW & H2W & Hdiv).
  pose proof (sidx_lt r k I) as Hi.
  destruct (asm_try_add (sl_asm (so r k)) (r_alloc r) (r_max_alloc r) dg) as [[asm' alloc'] produced] eqn:Ea.
  destruct produced as [p|].
  - (* a packet is produced *)
    destruct (asm_produced_chan _ _ _ _ _ _ _ Ea) as (Hpc & Hnc & Hc').
    set (s' := mkSlot asm' true true (ap_chan p) (ap_cpl p) (ap_wpl p) (ap_data p) (sl_marker (so r k))).
    match goal with |- RI ?R => set (r' := R) end.
    assert (Hb : r_base r' = r_base r) by reflexivity. assert (Hw : r_wsize r' = r_wsize r) by reflexivity.
    assert (Hso : forall j, so r' j = if Nat.eqb (sidx r k) (sidx r j) then s' else so r j).
    { intros j. apply (so_upd r r' _ s' j I Hb Hw); [reflexivity|exact Hi]. }
    assert (Hch : forall c, rc_base (get_chan r' c) = rc_base (get_chan r c)).
    { intros c. unfold get_chan at 1. cbn [r' r_chans]. rewrite get_chan_upd by (rewrite (ri_chans r I); pose proof (valid_chan dg Hv); lia).
      destruct (N.eqb_spec (dg_chan dg) c) as [->|_]; reflexivity. }
    assert (Hcb' : forall c, cboff r' c = cboff r c). { intros c. unfold cboff. rewrite Hch, Hb. reflexivity. }
    assert (Heo : eoff r <= eoff r' /\ k < eoff r' /\ eoff r' <= r_wsize r /\ r_end r' < pow20).
    { unfold eoff. rewrite Hb. cbn [r' r_end].
      pose proof (ri_eoff r I) as He. unfold eoff in He. pose proof (ri_base r I) as Hbase. pose proof (ri_end r I) as Hend.
      pose proof (pid_sub_any (dg_seq dg) (r_base r) Hbase) as Hseq. fold k in Hseq.
      pose proof (pid_sub_id (r_end r) (r_base r) Hbase Hend) as Hen. set (eo := pid_sub (r_end r) (r_base r)) in *.
      destruct (N.le_gt_cases eo k) as [Hke|Hke].
      - assert (Hse : pid_sub (dg_seq dg) (r_end r) = k - eo).
        { apply pid_sub_spec; [exact Hend|unfold pow20 in *; lia|]. exact (end_arith1 _ _ _ _ _ Hend Hseq Hen Hke). }
        rewrite Hse. destruct (N.ltb_spec (k - eo) (r_wsize r)) as [_|Hge]; [|lia].
        destruct (pid_add_any (dg_seq dg) 1 ltac:(reflexivity)) as [Ha Halt].
        assert (Hn : pid_sub (pid_add (dg_seq dg) 1) (r_base r) = k + 1).
        { apply pid_sub_spec; [exact Hbase|unfold pow20 in *; lia|]. rewrite Ha. exact (succ_arith _ _ _ Hseq). }
        rewrite Hn. repeat split; lia.
      - assert (Hse : pid_sub (dg_seq dg) (r_end r) = pow20 - (eo - k)).
        { apply pid_sub_spec; [exact Hend|unfold pow20 in *; lia|]. apply (end_arith2 _ _ _ _ _ Hend Hseq Hen); [lia|unfold pow20 in *; lia]. }
        rewrite Hse. destruct (N.ltb_spec (pow20 - (eo - k)) (r_wsize r)) as [Hlt|_]; [unfold pow20 in *; lia|].
        fold eo. repeat split; lia. }
    destruct Heo as (Heo1 & Heo2 & Heo3 & Heo4).
    constructor.
    + exact (ri_w r I).
    + cbn [r' r_slots r_wsize]. rewrite upd_length. exact (ri_len r I).
    + cbn [r' r_chans]. rewrite upd_length. exact (ri_chans r I).
    + exact (ri_base r I).
    + exact Heo4.
    + rewrite Hw. exact Heo3.
    + intros j Hj. rewrite Hw in Hj. rewrite Hso. destruct (Nat.eqb_spec (sidx r k) (sidx r j)) as [E|Hne].
      * assert (j = k).
        { destruct (N.le_gt_cases j k); [apply (sidx_inj r j k I); [assumption|lia|auto]|symmetry; apply (sidx_inj r k j I); [lia|lia|auto]]. }
        subst j. intros _. cbn [s' sl_entry sl_chan sl_asm]. rewrite Hpc, Hcb'. pose proof (valid_chan dg Hv). auto.
      * intros Hd. destruct (ri_dflag r I j Hj Hd) as (A1 & A2 & A3 & A4 & A5). rewrite Hcb'. repeat split; auto. lia.
    + intros c cb Hc. rewrite Hch in Hc. destruct (ri_cb r I c cb Hc) as (B1 & B2 & B3 & B4 & B5 & B6). rewrite Hb.
      set (o := pid_sub cb (r_base r)) in *. split; [exact B1|]. split; [exact B2|]. split; [lia|].
      split.
      * rewrite Hso. destruct (Nat.eqb_spec (sidx r k) (sidx r o)) as [E|Hne]; [|exact B4].
        cbn [s' sl_marker]. unfold so in *. rewrite E. exact B4.
      * rewrite !Hso. destruct (Nat.eqb_spec (sidx r k) (sidx r (o - 1))) as [E|Hne]; [|auto].
        exfalso. assert (o - 1 = k).
        { pose proof (ri_eoff r I). destruct (N.le_gt_cases (o - 1) k); [apply (sidx_inj r _ _ I); [assumption|lia|auto]|symmetry; apply (sidx_inj r _ _ I); [lia|lia|auto]]. }
        rewrite H in B6. rewrite B6 in Hnc. discriminate Hnc.
    + intros j c Hj Hm. rewrite Hw in Hj. rewrite Hso in Hm. rewrite Hb.
      assert (Hm' : sl_marker (so r j) = Some c).
      { destruct (Nat.eqb_spec (sidx r k) (sidx r j)) as [E|Hne]; [|exact Hm]. cbn [s' sl_marker] in Hm. unfold so in *. rewrite <- E. exact Hm. }
      destruct (ri_mk r I j c Hj Hm') as (cb & Hc & Hor). exists cb. rewrite Hch. split; [exact Hc|exact Hor].
  - (* no packet: only the assembly entry of the slot changes *)
    match goal with |- RI ?R => set (r' := R) end.
    assert (Hb : r_base r' = r_base r) by reflexivity. assert (Hw : r_wsize r' = r_wsize r) by reflexivity.
    set (s' := mkSlot asm' (sl_entry (so r k)) (sl_dflag (so r k)) (sl_chan (so r k)) (sl_cpl (so r k)) (sl_wpl (so r k)) (sl_data (so r k)) (sl_marker (so r k))).
    assert (Hso : forall j, so r' j = if Nat.eqb (sidx r k) (sidx r j) then s' else so r j).
    { intros j. apply (so_upd r r' _ s' j I Hb Hw); [reflexivity|exact Hi]. }
    assert (Hsame : forall j, sl_entry (so r' j) = sl_entry (so r j) /\ sl_dflag (so r' j) = sl_dflag (so r j) /\ sl_chan (so r' j) = sl_chan (so r j) /\
                              sl_marker (so r' j) = sl_marker (so r j) /\ (is_closed (sl_asm (so r j)) = true -> is_closed (sl_asm (so r' j)) = true)).
    { intros j. rewrite Hso. destruct (Nat.eqb_spec (sidx r k) (sidx r j)) as [E|Hne]; [|auto 10].
      unfold so in *. rewrite <- E. cbn [s' sl_entry sl_dflag sl_chan sl_marker sl_asm]. repeat split; auto.
      intros Hc. rewrite (asm_closed_same _ _ _ _ Hc) in Ea. inversion Ea; subst. exact Hc. }
    assert (Hch : forall c, get_chan r' c = get_chan r c) by reflexivity.
    assert (Hcb' : forall c, cboff r' c = cboff r c) by reflexivity.
    assert (Heo : eoff r' = eoff r) by reflexivity.
    constructor.
    + exact (ri_w r I).
    + cbn [r' r_slots r_wsize]. rewrite upd_length. exact (ri_len r I).
    + exact (ri_chans r I).
    + exact (ri_base r I).
    + exact (ri_end r I).
    + rewrite Heo, Hw. exact (ri_eoff r I).
    + intros j Hj. rewrite Hw in Hj. destruct (Hsame j) as (S1 & S2 & S3 & S4 & S5). rewrite S1, S2, S3, Heo, Hcb'. intros Hd.
      destruct (ri_dflag r I j Hj Hd) as (A1 & A2 & A3 & A4 & A5). auto 10.
    + intros c cb Hc. rewrite Hch in Hc. destruct (ri_cb r I c cb Hc) as (B1 & B2 & B3 & B4 & B5 & B6). rewrite Hb, Heo.
      set (o := pid_sub cb (r_base r)) in *. destruct (Hsame o) as (_ & _ & _ & S4 & _). destruct (Hsame (o - 1)) as (_ & S2 & _ & _ & S5).
      rewrite S4, S2. auto 10.
    + intros j c Hj Hm. rewrite Hw in Hj. destruct (Hsame j) as (_ & _ & _ & S4 & _). rewrite S4 in Hm. rewrite Hb. exact (ri_mk r I j c Hj Hm).
Qed.

(* congruence of ids, kept folded so that lia does not see `mod` by the large constant *)
Definition cg (a b : N) : Prop := a mod pow20 = b mod pow20.

(* ---------- advance_window ---------- *)
Definition Geo (r : receiver) : Prop :=
  0 < r_wsize r /\ 2 * r_wsize r <= pow20 /\ pow20 mod r_wsize r = 0 /\ length (r_slots r) = N.to_nat (r_wsize r) /\ r_base r < pow20.

Lemma RI_Geo r : RI r -> Geo r.
Proof. intros I. destruct (ri_w r I) as (A & B & C). unfold Geo. repeat split; auto using (ri_len r I), (ri_base r I). Qed.

Lemma widx_geo r x k : Geo r -> x mod pow20 = (r_base r + k) mod pow20 -> widx r x = sidx r k.
Proof. intros (H & _ & Hd & _) E. unfold widx, sidx. f_equal. apply (cong_W _ H Hd). exact E. Qed.

Lemma sidx_lt_geo r k : Geo r -> (sidx r k < length (r_slots r))%nat.
Proof. intros (H & _ & _ & Hl & _). unfold sidx. rewrite Hl. pose proof (N.mod_lt (r_base r + k) (r_wsize r)). lia. Qed.

Lemma sidx_inj_geo r j k : Geo r -> j <= k -> k - j < r_wsize r -> sidx r j = sidx r k -> j = k.
Proof.
  intros (H & _) Hle Hd E. unfold sidx in E.
  assert (E' : (r_base r + j) mod r_wsize r = (r_base r + k) mod r_wsize r) by lia.
  apply (mod_inj (r_wsize r) H) in E'; lia.
Qed.

Lemma sidx_eq_iff r j k : Geo r -> j < r_wsize r -> k < r_wsize r -> (sidx r j = sidx r k <-> j = k).
Proof.
  intros G Hj Hk. split; [|intros ->; reflexivity]. intros E.
  destruct (N.le_gt_cases j k); [apply (sidx_inj_geo r j k G); [assumption|lia|exact E]|symmetry; apply (sidx_inj_geo r k j G); [lia|lia|auto]].
Qed.

Definition clr (s : slot) : slot := mkSlot AsmOpen false (sl_dflag s) (sl_chan s) (sl_cpl s) (sl_wpl s) (sl_data s) (sl_marker s).

Lemma so_upd_geo r r' i s' j :
  Geo r -> r_base r' = r_base r -> r_wsize r' = r_wsize r -> r_slots r' = upd (r_slots r) i s' -> (i < length (r_slots r))%nat ->
  so r' j = if Nat.eqb i (sidx r j) then s' else so r j.
Proof. intros G Hb Hw Hs Hi. unfold so, get_slot, sidx. rewrite Hs, Hb, Hw. apply nth_upd_eq. exact Hi. Qed.

Lemma adv_clear_spec : forall n j id r,
  Geo r -> id mod pow20 = (r_base r + j) mod pow20 -> j + N.of_nat n <= r_wsize r ->
  let r1 := adv_clear n id r in
  r_base r1 = r_base r /\ r_end r1 = r_end r /\ r_wsize r1 = r_wsize r /\ r_chans r1 = r_chans r /\
  length (r_slots r1) = length (r_slots r) /\
  forall k, k < r_wsize r -> so r1 k = if (j <=? k) && (k <? j + N.of_nat n) then clr (so r k) else so r k.
Proof.
  induction n as [|n IH]; intros j id r G Hid Hn; cbn [adv_clear].
  - repeat split; auto. intros k Hk. destruct (j <=? k) eqn:E1; cbn [andb]; [|reflexivity].
    destruct (N.ltb_spec k (j + N.of_nat 0)); [lia|reflexivity].
  - rewrite (widx_geo r id j G Hid). fold (so r j).
    match goal with |- context [adv_clear n _ ?R] => set (r' := R) end.
    assert (G' : Geo r'). { destruct G as (A & B & C & D & E). unfold Geo. cbn [r' r_wsize r_slots r_base]. rewrite upd_length. auto. }
    assert (Hid' : pid_add id 1 mod pow20 = (r_base r' + (j + 1)) mod pow20).
    { destruct (pid_add_any id 1 ltac:(reflexivity)) as [Ha _]. rewrite Ha. cbn [r' r_base]. rewrite N.add_assoc. apply succ_arith_gen. exact Hid. }
    assert (Hn' : j + 1 + N.of_nat n <= r_wsize r') by (cbn [r' r_wsize]; lia).
    destruct (IH (j + 1) (pid_add id 1) r' G' Hid' Hn') as (B1 & B2 & B3 & B4 & B5 & B6).
    cbn [r' r_base r_end r_wsize r_chans r_slots] in B1, B2, B3, B4, B5. rewrite upd_length in B5.
    repeat split; auto. intros k Hk. rewrite (B6 k Hk).
    assert (Hso : so r' k = if Nat.eqb (sidx r j) (sidx r k) then clr (so r j) else so r k).
    { apply (so_upd_geo r r' _ _ k G); [reflexivity|reflexivity|reflexivity|apply sidx_lt_geo; exact G]. }
    rewrite Hso. destruct (Nat.eqb_spec (sidx r j) (sidx r k)) as [E|Hne].
    + apply (sidx_eq_iff r j k G) in E; [|lia|exact Hk]. subst k.
      destruct (N.leb_spec (j + 1) j); [lia|]. cbn [andb]. destruct (N.leb_spec j j); [|lia]. destruct (N.ltb_spec j (j + N.of_nat (S n))); [|lia]. reflexivity.
    + assert (k <> j) by (intros ->; apply Hne; reflexivity).
      destruct (N.leb_spec (j + 1) k), (N.leb_spec j k), (N.ltb_spec k (j + 1 + N.of_nat n)), (N.ltb_spec k (j + N.of_nat (S n))); cbn [andb]; try reflexivity; lia.
Qed.

(* marker discipline: a channel's base marker sits in the slot of its base id, and only there *)
Definition MK (r : receiver) : Prop :=
  length (r_chans r) = N.to_nat CHANNEL_COUNT /\
  (forall c cb, rc_base (get_chan r c) = Some cb ->
     0 < pid_sub cb (r_base r) /\ pid_sub cb (r_base r) <= r_wsize r /\ sl_marker (so r (pid_sub cb (r_base r))) = Some c) /\
  (forall k c, k < r_wsize r -> sl_marker (so r k) = Some c ->
     exists cb, rc_base (get_chan r c) = Some cb /\ sidx r (pid_sub cb (r_base r)) = sidx r k).

Definition same_but_marker (s s' : slot) : Prop :=
  sl_asm s' = sl_asm s /\ sl_entry s' = sl_entry s /\ sl_dflag s' = sl_dflag s /\ sl_chan s' = sl_chan s /\
  sl_cpl s' = sl_cpl s /\ sl_wpl s' = sl_wpl s /\ sl_data s' = sl_data s.

Lemma same_but_marker_refl s : same_but_marker s s. Proof. unfold same_but_marker. auto 10. Qed.
Lemma same_but_marker_trans a b c : same_but_marker a b -> same_but_marker b c -> same_but_marker a c.
Proof. unfold same_but_marker. intros (A1&A2&A3&A4&A5&A6&A7) (B1&B2&B3&B4&B5&B6&B7). repeat split; congruence. Qed.

Lemma chan_lt_of_base r c cb : length (r_chans r) = N.to_nat CHANNEL_COUNT -> rc_base (get_chan r c) = Some cb -> (N.to_nat c < length (r_chans r))%nat.
Proof.
  intros Hl Hc. destruct (Nat.lt_ge_cases (N.to_nat c) (length (r_chans r))) as [|Hge]; [assumption|].
  unfold get_chan in Hc. rewrite nth_overflow in Hc by lia. discriminate Hc.
Qed.

(* offsets 1..W name slots; offset W shares the slot of offset 0 *)
Definition norm (r : receiver) (j : N) : N := if j =? r_wsize r then 0 else j.
Lemma sidx_norm r j : Geo r -> j <= r_wsize r -> sidx r (norm r j) = sidx r j /\ norm r j < r_wsize r.
Proof.
  intros G Hj. unfold norm. destruct (N.eqb_spec j (r_wsize r)) as [->|Hne].
  - destruct G as (H & _). split; [|lia]. unfold sidx. rewrite mod_W_W by exact H. rewrite N.add_0_r. reflexivity.
  - split; [reflexivity|lia].
Qed.

Lemma try_unset_spec r id j :
  Geo r -> MK r -> id mod pow20 = (r_base r + j) mod pow20 -> 0 < j -> j <= r_wsize r ->
  let r' := try_unset_channel_base_id r id in
  Geo r' /\ MK r' /\ r_base r' = r_base r /\ r_end r' = r_end r /\ r_wsize r' = r_wsize r /\
  (forall i, same_but_marker (get_slot r i) (get_slot r' i)) /\
  sl_marker (get_slot r' (sidx r j)) = None /\
  (forall i, i <> sidx r j -> sl_marker (get_slot r' i) = sl_marker (get_slot r i)) /\
  (forall c, rc_base (get_chan r' c) =
             match rc_base (get_chan r c) with Some cb => if pid_sub cb (r_base r) =? j then None else Some cb | None => None end).
Proof.
  intros G (ML & M1 & M2) Hid Hj0 HjW. unfold try_unset_channel_base_id. cbv zeta. rewrite (widx_geo r id j G Hid).
  destruct (sidx_norm r j G HjW) as [Hn1 Hn2].
  destruct (sl_marker (get_slot r (sidx r j))) as [chan|] eqn:Em.
  - (* a marker: the channel loses its base *)
    assert (Em' : sl_marker (so r (norm r j)) = Some chan) by (unfold so; rewrite Hn1; exact Em).
    destruct (M2 _ _ Hn2 Em') as (cb & Hcb & Hsx). rewrite Hn1 in Hsx.
    destruct (M1 _ _ Hcb) as (O1 & O2 & O3).
    assert (Ho : pid_sub cb (r_base r) = j).
    { destruct (N.le_gt_cases (pid_sub cb (r_base r)) j); [apply (sidx_inj_geo r _ _ G); [assumption|lia|exact Hsx]|symmetry; apply (sidx_inj_geo r _ _ G); [lia|lia|auto]]. }
    pose proof (chan_lt_of_base r chan cb ML Hcb) as Hcl.
    match goal with |- Geo ?R /\ _ => set (r' := R) end.
    pose proof (sidx_lt_geo r j G) as Hi.
    assert (Hgs : forall i, get_slot r' i = if Nat.eqb (sidx r j) i then slot_set_marker (get_slot r (sidx r j)) None else get_slot r i).
    { intros i. unfold get_slot. cbn [r' set_chans set_slots r_slots]. apply nth_upd_eq. exact Hi. }
    assert (Hgc : forall c, get_chan r' c = if chan =? c then mkRChan None (rc_count (get_chan r chan)) else get_chan r c).
    { intros c. unfold get_chan at 1. cbn [r' set_chans set_slots r_chans]. rewrite get_chan_upd by exact Hcl.
      destruct (chan =? c); [|reflexivity]. reflexivity. }
    assert (G' : Geo r'). { destruct G as (A & B & C & D & E). unfold Geo. cbn [r' set_chans set_slots r_wsize r_slots r_base]. rewrite upd_length. auto. }
    assert (Hsidx : forall k, sidx r' k = sidx r k) by reflexivity.
    assert (Hso : forall k, so r' k = if Nat.eqb (sidx r j) (sidx r k) then slot_set_marker (so r j) None else so r k).
    { intros k. unfold so. rewrite Hsidx. apply Hgs. }
    split; [exact G'|]. split.
    { (* MK r' *)
      split; [cbn [r' set_chans set_slots r_chans]; rewrite upd_length; exact ML|]. split.
      - intros c cb' Hc. rewrite Hgc in Hc. destruct (N.eqb_spec chan c) as [->|Hne]; [discriminate Hc|].
        destruct (M1 _ _ Hc) as (P1 & P2 & P3). change (r_base r') with (r_base r). change (r_wsize r') with (r_wsize r).
        split; [exact P1|]. split; [exact P2|]. rewrite Hso.
        destruct (Nat.eqb_spec (sidx r j) (sidx r (pid_sub cb' (r_base r)))) as [E|_]; [|exact P3].
        exfalso. unfold so in P3, O3. rewrite <- E, <- Hsx in P3. rewrite O3 in P3. congruence.
      - intros k c Hk Hm. change (r_wsize r') with (r_wsize r) in Hk. rewrite Hso in Hm.
        destruct (Nat.eqb_spec (sidx r j) (sidx r k)) as [E|Hne]; [discriminate Hm|].
        destruct (M2 _ _ Hk Hm) as (cb' & Hc' & Hs'). exists cb'. rewrite Hgc.
        destruct (N.eqb_spec chan c) as [<-|_]; [|split; [exact Hc'|exact Hs']].
        exfalso. rewrite Hcb in Hc'. injection Hc' as <-. rewrite Ho in Hs'. contradiction. }
    split; [reflexivity|]. split; [reflexivity|]. split; [reflexivity|]. split.
    { intros i. rewrite Hgs. destruct (Nat.eqb_spec (sidx r j) i) as [<-|_]; [|apply same_but_marker_refl]. unfold same_but_marker, slot_set_marker. cbn. auto 10. }
    split. { rewrite Hgs, Nat.eqb_refl. reflexivity. }
    split. { intros i Hi'. rewrite Hgs. destruct (Nat.eqb_spec (sidx r j) i); [congruence|reflexivity]. }
    intros c. rewrite Hgc. destruct (N.eqb_spec chan c) as [<-|Hne].
    + rewrite Hcb, Ho, N.eqb_refl. reflexivity.
    + destruct (rc_base (get_chan r c)) as [cb'|] eqn:Hc'; [|reflexivity].
      destruct (N.eqb_spec (pid_sub cb' (r_base r)) j) as [E|_]; [|reflexivity].
      exfalso. destruct (M1 _ _ Hc') as (_ & _ & P3). rewrite E in P3. unfold so in P3. rewrite Em in P3. congruence.
  - (* no marker: nothing happens; no channel has its base here *)
    split; [exact G|]. split; [exact (conj ML (conj M1 M2))|]. repeat split; auto using same_but_marker_refl.
    intros c. destruct (rc_base (get_chan r c)) as [cb'|] eqn:Hc'; [|reflexivity].
    destruct (N.eqb_spec (pid_sub cb' (r_base r)) j) as [E|_]; [|reflexivity].
    exfalso. destruct (M1 _ _ Hc') as (_ & _ & P3). rewrite E in P3. unfold so in P3. rewrite Em in P3. discriminate P3.
Qed.

Lemma adv_unset_spec : forall n j0 id r,
  Geo r -> MK r -> id mod pow20 = (r_base r + j0) mod pow20 -> j0 + N.of_nat n <= r_wsize r ->
  let r2 := adv_unset n id r in
  Geo r2 /\ MK r2 /\ r_base r2 = r_base r /\ r_end r2 = r_end r /\ r_wsize r2 = r_wsize r /\
  (forall i, same_but_marker (get_slot r i) (get_slot r2 i)) /\
  (forall j, j0 < j -> j <= j0 + N.of_nat n -> sl_marker (get_slot r2 (sidx r j)) = None) /\
  (forall i, (forall j, j0 < j -> j <= j0 + N.of_nat n -> sidx r j <> i) -> sl_marker (get_slot r2 i) = sl_marker (get_slot r i)) /\
  (forall c, rc_base (get_chan r2 c) =
             match rc_base (get_chan r c) with
             | Some cb => if (j0 <? pid_sub cb (r_base r)) && (pid_sub cb (r_base r) <=? j0 + N.of_nat n) then None else Some cb
             | None => None end).
Proof.
  induction n as [|n IH]; intros j0 id r G M Hid Hn; cbn [adv_unset].
  - cbv zeta. split; [exact G|]. split; [exact M|]. repeat split; auto using same_but_marker_refl.
    + intros j H1 H2. lia.
    + intros c. destruct (rc_base (get_chan r c)) as [cb|]; [|reflexivity].
      destruct (N.ltb_spec j0 (pid_sub cb (r_base r))), (N.leb_spec (pid_sub cb (r_base r)) (j0 + N.of_nat 0)); cbn [andb]; try reflexivity. lia.
  - cbv zeta.
    assert (Hid' : pid_add id 1 mod pow20 = (r_base r + (j0 + 1)) mod pow20).
    { destruct (pid_add_any id 1 ltac:(reflexivity)) as [Ha _]. rewrite Ha, N.add_assoc. apply succ_arith_gen. exact Hid. }
    destruct (try_unset_spec r (pid_add id 1) (j0 + 1) G M Hid' ltac:(lia) ltac:(lia)) as (G1 & M1 & B1 & E1 & W1 & S1 & N1 & K1 & C1).
    set (r1 := try_unset_channel_base_id r (pid_add id 1)) in *.
    assert (Hid1 : pid_add id 1 mod pow20 = (r_base r1 + (j0 + 1)) mod pow20) by (rewrite B1; exact Hid').
    destruct (IH (j0 + 1) (pid_add id 1) r1 G1 M1 Hid1 ltac:(rewrite W1; lia)) as (G2 & M2 & B2 & E2 & W2 & S2 & N2 & K2 & C2).
    assert (Hsx : forall j, sidx r1 j = sidx r j) by (intros j; unfold sidx; rewrite B1, W1; reflexivity).
    split; [exact G2|]. split; [exact M2|]. split; [congruence|]. split; [congruence|]. split; [congruence|].
    split. { intros i. eapply same_but_marker_trans; [apply S1|apply S2]. }
    split.
    { intros j H1 H2. destruct (N.eq_dec j (j0 + 1)) as [->|Hne].
      - (* cleared by the first step; later steps touch other slots or clear again *)
        destruct (sl_marker (get_slot (adv_unset n (pid_add id 1) r1) (sidx r (j0 + 1)))) as [c|] eqn:Em; [|reflexivity].
        exfalso.
        (* if it were kept by the rest, it would equal the (cleared) marker after the first step *)
        assert (Hkeep : forall j', j0 + 1 < j' -> j' <= j0 + 1 + N.of_nat n -> sidx r1 j' <> sidx r (j0 + 1)).
        { intros j' A1 A2 E. rewrite Hsx in E. symmetry in E.
          assert (Hd : j' - (j0 + 1) < r_wsize r) by (clear - A2 Hn; lia).
          assert (Hl : j0 + 1 <= j') by (clear - A1; lia).
          pose proof (sidx_inj_geo r (j0 + 1) j' G Hl Hd E) as Q. clear - Q A1. lia. }
        rewrite (K2 _ Hkeep) in Em. rewrite N1 in Em. discriminate Em.
      - rewrite <- Hsx. apply N2; lia. }
    split.
    { intros i Hi. rewrite K2.
      - apply K1. intros E. apply (Hi (j0 + 1)); [lia|lia|symmetry; exact E].
      - intros j A1 A2. rewrite Hsx. apply Hi; lia. }
    intros c. rewrite C2, C1, B1. destruct (rc_base (get_chan r c)) as [cb|]; [|reflexivity].
    set (o := pid_sub cb (r_base r)).
    destruct (N.eqb_spec o (j0 + 1)) as [E|Hne].
    + clearbody o. clear - E. destruct (N.ltb_spec j0 o), (N.leb_spec o (j0 + N.of_nat (S n))); cbn [andb]; try reflexivity; lia.
    + fold o. clearbody o. clear - Hne. destruct (N.ltb_spec (j0 + 1) o), (N.leb_spec o (j0 + 1 + N.of_nat n)), (N.ltb_spec j0 o), (N.leb_spec o (j0 + N.of_nat (S n))); cbn [andb]; try reflexivity; lia.
Qed.

Lemma so_W r : Geo r -> so r (r_wsize r) = so r 0.
Proof. intros (H & _). unfold so, sidx. rewrite mod_W_W by exact H. rewrite N.add_0_r. reflexivity. Qed.

Lemma RI_MK r : RI r -> MK r.
Proof.
  intros I. pose proof (RI_Geo r I) as G. split; [exact (ri_chans r I)|]. split.
  - intros c cb Hc. destruct (ri_cb r I c cb Hc) as (_ & B2 & B3 & B4 & _). pose proof (ri_eoff r I). repeat split; auto. lia.
  - intros k c Hk Hm. destruct (ri_mk r I k c Hk Hm) as (cb & Hc & [->|[-> E]]); exists cb; (split; [exact Hc|]); [reflexivity|].
    rewrite E. unfold sidx. destruct G as (H & _). rewrite mod_W_W by exact H. rewrite N.add_0_r. reflexivity.
Qed.

Lemma advance_window_RI r nb :
  RI r -> nb < pow20 -> pid_sub nb (r_base r) <= r_wsize r ->
  (forall k, k < pid_sub nb (r_base r) -> sl_dflag (so r k) = false) ->
  let r' := advance_window r nb in
  RI r' /\ r_base r' = nb /\ r_wsize r' = r_wsize r /\
  (forall c, cboff r' c = cboff r c - pid_sub nb (r_base r)) /\
  (forall k, k < r_wsize r -> pid_sub nb (r_base r) + k < r_wsize r ->
     same_but_marker (so r (pid_sub nb (r_base r) + k)) (so r' k)) /\
  eoff r' = eoff r - pid_sub nb (r_base r).
Proof.
  intros I Hnb Hd Hnf. cbv zeta. remember (pid_sub nb (r_base r)) as delta eqn:Ed.
  pose proof (RI_Geo r I) as G. pose proof (RI_MK r I) as M0. destruct (ri_w r I) as (HW & H2W & Hdiv).
  pose proof (ri_base r I) as Hbase. pose proof (ri_end r I) as Hend. pose proof (ri_eoff r I) as Heo.
  assert (Hnbc : cg nb (r_base r + delta)) by (rewrite Ed; apply pid_sub_id; assumption).
  assert (Hb0 : cg (r_base r) (r_base r + 0)) by (unfold cg; rewrite N.add_0_r; reflexivity).
  assert (Hdn : 0 + N.of_nat (N.to_nat delta) <= r_wsize r) by lia.
  destruct (adv_clear_spec (N.to_nat delta) 0 (r_base r) r G Hb0 Hdn) as (A1 & A2 & A3 & A4 & A5 & A6).
  set (r1 := adv_clear (N.to_nat delta) (r_base r) r) in *. clear Hb0.
  assert (G1 : Geo r1). { destruct G as (P1 & P2 & P3 & P4 & P5). unfold Geo. rewrite A1, A3, A5. auto. }
  assert (Hsx1 : forall j, sidx r1 j = sidx r j) by (intros j; unfold sidx; rewrite A1, A3; reflexivity).
  assert (Hmk1 : forall k, k <= r_wsize r -> sl_marker (so r1 k) = sl_marker (so r k) /\ (delta <= k -> k < r_wsize r -> so r1 k = so r k)).
  { intros k Hk. destruct (N.eq_dec k (r_wsize r)) as [->|Hne].
    - rewrite <- A3 at 1. rewrite (so_W r1 G1), (so_W r G). split; [|lia]. rewrite (A6 0 HW). destruct (_ && _); reflexivity.
    - assert (Hk' : k < r_wsize r) by lia. rewrite (A6 k Hk'). split.
      + destruct (_ && _); reflexivity.
      + intros Hdk _. destruct (N.leb_spec 0 k); [|lia]. destruct (N.ltb_spec k (0 + N.of_nat (N.to_nat delta))); [lia|]. reflexivity. }
  assert (M1 : MK r1).
  { destruct M0 as (ML & Ma & Mb). split; [rewrite A4; exact ML|]. split.
    - intros c cb Hc. unfold get_chan in Hc. rewrite A4 in Hc. destruct (Ma c cb Hc) as (P1 & P2 & P3). rewrite A1, A3.
      split; [exact P1|]. split; [exact P2|]. rewrite (proj1 (Hmk1 _ P2)). exact P3.
    - intros k c Hk Hm. rewrite A3 in Hk. rewrite (proj1 (Hmk1 k ltac:(lia))) in Hm. destruct (Mb k c Hk Hm) as (cb & Hc & Hs).
      exists cb. unfold get_chan. rewrite A4, A1, !Hsx1. split; [exact Hc|exact Hs]. }
  assert (Hb1 : cg (r_base r) (r_base r1 + 0)) by (unfold cg; rewrite A1, N.add_0_r; reflexivity).
  assert (Hdn1 : 0 + N.of_nat (N.to_nat delta) <= r_wsize r1) by (rewrite A3; lia).
  destruct (adv_unset_spec (N.to_nat delta) 0 (r_base r) r1 G1 M1 Hb1 Hdn1) as (G2 & M2 & B1 & B2 & B3 & B4 & B5 & B6 & B7).
  set (r2 := adv_unset (N.to_nat delta) (r_base r) r1) in *. clear Hb1.
  unfold advance_window. rewrite <- Ed. fold r1. fold r2. cbv zeta.
  match goal with |- RI ?R /\ _ => set (r' := R) end.
  clearbody r1 r2.
  replace (0 + N.of_nat (N.to_nat delta)) with delta in * by (clear; lia).
  assert (Hbase' : r_base r' = nb) by reflexivity. assert (Hw' : r_wsize r' = r_wsize r) by (cbn [r' r_wsize]; congruence).
  assert (Hsl' : r_slots r' = r_slots r2) by reflexivity. assert (Hch' : r_chans r' = r_chans r2) by reflexivity.
  assert (Hen' : r_end r' = if eoff r <? delta then nb else r_end r) by reflexivity.
  clearbody r'.
  (* slot of r' at offset k is the slot of r2 at offset delta + k of r *)
  assert (Hsx' : forall k, sidx r' k = sidx r (delta + k)).
  { intros k. unfold sidx. rewrite Hbase', Hw'. f_equal. apply (cong_W _ HW Hdiv). apply shift_arith2. exact Hnbc. }
  assert (Hso' : forall k, so r' k = get_slot r2 (sidx r (delta + k))).
  { intros k. unfold so, get_slot. rewrite Hsx', Hsl'. reflexivity. }
  (* channel bases *)
  assert (Hcb2 : forall c, rc_base (get_chan r' c) =
                           match rc_base (get_chan r c) with Some cb => if pid_sub cb (r_base r) <=? delta then None else Some cb | None => None end).
  { intros c. replace (get_chan r' c) with (get_chan r2 c) by (unfold get_chan; rewrite Hch'; reflexivity). rewrite B7. unfold get_chan at 1. rewrite A4. fold (get_chan r c). rewrite A1.
    destruct (rc_base (get_chan r c)) as [cb|] eqn:Hc; [|reflexivity].
    destruct (ri_cb r I c cb Hc) as (_ & P2 & _). destruct (N.ltb_spec 0 (pid_sub cb (r_base r))); [|lia]. reflexivity. }
  assert (Hoff' : forall c cb, rc_base (get_chan r c) = Some cb -> delta < pid_sub cb (r_base r) -> pid_sub cb nb = pid_sub cb (r_base r) - delta).
  { intros c cb Hc Hlt. destruct (ri_cb r I c cb Hc) as (P1 & P2 & P3 & _).
    apply pid_sub_spec; [exact Hnb|unfold pow20 in *; lia|].
    apply (shift_arith cb (r_base r) nb _ delta); [apply pid_sub_id; assumption|exact Hnbc|lia]. }
  assert (Hcboff : forall c, cboff r' c = cboff r c - delta).
  { intros c. unfold cboff. rewrite Hcb2, Hbase'. destruct (rc_base (get_chan r c)) as [cb|] eqn:Hc; [|reflexivity].
    destruct (N.leb_spec (pid_sub cb (r_base r)) delta) as [Hle|Hgt]; [lia|]. apply (Hoff' c cb Hc Hgt). }
  assert (Heo' : eoff r' = eoff r - delta /\ r_end r' < pow20).
  { unfold eoff at 1. rewrite Hbase', Hen'. destruct (N.ltb_spec (eoff r) delta) as [Hlt|Hge].
    - split; [rewrite (pid_sub_self nb Hnb); clear - Hlt; lia|exact Hnb].
    - split; [|exact Hend]. apply pid_sub_spec; [exact Hnb|unfold pow20 in *; lia|].
      apply (shift_arith (r_end r) (r_base r) nb (eoff r) delta); [apply pid_sub_id; assumption|exact Hnbc|exact Hge]. }
  destruct Heo' as [Heo' Hend'].
  (* slots at offsets delta + k < W are those of r, up to the marker *)
  assert (Hkeep : forall K, delta <= K -> K < r_wsize r -> same_but_marker (so r K) (get_slot r2 (sidx r K))).
  { intros K H1 H2. pose proof (B4 (sidx r K)) as S. rewrite <- Hsx1 in S at 1. fold (so r1 K) in S.
    rewrite (proj2 (Hmk1 K ltac:(lia)) H1 H2) in S. exact S. }
  assert (Hwrap : forall K, r_wsize r <= K -> K < r_wsize r + delta -> sl_dflag (get_slot r2 (sidx r K)) = false).
  { intros K H1 H2. assert (E : sidx r K = sidx r (K - r_wsize r)).
    { unfold sidx. f_equal. replace (r_base r + K) with (r_base r + (K - r_wsize r) + r_wsize r) by lia. apply mod_W_W. exact HW. }
    rewrite E. destruct (B4 (sidx r (K - r_wsize r))) as (_ & _ & S3 & _). rewrite S3. rewrite <- Hsx1. fold (so r1 (K - r_wsize r)).
    rewrite (A6 (K - r_wsize r) ltac:(lia)). destruct (_ && _); cbn [clr sl_dflag]; apply Hnf; lia. }
  split; [|split; [exact Hbase'|split; [exact Hw'|split; [exact Hcboff|split; [|exact Heo']]]]].
  2:{ intros k Hk HK. rewrite Hso'. apply Hkeep; lia. }
  constructor.
  - rewrite Hw'. auto.
  - rewrite Hw', Hsl'. destruct G2 as (_ & _ & _ & L & _). rewrite L, B3, A3. reflexivity.
  - rewrite Hch'. destruct M2 as (L & _). exact L.
  - rewrite Hbase'. exact Hnb.
  - exact Hend'.
  - rewrite Heo', Hw'. lia.
  - intros k Hk Hdf. rewrite Hw' in Hk. rewrite Hso' in Hdf |- *. rewrite Heo', Hcboff.
    destruct (N.lt_ge_cases (delta + k) (r_wsize r)) as [HK|HK].
    + destruct (Hkeep (delta + k) ltac:(lia) HK) as (S1 & S2 & S3 & S4 & _). rewrite S1, S2, S4. rewrite S3 in Hdf.
      destruct (ri_dflag r I (delta + k) HK Hdf) as (P1 & P2 & P3 & P4 & P5). repeat split; auto; lia.
    + rewrite (Hwrap (delta + k) HK ltac:(lia)) in Hdf. discriminate Hdf.
  - intros c cb Hc. rewrite Hcb2 in Hc. destruct (rc_base (get_chan r c)) as [cb0|] eqn:Hc0; [|discriminate Hc].
    destruct (N.leb_spec (pid_sub cb0 (r_base r)) delta) as [Hle|Hgt]; [discriminate Hc|]. injection Hc as <-.
    destruct (ri_cb r I c cb0 Hc0) as (P1 & P2 & P3 & P4 & P5 & P6). rewrite Hbase', (Hoff' c cb0 Hc0 Hgt), Heo'.
    remember (pid_sub cb0 (r_base r)) as o eqn:Eo. split; [exact P1|]. split; [lia|]. split; [lia|].
    rewrite !Hso'. replace (delta + (o - delta)) with o by lia. replace (delta + (o - delta - 1)) with (o - 1) by lia.
    split.
    + rewrite B6.
      * rewrite <- Hsx1. fold (so r1 o). rewrite (proj1 (Hmk1 o ltac:(lia))). exact P4.
      * intros j J1 J2 E. rewrite Hsx1 in E. apply (sidx_inj_geo r j o G) in E; lia.
    + destruct (Hkeep (o - 1) ltac:(lia) ltac:(lia)) as (S1 & _ & S3 & _). rewrite S1, S3. auto.
  - intros k c Hk Hm. rewrite Hw' in Hk. rewrite Hso' in Hm. rewrite Hbase'.
    remember (delta + k) as K eqn:EK.
    assert (Hnohit : forall j, 0 < j -> j <= delta -> sidx r1 j <> sidx r K).
    { intros j J1 J2 E. rewrite <- E, (B5 j J1 J2) in Hm. discriminate Hm. }
    rewrite (B6 _ Hnohit) in Hm.
    remember (if K <? r_wsize r then K else K - r_wsize r) as kk eqn:Ekk.
    assert (Hkk : kk < r_wsize r /\ sidx r kk = sidx r K).
    { rewrite Ekk. destruct (N.ltb_spec K (r_wsize r)); [split; [assumption|reflexivity]|]. split; [lia|].
      unfold sidx. f_equal. replace (r_base r + K) with (r_base r + (K - r_wsize r) + r_wsize r) by lia. symmetry. apply mod_W_W. exact HW. }
    destruct Hkk as [Hkk1 Hkk2]. rewrite <- Hkk2, <- Hsx1 in Hm. fold (so r1 kk) in Hm. rewrite (proj1 (Hmk1 kk ltac:(lia))) in Hm.
    destruct (ri_mk r I kk c Hkk1 Hm) as (cb & Hc & Hor). destruct (ri_cb r I c cb Hc) as (P1 & P2 & P3 & _).
    remember (pid_sub cb (r_base r)) as o eqn:Eo.
    assert (Hgt : delta < o).
    { destruct (N.lt_ge_cases delta o) as [|Hle]; [assumption|]. exfalso. apply (Hnohit o P2 Hle). rewrite Hsx1, <- Hkk2.
      destruct Hor as [->|[-> E]]; [reflexivity|]. rewrite E. unfold sidx. rewrite mod_W_W by exact HW. rewrite N.add_0_r. reflexivity. }
    exists cb. rewrite Hcb2, Hc, <- Eo. destruct (N.leb_spec o delta); [lia|]. split; [reflexivity|].
    rewrite (Hoff' c cb Hc ltac:(rewrite <- Eo; exact Hgt)), <- Eo. rewrite Ekk in Hor. rewrite EK in *.
    destruct (N.ltb_spec (delta + k) (r_wsize r)); destruct Hor as [E|[E1 E2]]; lia.
Qed.

(* ---------- the two scans ---------- *)
Lemma recv_scan_spec r : RI r -> forall n seq nbid j m,
  cg seq (r_base r + j) -> cg nbid (r_base r + m) -> nbid < pow20 -> m <= j -> j + N.of_nat n <= eoff r ->
  (forall k, m <= k -> k < j -> sl_entry (so r k) = false) ->
  exists m', recv_scan n seq nbid r < pow20 /\ cg (recv_scan n seq nbid r) (r_base r + m') /\ m <= m' /\ m' <= j + N.of_nat n /\
             forall k, m <= k -> k < m' -> sl_dflag (so r k) = false.
Proof.
  intros I. pose proof (RI_Geo r I) as G. pose proof (ri_eoff r I) as Heo.
  assert (Hne : forall k, k < r_wsize r -> sl_entry (so r k) = false -> sl_dflag (so r k) = false).
  { intros k Hk He. destruct (sl_dflag (so r k)) eqn:Hd; [|reflexivity]. destruct (ri_dflag r I k Hk Hd) as (P & _). congruence. }
  induction n as [|n IH]; intros seq nbid j m Hs Hb Hlt Hmj Hn Hrange; cbn [recv_scan].
  - exists m. split; [exact Hlt|]. split; [exact Hb|]. split; [lia|]. split; [lia|]. intros k H1 H2. lia.
  - rewrite (widx_geo r seq j G Hs). fold (so r j).
    assert (Hs' : cg (pid_add seq 1) (r_base r + (j + 1))).
    { destruct (pid_add_any seq 1 ltac:(reflexivity)) as [Ha _]. unfold cg. rewrite Ha, N.add_assoc. apply succ_arith_gen. exact Hs. }
    assert (Hlt' : pid_add seq 1 < pow20) by (apply pid_add_any; reflexivity).
    destruct (sl_entry (so r j)) eqn:He.
    + destruct (lead_ok _ _).
      * destruct (sl_dflag (so r j)) eqn:Hd.
        -- exists m. split; [exact Hlt|]. split; [exact Hb|]. split; [lia|]. split; [lia|]. intros k H1 H2. lia.
        -- destruct (IH (pid_add seq 1) (pid_add seq 1) (j + 1) (j + 1) Hs' Hs' Hlt' ltac:(lia) ltac:(lia)) as (m' & Q1 & Q2 & Q3 & Q4 & Q5).
           { intros k H1 H2. lia. }
           exists m'. split; [exact Q1|]. split; [exact Q2|]. split; [lia|]. split; [lia|].
           intros k H1 H2. destruct (N.lt_ge_cases k j) as [Hkj|Hkj]; [apply Hne; [lia|apply Hrange; lia]|].
           destruct (N.eq_dec k j) as [->|Hnj]; [exact Hd|]. apply Q5; lia.
      * exists m. split; [exact Hlt|]. split; [exact Hb|]. split; [lia|]. split; [lia|]. intros k H1 H2. lia.
    + destruct (IH (pid_add seq 1) nbid (j + 1) m Hs' Hb Hlt ltac:(lia) ltac:(lia)) as (m' & Q1 & Q2 & Q3 & Q4 & Q5).
      { intros k H1 H2. destruct (N.eq_dec k j) as [->|Hnj]; [exact He|]. apply Hrange; lia. }
      exists m'. split; [exact Q1|]. split; [exact Q2|]. split; [lia|]. split; [lia|]. exact Q5.
Qed.

Lemma resync_scan_spec r : RI r -> forall n seq j,
  cg seq (r_base r + j) -> seq < pow20 -> j + N.of_nat n <= r_wsize r ->
  exists j', resync_scan n seq r < pow20 /\ cg (resync_scan n seq r) (r_base r + j') /\ j <= j' /\ j' <= j + N.of_nat n /\
             forall k, j <= k -> k < j' -> sl_entry (so r k) = false.
Proof.
  intros I. pose proof (RI_Geo r I) as G.
  induction n as [|n IH]; intros seq j Hs Hlt Hn; cbn [resync_scan].
  - exists j. split; [exact Hlt|]. split; [exact Hs|]. split; [lia|]. split; [lia|]. intros k H1 H2. lia.
  - rewrite (widx_geo r seq j G Hs). fold (so r j). destruct (sl_entry (so r j)) eqn:He.
    + exists j. split; [exact Hlt|]. split; [exact Hs|]. split; [lia|]. split; [lia|]. intros k H1 H2. lia.
    + assert (Hs' : cg (pid_add seq 1) (r_base r + (j + 1))).
      { destruct (pid_add_any seq 1 ltac:(reflexivity)) as [Ha _]. unfold cg. rewrite Ha, N.add_assoc. apply succ_arith_gen. exact Hs. }
      destruct (IH (pid_add seq 1) (j + 1) Hs' ltac:(apply pid_add_any; reflexivity) ltac:(lia)) as (j' & Q1 & Q2 & Q3 & Q4 & Q5).
      exists j'. split; [exact Q1|]. split; [exact Q2|]. split; [lia|]. split; [lia|].
      intros k H1 H2. destruct (N.eq_dec k j) as [->|Hnj]; [exact He|]. apply Q5; lia.
Qed.

(* ---------- one delivery ---------- *)
Lemma RI_same r r' :
  r_wsize r' = r_wsize r -> r_slots r' = r_slots r -> r_chans r' = r_chans r -> r_base r' = r_base r -> r_end r' = r_end r ->
  RI r -> RI r'.
Proof.
  destruct r as [b1 e1 a1 m1 w1 s1 c1 f1 g1], r' as [b2 e2 a2 m2 w2 s2 c2 f2 g2]. cbn [r_wsize r_slots r_chans r_base r_end]. intros -> -> -> -> -> [A1 A2 A3 A4 A5 A6 A7 A8 A9].
  constructor; assumption.
Qed.

Lemma deliver_step r j seq crf' :
  RI r -> cg seq (r_base r + j) -> j < eoff r -> sl_dflag (so r j) = true ->
  (forall k, k < r_wsize r -> k <> j -> sl_dflag (so r k) = true -> sl_chan (so r k) = sl_chan (so r j) -> j < k) ->
  let s := so r j in
  let chan := sl_chan s in
  let ch := get_chan r chan in
  let s' := mkSlot (sl_asm s) (sl_entry s) false (sl_chan s) (sl_cpl s) (sl_wpl s) None (sl_marker s) in
  let r1 := mkReceiver (r_base r) (r_end r) (r_alloc r) (r_max_alloc r) (r_wsize r) (upd (r_slots r) (sidx r j) s')
                       (upd (r_chans r) (N.to_nat chan) (mkRChan (rc_base ch) (rc_count ch - 1))) crf' (r_wrf r) in
  let r2 := set_channel_base_id r1 chan (pid_add seq 1) in
  RI r2 /\ r_base r2 = r_base r /\ r_end r2 = r_end r /\ r_wsize r2 = r_wsize r /\ r_crf r2 = crf' /\
  cboff r2 chan = j + 1 /\ (forall c, c <> chan -> cboff r2 c = cboff r c) /\
  (forall k, k < r_wsize r -> sl_dflag (so r2 k) = if k =? j then false else sl_dflag (so r k)) /\
  (forall k, k < r_wsize r -> sl_chan (so r2 k) = sl_chan (so r k)).
Proof.
  intros I Hseq Hj Hd Hlow. cbv zeta.
  pose proof (RI_Geo r I) as G. destruct (ri_w r I) as (HW & H2W & Hdiv). pose proof (ri_eoff r I) as Heo.
  assert (HjW : j < r_wsize r) by lia.
  destruct (ri_dflag r I j HjW Hd) as (D1 & D2 & D3 & D4 & D5).
  remember (so r j) as s eqn:Es. remember (sl_chan s) as chan eqn:Ech.
  remember (mkSlot (sl_asm s) (sl_entry s) false chan (sl_cpl s) (sl_wpl s) None (sl_marker s)) as s' eqn:Es'.
  pose proof (sidx_lt_geo r j G) as Hi.
  assert (Hcl : (N.to_nat chan < length (r_chans r))%nat) by (rewrite (ri_chans r I); lia).
  match goal with |- context [set_channel_base_id ?R _ _] => remember R as r1 eqn:Er1 end.
  assert (R1b : r_base r1 = r_base r) by (rewrite Er1; reflexivity).
  assert (R1e : r_end r1 = r_end r) by (rewrite Er1; reflexivity).
  assert (R1w : r_wsize r1 = r_wsize r) by (rewrite Er1; reflexivity).
  assert (R1s : r_slots r1 = upd (r_slots r) (sidx r j) s') by (rewrite Er1; reflexivity).
  assert (R1c : r_chans r1 = upd (r_chans r) (N.to_nat chan) (mkRChan (rc_base (get_chan r chan)) (rc_count (get_chan r chan) - 1))) by (rewrite Er1; reflexivity).
  assert (R1f : r_crf r1 = crf') by (rewrite Er1; reflexivity).
  clear Er1.
  assert (Hsx1 : forall k, sidx r1 k = sidx r k) by (intros k; unfold sidx; rewrite R1b, R1w; reflexivity).
  assert (Hgs1 : forall i, get_slot r1 i = if Nat.eqb (sidx r j) i then s' else get_slot r i).
  { intros i. unfold get_slot. rewrite R1s. apply nth_upd_eq. exact Hi. }
  assert (Hgc1 : forall c, rc_base (get_chan r1 c) = rc_base (get_chan r c)).
  { intros c. unfold get_chan at 1. rewrite R1c, get_chan_upd by exact Hcl. destruct (N.eqb_spec chan c) as [->|_]; reflexivity. }
  assert (Hcnt1 : get_chan r1 chan = mkRChan (rc_base (get_chan r chan)) (rc_count (get_chan r chan) - 1)).
  { unfold get_chan at 1. rewrite R1c, get_chan_upd by exact Hcl. rewrite N.eqb_refl. reflexivity. }
  assert (L1s : length (r_slots r1) = length (r_slots r)) by (rewrite R1s; apply upd_length).
  assert (L1c : length (r_chans r1) = length (r_chans r)) by (rewrite R1c; apply upd_length).
  (* the id of the new channel base *)
  destruct (pid_add_any seq 1 ltac:(reflexivity)) as [Hna Hnlt]. remember (pid_add seq 1) as next eqn:En.
  assert (Hnext : cg next (r_base r + (j + 1))) by (unfold cg; rewrite Hna, N.add_assoc; apply succ_arith_gen; exact Hseq).
  assert (Hno : pid_sub next (r_base r) = j + 1).
  { apply pid_sub_spec; [exact (ri_base r I)|unfold pow20 in *; lia|exact Hnext]. }
  clear Hna.
  assert (G1 : Geo r1). { destruct G as (P1 & P2 & P3 & P4 & P5). unfold Geo. rewrite R1w, R1b, L1s. auto. }
  unfold set_channel_base_id. rewrite Hcnt1. cbn [rc_base rc_count].
  (* first the old marker (if any) is removed *)
  remember (rc_base (get_chan r chan)) as ob eqn:Eob.
  match goal with |- context [set_slots ?RA (upd (r_slots ?RA) _ (slot_set_marker _ (Some chan)))] => remember RA as ra eqn:Era end.
  assert (Hra : r_base ra = r_base r /\ r_end ra = r_end r /\ r_wsize ra = r_wsize r /\ r_chans ra = r_chans r1 /\ r_crf ra = crf' /\
                length (r_slots ra) = length (r_slots r) /\
                forall i, get_slot ra i = match ob with
                                          | Some b => if Nat.eqb (sidx r (pid_sub b (r_base r))) i then slot_set_marker (get_slot r1 i) None else get_slot r1 i
                                          | None => get_slot r1 i end).
  { rewrite Era. destruct ob as [b|].
    - cbn [set_slots r_base r_end r_wsize r_chans r_crf r_slots]. rewrite upd_length. repeat split; auto; try congruence.
      intros i. unfold get_slot at 1. cbn [set_slots r_slots]. rewrite nth_upd_eq.
      + rewrite (widx_geo r1 b (pid_sub b (r_base r)) G1) by (rewrite R1b; apply pid_sub_any; exact (ri_base r I)). rewrite Hsx1.
        destruct (Nat.eqb_spec (sidx r (pid_sub b (r_base r))) i) as [<-|_]; reflexivity.
      + unfold widx. rewrite L1s, R1w. destruct G as (_ & _ & _ & L & _). rewrite L. pose proof (N.mod_lt b (r_wsize r)). lia.
    - repeat split; auto; congruence. }
  clear Era. destruct Hra as (Ab & Ae & Aw & Ac & Af & Al & Ag).
  assert (Ga : Geo ra). { destruct G as (P1 & P2 & P3 & P4 & P5). unfold Geo. rewrite Aw, Ab, Al. auto. }
  rewrite (widx_geo ra next (j + 1) Ga) by (rewrite Ab; exact Hnext).
  assert (Hsxa : forall k, sidx ra k = sidx r k) by (intros k; unfold sidx; rewrite Ab, Aw; reflexivity). rewrite Hsxa.
  match goal with |- RI ?R /\ _ => remember R as r2 eqn:Er2 end.
  assert (R2b : r_base r2 = r_base r) by (rewrite Er2; cbn; congruence).
  assert (R2e : r_end r2 = r_end r) by (rewrite Er2; cbn; congruence).
  assert (R2w : r_wsize r2 = r_wsize r) by (rewrite Er2; cbn; congruence).
  assert (R2f : r_crf r2 = crf') by (rewrite Er2; cbn; congruence).
  assert (R2s : r_slots r2 = upd (r_slots ra) (sidx r (j + 1)) (slot_set_marker (get_slot ra (sidx r (j + 1))) (Some chan))) by (rewrite Er2; reflexivity).
  assert (R2c : r_chans r2 = upd (r_chans r1) (N.to_nat chan) (mkRChan (Some next) (rc_count (get_chan r chan) - 1))).
  { rewrite Er2. cbn [set_chans set_slots r_chans]. rewrite Ac. reflexivity. }
  clear Er2.
  assert (Hsx2 : forall k, sidx r2 k = sidx r k) by (intros k; unfold sidx; rewrite R2b, R2w; reflexivity).
  assert (Hgs2 : forall i, get_slot r2 i = if Nat.eqb (sidx r (j + 1)) i then slot_set_marker (get_slot ra i) (Some chan) else get_slot ra i).
  { intros i. unfold get_slot at 1. rewrite R2s, nth_upd_eq by (rewrite Al; apply sidx_lt_geo; exact G).
    destruct (Nat.eqb_spec (sidx r (j + 1)) i) as [<-|_]; reflexivity. }
  assert (Hgc2 : forall c, rc_base (get_chan r2 c) = if chan =? c then Some next else rc_base (get_chan r c)).
  { intros c. unfold get_chan at 1. rewrite R2c.
    assert (Hcl1 : (N.to_nat chan < length (r_chans r1))%nat) by (rewrite L1c; exact Hcl).
    replace (nth (N.to_nat c) (upd (r_chans r1) (N.to_nat chan) (mkRChan (Some next) (rc_count (get_chan r chan) - 1))) (mkRChan None 0))
      with (if chan =? c then mkRChan (Some next) (rc_count (get_chan r chan) - 1) else get_chan r1 c) by (symmetry; apply get_chan_upd; exact Hcl1).
    destruct (chan =? c); [reflexivity|apply Hgc1]. }
  (* the slot at offset k afterwards *)
  assert (Hmark : forall i, same_but_marker (get_slot r1 i) (get_slot r2 i)).
  { intros i. rewrite Hgs2, Ag. destruct ob as [b|]; repeat (match goal with |- context [Nat.eqb ?a ?b] => destruct (Nat.eqb a b) end);
      unfold same_but_marker, slot_set_marker; cbn; auto 10. }
  assert (Hflag : forall k, k < r_wsize r -> sl_dflag (so r2 k) = (if k =? j then false else sl_dflag (so r k)) /\ sl_chan (so r2 k) = sl_chan (so r k) /\
                            sl_entry (so r2 k) = sl_entry (so r k) /\ sl_asm (so r2 k) = sl_asm (so r k)).
  { intros k Hk. unfold so at 1 3 5 7. rewrite Hsx2. destruct (Hmark (sidx r k)) as (S1 & S2 & S3 & S4 & _). rewrite S1, S2, S3, S4, Hgs1.
    destruct (Nat.eqb_spec (sidx r j) (sidx r k)) as [E|Hne].
    - apply (sidx_eq_iff r j k G HjW Hk) in E. subst k. rewrite N.eqb_refl. rewrite Es'. cbn [sl_dflag sl_chan sl_entry sl_asm]. rewrite Ech, Es. auto.
    - destruct (N.eqb_spec k j) as [->|_]; [exfalso; apply Hne; reflexivity|]. fold (so r k). auto. }
  assert (Hcb2 : forall c, cboff r2 c = if chan =? c then j + 1 else cboff r c).
  { intros c. unfold cboff. rewrite Hgc2, R2b. destruct (chan =? c); [exact Hno|reflexivity]. }
  (* markers *)
  assert (Hmk2 : forall i, sl_marker (get_slot r2 i) =
                           if Nat.eqb (sidx r (j + 1)) i then Some chan
                           else match ob with
                                | Some b => if Nat.eqb (sidx r (pid_sub b (r_base r))) i then None else sl_marker (get_slot r i)
                                | None => sl_marker (get_slot r i) end).
  { intros i. rewrite Hgs2. destruct (Nat.eqb (sidx r (j + 1)) i); [reflexivity|]. rewrite Ag.
    assert (Hm1 : sl_marker (get_slot r1 i) = sl_marker (get_slot r i)).
    { rewrite Hgs1. destruct (Nat.eqb_spec (sidx r j) i) as [<-|_]; [|reflexivity]. rewrite Es'. cbn [sl_marker]. rewrite Es. reflexivity. }
    destruct ob as [b|]; [|exact Hm1]. destruct (Nat.eqb _ i); [reflexivity|exact Hm1]. }
  split; [|split; [exact R2b|split; [exact R2e|split; [exact R2w|split; [exact R2f|]]]]].
  2:{ split; [rewrite Hcb2, N.eqb_refl; reflexivity|]. split.
      - intros c Hc. rewrite Hcb2. destruct (N.eqb_spec chan c); [congruence|reflexivity].
      - split; intros k Hk; apply (Hflag k Hk). }
  (* old base of the channel, if any *)
  assert (Hob : match ob with Some b => 0 < pid_sub b (r_base r) /\ pid_sub b (r_base r) <= j /\ sl_marker (so r (pid_sub b (r_base r))) = Some chan | None => True end).
  { destruct ob as [b|]; [|exact Logic.I]. symmetry in Eob. destruct (ri_cb r I chan b Eob) as (_ & P2 & _ & P4 & _).
    split; [exact P2|]. split; [|exact P4]. unfold cboff in D5. rewrite Eob in D5. exact D5. }
  constructor.
  - rewrite R2w. auto.
  - rewrite R2w, R2s, upd_length, Al. exact (ri_len r I).
  - rewrite R2c, upd_length, L1c. exact (ri_chans r I).
  - rewrite R2b. exact (ri_base r I).
  - rewrite R2e. exact (ri_end r I).
  - unfold eoff. rewrite R2e, R2b, R2w. exact Heo.
  - intros k Hk Hdf. rewrite R2w in Hk. destruct (Hflag k Hk) as (F1 & F2 & F3 & F4). rewrite F1 in Hdf.
    destruct (N.eqb_spec k j) as [->|Hnj]; [discriminate Hdf|]. rewrite F2, F3, F4. unfold eoff. rewrite R2e, R2b. fold (eoff r).
    destruct (ri_dflag r I k Hk Hdf) as (P1 & P2 & P3 & P4 & P5). split; [exact P1|]. split; [exact P2|]. split; [exact P3|]. split; [exact P4|].
    rewrite Hcb2. destruct (N.eqb_spec chan (sl_chan (so r k))) as [E|_]; [|exact P5].
    assert (j < k) by (apply Hlow; [exact Hk|exact Hnj|exact Hdf|symmetry; exact E]). lia.
  - intros c cb Hc. rewrite Hgc2 in Hc. rewrite R2b. unfold eoff. rewrite R2e, R2b. fold (eoff r).
    destruct (N.eqb_spec chan c) as [<-|Hne].
    + injection Hc as <-. rewrite Hno. split; [exact Hnlt|]. split; [lia|]. split; [lia|].
      split; [unfold so; rewrite Hsx2, Hmk2, Nat.eqb_refl; reflexivity|]. replace (j + 1 - 1) with j by lia.
      destruct (Hflag j HjW) as (F1 & _ & _ & F4). rewrite F1, F4, N.eqb_refl, <- Es. auto.
    + destruct (ri_cb r I c cb Hc) as (P1 & P2 & P3 & P4 & P5 & P6). remember (pid_sub cb (r_base r)) as o eqn:Eo.
      split; [exact P1|]. split; [exact P2|]. split; [exact P3|].
      assert (Hoj : o <> j + 1). { intros ->. replace (j + 1 - 1) with j in P5 by lia. rewrite <- Es in P5. rewrite Hd in P5. discriminate P5. }
      split.
      * unfold so at 1. rewrite Hsx2, Hmk2. destruct (Nat.eqb_spec (sidx r (j + 1)) (sidx r o)) as [E|_].
        { exfalso. destruct (N.le_gt_cases (j + 1) o); [apply (sidx_inj_geo r _ _ G) in E; lia|symmetry in E; apply (sidx_inj_geo r _ _ G) in E; lia]. }
        destruct ob as [b|]; [|exact P4]. destruct Hob as (O1 & O2 & O3).
        destruct (Nat.eqb_spec (sidx r (pid_sub b (r_base r))) (sidx r o)) as [E|_]; [|exact P4].
        exfalso. unfold so in O3, P4. rewrite E in O3. rewrite O3 in P4. injection P4 as ->. apply Hne. reflexivity.
      * destruct (Hflag (o - 1) ltac:(lia)) as (F1 & _ & _ & F4). rewrite F1, F4.
        destruct (N.eqb_spec (o - 1) j); auto.
  - intros k c Hk Hm. rewrite R2w in Hk. rewrite R2b, R2w. unfold so in Hm. rewrite Hsx2, Hmk2 in Hm.
    destruct (Nat.eqb_spec (sidx r (j + 1)) (sidx r k)) as [E|Hn1].
    + injection Hm as <-. exists next. rewrite Hgc2, N.eqb_refl, Hno. split; [reflexivity|].
      destruct (N.eq_dec (j + 1) (r_wsize r)) as [EW|NW].
      * right. split; [|exact EW]. rewrite EW in E. unfold sidx in E. rewrite mod_W_W in E by exact HW.
        assert (E' : sidx r 0 = sidx r k) by (unfold sidx; rewrite N.add_0_r; exact E). apply (sidx_eq_iff r 0 k G HW Hk) in E'. lia.
      * left. apply (sidx_eq_iff r (j + 1) k G ltac:(lia) Hk) in E. lia.
    + assert (Hm' : sl_marker (so r k) = Some c /\ match ob with Some b => sidx r (pid_sub b (r_base r)) <> sidx r k | None => True end).
      { destruct ob as [b|]; [|split; [exact Hm|exact Logic.I]]. destruct (Nat.eqb_spec (sidx r (pid_sub b (r_base r))) (sidx r k)); [discriminate Hm|]. split; [exact Hm|assumption]. }
      destruct Hm' as [Hm' Hnb]. destruct (ri_mk r I k c Hk Hm') as (cb & Hc & Hor). exists cb. rewrite Hgc2.
      destruct (N.eqb_spec chan c) as [<-|_]; [|split; [exact Hc|exact Hor]].
      exfalso. rewrite <- Eob in Hc. rewrite Hc in Hnb. apply Hnb. destruct Hor as [->|[-> E]]; [reflexivity|].
      rewrite E. unfold sidx. rewrite mod_W_W by exact HW. rewrite N.add_0_r. reflexivity.
Qed.

(* ---------- the delivery loop, with a ghost log of (channel, 20-bit id, data) ---------- *)
Definition logent := (N * N * option (list N))%type.

Fixpoint recv_deliver_g (n : nat) (seq base_id : N) (r : receiver) (out : list (list N)) (log : list logent)
  : receiver * list (list N) * list logent :=
  match n with
  | O => (r, out, log)
  | S n' =>
      if r_crf r =? 0 then (r, out, log) else
      let i := widx r seq in
      let s := get_slot r i in
      let next := pid_add seq 1 in
      if sl_dflag s then
        let chan := sl_chan s in
        if N.testbit (r_crf r) chan then
          let ch := get_chan r chan in
          let channel_base_id := opt_default base_id (rc_base ch) in
          let channel_delta := pid_sub seq channel_base_id in
          if lead_ok (sl_cpl s) channel_delta then
            let out' := match sl_data s with Some d => out ++ [d] | None => out end in
            let s' := mkSlot (sl_asm s) (sl_entry s) false (sl_chan s) (sl_cpl s) (sl_wpl s) None (sl_marker s) in
            let cnt := rc_count ch - 1 in
            let crf' := if cnt =? 0 then N.clearbit (r_crf r) chan else r_crf r in
            let r1 := mkReceiver (r_base r) (r_end r) (r_alloc r) (r_max_alloc r) (r_wsize r)
                                 (upd (r_slots r) i s') (upd (r_chans r) (N.to_nat chan) (mkRChan (rc_base ch) cnt))
                                 crf' (r_wrf r) in
            recv_deliver_g n' next base_id (set_channel_base_id r1 chan next) out' (log ++ [(chan, seq, sl_data s)])
          else
            let r1 := mkReceiver (r_base r) (r_end r) (r_alloc r) (r_max_alloc r) (r_wsize r)
                                 (r_slots r) (r_chans r) (N.clearbit (r_crf r) chan) (r_wrf r) in
            recv_deliver_g n' next base_id r1 out log
        else recv_deliver_g n' next base_id r out log
      else recv_deliver_g n' next base_id r out log
  end.

Definition log_data (l : list logent) : list (list N) :=
  flat_map (fun e => match snd e with Some d => [d] | None => [] end) l.

Lemma log_data_app a b : log_data (a ++ b) = log_data a ++ log_data b.
Proof. unfold log_data. apply flat_map_app. Qed.

(* erasing the log gives the model's function; what is handed out is the data of the log entries *)
Lemma recv_deliver_g_erase : forall n seq b r out log,
  let '(r', out', log') := recv_deliver_g n seq b r out log in
  recv_deliver n seq b r out = (r', out') /\ exists nl, log' = log ++ nl /\ out' = out ++ log_data nl.
Proof.
  induction n as [|n IH]; intros seq b r out log; cbn [recv_deliver_g recv_deliver].
  - split; [reflexivity|]. exists []. rewrite !app_nil_r. auto.
  - destruct (r_crf r =? 0). { split; [reflexivity|]. exists []. rewrite !app_nil_r. auto. }
    destruct (sl_dflag (get_slot r (widx r seq))); [|apply IH].
    destruct (N.testbit (r_crf r) _); [|apply IH].
    destruct (lead_ok _ _); [|apply IH].
    match goal with |- context [recv_deliver_g n ?a ?b ?c ?d ?e] => specialize (IH a b c d e); destruct (recv_deliver_g n a b c d e) as [[r' out'] log'] end.
    destruct IH as (E & nl & El & Eo). split; [exact E|].
    eexists. rewrite El, <- app_assoc. split; [reflexivity|]. rewrite Eo, log_data_app. cbn [log_data flat_map snd app].
    destruct (sl_data _); cbn [app]; rewrite <- ?app_assoc, ?app_nil_r; reflexivity.
Qed.

From Coq Require Import Sorted.

Definition gd := list (N * N).     (* ghost: (channel, absolute id) of every delivery so far *)
Definition chan_ids (D : gd) (c : N) : list N := map snd (filter (fun e => fst e =? c) D).
Definition chan_sorted (D : gd) : Prop := forall c, StronglySorted N.lt (chan_ids D c).
Definition Dok (B : N) (r : receiver) (D : gd) : Prop := forall c A, In (c, A) D -> A < B + cboff r c.

Lemma sorted_snoc l x : StronglySorted N.lt l -> (forall y, In y l -> y < x) -> StronglySorted N.lt (l ++ [x]).
Proof.
  induction 1 as [|a l S IH F]; intros H; cbn [app].
  - constructor; constructor.
  - constructor.
    + apply IH. intros y Hy. apply H. right. exact Hy.
    + apply Forall_app. split; [exact F|]. constructor; [apply H; left; reflexivity|constructor].
Qed.

Lemma chan_sorted_snoc D c A : chan_sorted D -> (forall A', In (c, A') D -> A' < A) -> chan_sorted (D ++ [(c, A)]).
Proof.
  intros S H c'. unfold chan_ids. rewrite filter_app, map_app. cbn [filter fst].
  destruct (N.eqb_spec c c') as [<-|Hne]; cbn [map snd]; [|rewrite app_nil_r; apply S].
  apply sorted_snoc; [apply S|]. intros y Hy. apply in_map_iff in Hy as ((c2 & A2) & E & Hin). cbn [snd] in E. subst A2.
  apply filter_In in Hin as [Hin Hc]. cbn [fst] in Hc. apply N.eqb_eq in Hc. subst c2. apply H. exact Hin.
Qed.

Definition Skip (r : receiver) (j : N) : Prop :=
  forall k, k < j -> sl_dflag (so r k) = true -> N.testbit (r_crf r) (sl_chan (so r k)) = false.

Lemma deliver_loop B : forall n seq j r out log D,
  RI r -> cg seq (r_base r + j) -> j + N.of_nat n <= eoff r -> Skip r j -> Dok B r D -> chan_sorted D ->
  let '(r', out', log') := recv_deliver_g n seq (r_base r) r out log in
  RI r' /\ r_base r' = r_base r /\ r_end r' = r_end r /\ r_wsize r' = r_wsize r /\
  exists nl, log' = log ++ nl /\
             let D' := D ++ map (fun e => (fst (fst e), B + pid_sub (snd (fst e)) (r_base r))) nl in
             Dok B r' D' /\ chan_sorted D'.
Proof.
  induction n as [|n IH]; intros seq j r out log D I Hseq Hn Hskip HD HS; cbn [recv_deliver_g].
  - cbv beta iota zeta. split; [exact I|]. split; [reflexivity|]. split; [reflexivity|]. split; [reflexivity|]. exists []. cbn [map]. rewrite !app_nil_r. auto.
  - pose proof (RI_Geo r I) as G. pose proof (ri_eoff r I) as Heo.
    assert (Stop : RI r /\ r_base r = r_base r /\ r_end r = r_end r /\ r_wsize r = r_wsize r /\
                   exists nl, log = log ++ nl /\ let D' := D ++ map (fun e : logent => (fst (fst e), B + pid_sub (snd (fst e)) (r_base r))) nl in Dok B r D' /\ chan_sorted D').
    { split; [exact I|]. split; [reflexivity|]. split; [reflexivity|]. split; [reflexivity|]. exists []. cbv zeta. cbn [map]. rewrite !app_nil_r. auto. }
    destruct (r_crf r =? 0); [exact Stop|]. clear Stop.
    assert (HjW : j < r_wsize r) by lia.
    assert (Hseq' : cg (pid_add seq 1) (r_base r + (j + 1))).
    { destruct (pid_add_any seq 1 ltac:(reflexivity)) as [Ha _]. unfold cg. rewrite Ha, N.add_assoc. apply succ_arith_gen. exact Hseq. }
    assert (Hn' : j + 1 + N.of_nat n <= eoff r) by lia.
    rewrite (widx_geo r seq j G Hseq). fold (so r j).
    destruct (sl_dflag (so r j)) eqn:Hd.
    2:{ apply (IH (pid_add seq 1) (j + 1) r out log D I Hseq' Hn'); [|exact HD|exact HS].
        intros k Hk Hdk. destruct (N.eq_dec k j) as [->|Hne]; [congruence|]. apply Hskip; [lia|exact Hdk]. }
    destruct (N.testbit (r_crf r) (sl_chan (so r j))) eqn:Hbit.
    2:{ apply (IH (pid_add seq 1) (j + 1) r out log D I Hseq' Hn'); [|exact HD|exact HS].
        intros k Hk Hdk. destruct (N.eq_dec k j) as [->|Hne]; [exact Hbit|]. apply Hskip; [lia|exact Hdk]. }
    destruct (lead_ok _ _).
    + (* delivery *)
      remember (if rc_count (get_chan r (sl_chan (so r j))) - 1 =? 0 then N.clearbit (r_crf r) (sl_chan (so r j)) else r_crf r) as crf' eqn:Ecrf.
      assert (Hlow : forall k, k < r_wsize r -> k <> j -> sl_dflag (so r k) = true -> sl_chan (so r k) = sl_chan (so r j) -> j < k).
      { intros k Hk Hne Hdk Hck. destruct (N.lt_ge_cases k j) as [Hlt|Hge]; [|lia].
        pose proof (Hskip k Hlt Hdk) as Hb. rewrite Hck, Hbit in Hb. discriminate Hb. }
      pose proof (deliver_step r j seq crf' I Hseq ltac:(lia) Hd Hlow) as Hstep. cbv zeta in Hstep.
      match goal with |- context [recv_deliver_g n _ _ ?R2 _ _] => remember R2 as r2 eqn:Er2 end.
      destruct Hstep as (I2 & B2 & E2 & W2 & F2 & C2a & C2b & D2 & Ch2).
      assert (Hseq2 : cg (pid_add seq 1) (r_base r2 + (j + 1))) by (rewrite B2; exact Hseq').
      assert (Hn2 : j + 1 + N.of_nat n <= eoff r2) by (unfold eoff; rewrite E2, B2; exact Hn').
      destruct (ri_dflag r I j HjW Hd) as (_ & _ & _ & _ & P5).
      assert (Hps : pid_sub seq (r_base r) = j).
      { apply pid_sub_spec; [exact (ri_base r I)|destruct (ri_w r I) as (_ & Q & _); unfold pow20 in *; lia|exact Hseq]. }
      assert (Hskip2 : Skip r2 (j + 1)).
      { intros k Hk Hdk. rewrite (D2 k ltac:(lia)) in Hdk. destruct (N.eqb_spec k j) as [->|Hne]; [discriminate Hdk|].
        rewrite (Ch2 k ltac:(lia)), F2. pose proof (Hskip k ltac:(lia) Hdk) as Hb. rewrite Ecrf.
        destruct (_ =? 0); [|exact Hb]. destruct (N.eq_dec (sl_chan (so r k)) (sl_chan (so r j))) as [->|Hnc]; [apply N.clearbit_eq|].
        rewrite N.clearbit_neq by auto. exact Hb. }
      assert (HD2 : Dok B r2 (D ++ [(sl_chan (so r j), B + j)])).
      { intros c A Hin. apply in_app_or in Hin as [Hin|[E|[]]].
        - specialize (HD c A Hin). destruct (N.eq_dec c (sl_chan (so r j))) as [->|Hnc]; [rewrite C2a; lia|rewrite (C2b c Hnc); exact HD].
        - injection E as <- <-. rewrite C2a. lia. }
      assert (HS2 : chan_sorted (D ++ [(sl_chan (so r j), B + j)])).
      { apply chan_sorted_snoc; [exact HS|]. intros A' Hin. specialize (HD _ _ Hin). lia. }
      specialize (IH (pid_add seq 1) (j + 1) r2 (match sl_data (so r j) with Some d => out ++ [d] | None => out end)
                     (log ++ [(sl_chan (so r j), seq, sl_data (so r j))]) _ I2 Hseq2 Hn2 Hskip2 HD2 HS2).
      rewrite B2 in IH.
      destruct (recv_deliver_g n (pid_add seq 1) (r_base r) r2 _ _) as [[r' out'] log'].
      destruct IH as (I' & B' & E' & W' & nl & El & HD' & HS').
      split; [exact I'|]. split; [congruence|]. split; [congruence|]. split; [congruence|].
      exists ((sl_chan (so r j), seq, sl_data (so r j)) :: nl). split; [rewrite El, <- app_assoc; reflexivity|].
      cbv zeta in HD', HS' |- *. cbn [map fst snd]. rewrite Hps.
      rewrite <- app_assoc in HD', HS'. cbn [app] in HD', HS'. split; [exact HD'|exact HS'].
    + (* lead not satisfied: the channel is closed for this pass *)
      match goal with |- context [recv_deliver_g n _ _ ?R1 _ _] => remember R1 as r1 eqn:Er1 end.
      assert (I1 : RI r1) by (apply (RI_same r r1); try (rewrite Er1; reflexivity); exact I).
      assert (B1 : r_base r1 = r_base r) by (rewrite Er1; reflexivity).
      assert (Hso1 : forall k, so r1 k = so r k) by (intros k; rewrite Er1; reflexivity).
      assert (Hcb1 : forall c, cboff r1 c = cboff r c) by (intros c; rewrite Er1; reflexivity).
      assert (F1 : r_crf r1 = N.clearbit (r_crf r) (sl_chan (so r j))) by (rewrite Er1; reflexivity).
      assert (Hseq1 : cg (pid_add seq 1) (r_base r1 + (j + 1))) by (rewrite B1; exact Hseq').
      assert (Hn1 : j + 1 + N.of_nat n <= eoff r1) by (rewrite Er1; exact Hn').
      assert (Hskip1 : Skip r1 (j + 1)).
      { intros k Hk Hdk. rewrite Hso1 in Hdk |- *. rewrite F1.
        destruct (N.eq_dec (sl_chan (so r k)) (sl_chan (so r j))) as [->|Hnc]; [apply N.clearbit_eq|].
        rewrite N.clearbit_neq by auto. destruct (N.eq_dec k j) as [->|Hne]; [congruence|]. apply Hskip; [lia|exact Hdk]. }
      assert (HD1 : Dok B r1 D) by (intros c A Hin; rewrite Hcb1; apply HD; exact Hin).
      specialize (IH (pid_add seq 1) (j + 1) r1 out log D I1 Hseq1 Hn1 Hskip1 HD1 HS). rewrite B1 in IH.
      destruct (recv_deliver_g n (pid_add seq 1) (r_base r) r1 out log) as [[r' out'] log'].
      destruct IH as (I' & B' & E' & W' & nl & El & HDS).
      assert (E1 : r_end r1 = r_end r) by (rewrite Er1; reflexivity). assert (W1 : r_wsize r1 = r_wsize r) by (rewrite Er1; reflexivity).
      split; [exact I'|]. split; [congruence|]. split; [congruence|]. split; [congruence|].
      exists nl. split; [exact El|]. exact HDS.
Qed.

(* ---------- receive(), resynchronize(), datagrams: one ghost step each ---------- *)
Definition receive_g (r : receiver) : receiver * list (list N) * list logent :=
  let base_id := r_base r in
  let n := N.to_nat (pid_sub (r_end r) base_id) in
  let '(r1, out, log) := recv_deliver_g n base_id base_id r [] [] in
  if r_wrf r1 then
    let r2 := mkReceiver (r_base r1) (r_end r1) (r_alloc r1) (r_max_alloc r1) (r_wsize r1) (r_slots r1) (r_chans r1) (r_crf r1) false in
    (advance_window r2 (recv_scan n base_id base_id r2), out, log)
  else (r1, out, log).

Lemma receive_g_erase r :
  let '(r', out, log) := receive_g r in receiver_receive r = (r', out) /\ out = log_data log.
Proof.
  unfold receive_g, receiver_receive.
  pose proof (recv_deliver_g_erase (N.to_nat (pid_sub (r_end r) (r_base r))) (r_base r) (r_base r) r [] []) as H.
  destruct (recv_deliver_g _ _ _ r [] []) as [[r1 out] log]. destruct H as (E & nl & El & Eo). rewrite E.
  cbn [app] in El, Eo. subst nl. destruct (r_wrf r1); auto.
Qed.

(* the absolute id of the window base moves by the distance between the 20-bit bases *)
Definition abs_step (B : N) (r r' : receiver) : N := B + pid_sub (r_base r') (r_base r).

Lemma Dok_advance B r nb D :
  RI r -> nb < pow20 -> pid_sub nb (r_base r) <= r_wsize r -> (forall k, k < pid_sub nb (r_base r) -> sl_dflag (so r k) = false) ->
  Dok B r D -> RI (advance_window r nb) /\ Dok (B + pid_sub nb (r_base r)) (advance_window r nb) D /\ r_base (advance_window r nb) = nb.
Proof.
  intros I Hnb Hd Hnf HD. destruct (advance_window_RI r nb I Hnb Hd Hnf) as (I' & Bq & _ & Hcb & _ & _).
  split; [exact I'|]. split; [|exact Bq]. intros c A Hin. specialize (HD c A Hin). rewrite Hcb. lia.
Qed.

Lemma receive_step B r D :
  RI r -> Dok B r D -> chan_sorted D ->
  let '(r', out, log) := receive_g r in
  let D' := D ++ map (fun e => (fst (fst e), B + pid_sub (snd (fst e)) (r_base r))) log in
  RI r' /\ Dok (abs_step B r r') r' D' /\ chan_sorted D'.
Proof.
  intros I HD HS. unfold receive_g.
  pose proof (ri_base r I) as Hb. pose proof (ri_eoff r I) as Heo.
  assert (Hs0 : cg (r_base r) (r_base r + 0)) by (unfold cg; rewrite N.add_0_r; reflexivity).
  assert (Hn0 : 0 + N.of_nat (N.to_nat (pid_sub (r_end r) (r_base r))) <= eoff r) by (unfold eoff; lia).
  assert (Hsk : Skip r 0) by (intros k Hk; lia).
  pose proof (deliver_loop B (N.to_nat (pid_sub (r_end r) (r_base r))) (r_base r) 0 r [] [] D I Hs0 Hn0 Hsk HD HS) as L.
  destruct (recv_deliver_g _ _ _ r [] []) as [[r1 out] log]. destruct L as (I1 & B1 & E1 & W1 & nl & El & HD1 & HS1).
  cbn [app] in El. subst nl. cbv zeta in HD1, HS1 |- *.
  match type of HS1 with chan_sorted ?X => remember X as D1 eqn:ED1 end.
  destruct (r_wrf r1).
  - remember (mkReceiver (r_base r1) (r_end r1) (r_alloc r1) (r_max_alloc r1) (r_wsize r1) (r_slots r1) (r_chans r1) (r_crf r1) false) as r2 eqn:Er2.
    assert (I2 : RI r2) by (apply (RI_same r1 r2); try (rewrite Er2; reflexivity); exact I1).
    assert (B2 : r_base r2 = r_base r) by (rewrite Er2; exact B1).
    assert (Eo2 : eoff r2 = eoff r) by (unfold eoff; rewrite Er2; cbn [r_end r_base]; rewrite E1, B1; reflexivity).
    assert (HD2 : Dok B r2 D1).
    { intros c A Hin. specialize (HD1 c A Hin). rewrite Er2. exact HD1. }
    assert (Hs2 : cg (r_base r) (r_base r2 + 0)) by (rewrite B2; exact Hs0).
    destruct (recv_scan_spec r2 I2 (N.to_nat (pid_sub (r_end r) (r_base r))) (r_base r) (r_base r) 0 0 Hs2 Hs2 Hb ltac:(lia)) as (m' & Q1 & Q2 & Q3 & Q4 & Q5).
    { rewrite Eo2. unfold eoff. lia. }
    { intros k H1 H2. lia. }
    remember (recv_scan (N.to_nat (pid_sub (r_end r) (r_base r))) (r_base r) (r_base r) r2) as nb eqn:Enb.
    assert (Hps : pid_sub nb (r_base r2) = m').
    { apply pid_sub_spec; [rewrite B2; exact Hb|destruct (ri_w r I) as (_ & Q & _); unfold eoff in *; unfold pow20 in *; lia|exact Q2]. }
    destruct (Dok_advance B r2 nb D1 I2 Q1) as (I' & HD' & Bq); [rewrite Hps, <- W1 in *; rewrite Er2; cbn [r_wsize]; rewrite W1; unfold eoff in *; lia| |exact HD2|].
    { rewrite Hps. intros k Hk. apply Q5; lia. }
    subst D1. split; [exact I'|]. split; [|exact HS1]. unfold abs_step. rewrite Bq. rewrite B2 in HD'. exact HD'.
  - subst D1. split; [exact I1|]. split; [|exact HS1]. unfold abs_step. rewrite B1, (pid_sub_self _ Hb), N.add_0_r. exact HD1.
Qed.

Lemma resync_step B r id D :
  RI r -> Dok B r D ->
  let r' := receiver_resynchronize r id in RI r' /\ Dok (abs_step B r r') r' D.
Proof.
  intros I HD. cbv zeta. unfold receiver_resynchronize. pose proof (ri_base r I) as Hb.
  assert (Same : RI r /\ Dok (abs_step B r r) r D).
  { split; [exact I|]. unfold abs_step. rewrite (pid_sub_self _ Hb), N.add_0_r. exact HD. }
  destruct (pid_valid id) eqn:Hv; cbn [negb]; [|exact Same].
  destruct (N.ltb_spec (r_wsize r) (pid_sub id (r_base r))) as [_|Hle]; [exact Same|].
  assert (Hs0 : cg (r_base r) (r_base r + 0)) by (unfold cg; rewrite N.add_0_r; reflexivity).
  destruct (resync_scan_spec r I (N.to_nat (pid_sub id (r_base r))) (r_base r) 0 Hs0 Hb ltac:(lia)) as (j' & Q1 & Q2 & Q3 & Q4 & Q5).
  remember (resync_scan (N.to_nat (pid_sub id (r_base r))) (r_base r) r) as nb eqn:Enb.
  assert (Hps : pid_sub nb (r_base r) = j').
  { apply pid_sub_spec; [exact Hb|destruct (ri_w r I) as (_ & Q & _); unfold pow20 in *; lia|exact Q2]. }
  destruct (Dok_advance B r nb D I Q1) as (I' & HD' & Bq); [rewrite Hps; lia| |exact HD|].
  { rewrite Hps. intros k Hk. destruct (sl_dflag (so r k)) eqn:Hd; [|reflexivity].
    destruct (ri_dflag r I k ltac:(lia) Hd) as (P & _). rewrite (Q5 k ltac:(lia) Hk) in P. discriminate P. }
  split; [exact I'|]. unfold abs_step. rewrite Bq. exact HD'.
Qed.

Lemma handle_datagram_cboff r dg c : RI r -> cboff (receiver_handle_datagram r dg) c = cboff r c /\ r_base (receiver_handle_datagram r dg) = r_base r.
Proof.
  intros I. unfold receiver_handle_datagram.
  destruct (datagram_is_valid dg) eqn:Hv; cbn [negb]; [|auto].
  destruct (_ <=? _); [auto|]. destruct (_ <? _); [auto|].
  destruct (asm_try_add _ _ _ dg) as [[asm' alloc'] [p|]]; [|auto].
  split; [|reflexivity]. unfold cboff. cbn [r_base]. unfold get_chan at 1. cbn [r_chans].
  rewrite get_chan_upd by (rewrite (ri_chans r I); pose proof (valid_chan dg Hv); lia).
  destruct (N.eqb_spec (dg_chan dg) c) as [->|_]; reflexivity.
Qed.

(* ---------- the initial state ---------- *)
Lemma repeatN_len {A} (x : A) n : length (repeatN x n) = n.
Proof. induction n; cbn [repeatN length]; auto. Qed.

Lemma receiver_new_RI w b m : 0 < w -> 2 * w <= pow20 -> pow20 mod w = 0 -> b < pow20 -> RI (receiver_new w b m).
Proof.
  intros Hw H2 Hd Hb.
  assert (Hso : forall k, so (receiver_new w b m) k = slot_init).
  { intros k. unfold so, get_slot, receiver_new. cbn [r_slots]. rewrite repeatN_nth. destruct (Nat.ltb _ _); reflexivity. }
  assert (Hch : forall c, get_chan (receiver_new w b m) c = mkRChan None 0).
  { intros c. unfold get_chan, receiver_new. cbn [r_chans]. rewrite repeatN_nth. destruct (Nat.ltb _ _); reflexivity. }
  constructor.
  - cbn. auto.
  - cbn [receiver_new r_slots r_wsize]. apply repeatN_len.
  - cbn [receiver_new r_chans]. apply repeatN_len.
  - exact Hb.
  - exact Hb.
  - unfold eoff. cbn [receiver_new r_end r_base r_wsize]. rewrite (pid_sub_self b Hb). lia.
  - intros k Hk Hdf. rewrite Hso in Hdf. discriminate Hdf.
  - intros c cb Hc. rewrite Hch in Hc. discriminate Hc.
  - intros k c Hk Hm. rewrite Hso in Hm. discriminate Hm.
Qed.

(* ---------- whole histories ---------- *)
Record gstate := mkG { g_r : receiver; g_B : N; g_D : gd; g_out : list (list N) }.

Definition gstep (g : gstate) (o : receiver_op) : gstate :=
  match o with
  | RDatagram dg => mkG (receiver_handle_datagram (g_r g) dg) (g_B g) (g_D g) (g_out g)
  | RReceive =>
      let '(r', out, log) := receive_g (g_r g) in
      mkG r' (abs_step (g_B g) (g_r g) r')
          (g_D g ++ map (fun e => (fst (fst e), g_B g + pid_sub (snd (fst e)) (r_base (g_r g)))) log) (g_out g ++ out)
  | RResync id => mkG (receiver_resynchronize (g_r g) id) (abs_step (g_B g) (g_r g) (receiver_resynchronize (g_r g) id)) (g_D g) (g_out g)
  end.

Definition GI (g : gstate) : Prop := RI (g_r g) /\ Dok (g_B g) (g_r g) (g_D g) /\ chan_sorted (g_D g).

Lemma gstep_GI g o : GI g -> GI (gstep g o).
Proof.
  intros (I & HD & HS). destruct o as [dg| |id]; cbn [gstep].
  - split; [apply handle_datagram_RI; exact I|]. split; [|exact HS]. cbn [g_r g_B g_D].
    intros c A Hin. rewrite (proj1 (handle_datagram_cboff (g_r g) dg c I)). apply HD. exact Hin.
  - pose proof (receive_step (g_B g) (g_r g) (g_D g) I HD HS) as H. destruct (receive_g (g_r g)) as [[r' out] log].
    cbv zeta in H. destruct H as (I' & HD' & HS'). split; [exact I'|]. split; [exact HD'|exact HS'].
  - destruct (resync_step (g_B g) (g_r g) id (g_D g) I HD) as (I' & HD'). split; [exact I'|]. split; [exact HD'|exact HS].
Qed.

(* the ghost run is the model's run: same receiver state, and what receive() hands out *)
Lemma gstep_erase g o : g_r (gstep g o) = receiver_step (g_r g) o.
Proof.
  destruct o as [dg| |id]; cbn [gstep receiver_step]; try reflexivity.
  pose proof (receive_g_erase (g_r g)) as H. destruct (receive_g (g_r g)) as [[r' out] log]. destruct H as (E & _). rewrite E. reflexivity.
Qed.

Definition g_init (w b m : N) : gstate := mkG (receiver_new w b m) b [] [].

Theorem receiver_delivery_order w b m ops :
  0 < w -> 2 * w <= pow20 -> pow20 mod w = 0 -> b < pow20 ->
  let g := fold_left gstep ops (g_init w b m) in
  chan_sorted (g_D g) /\ g_r g = fold_left receiver_step ops (receiver_new w b m).
Proof.
  intros Hw H2 Hd Hb. cbv zeta.
  assert (G0 : GI (g_init w b m)).
  { split; [apply receiver_new_RI; assumption|]. split; [intros c A []|intros c; constructor]. }
  assert (H : forall g, GI g -> GI (fold_left gstep ops g) /\ g_r (fold_left gstep ops g) = fold_left receiver_step ops (g_r g)).
  { induction ops as [|o t IH]; intros g Hg; cbn [fold_left]; [auto|].
    destruct (IH (gstep g o) (gstep_GI g o Hg)) as (A1 & A2). split; [exact A1|]. rewrite A2, gstep_erase. reflexivity. }
  destruct (H _ G0) as ((_ & _ & S) & E). split; [exact S|exact E].
Qed.

(* ---------- the same run with the data attached: what the application receives is exactly the data of the log ---------- *)
Definition absent (B : N) (r : receiver) (e : logent) : logent := (fst (fst e), B + pid_sub (snd (fst e)) (r_base r), snd e).

Fixpoint run_log (ops : list receiver_op) (g : gstate) (L : list logent) : list logent :=
  match ops with
  | [] => L
  | o :: t =>
      match o with
      | RReceive => let '(_, _, log) := receive_g (g_r g) in run_log t (gstep g o) (L ++ map (absent (g_B g) (g_r g)) log)
      | _ => run_log t (gstep g o) L
      end
  end.

Definition log_ids (L : list logent) : gd := map (fun e => (fst (fst e), snd (fst e))) L.

Lemma log_data_map B r log : log_data (map (absent B r) log) = log_data log.
Proof. unfold log_data. induction log as [|e t IH]; cbn [map flat_map]; [reflexivity|]. rewrite IH. reflexivity. Qed.

Lemma run_log_spec : forall ops g L,
  g_D g = log_ids L -> g_out g = log_data L ->
  g_D (fold_left gstep ops g) = log_ids (run_log ops g L) /\ g_out (fold_left gstep ops g) = log_data (run_log ops g L).
Proof.
  induction ops as [|o t IH]; intros g L HD HO; cbn [fold_left run_log]; [auto|].
  destruct o as [dg| |id].
  - apply IH; cbn [gstep g_D g_out]; assumption.
  - pose proof (receive_g_erase (g_r g)) as Her. cbn [gstep]. destruct (receive_g (g_r g)) as [[r' out] log] eqn:Erg.
    destruct Her as (_ & Eo). apply IH; cbn [g_D g_out].
    + rewrite HD. unfold log_ids. rewrite map_app, map_map. reflexivity.
    + rewrite HO, log_data_app, log_data_map, Eo. reflexivity.
  - apply IH; cbn [gstep g_D g_out]; assumption.
Qed.

(* the packets handed to the application over a whole history, in order *)
Fixpoint handed_out (ops : list receiver_op) (r : receiver) : list (list N) :=
  match ops with
  | [] => []
  | o :: t => (match o with RReceive => snd (receiver_receive r) | _ => [] end) ++ handed_out t (receiver_step r o)
  end.

Lemma g_out_handed : forall ops g, g_out (fold_left gstep ops g) = g_out g ++ handed_out ops (g_r g).
Proof.
  induction ops as [|o t IH]; intros g; cbn [fold_left handed_out]; [rewrite app_nil_r; reflexivity|].
  rewrite IH, gstep_erase. destruct o as [dg| |id]; cbn [gstep g_out app]; try reflexivity.
  pose proof (receive_g_erase (g_r g)) as Her. destruct (receive_g (g_r g)) as [[r' out] log]. destruct Her as (E & _).
  cbn [g_out]. rewrite E. cbn [snd]. rewrite app_assoc. reflexivity.
Qed.

Theorem receiver_delivery_log w b m ops :
  0 < w -> 2 * w <= pow20 -> pow20 mod w = 0 -> b < pow20 ->
  exists L : list logent,
    handed_out ops (receiver_new w b m) = log_data L /\ chan_sorted (log_ids L).
Proof.
  intros Hw H2 Hd Hb. exists (run_log ops (g_init w b m) []).
  destruct (run_log_spec ops (g_init w b m) [] eq_refl eq_refl) as (ED & EO).
  destruct (receiver_delivery_order w b m ops Hw H2 Hd Hb) as (S & _). cbv zeta in S.
  split; [|rewrite <- ED; exact S]. rewrite <- EO, g_out_handed. reflexivity.
Qed.
