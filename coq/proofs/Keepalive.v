(* Keepalive.v — C10, keepalive clause, the per-endpoint components: (1) with keepalive enabled an idle endpoint emits
   a sync frame as soon as the keepalive interval (and the sync timeout) has passed since its last frame, credit
   permitting; (2) handling a sync frame always arms the reply flag; (3) a flush with the reply flag set and
   non-negative credit emits at least one ack frame — even when there is nothing to acknowledge. With the
   deadline theorems (every sync / ack frame handled moves the receiver's deadline a full active_timeout ahead) these
   are the steps of the keepalive exchange; that the exchange keeps two endpoints alive over a network is observed. *)
From Coq Require Import ZArith Lia ZifyBool ZifyN ZifyNat.
From UF Require Import Consts Base Frame Codec F64 Feedback Sender Receiver FrameAck Heap FrameQueue SendRate HalfConn BaseLemmas.
Local Open Scope N_scope.

Theorem keepalive_due h out k :
  h_keepalive h = Some k -> N.max (h_rto h) MIN_SYNC_TIMEOUT_MS <= h_now h - h_sync_base h -> k <= h_now h - h_sync_base h ->
  (0 <= h_credit h)%Z ->
  exists bytes, emit_sync_frame h out =
    (set_sync_base (set_credit h (h_credit h - Z.of_N (len bytes))%Z) (h_now h), out ++ [bytes], true) /\
    exists nf np, bytes = write_sync nf np.
Proof.
  intros Hk Ht Hi Hc. unfold emit_sync_frame.
  destruct (N.leb_spec (N.max (h_rto h) MIN_SYNC_TIMEOUT_MS) (h_now h - h_sync_base h)); [|lia].
  set (nf := if negb (fq_next (h_fq h) =? fq_wbase (h_fq h)) then Some (fq_next (h_fq h)) else None).
  set (np := if negb (s_next (h_snd h) =? s_base (h_snd h)) && (len (h_rq h) =? 0) && (len (h_pq h) =? 0)
             then Some (s_next (h_snd h)) else None).
  assert (Hs : (if match nf, np with None, None => true | _, _ => false end
                then match h_keepalive h with Some k0 => h_now h - h_sync_base h <? k0 | None => true end else false) = false).
  { rewrite Hk. destruct nf, np; try reflexivity. apply N.ltb_ge. exact Hi. }
  rewrite Hs. destruct (Z.ltb_spec (h_credit h) 0); [lia|].
  eexists. split; [reflexivity|]. exists nf, np. reflexivity.
Qed.

Theorem sync_arms_reply h nf np : h_sync_reply (hc_handle_sync_frame h nf np) = true.
Proof. unfold hc_handle_sync_frame. destruct nf, np; reflexivity. Qed.

(* the ack emitter: frames are only appended; once a frame is under construction it is emitted or still there *)
Definition AP (n0 : nat) (a : ack_state) : Prop :=
  (n0 <= length (as_out a))%nat /\ (as_ip a <> None \/ (n0 < length (as_out a))%nat).

Lemma afe_finalize_AP n0 a : AP n0 a -> (n0 < length (as_out (afe_finalize a)))%nat /\ as_ip (afe_finalize a) = None.
Proof.
  intros [H1 H2]. unfold afe_finalize. destruct (as_ip a) as [f|] eqn:E.
  - cbn [as_out as_ip]. rewrite app_length. cbn [length]. split; [lia|reflexivity].
  - destruct H2 as [H2|H2]; [congruence|]. split; [exact H2|exact E].
Qed.

Lemma afe_push_AP n0 a g : AP n0 a -> AP n0 (fst (afe_push a g)).
Proof.
  intros H. pose proof H as [H1 H2]. unfold afe_push. destruct (as_ip a) as [f|] eqn:E.
  - destruct (_ <? _)%Z; cbn [fst].
    + destruct (afe_finalize_AP _ _ H) as [A B]. split; [lia|right; exact A].
    + destruct (_ <? _).
      * destruct (afe_finalize_AP _ _ H) as [A B]. set (af := afe_finalize a) in *. clearbody af. unfold afe_push_new. destruct (_ <? _)%Z; unfold AP; cbn [fst as_out as_ip]; (split; [lia|]).
        -- right. exact A.
        -- left. discriminate.
      * unfold AP. cbn [as_out as_ip]. split; [exact H1|left; discriminate].
  - unfold afe_push_new. destruct (_ <? _)%Z; cbn [fst]; [exact H|]. unfold AP. cbn [as_out as_ip]. split; [exact H1|left; discriminate].
Qed.

Lemma ack_loop_AP n0 : forall fuel a a' ok, ack_loop fuel a = Ok (a', ok) -> AP n0 a -> AP n0 a'.
Proof.
  induction fuel as [|f IH]; intros a a' ok E H; cbn [ack_loop] in E; [discriminate|].
  destruct (faq_peek _) as [g|]; [|inversion E; subst; exact H].
  pose proof (afe_push_AP n0 a g H) as H1. destruct (afe_push a g) as [a1 ok1]. cbn [fst] in H1.
  destruct ok1; [|inversion E; subst; exact H1]. eapply IH; [exact E|]. exact H1.
Qed.

Theorem reply_emits_ack h out h' out' ok :
  emit_ack_frames h out = Ok (h', out', ok) -> h_sync_reply h = true -> (0 <= h_credit h)%Z ->
  (length out < length out')%nat.
Proof.
  unfold emit_ack_frames. intros E Hr Hc. rewrite Hr in E. unfold afe_push_dud in E. cbn [as_ip as_h] in E.
  destruct (Z.ltb_spec (h_credit h) 0); [lia|]. cbn [negb] in E.
  match type of E with (do r <- ack_loop ?F ?A1; _) = _ => destruct (ack_loop F A1) as [[a2 ok2]| |] eqn:El; cbn [bind] in E; try discriminate;
    assert (H1 : AP (length out) A1) by (split; cbn [as_out as_ip]; [lia|left; discriminate]) end.
  pose proof (ack_loop_AP _ _ _ _ _ El H1) as H2.
  destruct ok2.
  - inversion E; subst. exact (proj1 (afe_finalize_AP _ _ H2)).
  - inversion E; subst. destruct H2 as [A [B|B]]; [|exact B].
    (* a refusal leaves no frame under construction *)
    exfalso. clear E. revert El B. generalize (S (length (fa_entries (h_faq h)))).
    intros fuel. match goal with |- ack_loop fuel ?A1 = _ -> _ => generalize A1 end. clear.
    induction fuel as [|f IH]; intros a E B; cbn [ack_loop] in E; [discriminate|].
    destruct (faq_peek _) as [g|]; [|inversion E].
    destruct (afe_push a g) as [a1 ok1] eqn:Ep. destruct ok1; [eapply IH; [exact E|exact B]|].
    inversion E; subst. apply B. clear E B. unfold afe_push in Ep. destruct (as_ip a) as [f0|] eqn:Ei.
    + destruct (_ <? _)%Z; [inversion Ep; unfold afe_finalize; rewrite Ei; reflexivity|].
      destruct (_ <? _); [|inversion Ep]. unfold afe_push_new in Ep.
      destruct (_ <? _)%Z; inversion Ep. unfold afe_finalize. rewrite Ei. reflexivity.
    + unfold afe_push_new in Ep. destruct (_ <? _)%Z; inversion Ep; subst. exact Ei.
Qed.
