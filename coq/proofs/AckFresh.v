(* AckFresh.v — C15: what one acknowledgement group contributes to the feedback (round-trip sample, acknowledged bytes)
   comes from the frames it acknowledges for the first time, and from nothing else: the send time recorded for the
   sample is the latest send time among the frames that are named by the group AND were not acknowledged before, the
   byte count is the sum of their sizes; frames the group names again contribute nothing. *)
From Coq Require Import ZArith Lia ZifyBool ZifyN ZifyNat.
From UF Require Import Consts Base Frame F64 Feedback Sender FrameQueue BaseLemmas SenderProofs AckProofs ReorderProofs FrameQueueProofs.
Local Open Scope N_scope.

(* the frame named by bit j, if the group acknowledges it for the first time (looked up in the queue q) *)
Definition fresh_at (q : frame_queue) (base bits j : N) : option log_entry :=
  match fq_get_frame q (add32 base j) with
  | Some f => if N.testbit bits j && negb (le_acked f) then Some f else None
  | None => None
  end.

Fixpoint fresh_list (q : frame_queue) (base bits i : N) (n : nat) : list log_entry :=
  match n with
  | O => []
  | S n' => match fresh_at q base bits i with Some f => [f] | None => [] end ++ fresh_list q base bits (i + 1) n'
  end.

Definition max_time (l : list log_entry) : N := fold_right (fun f m => N.max (le_time f) m) 0 l.
Definition sum_size (l : list log_entry) : N := fold_right (fun f m => le_size f + m) 0 l.

Lemma add32_inj_small base i j : i < pow32 -> j < pow32 -> add32 base i = add32 base j -> base < pow32 -> i = j.
Proof. unfold add32. unfold_pows. intros. lia. Qed.

(* a queue that differs from q only in the frame at one id, and elsewhere has the same log *)
Lemma get_frame_upd_other q id x f' :
  fq_lbase q < pow32 -> id < pow32 -> x < pow32 -> x <> id ->
  fq_get_frame (fq_set_frames q (upd (fq_frames q) (N.to_nat (sub32 id (fq_lbase q))) f')) x = fq_get_frame q x.
Proof.
  intros HL Hid Hx Hne. unfold fq_get_frame, fq_set_frames. cbn [fq_frames fq_lbase]. apply nth_opt_upd_other.
  intros E. apply Hne. symmetry. apply (off_inj (fq_lbase q)); try assumption; unfold off; try exact E; symmetry; exact E.
Qed.

Lemma fresh_list_ext q q' base bits : forall n i,
  (forall j, i <= j -> j < i + N.of_nat n -> fq_get_frame q' (add32 base j) = fq_get_frame q (add32 base j)) ->
  fresh_list q' base bits i n = fresh_list q base bits i n.
Proof.
  induction n as [|n IH]; intros i H; cbn [fresh_list]; [reflexivity|].
  unfold fresh_at. rewrite (H i) by lia. f_equal. apply IH. intros j H1 H2. apply H; lia.
Qed.

Theorem ack_apply_fresh base bits rtt : forall n i q s a q' s' a',
  FqInv q -> base < pow32 -> i + N.of_nat n <= 32 ->
  ack_apply q s base bits i n rtt a = Ok (q', s', a') ->
  aa_last a' = N.max (aa_last a) (max_time (fresh_list q base bits i n)) /\
  aa_total a' = aa_total a + sum_size (fresh_list q base bits i n) /\
  aa_new a' = aa_new a || negb (len (fresh_list q base bits i n) =? 0).
Proof.
  induction n as [|n IH]; intros i q s a q' s' a' I Hb Hn E; cbn [ack_apply] in E.
  - inversion E; subst. cbn [fresh_list max_time sum_size fold_right]. unfold len. cbn. rewrite orb_false_r. repeat split; lia.
  - destruct (fq_get_frame q (add32 base i)) as [f|] eqn:Hf; [|discriminate].
    cbn [fresh_list]. unfold fresh_at at 1 2 3. rewrite Hf.
    destruct (N.testbit bits i && negb (le_acked f)) eqn:Eb.
    + pose proof Eb as Eb'. apply andb_prop in Eb' as [_ Eb']. apply negb_true_iff in Eb'.
      assert (Hid : add32 base i < pow32) by (unfold add32; unfold_pows; lia).
      set (f' := mkLogEntry (le_size f) (le_time f) [] (le_nonce f) (le_rate_limited f) true) in *.
      destruct (mark_acked_core q (add32 base i) f f' (proj1 I) Hid Hf Eb' eq_refl) as (C1 & S1 & G1 & N1).
      set (q1 := fq_set_frames q _) in *.
      destruct (fq_notify_ack_inv q1 (add32 base i) rtt f' C1 Hid G1 eq_refl N1) as (q2 & E2 & C2 & S2 & F2).
      rewrite E2 in E. cbn [bind] in E.
      pose proof (same_shape_trans _ _ _ S1 S2) as S12.
      assert (HL : fq_lbase q < pow32) by (destruct (proj1 I); assumption).
      assert (Hext : forall j, i + 1 <= j -> j < i + 1 + N.of_nat n -> fq_get_frame q2 (add32 base j) = fq_get_frame q (add32 base j)).
      { intros j H1 H2. unfold fq_get_frame at 1. rewrite F2. destruct S2 as (_ & L2 & _). rewrite L2.
        change (nth_opt (fq_frames q1) (sub32 (add32 base j) (fq_lbase q1))) with (fq_get_frame q1 (add32 base j)).
        apply get_frame_upd_other; try assumption; [unfold add32; unfold_pows; lia|].
        intros Ej. apply add32_inj_small in Ej; try assumption; unfold_pows; lia. }
      destruct (IH (i + 1) q2 _ _ _ _ _ (FqInv_tail_shape _ _ S12 C2 I) Hb ltac:(lia) E) as (A1 & A2 & A3).
      rewrite (fresh_list_ext q q2 base bits n (i + 1) Hext) in A1, A2, A3.
      cbn [aa_last aa_total aa_new app max_time sum_size fold_right] in *.
      fold (max_time (fresh_list q base bits (i + 1) n)). fold (sum_size (fresh_list q base bits (i + 1) n)).
      rewrite A1, A2, A3. unfold len. cbn [length]. split; [lia|]. split; [lia|].
      rewrite orb_true_r. reflexivity.
    + cbn [app]. destruct (IH (i + 1) q _ _ _ _ _ I Hb ltac:(lia) E) as (A1 & A2 & A3).
      cbn [aa_last aa_total aa_new] in *. repeat split; assumption.
Qed.

(* the second pass leaves the pending feedback data alone *)
Lemma ack_apply_ack_data base bits rtt : forall n i q s a q' s' a',
  ack_apply q s base bits i n rtt a = Ok (q', s', a') -> fq_ack_data q' = fq_ack_data q.
Proof.
  induction n as [|n IH]; intros i q s a q' s' a' E; cbn [ack_apply] in E; [inversion E; reflexivity|].
  destruct (fq_get_frame q (add32 base i)) as [f|]; [|discriminate].
  destruct (N.testbit bits i && negb (le_acked f)); [|eapply IH; exact E].
  match type of E with (do q2 <- fq_notify_ack ?Q1 ?ID rtt; _) = _ =>
    destruct (fq_notify_ack Q1 ID rtt) as [q2| |] eqn:E2; cbn [bind] in E; try discriminate;
    assert (A2 : fq_ack_data q2 = fq_ack_data q) end.
  { unfold fq_notify_ack in E2. destruct (rb_can_put _ _); [|inversion E2; reflexivity].
    destruct (rb_put _ _) as [rb' ev]. destruct (apply_rb_events _ _ _ _) as [li'| |]; cbn [bind] in E2; try discriminate.
    inversion E2; reflexivity. }
  rewrite <- A2. eapply IH; exact E.
Qed.

Lemma bitfield_size_le bits : bits < pow32 -> bitfield_size bits <= 32.
Proof.
  unfold bitfield_size. destruct (N.eqb_spec bits 0) as [|Hne]; [lia|]. intros Hb.
  assert (N.log2 bits < 32); [|lia]. apply N.log2_lt_pow2; [lia|]. unfold_pows. exact Hb.
Qed.

Definition merge_ack_data (old : option ack_data) (ad : ack_data) : ack_data :=
  match old with
  | Some o => mkAckData (N.max (ad_last_send o) (ad_last_send ad)) (ad_total o + ad_total ad) (ad_rate_limited o || ad_rate_limited ad)
  | None => ad
  end.

(* one acknowledgement group: either the pending feedback data is unchanged, or the group acknowledged at least one
   frame for the first time and what it adds is the latest send time and the total size of exactly those frames *)
Theorem ack_group_feedback q s ack rtt q' s' :
  FqInv q -> ag_base ack < pow32 -> ag_bits ack < pow32 ->
  fq_acknowledge_group q s ack rtt = Ok (q', s') ->
  let fr := fresh_list q (ag_base ack) (ag_bits ack) 0 (N.to_nat (bitfield_size (ag_bits ack))) in
  fq_ack_data q' = fq_ack_data q \/
  (fr <> [] /\ exists rl, fq_ack_data q' = Some (merge_ack_data (fq_ack_data q) (mkAckData (max_time fr) (sum_size fr) rl))).
Proof.
  intros I Hb Hbits E fr. unfold fq_acknowledge_group in E.
  destruct (bitfield_size (ag_bits ack) =? 0); [inversion E; left; reflexivity|].
  destruct (ack_check _ _ _ _ _ _) as [tn|]; [|inversion E; left; reflexivity].
  destruct (negb (Bool.eqb (ag_nonce ack) tn)); [inversion E; left; reflexivity|].
  destruct (ack_apply q s (ag_base ack) (ag_bits ack) 0 (N.to_nat (bitfield_size (ag_bits ack))) rtt (mkAckAcc 0 0 false false))
    as [[[q1 s1] a]| |] eqn:Ea; cbn [bind] in E; try discriminate.
  pose proof (bitfield_size_le _ Hbits) as Hsz.
  assert (Hn : 0 + N.of_nat (N.to_nat (bitfield_size (ag_bits ack))) <= 32) by lia.
  destruct (ack_apply_fresh _ _ _ _ _ _ _ _ _ _ _ I Hb Hn Ea) as (A1 & A2 & A3). fold fr in A1, A2, A3.
  cbn [aa_last aa_total aa_new orb] in A1, A2, A3.
  pose proof (ack_apply_ack_data _ _ _ _ _ _ _ _ _ _ _ Ea) as Ad.
  destruct (aa_new a) eqn:En.
  - inversion E; subst. right. split.
    + intros Ef. rewrite Ef in A3. unfold len in A3. cbn in A3. discriminate A3.
    + exists (aa_rl a). unfold fq_put_ack_data, merge_ack_data. cbn [fq_ack_data]. rewrite Ad, A1, A2.
      replace (N.max 0 (max_time fr)) with (max_time fr) by lia. replace (0 + sum_size fr) with (sum_size fr) by lia. reflexivity.
  - inversion E; subst. left. exact Ad.
Qed.
