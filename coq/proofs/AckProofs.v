(* AckProofs.v — FrameQueue::acknowledge_group only acts on genuine, fresh acknowledgements (C15). *)
From Coq Require Import ZArith Lia ZifyBool ZifyN ZifyNat.
From UF Require Import Consts Base Frame F64 Feedback Sender FrameQueue BaseLemmas.

(* what the first pass computes: every id of the span is in the frame log, and the xor of the logged
   nonces of the claimed ids *)
Fixpoint span_logged (q : frame_queue) (base i : N) (n : nat) : Prop :=
  match n with
  | O => True
  | S n' => (exists f, fq_get_frame q (add32 base i) = Some f) /\ span_logged q base (i + 1) n'
  end.

Lemma ack_check_some q base bits : forall n i acc r,
  ack_check q base bits i n acc = Some r -> span_logged q base i n.
Proof.
  induction n as [|n IH]; intros i acc r H; cbn [ack_check span_logged] in *; [exact I|].
  destruct (fq_get_frame q (add32 base i)) as [f|] eqn:E; [|discriminate].
  split; [eauto|]. eapply IH. exact H.
Qed.

Lemma ack_check_none q base bits : forall n i acc,
  ack_check q base bits i n acc = None -> ~ span_logged q base i n.
Proof.
  induction n as [|n IH]; intros i acc H; cbn [ack_check span_logged] in *; [discriminate|].
  destruct (fq_get_frame q (add32 base i)) as [f|] eqn:E.
  - intros [_ Hs]. eapply IH; eassumption.
  - intros [[f Hf] _]. congruence.
Qed.

(* 1. an ack group naming a frame that is not in the log has no effect at all *)
Theorem ack_unknown_frame_identity q s ack rtt :
  ~ span_logged q (ag_base ack) 0 (N.to_nat (bitfield_size (ag_bits ack))) ->
  fq_acknowledge_group q s ack rtt = Ok (q, s).
Proof.
  intros H. unfold fq_acknowledge_group.
  destruct (bitfield_size (ag_bits ack) =? 0); [reflexivity|].
  destruct (ack_check q (ag_base ack) (ag_bits ack) 0 (N.to_nat (bitfield_size (ag_bits ack))) false) as [tn|] eqn:E; [|reflexivity].
  exfalso. apply H. eapply ack_check_some. exact E.
Qed.

(* 2. an ack group whose nonce differs from the parity of the logged nonces has no effect at all *)
Theorem ack_wrong_nonce_identity q s ack rtt tn :
  ack_check q (ag_base ack) (ag_bits ack) 0 (N.to_nat (bitfield_size (ag_bits ack))) false = Some tn ->
  ag_nonce ack <> tn ->
  fq_acknowledge_group q s ack rtt = Ok (q, s).
Proof.
  intros E Hn. unfold fq_acknowledge_group.
  destruct (bitfield_size (ag_bits ack) =? 0); [reflexivity|]. rewrite E.
  destruct (Bool.eqb (ag_nonce ack) tn) eqn:Eb; [apply Bool.eqb_prop in Eb; contradiction|]. reflexivity.
Qed.

(* 3. a repeated copy: every claimed frame already marked acknowledged *)
Fixpoint all_claimed_acked (q : frame_queue) (base bits i : N) (n : nat) : Prop :=
  match n with
  | O => True
  | S n' =>
      (forall f, fq_get_frame q (add32 base i) = Some f -> N.testbit bits i = true -> le_acked f = true)
      /\ all_claimed_acked q base bits (i + 1) n'
  end.

Lemma ack_apply_replay q s base bits rtt : forall n i a,
  span_logged q base i n -> all_claimed_acked q base bits i n ->
  exists a', ack_apply q s base bits i n rtt a = Ok (q, s, a') /\ aa_new a' = aa_new a.
Proof.
  induction n as [|n IH]; intros i a Hl Ha; cbn [ack_apply span_logged all_claimed_acked] in *; [eauto|].
  destruct Hl as [[f Hf] Hl]. destruct Ha as [Hc Ha]. rewrite Hf.
  destruct (N.testbit bits i) eqn:Eb.
  - rewrite (Hc f Hf eq_refl). cbn [negb andb].
    destruct (IH (i + 1) (mkAckAcc (aa_last a) (aa_total a) (aa_rl a || le_rate_limited f) (aa_new a)) Hl Ha) as [a' [E1 E2]].
    exists a'. split; [exact E1|exact E2].
  - cbn [andb].
    destruct (IH (i + 1) (mkAckAcc (aa_last a) (aa_total a) (aa_rl a || le_rate_limited f) (aa_new a)) Hl Ha) as [a' [E1 E2]].
    exists a'. split; [exact E1|exact E2].
Qed.

Theorem ack_replay_identity q s ack rtt :
  all_claimed_acked q (ag_base ack) (ag_bits ack) 0 (N.to_nat (bitfield_size (ag_bits ack))) ->
  fq_acknowledge_group q s ack rtt = Ok (q, s).
Proof.
  intros Ha. unfold fq_acknowledge_group.
  destruct (bitfield_size (ag_bits ack) =? 0); [reflexivity|].
  destruct (ack_check q (ag_base ack) (ag_bits ack) 0 (N.to_nat (bitfield_size (ag_bits ack))) false) as [tn|] eqn:E; [|reflexivity].
  destruct (negb (Bool.eqb (ag_nonce ack) tn)); [reflexivity|].
  destruct (ack_apply_replay q s (ag_base ack) (ag_bits ack) rtt _ 0 (mkAckAcc 0 0 false false) (ack_check_some _ _ _ _ _ _ _ E) Ha) as [a' [E1 E2]].
  rewrite E1. cbn [bind]. cbn [aa_new] in E2. rewrite E2. reflexivity.
Qed.

(* 4. soundness of acceptance: if anything changes, every id of the span was logged by this sender and the
      nonce reproduces the parity of the claimed frames *)
Theorem ack_accept_sound q s ack rtt q' s' :
  fq_acknowledge_group q s ack rtt = Ok (q', s') -> (q', s') <> (q, s) ->
  span_logged q (ag_base ack) 0 (N.to_nat (bitfield_size (ag_bits ack))) /\
  ack_check q (ag_base ack) (ag_bits ack) 0 (N.to_nat (bitfield_size (ag_bits ack))) false = Some (ag_nonce ack).
Proof.
  intros H Hne. unfold fq_acknowledge_group in H.
  destruct (bitfield_size (ag_bits ack) =? 0); [inversion H; subst; contradiction|].
  destruct (ack_check q (ag_base ack) (ag_bits ack) 0 (N.to_nat (bitfield_size (ag_bits ack))) false) as [tn|] eqn:E;
    [|inversion H; subst; contradiction].
  destruct (Bool.eqb (ag_nonce ack) tn) eqn:Eb; cbn [negb] in H; [|inversion H; subst; contradiction].
  apply Bool.eqb_prop in Eb. subst tn. split; [eapply ack_check_some; exact E|reflexivity].
Qed.

(* a group with an empty bitfield is a dud *)
Theorem ack_dud_identity q s base nonce rtt : fq_acknowledge_group q s (mkAg base 0 nonce) rtt = Ok (q, s).
Proof. reflexivity. Qed.
