(* TsEpoch.v — C12, TimeSensitive clause at the send queue: send() stamps a packet with the current flush epoch,
   step() moves to the next epoch, and emit_packet — the only place that takes packets off the send queue — drops
   nothing but TimeSensitive packets of another epoch from the front and hands out a TimeSensitive packet only in
   the epoch it was stamped with. A TimeSensitive packet whose transmission has not begun by the next step() is
   therefore never pulled for transmission (epochs are u32 counters: "another epoch" is up to 2^32 steps). *)
From Coq Require Import ZArith Lia ZifyBool ZifyN ZifyNat.
From UF Require Import Consts Base Frame Codec F64 Feedback Sender Receiver FrameAck Heap FrameQueue SendRate HalfConn BaseLemmas.
Local Open Scope N_scope.

Definition stale_ts (fid : N) (e : send_entry) : Prop := se_mode e = TimeSensitive /\ se_flush e <> fid.

Lemma drop_stale_spec fid : forall q tot q' tot',
  drop_stale q fid tot = (q', tot') ->
  exists dropped, q = dropped ++ q' /\ Forall (stale_ts fid) dropped /\
    match q' with e :: _ => se_mode e = TimeSensitive -> se_flush e = fid | [] => True end.
Proof.
  induction q as [|e t IH]; intros tot q' tot' E; cbn [drop_stale] in E.
  - inversion E; subst. exists []. split; [reflexivity|]. split; [constructor|exact I].
  - destruct (se_mode e) eqn:Em; try (inversion E; subst; exists []; split; [reflexivity|]; split; [constructor|]; rewrite Em; discriminate).
    destruct (N.eqb_spec (se_flush e) fid) as [Ef|Ef]; cbn [negb] in E.
    + inversion E; subst. exists []. split; [reflexivity|]. split; [constructor|]. intros _. reflexivity.
    + destruct (IH _ _ _ E) as (d & E1 & F1 & H1). exists (e :: d). split; [rewrite E1; reflexivity|].
      split; [constructor; [split; assumption|exact F1]|exact H1].
Qed.

(* emit_packet hands out the first packet that is not a stale TimeSensitive one; whatever it removed before it was
   TimeSensitive and of another epoch; a TimeSensitive packet is handed out only in its own epoch *)
Theorem emit_packet_epoch s fid s' uid r :
  sender_emit_packet s fid = (s', Some (uid, r)) ->
  exists dropped e rest,
    s_queue s = dropped ++ e :: rest /\ s_queue s' = rest /\ Forall (stale_ts fid) dropped /\
    (se_mode e = TimeSensitive -> se_flush e = fid) /\ r = is_resend (se_mode e) /\
    exists we, nth_error (s_win s') (length (s_win s)) = Some we /\ pp_data (we_packet we) = se_data e.
Proof.
  unfold sender_emit_packet. destruct (drop_stale (s_queue s) fid (s_total s)) as [q total] eqn:Ed.
  destruct (drop_stale_spec _ _ _ _ _ Ed) as (d & E1 & F1 & H1).
  destruct q as [|e q']; [intros H; inversion H|].
  destruct (s_wsize s <=? _); [intros H; inversion H|]. destruct (s_max_alloc s <? _); [intros H; inversion H|].
  intros H. inversion H; subst. exists d, e, q'. cbn [s_queue s_win].
  split; [exact E1|]. split; [reflexivity|]. split; [exact F1|]. split; [exact H1|]. split; [reflexivity|].
  eexists. split; [rewrite nth_error_app2 by lia; rewrite Nat.sub_diag; reflexivity|reflexivity].
Qed.

Theorem emit_packet_none s fid s' :
  sender_emit_packet s fid = (s', None) ->
  exists dropped, s_queue s = dropped ++ s_queue s' /\ Forall (stale_ts fid) dropped.
Proof.
  unfold sender_emit_packet. destruct (drop_stale (s_queue s) fid (s_total s)) as [q total] eqn:Ed.
  destruct (drop_stale_spec _ _ _ _ _ Ed) as (d & E1 & F1 & _).
  destruct q as [|e q']; [intros H; inversion H; subst; exists d; cbn [s_queue]; split; assumption|].
  destruct (s_wsize s <=? _); [intros H; inversion H; subst; exists d; cbn [s_queue]; split; assumption|].
  destruct (s_max_alloc s <? _); [intros H; inversion H; subst; exists d; cbn [s_queue]; split; assumption|].
  intros H; inversion H.
Qed.

(* send() stamps the current epoch; step() moves to the next one *)
Theorem send_stamps_epoch h d c m :
  s_queue (h_snd (hc_send h d c m)) = s_queue (h_snd h) ++ [mkSendEntry d c m (h_flush_id h)] /\
  h_flush_id (hc_send h d c m) = h_flush_id h.
Proof. unfold hc_send, sender_enqueue. cbn. split; reflexivity. Qed.

Theorem step_next_epoch h now h' : hc_step h now = Ok h' -> h_flush_id h' = add32 (h_flush_id h) 1 /\ h_snd h' = h_snd h.
Proof.
  unfold hc_step. intros E.
  destruct (fq_forget_frames _ _ _) as [q1| |]; cbn [bind] in E; try discriminate.
  destruct (fq_get_feedback q1 now) as [q2 fb]. destruct (src_step (h_src h) now fb) as [[src' reset]| |]; cbn [bind] in E; try discriminate.
  match type of E with (do q3 <- ?X; _) = _ => destruct X as [q3| |]; cbn [bind] in E; try discriminate end.
  inversion E; subst. cbn. split; reflexivity.
Qed.
