(* HcTotal.v — the half-connection's frame queue and sender invariants hold in every state any sequence of
   HalfConnection operations can reach, and from every such state every acknowledgement frame — whatever its
   contents — is handled without a panic (data and sync frames are handled by total functions). *)
From Coq Require Import ZArith Lia ZifyBool ZifyN ZifyNat.
From UF Require Import Consts Base Frame Codec F64 Feedback Sender Receiver FrameAck Heap FrameQueue SendRate HalfConn
                       BaseLemmas SenderProofs AckProofs ReorderProofs FrameQueueProofs.
Local Open Scope N_scope.

Definition HcInv (h : hc) : Prop := FqInv (h_fq h) /\ SWf (h_snd h).

Lemma HcInv_ext h h' : h_fq h' = h_fq h -> h_snd h' = h_snd h -> HcInv h -> HcInv h'.
Proof. unfold HcInv. intros -> ->. auto. Qed.

Definition cfg_ok (c : hc_config) : Prop :=
  cfg_tx_frame_base c < pow32 /\ cfg_tx_frame_window c + cfg_tx_frame_window c < HALF32 /\
  cfg_tx_packet_window c <= MAX_PACKET_WINDOW_SIZE /\ cfg_tx_packet_base c < pow20.

Lemma hc_new_inv c seed : cfg_ok c -> HcInv (hc_new c seed).
Proof.
  intros (H1 & H2 & H3 & H4). split; cbn [hc_new h_fq h_snd].
  - apply fq_new_inv; assumption.
  - apply sender_new_wf; assumption.
Qed.

(* ---------- acknowledgement frames ---------- *)
Lemma ack_fragments_wf refs : forall s, SWf s -> SWf (ack_fragments s refs).
Proof. induction refs as [|r t IH]; intros s W; cbn [ack_fragments]; [exact W|]. apply IH. apply ack_fragment_wf. exact W. Qed.

Lemma ack_apply_sender_wf base bits rtt : forall n i q s a q' s' a',
  ack_apply q s base bits i n rtt a = Ok (q', s', a') -> SWf s -> SWf s'.
Proof.
  induction n as [|n IH]; intros i q s a q' s' a' E W; cbn [ack_apply] in E.
  - inversion E; subst. exact W.
  - destruct (fq_get_frame q (add32 base i)) as [f|]; [|discriminate].
    destruct (N.testbit bits i && negb (le_acked f)).
    + destruct (fq_notify_ack _ _ _) as [q2| |]; cbn [bind] in E; try discriminate.
      eapply IH; [exact E|]. apply ack_fragments_wf. exact W.
    + eapply IH; eassumption.
Qed.

Lemma fq_acknowledge_group_sender_wf q s ack rtt q' s' :
  fq_acknowledge_group q s ack rtt = Ok (q', s') -> SWf s -> SWf s'.
Proof.
  unfold fq_acknowledge_group. intros E W.
  destruct (bitfield_size (ag_bits ack) =? 0); [inversion E; subst; exact W|].
  destruct (ack_check _ _ _ _ _ _); [|inversion E; subst; exact W].
  destruct (negb _); [inversion E; subst; exact W|].
  destruct (ack_apply _ _ _ _ _ _ _ _) as [[[q1 s1] a1]| |] eqn:Ea; cbn [bind] in E; try discriminate.
  assert (W1 : SWf s1) by (eapply ack_apply_sender_wf; eassumption).
  destruct (aa_new a1); inversion E; subst; exact W1.
Qed.

Lemma ack_groups_total rtt : forall acks q s,
  FqInv q -> SWf s -> exists q' s', ack_groups q s acks rtt = Ok (q', s') /\ FqInv q' /\ SWf s'.
Proof.
  induction acks as [|a t IH]; intros q s I W; cbn [ack_groups]; [eauto|].
  destruct (fq_acknowledge_group_total q s a rtt I) as (q1 & s1 & E & I1 & _).
  rewrite E. cbn [bind fst snd]. apply IH; [exact I1|]. eapply fq_acknowledge_group_sender_wf; eassumption.
Qed.

Theorem hc_handle_ack_frame_total h fbase pbase acks :
  HcInv h -> fbase < pow32 ->
  exists h', hc_handle_ack_frame h fbase pbase acks = Ok h' /\ HcInv h'.
Proof.
  intros [I W] Hf. unfold hc_handle_ack_frame.
  destruct (ack_groups_total (sr_rtt_ms (h_src h)) acks (h_fq h) (h_snd h) I W) as (q1 & s1 & E1 & I1 & W1).
  rewrite E1. cbn [bind fst snd].
  destruct (fq_advance_transfer_window_total q1 fbase (sr_rtt_ms (h_src h)) I1 Hf) as (q2 & E2 & I2).
  rewrite E2. cbn [bind].
  destruct (acknowledge_wf s1 pbase W1) as (s2 & E3 & W2). rewrite E3. cbn [bind].
  eexists. split; [reflexivity|]. split; cbn [set_snd set_fq h_fq h_snd]; assumption.
Qed.

(* every frame the reader can produce: its 32-bit fields are below 2^32 *)
Definition frame_u32_ok (f : frame) : Prop :=
  match f with FAcks fb _ _ => fb < pow32 | _ => True end.

Theorem hc_handle_frame_total h f :
  HcInv h -> frame_u32_ok f -> exists h' k, hc_handle_frame h f = Ok (h', k) /\ HcInv h'.
Proof.
  intros I Hf. destruct f as [v n a b c|na n a b c|na|na e| | |seq nonce dgs|nf np|fb pb acks]; cbn [hc_handle_frame];
    try (exists h; eexists; split; [reflexivity|exact I]).
  - eexists _, _. split; [reflexivity|]. unfold hc_handle_data_frame.
    destruct (faq_contains _ _); [|exact I]. revert I. apply HcInv_ext; reflexivity.
  - eexists _, _. split; [reflexivity|]. unfold hc_handle_sync_frame.
    revert I. apply HcInv_ext; destruct nf, np; reflexivity.
  - destruct (hc_handle_ack_frame_total h fb pb acks I Hf) as (h' & E & I'). rewrite E. cbn [bind].
    eexists _, _. split; [reflexivity|exact I'].
Qed.

(* ---------- application-side operations keep the invariant ---------- *)
Lemma hc_send_inv h d c m : HcInv h -> HcInv (hc_send h d c m).
Proof. intros [I W]. split; cbn [hc_send set_snd h_fq h_snd]; [exact I|apply enqueue_wf; exact W]. Qed.

Lemma hc_receive_inv h : HcInv h -> HcInv (fst (hc_receive h)).
Proof. unfold hc_receive. destruct (receiver_receive (h_rcv h)) as [r out]. cbn [fst]. apply HcInv_ext; reflexivity. Qed.

Lemma hc_step_inv h now h' : hc_step h now = Ok h' -> HcInv h -> HcInv h'.
Proof.
  unfold hc_step. intros E [I W].
  destruct (fq_forget_frames_total (h_fq h) (now - N.max (opt_default INITIAL_RTT_ESTIMATE_MS (sr_rtt_ms (h_src h)) * 4) (opt_default INITIAL_RTO_ESTIMATE_MS (sr_rto_ms (h_src h))))
              (sr_rtt_ms (h_src h)) I) as (q1 & E1 & I1).
  rewrite E1 in E. cbn [bind] in E.
  pose proof (fq_get_feedback_inv q1 now I1) as I2.
  destruct (fq_get_feedback q1 now) as [q2 fb]. cbn [fst] in I2.
  destruct (src_step (h_src h) now fb) as [[src' reset]| |]; cbn [bind] in E; try discriminate.
  destruct reset as [p|].
  - destruct (fq_reset_loss_rate q2 p) as [q3| |] eqn:E3; cbn [bind] in E; try discriminate.
    inversion E; subst. split; cbn [h_fq h_snd]; [eapply fq_reset_loss_rate_inv; eassumption|exact W].
  - cbn [bind] in E. inversion E; subst. split; cbn [h_fq h_snd]; assumption.
Qed.

(* ---------- flush: the data frame emitter ---------- *)
Definition EI (e : emit_state) : Prop := HcInv (es_h e).

Lemma dfe_finalize_inv e : EI e -> EI (dfe_finalize e).
Proof.
  unfold EI, dfe_finalize. destruct (es_ip e) as [f|]; [|auto]. intros [I W]. cbn [es_h].
  split; cbn [set_sync_base set_credit set_src set_fq h_fq h_snd]; [apply fq_push_inv; exact I|exact W].
Qed.

Lemma mark_rate_limited_inv e : EI e -> EI (mark_rate_limited e).
Proof.
  unfold EI, mark_rate_limited. intros [I W]. cbn [es_h]. split; cbn [set_fq h_fq h_snd]; [apply fq_set_rate_limited_inv; exact I|exact W].
Qed.

Lemma dfe_push_new_inv e dg ref resend : EI e -> EI (fst (dfe_push_new e dg ref resend)).
Proof.
  intros H. unfold dfe_push_new. destruct (h_credit (es_h e) <? 0)%Z; cbn [fst]; [apply mark_rate_limited_inv; exact H|].
  destruct (negb (fq_can_push (h_fq (es_h e)))); cbn [fst]; exact H.
Qed.

Lemma dfe_push_inv e uid frag resend e1 r : dfe_push e uid frag resend = Ok (e1, r) -> EI e -> EI e1.
Proof.
  unfold dfe_push. intros E H. destruct (sender_lookup _ _) as [we|]; [|discriminate].
  destruct (es_ip e) as [f|] eqn:Eip.
  - destruct (h_credit (es_h e) - Z.of_N (ip_size f) <? 0)%Z.
    + inversion E; subst. apply mark_rate_limited_inv, dfe_finalize_inv. exact H.
    + destruct ((MAX_FRAME_SIZE <? _) || _).
      * inversion E as [E']. pose proof (dfe_push_new_inv (dfe_finalize e) (pp_datagram (we_packet we) frag) (mkFragRef uid frag) resend (dfe_finalize_inv e H)) as P.
        rewrite E' in P. exact P.
      * inversion E; subst. exact H.
  - inversion E as [E']. pose proof (dfe_push_new_inv e (pp_datagram (we_packet we) frag) (mkFragRef uid frag) resend H) as P.
    rewrite E' in P. exact P.
Qed.

Lemma dfe_check_push_inv e : EI e -> EI (fst (dfe_check_push e)).
Proof.
  intros H. unfold dfe_check_push.
  destruct (es_ip e) as [f|]; cbv beta iota;
    (destruct (h_credit (es_h e) - Z.of_N _ <? 0)%Z; cbn [fst]; [apply mark_rate_limited_inv, dfe_finalize_inv; exact H|]);
    destruct (negb (fq_can_push_count _ _)); cbn [fst]; exact H.
Qed.

Lemma EI_set_rq e rq : EI e -> EI (mkEs (set_rq (es_h e) rq) (es_ip e) (es_out e)).
Proof. unfold EI. cbn [es_h]. apply HcInv_ext; reflexivity. Qed.
Lemma EI_set_pq e pq : EI e -> EI (mkEs (set_pq (es_h e) pq) (es_ip e) (es_out e)).
Proof. unfold EI. cbn [es_h]. apply HcInv_ext; reflexivity. Qed.

Lemma resend_loop_inv : forall fuel e e' fl, resend_loop fuel e = Ok (e', fl) -> EI e -> EI e'.
Proof.
  induction fuel as [|fuel IH]; intros e e' fl E H; cbn [resend_loop] in E; [discriminate|].
  destruct (heap_peek (h_rq (es_h e))) as [ent|]; [|inversion E; subst; exact H].
  destruct (sender_lookup (h_snd (es_h e)) (rq_uid ent)) as [we|].
  2:{ eapply IH; [exact E|]. apply EI_set_rq. exact H. }
  destruct (pp_fragment_acked (we_packet we) (rq_frag ent)).
  { eapply IH; [exact E|]. apply EI_set_rq. exact H. }
  destruct (h_now (es_h e) <? rq_time ent); [inversion E; subst; exact H|].
  destruct (dfe_push e (rq_uid ent) (rq_frag ent) true) as [[e1 r]| |] eqn:Ep; cbn [bind] in E; try discriminate.
  pose proof (dfe_push_inv _ _ _ _ _ _ Ep H) as H1.
  destruct r as [[|]|]; try (inversion E; subst; exact H1).
  destruct (heap_pop (h_rq (es_h e1))) as [[ent1 rq1]|]; [|discriminate].
  eapply IH; [exact E|]. apply EI_set_rq. exact H1.
Qed.

Lemma pending_inner_inv : forall fuel e e' fl, pending_inner fuel e = Ok (e', fl) -> EI e -> EI e'.
Proof.
  induction fuel as [|fuel IH]; intros e e' fl E H; cbn [pending_inner] in E; [discriminate|].
  destruct (h_pq (es_h e)) as [|ent rest]; [inversion E; subst; exact H|].
  destruct (sender_lookup (h_snd (es_h e)) (pq_uid ent)) as [we|].
  2:{ eapply IH; [exact E|]. apply EI_set_pq. exact H. }
  destruct (pp_fragment_acked (we_packet we) (pq_frag ent)).
  { eapply IH; [exact E|]. apply EI_set_pq. exact H. }
  destruct (dfe_push e (pq_uid ent) (pq_frag ent) (pq_resend ent)) as [[e1 r]| |] eqn:Ep; cbn [bind] in E; try discriminate.
  pose proof (dfe_push_inv _ _ _ _ _ _ Ep H) as H1.
  destruct r as [[|]|]; try (inversion E; subst; exact H1).
  eapply IH; [exact E|]. unfold EI in *. cbn [es_h]. revert H1. apply HcInv_ext; destruct (pq_resend ent); reflexivity.
Qed.

Lemma pending_outer_inv : forall fuel e e' fl, pending_outer fuel e = Ok (e', fl) -> EI e -> EI e'.
Proof.
  induction fuel as [|fuel IH]; intros e e' fl E H; cbn [pending_outer] in E; [discriminate|].
  match type of E with (do r0 <- ?X; _) = _ => destruct X as [[e2 fl2]| |] eqn:E0 end; cbn [bind] in E; try discriminate.
  assert (H2 : EI e2).
  { destruct (h_pq (es_h e)) as [|p ps]; [|inversion E0; subst; exact H].
    pose proof (dfe_check_push_inv e H) as Hc. destruct (dfe_check_push e) as [e1 r]. cbn [fst] in Hc.
    destruct r as [[|]|].
    - inversion E0; subst. exact Hc.
    - inversion E0; subst. apply dfe_finalize_inv. exact Hc.
    - pose proof (emit_packet_wf (h_snd (es_h e1)) (h_flush_id (es_h e1)) (proj2 Hc)) as Wn.
      destruct (sender_emit_packet (h_snd (es_h e1)) (h_flush_id (es_h e1))) as [s' r]. cbn [fst] in Wn.
      destruct r as [[uid resend]|].
      + destruct (sender_lookup s' uid) as [we|]; [|discriminate]. inversion E0; subst.
        unfold EI. cbn [es_h]. split; cbn [set_pq set_snd h_fq h_snd]; [exact (proj1 Hc)|exact Wn].
      + inversion E0; subst. unfold EI. cbn [es_h]. split; cbn [set_snd h_fq h_snd]; [exact (proj1 Hc)|exact Wn]. }
  destruct fl2; try (inversion E; subst; exact H2).
  destruct (pending_inner _ e2) as [[e3 fl3]| |] eqn:E3; cbn [bind] in E; try discriminate.
  pose proof (pending_inner_inv _ _ _ _ E3 H2) as H3.
  destruct fl3; try (inversion E; subst; exact H3).
  eapply IH; eassumption.
Qed.

Lemma emit_data_frames_inv fuel h out h' out' ok :
  emit_data_frames fuel h out = Ok (h', out', ok) -> HcInv h -> HcInv h'.
Proof.
  unfold emit_data_frames. intros E H.
  destruct (resend_loop fuel (mkEs h None out)) as [[e fl]| |] eqn:E1; cbn [bind] in E; try discriminate.
  pose proof (resend_loop_inv _ _ _ _ E1 H) as H1.
  destruct fl; try (inversion E; subst; exact H1).
  - destruct (pending_outer fuel e) as [[e2 fl2]| |] eqn:E2; cbn [bind] in E; try discriminate.
    pose proof (pending_outer_inv _ _ _ _ E2 H1) as H2.
    destruct fl2; inversion E; subst; try exact H2; apply dfe_finalize_inv; exact H2.
  - destruct (pending_outer fuel e) as [[e2 fl2]| |] eqn:E2; cbn [bind] in E; try discriminate.
    pose proof (pending_outer_inv _ _ _ _ E2 H1) as H2.
    destruct fl2; inversion E; subst; try exact H2; apply dfe_finalize_inv; exact H2.
Qed.

(* ---------- flush: acknowledgement and sync frames touch neither the frame queue nor the sender ---------- *)
Definition same_core (h h' : hc) : Prop := h_fq h' = h_fq h /\ h_snd h' = h_snd h /\ h_src h' = h_src h /\ h_rcv h' = h_rcv h.

Lemma same_core_refl h : same_core h h. Proof. repeat split. Qed.
Lemma same_core_trans a b c : same_core a b -> same_core b c -> same_core a c.
Proof. intros (A1 & A2 & A3 & A4) (B1 & B2 & B3 & B4). repeat split; congruence. Qed.

Lemma afe_finalize_core a : same_core (as_h a) (as_h (afe_finalize a)).
Proof. unfold afe_finalize. destruct (as_ip a); [|apply same_core_refl]. cbn [as_h]. repeat split. Qed.

Lemma afe_push_new_core a g : same_core (as_h a) (as_h (fst (afe_push_new a g))).
Proof. unfold afe_push_new. destruct (h_credit (as_h a) <? 0)%Z; cbn [fst as_h]; apply same_core_refl. Qed.

Lemma afe_push_core a g : same_core (as_h a) (as_h (fst (afe_push a g))).
Proof.
  unfold afe_push. destruct (as_ip a) as [f|] eqn:E; [|apply afe_push_new_core].
  destruct (h_credit (as_h a) - Z.of_N (ai_size f) <? 0)%Z; cbn [fst]; [apply afe_finalize_core|].
  destruct (MAX_FRAME_SIZE <? ai_size f + ACK_GROUP_SIZE).
  - eapply same_core_trans; [apply afe_finalize_core|apply afe_push_new_core].
  - cbn [fst as_h]. apply same_core_refl.
Qed.

Lemma afe_push_dud_core a : same_core (as_h a) (as_h (fst (afe_push_dud a))).
Proof.
  unfold afe_push_dud. destruct (as_ip a); cbn [fst]; [apply same_core_refl|].
  destruct (h_credit (as_h a) <? 0)%Z; cbn [fst as_h]; apply same_core_refl.
Qed.

Lemma ack_loop_core : forall fuel a a' ok, ack_loop fuel a = Ok (a', ok) -> same_core (as_h a) (as_h a').
Proof.
  induction fuel as [|fuel IH]; intros a a' ok E; cbn [ack_loop] in E; [discriminate|].
  destruct (faq_peek (h_faq (as_h a))) as [g|]; [|inversion E; subst; apply same_core_refl].
  pose proof (afe_push_core a g) as P. destruct (afe_push a g) as [a1 ok1]. cbn [fst] in P.
  destruct ok1; [|inversion E; subst; exact P].
  eapply same_core_trans; [exact P|]. eapply same_core_trans; [|eapply IH; exact E]. cbn [as_h]. repeat split.
Qed.

Lemma emit_ack_frames_core h out h' out' ok : emit_ack_frames h out = Ok (h', out', ok) -> same_core h h'.
Proof.
  unfold emit_ack_frames. intros E.
  set (a0 := mkAs h None out (fa_base (h_faq h)) (r_base (h_rcv h))) in *.
  assert (P1 : same_core h (as_h (fst (if h_sync_reply h then afe_push_dud a0 else (a0, true))))).
  { destruct (h_sync_reply h); [apply (afe_push_dud_core a0)|apply same_core_refl]. }
  destruct (if h_sync_reply h then afe_push_dud a0 else (a0, true)) as [a1 ok1]. cbn [fst] in P1.
  destruct (negb ok1); [inversion E; subst; exact P1|].
  destruct (ack_loop _ a1) as [[a2 ok2]| |] eqn:E2; cbn [bind] in E; try discriminate.
  pose proof (ack_loop_core _ _ _ _ E2) as P2.
  destruct ok2; inversion E; subst.
  - eapply same_core_trans; [exact P1|]. eapply same_core_trans; [exact P2|apply afe_finalize_core].
  - eapply same_core_trans; eassumption.
Qed.

Lemma emit_sync_frame_core h out : same_core h (fst (fst (emit_sync_frame h out))).
Proof.
  unfold emit_sync_frame. destruct (N.max (h_rto h) MIN_SYNC_TIMEOUT_MS <=? h_now h - h_sync_base h); [|apply same_core_refl].
  match goal with |- context [if ?c then (h, out, true) else _] => destruct c end; [apply same_core_refl|].
  destruct (h_credit h <? 0)%Z; cbn [fst]; [apply same_core_refl|]. repeat split.
Qed.

Lemma same_core_inv h h' : same_core h h' -> HcInv h -> HcInv h'.
Proof. intros (A & B & _ & _). apply HcInv_ext; assumption. Qed.

Lemma hc_flush_inv h h' out : hc_flush h = Ok (h', out) -> HcInv h -> HcInv h'.
Proof.
  unfold hc_flush. intros E H.
  destruct (emit_ack_frames h []) as [[[h1 out1] ok1]| |] eqn:E1; cbn [bind] in E; try discriminate.
  pose proof (same_core_inv _ _ (emit_ack_frames_core _ _ _ _ _ E1) H) as H1.
  destruct (negb ok1); [inversion E; subst; exact H1|].
  destruct (emit_data_frames (hc_flush_fuel h1) h1 out1) as [[[h2 out2] ok2]| |] eqn:E2; cbn [bind] in E; try discriminate.
  pose proof (emit_data_frames_inv _ _ _ _ _ _ E2 H1) as H2.
  destruct (negb ok2); [inversion E; subst; exact H2|].
  pose proof (emit_sync_frame_core h2 out2) as P3.
  destruct (emit_sync_frame h2 out2) as [[h3 out3] ok3]. cbn [fst] in P3. inversion E; subst.
  eapply same_core_inv; eassumption.
Qed.

(* ---------- every reachable state ---------- *)
Inductive hc_op :=
| OpSend (data : list N) (chan : N) (mode : send_mode)
| OpReceive
| OpStep (now : N)
| OpFlush
| OpFrame (f : frame).

Definition op_ok (o : hc_op) : Prop := match o with OpFrame f => frame_u32_ok f | _ => True end.

(* an operation that does not return normally leaves the state as it was (the theorem below shows that for
   frames this never happens) *)
Definition hc_apply (h : hc) (o : hc_op) : hc :=
  match o with
  | OpSend d c m => hc_send h d c m
  | OpReceive => fst (hc_receive h)
  | OpStep now => match hc_step h now with Ok h' => h' | _ => h end
  | OpFlush => match hc_flush h with Ok (h', _) => h' | _ => h end
  | OpFrame f => match hc_handle_frame h f with Ok (h', _) => h' | _ => h end
  end.

Lemma hc_apply_inv h o : op_ok o -> HcInv h -> HcInv (hc_apply h o).
Proof.
  intros Ho H. destruct o as [d c m| |now| |f]; cbn [hc_apply].
  - apply hc_send_inv. exact H.
  - apply hc_receive_inv. exact H.
  - destruct (hc_step h now) as [h'| |] eqn:E; [eapply hc_step_inv; eassumption|exact H|exact H].
  - destruct (hc_flush h) as [[h' out]| |] eqn:E; [eapply hc_flush_inv; eassumption|exact H|exact H].
  - destruct (hc_handle_frame_total h f H Ho) as (h' & k & E & H'). rewrite E. exact H'.
Qed.

Theorem hc_reachable_inv c seed ops :
  cfg_ok c -> Forall op_ok ops -> HcInv (fold_left hc_apply ops (hc_new c seed)).
Proof.
  intros Hc Ho. assert (G : forall h, HcInv h -> HcInv (fold_left hc_apply ops h)).
  { induction Ho as [|o ops Ho1 Ho2 IH]; intros h H; cbn [fold_left]; [exact H|]. apply IH. apply hc_apply_inv; assumption. }
  apply G. apply hc_new_inv. exact Hc.
Qed.

(* No frame — whatever its contents — makes a half-connection panic, in any state that any sequence of sends,
   receives, steps, flushes and earlier frames can reach. *)
Theorem hc_frame_never_panics c seed ops f :
  cfg_ok c -> Forall op_ok ops -> frame_u32_ok f ->
  exists h' k, hc_handle_frame (fold_left hc_apply ops (hc_new c seed)) f = Ok (h', k).
Proof.
  intros Hc Ho Hf. destruct (hc_handle_frame_total _ f (hc_reachable_inv c seed ops Hc Ho) Hf) as (h' & k & E & _).
  eauto.
Qed.
