(* CodecTotal.v — Frame::read never indexes out of range: read_frame bs is always `Ok _`. *)
From Coq Require Import ZArith Lia ZifyBool ZifyN ZifyNat.
From UF Require Import Consts Base Crc Frame Codec BaseLemmas.
Ltac Zify.zify_post_hook ::= Z.div_mod_to_equations.

Definition total {A} (r : res A) : Prop := exists a, r = Ok a.

Lemma get32_ok d i : i + 3 < len d -> exists v, get32 d i = Ok v.
Proof.
  intros H. unfold get32.
  destruct (get_not_panic d i) as [b0 H0]; [lia|].
  destruct (get_not_panic d (i+1)) as [b1 H1]; [lia|].
  destruct (get_not_panic d (i+2)) as [b2 H2]; [lia|].
  destruct (get_not_panic d (i+3)) as [b3 H3]; [lia|].
  rewrite H0, H1, H2, H3. cbn [bind]. eauto.
Qed.

Lemma get16_ok d i : i + 1 < len d -> exists v, get16 d i = Ok v.
Proof.
  intros H. unfold get16.
  destruct (get_not_panic d i) as [b0 H0]; [lia|].
  destruct (get_not_panic d (i+1)) as [b1 H1]; [lia|].
  rewrite H0, H1. cbn [bind]. eauto.
Qed.

Ltac use_get d i := let b := fresh "b" in let H := fresh "Hg" in
  destruct (get_not_panic d i) as [b H]; [lia | rewrite H; cbn [bind]].
Ltac use_get32 d i := let b := fresh "v" in let H := fresh "Hg" in
  destruct (get32_ok d i) as [b H]; [lia | rewrite H; cbn [bind]].
Ltac use_get16 d i := let b := fresh "v" in let H := fresh "Hg" in
  destruct (get16_ok d i) as [b H]; [lia | rewrite H; cbn [bind]].
Ltac use_slice d a b := let s := fresh "s" in let H := fresh "Hs" in let L := fresh "Ls" in
  destruct (slice_not_panic d a b) as [s [H L]]; [lia | lia | rewrite H; cbn [bind]].
Ltac use_slice_from d a := let s := fresh "s" in let H := fresh "Hs" in let L := fresh "Ls" in
  destruct (slice_from_not_panic d a) as [s [H L]]; [lia | rewrite H; cbn [bind]].
Ltac done_total := unfold total; eauto.

Lemma total_syn d : total (read_handshake_syn_payload d).
Proof.
  unfold read_handshake_syn_payload. cbv [HANDSHAKE_SYN_FRAME_PAYLOAD_SIZE].
  destruct (N.eqb_spec (len d) 1467); cbn [negb]; [|done_total].
  use_get d 0. use_get32 d 1. use_get32 d 5. use_get32 d 9. use_get32 d 13. done_total.
Qed.

Lemma total_syn_ack d : total (read_handshake_syn_ack_payload d).
Proof.
  unfold read_handshake_syn_ack_payload. cbv [HANDSHAKE_SYN_ACK_FRAME_PAYLOAD_SIZE].
  destruct (N.eqb_spec (len d) 20); cbn [negb]; [|done_total].
  use_get32 d 0. use_get32 d 4. use_get32 d 8. use_get32 d 12. use_get32 d 16. done_total.
Qed.

Lemma total_hs_ack d : total (read_handshake_ack_payload d).
Proof.
  unfold read_handshake_ack_payload. cbv [HANDSHAKE_ACK_FRAME_PAYLOAD_SIZE].
  destruct (N.eqb_spec (len d) 4); cbn [negb]; [|done_total].
  use_get32 d 0. done_total.
Qed.

Lemma total_hs_error d : total (read_handshake_error_payload d).
Proof.
  unfold read_handshake_error_payload. cbv [HANDSHAKE_ERROR_FRAME_PAYLOAD_SIZE].
  destruct (N.eqb_spec (len d) 5); cbn [negb]; [|done_total].
  use_get32 d 0. use_get d 4.
  destruct (b =? 0); [done_total|]. destruct (b =? 1); [done_total|]. destruct (b =? 2); done_total.
Qed.

Lemma total_disconnect d : total (read_disconnect_payload d).
Proof. unfold read_disconnect_payload. destruct (negb _); done_total. Qed.

Lemma total_disconnect_ack d : total (read_disconnect_ack_payload d).
Proof. unfold read_disconnect_ack_payload. destruct (negb _); done_total. Qed.

Lemma total_sync d : total (read_sync_payload d).
Proof.
  unfold read_sync_payload. cbv [SYNC_FRAME_PAYLOAD_SIZE].
  destruct (N.eqb_spec (len d) 9); cbn [negb]; [|done_total].
  use_get d 0.
  destruct (negb (b mod 2 =? 0)); destruct (negb ((b / 2) mod 2 =? 0)).
  - use_get32 d 1. use_get32 d 5. done_total.
  - use_get32 d 1. done_total.
  - cbn [bind]. use_get32 d 5. done_total.
  - cbn [bind]. done_total.
Qed.

(* read_datagram: total, and a consumed size never exceeds the input *)
Lemma read_datagram_total d :
  exists r, read_datagram d = Ok r /\ forall dg sz, r = Some (dg, sz) -> sz <= len d.
Proof.
  unfold read_datagram. cbv [DATAGRAM_HEADER_SIZE_MIN DATAGRAM_HEADER_SIZE_MICRO DATAGRAM_HEADER_SIZE_SMALL DATAGRAM_HEADER_SIZE_LARGE].
  destruct (N.ltb_spec (len d) 6) as [H6|H6]; [eexists; split; [reflexivity|discriminate]|].
  use_get d 0.
  destruct (b / 128 =? 0).
  - destruct (N.ltb_spec (len d) (6 + b mod 64)) as [Ht|Ht]; [eexists; split; [reflexivity|discriminate]|].
    use_get d 1. use_get d 2. use_get d 3. use_get d 4. use_get d 5.
    use_slice d 6 (6 + b mod 64).
    eexists; split; [reflexivity|]. intros dg sz E. inversion E; subst. lia.
  - destruct ((b / 64) mod 2 =? 0).
    + use_get d 1.
      destruct (N.ltb_spec (len d) (9 + b0)) as [Ht|Ht]; [eexists; split; [reflexivity|discriminate]|].
      use_get d 2. use_get d 3. use_get d 4. use_get16 d 5. use_get16 d 7.
      use_slice d 9 (9 + b0).
      eexists; split; [reflexivity|]. intros dg sz E. inversion E; subst. lia.
    + use_get16 d 1.
      destruct (N.ltb_spec (len d) (14 + v)) as [Ht|Ht]; [eexists; split; [reflexivity|discriminate]|].
      use_get d 3. use_get d 4. use_get d 5. use_get16 d 6. use_get16 d 8. use_get16 d 10. use_get16 d 12.
      use_slice d 14 (14 + v).
      eexists; split; [reflexivity|]. intros dg sz E. inversion E; subst. lia.
Qed.

Lemma read_datagrams_total n : forall d acc, total (read_datagrams n d acc).
Proof.
  induction n as [|n IH]; intros d acc; cbn [read_datagrams]; [done_total|].
  destruct (read_datagram_total d) as [r [Hr Hsz]]. rewrite Hr. cbn [bind].
  destruct r as [[dg sz]|]; [|done_total].
  specialize (Hsz dg sz eq_refl).
  use_slice_from d sz. apply IH.
Qed.

Lemma total_data d : total (read_data_payload d).
Proof.
  unfold read_data_payload. cbv [DATA_FRAME_PAYLOAD_HEADER_SIZE].
  destruct (N.ltb_spec (len d) 5); [done_total|].
  use_get32 d 0. use_get d 4. use_slice_from d 5.
  destruct (read_datagrams_total (N.to_nat (b mod 128)) s []) as [r Hr]. rewrite Hr. cbn [bind].
  destruct r as [[dgs rest]|]; [|done_total]. destruct (negb _); done_total.
Qed.

Lemma read_frame_ack_total d :
  exists r, read_frame_ack d = Ok r /\ forall ag sz, r = Some (ag, sz) -> sz <= len d.
Proof.
  unfold read_frame_ack. cbv [ACK_GROUP_SIZE].
  destruct (N.ltb_spec (len d) 9) as [H|H]; [eexists; split; [reflexivity|discriminate]|].
  use_get32 d 0. use_get32 d 4. use_get d 8.
  eexists; split; [reflexivity|]. intros ag sz E. inversion E; subst. lia.
Qed.

Lemma read_frame_acks_total n : forall d acc, total (read_frame_acks n d acc).
Proof.
  induction n as [|n IH]; intros d acc; cbn [read_frame_acks]; [done_total|].
  destruct (read_frame_ack_total d) as [r [Hr Hsz]]. rewrite Hr. cbn [bind].
  destruct r as [[ag sz]|]; [|done_total].
  specialize (Hsz ag sz eq_refl).
  use_slice_from d sz. apply IH.
Qed.

Lemma total_acks d : total (read_ack_payload d).
Proof.
  unfold read_ack_payload. cbv [ACK_FRAME_PAYLOAD_HEADER_SIZE].
  destruct (N.ltb_spec (len d) 10); [done_total|].
  use_get32 d 0. use_get32 d 4. use_get16 d 8. use_slice_from d 10.
  destruct (read_frame_acks_total (N.to_nat v1) s []) as [r Hr]. rewrite Hr. cbn [bind].
  destruct r as [[acks rest]|]; [|done_total]. destruct (negb _); done_total.
Qed.

Lemma total_payload ty d : total (read_payload ty d).
Proof.
  unfold read_payload.
  repeat match goal with |- total (if ?c then _ else _) => destruct c end;
    auto using total_syn, total_syn_ack, total_hs_ack, total_hs_error, total_disconnect,
               total_disconnect_ack, total_data, total_sync, total_acks.
  done_total.
Qed.

Theorem read_frame_total bs : exists r, read_frame bs = Ok r.
Proof.
  unfold read_frame.
  destruct (N.ltb_spec (len bs) 5) as [H|H]; [eauto|].
  use_slice bs 0 (len bs - 4). use_get32 bs (len bs - 4).
  destruct (negb _); [eauto|].
  use_slice bs 1 (len bs - 4). use_get bs 0.
  apply total_payload.
Qed.
